(* C04 proofs, part 4: the round trip of every exported operation ([rtp_step]). *)
From stdpp Require Import gmap.
From RecordUpdate Require Import RecordSet.
From V.Base Require Import Hex BigEndian.
From V.C04 Require Import Model Sim Undo Roundtrip.
Import RecordSetNotations.
Local Open Scope N_scope.

Ltac dstate s := destruct s as [tr cs tok pp ob ds jn rv nr rf th lg ls aa asl tn].
Ltac sim_triv := apply sim_of_rest; [repeat split | intros ?b; apply orel_refl].

(* ---------- logs ---------- *)
Definition add_log (p : N) (s : state) : state :=
  (push (ELog (thash s)) s) <| logs := <[thash s := getlogs s (thash s) ++ [(p, logsize s)]]> (logs s) |>
                            <| logsize := logsize s + 1 |>.

Lemma rtp_addlog ex tch p s : wf_al s -> RTp ex tch s (add_log p s).
Proof.
  intros Hw. exists [ELog (thash s)]. rt_split; try reflexivity; try (split; reflexivity); auto.
  2: repeat constructor.
  cbn [rev app undo_list fold_left undo]. change (sim ex (undo_log (thash s) (add_log p s)) s).
  set (X := add_log p s).
  destruct (undo_log_fields (thash s) X) as (H1&H2&H3&H4&H5&H6&H7&H8&H9&H10&H11&_).
  assert (HX : getlogs X (thash s) = getlogs s (thash s) ++ [(p, logsize s)]).
  { unfold getlogs at 1. unfold X, add_log. cbn. rewrite lookup_insert. reflexivity. }
  split; try (etransitivity; [eassumption|]; reflexivity).
  - rewrite H7. unfold X, add_log. cbn. lia.
  - intros h'. rewrite getlogs_undo_log. destruct (decide (h' = thash s)) as [->|Hn].
    + rewrite HX. rewrite app_length. cbn [length]. rewrite removelast_last.
      destruct (getlogs s (thash s)) as [|x l]; cbn [length]; [reflexivity|].
      replace (S (length l) + 1 =? 1)%nat with false; [reflexivity|]. symmetry. apply Nat.eqb_neq. lia.
    + unfold getlogs. unfold X, add_log. cbn. rewrite lookup_insert_ne by congruence. reflexivity.
  - intros a k. unfold tget. rewrite H8. reflexivity.
  - intros b. rewrite H3, H2, look_undo_log. apply orel_refl.
Qed.

(* ---------- refund ---------- *)
Lemma rtp_refund ex tch n s : wf_al s -> RTp ex tch s (push (ERefund (refund s)) s <| refund := n |>).
Proof.
  intros Hw. exists [ERefund (refund s)]. rt_split; try reflexivity; try (split; reflexivity); auto.
  2: repeat constructor.
  cbn. dstate s. cbn. apply sim_of_rest; [repeat split|]. intros b. apply orel_refl.
Qed.

(* ---------- transient storage ---------- *)
Lemma wf_al_tset a k v s : wf_al s -> wf_al (tset a k v s).
Proof.
  destruct (tset_fields a k v s) as (_&_&_&_&_&_&_&_&H1&H2&_). intros H. eapply wf_al_same; eauto.
Qed.

Lemma rtp_transient ex tch a k v s :
  wf_al s -> tget s a k <> v -> RTp ex tch s (tset a k v (push (ETransient a k (tget s a k)) s)).
Proof.
  intros Hw Hne. set (X := tset a k v (push (ETransient a k (tget s a k)) s)).
  destruct (tset_fields a k v (push (ETransient a k (tget s a k)) s)) as (H1&H2&H3&H4&H5&H6&H7&H8&H9&H10&H11&H12&H13&H14&H15).
  fold X in H1, H2, H3, H4, H5, H6, H7, H8, H9, H10, H11, H12, H13, H14, H15.
  exists [ETransient a k (tget s a k)]. rt_split; auto.
  - cbn [rev app undo_list fold_left undo].
    destruct (tset_fields a k (tget s a k) X) as (G1&G2&G3&G4&G5&G6&G7&G8&G9&G10&G11&_).
    split; try (etransitivity; [eassumption|]; etransitivity; [eassumption|]; reflexivity).
    + intros h. unfold getlogs. rewrite G8, H8. reflexivity.
    + intros a' k'. rewrite tget_tset. unfold X. rewrite tget_tset.
      destruct (decide (a' = a /\ k' = k)) as [[-> ->]|]; reflexivity.
    + intros b. rewrite G3, G2, look_tset. unfold X. rewrite look_tset. apply orel_refl.
  - apply wf_al_tset. exact Hw.
  - split; assumption.
  - repeat constructor.
Qed.

(* ---------- access list ---------- *)
Lemma sim_al ex s aa' sl' : al_addrs s = aa' -> al_slots s = sl' -> sim ex (s <| al_addrs := aa' |> <| al_slots := sl' |>) s.
Proof. intros <- <-. dstate s. apply sim_refl. Qed.

Lemma rtp_aladdr ex tch a s : wf_al s -> RTp ex tch s (al_add_addr a s).
Proof.
  intros Hw. unfold al_add_addr. destruct (al_addrs s !! a) as [i|] eqn:Ha; [apply rtp_refl, Hw|].
  exists [EALAddr a]. rt_split; try reflexivity; try (split; reflexivity).
  - cbn. dstate s. cbn in *. rewrite delete_insert by assumption. sim_triv.
  - intros b idx. cbn. destruct (decide (b = a)) as [->|].
    + rewrite lookup_insert. intros [= <-]. left. reflexivity.
    + rewrite lookup_insert_ne by congruence. apply Hw.
  - repeat constructor.
Qed.

Lemma wf_al_new_slot a k s : wf_al s -> (al_addrs s !! a = None \/ al_addrs s !! a = Some (-1)%Z) -> wf_al (al_new_slot a k s).
Proof.
  intros Hw Ha b idx. unfold al_new_slot. cbn. destruct (decide (b = a)) as [->|].
  - rewrite lookup_insert. intros [= <-]. right. split; [lia|]. exists {[k]}.
    rewrite Nat2Z.id. rewrite lookup_app_r by lia. rewrite Nat.sub_diag. split; [reflexivity|]. set_solver.
  - rewrite lookup_insert_ne by congruence. intros Hb. destruct (Hw b idx Hb) as [->|(Hi&m&Hm&Hne)]; [left; reflexivity|].
    right. split; [exact Hi|]. exists m. split; [|exact Hne]. apply lookup_app_l_Some. exact Hm.
Qed.

Lemma al_delete_new_slot a k s :
  al_delete_slot a k (al_new_slot a k s) = s <| al_addrs := <[a := (-1)%Z]> (al_addrs s) |>.
Proof.
  unfold al_delete_slot, al_new_slot. cbn. rewrite lookup_insert. rewrite Nat2Z.id.
  rewrite lookup_app_r by lia. rewrite Nat.sub_diag. cbn.
  replace (size (({[k]} : gset N) ∖ {[k]}) =? 0)%nat with true.
  2: { symmetry. apply Nat.eqb_eq. apply size_empty_iff. set_solver. }
  dstate s. cbn. rewrite take_app. rewrite insert_insert. reflexivity.
Qed.

Lemma al_delete_slot_push a k e s : al_delete_slot a k (push e s) = push e (al_delete_slot a k s).
Proof.
  unfold al_delete_slot. cbn. destruct (al_addrs s !! a) as [idx|]; [|reflexivity].
  destruct (al_slots s !! Z.to_nat idx) as [m|]; [|reflexivity]. destruct (_ =? _)%nat; reflexivity.
Qed.

Lemma rtp_alslot ex tch a k s : wf_al s -> RTp ex tch s (al_add_slot a k s).
Proof.
  intros Hw. unfold al_add_slot. destruct (al_addrs s !! a) as [idx|] eqn:Ha.
  2: { (* address not present *)
    exists [EALAddr a; EALSlot a k]. rt_split; try reflexivity; try (split; reflexivity).
    - cbn. rewrite <- app_assoc. reflexivity.
    - cbn [rev app undo_list fold_left undo]. rewrite !al_delete_slot_push, al_delete_new_slot.
      dstate s. cbn in *. rewrite delete_insert by assumption. sim_triv.
    - eapply wf_al_same; [| |apply (wf_al_new_slot a k s Hw); left; exact Ha]; reflexivity.
    - repeat constructor. }
  destruct (idx =? -1)%Z eqn:Hi.
  { apply Z.eqb_eq in Hi. subst idx.
    exists [EALSlot a k]. rt_split; try reflexivity; try (split; reflexivity).
    - cbn [rev app undo_list fold_left undo]. rewrite !al_delete_slot_push, al_delete_new_slot.
      dstate s. cbn in *. rewrite insert_id by assumption. sim_triv.
    - eapply wf_al_same; [| |apply (wf_al_new_slot a k s Hw); right; exact Ha]; reflexivity.
    - repeat constructor. }
  apply Z.eqb_neq in Hi. destruct (Hw a idx Ha) as [->|(Hpos&m&Hm&Hne)]; [congruence|].
  rewrite Hm. destruct (bool_decide (k ∈ m)) eqn:Hk; [apply rtp_refl, Hw|].
  apply bool_decide_eq_false in Hk.
  exists [EALSlot a k]. rt_split; try reflexivity; try (split; reflexivity).
  - cbn [rev app undo_list fold_left undo]. rewrite al_delete_slot_push.
    unfold al_delete_slot. cbn. rewrite Ha. rewrite list_lookup_insert by (eapply lookup_lt_Some; eauto).
    assert (Hm' : ({[k]} ∪ m) ∖ {[k]} = m) by set_solver. rewrite Hm'.
    replace (size m =? 0)%nat with false.
    2: { symmetry. apply Nat.eqb_neq. intros H0. apply size_empty_iff in H0. apply Hne. apply leibniz_equiv. exact H0. }
    dstate s. cbn in *. rewrite list_insert_insert. rewrite list_insert_id by assumption. sim_triv.
  - intros b i. cbn. intros Hb. destruct (Hw b i Hb) as [->|(Hp'&m'&Hm2&Hne')]; [left; reflexivity|].
    right. split; [exact Hp'|]. destruct (decide (Z.to_nat i = Z.to_nat idx)) as [He|Hd].
    + exists ({[k]} ∪ m). rewrite He. rewrite list_lookup_insert by (eapply lookup_lt_Some; eauto). split; [reflexivity|]. set_solver.
    + exists m'. rewrite list_lookup_insert_ne by congruence. auto.
  - repeat constructor.
Qed.

(* ---------- touch ---------- *)
Lemma sim_dirtyset ex s d : sim ex (s <| dirtyset := d |>) s.
Proof. dstate s. apply sim_of_rest; [repeat split|]. intros b. apply orel_refl. Qed.

Lemma oeq_touched ex tok cs a b o : oeq ex tok cs a (f_touched b o) o.
Proof. split; try reflexivity. intros k. apply veq_refl. Qed.

Lemma rtp_touch ex tch a s : wf_al s -> tch = true -> RTp ex tch s (s_touch a s).
Proof.
  intros Hw Ht. unfold s_touch. destruct (objs s !! a) as [o|] eqn:Ho; [|apply rtp_refl, Hw].
  set (e := ETouch a (o_touched o) (negb (o_armed o))).
  set (Y := mark_dirty a (push e s)). set (X := upd a (fun o0 => o0 <| o_touched := true |>) Y).
  assert (HlY : loaded a Y) by (apply loaded_mark; exists o; exact Ho).
  assert (HlX : loaded a X) by (apply loaded_upd, HlY).
  assert (HsX : sim ex X s).
  { eapply sim_trans; [apply (sim_upd_id ex a _ Y (loaded_settled' a Y HlY))|].
    - intros o' _. apply (oeq_touched ex _ _ a true o').
    - eapply sim_trans; [apply sim_mark | apply sim_push]. }
  assert (HR : same_rest X s).
  { eapply same_rest_trans; [apply same_rest_upd|]. eapply same_rest_trans; [apply same_rest_mark|]. apply same_rest_push. }
  exists [e]. rt_split.
  - unfold X, Y. cbn. rewrite journal_mark. reflexivity.
  - cbn [rev app undo_list fold_left undo e].
    destruct (negb (o_touched o) && negb (a =? ripemd)); [|exact HsX].
    rewrite (ensure_loaded' false a X HlX).
    assert (H1 : sim ex (upd a (fun o0 => o0 <| o_touched := o_touched o |>) X) s).
    { eapply sim_trans; [apply (sim_upd_id ex a _ X (loaded_settled' a X HlX))|exact HsX].
      intros o' _. apply (oeq_touched ex _ _ a (o_touched o) o'). }
    destruct (negb (negb (o_armed o))); [|exact H1].
    eapply sim_trans; [apply sim_dirtyset | exact H1].
  - eapply wf_al_rest; eauto.
  - unfold X, Y. destruct (ctl_mark a (push e s)) as [H1 H2]. split; cbn; [rewrite H1|rewrite H2]; reflexivity.
  - apply HR.
  - apply HR.
  - repeat constructor. exact Ht.
Qed.

(* ---------- facts carried along a round trip ---------- *)
Lemma rtp_wf ex tch s s' : RTp ex tch s s' -> wf_al s'.
Proof. intros (E&_&_&H&_). exact H. Qed.
Lemma rtp_p002 ex tch s s' : RTp ex tch s s' -> p002 s' = p002 s.
Proof. intros (E&_&_&_&_&H&_). exact H. Qed.
Lemma rtp_token ex tch s s' : RTp ex tch s s' -> token s' = token s.
Proof. intros (E&_&_&_&_&_&H&_). exact H. Qed.

(* ---------- balances ---------- *)
Lemma bal_read_fst a s : fst (bal_read a s) = fst (s_getdata (token s) (erckey a) (ensure true (token s) s)).
Proof. unfold bal_read. destruct (s_getdata _ _ _). reflexivity. Qed.

Lemma rtp_bal_read ex tch a s : wf_al s -> RTp ex tch s (fst (bal_read a s)).
Proof.
  intros Hw. rewrite bal_read_fst.
  pose proof (rtp_ensure ex tch true (token s) s Hw) as H1.
  eapply rtp_trans; [exact H1|]. apply rtp_getdata. eapply rtp_wf, H1.
Qed.

Lemma loaded_bal_read a s : loaded (token s) (fst (bal_read a s)).
Proof. rewrite bal_read_fst. apply loaded_getdata, loaded_ensure_true. Qed.

Lemma loaded_bal_read_other b a s : loaded b s -> loaded b (fst (bal_read a s)).
Proof. intros H. rewrite bal_read_fst. apply loaded_getdata, loaded_ensure_other, H. Qed.

Lemma rtp_bal_write ex tch a n s :
  wf_al s -> p002 s = true -> loaded (token s) s -> RTp ex tch s (bal_write a n s).
Proof. intros Hw Hp Hl. unfold bal_write. rewrite Hp. apply rtp_setdata; auto. Qed.

Lemma rtp_add_balance ex tch a n s : wf_al s -> p002 s = true -> RTp ex tch s (add_balance a n s).
Proof.
  intros Hw Hp. unfold add_balance.
  pose proof (rtp_bal_read ex tch a s Hw) as H1. pose proof (loaded_bal_read a s) as Hl.
  destruct (bal_read a s) as [s1 r]. cbn [fst] in *.
  eapply rtp_trans; [exact H1|]. apply rtp_bal_write.
  - eapply rtp_wf, H1.
  - rewrite (rtp_p002 _ _ _ _ H1). exact Hp.
  - rewrite (rtp_token _ _ _ _ H1). exact Hl.
Qed.

Lemma rtp_sub_balance ex tch a n s : wf_al s -> p002 s = true -> RTp ex tch s (fst (sub_balance a n s)).
Proof.
  intros Hw Hp. unfold sub_balance.
  pose proof (rtp_bal_read ex tch a s Hw) as H1. pose proof (loaded_bal_read a s) as Hl.
  destruct (bal_read a s) as [s1 r]. cbn [fst] in *.
  destruct (r <? n); cbn [fst]; [exact H1|].
  eapply rtp_trans; [exact H1|]. apply rtp_bal_write.
  - eapply rtp_wf, H1.
  - rewrite (rtp_p002 _ _ _ _ H1). exact Hp.
  - rewrite (rtp_token _ _ _ _ H1). exact Hl.
Qed.

Lemma rtp_set_balance ex tch a n s : wf_al s -> RTp ex tch s (set_balance a n s).
Proof.
  intros Hw. unfold set_balance.
  pose proof (rtp_ensure ex tch true (token s) s Hw) as H1.
  eapply rtp_trans; [exact H1|]. apply rtp_setdata; [eapply rtp_wf, H1 | apply loaded_ensure_true].
Qed.

(* ---------- tokens kept in the account's own storage ---------- *)
Lemma ft_read_fst a s : fst (ft_read a s) = fst (s_getdata a ftkey s).
Proof. unfold ft_read. destruct (s_getdata _ _ _). reflexivity. Qed.

Lemma rtp_ft_set ex tch a (vf : option N -> bytes) s :
  wf_al s -> loaded a s ->
  RTp ex tch s (let '(s2, raw) := ft_read a s in s_setdata a ftkey (vf raw) s2).
Proof.
  intros Hw Hl. pose proof (rtp_getdata ex tch a ftkey s Hw) as H1. pose proof (loaded_getdata a a ftkey s Hl) as Hl1.
  rewrite <- ft_read_fst in *. destruct (ft_read a s) as [s2 raw]. cbn [fst] in *.
  eapply rtp_trans; [exact H1|]. apply rtp_setdata; [eapply rtp_wf, H1 | exact Hl1].
Qed.

(* ---------- Suicide ---------- *)
Lemma upd_comm a b f g s : a <> b -> upd a f (upd b g s) = upd b g (upd a f s).
Proof. intros H. unfold upd. dstate s. cbn. rewrite (alter_commute f g ob a b H). reflexivity. Qed.

Lemma set_balance_raw_loaded a n s :
  loaded (token s) s -> set_balance_raw a n s = mark_dirty (token s) (upd (token s) (f_data (erckey a) (beb n)) s).
Proof. intros H. unfold set_balance_raw. rewrite (ensure_loaded' true _ s H). reflexivity. Qed.

Lemma is_erckey_erckey a : is_erckey (erckey a) = true.
Proof. unfold is_erckey, erckey. apply N.leb_le. lia. Qed.

Lemma oeq_SS ex tok cs a o : oeq ex tok cs a (f_suic (o_suicided o) (f_suic true o)) o.
Proof. split; try reflexivity. intros k. apply veq_refl. Qed.

Lemma oeq_DD tok cs a w o :
  oeq false tok cs tok (f_data (erckey a) (beb (bev (data_of o (erckey a)))) (f_data (erckey a) w o)) o.
Proof.
  split; try reflexivity. intros k. rewrite !data_of_f_data. destruct (decide (k = erckey a)) as [->|]; [|apply veq_refl].
  unfold veq. cbn. rewrite N.eqb_refl, is_erckey_erckey. cbn. apply bev_beb.
Qed.

Lemma oeq_DSDS tok cs a w o :
  oeq false tok cs tok (f_data (erckey a) (beb (bev (data_of o (erckey a))))
                          (f_suic (o_suicided o) (f_data (erckey a) w (f_suic true o)))) o.
Proof.
  split; try reflexivity. intros k.
  change (data_of (f_data (erckey a) (beb (bev (data_of o (erckey a)))) (f_suic (o_suicided o) (f_data (erckey a) w (f_suic true o)))) k)
    with (data_of (f_data (erckey a) (beb (bev (data_of o (erckey a)))) (f_data (erckey a) w o)) k).
  apply (oeq_DD tok cs a w o).
Qed.

Definition suicide_core (a : N) (prev : bool) (bal : N) (s2 : state) : state :=
  set_balance_raw a 0 (mark_dirty a (upd a (f_suic true) (push (ESuicide a prev bal) s2))).

Lemma rtp_suicide_core tch a s2 oa ot :
  wf_al s2 -> objs s2 !! a = Some oa -> objs s2 !! token s2 = Some ot ->
  RTp false tch s2 (suicide_core a (o_suicided oa) (bev (data_of ot (erckey a))) s2).
Proof.
  intros Hw Hoa Hot. unfold suicide_core.
  set (tok := token s2). set (k := erckey a). set (bal := bev (data_of ot k)).
  set (e := ESuicide a (o_suicided oa) bal). set (s3 := push e s2).
  set (S := f_suic true). set (S' := f_suic (o_suicided oa)).
  set (D := f_data k (beb 0)). set (D' := f_data k (beb bal)).
  set (Y1 := upd a S s3). set (Z1 := mark_dirty a Y1).
  assert (La3 : loaded a s3) by (exists oa; exact Hoa).
  assert (Lt3 : loaded tok s3) by (exists ot; exact Hot).
  assert (LaY : loaded a Y1) by (apply loaded_upd, La3).
  assert (LtY : loaded tok Y1) by (apply loaded_upd, Lt3).
  assert (LaZ1 : loaded a Z1) by (apply loaded_mark, LaY).
  assert (LtZ1 : loaded tok Z1) by (apply loaded_mark, LtY).
  assert (HtZ1 : token Z1 = tok) by (apply (same_rest_trans _ _ _ (same_rest_mark a Y1) (same_rest_upd a S s3))).
  rewrite set_balance_raw_loaded by (rewrite HtZ1; exact LtZ1). rewrite HtZ1.
  fold k. fold D. set (Z := mark_dirty tok (upd tok D Z1)).
  assert (LaZ : loaded a Z) by (apply loaded_mark, loaded_upd, LaZ1).
  assert (LtZ : loaded tok Z) by (apply loaded_mark, loaded_upd, LtZ1).
  assert (HRZ : same_rest Z s2).
  { eapply same_rest_trans; [apply same_rest_mark|]. eapply same_rest_trans; [apply same_rest_upd|].
    eapply same_rest_trans; [apply same_rest_mark|]. eapply same_rest_trans; [apply same_rest_upd|]. apply same_rest_push. }
  assert (HtZ : token Z = tok) by apply HRZ.
  set (Z0 := upd tok D Y1).
  assert (HZ : sim false Z Z0).
  { eapply sim_trans; [apply sim_mark|].
    apply sim_upd_cong; [apply omorph_data | apply sim_mark | apply loaded_settled', LtZ1 | apply loaded_settled', LtY]. }
  exists [e]. rt_split.
  - unfold Z. rewrite journal_mark. cbn. unfold Z1. rewrite journal_mark. reflexivity.
  - cbn [rev app undo_list fold_left undo e].
    rewrite (ensure_loaded' false a Z LaZ). destruct LaZ as [oz Hoz]. rewrite Hoz.
    assert (LaZ : loaded a Z) by (exists oz; exact Hoz).
    change (fun o => o <| o_suicided := o_suicided oa |>) with S'.
    rewrite set_balance_raw_loaded by (apply loaded_upd; cbn; rewrite HtZ; exact LtZ).
    cbn [token upd set]. rewrite HtZ. fold k. fold D'.
    eapply sim_trans; [apply sim_mark|].
    eapply sim_trans.
    { apply sim_upd_cong; [apply omorph_data | | apply loaded_settled', loaded_upd, LtZ | apply loaded_settled', loaded_upd, loaded_upd, LtY].
      apply sim_upd_cong; [apply omorph_suic | exact HZ | apply loaded_settled', LaZ | apply loaded_settled', loaded_upd, LaY]. }
    eapply sim_trans; [|apply (sim_push false e s2)]. fold s3. unfold Z0, Y1.
    destruct (decide (a = tok)) as [Heq|Hne].
    + assert (ot = oa) by (pose proof Hoa as Hoa'; rewrite Heq in Hoa'; unfold tok in Hoa'; rewrite Hoa' in Hot; congruence). subst ot. rewrite <- Heq. rewrite !upd_upd.
      apply sim_upd_id; [apply loaded_settled', La3|].
      intros o'. unfold look. cbn. rewrite Hoa. intros [= <-].
      fold tok. rewrite <- Heq. cbn. unfold D', S', D, S, bal, k. rewrite Heq. apply oeq_DSDS.
    + rewrite (upd_comm a tok S' D) by exact Hne. rewrite (upd_upd tok), (upd_upd a).
      eapply sim_trans.
      * apply sim_upd_id; [apply loaded_settled', loaded_upd, Lt3|].
        intros o'. rewrite look_upd by (apply loaded_settled', La3). rewrite decide_False by congruence.
        unfold look. cbn. unfold tok. rewrite Hot. intros [= <-]. cbn. unfold D', D, bal, k. apply oeq_DD.
      * apply sim_upd_id; [apply loaded_settled', La3|].
        intros o'. unfold look. cbn. rewrite Hoa. intros [= <-]. cbn. apply oeq_SS.
  - eapply wf_al_rest; eauto.
  - unfold Z. destruct (ctl_mark tok (upd tok D Z1)) as [H1 H2]. split; [rewrite H1|rewrite H2]; cbn;
      unfold Z1; destruct (ctl_mark a Y1) as [H3 H4]; [rewrite H3|rewrite H4]; reflexivity.
  - apply HRZ.
  - apply HRZ.
  - repeat constructor.
Qed.

Lemma objs_ensure_other c a b s : a <> b -> objs (ensure c b s) !! a = objs s !! a.
Proof.
  intros H. unfold ensure. destruct (objs s !! b); [reflexivity|].
  destruct (trie s !! b); cbn; [rewrite lookup_insert_ne by congruence; reflexivity|].
  destruct c; cbn; [rewrite lookup_insert_ne by congruence|]; reflexivity.
Qed.

Lemma bal_read_spec a s :
  exists ot0, objs (ensure true (token s) s) !! token s = Some ot0 /\
    bal_read a s = (upd (token s) (fun _ => fst (o_getdata (erckey a) ot0)) (ensure true (token s) s),
                    bev (data_of ot0 (erckey a))).
Proof.
  destruct (loaded_ensure_true (token s) s) as [ot0 H]. exists ot0. split; [exact H|].
  unfold bal_read. rewrite s_getdata_eq, H. reflexivity.
Qed.

Lemma rtp_suicide tch a s : wf_al s -> RTp false tch s (fst (step (OSuicide a) s)).
Proof.
  intros Hw. cbn [step].
  pose proof (rtp_ensure false tch false a s Hw) as H1. set (s1 := ensure false a s) in *.
  destruct (objs s1 !! a) as [o|] eqn:Ho; [|exact H1].
  pose proof (rtp_bal_read false tch a s1 (rtp_wf _ _ _ _ H1)) as H2.
  destruct (bal_read_spec a s1) as (ot0&Hot0&Hbr). rewrite Hbr in *. cbn [fst] in *.
  set (tok := token s1) in *. set (ot := fst (o_getdata (erckey a) ot0)) in *.
  set (s2 := upd tok (fun _ => ot) (ensure true tok s1)) in *.
  assert (Ht2 : token s2 = tok) by (rewrite (rtp_token _ _ _ _ H2); reflexivity).
  assert (Hot : objs s2 !! token s2 = Some ot) by (rewrite Ht2; apply (objs_upd_same tok (fun _ => ot) _ ot0 Hot0)).
  assert (Hd : data_of ot (erckey a) = data_of ot0 (erckey a)) by (destruct (o_getdata_spec (erckey a) ot0) as (_&Hd&_); apply Hd).
  assert (Hoa : exists oa, objs s2 !! a = Some oa /\ o_suicided oa = o_suicided o).
  { destruct (decide (a = tok)) as [Heq|Hne].
    - exists ot. split; [rewrite Heq, <- Ht2; exact Hot|].
      assert (ot0 = o).
      { rewrite (ensure_loaded' true tok s1) in Hot0 by (rewrite <- Heq; exists o; exact Ho). rewrite <- Heq in Hot0. congruence. }
      subst ot0. destruct (o_getdata_spec (erckey a) o) as (_&_&_&_&_&Hs). exact Hs.
    - exists o. split; [|reflexivity]. unfold s2, upd. cbn. rewrite lookup_alter_ne by congruence.
      rewrite objs_ensure_other by exact Hne. exact Ho. }
  destruct Hoa as (oa&Hoa&Hsu).
  eapply rtp_trans; [exact H1|]. eapply rtp_trans; [exact H2|].
  pose proof (rtp_suicide_core tch a s2 oa ot (rtp_wf _ _ _ _ H2) Hoa Hot) as H3.
  rewrite Hsu, Hd in H3. exact H3.
Qed.

(* ---------- every exported operation ---------- *)
Definition op_ok (ex tch : bool) (o : op) : Prop :=
  match o with
  | OGetCommitted _ _ => False
  | OSuicide _ => ex = false
  | OAddFT _ n => n <> 0 \/ tch = true
  | OPrepare _ => False            (* a transaction boundary is not journalled: only between brackets *)
  | _ => True
  end.

Lemma obj_field_loaded {A} s a (f : obj -> A) d o : objs s !! a = Some o -> obj_field s a f d = f o.
Proof. unfold obj_field. intros ->. reflexivity. Qed.

Lemma rtp_step ex tch o s :
  wf_al s -> p002 s = true -> op_ok ex tch o -> RTp ex tch s (fst (step o s)).
Proof.
  intros Hw Hp Hok.
  destruct o; cbn [step fst]; try (apply rtp_refl, Hw); try (apply rtp_ensure, Hw).
  - (* SetNonce *)
    pose proof (rtp_ensure ex tch true a s Hw) as H1. destruct (loaded_ensure_true a s) as [o Ho].
    eapply rtp_trans; [exact H1|]. rewrite (obj_field_loaded _ _ _ _ _ Ho). apply rtp_nonce; [eapply rtp_wf, H1|exact Ho].
  - (* IncNonce *)
    pose proof (rtp_ensure ex tch true a s Hw) as H1. destruct (loaded_ensure_true a s) as [o Ho].
    eapply rtp_trans; [exact H1|]. rewrite (obj_field_loaded _ _ _ _ _ Ho). apply rtp_nonce; [eapply rtp_wf, H1|exact Ho].
  - (* SetData *)
    pose proof (rtp_ensure ex tch true a s Hw) as H1.
    eapply rtp_trans; [exact H1|]. apply rtp_setdata; [eapply rtp_wf, H1|apply loaded_ensure_true].
  - apply rtp_add_balance; auto.
  - pose proof (rtp_sub_balance ex tch a n s Hw Hp) as H. destruct (sub_balance a n s). exact H.
  - apply rtp_set_balance; auto.
  - (* Transfer *)
    destruct (n =? 0); cbn [fst]; [apply rtp_refl, Hw|].
    pose proof (rtp_sub_balance ex tch a n s Hw Hp) as H1.
    eapply rtp_trans; [exact H1|]. apply rtp_add_balance; [eapply rtp_wf, H1|].
    rewrite (rtp_p002 _ _ _ _ H1). exact Hp.
  - (* SetCode *)
    pose proof (rtp_ensure ex tch true a s Hw) as H1. destruct (loaded_ensure_true a s) as [o1 Ho1].
    set (s1 := ensure true a s) in *.
    pose proof (rtp_loadcode ex tch a s1 (rtp_wf _ _ _ _ H1)) as H2.
    destruct (s_loadcode_spec a s1 o1 Ho1) as (Hv&o2&Hs2&Hh&_&_&_&Hc).
    destruct (s_loadcode a s1) as [s2 prev]. cbn [fst snd] in *. subst prev.
    assert (Ho2 : objs s2 !! a = Some o2) by (rewrite Hs2; apply (objs_upd_same a (fun _ => o2) s1 o1 Ho1)).
    eapply rtp_trans; [exact H1|]. eapply rtp_trans; [exact H2|].
    rewrite (obj_field_loaded _ _ _ _ _ Ho2).
    assert (Hcs : codes s2 = codes s1) by (rewrite Hs2; reflexivity).
    rewrite <- Hc, <- Hcs. apply rtp_code; [eapply rtp_wf, H2 | exact Ho2].
  - (* Suicide *)
    cbn in Hok. subst ex. apply (rtp_suicide tch a s Hw).
  - (* AddLog *) apply (rtp_addlog ex tch p s Hw).
  - apply (rtp_refund ex tch ((refund s + n) mod u64) s Hw).
  - apply (rtp_refund ex tch (if refund s <? n then refund s else refund s - n) s Hw).
  - apply rtp_aladdr, Hw.
  - apply rtp_alslot, Hw.
  - (* SetTransient *)
    destruct (tget s a k =? v) eqn:E; cbn [fst]; [apply rtp_refl, Hw|].
    apply rtp_transient; [exact Hw|]. apply N.eqb_neq, E.
  - (* AddFT *)
    pose proof (rtp_ensure ex tch true a s Hw) as H1. set (s1 := ensure true a s) in *.
    destruct (n =? 0) eqn:En; cbn [fst].
    + destruct (obj_field s1 a empty false); [|exact H1].
      eapply rtp_trans; [exact H1|]. apply rtp_touch; [eapply rtp_wf, H1|].
      cbn in Hok. apply N.eqb_eq in En. destruct Hok; [contradiction|assumption].
    + eapply rtp_trans; [exact H1|].
      pose proof (rtp_ft_set ex tch a (fun raw => beb (default 0 raw + n)) s1 (rtp_wf _ _ _ _ H1) (loaded_ensure_true a s)) as H2.
      destruct (ft_read a s1). exact H2.
  - (* SubFT *)
    pose proof (rtp_ensure ex tch true a s Hw) as H1. set (s1 := ensure true a s) in *.
    eapply rtp_trans; [exact H1|].
    pose proof (rtp_getdata ex tch a ftkey s1 (rtp_wf _ _ _ _ H1)) as H2.
    pose proof (loaded_getdata a a ftkey s1 (loaded_ensure_true a s)) as Hl.
    rewrite <- ft_read_fst in *. destruct (ft_read a s1) as [s2 raw]. cbn [fst] in *.
    destruct (n =? 0); cbn [fst]; [exact H2|].
    destruct raw as [r|]; cbn [fst]; [|exact H2].
    destruct (r <? n); cbn [fst]; [exact H2|].
    eapply rtp_trans; [exact H2|]. apply rtp_setdata; [eapply rtp_wf, H2|exact Hl].
  - (* SetFT *)
    pose proof (rtp_ensure ex tch true a s Hw) as H1.
    eapply rtp_trans; [exact H1|]. apply rtp_setdata; [eapply rtp_wf, H1|apply loaded_ensure_true].
  - (* GetBalance *)
    pose proof (rtp_bal_read ex tch a s Hw) as H. destruct (bal_read a s). exact H.
  - (* GetData *)
    pose proof (rtp_ensure ex tch false a s Hw) as H1. eapply rtp_trans; [exact H1|].
    pose proof (rtp_getdata ex tch a k _ (rtp_wf _ _ _ _ H1)) as H2. destruct (s_getdata a k _). exact H2.
  - (* GetCommitted *) destruct Hok.
  - (* GetCode *)
    pose proof (rtp_ensure ex tch false a s Hw) as H1. eapply rtp_trans; [exact H1|].
    pose proof (rtp_loadcode ex tch a _ (rtp_wf _ _ _ _ H1)) as H2. destruct (s_loadcode a _). exact H2.
  - (* GetFT *)
    pose proof (rtp_ensure ex tch true a s Hw) as H1. eapply rtp_trans; [exact H1|].
    pose proof (rtp_getdata ex tch a ftkey _ (rtp_wf _ _ _ _ H1)) as H2.
    rewrite <- ft_read_fst in H2. destruct (ft_read a _). exact H2.
  - destruct Hok.
Qed.
