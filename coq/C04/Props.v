(* C04 — property theorems only (statements + [exact]); proofs are in Sim/Undo/Roundtrip/Steps/Nested/
   Observe/Refute/Root.v.

   Vocabulary (Model.v): [state] = AccountDB (object table, dirty set, journal, revision stack, refund, logs,
   access list, transient storage) over a committed account trie; [step o] = one exported call;
   [run] = a program of calls with nested [Bracket]s (Snapshot ... optionally RevertToSnapshot);
   [after_revert body s] = Snapshot on s; run body (any nesting inside); RevertToSnapshot.
   [item_ok ex tch] = the program contains no GetCommittedState, self-destructs only if [ex = false],
   zero-amount AddFT (touch) only if [tch = true].  [good s] = the two invariants of reachable states. *)
From stdpp Require Import gmap.
From V.Base Require Import Hex BigEndian.
From V.C04 Require Import Model Harness Sim Undo Roundtrip Steps Nested Observe Refute Root RootHash Cong Totality Txs.
Local Open Scope N_scope.

(* Headline.  From any state satisfying the reachable-state invariants, with Proposal002 active: after
   Snapshot, ANY guarded program (all mutators, nested snapshots and reverts to any depth) and
   RevertToSnapshot, every listed query answers as it did before the snapshot — for every address, key
   and tx hash, byte for byte.  (Programs without self-destruct; see the next theorem.) *)
Theorem C04_revert_restores : forall s body q,
  good s -> p002 s = true -> Forall (item_ok true true) body ->
  observe q (after_revert body s) = observe q s.
Proof.
  intros s body q [Hw Hb] Hp Hok. eapply observe_sim; [apply (revert_restores true true); auto|]. left. reflexivity.
Qed.
Print Assumptions C04_revert_restores.

(* With self-destructs inside the reverted part: every query is restored except the raw bytes of a
   balance slot of the token contract, whose numeric value (= GetBalance) is restored. *)
Theorem C04_revert_restores_with_suicide : forall s body q,
  good s -> p002 s = true -> Forall (item_ok false true) body -> qexact (token (after_revert body s)) q = true ->
  observe q (after_revert body s) = observe q s.
Proof.
  intros s body q [Hw Hb] Hp Hok Hq. eapply observe_sim; [apply (revert_restores false true); auto|]. right. exact Hq.
Qed.
Print Assumptions C04_revert_restores_with_suicide.

(* The relation behind both: the reverted state is observationally equivalent to the state at snapshot
   time (refund, logs, log index, access list, transient storage equal; per address: existence, nonce,
   code hash, code, self-destruct flag, every storage slot). *)
Theorem C04_revert_equivalent : forall ex tch s body,
  good s -> p002 s = true -> Forall (item_ok ex tch) body -> sim ex (after_revert body s) s.
Proof. intros ex tch s body [Hw Hb]. apply revert_restores; auto. Qed.
Print Assumptions C04_revert_equivalent.

(* [observe] is what the query calls of the model answer (and these are compared with the real
   AccountDB's answers on every run). *)
Theorem C04_queries_answer_observe : forall q s, snd (step (query_op q) s) = observe q s.
Proof. exact step_observe. Qed.
Print Assumptions C04_queries_answer_observe.

(* The hypotheses are those of every state a guarded program reaches from a fresh AccountDB, and they
   are re-established by the revert, together with the journal and the revision stack. *)
Theorem C04_reachable_good : forall ex tch tr cs tok th prog,
  Forall (item_ok ex tch) prog ->
  let s := fst (run prog (fresh tr cs tok true th)) in wf_al s /\ rb s /\ p002 s = true.
Proof. exact reach_good. Qed.
Print Assumptions C04_reachable_good.

Theorem C04_revert_restores_journal : forall ex tch s body,
  wf_al s -> rb s -> p002 s = true -> Forall (item_ok ex tch) body ->
  wf_al (after_revert body s) /\ rb (after_revert body s) /\ p002 (after_revert body s) = true /\
  journal (after_revert body s) = journal s /\ revs (after_revert body s) = revs s.
Proof. exact good_after_revert. Qed.
Print Assumptions C04_revert_restores_journal.

(* ---------- the root clause ---------- *)
(* deleteEmptyObjects = false, the code as it is: the account trie written by Finalise(false) right after
   the revert is the one Finalise(false) writes on the state at snapshot time, hence equal roots (C02).
   [rinv] = invariant of reachable states (storage caches coherent, clean objects equal to their committed
   leaf, self-destructed objects dirty), see C04_reachable_rinv.  Guards: no self-destruct (re-encodes the
   balance slot), no zero-amount AddFT (touch), no GetCommittedState inside the reverted part. *)
Theorem C04_root_equal_nodelete : forall s body,
  good s -> p002 s = true -> rinv s -> Forall (item_ok true false) body ->
  fin_trie false false (after_revert body s) = fin_trie false false s.
Proof. intros s body [Hw Hb]. apply root_equal_nodelete; auto. Qed.
Print Assumptions C04_root_equal_nodelete.

(* deleteEmptyObjects = true holds for the REPAIRED emptiness test (no code, nonce 0, empty storage
   content) provided no committed leaf is an empty account (see the two refutations below for why
   both conditions are needed). *)
Theorem C04_root_equal_fixed_empty : forall s body,
  good s -> p002 s = true -> rinv s -> no_empty_leaf (trie s) -> Forall (item_ok true false) body ->
  fin_trie true true (after_revert body s) = fin_trie true true s.
Proof. intros s body [Hw Hb]. apply root_equal_fixed_empty; auto. Qed.
Print Assumptions C04_root_equal_fixed_empty.

(* ---------- from trie content to the state-root HASH (C02, layer A, imported read-only) ---------- *)
(* [repr_state H akey skey leaf ops t]: [ops] is a history of account-trie updates/deletes (C02's [run]) whose
   last-write content is the account map [t], each leaf being [leaf nonce codehash storage_root] with
   storage_root the root hash of SOME storage-trie history whose content is the account's storage map.
   For every hash function H, key encodings and leaf encoder: whatever histories the two executions used to
   arrive at their finalised tries, the state roots are equal ... *)
Theorem C04_root_hash_equal_nodelete : forall (H : bytes -> bytes) akey skey leaf s body ops1 ops2,
  good s -> p002 s = true -> rinv s -> Forall (item_ok true false) body ->
  repr_state H akey skey leaf ops1 (fin_trie false false (after_revert body s)) ->
  repr_state H akey skey leaf ops2 (fin_trie false false s) ->
  trie_root H ops1 = trie_root H ops2.
Proof.
  intros H akey skey leaf s body ops1 ops2 [Hw Hb] Hp Hr Hok. apply state_root_equal. apply root_equal_nodelete; auto.
Qed.
Print Assumptions C04_root_hash_equal_nodelete.

(* ... and so is the storage root inside every surviving account leaf. *)
Theorem C04_storage_root_hash_equal_nodelete : forall (H : bytes -> bytes) skey s body a ac1 ac2 ops1 ops2,
  good s -> p002 s = true -> rinv s -> Forall (item_ok true false) body ->
  fin_trie false false (after_revert body s) !! a = Some ac1 -> fin_trie false false s !! a = Some ac2 ->
  repr_store skey ops1 (a_store ac1) -> repr_store skey ops2 (a_store ac2) ->
  trie_root H ops1 = trie_root H ops2.
Proof.
  intros H skey s body a ac1 ac2 ops1 ops2 [Hw Hb] Hp Hr Hok. apply storage_root_equal. apply root_equal_nodelete; auto.
Qed.
Print Assumptions C04_storage_root_hash_equal_nodelete.

Theorem C04_root_hash_equal_fixed_empty : forall (H : bytes -> bytes) akey skey leaf s body ops1 ops2,
  good s -> p002 s = true -> rinv s -> no_empty_leaf (trie s) -> Forall (item_ok true false) body ->
  repr_state H akey skey leaf ops1 (fin_trie true true (after_revert body s)) ->
  repr_state H akey skey leaf ops2 (fin_trie true true s) ->
  trie_root H ops1 = trie_root H ops2.
Proof.
  intros H akey skey leaf s body ops1 ops2 [Hw Hb] Hp Hr Hne Hok. apply state_root_equal. apply root_equal_fixed_empty; auto.
Qed.
Print Assumptions C04_root_hash_equal_fixed_empty.

(* the representation hypotheses are satisfiable (one account with one storage slot) *)
Example C04_root_hash_example : forall H : bytes -> bytes, repr_example_stmt H.
Proof. exact repr_example. Qed.

(* ---------- the continuation clause: further surviving writes after the revert ---------- *)
(* After the revert, run ANY guarded continuation (all mutators, further nested snapshots/reverts): the
   result is byte-exact equivalent to running the same continuation on the state at snapshot time, every
   listed query answers the same, and Finalise(false) writes the same account trie — hence (previous
   theorems' lifting) the same root hash.  Guard: no zero-amount AddFT (touch), self-destruct or
   GetCommittedState in the reverted part or in the continuation; C04_touch_disarmed_refuted shows the
   touch guard is necessary (a reverted touch leaves the dirty callback disarmed). *)
Theorem C04_continuation : forall s body cont q,
  good s -> p002 s = true -> rinv s ->
  Forall (item_ok true false) body -> Forall (item_ok true false) cont ->
  let x := fst (run cont (after_revert body s)) in
  let y := fst (run cont s) in
  observe q x = observe q y /\ fin_trie false false x = fin_trie false false y.
Proof.
  intros s body cont q [Hw Hb] Hp Hr Hbody Hcont. cbv zeta.
  destruct (continuation s body cont Hw Hb Hp Hr Hbody Hcont) as (Hs&Hf&_).
  split; [eapply observe_sim; [exact Hs | left; reflexivity] | exact Hf].
Qed.
Print Assumptions C04_continuation.

Theorem C04_continuation_root_hash : forall (H : bytes -> bytes) akey skey leaf s body cont ops1 ops2,
  good s -> p002 s = true -> rinv s ->
  Forall (item_ok true false) body -> Forall (item_ok true false) cont ->
  repr_state H akey skey leaf ops1 (fin_trie false false (fst (run cont (after_revert body s)))) ->
  repr_state H akey skey leaf ops2 (fin_trie false false (fst (run cont s))) ->
  trie_root H ops1 = trie_root H ops2.
Proof.
  intros H akey skey leaf s body cont ops1 ops2 [Hw Hb] Hp Hr Hbody Hcont. apply state_root_equal.
  apply (continuation s body cont Hw Hb Hp Hr Hbody Hcont).
Qed.
Print Assumptions C04_continuation_root_hash.

(* each guarded operation respects the equivalence (the step behind the continuation theorem) *)
Theorem C04_step_congruence : forall o x y, sim true x y -> op_ok true false o -> sim true (fst (step o x)) (fst (step o y)).
Proof. exact step_cong. Qed.
Print Assumptions C04_step_congruence.

(* ---------- several transactions on one AccountDB ---------- *)
(* [prepare h] = AccountDB.Prepare (new tx hash, fresh access list and transient storage; journal, revision
   stack and nextRevisionID untouched, there is no Finalise between transactions).  After ANY sequence of
   guarded transactions (each with its own nested brackets, kept and reverted, however many snapshots each
   took) and a further Prepare: Snapshot, any guarded program, RevertToSnapshot restores the state at the
   snapshot — the revert unwinds exactly what was done since THAT snapshot, journal and revision stack of
   the earlier transactions included untouched. *)
Theorem C04_revert_restores_across_prepare : forall ex tch tr cs tok th txs h body,
  txs_ok ex tch txs -> Forall (item_ok ex tch) body ->
  let s := prepare h (run_txs txs (fresh tr cs tok true th)) in
  sim ex (after_revert body s) s /\ journal (after_revert body s) = journal s /\ revs (after_revert body s) = revs s.
Proof. exact revert_restores_across_prepare. Qed.
Print Assumptions C04_revert_restores_across_prepare.

(* revision ids keep counting across Prepare, and the id Snapshot returns differs from every live id: an id
   names one live revision for the whole life of the AccountDB between Finalise calls *)
Theorem C04_revision_ids_keep_counting : forall h s,
  nextrev (prepare h s) = nextrev s /\ revs (prepare h s) = revs s /\ journal (prepare h s) = journal s.
Proof. exact prepare_keeps_revisions. Qed.
Print Assumptions C04_revision_ids_keep_counting.

Theorem C04_snapshot_id_fresh : forall s, rb s -> forall p, p ∈ revs s -> p.1 <> snd (snapshot s).
Proof. exact snapshot_id_fresh. Qed.
Print Assumptions C04_snapshot_id_fresh.

Theorem C04_reachable_good_multi_tx : forall ex tch txs, txs_ok ex tch txs ->
  forall s, wf_al s -> rb s -> p002 s = true ->
  wf_al (run_txs txs s) /\ rb (run_txs txs s) /\ p002 (run_txs txs s) = true.
Proof. exact reach_txs. Qed.
Print Assumptions C04_reachable_good_multi_tx.

(* REFUTED for the variant in which Prepare restarts the ids ([prepare_reset]): tx 1 = Snapshot (id 0, kept);
   SetNonce(1,5).  tx 2 = Snapshot (id 0 again); SetNonce(1,7); RevertToSnapshot(0): the search lands on the
   revision of tx 1 and unwinds it too (nonce 0 instead of 5).  With the code as it is: 5. *)
Theorem C04_revision_id_reset_refuted :
  observe (QNonce 1) (prepare_reset 1 (v_tx1 v_s0)) = AN 5 /\
  observe (QNonce 1) (v_tx2 (prepare_reset 1 (v_tx1 v_s0))) = AN 0 /\
  observe (QNonce 1) (v_tx2 (prepare 1 (v_tx1 v_s0))) = AN 5.
Proof. exact id_reset_refuted. Qed.
Print Assumptions C04_revision_id_reset_refuted.

(* ---------- outcomes at the edges ---------- *)
(* the model's operations are total functions; exactly one of them stands for a Go panic *)
Theorem C04_panics_only_on_refund_underflow : forall o s,
  snd (step o s) = APanic <-> exists n, o = OSubRefund n /\ refund s < n.
Proof. exact step_panic_iff. Qed.
Print Assumptions C04_panics_only_on_refund_underflow.

(* a revision id that is not live leaves the model state unchanged (Go: panic before any undo) ... *)
Theorem C04_revert_invalid_id : forall id s, (forall p, p ∈ revs s -> p.1 <> id) -> revert id s = s.
Proof. exact revert_invalid. Qed.
Print Assumptions C04_revert_invalid_id.

(* ... and a revision id can be used once *)
Theorem C04_revert_id_used_once : forall ex tch s body,
  wf_al s -> rb s -> p002 s = true -> Forall (item_ok ex tch) body ->
  revert (snd (snapshot s)) (after_revert body s) = after_revert body s.
Proof. exact revert_twice_invalid. Qed.
Print Assumptions C04_revert_id_used_once.

(* getAccountObject/createObject with the deleted flag: resetObjectChange is unreachable, and an object
   flagged deleted by Finalise/Commit makes its address dead for the rest of the AccountDB's life *)
Theorem C04_reset_object_unreachable : forall cache in_trie create,
  (get_account_object cache in_trie create).1.2 <> CResetObject.
Proof. exact reset_object_unreachable. Qed.
Print Assumptions C04_reset_object_unreachable.

Theorem C04_deleted_object_is_dead : forall in_trie create,
  get_account_object (Some true) in_trie create = (None, CNone, Some true).
Proof. exact deleted_is_dead. Qed.
Print Assumptions C04_deleted_object_is_dead.

Theorem C04_reachable_rinv : forall tr cs tok th prog,
  trie_ok tr -> Forall (item_ok true false) prog -> rinv (fst (run prog (fresh tr cs tok true th))).
Proof. exact reach_rinv. Qed.
Print Assumptions C04_reachable_rinv.

(* REFUTED for deleteEmptyObjects = true: empty() ignores the committed storage root.
   Witness: committed A = {nonce 0, no code, slot 1 -> 05}; Snapshot; SetNonce(A,7); RevertToSnapshot;
   Finalise(true) deletes A with its storage, the never-executed state keeps it. *)
Theorem C04_root_equal_refuted :
  exists s body, good s /\ p002 s = true /\ Forall (item_ok true false) body /\
                 fin_trie false true (after_revert body s) <> fin_trie false true s.
Proof. exact root_equal_refuted. Qed.
Print Assumptions C04_root_equal_refuted.

(* Also refuted with the repaired emptiness test (either value of [fixed]): the dirty mark is not
   restored, so a committed empty account written inside the reverted part is deleted. *)
Theorem C04_root_equal_dirty_mark_refuted : forall fixed,
  exists s body, good s /\ p002 s = true /\ Forall (item_ok true false) body /\
                 fin_trie fixed true (after_revert body s) <> fin_trie fixed true s.
Proof. exact dirty_mark_refuted. Qed.
Print Assumptions C04_root_equal_dirty_mark_refuted.

(* empty() counts cache entries: Empty(a) is not restored, and an empty dirty account survives Finalise(true) *)
Theorem C04_empty_query_refuted :
  exists s body a, good s /\ p002 s = true /\ Forall (item_ok true false) body /\
                   snd (step (OEmpty a) (after_revert body s)) <> snd (step (OEmpty a) s).
Proof. exact empty_query_refuted. Qed.
Print Assumptions C04_empty_query_refuted.

(* ---------- why each guard of the headline theorem is there ---------- *)
Theorem C04_getcommitted_refuted :
  exists s body q, good s /\ p002 s = true /\ observe q (after_revert body s) <> observe q s.
Proof. exact getcommitted_refuted. Qed.
Print Assumptions C04_getcommitted_refuted.

Theorem C04_pre_proposal002_refuted :
  exists s body q, good s /\ p002 s = false /\ Forall (item_ok true false) body /\
                   observe q (after_revert body s) <> observe q s.
Proof. exact pre002_refuted. Qed.
Print Assumptions C04_pre_proposal002_refuted.

(* the gate is Proposal002 and nothing later: in the window {002 active, 003 not yet} the headline theorem
   applies to the code as it is ([p002 s = g002 fork_window = true]); an implementation that gates the journalled
   balance write on Proposal003 is the model with [p002 s = false] there, and is refuted by a concrete history *)
Theorem C04_fork_window_gate_refuted :
  g002 fork_window = true /\ g003 fork_window = false /\
  exists s body q, good s /\ p002 s = g003 fork_window /\ Forall (item_ok true false) body /\
                   observe q (after_revert body s) <> observe q s.
Proof. exact fork_window_gate_refuted. Qed.
Print Assumptions C04_fork_window_gate_refuted.

Theorem C04_suicide_reencodes_refuted :
  exists s body q, good s /\ p002 s = true /\ Forall (item_ok false false) body /\
                   observe q (after_revert body s) <> observe q s.
Proof. exact suicide_reencodes_refuted. Qed.
Print Assumptions C04_suicide_reencodes_refuted.

(* a reverted touch leaves the object's dirty callback disarmed: the next surviving write is never flushed *)
Theorem C04_touch_disarmed_refuted :
  exists s body o, good s /\ p002 s = true /\ Forall (item_ok true true) body /\
    fin_trie false false (fst (step o (after_revert body s))) <> fin_trie false false (fst (step o s)).
Proof. exact touch_disarmed_refuted. Qed.
Print Assumptions C04_touch_disarmed_refuted.

(* touchChange.undo's exemption of the ripemd constant (0x3030..3033, [ripemd_bytes]; compared with the
   bytes of the running package in every model case): a reverted touch of that address is not undone *)
Theorem C04_ripemd_exemption_refuted :
  exists s body, good s /\ p002 s = true /\ Forall (item_ok true true) body /\
                 fin_trie false true (after_revert body s) <> fin_trie false true s.
Proof. exact ripemd_exemption_refuted. Qed.
Print Assumptions C04_ripemd_exemption_refuted.

(* Non-vacuity: create, set, snapshot, self-destruct + re-create + nested reverted snapshot, revert. *)
Example C04_example :
  let s := fst (run [Do (OCreateAccount 1); Do (OSetData 1 2 [7]); Do (OAddBalance 1 30)] (fresh ∅ ∅ 9 true 0)) in
  let body := [Do (OSuicide 1); Do (OCreateAccount 2); Bracket [OGetNonce 2] [Do (OSetNonce 2 4); Do (OAddLog 3)] true;
               Do (OTransfer 1 2 5); Do (OSetTransient 1 0 6); Do (OALSlot 2 1)] in
  good s /\ p002 s = true /\ Forall (item_ok false true) body /\
  observe (QBalance 1) (fst (run body (fst (snapshot s)))) = AN 0 /\
  observe (QBalance 1) (after_revert body s) = AN 30 /\ observe (QData 1 2) (after_revert body s) = ABy [7].
Proof.
  cbv zeta. split; [|split; [reflexivity|split; [repeat constructor|]]].
  - destruct (reach_good true false ∅ ∅ 9 0 [Do (OCreateAccount 1); Do (OSetData 1 2 [7]); Do (OAddBalance 1 30)]) as (H1&H2&_);
      [repeat constructor|]. split; assumption.
  - repeat split; apply (bool_decide_unpack _); vm_compute; exact I.
Qed.
