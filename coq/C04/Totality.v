(* C04, part 10: outcomes at the edges — which calls panic, what an invalid revision id does, uint64
   wrap-around, and the life cycle of account objects around the [deleted] flag (getAccountObject /
   createObject of accountdb.go, which the main model does not carry because it stops at Finalise). *)
From stdpp Require Import gmap.
From RecordUpdate Require Import RecordSet.
From V.Base Require Import Hex BigEndian.
From V.C04 Require Import Model Harness Sim Undo Roundtrip Steps Nested.
Import RecordSetNotations.
Local Open Scope N_scope.

(* ---------- the only panicking operation ---------- *)
Lemma step_panic_iff o s : snd (step o s) = APanic <-> exists n, o = OSubRefund n /\ refund s < n.
Proof.
  split.
  - destruct o; cbn [step]; intros Hp; repeat case_match; cbn in Hp; try discriminate Hp.
    exists n. split; [reflexivity|]. apply N.ltb_lt. assumption.
  - intros (n&->&Hlt). cbn. apply N.ltb_lt in Hlt. rewrite Hlt. reflexivity.
Qed.

(* SubRefund beyond the counter: the journal entry is there, the counter is unchanged, and the revert
   theorem still applies (the operation is an ordinary guarded operation of the model) *)
Lemma subrefund_underflow n s : refund s < n ->
  step (OSubRefund n) s = (push (ERefund (refund s)) s <| refund := refund s |>, APanic).
Proof. intros H. cbn. apply N.ltb_lt in H. rewrite H. reflexivity. Qed.

(* ---------- RevertToSnapshot with an id that is not live (Go: panic("revision id cannot be reverted")) ---------- *)
Lemma revert_invalid id s : (forall p, p ∈ revs s -> p.1 <> id) -> revert id s = s.
Proof.
  intros H. unfold revert. cbv zeta. destruct (revs s !! search_rev (revs s) id 0) as [[id' ji]|] eqn:E; [|reflexivity].
  destruct (id' =? id) eqn:Hid; [|reflexivity]. apply N.eqb_eq in Hid. exfalso.
  apply (H (id', ji)); [eapply elem_of_list_lookup_2, E | exact Hid].
Qed.

(* a revision id can be reverted once: afterwards it is not live any more *)
Lemma revert_twice_invalid ex tch s body :
  wf_al s -> rb s -> p002 s = true -> Forall (item_ok ex tch) body ->
  revert (snd (snapshot s)) (after_revert body s) = after_revert body s.
Proof.
  intros Hw Hb Hp Hok. apply revert_invalid.
  destruct (good_after_revert ex tch s body Hw Hb Hp Hok) as (_&_&_&_&->).
  intros p Hin. cbn. unfold rb in Hb. rewrite Forall_forall in Hb. specialize (Hb p Hin). lia.
Qed.

(* ---------- uint64 wrap-around ---------- *)
Example nonce_wraps :
  let s := fresh {[ 1 := Acct (u64 - 1) 0 ∅ ]} ∅ 9 true 0 in
  snd (step (OIncNonce 1) s) = AN 0 /\ snd (step (OGetNonce 1) (fst (step (OIncNonce 1) s))) = AN 0.
Proof. split; apply (bool_decide_unpack _); vm_compute; exact I. Qed.

Example refund_wraps :
  let s := fst (step (OAddRefund 5) (fst (step (OAddRefund (u64 - 1)) (fresh ∅ ∅ 9 true 0)))) in refund s = 4.
Proof. vm_compute. reflexivity. Qed.

(* ---------- account objects and the [deleted] flag ---------- *)
(* getAccountObject(addr, create), branch by branch.  [cache]: the entry of accountObjects (Some deleted?);
   [in_trie]: the account trie has a leaf for addr.  Result: the object handed out (None = nil), the journal
   entry createObject appended, the new cache entry. *)
Inductive created := CNone | CCreateObject | CResetObject.

Definition get_account_object (cache : option bool) (in_trie create : bool) : option bool * created * option bool :=
  match cache with
  | Some deleted => if deleted then (None, CNone, cache) else (Some false, CNone, cache)
  | None =>
      (* getAccountObjectFromTrie: newAccountObject never sets deleted; setAccountObject caches it *)
      let obj := if in_trie then Some false else None in
      if negb create then (obj, CNone, obj)
      else match obj with
           | Some deleted => if deleted then (Some false, CResetObject, Some false)   (* createObject(addr, obj) *)
                             else (obj, CNone, obj)
           | None => (Some false, CCreateObject, Some false)                          (* createObject(addr, nil) *)
           end
  end.

(* resetObjectChange is never appended: createObject receives a non-nil [prev] only for a freshly decoded
   object flagged deleted, and a cached deleted object returns nil before reaching createObject *)
Lemma reset_object_unreachable cache in_trie create : (get_account_object cache in_trie create).1.2 <> CResetObject.
Proof. destruct cache as [[|]|], in_trie, create; cbn; discriminate. Qed.

(* once Finalise/Commit has flagged the cached object deleted, the address is dead for the rest of this
   AccountDB's life: nil even when asked to create, and the cache entry stays.  Callers that test for nil
   (SetNonce, IncreaseNonce, SetData, SetCode, CreateAccount, the getters) become no-ops / default answers;
   GetFT/AddFT/SubFT/SetFT dereference the nil object (nil pointer panic).  Confirmed on the real code. *)
Lemma deleted_is_dead in_trie create : get_account_object (Some true) in_trie create = (None, CNone, Some true).
Proof. reflexivity. Qed.

Lemma get_account_object_live cache in_trie create o :
  (get_account_object cache in_trie create).1.1 = Some o -> o = false.
Proof. destruct cache as [[|]|], in_trie, create; cbn; congruence. Qed.
