(* C04 proofs, part 7: the state-root clause for Finalise(deleteEmptyObjects = false).
   A unary invariant of reachable states ([rinv]: caches coherent with dirty-over-committed storage,
   clean objects equal to their trie leaf and still armed, self-destructed objects dirty) makes the
   finalised account trie a function of the observable content; the revert theorem then gives the root. *)
From stdpp Require Import gmap.
From RecordUpdate Require Import RecordSet.
From V.Base Require Import Hex BigEndian.
From V.C04 Require Import Model Sim Undo Roundtrip Steps Nested.
Import RecordSetNotations.
Local Open Scope N_scope.

Definition view (o : obj) (k : N) : bytes :=
  match o_dirty o !! k with Some d => d | None => default [] (o_root o !! k) end.

Definition ocoh (o : obj) : Prop :=
  (forall k, data_of o k = view o k) /\ (forall k, o_root o !! k <> Some []).

Definition trie_ok (t : gmap N acct) : Prop := forall a ac k, t !! a = Some ac -> a_store ac !! k <> Some [].

Record rinv (s : state) : Prop := {
  ri_trie : trie_ok (trie s);
  ri_coh : forall a o, objs s !! a = Some o -> ocoh o;
  ri_clean : forall a o, objs s !! a = Some o -> a ∉ dirtyset s -> trie s !! a = Some (acct_of o) /\ o_armed o = true;
  ri_suic : forall a o, objs s !! a = Some o -> o_suicided o = true -> a ∈ dirtyset s;
}.

(* ---------- content as a function of the observable storage ---------- *)
Lemma content_lookup o k : ocoh o -> content o !! k = if nilb (view o k) then None else Some (view o k).
Proof.
  intros [_ Hn]. unfold content, view. rewrite lookup_merge. unfold diag_None.
  destruct (o_dirty o !! k) as [v|] eqn:Hd.
  - destruct (o_root o !! k); reflexivity.
  - destruct (o_root o !! k) as [v|] eqn:Hr; cbn; [|reflexivity].
    destruct v; [exfalso; eapply Hn; eauto | reflexivity].
Qed.

Lemma acct_of_eq o o' :
  ocoh o -> ocoh o' -> o_nonce o = o_nonce o' -> o_hash o = o_hash o' -> (forall k, data_of o k = data_of o' k) ->
  acct_of o = acct_of o'.
Proof.
  intros Hc Hc' Hn Hh Hd. unfold acct_of. rewrite Hn, Hh. f_equal. apply map_eq. intros k.
  rewrite !content_lookup by assumption. destruct Hc as [Hc _], Hc' as [Hc' _]. rewrite <- Hc, <- Hc', Hd. reflexivity.
Qed.

Lemma content_clean (o : obj) : o_dirty o = ∅ -> content o = o_root o.
Proof.
  intros Hd. unfold content. rewrite Hd. apply map_eq. intros k. rewrite lookup_merge, lookup_empty. unfold diag_None.
  destruct (o_root o !! k); reflexivity.
Qed.

Lemma acct_of_pristine ac : acct_of (pristine ac) = ac.
Proof. unfold acct_of. rewrite content_clean by reflexivity. destruct ac; reflexivity. Qed.

Lemma ocoh_pristine ac : (forall k, a_store ac !! k <> Some []) -> ocoh (pristine ac).
Proof. intros H. split; [|exact H]. intros k. reflexivity. Qed.

Lemma ocoh_newobj : ocoh newobj.
Proof. split; intros k; [reflexivity|]. cbn. rewrite lookup_empty. discriminate. Qed.

(* ---------- the finalised trie, leaf by leaf ---------- *)
Definition leafA (s : state) (a : N) : option acct :=
  match look s a with Some o => if o_suicided o then None else Some (acct_of o) | None => None end.

Lemma fin_leaf s a : rinv s -> fin_trie false false s !! a = leafA s a.
Proof.
  intros [Ht Hc Hcl Hs]. unfold fin_trie, leafA, look, dead. rewrite lookup_merge, map_filter_lookup. unfold diag_None.
  destruct (objs s !! a) as [o|] eqn:Ho; cbn.
  - destruct (decide (a ∈ dirtyset s)) as [Hd|Hd].
    + rewrite option_guard_True by exact Hd. cbn. rewrite orb_false_r. destruct (trie s !! a); reflexivity.
    + rewrite option_guard_False by exact Hd. cbn. destruct (Hcl a o Ho Hd) as [-> _].
      destruct (o_suicided o) eqn:Hsu; [exfalso; apply Hd, (Hs a o Ho Hsu)|reflexivity].
  - destruct (trie s !! a) as [ac|]; cbn.
    + rewrite acct_of_pristine. reflexivity.
    + reflexivity.
Qed.

Lemma look_coh s a o : rinv s -> look s a = Some o -> ocoh o.
Proof.
  intros [Ht Hc _ _]. unfold look. destruct (objs s !! a) as [o'|] eqn:Ho.
  - intros [= <-]. eapply Hc, Ho.
  - destruct (trie s !! a) as [ac|] eqn:Hta; cbn; [|discriminate]. intros [= <-]. apply ocoh_pristine. intros k. eapply Ht, Hta.
Qed.

Lemma fin_trie_sim x y : sim true x y -> rinv x -> rinv y -> fin_trie false false x = fin_trie false false y.
Proof.
  intros H Hx Hy. apply map_eq. intros a. rewrite !fin_leaf by assumption. unfold leafA.
  pose proof (sim_objs _ _ _ H a) as Ho.
  destruct (look x a) as [o|] eqn:Hlx, (look y a) as [o'|] eqn:Hly; cbn in Ho; try tauto.
  destruct Ho as [Hn Hh _ Hsu Hd]. rewrite Hsu. destruct (o_suicided o'); [reflexivity|]. f_equal.
  apply acct_of_eq; eauto using look_coh.
Qed.

(* ---------- preservation: primitives ---------- *)
Lemma rinv_same s s' : trie s' = trie s -> objs s' = objs s -> dirtyset s' = dirtyset s -> rinv s -> rinv s'.
Proof. intros Ht Ho Hd [H1 H2 H3 H4]. split; rewrite ?Ht, ?Ho, ?Hd; auto. Qed.

Lemma rinv_push e s : rinv s -> rinv (push e s).
Proof. apply rinv_same; reflexivity. Qed.

Lemma rinv_ensure c a s : rinv s -> rinv (ensure c a s).
Proof.
  intros H. unfold ensure. destruct (objs s !! a) as [o|] eqn:Ho; [exact H|].
  destruct H as [Ht Hc Hcl Hs]. destruct (trie s !! a) as [ac|] eqn:Hta.
  - split; cbn; auto.
    + intros b o'. destruct (decide (b = a)) as [->|]; [rewrite lookup_insert; intros [= <-]|rewrite lookup_insert_ne by congruence; apply Hc].
      apply ocoh_pristine. intros k. eapply Ht, Hta.
    + intros b o'. destruct (decide (b = a)) as [->|]; [rewrite lookup_insert; intros [= <-] _|rewrite lookup_insert_ne by congruence; apply Hcl].
      rewrite acct_of_pristine. auto.
    + intros b o'. destruct (decide (b = a)) as [->|]; [rewrite lookup_insert; intros [= <-]; discriminate|rewrite lookup_insert_ne by congruence; apply Hs].
  - destruct c; [|split; auto]. split; cbn; auto.
    + intros b o'. destruct (decide (b = a)) as [->|]; [rewrite lookup_insert; intros [= <-]; apply ocoh_newobj|rewrite lookup_insert_ne by congruence; apply Hc].
    + intros b o'. destruct (decide (b = a)) as [->|]; [rewrite lookup_insert; intros _ Hn; exfalso; apply Hn; set_solver|].
      rewrite lookup_insert_ne by congruence. intros Hb Hn. apply Hcl; auto. set_solver.
    + intros b o'. destruct (decide (b = a)) as [->|]; [rewrite lookup_insert; intros [= <-]; discriminate|].
      rewrite lookup_insert_ne by congruence. intros Hb Hsu. pose proof (Hs b o' Hb Hsu). set_solver.
Qed.

Lemma objs_upd a f s b : objs (upd a f s) !! b = if decide (b = a) then f <$> objs s !! a else objs s !! b.
Proof.
  unfold upd. cbn. destruct (decide (b = a)) as [->|]; [apply lookup_alter|apply lookup_alter_ne; congruence].
Qed.

Lemma dirtyset_mark a s :
  dirtyset (mark_dirty a s) =
  match objs s !! a with Some o => if o_armed o then {[a]} ∪ dirtyset s else dirtyset s | None => dirtyset s end.
Proof. unfold mark_dirty. destruct (objs s !! a) as [o|]; [destruct (o_armed o)|]; reflexivity. Qed.

(* an update of the object at [a] that changes nothing Finalise or a query can see *)
Lemma rinv_upd_quiet a f s :
  rinv s ->
  (forall o, objs s !! a = Some o -> ocoh (f o) /\ acct_of (f o) = acct_of o /\ o_armed (f o) = o_armed o /\ o_suicided (f o) = o_suicided o) ->
  rinv (upd a f s).
Proof.
  intros [Ht Hc Hcl Hs] Hf. split; auto.
  - intros b o'. rewrite objs_upd. destruct (decide (b = a)) as [->|]; [|apply Hc].
    destruct (objs s !! a) as [o|] eqn:Ho; cbn; [|discriminate]. intros [= <-]. apply (Hf o eq_refl).
  - intros b o'. rewrite objs_upd. cbn [trie dirtyset upd set]. destruct (decide (b = a)) as [->|]; [|apply Hcl].
    destruct (objs s !! a) as [o|] eqn:Ho; cbn; [|discriminate]. intros [= <-] Hn.
    destruct (Hf o eq_refl) as (_&->&->&_). apply (Hcl a o Ho Hn).
  - intros b o'. rewrite objs_upd. cbn [dirtyset upd set]. destruct (decide (b = a)) as [->|]; [|apply Hs].
    destruct (objs s !! a) as [o|] eqn:Ho; cbn; [|discriminate]. intros [= <-].
    destruct (Hf o eq_refl) as (_&_&_&->). apply (Hs a o Ho).
Qed.

(* a mutation followed by the dirty callback *)
Lemma rinv_mut a f s :
  rinv s ->
  (forall o, objs s !! a = Some o -> ocoh (f o) /\ o_armed (f o) = o_armed o /\ o_suicided (f o) = o_suicided o) ->
  rinv (mark_dirty a (upd a f s)).
Proof.
  intros [Ht Hc Hcl Hs] Hf. set (s' := upd a f s).
  assert (Hobj : forall b, objs (mark_dirty a s') !! b =
            if decide (b = a) then (fun o => if o_armed (f o) then disarm (f o) else f o) <$> objs s !! a else objs s !! b).
  { intros b. rewrite objs_mark. unfold s'. rewrite !objs_upd. destruct (decide (b = a)) as [->|]; [|reflexivity].
    rewrite decide_True by reflexivity. destruct (objs s !! a); reflexivity. }
  assert (Hds : dirtyset (mark_dirty a s') =
            match objs s !! a with Some o => if o_armed o then {[a]} ∪ dirtyset s else dirtyset s | None => dirtyset s end).
  { rewrite dirtyset_mark. unfold s'. rewrite objs_upd, decide_True by reflexivity.
    destruct (objs s !! a) as [o|] eqn:Ho; cbn; [|reflexivity]. destruct (Hf o eq_refl) as (_&->&_). reflexivity. }
  split.
  - rewrite trie_mark. exact Ht.
  - intros b o'. rewrite Hobj. destruct (decide (b = a)) as [->|]; [|apply Hc].
    destruct (objs s !! a) as [o|] eqn:Ho; cbn; [|discriminate]. intros [= <-].
    destruct (Hf o eq_refl) as (H1&_). destruct (o_armed (f o)); exact H1.
  - intros b o'. rewrite Hobj, Hds, trie_mark. destruct (decide (b = a)) as [->|Hne].
    + destruct (objs s !! a) as [o|] eqn:Ho; cbn; [|discriminate]. intros [= <-] Hnd. exfalso.
      destruct (o_armed o) eqn:Harm; [apply Hnd; set_solver|]. destruct (Hcl a o Ho Hnd) as [_ H]. congruence.
    + intros Hb Hnd. apply Hcl; auto. destruct (objs s !! a) as [o|]; [destruct (o_armed o)|]; set_solver.
  - intros b o'. rewrite Hobj, Hds. destruct (decide (b = a)) as [->|Hne].
    + destruct (objs s !! a) as [o|] eqn:Ho; cbn; [|discriminate]. intros [= <-] Hsu.
      destruct (Hf o eq_refl) as (_&Ha&Hsf).
      assert (Hso : o_suicided o = true) by (destruct (o_armed (f o)); cbn in Hsu; congruence).
      pose proof (Hs a o Ho Hso). destruct (o_armed o); set_solver.
    + intros Hb Hsu. pose proof (Hs b o' Hb Hsu). destruct (objs s !! a) as [o|]; [destruct (o_armed o)|]; set_solver.
Qed.

(* ---------- preservation: storage, nonce, code ---------- *)
Lemma view_f_data k v o k' : view (f_data k v o) k' = if decide (k' = k) then v else view o k'.
Proof.
  unfold view, f_data. cbn. destruct (decide (k' = k)) as [->|]; [rewrite lookup_insert|rewrite lookup_insert_ne by congruence]; reflexivity.
Qed.

Lemma ocoh_f_data k v o : ocoh o -> ocoh (f_data k v o).
Proof.
  intros [H1 H2]. split; [|exact H2]. intros k'. rewrite data_of_f_data, view_f_data. destruct (decide (k' = k)); auto.
Qed.

Lemma rinv_setdata_raw a k v s : rinv s -> rinv (s_setdata_raw a k v s).
Proof. intros H. rewrite s_setdata_raw_eq. apply rinv_mut; auto. intros o Ho. split; [|split; reflexivity]. apply ocoh_f_data. eapply ri_coh; eauto. Qed.

Lemma rinv_setnonce_raw a n s : rinv s -> rinv (s_setnonce_raw a n s).
Proof. intros H. rewrite s_setnonce_raw_eq. apply rinv_mut; auto. intros o Ho. split; [|split; reflexivity]. apply (ri_coh s H a o Ho). Qed.

Lemma rinv_setcode_raw a h c s : rinv s -> rinv (s_setcode_raw a h c s).
Proof. intros H. rewrite s_setcode_raw_eq. apply rinv_mut; auto. intros o Ho. split; [|split; reflexivity]. apply (ri_coh s H a o Ho). Qed.

Lemma o_getdata_fields k o :
  let o1 := fst (o_getdata k o) in
  o_dirty o1 = o_dirty o /\ o_root o1 = o_root o /\ o_nonce o1 = o_nonce o /\ o_hash o1 = o_hash o /\
  o_armed o1 = o_armed o /\ o_suicided o1 = o_suicided o.
Proof.
  unfold o_getdata. destruct (o_cached o !! k); cbn; [repeat split|]. destruct (o_root o !! k); cbn; repeat split.
Qed.

Lemma rinv_getdata a k s : rinv s -> rinv (fst (s_getdata a k s)).
Proof.
  intros H. rewrite s_getdata_eq. destruct (objs s !! a) as [o|] eqn:Ho; cbn [fst]; [|exact H].
  apply rinv_upd_quiet; auto. intros o' Ho'. assert (o' = o) by congruence. subst o'.
  destruct (o_getdata_fields k o) as (Hd&Hr&Hn&Hh&Ha&Hs). destruct (o_getdata_spec k o) as (_&Hdat&_).
  destruct (ri_coh s H a o Ho) as [Hc1 Hc2].
  split; [|split; [|split; assumption]].
  - split; [|rewrite Hr; exact Hc2]. intros k'. rewrite Hdat, Hc1. unfold view. rewrite Hd, Hr. reflexivity.
  - unfold acct_of, content. rewrite Hd, Hr, Hn, Hh. reflexivity.
Qed.

Lemma rinv_loadcode a s : rinv s -> rinv (fst (s_loadcode a s)).
Proof.
  intros H. unfold s_loadcode. destruct (objs s !! a) as [o|] eqn:Ho; [|exact H].
  destruct (o_code o); [exact H|]. destruct (o_hash o =? 0); [exact H|]. cbn [fst].
  rewrite (upd_const_insert _ _ _ _ Ho). apply rinv_upd_quiet; auto.
  intros o' Ho'. assert (o' = o) by congruence. subst o'. split; [|repeat split]. apply (ri_coh s H a o Ho).
Qed.

Lemma rinv_setdata a k v s : rinv s -> rinv (s_setdata a k v s).
Proof.
  intros H. unfold s_setdata. pose proof (rinv_getdata a k s H) as H1. destruct (s_getdata a k s) as [s1 pre]. cbn [fst] in H1.
  destruct (bytes_eqb v pre); [exact H1|]. apply rinv_setdata_raw, rinv_push, H1.
Qed.

Lemma rinv_bal_read a s : rinv s -> rinv (fst (bal_read a s)).
Proof. intros H. rewrite bal_read_fst. apply rinv_getdata, rinv_ensure, H. Qed.

Lemma rinv_bal_write a n s : rinv s -> rinv (bal_write a n s).
Proof. intros H. unfold bal_write. destruct (p002 s); [apply rinv_setdata|apply rinv_setdata_raw]; exact H. Qed.

Lemma rinv_add_balance a n s : rinv s -> rinv (add_balance a n s).
Proof.
  intros H. unfold add_balance. pose proof (rinv_bal_read a s H) as H1. destruct (bal_read a s). apply rinv_bal_write, H1.
Qed.

Lemma rinv_sub_balance a n s : rinv s -> rinv (fst (sub_balance a n s)).
Proof.
  intros H. unfold sub_balance. pose proof (rinv_bal_read a s H) as H1. destruct (bal_read a s) as [s1 r]. cbn [fst] in *.
  destruct (r <? n); cbn [fst]; [exact H1|apply rinv_bal_write, H1].
Qed.

Lemma rinv_ft_read a s : rinv s -> rinv (fst (ft_read a s)).
Proof. intros H. rewrite ft_read_fst. apply rinv_getdata, H. Qed.

Lemma rinv_tset a k v s : rinv s -> rinv (tset a k v s).
Proof. destruct (tset_fields a k v s) as (H1&_&_&_&_&_&_&_&_&_&H2&_&_&_&H3). apply rinv_same; assumption. Qed.

Lemma rinv_al_delete_slot a k s : rinv s -> rinv (al_delete_slot a k s).
Proof.
  unfold al_delete_slot. destruct (al_addrs s !! a); [|auto]. destruct (al_slots s !! _); [|auto].
  destruct (_ =? _)%nat; apply rinv_same; reflexivity.
Qed.

(* ---------- preservation: every guarded operation ---------- *)
Lemma rinv_step o s : op_ok true false o -> rinv s -> rinv (fst (step o s)).
Proof.
  intros Hok H. destruct o; cbn [step fst]; try exact H; try (apply rinv_ensure, H).
  - apply rinv_setnonce_raw, rinv_push, rinv_ensure, H.
  - apply rinv_setnonce_raw, rinv_push, rinv_ensure, H.
  - apply rinv_setdata, rinv_ensure, H.
  - apply rinv_add_balance, H.
  - pose proof (rinv_sub_balance a n s H) as H1. destruct (sub_balance a n s). exact H1.
  - apply rinv_setdata, rinv_ensure, H.
  - destruct (n =? 0); cbn [fst]; [exact H|]. apply rinv_add_balance, rinv_sub_balance, H.
  - pose proof (rinv_loadcode a _ (rinv_ensure true a s H)) as H1. destruct (s_loadcode a (ensure true a s)) as [s2 prev].
    cbn [fst] in *. apply rinv_setcode_raw, rinv_push, H1.
  - discriminate Hok.
  - revert H. apply rinv_same; reflexivity.
  - revert H. apply rinv_same; reflexivity.
  - revert H. apply rinv_same; reflexivity.
  - revert H. unfold al_add_addr. destruct (al_addrs s !! a); [auto|]. apply rinv_same; reflexivity.
  - revert H. unfold al_add_slot. destruct (al_addrs s !! a) as [idx|]; [|apply rinv_same; reflexivity].
    destruct (idx =? -1)%Z; [apply rinv_same; reflexivity|]. destruct (al_slots s !! _); [|auto].
    destruct (bool_decide _); [auto|]. apply rinv_same; reflexivity.
  - destruct (tget s a k =? v); cbn [fst]; [exact H|]. apply rinv_tset, rinv_push, H.
  - (* AddFT *)
    destruct (n =? 0) eqn:En; cbn [fst].
    + apply N.eqb_eq in En. destruct Hok; [contradiction|discriminate].
    + pose proof (rinv_ft_read a _ (rinv_ensure true a s H)) as H1. destruct (ft_read a (ensure true a s)) as [s2 raw].
      cbn [fst] in *. apply rinv_setdata, H1.
  - (* SubFT *)
    pose proof (rinv_ft_read a _ (rinv_ensure true a s H)) as H1. destruct (ft_read a (ensure true a s)) as [s2 raw]. cbn [fst] in *.
    destruct (n =? 0); cbn [fst]; [exact H1|]. destruct raw as [r|]; cbn [fst]; [|exact H1].
    destruct (r <? n); cbn [fst]; [exact H1|]. apply rinv_setdata, H1.
  - apply rinv_setdata, rinv_ensure, H.
  - pose proof (rinv_bal_read a s H) as H1. destruct (bal_read a s). exact H1.
  - pose proof (rinv_getdata a k _ (rinv_ensure false a s H)) as H1. destruct (s_getdata a k _). exact H1.
  - destruct Hok.
  - pose proof (rinv_loadcode a _ (rinv_ensure false a s H)) as H1. destruct (s_loadcode a _). exact H1.
  - pose proof (rinv_ft_read a _ (rinv_ensure true a s H)) as H1. destruct (ft_read a _). exact H1.
  - destruct Hok.
Qed.

(* ---------- preservation: undo ---------- *)
Lemma rinv_undo e s : eok true false e -> rinv s -> rinv (undo e s).
Proof.
  intros He H. destruct e; cbn [undo]; try discriminate He.
  - (* ECreate *)
    destruct H as [Ht Hc Hcl Hs]. split; cbn; auto.
    + intros b o'. destruct (decide (b = a)) as [->|]; [rewrite lookup_delete; discriminate|rewrite lookup_delete_ne by congruence; apply Hc].
    + intros b o'. destruct (decide (b = a)) as [->|]; [rewrite lookup_delete; discriminate|].
      rewrite lookup_delete_ne by congruence. intros Hb Hn. apply Hcl; auto. set_solver.
    + intros b o'. destruct (decide (b = a)) as [->|]; [rewrite lookup_delete; discriminate|].
      rewrite lookup_delete_ne by congruence. intros Hb Hsu. pose proof (Hs b o' Hb Hsu). set_solver.
  - apply rinv_setnonce_raw, rinv_ensure, H.
  - apply rinv_setdata_raw, rinv_ensure, H.
  - apply rinv_setcode_raw, rinv_ensure, H.
  - revert H. apply rinv_same; reflexivity.
  - revert H. destruct (_ =? _)%nat; apply rinv_same; reflexivity.
  - revert H. apply rinv_same; reflexivity.
  - apply rinv_al_delete_slot, H.
  - apply rinv_tset, H.
Qed.

Lemma rinv_undo_list es s : Forall (eok true false) es -> rinv s -> rinv (undo_list es s).
Proof.
  intros HF. revert s. induction HF as [|e es He _ IH]; intros s H; cbn; [exact H|]. apply IH, rinv_undo; assumption.
Qed.

(* ---------- preservation: programs ---------- *)
Lemma rinv_run_ops obs : Forall (op_ok true false) obs -> forall s, rinv s -> rinv (fst (run_ops obs s)).
Proof.
  induction 1 as [|o obs Ho _ IH]; intros s H; cbn [run_ops fst]; [exact H|].
  pose proof (rinv_step o s Ho H) as H1. destruct (step o s) as [s1 x]. cbn [fst] in *.
  pose proof (IH s1 H1) as H2. destruct (run_ops obs s1). exact H2.
Qed.

Lemma rinv_snapshot s : rinv s -> rinv (fst (snapshot s)).
Proof. apply rinv_same; reflexivity. Qed.

Lemma revert_eq ex tch s0 s2 :
  rb s0 -> RTq ex tch (fst (snapshot s0)) s2 ->
  exists E, Forall (eok ex tch) E /\
    revert (snd (snapshot s0)) s2 = undo_list (rev E) s2 <| journal := journal s0 |> <| revs := revs s0 |>.
Proof.
  intros Hb (E&R&HJ&HS&Hw2&Hp&Ht&HK&HR&HF&Hn&Hb2). cbn [snapshot fst snd] in *.
  cbn [journal revs nextrev set] in HJ, HR, HF, Hn.
  exists E. split; [exact HK|].
  assert (Hrev : revs s2 = revs s0 ++ (nextrev s0, length (journal s0)) :: R) by (rewrite HR, <- app_assoc; reflexivity).
  unfold revert. cbv zeta. rewrite Hrev. rewrite (search_rev_app (revs s0) (nextrev s0) (length (journal s0)) R 0) by exact Hb.
  cbn [Nat.add]. rewrite lookup_app_r by lia. rewrite Nat.sub_diag. cbn [lookup list_lookup]. rewrite N.eqb_refl.
  rewrite HJ. rewrite drop_app, !take_app. reflexivity.
Qed.

Lemma rinv_revert ex s0 s2 :
  rb s0 -> RTq ex false (fst (snapshot s0)) s2 -> ex = true -> rinv s2 -> rinv (revert (snd (snapshot s0)) s2).
Proof.
  intros Hb HQ -> H2. destruct (revert_eq true false s0 s2 Hb HQ) as (E&HK&->).
  eapply rinv_same; [| | |apply (rinv_undo_list (rev E) s2); [apply Forall_rev, HK|exact H2]]; reflexivity.
Qed.

Lemma rinv_items :
  forall it, item_ok true false it -> forall s, wf_al s -> rb s -> p002 s = true -> rinv s -> rinv (fst (run_item it s)).
Proof.
  induction it as [o|obs body rv IHb] using item_ind'; intros Hok s Hw Hb Hp Hr.
  - inversion Hok; subst. cbn [run_item]. pose proof (rinv_step o s ltac:(assumption) Hr) as H1. destruct (step o s). exact H1.
  - inversion Hok as [|? ? ? Hobs Hbody]; subst.
    assert (Hrun : forall l,
      Forall (fun it => item_ok true false it -> forall s, wf_al s -> rb s -> p002 s = true -> rinv s -> rinv (fst (run_item it s))) l ->
      Forall (item_ok true false) l -> forall s, wf_al s -> rb s -> p002 s = true -> rinv s -> rinv (fst (run l s))).
    { induction l as [|it l IHl]; intros HP Hl s' Hw' Hb' Hp' Hr'; cbn [run fst]; [exact Hr'|].
      inversion HP as [|? ? HP1 HP2]; subst. inversion Hl as [|? ? Hl1 Hl2]; subst.
      pose proof (HP1 Hl1 s' Hw' Hb' Hp' Hr') as H1.
      pose proof (rtq_items true false it Hl1 s' Hw' Hb' Hp') as Q1.
      destruct (run_item it s') as [s1 x]. cbn [fst] in *.
      assert (Hp1 : p002 s1 = true) by (rewrite (rtq_p002 _ _ _ _ Q1); exact Hp').
      pose proof (IHl HP2 Hl2 s1 (rtq_wf _ _ _ _ Q1) (rtq_rb _ _ _ _ Q1) Hp1 H1) as H2.
      destruct (run l s1) as [s2 y]. exact H2. }
    rewrite run_item_bracket.
    pose proof (rtq_run_ops true false obs Hobs s Hw Hb Hp) as Q1. pose proof (rinv_run_ops obs Hobs s Hr) as R1.
    destruct (run_ops obs s) as [sw xw]. cbn [fst] in *.
    assert (Hpw : p002 sw = true) by (rewrite (rtq_p002 _ _ _ _ Q1); exact Hp).
    pose proof (rtq_run_ops true false obs Hobs sw (rtq_wf _ _ _ _ Q1) (rtq_rb _ _ _ _ Q1) Hpw) as Q2.
    pose proof (rinv_run_ops obs Hobs sw R1) as R2.
    destruct (run_ops obs sw) as [s0 x0]. cbn [fst] in *.
    assert (Hp0 : p002 s0 = true) by (rewrite (rtq_p002 _ _ _ _ Q2); exact Hpw).
    pose proof (rtq_snapshot true false s0 (rtq_wf _ _ _ _ Q2) (rtq_rb _ _ _ _ Q2)) as Q3.
    pose proof (rinv_snapshot s0 R2) as R3.
    pose proof (rinv_revert true s0) as Hrv. pose proof (rtq_revert true false s0) as Qrv.
    destruct (snapshot s0) as [s1 id]. cbn [fst snd] in *.
    assert (Hp1 : p002 s1 = true) by (rewrite (rtq_p002 _ _ _ _ Q3); exact Hp0).
    pose proof (rtq_run true false body Hbody s1 (rtq_wf _ _ _ _ Q3) (rtq_rb _ _ _ _ Q3) Hp1) as Q4.
    pose proof (Hrun body IHb Hbody s1 (rtq_wf _ _ _ _ Q3) (rtq_rb _ _ _ _ Q3) Hp1 R3) as R4.
    destruct (run body s1) as [s2 xs]. cbn [fst] in *.
    destruct rv; [|exact R4].
    pose proof (Hrv s2 (rtq_rb _ _ _ _ Q2) Q4 eq_refl R4) as R5.
    pose proof (rinv_run_ops obs Hobs _ R5) as R6. destruct (run_ops obs (revert id s2)). exact R6.
Qed.

Lemma rinv_run l : Forall (item_ok true false) l ->
  forall s, wf_al s -> rb s -> p002 s = true -> rinv s -> rinv (fst (run l s)).
Proof.
  induction 1 as [|it l Hi Hl IH]; intros s Hw Hb Hp Hr; cbn [run fst]; [exact Hr|].
  pose proof (rinv_items it Hi s Hw Hb Hp Hr) as H1. pose proof (rtq_items true false it Hi s Hw Hb Hp) as Q1.
  destruct (run_item it s) as [s1 x]. cbn [fst] in *.
  assert (Hp1 : p002 s1 = true) by (rewrite (rtq_p002 _ _ _ _ Q1); exact Hp).
  pose proof (IH s1 (rtq_wf _ _ _ _ Q1) (rtq_rb _ _ _ _ Q1) Hp1 H1) as H2. destruct (run l s1). exact H2.
Qed.

Lemma rinv_after_revert s body :
  wf_al s -> rb s -> p002 s = true -> rinv s -> Forall (item_ok true false) body -> rinv (after_revert body s).
Proof.
  intros Hw Hb Hp Hr Hok. unfold after_revert.
  pose proof (rtq_snapshot true false s Hw Hb) as Q1.
  assert (Hp1 : p002 (fst (snapshot s)) = true) by (rewrite (rtq_p002 _ _ _ _ Q1); exact Hp).
  pose proof (rtq_run true false body Hok _ (rtq_wf _ _ _ _ Q1) (rtq_rb _ _ _ _ Q1) Hp1) as Q2.
  apply (rinv_revert true s _ Hb Q2 eq_refl).
  apply rinv_run; [exact Hok | eapply rtq_wf, Q1 | eapply rtq_rb, Q1 | exact Hp1 | apply rinv_snapshot, Hr].
Qed.

(* ---------- the root clause for deleteEmptyObjects = false ---------- *)
Theorem root_equal_nodelete s body :
  wf_al s -> rb s -> p002 s = true -> rinv s -> Forall (item_ok true false) body ->
  fin_trie false false (after_revert body s) = fin_trie false false s.
Proof.
  intros Hw Hb Hp Hr Hok. apply fin_trie_sim; [apply (revert_restores true false); auto | apply rinv_after_revert; auto | exact Hr].
Qed.

Lemma rinv_fresh tr cs tok p th : trie_ok tr -> rinv (fresh tr cs tok p th).
Proof. intros Ht. split; cbn; auto; intros a o; rewrite lookup_empty; discriminate. Qed.

Lemma reach_rinv tr cs tok th prog :
  trie_ok tr -> Forall (item_ok true false) prog -> rinv (fst (run prog (fresh tr cs tok true th))).
Proof.
  intros Ht Hok. apply rinv_run; [exact Hok | apply wf_al_fresh | apply rb_fresh | reflexivity | apply rinv_fresh, Ht].
Qed.

(* ---------- deleteEmptyObjects = true with the repaired emptiness test ---------- *)
(* no committed leaf is an empty account (nonce 0, no code, no storage) *)
Definition no_empty_leaf (t : gmap N acct) : Prop :=
  forall a ac, t !! a = Some ac -> (a_hash ac =? 0) && (a_nonce ac =? 0) && (size (a_store ac) =? 0)%nat = false.

Definition leafB (s : state) (a : N) : option acct :=
  match look s a with Some o => if o_suicided o || empty_fixed o then None else Some (acct_of o) | None => None end.

Lemma empty_fixed_acct o : empty_fixed o = (a_hash (acct_of o) =? 0) && (a_nonce (acct_of o) =? 0) && (size (a_store (acct_of o)) =? 0)%nat.
Proof. reflexivity. Qed.

Lemma fin_leaf_fixed s a : rinv s -> no_empty_leaf (trie s) -> fin_trie true true s !! a = leafB s a.
Proof.
  intros [Ht Hc Hcl Hs] Hne. unfold fin_trie, leafB, look, dead. rewrite lookup_merge, map_filter_lookup. unfold diag_None.
  destruct (objs s !! a) as [o|] eqn:Ho; cbn.
  - destruct (decide (a ∈ dirtyset s)) as [Hd|Hd].
    + rewrite option_guard_True by exact Hd. cbn. destruct (trie s !! a); reflexivity.
    + rewrite option_guard_False by exact Hd. cbn. destruct (Hcl a o Ho Hd) as [Hta _]. rewrite Hta.
      destruct (o_suicided o) eqn:Hsu; [exfalso; apply Hd, (Hs a o Ho Hsu)|]. cbn.
      rewrite empty_fixed_acct, (Hne a _ Hta). reflexivity.
  - destruct (trie s !! a) as [ac|] eqn:Hta; cbn.
    + rewrite empty_fixed_acct, acct_of_pristine, (Hne a ac Hta). reflexivity.
    + reflexivity.
Qed.

Lemma fin_trie_sim_fixed x y :
  sim true x y -> rinv x -> rinv y -> no_empty_leaf (trie y) -> fin_trie true true x = fin_trie true true y.
Proof.
  intros H Hx Hy Hne. apply map_eq. intros a.
  rewrite !fin_leaf_fixed by (try assumption; rewrite (sim_trie _ _ _ H); assumption). unfold leafB.
  pose proof (sim_objs _ _ _ H a) as Ho.
  destruct (look x a) as [o|] eqn:Hlx, (look y a) as [o'|] eqn:Hly; cbn in Ho; try tauto.
  destruct Ho as [Hn Hh _ Hsu Hd]. rewrite Hsu.
  assert (Ha : acct_of o = acct_of o') by (apply acct_of_eq; eauto using look_coh).
  rewrite !empty_fixed_acct, Ha. reflexivity.
Qed.

Theorem root_equal_fixed_empty s body :
  wf_al s -> rb s -> p002 s = true -> rinv s -> no_empty_leaf (trie s) -> Forall (item_ok true false) body ->
  fin_trie true true (after_revert body s) = fin_trie true true s.
Proof.
  intros Hw Hb Hp Hr Hne Hok.
  apply fin_trie_sim_fixed; [apply (revert_restores true false); auto | apply rinv_after_revert; auto | exact Hr | exact Hne].
Qed.
