(* C04 proofs, part 2: every undo clause respects the equivalence (congruence), and the facts about
   transient storage / logs used later. *)
From stdpp Require Import gmap.
From RecordUpdate Require Import RecordSet.
From V.Base Require Import Hex BigEndian.
From V.C04 Require Import Model Sim.
Import RecordSetNotations.
Local Open Scope N_scope.

(* ---------- object transformers ---------- *)
Definition f_nonce (n : N) (o : obj) : obj := o <| o_nonce := n |>.
Definition f_data (k : N) (v : bytes) (o : obj) : obj :=
  o <| o_cached := <[k := v]> (o_cached o) |> <| o_dirty := <[k := v]> (o_dirty o) |>.
Definition f_code (h : N) (c : option bytes) (o : obj) : obj := o <| o_hash := h |> <| o_code := c |>.
Definition f_suic (b : bool) (o : obj) : obj := o <| o_suicided := b |>.
Definition f_touched (b : bool) (o : obj) : obj := o <| o_touched := b |>.

Lemma data_of_f_data k v o k' : data_of (f_data k v o) k' = if decide (k' = k) then v else data_of o k'.
Proof.
  unfold data_of, f_data. cbn. destruct (decide (k' = k)) as [->|].
  - rewrite lookup_insert. reflexivity.
  - rewrite lookup_insert_ne by congruence. reflexivity.
Qed.

Lemma omorph_nonce n : omorph (f_nonce n).
Proof. intros ex tok cs a o o' []. split; auto. Qed.
Lemma omorph_data k v : omorph (f_data k v).
Proof.
  intros ex tok cs a o o' []. split; auto. intros k'. rewrite !data_of_f_data.
  destruct (decide (k' = k)); auto using veq_refl.
Qed.
Lemma omorph_code h c : omorph (f_code h c).
Proof. intros ex tok cs a o o' []. split; auto. Qed.
Lemma omorph_suic b : omorph (f_suic b).
Proof. intros ex tok cs a o o' []. split; auto. Qed.
Lemma omorph_touched b : omorph (f_touched b).
Proof. intros ex tok cs a o o' []. split; auto. Qed.

(* the model's primitives in terms of these *)
Lemma s_setdata_raw_eq a k v s : s_setdata_raw a k v s = mark_dirty a (upd a (f_data k v) s).
Proof. reflexivity. Qed.
Lemma s_setnonce_raw_eq a n s : s_setnonce_raw a n s = mark_dirty a (upd a (f_nonce n) s).
Proof. reflexivity. Qed.
Lemma s_setcode_raw_eq a h c s : s_setcode_raw a h c s = mark_dirty a (upd a (f_code h c) s).
Proof. reflexivity. Qed.

Lemma sim_mark_cong ex a x y : sim ex x y -> sim ex (mark_dirty a x) (mark_dirty a y).
Proof.
  intros H. eapply sim_trans; [apply sim_mark|]. eapply sim_trans; [apply H|]. apply sim_sym, sim_mark.
Qed.

(* update of the object at [a] after getAccountObject(a, false) *)
Lemma sim_with_obj_cong ex a f x y :
  omorph f -> sim ex x y -> sim ex (upd a f (ensure false a x)) (upd a f (ensure false a y)).
Proof.
  intros Hf H. apply sim_upd_cong; auto using settled_ensure, sim_ensure_cong.
Qed.

Lemma sim_set_balance_raw_cong ex a n x y :
  sim ex x y -> sim ex (set_balance_raw a n x) (set_balance_raw a n y).
Proof.
  intros H. unfold set_balance_raw. rewrite !s_setdata_raw_eq. rewrite <- (sim_token _ _ _ H).
  apply sim_mark_cong. apply sim_upd_cong; auto using omorph_data, settled_ensure, sim_ensure_cong.
Qed.

(* ---------- transient storage ---------- *)
Lemma tget_tset a k v s a' k' :
  tget (tset a k v s) a' k' = if decide (a' = a /\ k' = k) then v else tget s a' k'.
Proof.
  unfold tset, tget. destruct (v =? 0) eqn:Hv.
  - apply N.eqb_eq in Hv. subst v. destruct (transient s !! a) as [m|] eqn:Hm.
    + destruct (size (delete k m) =? 0)%nat eqn:Hsz; cbn.
      * apply Nat.eqb_eq, map_size_empty_iff in Hsz.
        destruct (decide (a' = a)) as [->|Hn].
        -- rewrite lookup_delete. rewrite Hm. destruct (decide (k' = k)) as [->|Hk].
           ++ rewrite decide_True by auto. reflexivity.
           ++ rewrite decide_False by tauto. rewrite <- (lookup_delete_ne m k k') by congruence.
              rewrite Hsz, lookup_empty. reflexivity.
        -- rewrite lookup_delete_ne by congruence. rewrite decide_False by tauto. reflexivity.
      * destruct (decide (a' = a)) as [->|Hn].
        -- rewrite lookup_insert, Hm. destruct (decide (k' = k)) as [->|Hk].
           ++ rewrite decide_True by auto. rewrite lookup_delete. reflexivity.
           ++ rewrite decide_False by tauto. rewrite lookup_delete_ne by congruence. reflexivity.
        -- rewrite lookup_insert_ne by congruence. rewrite decide_False by tauto. reflexivity.
    + destruct (decide (a' = a /\ k' = k)) as [[-> ->]|]; [rewrite Hm|]; reflexivity.
  - cbn. destruct (decide (a' = a)) as [->|Hn].
    + rewrite lookup_insert. destruct (decide (k' = k)) as [->|Hk].
      * rewrite decide_True by auto. rewrite lookup_insert. reflexivity.
      * rewrite decide_False by tauto. rewrite lookup_insert_ne by congruence.
        destruct (transient s !! a); reflexivity.
    + rewrite lookup_insert_ne by congruence. rewrite decide_False by tauto. reflexivity.
Qed.

Lemma tset_fields a k v s :
  trie (tset a k v s) = trie s /\ codes (tset a k v s) = codes s /\ token (tset a k v s) = token s /\
  p002 (tset a k v s) = p002 s /\ thash (tset a k v s) = thash s /\ refund (tset a k v s) = refund s /\
  logsize (tset a k v s) = logsize s /\ logs (tset a k v s) = logs s /\ al_addrs (tset a k v s) = al_addrs s /\
  al_slots (tset a k v s) = al_slots s /\ objs (tset a k v s) = objs s /\ journal (tset a k v s) = journal s /\
  revs (tset a k v s) = revs s /\ nextrev (tset a k v s) = nextrev s /\ dirtyset (tset a k v s) = dirtyset s.
Proof.
  unfold tset. destruct (v =? 0); [destruct (transient s !! a); [destruct (_ =? _)%nat|]|]; repeat split.
Qed.

Lemma look_tset a k v s b : look (tset a k v s) b = look s b.
Proof. unfold look. destruct (tset_fields a k v s) as (->&_&_&_&_&_&_&_&_&_&->&_). reflexivity. Qed.

Lemma sim_tset_cong ex a k v x y : sim ex x y -> sim ex (tset a k v x) (tset a k v y).
Proof.
  intros H. destruct (tset_fields a k v x) as (?&?&?&?&?&?&?&?&?&?&?&_).
  destruct (tset_fields a k v y) as (?&?&?&?&?&?&?&?&?&?&?&_).
  split; try (etransitivity; [eassumption|]; etransitivity; [apply H|]; symmetry; eassumption).
  - intros h. unfold getlogs. rewrite H7, H18. apply H.
  - intros a' k'. rewrite !tget_tset. destruct (decide _); [reflexivity | apply H].
  - intros b. rewrite H1, H2, !look_tset. apply H.
Qed.

(* ---------- logs ---------- *)
Definition undo_log (h : N) (s : state) : state :=
  let l := getlogs s h in
  (if (length l =? 1)%nat then s <| logs := delete h (logs s) |>
   else s <| logs := <[h := removelast l]> (logs s) |>) <| logsize := logsize s - 1 |>.

Lemma getlogs_undo_log h s h' :
  getlogs (undo_log h s) h' =
  if decide (h' = h) then (if (length (getlogs s h) =? 1)%nat then [] else removelast (getlogs s h)) else getlogs s h'.
Proof.
  unfold undo_log. destruct (length (getlogs s h) =? 1)%nat.
  - unfold getlogs at 1. cbn. destruct (decide (h' = h)) as [->|Hn].
    + rewrite lookup_delete. reflexivity.
    + rewrite lookup_delete_ne by congruence. reflexivity.
  - unfold getlogs at 1. cbn. destruct (decide (h' = h)) as [->|Hn].
    + rewrite lookup_insert. reflexivity.
    + rewrite lookup_insert_ne by congruence. reflexivity.
Qed.

Lemma undo_log_fields h s :
  trie (undo_log h s) = trie s /\ codes (undo_log h s) = codes s /\ token (undo_log h s) = token s /\
  p002 (undo_log h s) = p002 s /\ thash (undo_log h s) = thash s /\ refund (undo_log h s) = refund s /\
  logsize (undo_log h s) = logsize s - 1 /\ transient (undo_log h s) = transient s /\ al_addrs (undo_log h s) = al_addrs s /\
  al_slots (undo_log h s) = al_slots s /\ objs (undo_log h s) = objs s /\ journal (undo_log h s) = journal s /\
  revs (undo_log h s) = revs s /\ nextrev (undo_log h s) = nextrev s /\ dirtyset (undo_log h s) = dirtyset s.
Proof. unfold undo_log. destruct (_ =? _)%nat; repeat split. Qed.

Lemma look_undo_log h s b : look (undo_log h s) b = look s b.
Proof. unfold look. destruct (undo_log_fields h s) as (->&_&_&_&_&_&_&_&_&_&->&_). reflexivity. Qed.

Lemma sim_undo_log_cong ex h x y : sim ex x y -> sim ex (undo_log h x) (undo_log h y).
Proof.
  intros H. destruct (undo_log_fields h x) as (?&?&?&?&?&?&?&?&?&?&?&_).
  destruct (undo_log_fields h y) as (?&?&?&?&?&?&?&?&?&?&?&_).
  split; try (etransitivity; [eassumption|]; etransitivity; [apply H|]; symmetry; eassumption).
  - rewrite H6, H17, (sim_logsize _ _ _ H). reflexivity.
  - intros h'. rewrite !getlogs_undo_log. rewrite !(sim_logs _ _ _ H). reflexivity.
  - intros a k. unfold tget. rewrite H7, H18. apply H.
  - intros b. rewrite H1, H2, !look_undo_log. apply H.
Qed.

(* ---------- congruence of undo ---------- *)
Lemma look_del_obj a s ds b :
  look (s <| objs := delete a (objs s) |> <| dirtyset := ds |>) b =
  if decide (b = a) then pristine <$> trie s !! a else look s b.
Proof.
  unfold look. cbn. destruct (decide (b = a)) as [->|].
  - rewrite lookup_delete. reflexivity.
  - rewrite lookup_delete_ne by congruence. reflexivity.
Qed.

Lemma undo_cong ex e x y : sim ex x y -> sim ex (undo e x) (undo e y).
Proof.
  intros H. destruct e; cbn [undo].
  - (* ECreate *)
    split; try apply H. intros b. cbn [token codes set]. rewrite !look_del_obj.
    destruct (decide (b = a)) as [->|]; [|apply H]. rewrite (sim_trie _ _ _ H). apply orel_refl.
  - (* ESuicide *)
    pose proof (sim_ensure_cong ex false a _ _ H) as H1.
    rewrite (settled_ensure false a x), (settled_ensure false a y).
    pose proof (sim_objs _ _ _ H1 a) as Ho.
    destruct (look (ensure false a x) a), (look (ensure false a y) a); cbn in Ho.
    + apply sim_set_balance_raw_cong. apply sim_upd_cong; auto using settled_ensure. apply (omorph_suic prev).
    + tauto.
    + tauto.
    + exact H1.
  - (* ENonce *)
    rewrite !s_setnonce_raw_eq. apply sim_mark_cong, sim_with_obj_cong; auto using omorph_nonce.
  - (* EStorage *)
    rewrite !s_setdata_raw_eq. apply sim_mark_cong, sim_with_obj_cong; auto using omorph_data.
  - (* ECode *)
    rewrite !s_setcode_raw_eq. apply sim_mark_cong, sim_with_obj_cong; auto using omorph_code.
  - (* ERefund *)
    split; try apply H. reflexivity.
  - (* ELog *)
    apply (sim_undo_log_cong ex txh x y H).
  - (* ETouch *)
    destruct (negb prev && negb (a =? ripemd)); [|exact H].
    assert (H1 : sim ex (upd a (f_touched prev) (ensure false a x)) (upd a (f_touched prev) (ensure false a y)))
      by (apply sim_with_obj_cong; auto using omorph_touched).
    destruct (negb prevDirty); [|exact H1].
    split; try apply H1.
  - (* EALAddr *)
    split; try apply H. cbn. rewrite (sim_ala _ _ _ H). reflexivity.
  - (* EALSlot *)
    unfold al_delete_slot. rewrite <- (sim_ala _ _ _ H), <- (sim_als _ _ _ H).
    destruct (al_addrs x !! a) as [idx|]; [|exact H].
    destruct (al_slots x !! Z.to_nat idx) as [m|]; [|exact H].
    destruct (_ =? _)%nat; split; try apply H; cbn; rewrite ?(sim_ala _ _ _ H), ?(sim_als _ _ _ H); reflexivity.
  - (* ETransient *)
    apply sim_tset_cong, H.
Qed.

Lemma undo_list_cong ex es x y : sim ex x y -> sim ex (undo_list es x) (undo_list es y).
Proof.
  revert x y. induction es as [|e es IH]; intros x y H; cbn; [exact H|]. apply IH, undo_cong, H.
Qed.

Lemma undo_list_app es1 es2 s : undo_list (es1 ++ es2) s = undo_list es2 (undo_list es1 s).
Proof. unfold undo_list. apply fold_left_app. Qed.
