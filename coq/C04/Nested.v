(* C04 proofs, part 5: programs with nested Snapshot / RevertToSnapshot, and the revert theorem. *)
From stdpp Require Import gmap.
From RecordUpdate Require Import RecordSet.
From V.Base Require Import Hex BigEndian.
From V.C04 Require Import Model Sim Undo Roundtrip Steps.
Import RecordSetNotations.
Local Open Scope N_scope.

(* every live revision id is below the next id to be handed out *)
Definition rb (s : state) : Prop := Forall (fun p : N * nat => p.1 < nextrev s) (revs s).

(* the round-trip relation for program fragments: revisions may have been pushed on top of the stack *)
Definition RTq (ex tch : bool) (s s' : state) : Prop :=
  exists E R, journal s' = journal s ++ E /\ sim ex (undo_list (rev E) s') s /\ wf_al s' /\
    p002 s' = p002 s /\ token s' = token s /\ Forall (eok ex tch) E /\
    revs s' = revs s ++ R /\ Forall (fun p : N * nat => nextrev s <= p.1) R /\ nextrev s <= nextrev s' /\ rb s'.

Ltac qsplit := split; [|split; [|split; [|split; [|split; [|split; [|split; [|split; [|split]]]]]]]].

Lemma rtq_of_rtp ex tch s s' : rb s -> RTp ex tch s s' -> RTq ex tch s s'.
Proof.
  intros Hb (E&HJ&HS&Hw&[Hr Hn]&Hp&Ht&HK). exists E, []. rewrite app_nil_r.
  split; [exact HJ|]. split; [exact HS|]. split; [exact Hw|]. split; [exact Hp|]. split; [exact Ht|].
  split; [exact HK|]. split; [exact Hr|]. split; [constructor|]. split; [rewrite Hn; reflexivity|].
  unfold rb. rewrite Hr, Hn. exact Hb.
Qed.

Lemma rtq_refl ex tch s : wf_al s -> rb s -> RTq ex tch s s.
Proof. intros Hw Hb. apply rtq_of_rtp; [exact Hb|apply rtp_refl, Hw]. Qed.

Lemma rtq_trans ex tch s s1 s2 : RTq ex tch s s1 -> RTq ex tch s1 s2 -> RTq ex tch s s2.
Proof.
  intros (E1&R1&HJ1&HS1&Hw1&Hp1&Ht1&HK1&HR1&HF1&Hn1&Hb1) (E2&R2&HJ2&HS2&Hw2&Hp2&Ht2&HK2&HR2&HF2&Hn2&Hb2).
  exists (E1 ++ E2), (R1 ++ R2). qsplit; try congruence; auto.
  - rewrite HJ2, HJ1, app_assoc. reflexivity.
  - rewrite rev_app_distr, undo_list_app. eapply sim_trans; [apply undo_list_cong, HS2 | exact HS1].
  - apply Forall_app; auto.
  - rewrite HR2, HR1, app_assoc. reflexivity.
  - apply Forall_app. split; [exact HF1|]. eapply Forall_impl; [exact HF2|]. intros p Hp. cbn in *. lia.
  - lia.
Qed.

Lemma rtq_wf ex tch s s' : RTq ex tch s s' -> wf_al s'.
Proof. intros (E&R&_&_&H&_). exact H. Qed.
Lemma rtq_p002 ex tch s s' : RTq ex tch s s' -> p002 s' = p002 s.
Proof. intros (E&R&_&_&_&H&_). exact H. Qed.
Lemma rtq_rb ex tch s s' : RTq ex tch s s' -> rb s'.
Proof. intros (E&R&_&_&_&_&_&_&_&_&_&H). exact H. Qed.

(* ---------- programs ---------- *)
Inductive item_ok (ex tch : bool) : item -> Prop :=
| ok_do o : op_ok ex tch o -> item_ok ex tch (Do o)
| ok_bracket obs body rv : Forall (op_ok ex tch) obs -> Forall (item_ok ex tch) body -> item_ok ex tch (Bracket obs body rv).

Lemma item_ind' (P : item -> Prop) :
  (forall o, P (Do o)) -> (forall obs body rv, Forall P body -> P (Bracket obs body rv)) -> forall it, P it.
Proof.
  intros Hd Hb. fix IH 1. intros [o|obs body rv]; [apply Hd|]. apply Hb.
  revert body. fix IHl 1. intros [|x l]; constructor; [apply IH | apply IHl].
Qed.

Lemma run_item_bracket obs body rv s :
  run_item (Bracket obs body rv) s =
  let '(sw, xw) := run_ops obs s in
  let '(s0, x0) := run_ops obs sw in
  let '(s1, id) := snapshot s0 in
  let '(s2, xs) := run body s1 in
  if rv then let '(s3, x3) := run_ops obs (revert id s2) in (s3, xw ++ x0 ++ xs ++ x3)
  else (s2, xw ++ x0 ++ xs).
Proof. reflexivity. Qed.

Lemma rtq_run_ops ex tch obs : Forall (op_ok ex tch) obs ->
  forall s, wf_al s -> rb s -> p002 s = true -> RTq ex tch s (fst (run_ops obs s)).
Proof.
  induction 1 as [|o obs Ho _ IH]; intros s Hw Hb Hp; cbn [run_ops fst]; [apply rtq_refl; auto|].
  pose proof (rtq_of_rtp ex tch _ _ Hb (rtp_step ex tch o s Hw Hp Ho)) as H1.
  destruct (step o s) as [s1 x]. cbn [fst] in *.
  pose proof (IH s1 (rtq_wf _ _ _ _ H1) (rtq_rb _ _ _ _ H1)) as H2.
  rewrite (rtq_p002 _ _ _ _ H1) in H2. specialize (H2 Hp).
  destruct (run_ops obs s1) as [s2 xs]. cbn [fst] in *. eapply rtq_trans; eauto.
Qed.

(* ---------- Snapshot ---------- *)
Lemma rtq_snapshot ex tch s : wf_al s -> rb s -> RTq ex tch s (fst (snapshot s)).
Proof.
  intros Hw Hb. exists [], [(nextrev s, length (journal s))]. cbn [snapshot fst]. rewrite app_nil_r.
  qsplit; auto; try reflexivity.
  - cbn. dstate s. sim_triv.
  - repeat constructor. cbn. lia.
  - unfold rb. dstate s. cbn in *. apply Forall_app. split.
    + eapply Forall_impl; [exact Hb|]. intros p Hp. cbn in *. lia.
    + repeat constructor. cbn. lia.
Qed.

(* ---------- RevertToSnapshot ---------- *)
Lemma search_rev_app l id j r i :
  Forall (fun p : N * nat => p.1 < id) l -> search_rev (l ++ (id, j) :: r) id i = (i + length l)%nat.
Proof.
  revert i. induction l as [|[id' j'] l IH]; intros i Hl; cbn.
  - rewrite N.leb_refl. lia.
  - inversion Hl as [|? ? H1 H2]; subst. cbn in H1. replace (id <=? id') with false by (symmetry; apply N.leb_gt; exact H1).
    rewrite IH by exact H2. lia.
Qed.

Lemma nextrev_ensure c a s : nextrev (ensure c a s) = nextrev s.
Proof. unfold ensure. destruct (objs s !! a); [reflexivity|]. destruct (trie s !! a); [reflexivity|]. destruct c; reflexivity. Qed.
Lemma nextrev_mark a s : nextrev (mark_dirty a s) = nextrev s.
Proof. apply ctl_mark. Qed.

Lemma nextrev_undo e s : nextrev (undo e s) = nextrev s.
Proof.
  destruct e; cbn [undo]; try reflexivity.
  - destruct (objs (ensure false a s) !! a); [|apply nextrev_ensure].
    unfold set_balance_raw, s_setdata_raw. rewrite nextrev_mark. cbn. rewrite nextrev_ensure. cbn. apply nextrev_ensure.
  - unfold s_setnonce_raw. rewrite nextrev_mark. cbn. apply nextrev_ensure.
  - unfold s_setdata_raw. rewrite nextrev_mark. cbn. apply nextrev_ensure.
  - unfold s_setcode_raw. rewrite nextrev_mark. cbn. apply nextrev_ensure.
  - destruct (_ =? _)%nat; reflexivity.
  - destruct (_ && _); [|reflexivity]. destruct (negb prevDirty); cbn; apply nextrev_ensure.
  - unfold al_delete_slot. destruct (al_addrs s !! a); [|reflexivity].
    destruct (al_slots s !! _); [|reflexivity]. destruct (_ =? _)%nat; reflexivity.
  - apply (tset_fields a k prev s).
Qed.

Lemma nextrev_undo_list es s : nextrev (undo_list es s) = nextrev s.
Proof. revert s. induction es as [|e es IH]; intros s; cbn; [reflexivity|]. rewrite IH. apply nextrev_undo. Qed.

Lemma sim_ctl ex s j r : sim ex (s <| journal := j |> <| revs := r |>) s.
Proof. dstate s. sim_triv. Qed.

Lemma rtq_revert ex tch s0 s2 :
  wf_al s0 -> rb s0 -> RTq ex tch (fst (snapshot s0)) s2 -> RTq ex tch s0 (revert (snd (snapshot s0)) s2).
Proof.
  intros Hw Hb (E&R&HJ&HS&Hw2&Hp&Ht&HK&HR&HF&Hn&Hb2). cbn [snapshot fst snd] in *.
  cbn [journal revs nextrev set] in HJ, HR, HF, Hn.
  set (id := nextrev s0) in *. set (j0 := length (journal s0)) in *.
  assert (Hrev : revs s2 = revs s0 ++ (id, j0) :: R) by (rewrite HR, <- app_assoc; reflexivity).
  unfold revert. cbv zeta. rewrite Hrev. rewrite (search_rev_app (revs s0) id j0 R 0) by exact Hb. cbn [Nat.add].
  rewrite lookup_app_r by lia. rewrite Nat.sub_diag. cbn [lookup list_lookup]. rewrite N.eqb_refl.
  rewrite HJ. unfold j0. rewrite drop_app, !take_app.
  set (U := undo_list (rev E) s2) in *.
  assert (HsU : sim ex U s0).
  { eapply sim_trans; [exact HS|]. dstate s0. sim_triv. }
  assert (HnU : nextrev U = nextrev s2) by apply nextrev_undo_list.
  exists [], []. rewrite !app_nil_r. qsplit; try reflexivity.
  - cbn. eapply sim_trans; [apply sim_ctl | exact HsU].
  - eapply (wf_al_same _ s0); [apply (sim_ala _ _ _ HsU) | apply (sim_als _ _ _ HsU) | exact Hw].
  - apply (sim_p002 _ _ _ HsU).
  - apply (sim_token _ _ _ HsU).
  - constructor.
  - constructor.
  - cbn. rewrite HnU. unfold id in Hn. lia.
  - unfold rb. cbn. rewrite HnU. eapply Forall_impl; [exact Hb|]. intros p Hlt. cbn in *. unfold id in Hn. lia.
Qed.

(* ---------- items ---------- *)
Lemma rtq_items ex tch :
  forall it, item_ok ex tch it -> forall s, wf_al s -> rb s -> p002 s = true -> RTq ex tch s (fst (run_item it s)).
Proof.
  induction it as [o|obs body rv IHb] using item_ind'; intros Hok s Hw Hb Hp.
  - inversion Hok; subst. cbn [run_item].
    pose proof (rtq_of_rtp ex tch _ _ Hb (rtp_step ex tch o s Hw Hp ltac:(assumption))) as H1.
    destruct (step o s). exact H1.
  - inversion Hok as [|? ? ? Hobs Hbody]; subst.
    assert (Hrun : forall l, Forall (fun it => item_ok ex tch it -> forall s, wf_al s -> rb s -> p002 s = true -> RTq ex tch s (fst (run_item it s))) l ->
                   Forall (item_ok ex tch) l -> forall s, wf_al s -> rb s -> p002 s = true -> RTq ex tch s (fst (run l s))).
    { induction l as [|it l IHl]; intros HP Hl s' Hw' Hb' Hp'; cbn [run fst]; [apply rtq_refl; auto|].
      inversion HP as [|? ? HP1 HP2]; subst. inversion Hl as [|? ? Hl1 Hl2]; subst.
      pose proof (HP1 Hl1 s' Hw' Hb' Hp') as H1. destruct (run_item it s') as [s1 x]. cbn [fst] in *.
      pose proof (IHl HP2 Hl2 s1 (rtq_wf _ _ _ _ H1) (rtq_rb _ _ _ _ H1)) as H2.
      rewrite (rtq_p002 _ _ _ _ H1) in H2. specialize (H2 Hp').
      destruct (run l s1) as [s2 y]. cbn [fst] in *. eapply rtq_trans; eauto. }
    rewrite run_item_bracket.
    pose proof (rtq_run_ops ex tch obs Hobs s Hw Hb Hp) as H1. destruct (run_ops obs s) as [sw xw]. cbn [fst] in H1.
    assert (Hpw : p002 sw = true) by (rewrite (rtq_p002 _ _ _ _ H1); exact Hp).
    pose proof (rtq_run_ops ex tch obs Hobs sw (rtq_wf _ _ _ _ H1) (rtq_rb _ _ _ _ H1) Hpw) as H2.
    destruct (run_ops obs sw) as [s0 x0]. cbn [fst] in H2.
    assert (Hp0 : p002 s0 = true) by (rewrite (rtq_p002 _ _ _ _ H2); exact Hpw).
    pose proof (rtq_snapshot ex tch s0 (rtq_wf _ _ _ _ H2) (rtq_rb _ _ _ _ H2)) as H3.
    pose proof (rtq_revert ex tch s0) as Hrv. specialize (Hrv) .
    destruct (snapshot s0) as [s1 id]. cbn [fst snd] in *.
    assert (Hp1 : p002 s1 = true) by (rewrite (rtq_p002 _ _ _ _ H3); exact Hp0).
    pose proof (Hrun body IHb Hbody s1 (rtq_wf _ _ _ _ H3) (rtq_rb _ _ _ _ H3) Hp1) as H4.
    destruct (run body s1) as [s2 xs]. cbn [fst] in H4.
    destruct rv.
    + pose proof (Hrv s2 (rtq_wf _ _ _ _ H2) (rtq_rb _ _ _ _ H2) H4) as H5.
      assert (Hp3 : p002 (revert id s2) = true) by (rewrite (rtq_p002 _ _ _ _ H5); exact Hp0).
      pose proof (rtq_run_ops ex tch obs Hobs _ (rtq_wf _ _ _ _ H5) (rtq_rb _ _ _ _ H5) Hp3) as H6.
      destruct (run_ops obs (revert id s2)) as [s3 x3]. cbn [fst] in *.
      eapply rtq_trans; [exact H1|]. eapply rtq_trans; [exact H2|]. eapply rtq_trans; [exact H5|exact H6].
    + cbn [fst]. eapply rtq_trans; [exact H1|]. eapply rtq_trans; [exact H2|]. eapply rtq_trans; [exact H3|exact H4].
Qed.

Lemma rtq_run ex tch l : Forall (item_ok ex tch) l ->
  forall s, wf_al s -> rb s -> p002 s = true -> RTq ex tch s (fst (run l s)).
Proof.
  induction 1 as [|it l Hi _ IH]; intros s Hw Hb Hp; cbn [run fst]; [apply rtq_refl; auto|].
  pose proof (rtq_items ex tch it Hi s Hw Hb Hp) as H1. destruct (run_item it s) as [s1 x]. cbn [fst] in *.
  pose proof (IH s1 (rtq_wf _ _ _ _ H1) (rtq_rb _ _ _ _ H1)) as H2.
  rewrite (rtq_p002 _ _ _ _ H1) in H2. specialize (H2 Hp).
  destruct (run l s1) as [s2 y]. cbn [fst] in *. eapply rtq_trans; eauto.
Qed.

(* ---------- the revert theorem ---------- *)
(* Snapshot; run [body] (which may itself snapshot and revert, to any depth); RevertToSnapshot *)
Definition after_revert (body : list item) (s : state) : state :=
  revert (snd (snapshot s)) (fst (run body (fst (snapshot s)))).

Theorem revert_restores ex tch s body :
  wf_al s -> rb s -> p002 s = true -> Forall (item_ok ex tch) body -> sim ex (after_revert body s) s.
Proof.
  intros Hw Hb Hp Hok. unfold after_revert.
  pose proof (rtq_snapshot ex tch s Hw Hb) as H1.
  assert (Hp1 : p002 (fst (snapshot s)) = true) by (rewrite (rtq_p002 _ _ _ _ H1); exact Hp).
  pose proof (rtq_run ex tch body Hok _ (rtq_wf _ _ _ _ H1) (rtq_rb _ _ _ _ H1) Hp1) as H2.
  destruct (rtq_revert ex tch s _ Hw Hb H2) as (E&R&HJ&HS&_).
  assert (E = []) as ->.
  { apply (f_equal length) in HJ. rewrite app_length in HJ.
    assert (Hj : journal (revert (snapshot s).2 (run body (snapshot s).1).1) = journal s); [|rewrite Hj in HJ; destruct E; [reflexivity|cbn in HJ; lia]].
    clear HJ HS. destruct H2 as (E2&R2&HJ2&_&_&_&_&_&HR2&_). cbn [snapshot fst snd] in *. cbn [journal revs set] in HJ2, HR2.
    unfold revert. rewrite HR2. rewrite <- app_assoc. cbn [app].
    rewrite (search_rev_app (revs s) (nextrev s) (length (journal s)) R2 0) by exact Hb. cbn [Nat.add].
    rewrite lookup_app_r by lia. rewrite Nat.sub_diag. cbn [lookup list_lookup]. rewrite N.eqb_refl.
    cbn. rewrite HJ2, take_app. reflexivity. }
  exact HS.
Qed.

(* reachability: the invariants hold on everything a guarded program reaches from a fresh AccountDB *)
Lemma wf_al_fresh tr cs tok p th : wf_al (fresh tr cs tok p th).
Proof. intros a idx. cbn. rewrite lookup_empty. discriminate. Qed.
Lemma rb_fresh tr cs tok p th : rb (fresh tr cs tok p th).
Proof. constructor. Qed.

Lemma reach_good ex tch tr cs tok th prog :
  Forall (item_ok ex tch) prog ->
  let s := fst (run prog (fresh tr cs tok true th)) in wf_al s /\ rb s /\ p002 s = true.
Proof.
  intros Hok. pose proof (rtq_run ex tch prog Hok _ (wf_al_fresh tr cs tok true th) (rb_fresh tr cs tok true th) eq_refl) as H.
  cbn. split; [eapply rtq_wf, H|]. split; [eapply rtq_rb, H|]. rewrite (rtq_p002 _ _ _ _ H). reflexivity.
Qed.

Lemma run_single o s : fst (run [Do o] s) = fst (step o s).
Proof. cbn. destruct (step o s). reflexivity. Qed.

Lemma good_after_revert ex tch s body :
  wf_al s -> rb s -> p002 s = true -> Forall (item_ok ex tch) body ->
  wf_al (after_revert body s) /\ rb (after_revert body s) /\ p002 (after_revert body s) = true /\
  journal (after_revert body s) = journal s /\ revs (after_revert body s) = revs s.
Proof.
  intros Hw Hb Hp Hok. unfold after_revert.
  pose proof (rtq_snapshot ex tch s Hw Hb) as H1.
  assert (Hp1 : p002 (fst (snapshot s)) = true) by (rewrite (rtq_p002 _ _ _ _ H1); exact Hp).
  pose proof (rtq_run ex tch body Hok _ (rtq_wf _ _ _ _ H1) (rtq_rb _ _ _ _ H1) Hp1) as H2.
  pose proof (rtq_revert ex tch s _ Hw Hb H2) as H3.
  split; [eapply rtq_wf, H3|]. split; [eapply rtq_rb, H3|]. split; [rewrite (rtq_p002 _ _ _ _ H3); exact Hp|].
  destruct H2 as (E2&R2&HJ2&_&_&_&_&_&HR2&_). cbn [snapshot fst snd] in *. cbn [journal revs set] in HJ2, HR2.
  unfold revert. cbv zeta. rewrite HR2. rewrite <- app_assoc. cbn [app].
  rewrite (search_rev_app (revs s) (nextrev s) (length (journal s)) R2 0) by exact Hb. cbn [Nat.add].
  rewrite lookup_app_r by lia. rewrite Nat.sub_diag. cbn [lookup list_lookup]. rewrite N.eqb_refl.
  cbn. rewrite HJ2, !take_app. split; reflexivity.
Qed.
