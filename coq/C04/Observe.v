(* C04 proofs, part 6: the queries the property lists as a pure observation function, its agreement
   with the answers of the query operations of the model, and its invariance under [sim]. *)
From stdpp Require Import gmap.
From RecordUpdate Require Import RecordSet.
From V.Base Require Import Hex BigEndian.
From V.C04 Require Import Model Sim Undo Roundtrip Steps.
Import RecordSetNotations.
Local Open Scope N_scope.

Inductive query :=
| QExist (a : N) | QNonce (a : N) | QCodeHash (a : N) | QCode (a : N) | QCodeSize (a : N) | QSuicided (a : N)
| QData (a k : N) | QBalance (a : N) | QFT (a : N)
| QRefund | QLogs (h : N) | QALAddr (a : N) | QALSlot (a k : N) | QTransient (a k : N).

Definition lk {A} (s : state) (a : N) (f : obj -> A) (d : A) : A :=
  match look s a with Some o => f o | None => d end.

Definition observe (q : query) (s : state) : ans :=
  match q with
  | QExist a => AB (bool_decide (is_Some (look s a)))
  | QNonce a => AN (lk s a o_nonce 0)
  | QCodeHash a => AN (lk s a o_hash zerohash)
  | QCode a => ABy (lk s a (fun o => default [] (code_of (codes s) o)) [])
  | QCodeSize a => AN (lk s a (fun o => N.of_nat (length (default [] (code_of (codes s) o)))) 0)
  | QSuicided a => AB (lk s a o_suicided false)
  | QData a k => ABy (lk s a (fun o => data_of o k) [])
  | QBalance a => AN (bev (lk s (token s) (fun o => data_of o (erckey a)) []))
  | QFT a => AN (let v := lk s a (fun o => data_of o ftkey) [] in default 0 (if nilb v then None else Some (bev v)))
  | QRefund => AN (refund s)
  | QLogs h => AL (getlogs s h)
  | QALAddr a => AB (bool_decide (is_Some (al_addrs s !! a)))
  | QALSlot a k => let '(x, y) := al_has_slot s a k in AP x y
  | QTransient a k => AN (tget s a k)
  end.

Definition query_op (q : query) : op :=
  match q with
  | QExist a => OExist a | QNonce a => OGetNonce a | QCodeHash a => OGetCodeHash a | QCode a => OGetCode a
  | QCodeSize a => OGetCodeSize a | QSuicided a => OSuicided a | QData a k => OGetData a k
  | QBalance a => OGetBalance a | QFT a => OGetFT a | QRefund => OGetRefund | QLogs h => OGetLogs h
  | QALAddr a => OALHasAddr a | QALSlot a k => OALHasSlot a k | QTransient a k => OGetTransient a k
  end.

(* ---------- the query operations answer [observe] ---------- *)
Lemma objs_ensure c a s :
  objs (ensure c a s) !! a = match look s a with Some o => Some o | None => if c then Some newobj else None end.
Proof. rewrite (settled_ensure c a s), look_ensure. rewrite decide_True by reflexivity. reflexivity. Qed.

Lemma obj_field_ensure {A} a s (f : obj -> A) d : obj_field (ensure false a s) a f d = lk s a f d.
Proof. unfold obj_field, lk. rewrite objs_ensure. destruct (look s a); reflexivity. Qed.

Lemma codes_ensure c a s : codes (ensure c a s) = codes s.
Proof. apply same_rest_ensure. Qed.

Lemma data_of_newobj k : data_of newobj k = [].
Proof. reflexivity. Qed.

Lemma step_observe q s : snd (step (query_op q) s) = observe q s.
Proof.
  destruct q; cbn [query_op step observe snd]; try reflexivity.
  - (* Exist *) rewrite objs_ensure. destruct (look s a); reflexivity.
  - rewrite obj_field_ensure. reflexivity.
  - rewrite obj_field_ensure. reflexivity.
  - (* Code *)
    set (s1 := ensure false a s). pose proof (objs_ensure false a s) as Ho. fold s1 in Ho.
    unfold lk. destruct (look s a) as [o|].
    + destruct (s_loadcode_spec a s1 o Ho) as (Hv&_). destruct (s_loadcode a s1) as [s2 c]. cbn [snd] in *.
      subst c. unfold s1. rewrite codes_ensure. reflexivity.
    + unfold s_loadcode. rewrite Ho. reflexivity.
  - (* CodeSize *)
    rewrite obj_field_ensure. rewrite codes_ensure. unfold lk. destruct (look s a) as [o|]; [|reflexivity].
    unfold code_of. destruct (o_code o); [reflexivity|]. destruct (o_hash o =? 0); reflexivity.
  - rewrite obj_field_ensure. reflexivity.
  - (* Data *)
    set (s1 := ensure false a s). pose proof (objs_ensure false a s) as Ho. fold s1 in Ho.
    rewrite s_getdata_eq, Ho. unfold lk. destruct (look s a); reflexivity.
  - (* Balance *)
    destruct (bal_read_spec a s) as (ot0&Hot0&->). cbn [snd]. rewrite objs_ensure in Hot0.
    unfold lk. destruct (look s (token s)); injection Hot0 as <-; reflexivity.
  - (* FT *)
    set (s1 := ensure true a s). pose proof (objs_ensure true a s) as Ho. fold s1 in Ho.
    unfold ft_read. rewrite s_getdata_eq. unfold lk. destruct (look s a) as [o|]; rewrite Ho; reflexivity.
Qed.

(* ---------- invariance ---------- *)
(* in the numeric reading the raw bytes of a balance slot of the token contract are not an observable *)
Definition qexact (tok : N) (q : query) : bool :=
  match q with QData a k => negb ((a =? tok) && is_erckey k) | _ => true end.

Lemma lk_sim {A} ex x y a (f : obj -> A) d :
  sim ex x y -> (forall o o', oeq ex (token x) (codes x) a o o' -> f o = f o') -> lk x a f d = lk y a f d.
Proof.
  intros H Hf. unfold lk. pose proof (sim_objs _ _ _ H a) as Ho.
  destruct (look x a), (look y a); cbn in Ho; try tauto. auto.
Qed.

Lemma observe_sim ex x y q :
  sim ex x y -> ex = true \/ qexact (token x) q = true -> observe q x = observe q y.
Proof.
  intros H Hq. destruct q; cbn [observe].
  - pose proof (sim_objs _ _ _ H a) as Ho. destruct (look x a), (look y a); cbn in Ho; try tauto; reflexivity.
  - f_equal. apply (lk_sim ex); auto. intros o o' []; auto.
  - f_equal. apply (lk_sim ex); auto. intros o o' []; auto.
  - f_equal. rewrite <- (sim_codes _ _ _ H). apply (lk_sim ex); auto. intros o o' []. congruence.
  - f_equal. rewrite <- (sim_codes _ _ _ H). apply (lk_sim ex); auto. intros o o' []. congruence.
  - f_equal. apply (lk_sim ex); auto. intros o o' []; auto.
  - f_equal. apply (lk_sim ex); auto. intros o o' [_ _ _ _ Hd]. specialize (Hd k).
    destruct Hq as [->|Hq]; [apply (veq_exact _ _ _ _ _ Hd)|].
    cbn in Hq. apply negb_true_iff in Hq. eapply veq_other; eauto.
  - f_equal. rewrite <- (sim_token _ _ _ H).
    assert (Hb : forall v v', veq ex (token x) (token x) (erckey a) v v' -> bev v = bev v') by (intros; eapply veq_num; eauto).
    unfold lk. pose proof (sim_objs _ _ _ H (token x)) as Ho.
    destruct (look x (token x)), (look y (token x)); cbn in Ho; try tauto.
    apply Hb. apply Ho.
  - f_equal. assert (Hv : lk x a (fun o => data_of o ftkey) [] = lk y a (fun o => data_of o ftkey) []); [|rewrite Hv; reflexivity].
    apply (lk_sim ex); auto. intros o o' [_ _ _ _ Hd]. specialize (Hd ftkey).
    eapply veq_other; [|exact Hd]. rewrite andb_comm. reflexivity.
  - rewrite (sim_refund _ _ _ H). reflexivity.
  - rewrite (sim_logs _ _ _ H). reflexivity.
  - rewrite (sim_ala _ _ _ H). reflexivity.
  - unfold al_has_slot. rewrite (sim_ala _ _ _ H), (sim_als _ _ _ H). reflexivity.
  - rewrite (sim_tr _ _ _ H). reflexivity.
Qed.
