(* C04 proofs, part 3: every exported operation, followed by the undo of the journal entries it
   appended, gives back an equivalent state (the per-operation half of the revert theorem). *)
From stdpp Require Import gmap.
From RecordUpdate Require Import RecordSet.
From V.Base Require Import Hex BigEndian.
From V.C04 Require Import Model Sim Undo.
Import RecordSetNotations.
Local Open Scope N_scope.

(* access list: every address with an index points at a non-empty slot set *)
Definition wf_al (s : state) : Prop :=
  forall a idx, al_addrs s !! a = Some idx ->
    idx = (-1)%Z \/ ((0 <= idx)%Z /\ exists m, al_slots s !! Z.to_nat idx = Some m /\ m <> ∅).

Lemma wf_al_same s s' : al_addrs s = al_addrs s' -> al_slots s = al_slots s' -> wf_al s' -> wf_al s.
Proof. unfold wf_al. intros -> ->. auto. Qed.

Lemma wf_al_rest s s' : same_rest s s' -> wf_al s' -> wf_al s.
Proof. intros (_&_&_&_&_&_&_&_&?&?&_). eauto using wf_al_same. Qed.

(* journal entries a guarded program may append: self-destruct entries only in the numeric reading
   ([ex = false]), touch entries only when [tch] *)
Definition eok (ex tch : bool) (e : entry) : Prop :=
  match e with ESuicide _ _ _ => ex = false | ETouch _ _ _ => tch = true | _ => True end.

(* [RTp s s']: s' was reached from s by appending journal entries E whose undo leads back to a state
   equivalent to s *)
Definition RTp (ex tch : bool) (s s' : state) : Prop :=
  exists E, journal s' = journal s ++ E /\ sim ex (undo_list (rev E) s') s /\
            wf_al s' /\ ctl_same s' s /\ p002 s' = p002 s /\ token s' = token s /\ Forall (eok ex tch) E.

Ltac rt_split := split; [|split; [|split; [|split; [|split; [|split]]]]].

Lemma rtp_refl ex tch s : wf_al s -> RTp ex tch s s.
Proof.
  intros Hw. exists []. rewrite app_nil_r. rt_split; auto. apply sim_refl. split; reflexivity.
Qed.

Lemma rtp_trans ex tch s s1 s2 : RTp ex tch s s1 -> RTp ex tch s1 s2 -> RTp ex tch s s2.
Proof.
  intros (E1&HJ1&HS1&Hw1&[Hr1 Hn1]&Hp1&Ht1&HK1) (E2&HJ2&HS2&Hw2&[Hr2 Hn2]&Hp2&Ht2&HK2).
  exists (E1 ++ E2). rt_split; try congruence; auto.
  - rewrite HJ2, HJ1, app_assoc. reflexivity.
  - rewrite rev_app_distr, undo_list_app.
    eapply sim_trans; [apply undo_list_cong, HS2 | exact HS1].
  - split; congruence.
  - apply Forall_app; auto.
Qed.

(* steps that append nothing and only touch the object table in an invisible way *)
Lemma rtp_silent ex tch s s' :
  wf_al s -> journal s' = journal s -> same_rest s' s -> ctl_same s' s ->
  (forall b, orel ex (token s) (codes s) b (look s' b) (look s b)) -> RTp ex tch s s'.
Proof.
  intros Hw HJ HR HC HO. exists []. rewrite app_nil_r. cbn.
  rt_split; auto; try apply HR.
  - apply sim_of_rest; auto. destruct HR as (_&->&->&_). exact HO.
  - eapply wf_al_rest; eauto.
Qed.

Definition loaded (a : N) (s : state) : Prop := is_Some (objs s !! a).

Lemma journal_mark a s : journal (mark_dirty a s) = journal s.
Proof. unfold mark_dirty. destruct (objs s !! a) as [o|]; [destruct (o_armed o)|]; reflexivity. Qed.
Lemma ctl_mark a s : ctl_same (mark_dirty a s) s.
Proof. unfold mark_dirty. destruct (objs s !! a) as [o|]; [destruct (o_armed o)|]; split; reflexivity. Qed.
Lemma loaded_mark a b s : loaded a s -> loaded a (mark_dirty b s).
Proof.
  unfold loaded. rewrite objs_mark. destruct (decide (a = b)) as [->|]; [|auto].
  intros [o ->]. cbn. eauto.
Qed.
Lemma loaded_upd a b f s : loaded a s -> loaded a (upd b f s).
Proof.
  unfold loaded, upd. cbn. destruct (decide (a = b)) as [->|].
  - rewrite lookup_alter. intros [o ->]. cbn. eauto.
  - rewrite lookup_alter_ne by congruence. auto.
Qed.
Lemma loaded_ensure_true a s : loaded a (ensure true a s).
Proof.
  unfold loaded, ensure. destruct (objs s !! a) eqn:E; [rewrite E; eauto|].
  destruct (trie s !! a); cbn; rewrite lookup_insert; eauto.
Qed.
Lemma loaded_ensure_other c a b s : loaded a s -> loaded a (ensure c b s).
Proof.
  unfold loaded, ensure. intros H. destruct (objs s !! b) eqn:E; [auto|].
  destruct (decide (a = b)) as [->|]; [rewrite E in H; destruct H; discriminate|].
  destruct (trie s !! b); cbn; [rewrite lookup_insert_ne by congruence; auto|].
  destruct c; cbn; [rewrite lookup_insert_ne by congruence|]; auto.
Qed.
Lemma ensure_loaded' c a s : loaded a s -> ensure c a s = s.
Proof. intros [o H]. eapply ensure_loaded, H. Qed.
Lemma loaded_settled' a s : loaded a s -> settled s a.
Proof. intros [o H]. eapply loaded_settled, H. Qed.

(* ---------- getAccountObject ---------- *)
Lemma rtp_ensure ex tch c a s : wf_al s -> RTp ex tch s (ensure c a s).
Proof.
  intros Hw. unfold ensure.
  destruct (objs s !! a) as [o|] eqn:Ho; [apply rtp_refl, Hw|].
  destruct (trie s !! a) as [ac|] eqn:Ht.
  { exists []. rewrite app_nil_r. cbn. rt_split; auto; [|split; reflexivity].
    pose proof (sim_ensure_false ex a s) as H. unfold ensure in H. rewrite Ho, Ht in H. exact H. }
  destruct c; [|apply rtp_refl, Hw].
  exists [ECreate a]. cbn. rt_split; auto; [|split; reflexivity|repeat constructor].
  split; try reflexivity.
  intros b. unfold look. cbn. rewrite delete_insert by assumption. apply orel_refl.
Qed.

(* ---------- reads that fill caches ---------- *)
Lemma o_getdata_spec k o : snd (o_getdata k o) = data_of o k /\
  (forall k', data_of (fst (o_getdata k o)) k' = data_of o k') /\
  o_nonce (fst (o_getdata k o)) = o_nonce o /\ o_hash (fst (o_getdata k o)) = o_hash o /\
  o_code (fst (o_getdata k o)) = o_code o /\ o_suicided (fst (o_getdata k o)) = o_suicided o.
Proof.
  unfold o_getdata, data_of. destruct (o_cached o !! k) as [v|] eqn:Hc; cbn [fst snd].
  { repeat split; intros; reflexivity. }
  destruct (o_root o !! k) as [v|] eqn:Hr; cbn [fst snd]; [|repeat split; intros; reflexivity].
  repeat split. intros k'. simpl. destruct (decide (k' = k)) as [->|].
  - rewrite lookup_insert, Hc, Hr. reflexivity.
  - rewrite lookup_insert_ne by congruence. reflexivity.
Qed.

Lemma oeq_getdata ex tok cs a k o : oeq ex tok cs a (fst (o_getdata k o)) o.
Proof.
  destruct (o_getdata_spec k o) as (_&Hd&Hn&Hh&Hc&Hs). split; auto.
  - unfold code_of. rewrite Hc, Hh. reflexivity.
  - intros k'. rewrite Hd. apply veq_refl.
Qed.

Lemma insert_alter_const (m : gmap N obj) a o o' : m !! a = Some o -> <[a := o']> m = alter (fun _ => o') a m.
Proof.
  intros Ho. apply map_eq. intros b. destruct (decide (b = a)) as [->|].
  - rewrite lookup_insert, lookup_alter, Ho. reflexivity.
  - rewrite lookup_insert_ne, lookup_alter_ne by congruence. reflexivity.
Qed.

Lemma upd_const_insert a o o' s : objs s !! a = Some o -> s <| objs := <[a := o']> (objs s) |> = upd a (fun _ => o') s.
Proof. intros Ho. unfold upd. rewrite (insert_alter_const _ _ _ _ Ho). reflexivity. Qed.

Lemma upd_same a o s : objs s !! a = Some o -> upd a (fun _ => o) s = s.
Proof.
  intros Ho. unfold upd. replace (alter (fun _ => o) a (objs s)) with (objs s); [dstate s; reflexivity|].
  apply map_eq. intros b. destruct (decide (b = a)) as [->|].
  - rewrite lookup_alter, Ho. reflexivity.
  - rewrite lookup_alter_ne by congruence. reflexivity.
Qed.

Lemma s_getdata_eq a k s :
  s_getdata a k s = match objs s !! a with
                    | Some o => (upd a (fun _ => fst (o_getdata k o)) s, data_of o k)
                    | None => (s, [])
                    end.
Proof.
  unfold s_getdata. destruct (objs s !! a) as [o|] eqn:Ho; [|reflexivity].
  destruct (o_getdata_spec k o) as (Hv&_). destruct (o_getdata k o) as [o' v]. cbn [fst snd] in *. subst v.
  rewrite (upd_const_insert _ _ _ _ Ho). reflexivity.
Qed.

Lemma rtp_getdata ex tch a k s : wf_al s -> RTp ex tch s (fst (s_getdata a k s)).
Proof.
  intros Hw. rewrite s_getdata_eq. destruct (objs s !! a) as [o|] eqn:Ho; cbn; [|apply rtp_refl, Hw].
  apply rtp_silent; auto; try (repeat split; fail).
  intros b. rewrite look_upd by (eapply loaded_settled; eauto).
  destruct (decide (b = a)) as [->|]; [|apply orel_refl].
  unfold look. rewrite Ho. cbn. apply oeq_getdata.
Qed.

Lemma loaded_getdata b a k s : loaded b s -> loaded b (fst (s_getdata a k s)).
Proof.
  rewrite s_getdata_eq. destruct (objs s !! a); cbn; auto using loaded_upd.
Qed.

Lemma s_loadcode_spec a s o :
  objs s !! a = Some o ->
  snd (s_loadcode a s) = code_of (codes s) o /\
  exists o', fst (s_loadcode a s) = upd a (fun _ => o') s /\
             o_hash o' = o_hash o /\ o_nonce o' = o_nonce o /\ o_suicided o' = o_suicided o /\
             (forall k, data_of o' k = data_of o k) /\ code_of (codes s) o' = code_of (codes s) o.
Proof.
  intros Ho. unfold s_loadcode, code_of. rewrite Ho.
  destruct (o_code o) as [c|] eqn:Hc; cbn [fst snd].
  { split; [reflexivity|]. exists o. rewrite (upd_same _ _ _ Ho), Hc. repeat split. }
  destruct (o_hash o =? 0) eqn:Hh; cbn [fst snd].
  { split; [reflexivity|]. exists o. rewrite (upd_same _ _ _ Ho), Hc, Hh. repeat split. }
  split; [reflexivity|]. exists (o <| o_code := codes s !! o_hash o |>). split.
  - apply (upd_const_insert _ _ _ _ Ho).
  - repeat split. simpl. rewrite Hh. destruct (codes s !! o_hash o); reflexivity.
Qed.

Lemma rtp_loadcode ex tch a s : wf_al s -> RTp ex tch s (fst (s_loadcode a s)).
Proof.
  intros Hw. destruct (objs s !! a) as [o|] eqn:Ho.
  - destruct (s_loadcode_spec a s o Ho) as (_&o'&->&Hh&Hn&Hs&Hd&Hc).
    apply rtp_silent; auto; try (repeat split; fail).
    intros b. rewrite look_upd by (eapply loaded_settled; eauto).
    destruct (decide (b = a)) as [->|]; [|apply orel_refl].
    unfold look. rewrite Ho. cbn. split; auto. intros k. rewrite Hd. apply veq_refl.
  - unfold s_loadcode. rewrite Ho. apply rtp_refl, Hw.
Qed.

Lemma loaded_loadcode b a s : loaded b s -> loaded b (fst (s_loadcode a s)).
Proof.
  intros H. destruct (objs s !! a) as [o|] eqn:Ho.
  - destruct (s_loadcode_spec a s o Ho) as (_&o'&->&_). apply loaded_upd, H.
  - unfold s_loadcode. rewrite Ho. exact H.
Qed.

(* ---------- the generic journalled mutation of one object ---------- *)
Lemma objs_upd_same a f s o : objs s !! a = Some o -> objs (upd a f s) !! a = Some (f o).
Proof. intros H. unfold upd. cbn. rewrite lookup_alter, H. reflexivity. Qed.

Lemma rtp_mut ex tch a f g e s o :
  wf_al s -> objs s !! a = Some o ->
  (forall s', undo e s' = mark_dirty a (upd a g (ensure false a s'))) ->
  omorph g -> oeq ex (token s) (codes s) a (g (f o)) o -> eok ex tch e ->
  RTp ex tch s (mark_dirty a (upd a f (push e s))).
Proof.
  intros Hw Ho Hu Hg Hgf He.
  set (Y := upd a f (push e s)). set (X := mark_dirty a Y).
  assert (HlY : loaded a Y) by (apply loaded_upd; exists o; exact Ho).
  assert (HlX : loaded a X) by (apply loaded_mark, HlY).
  assert (HR : same_rest X s).
  { eapply same_rest_trans; [apply same_rest_mark|]. eapply same_rest_trans; [apply same_rest_upd|]. apply same_rest_push. }
  exists [e]. rt_split.
  - unfold X. rewrite journal_mark. reflexivity.
  - cbn. rewrite Hu. rewrite (ensure_loaded' false a X HlX).
    eapply sim_trans; [apply sim_mark|].
    eapply sim_trans; [apply (sim_upd_cong ex a g X Y Hg (sim_mark ex a Y)); auto using loaded_settled'|].
    unfold Y. rewrite upd_upd.
    eapply sim_trans; [|apply sim_push].
    apply sim_upd_id; [eapply loaded_settled; exact Ho|].
    intros o'. unfold look. cbn. rewrite Ho. intros [= <-]. exact Hgf.
  - eapply wf_al_rest; eauto.
  - unfold X. destruct (ctl_mark a Y) as [H1 H2]. split; [rewrite H1|rewrite H2]; reflexivity.
  - apply HR.
  - apply HR.
  - repeat constructor. exact He.
Qed.

(* ---------- SetData ---------- *)
Lemma rtp_setdata ex tch a k v s : wf_al s -> loaded a s -> RTp ex tch s (s_setdata a k v s).
Proof.
  intros Hw [o Ho]. unfold s_setdata.
  pose proof (rtp_getdata ex tch a k s Hw) as H1. rewrite s_getdata_eq in *. rewrite Ho in *. cbn [fst] in H1.
  set (o1 := fst (o_getdata k o)) in *. set (s1 := upd a (fun _ => o1) s) in *.
  destruct (bytes_eqb v (data_of o k)); [exact H1|].
  eapply rtp_trans; [exact H1|].
  assert (Hw1 : wf_al s1) by (eapply wf_al_rest; [apply same_rest_upd | exact Hw]).
  apply (rtp_mut ex tch a (f_data k v) (f_data k (data_of o k)) (EStorage a k (data_of o k)) s1 o1); auto.
  - apply (objs_upd_same a (fun _ => o1) s o Ho).
  - apply omorph_data.
  - destruct (o_getdata_spec k o) as (_&Hd&_). split; try reflexivity.
    intros k'. rewrite !data_of_f_data. destruct (decide (k' = k)) as [->|]; [|apply veq_refl].
    fold o1 in Hd. rewrite Hd. apply veq_refl.
  - exact I.
Qed.

Lemma loaded_setdata b a k v s : loaded b s -> loaded b (s_setdata a k v s).
Proof.
  intros H. unfold s_setdata. pose proof (loaded_getdata b a k s H) as H1.
  destruct (s_getdata a k s) as [s1 pre]. cbn [fst] in H1.
  destruct (bytes_eqb v pre); [exact H1|]. unfold s_setdata_raw. apply loaded_mark, loaded_upd. exact H1.
Qed.

(* ---------- SetNonce / IncreaseNonce ---------- *)
Lemma rtp_nonce ex tch a n s o :
  wf_al s -> objs s !! a = Some o -> RTp ex tch s (s_setnonce_raw a n (push (ENonce a (o_nonce o)) s)).
Proof.
  intros Hw Ho. rewrite s_setnonce_raw_eq.
  apply (rtp_mut ex tch a (f_nonce n) (f_nonce (o_nonce o)) _ s o); auto.
  - apply omorph_nonce.
  - split; try reflexivity. intros k. apply veq_refl.
  - exact I.
Qed.

(* ---------- SetCode ---------- *)
Lemma rtp_code ex tch a h c s o :
  wf_al s -> objs s !! a = Some o ->
  RTp ex tch s (s_setcode_raw a h c (push (ECode a (o_hash o) (code_of (codes s) o)) s)).
Proof.
  intros Hw Ho. rewrite s_setcode_raw_eq.
  apply (rtp_mut ex tch a (f_code h c) (f_code (o_hash o) (code_of (codes s) o)) _ s o); auto.
  - apply omorph_code.
  - split; try reflexivity; [|intros k; apply veq_refl].
    unfold code_of at 1. cbn. destruct (code_of (codes s) o) eqn:E; [reflexivity|].
    unfold code_of in E. destruct (o_code o); [discriminate|]. exact E.
  - exact I.
Qed.
