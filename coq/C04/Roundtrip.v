(* C04 proofs, part 3: every exported operation, followed by the undo of the journal entries it
   appended, gives back an equivalent state (the per-operation half of the revert theorem). *)
From stdpp Require Import gmap.
From RecordUpdate Require Import RecordSet.
From V.Base Require Import Hex BigEndian.
From V.C04 Require Import Model Sim Undo.
Import RecordSetNotations.
Local Open Scope N_scope.

(* access list: every address with an index points at a non-empty slot set *)
Definition wf_al (s : state) : Prop :=
  forall a idx, al_addrs s !! a = Some idx ->
    idx = (-1)%Z \/ ((0 <= idx)%Z /\ exists m, al_slots s !! Z.to_nat idx = Some m /\ m <> ∅).

Lemma wf_al_same s s' : al_addrs s = al_addrs s' -> al_slots s = al_slots s' -> wf_al s' -> wf_al s.
Proof. unfold wf_al. intros -> ->. auto. Qed.

Lemma wf_al_rest s s' : same_rest s s' -> wf_al s' -> wf_al s.
Proof. intros (_&_&_&_&_&_&_&_&?&?&_). eauto using wf_al_same. Qed.

Definition RT (ex : bool) (P : state -> Prop) (F : state -> state) : Prop :=
  forall s, wf_al s -> P s ->
    exists E, journal (F s) = journal s ++ E /\ sim ex (undo_list (rev E) (F s)) s /\
              wf_al (F s) /\ ctl_same (F s) s /\ p002 (F s) = p002 s /\ token (F s) = token s.

Ltac rt_split := split; [|split; [|split; [|split; [|split]]]].

Lemma rt_weaken ex (P Q : state -> Prop) (F : state -> state) : (forall s, Q s -> P s) -> RT ex P F -> RT ex Q F.
Proof. intros H HF s Hw Hq. apply HF; auto. Qed.

Lemma rt_ext ex (P : state -> Prop) (F G : state -> state) : (forall s, P s -> F s = G s) -> RT ex P F -> RT ex P G.
Proof. intros H HF s Hw Hp. rewrite <- (H s Hp). apply HF; auto. Qed.

Lemma rt_id ex (P : state -> Prop) : RT ex P (fun s => s).
Proof.
  intros s Hw _. exists []. rewrite app_nil_r. rt_split; auto. apply sim_refl. split; reflexivity.
Qed.

(* sequential composition; the second transformer may depend on the state the first one started from *)
Lemma rt_comp ex (P : state -> Prop) (Q : state -> state -> Prop) F (G : state -> state -> state) :
  RT ex P F -> (forall s0, RT ex (Q s0) (G s0)) -> (forall s, wf_al s -> P s -> Q s (F s)) ->
  RT ex P (fun s => G s (F s)).
Proof.
  intros HF HG HPQ s Hw Hp.
  destruct (HF s Hw Hp) as (E1&HJ1&HS1&Hw1&[Hr1 Hn1]&Hp1&Ht1).
  destruct (HG s (F s) Hw1 (HPQ s Hw Hp)) as (E2&HJ2&HS2&Hw2&[Hr2 Hn2]&Hp2&Ht2).
  exists (E1 ++ E2). split; [|split; [|split; [exact Hw2|split; [split; congruence|split; congruence]]]].
  - rewrite HJ2, HJ1, app_assoc. reflexivity.
  - rewrite rev_app_distr, undo_list_app.
    eapply sim_trans; [apply undo_list_cong, HS2 | exact HS1].
Qed.

Lemma rt_comp' ex (P Q : state -> Prop) (F G : state -> state) :
  RT ex P F -> RT ex Q G -> (forall s, wf_al s -> P s -> Q (F s)) -> RT ex P (fun s => G (F s)).
Proof. intros HF HG H. apply (rt_comp ex P (fun _ => Q) F (fun _ => G)); auto. Qed.

(* transformers that append nothing and only touch the object table in an invisible way *)
Lemma rt_silent ex (P : state -> Prop) (F : state -> state) :
  (forall s, P s -> journal (F s) = journal s /\ same_rest (F s) s /\ ctl_same (F s) s /\
                    forall b, orel ex (token s) (codes s) b (look (F s) b) (look s b)) ->
  RT ex P F.
Proof.
  intros H s Hw Hp. destruct (H s Hp) as (HJ&HR&HC&HO). exists []. rewrite app_nil_r. cbn.
  rt_split; auto; try apply HR.
  - apply sim_of_rest; auto. destruct HR as (_&->&->&_). exact HO.
  - eapply wf_al_rest; eauto.
Qed.

Definition loaded (a : N) (s : state) : Prop := is_Some (objs s !! a).

Lemma journal_mark a s : journal (mark_dirty a s) = journal s.
Proof. unfold mark_dirty. destruct (objs s !! a) as [o|]; [destruct (o_armed o)|]; reflexivity. Qed.
Lemma ctl_mark a s : ctl_same (mark_dirty a s) s.
Proof. unfold mark_dirty. destruct (objs s !! a) as [o|]; [destruct (o_armed o)|]; split; reflexivity. Qed.
Lemma loaded_mark a b s : loaded a s -> loaded a (mark_dirty b s).
Proof.
  unfold loaded. rewrite objs_mark. destruct (decide (a = b)) as [->|]; [|auto].
  intros [o ->]. cbn. eauto.
Qed.
Lemma loaded_upd a b f s : loaded a s -> loaded a (upd b f s).
Proof.
  unfold loaded, upd. cbn. destruct (decide (a = b)) as [->|].
  - rewrite lookup_alter. intros [o ->]. cbn. eauto.
  - rewrite lookup_alter_ne by congruence. auto.
Qed.
Lemma loaded_ensure_true a s : loaded a (ensure true a s).
Proof.
  unfold loaded, ensure. destruct (objs s !! a) eqn:E; [rewrite E; eauto|].
  destruct (trie s !! a); cbn; rewrite lookup_insert; eauto.
Qed.
Lemma loaded_ensure_other c a b s : loaded a s -> loaded a (ensure c b s).
Proof.
  unfold loaded, ensure. intros H. destruct (objs s !! b) eqn:E; [auto|].
  destruct (decide (a = b)) as [->|]; [rewrite E in H; destruct H; discriminate|].
  destruct (trie s !! b); cbn; [rewrite lookup_insert_ne by congruence; auto|].
  destruct c; cbn; [rewrite lookup_insert_ne by congruence|]; auto.
Qed.
Lemma ensure_loaded' c a s : loaded a s -> ensure c a s = s.
Proof. intros [o H]. eapply ensure_loaded, H. Qed.
Lemma loaded_settled' a s : loaded a s -> settled s a.
Proof. intros [o H]. eapply loaded_settled, H. Qed.

(* ---------- getAccountObject ---------- *)
Lemma rt_ensure ex c a : RT ex (fun _ => True) (ensure c a).
Proof.
  intros s Hw _. unfold ensure.
  destruct (objs s !! a) as [o|] eqn:Ho.
  { exists []. rewrite app_nil_r. rt_split; auto. apply sim_refl. split; reflexivity. }
  destruct (trie s !! a) as [ac|] eqn:Ht.
  { exists []. rewrite app_nil_r. cbn. rt_split; auto; [|split; reflexivity].
    pose proof (sim_ensure_false ex a s) as H. unfold ensure in H. rewrite Ho, Ht in H. exact H. }
  destruct c.
  - exists [ECreate a]. cbn. rt_split; auto; [|split; reflexivity].
    split; try reflexivity.
    intros b. unfold look. cbn. rewrite delete_insert by assumption. apply orel_refl.
  - exists []. rewrite app_nil_r. rt_split; auto. apply sim_refl. split; reflexivity.
Qed.

(* ---------- reads that fill caches ---------- *)
Lemma o_getdata_spec k o : snd (o_getdata k o) = data_of o k /\
  (forall k', data_of (fst (o_getdata k o)) k' = data_of o k') /\
  o_nonce (fst (o_getdata k o)) = o_nonce o /\ o_hash (fst (o_getdata k o)) = o_hash o /\
  o_code (fst (o_getdata k o)) = o_code o /\ o_suicided (fst (o_getdata k o)) = o_suicided o.
Proof.
  unfold o_getdata, data_of. destruct (o_cached o !! k) as [v|] eqn:Hc; cbn [fst snd].
  { repeat split; intros; reflexivity. }
  destruct (o_root o !! k) as [v|] eqn:Hr; cbn [fst snd]; [|repeat split; intros; reflexivity].
  repeat split. intros k'. simpl. destruct (decide (k' = k)) as [->|].
  - rewrite lookup_insert, Hc, Hr. reflexivity.
  - rewrite lookup_insert_ne by congruence. reflexivity.
Qed.

Lemma oeq_getdata ex tok cs a k o : oeq ex tok cs a (fst (o_getdata k o)) o.
Proof.
  destruct (o_getdata_spec k o) as (_&Hd&Hn&Hh&Hc&Hs). split; auto.
  - unfold code_of. rewrite Hc, Hh. reflexivity.
  - intros k'. rewrite Hd. apply veq_refl.
Qed.

Lemma insert_alter_const (m : gmap N obj) a o o' : m !! a = Some o -> <[a := o']> m = alter (fun _ => o') a m.
Proof.
  intros Ho. apply map_eq. intros b. destruct (decide (b = a)) as [->|].
  - rewrite lookup_insert, lookup_alter, Ho. reflexivity.
  - rewrite lookup_insert_ne, lookup_alter_ne by congruence. reflexivity.
Qed.

Lemma upd_const_insert a o o' s : objs s !! a = Some o -> s <| objs := <[a := o']> (objs s) |> = upd a (fun _ => o') s.
Proof. intros Ho. unfold upd. rewrite (insert_alter_const _ _ _ _ Ho). reflexivity. Qed.

Lemma upd_same a o s : objs s !! a = Some o -> upd a (fun _ => o) s = s.
Proof.
  intros Ho. unfold upd. replace (alter (fun _ => o) a (objs s)) with (objs s); [dstate s; reflexivity|].
  apply map_eq. intros b. destruct (decide (b = a)) as [->|].
  - rewrite lookup_alter, Ho. reflexivity.
  - rewrite lookup_alter_ne by congruence. reflexivity.
Qed.

Lemma s_getdata_eq a k s :
  s_getdata a k s = match objs s !! a with
                    | Some o => (upd a (fun _ => fst (o_getdata k o)) s, data_of o k)
                    | None => (s, [])
                    end.
Proof.
  unfold s_getdata. destruct (objs s !! a) as [o|] eqn:Ho; [|reflexivity].
  destruct (o_getdata_spec k o) as (Hv&_). destruct (o_getdata k o) as [o' v]. cbn [fst snd] in *. subst v.
  rewrite (upd_const_insert _ _ _ _ Ho). reflexivity.
Qed.

Lemma rt_getdata ex a k : RT ex (fun _ => True) (fun s => fst (s_getdata a k s)).
Proof.
  apply rt_silent. intros s _. rewrite s_getdata_eq. destruct (objs s !! a) as [o|] eqn:Ho; cbn.
  - repeat split. intros b. rewrite look_upd by (eapply loaded_settled; eauto).
    destruct (decide (b = a)) as [->|]; [|apply orel_refl].
    unfold look. rewrite Ho. cbn. apply oeq_getdata.
  - repeat split. intros b. apply orel_refl.
Qed.

Lemma loaded_getdata b a k s : loaded b s -> loaded b (fst (s_getdata a k s)).
Proof.
  rewrite s_getdata_eq. destruct (objs s !! a); cbn; auto using loaded_upd.
Qed.

Lemma s_loadcode_spec a s o :
  objs s !! a = Some o ->
  snd (s_loadcode a s) = code_of (codes s) o /\
  exists o', fst (s_loadcode a s) = upd a (fun _ => o') s /\
             o_hash o' = o_hash o /\ o_nonce o' = o_nonce o /\ o_suicided o' = o_suicided o /\
             (forall k, data_of o' k = data_of o k) /\ code_of (codes s) o' = code_of (codes s) o.
Proof.
  intros Ho. unfold s_loadcode, code_of. rewrite Ho.
  destruct (o_code o) as [c|] eqn:Hc; cbn [fst snd].
  { split; [reflexivity|]. exists o. rewrite (upd_same _ _ _ Ho), Hc. repeat split. }
  destruct (o_hash o =? 0) eqn:Hh; cbn [fst snd].
  { split; [reflexivity|]. exists o. rewrite (upd_same _ _ _ Ho), Hc, Hh. repeat split. }
  split; [reflexivity|]. exists (o <| o_code := codes s !! o_hash o |>). split.
  - apply (upd_const_insert _ _ _ _ Ho).
  - repeat split. simpl. rewrite Hh. destruct (codes s !! o_hash o); reflexivity.
Qed.
