(* C04 proofs, part 9: every guarded operation respects the byte-exact equivalence [sim true]
   (congruence), lifted to programs with nested brackets.  With the revert theorem and the invariant
   [rinv] this gives the continuation clause: further surviving writes after a revert end in the state
   (queries and finalised trie) they would have produced had the reverted part never been executed. *)
From stdpp Require Import gmap.
From RecordUpdate Require Import RecordSet.
From V.Base Require Import Hex BigEndian.
From V.C04 Require Import Model Sim Undo Roundtrip Steps Nested Observe Root.
Import RecordSetNotations.
Local Open Scope N_scope.

Notation simt := (sim true).

Lemma sim_push_cong ex e e' x y : sim ex x y -> sim ex (push e x) (push e' y).
Proof. intros H. eapply sim_trans; [apply sim_push|]. eapply sim_trans; [exact H|]. apply sim_sym, sim_push. Qed.

Lemma settled_push e s a : settled (push e s) a <-> settled s a.
Proof. reflexivity. Qed.

(* ---------- silent steps ---------- *)
Lemma sim_getdata ex a k s : sim ex (fst (s_getdata a k s)) s.
Proof.
  rewrite s_getdata_eq. destruct (objs s !! a) as [o|] eqn:Ho; cbn; [|apply sim_refl].
  apply sim_upd_id; [eapply loaded_settled; eauto|]. intros o'. unfold look. rewrite Ho. intros [= <-]. apply oeq_getdata.
Qed.

Lemma settled_getdata b a k s : settled s b -> settled (fst (s_getdata a k s)) b.
Proof. intros H. rewrite s_getdata_eq. destruct (objs s !! a); cbn; [apply settled_upd|]; exact H. Qed.

Lemma sim_loadcode ex a s : sim ex (fst (s_loadcode a s)) s.
Proof.
  destruct (objs s !! a) as [o|] eqn:Ho.
  - destruct (s_loadcode_spec a s o Ho) as (_&o'&->&Hh&Hn&Hs&Hd&Hc).
    apply sim_upd_id; [eapply loaded_settled; eauto|]. intros o2. unfold look. rewrite Ho. intros [= <-].
    split; auto. intros k. rewrite Hd. apply veq_refl.
  - unfold s_loadcode. rewrite Ho. apply sim_refl.
Qed.

Lemma settled_loadcode b a s : settled s b -> settled (fst (s_loadcode a s)) b.
Proof.
  intros H. destruct (objs s !! a) as [o|] eqn:Ho.
  - destruct (s_loadcode_spec a s o Ho) as (_&o'&->&_). apply settled_upd, H.
  - unfold s_loadcode. rewrite Ho. exact H.
Qed.

Lemma sim_touch ex a s : sim ex (s_touch a s) s.
Proof.
  unfold s_touch. destruct (objs s !! a) as [o|] eqn:Ho; [|apply sim_refl].
  set (e := ETouch a (o_touched o) (negb (o_armed o))).
  assert (Hl : loaded a (mark_dirty a (push e s))) by (apply loaded_mark; exists o; exact Ho).
  eapply sim_trans; [apply (sim_upd_id ex a _ _ (loaded_settled' a _ Hl))|].
  - intros o' _. apply (oeq_touched ex _ _ a true o').
  - eapply sim_trans; [apply sim_mark | apply sim_push].
Qed.

(* ---------- values read from equivalent states ---------- *)
Lemma settled_objs x y a : simt x y -> settled x a -> settled y a ->
  orel true (token x) (codes x) a (objs x !! a) (objs y !! a).
Proof. intros H Hx Hy. rewrite Hx, Hy. apply H. Qed.

Lemma getdata_val_cong a k x y : simt x y -> settled x a -> settled y a ->
  snd (s_getdata a k x) = snd (s_getdata a k y).
Proof.
  intros H Hx Hy. pose proof (settled_objs x y a H Hx Hy) as Ho. rewrite !s_getdata_eq.
  destruct (objs x !! a) as [o|], (objs y !! a) as [o'|]; cbn in *; try tauto.
  apply (veq_exact _ _ _ _ _ (oeq_data _ _ _ _ _ _ Ho k)).
Qed.

Lemma getdata_cong a k x y : simt x y -> simt (fst (s_getdata a k x)) (fst (s_getdata a k y)).
Proof.
  intros H. eapply sim_trans; [apply sim_getdata|]. eapply sim_trans; [exact H|]. apply sim_sym, sim_getdata.
Qed.

Lemma loadcode_val_cong a x y : simt x y -> settled x a -> settled y a ->
  snd (s_loadcode a x) = snd (s_loadcode a y) /\
  obj_field (fst (s_loadcode a x)) a o_hash 0 = obj_field (fst (s_loadcode a y)) a o_hash 0.
Proof.
  intros H Hx Hy. pose proof (settled_objs x y a H Hx Hy) as Ho.
  destruct (objs x !! a) as [o|] eqn:Hox, (objs y !! a) as [o'|] eqn:Hoy; cbn in Ho; try tauto.
  - destruct (s_loadcode_spec a x o Hox) as (->&o2&Hs2&Hh2&_). destruct (s_loadcode_spec a y o' Hoy) as (->&o3&Hs3&Hh3&_).
    split; [rewrite <- (sim_codes _ _ _ H); apply Ho|].
    rewrite Hs2, Hs3. unfold obj_field. rewrite (objs_upd_same a _ x o Hox), (objs_upd_same a _ y o' Hoy).
    rewrite Hh2, Hh3. apply Ho.
  - unfold s_loadcode, obj_field. rewrite Hox, Hoy. cbn. rewrite Hox, Hoy. auto.
Qed.

Lemma loadcode_cong a x y : simt x y -> simt (fst (s_loadcode a x)) (fst (s_loadcode a y)).
Proof.
  intros H. eapply sim_trans; [apply sim_loadcode|]. eapply sim_trans; [exact H|]. apply sim_sym, sim_loadcode.
Qed.

Lemma obj_field_cong {A} (f : obj -> A) d a x y :
  simt x y -> settled x a -> settled y a ->
  (forall o o', oeq true (token x) (codes x) a o o' -> f o = f o') -> obj_field x a f d = obj_field y a f d.
Proof.
  intros H Hx Hy Hf. pose proof (settled_objs x y a H Hx Hy) as Ho. unfold obj_field.
  destruct (objs x !! a), (objs y !! a); cbn in Ho; try tauto. auto.
Qed.

(* ---------- mutations ---------- *)
Lemma mut_cong a f e e' x y : omorph f -> simt x y -> settled x a -> settled y a ->
  simt (mark_dirty a (upd a f (push e x))) (mark_dirty a (upd a f (push e' y))).
Proof.
  intros Hf H Hx Hy. apply sim_mark_cong. apply sim_upd_cong; auto. apply sim_push_cong, H.
Qed.

Lemma setdata_raw_cong a k v x y : simt x y -> settled x a -> settled y a ->
  simt (s_setdata_raw a k v x) (s_setdata_raw a k v y).
Proof.
  intros H Hx Hy. rewrite !s_setdata_raw_eq. apply sim_mark_cong. apply sim_upd_cong; auto. apply omorph_data.
Qed.

Lemma setdata_cong a k v x y : simt x y -> settled x a -> settled y a -> simt (s_setdata a k v x) (s_setdata a k v y).
Proof.
  intros H Hx Hy. unfold s_setdata.
  pose proof (getdata_val_cong a k x y H Hx Hy) as Hv. pose proof (getdata_cong a k x y H) as Hs.
  pose proof (settled_getdata a a k x Hx) as Hx1. pose proof (settled_getdata a a k y Hy) as Hy1.
  destruct (s_getdata a k x) as [x1 px], (s_getdata a k y) as [y1 py]. cbn [fst snd] in *. subst py.
  destruct (bytes_eqb v px); [exact Hs|]. rewrite !s_setdata_raw_eq. apply mut_cong; auto. apply omorph_data.
Qed.

Lemma settled_setdata b a k v s : settled s b -> settled (s_setdata a k v s) b.
Proof.
  intros H. unfold s_setdata. pose proof (settled_getdata b a k s H) as H1. destruct (s_getdata a k s) as [s1 p]. cbn [fst] in H1.
  destruct (bytes_eqb v p); [exact H1|]. unfold s_setdata_raw. apply settled_mark, settled_upd. exact H1.
Qed.

(* ---------- balances ---------- *)
Lemma bal_read_cong a x y : simt x y ->
  snd (bal_read a x) = snd (bal_read a y) /\ simt (fst (bal_read a x)) (fst (bal_read a y)) /\
  settled (fst (bal_read a x)) (token x) /\ settled (fst (bal_read a y)) (token x).
Proof.
  intros H. unfold bal_read. rewrite <- (sim_token _ _ _ H). set (t := token x).
  pose proof (sim_ensure_cong true true t x y H) as H1.
  pose proof (settled_ensure true t x) as Sx. pose proof (settled_ensure true t y) as Sy.
  pose proof (getdata_val_cong t (erckey a) _ _ H1 Sx Sy) as Hv. pose proof (getdata_cong t (erckey a) _ _ H1) as Hs.
  pose proof (settled_getdata t t (erckey a) _ Sx) as Sx1. pose proof (settled_getdata t t (erckey a) _ Sy) as Sy1.
  destruct (s_getdata t (erckey a) (ensure true t x)) as [x2 vx], (s_getdata t (erckey a) (ensure true t y)) as [y2 vy].
  cbn [fst snd] in *. subst vy. auto.
Qed.

Lemma bal_write_cong a n x y : simt x y -> settled x (token x) -> settled y (token x) -> simt (bal_write a n x) (bal_write a n y).
Proof.
  intros H Hx Hy. unfold bal_write. rewrite <- (sim_p002 _ _ _ H), <- (sim_token _ _ _ H).
  destruct (p002 x); [apply setdata_cong | apply setdata_raw_cong]; auto.
Qed.

Lemma token_bal_read a s : token (fst (bal_read a s)) = token s.
Proof. rewrite bal_read_fst. rewrite s_getdata_eq. destruct (objs _ !! _); cbn; apply same_rest_ensure. Qed.

Lemma add_balance_cong a n x y : simt x y -> simt (add_balance a n x) (add_balance a n y).
Proof.
  intros H. unfold add_balance. destruct (bal_read_cong a x y H) as (Hv&Hs&Sx&Sy).
  pose proof (token_bal_read a x) as Tx.
  destruct (bal_read a x) as [x1 rx], (bal_read a y) as [y1 ry]. cbn [fst snd] in *. subst ry.
  apply bal_write_cong; auto; rewrite Tx; assumption.
Qed.

Lemma sub_balance_cong a n x y : simt x y -> simt (fst (sub_balance a n x)) (fst (sub_balance a n y)).
Proof.
  intros H. unfold sub_balance. destruct (bal_read_cong a x y H) as (Hv&Hs&Sx&Sy).
  pose proof (token_bal_read a x) as Tx.
  destruct (bal_read a x) as [x1 rx], (bal_read a y) as [y1 ry]. cbn [fst snd] in *. subst ry.
  destruct (rx <? n); cbn [fst]; [exact Hs|]. apply bal_write_cong; auto; rewrite Tx; assumption.
Qed.

Lemma ft_read_cong a x y : simt x y -> settled x a -> settled y a ->
  snd (ft_read a x) = snd (ft_read a y) /\ simt (fst (ft_read a x)) (fst (ft_read a y)) /\
  settled (fst (ft_read a x)) a /\ settled (fst (ft_read a y)) a.
Proof.
  intros H Hx Hy. unfold ft_read.
  pose proof (getdata_val_cong a ftkey x y H Hx Hy) as Hv. pose proof (getdata_cong a ftkey x y H) as Hs.
  pose proof (settled_getdata a a ftkey x Hx) as Hx1. pose proof (settled_getdata a a ftkey y Hy) as Hy1.
  destruct (s_getdata a ftkey x) as [x1 vx], (s_getdata a ftkey y) as [y1 vy]. cbn [fst snd] in *. subst vy. auto.
Qed.

(* ---------- fields outside the object table ---------- *)
Lemma sim_with_al x y A S : simt x y -> simt (x <| al_addrs := A |> <| al_slots := S |>) (y <| al_addrs := A |> <| al_slots := S |>).
Proof. intros H. destruct H. split; auto. Qed.

Lemma sim_with_refund x y r : simt x y -> simt (x <| refund := r |>) (y <| refund := r |>).
Proof. intros H. destruct H. split; auto. Qed.

Lemma al_add_addr_cong a x y : simt x y -> simt (al_add_addr a x) (al_add_addr a y).
Proof.
  intros H. unfold al_add_addr. rewrite <- (sim_ala _ _ _ H). destruct (al_addrs x !! a); [exact H|].
  apply sim_push_cong. destruct H. split; auto.
Qed.

Lemma al_new_slot_cong a k x y : simt x y -> simt (al_new_slot a k x) (al_new_slot a k y).
Proof. intros H. unfold al_new_slot. rewrite <- (sim_ala _ _ _ H), <- (sim_als _ _ _ H). apply sim_with_al, H. Qed.

Lemma al_add_slot_cong a k x y : simt x y -> simt (al_add_slot a k x) (al_add_slot a k y).
Proof.
  intros H. unfold al_add_slot. rewrite <- (sim_ala _ _ _ H), <- (sim_als _ _ _ H).
  destruct (al_addrs x !! a) as [idx|]; [|apply sim_push_cong, sim_push_cong, al_new_slot_cong, H].
  destruct (idx =? -1)%Z; [apply sim_push_cong, al_new_slot_cong, H|].
  destruct (al_slots x !! Z.to_nat idx); [|exact H]. destruct (bool_decide _); [exact H|].
  apply sim_push_cong. destruct H. split; auto.
Qed.

Lemma add_log_cong p x y : simt x y -> simt (add_log p x) (add_log p y).
Proof.
  intros H. unfold add_log. rewrite <- (sim_thash _ _ _ H), <- (sim_logsize _ _ _ H), <- (sim_logs _ _ _ H (thash x)).
  pose proof (sim_logs _ _ _ H) as HL. destruct H. split; auto.
  intros h. unfold getlogs. cbn. destruct (decide (h = thash x)) as [->|];
    [rewrite !lookup_insert; reflexivity | rewrite !lookup_insert_ne by congruence; apply HL].
Qed.

(* ---------- every guarded operation ---------- *)
Lemma step_cong o x y : simt x y -> op_ok true false o -> simt (fst (step o x)) (fst (step o y)).
Proof.
  intros H Hok.
  destruct o; cbn [step fst]; try exact H; try (apply sim_ensure_cong, H).
  - (* SetNonce *)
    pose proof (sim_ensure_cong true true a x y H) as H1.
    apply mut_cong; auto using settled_ensure. apply omorph_nonce.
  - (* IncNonce *)
    pose proof (sim_ensure_cong true true a x y H) as H1.
    rewrite (obj_field_cong o_nonce 0 a _ _ H1 (settled_ensure true a x) (settled_ensure true a y)) by (intros o o' []; auto).
    apply mut_cong; auto using settled_ensure. apply omorph_nonce.
  - apply setdata_cong; auto using settled_ensure, sim_ensure_cong.
  - apply add_balance_cong, H.
  - pose proof (sub_balance_cong a n x y H) as H1. destruct (sub_balance a n x), (sub_balance a n y). exact H1.
  - unfold set_balance. rewrite <- (sim_token _ _ _ H). apply setdata_cong; auto using settled_ensure, sim_ensure_cong.
  - destruct (n =? 0); cbn [fst]; [exact H|]. apply add_balance_cong, sub_balance_cong, H.
  - (* SetCode *)
    pose proof (sim_ensure_cong true true a x y H) as H1.
    pose proof (settled_ensure true a x) as Sx. pose proof (settled_ensure true a y) as Sy.
    destruct (loadcode_val_cong a _ _ H1 Sx Sy) as [Hv Hh]. pose proof (loadcode_cong a _ _ H1) as H2.
    pose proof (settled_loadcode a a _ Sx) as Sx2. pose proof (settled_loadcode a a _ Sy) as Sy2.
    destruct (s_loadcode a (ensure true a x)) as [x2 px], (s_loadcode a (ensure true a y)) as [y2 py]. cbn [fst snd] in *.
    rewrite !s_setcode_raw_eq. apply mut_cong; auto. apply omorph_code.
  - discriminate Hok.
  - apply (add_log_cong p x y H).
  - rewrite <- (sim_refund _ _ _ H). apply sim_with_refund, sim_push_cong, H.
  - rewrite <- (sim_refund _ _ _ H). apply sim_with_refund, sim_push_cong, H.
  - apply al_add_addr_cong, H.
  - apply al_add_slot_cong, H.
  - (* SetTransient *)
    rewrite <- (sim_tr _ _ _ H a k). destruct (tget x a k =? v); cbn [fst]; [exact H|].
    apply sim_tset_cong, sim_push_cong, H.
  - (* AddFT *)
    pose proof (sim_ensure_cong true true a x y H) as H1.
    pose proof (settled_ensure true a x) as Sx. pose proof (settled_ensure true a y) as Sy.
    destruct (n =? 0) eqn:En; cbn [fst].
    + apply N.eqb_eq in En. destruct Hok; [contradiction|discriminate].
    + destruct (ft_read_cong a _ _ H1 Sx Sy) as (Hv&Hs&Sx1&Sy1).
      destruct (ft_read a (ensure true a x)) as [x2 rx], (ft_read a (ensure true a y)) as [y2 ry]. cbn [fst snd] in *. subst ry.
      apply setdata_cong; auto.
  - (* SubFT *)
    pose proof (sim_ensure_cong true true a x y H) as H1.
    pose proof (settled_ensure true a x) as Sx. pose proof (settled_ensure true a y) as Sy.
    destruct (ft_read_cong a _ _ H1 Sx Sy) as (Hv&Hs&Sx1&Sy1).
    destruct (ft_read a (ensure true a x)) as [x2 rx], (ft_read a (ensure true a y)) as [y2 ry]. cbn [fst snd] in *. subst ry.
    destruct (n =? 0); cbn [fst]; [exact Hs|]. destruct rx as [r|]; cbn [fst]; [|exact Hs].
    destruct (r <? n); cbn [fst]; [exact Hs|]. apply setdata_cong; auto.
  - apply setdata_cong; auto using settled_ensure, sim_ensure_cong.
  - destruct (bal_read_cong a x y H) as (_&Hs&_). destruct (bal_read a x), (bal_read a y). exact Hs.
  - pose proof (getdata_cong a k _ _ (sim_ensure_cong true false a x y H)) as H1.
    destruct (s_getdata a k (ensure false a x)), (s_getdata a k (ensure false a y)). exact H1.
  - destruct Hok.
  - pose proof (loadcode_cong a _ _ (sim_ensure_cong true false a x y H)) as H1.
    destruct (s_loadcode a (ensure false a x)), (s_loadcode a (ensure false a y)). exact H1.
  - pose proof (sim_ensure_cong true true a x y H) as H1.
    destruct (ft_read_cong a _ _ H1 (settled_ensure true a x) (settled_ensure true a y)) as (_&Hs&_).
    destruct (ft_read a (ensure true a x)), (ft_read a (ensure true a y)). exact Hs.
  - destruct Hok.
Qed.

(* ---------- programs ---------- *)
Definition G (s : state) : Prop := wf_al s /\ rb s /\ p002 s = true.

Lemma G_rtq s s' : G s -> RTq true false s s' -> G s'.
Proof. intros (Hw&Hb&Hp) Q. split; [eapply rtq_wf, Q|]. split; [eapply rtq_rb, Q|]. rewrite (rtq_p002 _ _ _ _ Q). exact Hp. Qed.

Lemma run_ops_cong obs : Forall (op_ok true false) obs -> forall x y, simt x y -> simt (fst (run_ops obs x)) (fst (run_ops obs y)).
Proof.
  induction 1 as [|o obs Ho _ IH]; intros x y H; cbn [run_ops fst]; [exact H|].
  pose proof (step_cong o x y H Ho) as H1. destruct (step o x) as [x1 ax], (step o y) as [y1 ay]. cbn [fst] in *.
  pose proof (IH x1 y1 H1) as H2. destruct (run_ops obs x1), (run_ops obs y1). exact H2.
Qed.

Lemma G_run_ops obs s : Forall (op_ok true false) obs -> G s -> G (fst (run_ops obs s)).
Proof. intros Ho Hg. eapply G_rtq; [exact Hg|]. destruct Hg as (Hw&Hb&Hp). apply rtq_run_ops; auto. Qed.

Lemma sim_snapshot ex s : sim ex (fst (snapshot s)) s.
Proof. cbn. dstate s. sim_triv. Qed.

Lemma G_snapshot s : G s -> G (fst (snapshot s)).
Proof. intros Hg. eapply G_rtq; [exact Hg|]. destruct Hg as (Hw&Hb&Hp). apply rtq_snapshot; auto. Qed.

Lemma items_cong :
  forall it, item_ok true false it -> forall x y, G x -> G y -> simt x y -> simt (fst (run_item it x)) (fst (run_item it y)).
Proof.
  induction it as [o|obs body rv IHb] using item_ind'; intros Hok x y Gx Gy H.
  - inversion Hok; subst. cbn [run_item]. pose proof (step_cong o x y H ltac:(assumption)) as Hsc.
    destruct (step o x), (step o y). exact Hsc.
  - inversion Hok as [|? ? ? Hobs Hbody]; subst.
    assert (Hrun : forall l,
      Forall (fun it => item_ok true false it -> forall x y, G x -> G y -> simt x y -> simt (fst (run_item it x)) (fst (run_item it y))) l ->
      Forall (item_ok true false) l -> forall x y, G x -> G y -> simt x y -> simt (fst (run l x)) (fst (run l y))).
    { induction l as [|it l IHl]; intros HP Hl x' y' Gx' Gy' H'; cbn [run fst]; [exact H'|].
      inversion HP as [|? ? HP1 HP2]; subst. inversion Hl as [|? ? Hl1 Hl2]; subst.
      pose proof (HP1 Hl1 x' y' Gx' Gy' H') as H1.
      assert (Gx1 : G (fst (run_item it x'))) by (eapply G_rtq; [exact Gx'|]; destruct Gx' as (?&?&?); apply rtq_items; auto).
      assert (Gy1 : G (fst (run_item it y'))) by (eapply G_rtq; [exact Gy'|]; destruct Gy' as (?&?&?); apply rtq_items; auto).
      destruct (run_item it x') as [x1 ax], (run_item it y') as [y1 ay]. cbn [fst] in *.
      pose proof (IHl HP2 Hl2 x1 y1 Gx1 Gy1 H1) as H2. destruct (run l x1), (run l y1). exact H2. }
    rewrite !run_item_bracket.
    pose proof (run_ops_cong obs Hobs x y H) as H1.
    pose proof (G_run_ops obs x Hobs Gx) as Gxw. pose proof (G_run_ops obs y Hobs Gy) as Gyw.
    destruct (run_ops obs x) as [xw axw], (run_ops obs y) as [yw ayw]. cbn [fst] in *.
    pose proof (run_ops_cong obs Hobs xw yw H1) as H2.
    pose proof (G_run_ops obs xw Hobs Gxw) as Gx0. pose proof (G_run_ops obs yw Hobs Gyw) as Gy0.
    destruct (run_ops obs xw) as [x0 ax0], (run_ops obs yw) as [y0 ay0]. cbn [fst] in *.
    destruct rv.
    + (* reverted bracket: both sides return to states equivalent to x0 / y0 *)
      pose proof (revert_restores true false x0 body (proj1 Gx0) (proj1 (proj2 Gx0)) (proj2 (proj2 Gx0)) Hbody) as Rx.
      pose proof (revert_restores true false y0 body (proj1 Gy0) (proj1 (proj2 Gy0)) (proj2 (proj2 Gy0)) Hbody) as Ry.
      pose proof (good_after_revert true false x0 body (proj1 Gx0) (proj1 (proj2 Gx0)) (proj2 (proj2 Gx0)) Hbody) as (Ax&Bx&Cx&_).
      pose proof (good_after_revert true false y0 body (proj1 Gy0) (proj1 (proj2 Gy0)) (proj2 (proj2 Gy0)) Hbody) as (Ay&By&Cy&_).
      unfold after_revert in *.
      destruct (snapshot x0) as [x1 idx], (snapshot y0) as [y1 idy]. cbn [fst snd] in *.
      destruct (run body x1) as [x2 bx], (run body y1) as [y2 by']. cbn [fst] in *.
      assert (H3 : simt (revert idx x2) (revert idy y2)).
      { eapply sim_trans; [exact Rx|]. eapply sim_trans; [exact H2|]. apply sim_sym, Ry. }
      pose proof (run_ops_cong obs Hobs _ _ H3) as H4.
      destruct (run_ops obs (revert idx x2)), (run_ops obs (revert idy y2)). exact H4.
    + pose proof (G_snapshot x0 Gx0) as Gx1. pose proof (G_snapshot y0 Gy0) as Gy1.
      assert (H3 : simt (fst (snapshot x0)) (fst (snapshot y0))).
      { eapply sim_trans; [apply sim_snapshot|]. eapply sim_trans; [exact H2|]. apply sim_sym, sim_snapshot. }
      destruct (snapshot x0) as [x1 idx], (snapshot y0) as [y1 idy]. cbn [fst snd] in *.
      pose proof (Hrun body IHb Hbody x1 y1 Gx1 Gy1 H3) as H4.
      destruct (run body x1), (run body y1). exact H4.
Qed.

Lemma run_cong l : Forall (item_ok true false) l ->
  forall x y, G x -> G y -> simt x y -> simt (fst (run l x)) (fst (run l y)).
Proof.
  induction 1 as [|it l Hi Hl IH]; intros x y Gx Gy H; cbn [run fst]; [exact H|].
  pose proof (items_cong it Hi x y Gx Gy H) as H1.
  assert (Gx1 : G (fst (run_item it x))) by (eapply G_rtq; [exact Gx|]; destruct Gx as (?&?&?); apply rtq_items; auto).
  assert (Gy1 : G (fst (run_item it y))) by (eapply G_rtq; [exact Gy|]; destruct Gy as (?&?&?); apply rtq_items; auto).
  destruct (run_item it x) as [x1 ax], (run_item it y) as [y1 ay]. cbn [fst] in *.
  pose proof (IH x1 y1 Gx1 Gy1 H1) as H2. destruct (run l x1), (run l y1). exact H2.
Qed.

(* ---------- the continuation clause ---------- *)
Theorem continuation s body cont :
  wf_al s -> rb s -> p002 s = true -> rinv s ->
  Forall (item_ok true false) body -> Forall (item_ok true false) cont ->
  let x := fst (run cont (after_revert body s)) in
  let y := fst (run cont s) in
  simt x y /\ fin_trie false false x = fin_trie false false y /\ rinv x /\ rinv y.
Proof.
  intros Hw Hb Hp Hr Hbody Hcont. cbv zeta.
  pose proof (revert_restores true false s body Hw Hb Hp Hbody) as H0.
  pose proof (good_after_revert true false s body Hw Hb Hp Hbody) as (Aw&Ab&Ap&_).
  pose proof (rinv_after_revert s body Hw Hb Hp Hr Hbody) as Ar.
  assert (Hs : simt (fst (run cont (after_revert body s))) (fst (run cont s))).
  { apply run_cong; auto; repeat split; auto. }
  assert (Rx : rinv (fst (run cont (after_revert body s)))) by (apply rinv_run; auto).
  assert (Ry : rinv (fst (run cont s))) by (apply rinv_run; auto).
  split; [exact Hs|]. split; [apply fin_trie_sim; assumption|]. split; assumption.
Qed.
