(* C04 proofs, part 8: from the CONTENT of the finalised account trie to the state-root HASH.
   The real code reaches the finalised tries through histories of trie updates/deletes (C02's [run]);
   C02 (layer A, read-only) proves that the root hash of such a history depends on its content only, for
   every hash function.  Here: any two trie histories that represent the same finalised account map
   (account leaves carrying the root hash of a storage-trie history that represents the account's
   storage map) have the same root hash.  The key encodings and the RLP leaf encoder are arbitrary
   functions (no injectivity is needed in this direction). *)
From stdpp Require Import gmap.
From V.Base Require Import Hex.
From V.C02 Require Model Proofs.
From V.C04 Require Import Model.

Module T := V.C02.Model.
Module TP := V.C02.Proofs.

Section RootHash.
  Context (H : bytes -> bytes) (akey skey : N -> bytes) (leaf_enc : N -> N -> bytes -> bytes).

  (* the value a finite map holds under the key whose encoding is [key] *)
  Definition lookup_by {A} (enc : N -> bytes) (m : gmap N A) (key : bytes) : option A :=
    snd <$> List.find (fun p => bytes_eqb (enc p.1) key) (map_to_list m).

  Definition trie_root (ops : list T.op) : bytes := T.root_hash H (T.run ops).

  (* [ops] is a history of storage-trie writes whose last-write content is the map [m] *)
  Definition repr_store (ops : list T.op) (m : gmap N bytes) : Prop :=
    TP.ops_ok ops /\ forall key, bytes_ok key -> TP.content ops key = lookup_by skey m key.

  Lemma store_root_unique ops1 ops2 m : repr_store ops1 m -> repr_store ops2 m -> trie_root ops1 = trie_root ops2.
  Proof.
    intros [Ho1 Hc1] [Ho2 Hc2]. apply TP.root_history_independent; auto.
    intros key Hk. rewrite Hc1, Hc2 by exact Hk. reflexivity.
  Qed.

  Definition leaf_map (sr : N -> bytes) (t : gmap N acct) : gmap N bytes :=
    map_imap (fun a ac => Some (leaf_enc (a_nonce ac) (a_hash ac) (sr a))) t.

  (* [ops] is a history of account-trie writes whose content is the account map [t], every leaf being
     the encoding of (nonce, code hash, root hash of a storage history representing the account's storage) *)
  Definition repr_state (ops : list T.op) (t : gmap N acct) : Prop :=
    TP.ops_ok ops /\ exists sr : N -> bytes,
      (forall a ac, t !! a = Some ac -> exists opsS, repr_store opsS (a_store ac) /\ sr a = trie_root opsS) /\
      forall key, bytes_ok key -> TP.content ops key = lookup_by akey (leaf_map sr t) key.

  Theorem state_root_unique ops1 ops2 t : repr_state ops1 t -> repr_state ops2 t -> trie_root ops1 = trie_root ops2.
  Proof.
    intros (Ho1&sr1&Hs1&Hc1) (Ho2&sr2&Hs2&Hc2). apply TP.root_history_independent; auto.
    intros key Hk. rewrite Hc1, Hc2 by exact Hk. f_equal.
    apply map_eq. intros a. unfold leaf_map. rewrite !map_lookup_imap.
    destruct (t !! a) as [ac|] eqn:Ha; cbn; [|reflexivity].
    destruct (Hs1 a ac Ha) as (o1&Hr1&->). destruct (Hs2 a ac Ha) as (o2&Hr2&->).
    rewrite (store_root_unique o1 o2 _ Hr1 Hr2). reflexivity.
  Qed.

  Corollary state_root_equal ops1 ops2 t1 t2 :
    t1 = t2 -> repr_state ops1 t1 -> repr_state ops2 t2 -> trie_root ops1 = trie_root ops2.
  Proof. intros ->. apply state_root_unique. Qed.

  Corollary storage_root_equal (t1 t2 : gmap N acct) a ac1 ac2 ops1 ops2 :
    t1 = t2 -> t1 !! a = Some ac1 -> t2 !! a = Some ac2 ->
    repr_store ops1 (a_store ac1) -> repr_store ops2 (a_store ac2) -> trie_root ops1 = trie_root ops2.
  Proof. intros -> H1 H2. assert (ac1 = ac2) by congruence. subst. apply store_root_unique. Qed.
End RootHash.

(* the representation hypotheses are satisfiable: one account with one storage slot *)
Local Arguments bytes_eqb : simpl never.
Definition repr_example_stmt (H : bytes -> bytes) : Prop :=
  let akey := fun a : N => [a] in let skey := fun k : N => [k] in
  let leaf_enc := fun (n h : N) (r : bytes) => n :: h :: r in
  let opsS := [T.OUpdate [2%N] [5%N]] in
  let t : gmap N acct := {[ 1%N := Acct 0 0 {[ 2%N := [5%N] ]} ]} in
  repr_store skey opsS {[ 2%N := [5%N] ]} /\
  repr_state H akey skey leaf_enc [T.OUpdate [1%N] (leaf_enc 0%N 0%N (trie_root H opsS))] t.

Lemma repr_example (H : bytes -> bytes) : repr_example_stmt H.
Proof.
  unfold repr_example_stmt.
  cbv zeta.
  assert (HS : repr_store (fun k : N => [k]) [T.OUpdate [2%N] [5%N]] {[ 2%N := [5%N] ]}).
  { split; [repeat constructor; cbv; reflexivity|]. intros key _.
    unfold lookup_by. rewrite map_to_list_singleton. cbn.
    unfold TP.content, TP.content_from, TP.bapply. cbn.
    destruct (TP.bytes_eq_dec key [2%N]) as [->|Hn]; [reflexivity|].
    destruct (bytes_eqb [2%N] key) eqn:E; [|reflexivity]. apply bytes_eqb_eq in E. congruence. }
  split; [exact HS|]. split; [repeat constructor; cbv; reflexivity|].
  exists (fun _ => trie_root H [T.OUpdate [2%N] [5%N]]). split.
  - intros a ac Ha. apply lookup_singleton_Some in Ha as [<- <-]. eexists. split; [exact HS|reflexivity].
  - intros key _. unfold lookup_by.
    match goal with |- context [leaf_map ?e ?sr ?t] =>
      assert (HL : leaf_map e sr t = {[ 1%N := e 0%N 0%N (sr 1%N) ]}) end.
    { apply map_eq. intros i. unfold leaf_map. rewrite map_lookup_imap. destruct (decide (i = 1%N)) as [->|];
        [rewrite !lookup_singleton|rewrite !lookup_singleton_ne by congruence]; reflexivity. }
    rewrite HL, map_to_list_singleton. cbn.
    unfold TP.content, TP.content_from, TP.bapply. cbn.
    destruct (TP.bytes_eq_dec key [1%N]) as [->|Hn]; [reflexivity|].
    destruct (bytes_eqb [1%N] key) eqn:E; [|reflexivity]. apply bytes_eqb_eq in E. congruence.
Qed.
