(* C15 — proofs about the model of the signing round over an arbitrary field F (the exponents of a
   prime-order group), arbitrary message type, arbitrary hash H, arbitrary choice [sel] of the map
   entries used by the recovery.  The Lagrange/DKG fact comes from C13. *)
From mathcomp Require Import all_ssreflect all_algebra.
From V.C13 Require Import Model Proofs.
From V.C15 Require Import Model.
Set Implicit Arguments. Unset Strict Implicit. Unset Printing Implicit Defensive.
Import GRing.Theory.
Local Open Scope ring_scope.

Lemma appE (A : Type) (s t : seq A) : List.app s t = s ++ t.
Proof. by elim: s => //= a s ->. Qed.
Lemma mapE (A B : Type) (f : A -> B) (s : seq A) : List.map f s = map f s.
Proof. by elim: s => //= a s ->. Qed.
Lemma lenE (A : Type) (s : seq A) : List.length s = size s.
Proof. by elim: s => //= a s ->. Qed.
Lemma leqE (a b : nat) : Nat.leb a b = (a <= b)%N.
Proof. by elim: a b => [|a IH] [|b] //=; rewrite IH. Qed.
Lemma fold_leftE (A B : Type) (f : A -> B -> A) (s : seq B) (a : A) : List.fold_left f s a = foldl f a s.
Proof. by elim: s a => //=. Qed.

Section Field.
Variables (F : fieldType) (M : eqType) (H : M -> F) (sel : seq (F * F) -> seq nat).

Notation z0 := (fun x : F => x == 0).
Notation env := (@env F M).
Notation msg := (@msg F M).
Notation rstate := (@rstate F).
Notation pstate := (@pstate F).
Notation look := (@lookup F eq_op).
Notation vfy := (@verify F M (fops F) eq_op z0 H).
Notation gad := (@gadd F (fops F) eq_op sel).
Notation upd := (@r1_update F M (fops F) eq_op eq_op z0 z0 eq_op H sel).
Notation fin := (@finalize F M (fops F) eq_op z0 H).
Notation pstep := (@party_step F M (fops F) eq_op eq_op z0 z0 eq_op H sel).
Notation pfinal := (@party_final F M (fops F) eq_op eq_op z0 z0 eq_op H sel).
Notation replay := (@r1_replay F M (fops F) eq_op eq_op z0 z0 eq_op H sel).
Notation pstart := (@party_start F M (fops F) eq_op eq_op z0 z0 eq_op H sel).
Notation pfinal_from := (@party_final_from F M (fops F) eq_op eq_op z0 z0 eq_op H sel).
Notation ids g := (map fst (g_map g)).

Lemma has_idE z (m : seq (F * F)) : has_id eq_op z m = (z \in map fst m).
Proof. by elim: m => [|[i s] m IH] //=; rewrite IH inE eq_sym. Qed.

Lemma vfyP sk m p : reflect (exists s, [/\ p = PVal s, s != 0, sk != 0 & s = sk * H m]) (vfy sk m p).
Proof.
case: p => [|s] /=; first by constructor; case=> s [].
apply: (iffP idP) => [/andP [/andP [s0 sk0] /eqP e]|[s' [[<-] s0 sk0 e]]]; first by exists s.
by rewrite s0 sk0 /=; apply/eqP.
Qed.

(* ---- the share collector, one call ---- *)
Definition rec_of (m : seq (F * F)) : F := recover_sel (fops F) (sel m) (map fst m) (map snd m).

Variant gadd_spec (g : @gen F) (id s : F) : @gen F * bool * bool -> Type :=
| GaddRec s0 of g_sig g = Some s0 : gadd_spec g id s (g, false, true)
| GaddDup of g_sig g = None & id \in ids g : gadd_spec g id s (g, false, false)
| GaddGen of g_sig g = None & id \notin ids g & (g_thr g <= (size (g_map g)).+1)%N :
    gadd_spec g id s (Gen (g_thr g) (g_map g ++ [:: (id, s)]) (Some (rec_of (g_map g ++ [:: (id, s)]))), true, true)
| GaddAdd of g_sig g = None & id \notin ids g & ((size (g_map g)).+1 < g_thr g)%N :
    gadd_spec g id s (Gen (g_thr g) (g_map g ++ [:: (id, s)]) None, true, false).

Lemma gaddP g id s : gadd_spec g id s (gad g id s).
Proof.
rewrite /gadd /gen_add; case E: (g_sig g) => [s0|]; first exact: GaddRec E.
rewrite has_idE; case: ifP => [idin|/negbT idn]; first exact: GaddDup.
rewrite !appE lenE leqE size_cat /= addn1 /rec_of !mapE.
by case: leqP => sz; [apply: GaddGen | apply: GaddAdd].
Qed.

(* ---- one call of round1.Update with the hash comparison ---- *)
Section Step.
Variable e : env.
Let hb := H (e_bh e).
Let hp := H (e_pr e).

(* what a message must be to get past the guards *)
Definition passes (m : msg) (sk s rs : F) : Prop :=
  [/\ [/\ e_existed e = false, look (m_sender m) (e_members e) = Some sk, m_dh m = e_bh e & m_sender m != 0],
      [/\ m_sig m = PVal s, m_rsig m = PVal rs, s = sk * hb & rs = sk * hp]
    & [/\ s != 0, rs != 0 & sk != 0]].

Definition adds (oc : outcome) : bool := match oc with OAdded | ORecovered => true | _ => false end.
Definition is_existed (oc : outcome) : bool := if oc is OExisted then true else false.
Definition closedb (ph : phase) : bool := if ph is Closed then true else false.

Variant upd_spec (st : rstate) (m : msg) : rstate * outcome -> Prop :=
| UpdSame oc of ~~ adds oc & is_existed oc ==> e_existed e : upd_spec st m (st, oc)
| UpdStep sk s rs g' add gen r' radd rgen of passes m sk s rs
    & gad (st_g st) (m_sender m) s = (g', add, gen) & add
    & gad (st_r st) (m_sender m) rs = (r', radd, rgen) :
    upd_spec st m
      (if radd && gen && rgen then
         (RState g' r' (match g_sig g', g_sig r' with Some a, Some b => Some (a, b) | _, _ => st_hdr st end) true,
          ORecovered)
       else (RState g' r' (st_hdr st) (st_can st), OAdded)).

Lemma updP st m : upd_spec st m (upd true e st m).
Proof.
rewrite /r1_update; case ex: (e_existed e); first by apply: UpdSame; rewrite ?ex.
case lk: (lookup _ _ _) => [sk|]; last exact: UpdSame.
rewrite /=; case: eqP => [dh|_]; last exact: UpdSame.
case: (boolP (m_sender m == 0)) => [_|id0] /=; first exact: UpdSame.
case: vfyP => [[s [sg s0 sk0 sE]]|_] /=; last exact: UpdSame.
rewrite sg; case rg: (m_rsig m) => [|rs]; first exact: UpdSame.
rewrite -[~~ _]/(~~ vfy sk (e_pr e) (PVal rs)).
case: vfyP => [[rs' [[<-] rs0 _ rsE]]|_]; last exact: UpdSame.
rewrite /negb; case ga: (gad _ _ _) => [[g' add] gen].
case: add ga => ga; last exact: UpdSame.
case ra: (gad _ _ _) => [[r' radd] rgen].
rewrite dh in sE.
by apply: (@UpdStep st m sk s rs g' true gen r' radd rgen) => //; split; split.
Qed.

(* verification is a function of (key, message, signature): whatever has been verified before - any
   state [st] of the round, any history - the sender's share over another message x, relabelled with
   the hash the round expects, is rejected and leaves the round as it was *)
Lemma stale_share_rejected st m sk x :
  look (m_sender m) (e_members e) = Some sk -> m_sig m = PVal (sk * H x) -> H x != H (m_dh m) ->
  (upd true e st m).1 = st.
Proof.
move=> lk sg ne; rewrite /r1_update; case: (e_existed e) => //; rewrite lk.
case: (true && _) => //; rewrite sg /=.
case sk0: (sk == 0); first by rewrite /= andbF orbT.
by rewrite (inj_eq (mulfI (negbT sk0))) (negbTE ne) !andbF orbT.
Qed.

(* ---- invariant 1: what is in the recovery sets (no assumption on the messages) ---- *)
Definition valid_map (h : F) (m : seq (F * F)) : Prop :=
  forall id s, (id, s) \in m -> exists2 sk, look id (e_members e) = Some sk & s = sk * h /\ s != 0.

Definition inv1 (st : rstate) : Prop :=
  [/\ g_thr (st_g st) = e_thr e /\ g_thr (st_r st) = e_thr e,
      uniq (ids (st_g st)), ids (st_g st) = ids (st_r st),
      isSome (g_sig (st_g st)) = isSome (g_sig (st_r st)) &
      valid_map hb (g_map (st_g st)) /\ valid_map hp (g_map (st_r st))].

Lemma inv1_init : inv1 (r_init e).
Proof. by split. Qed.

Definition gm' (st : rstate) (m : msg) (sk : F) := g_map (st_g st) ++ [:: (m_sender m, sk * hb)].
Definition rm' (st : rstate) (m : msg) (sk : F) := g_map (st_r st) ++ [:: (m_sender m, sk * hp)].

Variant step_spec (st : rstate) (m : msg) : rstate * outcome -> Prop :=
| StepSame oc of ~~ adds oc & is_existed oc ==> e_existed e : step_spec st m (st, oc)
| StepAdd sk of passes m sk (sk * hb) (sk * hp) & m_sender m \notin ids (st_g st)
    & g_sig (st_g st) = None & g_sig (st_r st) = None & ((size (g_map (st_g st))).+1 < e_thr e)%N :
    step_spec st m
      (RState (Gen (e_thr e) (gm' st m sk) None) (Gen (e_thr e) (rm' st m sk) None) (st_hdr st) (st_can st), OAdded)
| StepRec sk of passes m sk (sk * hb) (sk * hp) & m_sender m \notin ids (st_g st)
    & g_sig (st_g st) = None & g_sig (st_r st) = None & (e_thr e <= (size (g_map (st_g st))).+1)%N :
    step_spec st m
      (RState (Gen (e_thr e) (gm' st m sk) (Some (rec_of (gm' st m sk))))
              (Gen (e_thr e) (rm' st m sk) (Some (rec_of (rm' st m sk))))
              (Some (rec_of (gm' st m sk), rec_of (rm' st m sk))) true, ORecovered).

Lemma stepP st m : inv1 st -> step_spec st m (upd true e st m).
Proof.
case=> [[tg tr] ug idE sgE _].
have szE : size (g_map (st_r st)) = size (g_map (st_g st)).
  by rewrite -(size_map fst) -idE size_map.
case: updP => [oc na ex|sk s rs g' add gen r' radd rgen ps]; first exact: StepSame.
have [_ [_ _ sE rsE] _] := ps; rewrite sE rsE in ps *.
case: gaddP => [s0 E|E idin|E idn sz|E idn sz] [<- <- <-] // _;
  have Er : g_sig (st_r st) = None by move: sgE; rewrite E; case: (g_sig (st_r st)).
- case: gaddP => [s0 Es|_ idin|_ _ sz'|_ _ sz'] [<- <- <-].
  + by rewrite Er in Es.
  + by rewrite -idE (negbTE idn) in idin.
  + by rewrite /= tg tr; apply: StepRec => //; rewrite -tg.
  + by move: sz sz'; rewrite tg tr szE ltnNge => ->.
- case: gaddP => [s0 Es|_ idin|_ _ sz'|_ _ sz'] [<- <- <-].
  + by rewrite Er in Es.
  + by rewrite -idE (negbTE idn) in idin.
  + by move: sz sz'; rewrite tg tr szE ltnNge => /negbTE ->.
  + by rewrite /= tg tr; apply: StepAdd => //; rewrite -tg.
Qed.

Lemma valid_map_rcons h m id s sk :
  valid_map h m -> look id (e_members e) = Some sk -> s = sk * h -> s != 0 -> valid_map h (m ++ [:: (id, s)]).
Proof.
move=> vm lk sE s0 id' s'; rewrite mem_cat inE => /orP [/vm //|/eqP [-> ->]].
by exists sk.
Qed.

Lemma inv1_step st m : inv1 st -> inv1 (upd true e st m).1.
Proof.
move=> inv; case: (stepP m inv) => [oc _ _ //|sk ps idn Eg Er _|sk ps idn Eg Er _] /=;
  case: inv => [[tg tr] ug idE sgE [vg vr]]; have [[_ lk _ _] _ [s0 rs0 _]] := ps.
- split=> //=.
  + by rewrite map_cat cat_uniq ug /= orbF andbT.
  + by rewrite !map_cat idE.
  + by split; apply: valid_map_rcons lk _ _.
- split=> //=.
  + by rewrite map_cat cat_uniq ug /= orbF andbT.
  + by rewrite !map_cat idE.
  + by split; apply: valid_map_rcons lk _ _.
Qed.

Lemma ids_mono st m : inv1 st -> {subset ids (st_g st) <= ids (st_g (upd true e st m).1)}.
Proof.
move=> inv; case: (stepP m inv) => [oc _ _ y //|sk _ _ _ _ _ y yin|sk _ _ _ _ _ y yin] /=;
  by rewrite /gm' map_cat mem_cat yin.
Qed.

(* ---- round1.Start: replay of stored messages ---- *)
Notation rfold := (foldl (fun st m => (upd true e st m).1)).

Lemma upd_existed st m : e_existed e -> upd true e st m = (st, OExisted).
Proof. by rewrite /r1_update => ->. Qed.

Lemma rfold_existed st ms : e_existed e -> rfold st ms = st.
Proof. by move=> ex; elim: ms => //= m ms IH; rewrite upd_existed. Qed.

Lemma replay_stE st ms : (replay true e st ms).1.1 = rfold st ms.
Proof.
elim: ms st => [|m ms IH] st //=.
case: updP => [oc _ ex|sk s rs g' add gen r' radd rgen _ _ _ _].
- case: oc ex => /=; try (by move=> _; rewrite -IH; case: (replay _ _ _ _) => [[? ?] ?]).
  by move=> ex; rewrite rfold_existed.
- by case: ifP => _; rewrite -IH; case: (replay _ _ _ _) => [[? ?] ?].
Qed.

Lemma replay_err st ms : e_existed e = false -> (replay true e st ms).2 = false.
Proof.
move=> nex; elim: ms st => [|m ms IH] st //=.
case: updP => [oc _|sk s rs g' add gen r' radd rgen _ _ _ _].
- rewrite nex implybF; case: oc => //= _; set X := replay _ _ _ _;
    by have: X.2 = false by [apply: IH]; case: X => [[? ?] ?].
- case: ifP => _; set X := replay _ _ _ _;
    by have: X.2 = false by [apply: IH]; case: X => [[? ?] ?].
Qed.

Lemma inv1_rfold st ms : inv1 st -> inv1 (rfold st ms).
Proof. by elim: ms st => [|m ms IH] st //= inv; apply: IH; apply: inv1_step. Qed.

Lemma sig_keep st m s : inv1 st -> g_sig (st_g st) = Some s -> g_sig (st_g (upd true e st m).1) = Some s.
Proof. by move=> inv; case: (stepP m inv) => [oc _ _ //|sk _ _ -> //|sk _ _ -> //]. Qed.

Lemma sig_keep_fold st ms s : inv1 st -> g_sig (st_g st) = Some s -> g_sig (st_g (rfold st ms)) = Some s.
Proof.
elim: ms st => [|m ms IH] st //= inv E; apply: IH; first exact: inv1_step.
exact: sig_keep.
Qed.

(* ---- the party: runs of baseParty.Update ---- *)
Notation step1 := (fun ps m => (pstep true e ps m).1).

Lemma pstep_st ps m :
  p_st (step1 ps m) = if p_phase ps is Collecting then (upd true e (p_st ps) m).1 else p_st ps.
Proof.
rewrite /party_step; case: (p_phase ps) => //=.
by case: (upd _ _ _ _) => st' [] /=; case: (st_can st').
Qed.

Lemma inv1_pstep ps m : inv1 (p_st ps) -> inv1 (p_st (step1 ps m)).
Proof. by move=> inv; rewrite pstep_st; case: (p_phase ps) => //; apply: inv1_step. Qed.

Lemma inv1_run ms ps : inv1 (p_st ps) -> inv1 (p_st (foldl step1 ps ms)).
Proof. by elim: ms ps => [|m ms IH] ps //= inv; apply: IH; apply: inv1_pstep. Qed.

(* ---- with a group key generated as in C13 ---- *)
Section DKG.
Variables (k : nat) (dealers : seq (seq F)).
Hypothesis dealers_k : all (fun cs => size cs <= k)%N dealers.
Hypothesis k0 : (0 < k)%N.
Hypothesis thrE : e_thr e = k.
Hypothesis memE : forall id sk, look id (e_members e) = Some sk -> sk = member_key (fops F) dealers id.
Hypothesis gskE : e_gsk e = group_secret (fops F) dealers.
Hypothesis sel_ok : forall m : seq (F * F), (k <= size m)%N ->
  [/\ uniq (sel m), all (fun i => i < size m)%N (sel m) & (k <= size (sel m))%N].
Let gsk := e_gsk e.

Lemma rec_ok h (m : seq (F * F)) :
  uniq (map fst m) -> valid_map h m -> (k <= size m)%N -> rec_of m = gsk * h.
Proof.
move=> um vm km; have [us als ks] := sel_ok km.
have -> : rec_of m = recover_sel (fops F) (sel m) (map fst m)
                       (map (fun z => member_key (fops F) dealers z * h) (map fst m)).
  rewrite /rec_of -map_comp; congr (recover_sel _ _ _ _); apply/eq_in_map => [[id s]] /vm [sk lk [-> _]] /=.
  by rewrite (memE lk).
rewrite /gsk gskE; apply: (@dkg_recover_sel F k) => //.
by rewrite size_map.
Qed.

Definition inv2 (st : rstate) : Prop :=
  [/\ inv1 st,
      (forall s, g_sig (st_g st) = Some s -> s = gsk * hb) /\ (forall s, g_sig (st_r st) = Some s -> s = gsk * hp),
      g_sig (st_g st) = None -> (size (g_map (st_g st)) < k)%N,
      st_can st = isSome (g_sig (st_g st)) &
      st_can st -> st_hdr st = Some (gsk * hb, gsk * hp)].

Lemma inv2_init : inv2 (r_init e).
Proof. by split. Qed.

Lemma inv2_step st m : inv2 st -> inv2 (upd true e st m).1.
Proof.
case=> inv [sg sr] szk canE hdr; have inv' := inv1_step m inv.
case: (stepP m inv) inv' => [//|sk ps idn Eg Er sz|sk ps idn Eg Er sz] /= inv'; split=> //=.
- by move=> _; rewrite /gm' size_cat /= addn1 -thrE.
- by rewrite canE Eg.
- have [_ ug' idE' _ [vg' vr']] := inv'.
  have szr : (k <= size (rm' st m sk))%N.
    by rewrite -thrE -(size_map fst) -idE' /= size_map size_cat /= addn1.
  split=> s [<-]; apply: rec_ok => //; first by rewrite /gm' size_cat /= addn1 -thrE.
  by rewrite -idE'.
- have [_ ug' idE' _ [vg' vr']] := inv'.
  have szr : (k <= size (rm' st m sk))%N.
    by rewrite -thrE -(size_map fst) -idE' /= size_map size_cat /= addn1.
  move=> _; congr (Some (_, _)); apply: rec_ok => //; first by rewrite /gm' size_cat /= addn1 -thrE.
  by rewrite -idE'.
Qed.

Definition pinv (ps : pstate) : Prop :=
  inv2 (p_st ps) /\
  match p_phase ps with
  | Collecting => st_can (p_st ps) = false
  | Finished => st_hdr (p_st ps) = Some (gsk * hb, gsk * hp)
  | Closed => True
  end.

Lemma pinv_init : pinv (p_init e).
Proof. by split; first exact: inv2_init. Qed.

Lemma pinv_step ps m : pinv ps -> pinv (step1 ps m).
Proof.
case=> inv ph; split; first by rewrite pstep_st; case: (p_phase ps) => //; apply: inv2_step.
move: ph; rewrite /party_step; case E: (p_phase ps) => //= can; try by rewrite E.
have := inv2_step m inv; case: (upd _ _ _ _) => st' oc /= [_ _ _ _ hdr].
by case: oc => //=; case c: (st_can st') hdr => //= hdr; case: (fin e st') => //=; apply: hdr.
Qed.

Lemma pinv_run ms ps : pinv ps -> pinv (foldl step1 ps ms).
Proof. by elim: ms ps => [|m ms IH] ps //= inv; apply: IH; apply: pinv_step. Qed.

Lemma inv2_rfold st ms : inv2 st -> inv2 (rfold st ms).
Proof. by elim: ms st => [|m ms IH] st //= inv; apply: IH; apply: inv2_step. Qed.

Lemma pstart_st fut : p_st (pstart true e fut).1.1 = rfold (r_init e) fut.
Proof.
rewrite /party_start -replay_stE; case: (replay _ _ _ _) => [[st l] err] /=.
by case: err => //; case: (st_can st).
Qed.

Lemma pstart_pinv fut : pinv (pstart true e fut).1.1.
Proof.
split; first by rewrite pstart_st; apply: inv2_rfold; apply: inv2_init.
have := inv2_rfold fut inv2_init; rewrite -replay_stE /party_start.
case: (replay _ _ _ _) => [[st l] err] /= [_ _ _ _ hdr].
case: err => //; case c: (st_can st) hdr => //= hdr.
by case: (fin e st) => //=; apply: hdr.
Qed.

(* ---- liveness: k members' valid messages are enough, whatever else arrives ---- *)

(* a verify message carrying the sender's valid share for this block and for the beacon *)
Definition honestb (m : msg) : bool :=
  [&& m_dh m == e_bh e, m_sender m != 0 &
      if look (m_sender m) (e_members e) is Some sk
      then vfy sk (e_bh e) (m_sig m) && vfy sk (e_pr e) (m_rsig m) else false].

Hypothesis notex : e_existed e = false.
Hypothesis nz : [/\ gsk != 0, hb != 0 & hp != 0].

Lemma fin_done st : st_hdr st = Some (gsk * hb, gsk * hp) -> fin e st = TDone.
Proof.
rewrite /finalize notex => ->; have [g0 b0 p0] := nz.
by rewrite /verify /= !mulf_neq0 // g0 !eqxx.
Qed.

Lemma upd_not_existed st m : inv1 st -> ~~ is_existed (upd true e st m).2.
Proof. by move=> inv; case: (stepP m inv) => [oc _|//|//]; rewrite notex implybF. Qed.

Lemma phase_coll ps m : p_phase (step1 ps m) = Collecting -> p_phase ps = Collecting.
Proof. by rewrite /party_step; case E: (p_phase ps) => //=; rewrite E. Qed.

Lemma not_closed ps m : pinv ps -> ~~ closedb (p_phase ps) -> ~~ closedb (p_phase (step1 ps m)).
Proof.
case=> inv ph; rewrite /party_step; case E: (p_phase ps) => //=; last by rewrite E.
have [inv1' _ _ _] := inv.
have := inv2_step m inv; have := upd_not_existed m inv1'.
case: (upd _ _ _ _) => st' oc /= nex [_ _ _ _ hdr] _.
by case: oc nex => //= _; case c: (st_can st') hdr => //= hdr; rewrite fin_done //; apply: hdr.
Qed.

Lemma honest_in st m :
  inv1 st -> g_sig (st_g st) = None -> honestb m -> m_sender m \in ids (st_g (upd true e st m).1).
Proof.
move=> inv Eg /and3P [/eqP dh id0]; case lk: (lookup _ _ _) => [sk|//] /andP [v1 v2].
rewrite /r1_update notex lk dh eqxx /= (negbTE id0) /=.
rewrite -[~~ _]/(~~ vfy sk (e_bh e) (m_sig m)) v1 /=.
case/vfyP: v1 => s [-> _ _ _]; case/vfyP: (v2) => rs [rE _ _ _]; rewrite rE.
rewrite -[~~ _]/(~~ vfy sk (e_pr e) (PVal rs)) -rE v2 /=.
case: gaddP => [s0|_ idin|_ _ _|_ _ _] //=; first by rewrite Eg.
- by case: (gad _ _ _) => [[r' radd] rgen]; case: ifP => _ /=; rewrite map_cat mem_cat inE eqxx orbT.
- by case: (gad _ _ _) => [[r' radd] rgen]; case: ifP => _ /=; rewrite map_cat mem_cat inE eqxx orbT.
Qed.

Lemma live_aux ms ps seen :
  pinv ps -> ~~ closedb (p_phase ps) ->
  (p_phase ps = Collecting -> {subset seen <= ids (st_g (p_st ps))}) ->
  let pf := foldl step1 ps ms in
  ~~ closedb (p_phase pf) /\
  (p_phase pf = Collecting ->
   {subset seen ++ [seq m_sender m | m <- ms & honestb m] <= ids (st_g (p_st pf))}).
Proof.
elim: ms ps seen => [|m ms IH] ps seen inv nc sub /=; first by rewrite cats0.
have inv' := pinv_step m inv; have nc' := not_closed m inv nc.
have sub' : p_phase (step1 ps m) = Collecting ->
    {subset seen ++ (if honestb m then [:: m_sender m] else [::]) <= ids (st_g (p_st (step1 ps m)))}.
  move=> /phase_coll ph; rewrite pstep_st ph.
  have [[inv1' _ _ canE _]] := inv; rewrite ph => can.
  have Eg : g_sig (st_g (p_st ps)) = None by move: canE; rewrite can; case: (g_sig _).
  move=> y; rewrite mem_cat => /orP [/(sub ph)|]; first exact: ids_mono.
  by case: ifP => // hm; rewrite inE => /eqP ->; apply: honest_in.
have := IH _ _ inv' nc' sub'; rewrite -catA.
by case: (honestb m).
Qed.

Lemma rfold_live st ms seen :
  inv1 st -> {subset seen <= ids (st_g st)} -> g_sig (st_g (rfold st ms)) = None ->
  {subset seen ++ [seq m_sender m | m <- ms & honestb m] <= ids (st_g (rfold st ms))}.
Proof.
elim: ms st seen => [|m ms IH] st seen inv sub /= N; first by rewrite cats0.
have Eg : g_sig (st_g st) = None.
  by case E: (g_sig (st_g st)) => [s|] //; rewrite (sig_keep_fold (m :: ms) inv E) in N.
have sub' : {subset seen ++ (if honestb m then [:: m_sender m] else [::]) <= ids (st_g (upd true e st m).1)}.
  move=> y; rewrite mem_cat => /orP [/sub|]; first exact: ids_mono.
  by case: ifP => // hm; rewrite inE => /eqP ->; apply: honest_in.
have := IH _ _ (inv1_step m inv) sub' N; rewrite -catA.
by case: (honestb m).
Qed.

Lemma pstart_open fut : ~~ closedb (p_phase (pstart true e fut).1.1).
Proof.
have := inv2_rfold fut inv2_init; have := replay_err (r_init e) fut notex.
rewrite -replay_stE /party_start; case: (replay _ _ _ _) => [[st l] err] /= -> [_ _ _ _ hdr].
by case c: (st_can st) hdr => //= hdr; rewrite fin_done //; apply: hdr.
Qed.

Lemma pstart_seen fut :
  p_phase (pstart true e fut).1.1 = Collecting ->
  {subset [seq m_sender m | m <- fut & honestb m] <= ids (st_g (p_st (pstart true e fut).1.1))}.
Proof.
move=> ph; have [[_ _ _ canE _]] := pstart_pinv fut; rewrite ph => can.
rewrite pstart_st in canE can *.
have N : g_sig (st_g (rfold (r_init e) fut)) = None by move: canE; rewrite can; case: (g_sig _).
by have := @rfold_live (r_init e) fut [::] inv1_init (fun y => id) N.
Qed.

(* k valid messages of distinct members among those stored before the round started and those
   delivered afterwards: the party finishes with the group signature *)
Theorem live fut ms :
  (k <= size (undup [seq m_sender m | m <- fut ++ ms & honestb m]))%N ->
  let pf := foldl step1 (pstart true e fut).1.1 ms in
  p_phase pf = Finished /\ st_hdr (p_st pf) = Some (gsk * hb, gsk * hp).
Proof.
move=> kh /=; set ps0 := (pstart true e fut).1.1; set pf := foldl step1 ps0 ms.
have [inv2f phh] : pinv pf := pinv_run ms (pstart_pinv fut).
have [nc sub] := @live_aux ms ps0 _ (pstart_pinv fut) (pstart_open fut) (@pstart_seen fut).
rewrite -/pf -map_cat -filter_cat in nc sub.
case ph: (p_phase pf) phh nc sub => //= can _ sub.
have [inv1' _ szk canE _] := inv2f.
have Eg : g_sig (st_g (p_st pf)) = None by move: canE; rewrite can; case: (g_sig _).
have le : (size (undup [seq m_sender m | m <- fut ++ ms & honestb m]) <= size (ids (st_g (p_st pf))))%N.
  by apply: uniq_leq_size (undup_uniq _) _ => y; rewrite mem_undup; apply: sub.
rewrite size_map in le.
by have := leq_ltn_trans (leq_trans kh le) (szk Eg); rewrite ltnn.
Qed.

Lemma open_end fut ms : ~~ closedb (p_phase (foldl step1 (pstart true e fut).1.1 ms)).
Proof.
by have [] := @live_aux ms _ _ (pstart_pinv fut) (pstart_open fut) (@pstart_seen fut).
Qed.

End DKG.

End Step.

(* ---- statements on [party_final_from] (List.fold_left) for Props.v ---- *)
Lemma pfinalE b e ms : pfinal b e ms = foldl (fun ps m => (pstep b e ps m).1) (p_init e) ms.
Proof. by rewrite /party_final fold_leftE. Qed.

Lemma pfinal_fromE b e fut ms :
  pfinal_from b e fut ms = foldl (fun ps m => (pstep b e ps m).1) (pstart b e fut).1.1 ms.
Proof. by rewrite /party_final_from fold_leftE. Qed.

Lemma pfinal_from_nil b e ms : pfinal_from b e [::] ms = pfinal b e ms.
Proof. by []. Qed.

Theorem set_valid e fut ms :
  let st := p_st (pfinal_from true e fut ms) in
  [/\ uniq (ids (st_g st)), ids (st_g st) = ids (st_r st),
      forall id s, (id, s) \in g_map (st_g st) ->
        exists2 sk, look id (e_members e) = Some sk & s = sk * H (e_bh e) /\ s != 0 &
      forall id s, (id, s) \in g_map (st_r st) ->
        exists2 sk, look id (e_members e) = Some sk & s = sk * H (e_pr e) /\ s != 0].
Proof.
rewrite pfinal_fromE /=.
have i0 : inv1 e (p_st (pstart true e fut).1.1).
  rewrite /party_start; have := inv1_rfold fut (inv1_init e); rewrite -replay_stE.
  by case: (replay _ _ _ _) => [[st l] err] /=; case: err => //; case: (st_can st).
by have [_ u i _ [vg vr]] := inv1_run ms i0.
Qed.

Section Final.
Variables (e : env) (k : nat) (dealers : seq (seq F)).
Hypothesis dealers_k : all (fun cs => size cs <= k)%N dealers.
Hypothesis k0 : (0 < k)%N.
Hypothesis thrE : e_thr e = k.
Hypothesis memE : forall id sk, look id (e_members e) = Some sk -> sk = member_key (fops F) dealers id.
Hypothesis gskE : e_gsk e = group_secret (fops F) dealers.
Hypothesis sel_ok : forall m : seq (F * F), (k <= size m)%N ->
  [/\ uniq (sel m), all (fun i => i < size m)%N (sel m) & (k <= size (sel m))%N].

Theorem recovered_verifies fut ms :
  let st := p_st (pfinal_from true e fut ms) in
  [/\ forall s, g_sig (st_g st) = Some s -> s = e_gsk e * H (e_bh e),
      forall s, g_sig (st_r st) = Some s -> s = e_gsk e * H (e_pr e),
      forall a b, st_hdr st = Some (a, b) -> st_can st -> a = e_gsk e * H (e_bh e) /\ b = e_gsk e * H (e_pr e) &
      g_sig (st_g st) = None -> (size (g_map (st_g st)) < k)%N].
Proof.
rewrite pfinal_fromE /=.
have [[_ [sg sr] szk _ hdr] _] :=
  pinv_run dealers_k thrE memE gskE sel_ok ms (pstart_pinv dealers_k k0 thrE memE gskE sel_ok fut).
by split=> // a b E /hdr; rewrite E => [[-> ->]].
Qed.

Hypothesis notex : e_existed e = false.
Hypothesis nz : [/\ e_gsk e != 0, H (e_bh e) != 0 & H (e_pr e) != 0].

Theorem no_error_end fut ms : p_phase (pfinal_from true e fut ms) <> Closed.
Proof.
rewrite pfinal_fromE => E.
by have := open_end dealers_k k0 thrE memE gskE sel_ok notex nz fut ms; rewrite E.
Qed.

Theorem one_faulty_cannot_block fut ms :
  (k <= size (undup [seq m_sender m | m <- fut ++ ms & honestb e m]))%N ->
  p_phase (pfinal_from true e fut ms) = Finished /\
  st_hdr (p_st (pfinal_from true e fut ms)) = Some (e_gsk e * H (e_bh e), e_gsk e * H (e_pr e)).
Proof. by move=> kh; rewrite pfinal_fromE; exact: (live dealers_k k0 thrE memE gskE sel_ok notex nz kh). Qed.

End Final.

(* ---- the handler without the comparison behaves the same on messages that claim the block hash ---- *)
Lemma nobind_upd e st m : m_dh m = e_bh e -> upd false e st m = upd true e st m.
Proof. by move=> dh; rewrite /r1_update dh eqxx. Qed.

Lemma nobind_step e ps m : m_dh m = e_bh e -> pstep false e ps m = pstep true e ps m.
Proof. by move=> dh; rewrite /party_step nobind_upd. Qed.

Theorem nobind_guarded e ms :
  all (fun m => m_dh m == e_bh e) ms -> pfinal false e ms = pfinal true e ms.
Proof.
rewrite !pfinalE; elim: ms (p_init e) => [|m ms IH] ps //= /andP [/eqP dh al].
by rewrite nobind_step // IH.
Qed.

End Field.
