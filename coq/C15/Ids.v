(* C15 — message ids inside a party (CanAccept / StoreMessage / round1.Start): the run with ids reduces
   to a run of the signing round, and k honest members cannot be blocked as long as no faulty message
   carries the id of an honest one (the id is a hash of the raw bytes). *)
From mathcomp Require Import all_ssreflect all_algebra.
From V.C13 Require Import Model Proofs.
From V.C15 Require Import Model Proofs.
Set Implicit Arguments. Unset Strict Implicit. Unset Printing Implicit Defensive.
Import GRing.Theory.
Local Open Scope ring_scope.

Arguments ip_ps {T I} i.
Arguments ip_processed {T I} i.
Arguments IParty {T I}.

Section IdsF.
Variables (F : fieldType) (M : eqType) (H : M -> F) (sel : seq (F * F) -> seq nat).
Variable I : eqType.
Notation z0 := (fun x : F => x == 0).
Notation msg := (@msg F M).
Notation imsg := (I * msg)%type.
Variable ford : seq imsg -> seq imsg.
Variable e : @env F M.

Notation pstep1 := (fun ps m => (@party_step F M (fops F) eq_op eq_op z0 z0 eq_op H sel true e ps m).1).
Notation pfrom := (@party_final_from F M (fops F) eq_op eq_op z0 z0 eq_op H sel true e).
Notation pstart := (@party_start F M (fops F) eq_op eq_op z0 z0 eq_op H sel true e).
Notation istoref := (@istore F M I eq_op).
Notation istartf := (@istart F M (fops F) eq_op eq_op z0 z0 eq_op H sel I ford true e).
Notation istepf := (@istep F M (fops F) eq_op eq_op z0 z0 eq_op H sel I eq_op true e).
Notation irunf := (@irun F M (fops F) eq_op eq_op z0 z0 eq_op H sel I eq_op true e).
Notation ifin := (@ifinal F M (fops F) eq_op eq_op z0 z0 eq_op H sel I eq_op ford true e).

Lemma imemE (i : I) l : @imem I eq_op i l = (i \in l).
Proof. by elim: l => [|a l IH] //=; rewrite IH inE. Qed.

Definition stored_of (deliv : seq imsg) : seq imsg := (istoref [::] deliv).1.
Definition start_of (deliv : seq imsg) := (istartf (stored_of deliv)).1.1.

Lemma pstep_ended ps m : (if p_phase ps is Collecting then false else true) -> pstep1 ps m = ps.
Proof. by rewrite /party_step; case: ps => [[] st]. Qed.

Lemma irun_ps ip (ms : seq imsg) :
  ip_ps (irunf ip ms).1 =
  foldl pstep1 (ip_ps ip) (map snd (filter (fun im => im.1 \notin ip_processed ip) ms)).
Proof.
elim: ms ip => [|[i m] ms IH] ip //=.
rewrite /istep /= imemE; case ph: (p_phase (ip_ps ip)) => /=.
- case: ifP => [_|_] /=; first by case: (irunf _ _) (IH ip) => ipf l /= ->.
  case: (party_step _ _ _ _ _ _ _ _ _ _ _ _) => ps' o /=.
  by case: (irunf _ _) (IH (IParty ps' (ip_processed ip))) => ipf l /= ->.
- have E : pstep1 (ip_ps ip) m = ip_ps ip by apply: pstep_ended; rewrite ph.
  case: (party_step _ _ _ _ _ _ _ _ _ _ _ _) E => ps' o /= ->.
  case: (irunf _ _) (IH (IParty (ip_ps ip) (ip_processed ip))) => ipf l /= ->.
  by case: ifP => //= _; rewrite pstep_ended // ph.
- have E : pstep1 (ip_ps ip) m = ip_ps ip by apply: pstep_ended; rewrite ph.
  case: (party_step _ _ _ _ _ _ _ _ _ _ _ _) E => ps' o /= ->.
  case: (irunf _ _) (IH (IParty (ip_ps ip) (ip_processed ip))) => ipf l /= ->.
  by case: ifP => //= _; rewrite pstep_ended // ph.
Qed.

(* the run with ids is a run of the round on the stored messages (once per id, in replay order) and the
   later messages whose id was not among them *)
Theorem id_reduce (deliv ms : seq imsg) :
  ifin deliv ms =
  pfrom (map snd (ford (stored_of deliv)))
        (map snd (filter (fun im => im.1 \notin ip_processed (start_of deliv)) ms)).
Proof.
rewrite /ifinal irun_ps /party_final_from fold_leftE /start_of /stored_of /istart.
by case: (pstart _) => [[ps l] t].
Qed.

(* ---- list facts without decidable equality on messages ---- *)
Lemma In_has (A : Type) (p : A -> bool) (x : A) l : List.In x l -> p x -> has p l.
Proof. by elim: l => [|a l IH] //= [->|/IH h] px; rewrite ?px ?h ?orbT. Qed.

Lemma has_In (A : Type) (p : A -> bool) l : has p l -> exists2 x, List.In x l & p x.
Proof.
elim: l => [|a l IH] //= /orP [pa|/IH [x xin px]]; first by exists a => //; left.
by exists x => //; right.
Qed.

Lemma all_In (A : Type) (p : A -> bool) l x : all p l -> List.In x l -> p x.
Proof. by elim: l => [|a l IH] //= /andP [pa al] [<-|/(IH al)]. Qed.

Lemma In_map_inv (A B : Type) (f : A -> B) l y : List.In y (map f l) -> exists2 x, List.In x l & y = f x.
Proof.
elim: l => [|a l IH] //= [<-|/IH [x xin ->]]; first by exists a => //; left.
by exists x => //; right.
Qed.

Lemma In_map_mem (A : Type) (B : eqType) (f : A -> B) l x : List.In x l -> f x \in map f l.
Proof. by elim: l => [|a l IH] //= [->|/IH h]; rewrite inE ?eqxx ?h ?orbT. Qed.

Lemma mem_In (A : eqType) (x : A) l : x \in l -> List.In x l.
Proof. by elim: l => [|a l IH] //=; rewrite inE => /orP [/eqP ->|/IH]; [left|right]. Qed.

Lemma mem_fst (A : Type) (l : seq (I * A)) (i : I) : (i \in map fst l) = has (fun im => im.1 == i) l.
Proof. by elim: l => [|a l IH] //=; rewrite inE IH eq_sym. Qed.

Lemma mem_senders' (p : msg -> bool) (l : seq msg) (x : F) :
  (x \in [seq m_sender m | m <- l & p m]) = has (fun m => p m && (m_sender m == x)) l.
Proof. by elim: l => [|m l IH] //=; case: (p m) => //=; rewrite inE IH eq_sym. Qed.

Lemma In_filter (A : Type) (q : A -> bool) l x : List.In x l -> q x -> List.In x (filter q l).
Proof. by elim: l => [|a l IH] //= [->|/IH h] qx; [rewrite qx; left | case: ifP => _; [right|]; apply: h]. Qed.

Lemma In_cat (A : Type) (x : A) l1 l2 : List.In x (l1 ++ l2) <-> List.In x l1 \/ List.In x l2.
Proof. by rewrite -appE; apply: List.in_app_iff. Qed.

Lemma istore_sub (acc deliv : seq imsg) x :
  List.In x (istoref acc deliv).1 -> List.In x acc \/ List.In x deliv.
Proof.
elim: deliv acc => [|im deliv IH] acc /=; first by left.
rewrite imemE; case: ifP => _.
- by case: (istoref acc deliv) (IH acc) => a l /= h /h [?|?]; [left|right; right].
- case: (istoref _ deliv) (IH (List.app acc [:: im])) => a l /= h /h [/List.in_app_iff [?|[<-|//]]|?];
    by [left|right; left|right; right].
Qed.

Lemma istore_ids (acc deliv : seq imsg) :
  {subset map fst acc ++ map fst deliv <= map fst (istoref acc deliv).1}.
Proof.
elim: deliv acc => [|im deliv IH] acc y /=; first by rewrite cats0.
rewrite imemE; case: ifP => [iin|_].
- have := IH acc y; case: (istoref acc deliv) => a l /= h yin; apply: h; move: yin.
  by rewrite !mem_cat inE => /or3P [->|/eqP ->|->] //; rewrite ?iin ?orbT.
- have := IH (List.app acc [:: im]) y; case: (istoref _ deliv) => a l /= h yin; apply: h.
  by rewrite appE map_cat -catA.
Qed.

Section Live.
Variables (k : nat) (dealers : seq (seq F)).
Hypothesis dealers_k : all (fun cs => size cs <= k)%N dealers.
Hypothesis k0 : (0 < k)%N.
Hypothesis thrE : e_thr e = k.
Hypothesis memE : forall id sk, lookup eq_op id (e_members e) = Some sk -> sk = member_key (fops F) dealers id.
Hypothesis gskE : e_gsk e = group_secret (fops F) dealers.
Hypothesis sel_ok : forall m : seq (F * F), (k <= size m)%N ->
  [/\ uniq (sel m), all (fun i => i < size m)%N (sel m) & (k <= size (sel m))%N].
Hypothesis notex : e_existed e = false.
Hypothesis nz : [/\ e_gsk e != 0, H (e_bh e) != 0 & H (e_pr e) != 0].
(* the replay order is a permutation of the stored messages *)
Hypothesis ford_perm : forall (p : imsg -> bool) l, count p (ford l) = count p l.
(* the id of a message: a function of the message (the hash of its bytes) *)
Variable idf : msg -> I.
Notation tag := (fun m : msg => (idf m, m)).
Notation hon := (honestb H e).

(* no message of the run carries the id of an honest member's valid message unless it is such a
   message of the same member (no hash collision on those byte strings) *)
Definition no_collision (run : seq msg) : bool :=
  all (fun h => hon h ==> all (fun m => (idf m == idf h) ==> (hon m && (m_sender m == m_sender h))) run) run.

Lemma start_not_existed fut : (pstart fut).2 <> TErrExisted.
Proof.
rewrite /party_start; have := replay_err H sel (r_init e) fut notex.
case: (r1_replay _ _ _ _ _ _ _ _ _ _ _ _) => [[st l] err] /= ->.
by case: (st_can st) => //; rewrite /finalize notex; case: (st_hdr st) => [[a b]|] //;
  case: (verify _ _ _ _ _ _ _) => //; case: (verify _ _ _ _ _ _ _).
Qed.

Theorem id_live (deliv ms : seq msg) :
  no_collision (deliv ++ ms) ->
  (k <= size (undup [seq m_sender m | m <- deliv ++ ms & hon m]))%N ->
  let pf := ifin (map tag deliv) (map tag ms) in
  p_phase pf = Finished /\ st_hdr (p_st pf) = Some (e_gsk e * H (e_bh e), e_gsk e * H (e_pr e)).
Proof.
move=> nc kh /=; rewrite id_reduce.
set stored := stored_of (map tag deliv); set P := ip_processed _.
apply: (one_faulty_cannot_block dealers_k k0 thrE memE gskE sel_ok notex nz).
apply: leq_trans kh _; apply: uniq_leq_size (undup_uniq _) _ => x.
rewrite !mem_undup !mem_senders' => hx.
pose px := fun m : msg => hon m && (m_sender m == x).
(* every stored entry is a tagged message of the run *)
have stored_run im : List.In im stored -> im.1 = idf im.2 /\ List.In im.2 (deliv ++ ms).
  rewrite /stored /stored_of => imin; have [//|imd] := istore_sub imin.
  have [m min E] := In_map_inv imd; rewrite E /=; split=> //.
  by apply/In_cat; left.
(* an honest message of the run whose id is stored is represented among the replayed ones *)
have via_store h : List.In h (deliv ++ ms) -> px h -> idf h \in map fst stored ->
    has px (map snd (ford stored)).
  move=> hin /andP [hh /eqP sx]; rewrite mem_fst => /has_In [im imIn /eqP idE].
  have [tagE mrun] := stored_run _ imIn.
  have H1 := all_In nc hin; rewrite hh /= in H1; have := all_In H1 mrun.
  rewrite -tagE idE eqxx /= sx => pim.
  by rewrite has_map has_count ford_perm -has_count; apply: (In_has imIn).
have PE : P = map fst (ford stored).
  rewrite /P /start_of /istart -/stored; have := @start_not_existed (map snd (ford stored)).
  by case: (pstart _) => [[ps l] t] /=; case: t.
have [h hin ph] := has_In hx.
rewrite has_cat; case/In_cat: (hin) => hd.
- apply/orP; left; apply: via_store ph _ => //.
  apply: istore_ids; rewrite /= -map_comp; exact: (@In_map_mem _ _ idf _ _ hd).
- case pin: (idf h \in P).
  + apply/orP; left; apply: via_store ph _ => //.
    by move: pin; rewrite PE !mem_fst !has_count ford_perm.
  + apply/orP; right; rewrite has_map.
    have tin : List.In (tag h) (map tag ms) by rewrite -mapE; apply: List.in_map.
    by apply: (In_has (In_filter tin _)); rewrite /= ?pin.
Qed.

End Live.

End IdsF.
