(* C15 — the handler as found (no comparison of the signed data hash with the block hash) violates
   the property: concrete run of the model over Z mod 101.  Group of 3, threshold 2, key polynomial
   5 + 3x, members 1,2,3 with keys 8,11,14, group secret 5; logarithms of H(block hash), H(previous
   beacon), H(other hash) = 7, 9, 4.  Member 1 sends its well-formed share over the other hash and
   says so; members 2 and 3 are honest. *)
From Coq Require Import ZArith List Bool.
From V.C13 Require Import Model.
From V.C15 Require Import Model.
Import ListNotations.
Local Open Scope Z_scope.

Definition rq : Z := 101.
Definition rhs : list Z := [7; 9; 4].
Definition renv : @env Z nat := Env 0%nat 1%nat [(1, 8); (2, 11); (3, 14)] 2 false 5.
Definition faulty1 : @msg Z nat := Msg 1 2%nat (PVal (8 * 4)) (PVal (8 * 9)).
Definition honest2 : @msg Z nat := Msg 2 0%nat (PVal (11 * 7)) (PVal (11 * 9)).
Definition honest3 : @msg Z nat := Msg 3 0%nat (PVal (14 * 7)) (PVal (14 * 9)).
Definition rmsgs := [faulty1; honest2; honest3].

Definition zfinal (bind : bool) :=
  party_final (zq rq) Z.eqb (zveq rq) (Z.eqb 0) (zvz rq) Nat.eqb (zH rhs) zsel bind renv rmsgs.

(* without the comparison: the share over the other hash is admitted, the recovered signature is not
   the group signature on the block hash, the finalizer ends the party with an error although two =
   threshold honest shares were delivered *)
Lemma refuted_run :
  g_map (st_g (p_st (zfinal false))) = [(1, 32); (2, 77)] /\
  zveq rq 32 (8 * zH rhs 0) = false /\
  g_sig (st_g (p_st (zfinal false))) = Some 88 /\ zveq rq 88 (5 * zH rhs 0) = false /\
  p_phase (zfinal false) = Closed /\
  snd (zparty_run rq rhs false renv rmsgs) = [(OAdded, TNone); (ORecovered, TErrG); (OClosed, TNone)].
Proof. vm_compute. repeat split. Qed.

(* with the comparison the same messages end with the valid group signature 5 * 7 *)
Lemma repaired_run :
  g_map (st_g (p_st (zfinal true))) = [(2, 77); (3, 98)] /\
  st_hdr (p_st (zfinal true)) = Some (35, 45) /\ (5 * zH rhs 0 = 35) /\ (5 * zH rhs 1 = 45) /\
  p_phase (zfinal true) = Finished /\
  snd (zparty_run rq rhs true renv rmsgs) = [(OHashMismatch, TNone); (OAdded, TNone); (ORecovered, TDone)].
Proof. vm_compute. repeat split. Qed.

(* The repaired round takes "the sender has a registered sign key" for membership.  The node fills
   that table from self-signed SignPubKeyMessages (group_create.OnMessageSignPK) without checking that
   the sender is a group member or that the key is the member's; the first key received for an id
   stays.  Same group as above (members 1,2,3; threshold 2; group secret 5), handler WITH the hash
   comparison.
   (a) id 4 is not a member but has registered key 50: its share is admitted and counted, the
       recovered value 6 is not the group signature 35, the party ends with an error although the two
       honest members 2 and 3 delivered (member 3's message finds no party).
   (b) key 60 was registered under member 2's id before member 2's own key arrived: the squatter's
       share under id 2 is admitted, member 2's valid share is rejected as a bad signature, the
       recovered value is garbage again. *)
Definition renv_outsider : @env Z nat := Env 0%nat 1%nat [(1, 8); (2, 11); (3, 14); (4, 50)] 2 false 5.
Definition outsider4 : @msg Z nat := Msg 4 0%nat (PVal (50 * 7)) (PVal (50 * 9)).
Definition renv_squat : @env Z nat := Env 0%nat 1%nat [(1, 8); (2, 60); (3, 14)] 2 false 5.
Definition squatter2 : @msg Z nat := Msg 2 0%nat (PVal (60 * 7)) (PVal (60 * 9)).

Definition zrun (e : @env Z nat) (ms : list (@msg Z nat)) := zparty_run rq rhs true e ms.

Lemma registered_key_run :
  (* (a) *)
  g_map (st_g (p_st (fst (zrun renv_outsider [outsider4; honest2; honest3])))) = [(4, 350); (2, 77)] /\
  g_sig (st_g (p_st (fst (zrun renv_outsider [outsider4; honest2; honest3])))) = Some 6 /\
  zveq rq 6 (5 * zH rhs 0) = false /\
  snd (zrun renv_outsider [outsider4; honest2; honest3]) =
    [(OAdded, TNone); (ORecovered, TErrG); (OClosed, TNone)] /\
  (* (b) *)
  snd (zrun renv_squat [squatter2; honest2; honest3]) =
    [(OAdded, TNone); (OBadSign, TNone); (ORecovered, TErrG)] /\
  g_map (st_g (p_st (fst (zrun renv_squat [squatter2; honest2; honest3])))) = [(2, 420); (3, 98)] /\
  zveq rq 420 (11 * zH rhs 0) = false.
Proof. vm_compute. repeat split. Qed.

(* From message arrival (Processor level, same group): the honest shares of members 2 and 3 arrive
   before the cast message and are kept in the future-message cache.  (a) undisturbed, the accepted
   cast message hands them over and the block finalises; (b) if the cache drops the block's entry in
   between (it is an LRU over 50 block hashes and stores unauthenticated messages under whatever hash
   they name: 50 junk verify messages do it; confirmed on the node, known finding
   C15/future-store:evicted-by-flood), the party is created with nothing to hand over and stays in
   the collecting phase with an empty recovery set although a threshold of valid shares had arrived;
   (c) the 10 s timer ends a party that is still collecting. *)
Definition zproc (evs : list (@event Z nat)) :=
  proc_run (zq rq) Z.eqb (zveq rq) (Z.eqb 0) (zvz rq) Nat.eqb (zH rhs) zsel (fun l => l) true renv evs.

Definition phase_of (p : @proc Z nat) : option phase := option_map (@p_phase Z) (pr_party p).
Definition count_of (p : @proc Z nat) : option nat :=
  option_map (fun ps => length (g_map (st_g (p_st ps)))) (pr_party p).

Lemma store_evicted_run :
  phase_of (zproc [EvVerify 0%nat honest2; EvVerify 0%nat honest3; EvCast true]) = Some Finished /\
  phase_of (zproc [EvVerify 0%nat honest2; EvVerify 0%nat honest3; EvEvict; EvCast true]) = Some Collecting /\
  count_of (zproc [EvVerify 0%nat honest2; EvVerify 0%nat honest3; EvEvict; EvCast true]) = Some 0%nat /\
  phase_of (zproc [EvCast true; EvVerify 0%nat honest2; EvTimeout; EvVerify 0%nat honest3]) = Some Closed.
Proof. vm_compute. repeat split. Qed.

(* Message ids inside a party (same group, handler with the hash comparison).  While round0 is still
   checking, the party stores verify messages by id; round1.Start replays them and marks their ids
   processed whether or not they verified.  If the id depends only on unauthenticated fields - here:
   the signer id named in the message - a faulty sender's message naming member 3 (bad share) stored
   first makes member 3's genuine message, which now has the same id, refused unread, both while
   waiting and afterwards: with honest 2 and 3 delivered the block does not finalise.  With ids that
   separate different messages (the hash of the bytes) it does. *)
Definition spoof3 : @msg Z nat := Msg 3 0%nat (PVal 1) (PVal 1).
Definition zifinal (deliv ms : list (nat * @msg Z nat)) :=
  ifinal (zq rq) Z.eqb (zveq rq) (Z.eqb 0) (zvz rq) Nat.eqb (zH rhs) zsel nat Nat.eqb (fun l => l) true renv deliv ms.
Definition id_by_sender (m : @msg Z nat) : nat := Z.to_nat (m_sender m).

Lemma id_spoof_run :
  (* ids = signer id: spoof stored, genuine 3 refused (stored phase or later) *)
  p_phase (zifinal [(3, spoof3); (3, honest3)]%nat [(2, honest2)]%nat) = Collecting /\
  p_phase (zifinal [(3, spoof3)]%nat [(2, honest2); (3, honest3)]%nat) = Collecting /\
  (* ids that separate the spoofed from the genuine message *)
  p_phase (zifinal [(7, spoof3); (3, honest3)]%nat [(2, honest2)]%nat) = Finished /\
  p_phase (zifinal [(7, spoof3)]%nat [(2, honest2); (3, honest3)]%nat) = Finished.
Proof. vm_compute. repeat split. Qed.

(* Two groups (Z mod 101).  Group B = the group above (members 1,2,3, threshold 2).  In group A the
   verifier has no sign key for member 3.  A verify message forged in member 3's name about a block of
   group A makes A's lookup fail (and the node send a key request).  With the node's lookup, keyed by
   (group, member), B's round is untouched and finalises on the shares of 2 and 3.  With a lookup that
   also consults the miner-keyed "request pending" state, member 3's key reads as missing in B as well:
   his valid share is ignored and B cannot finalise. *)
Definition renvA : @env Z nat := Env 0%nat 1%nat [(1, 20); (2, 30)] 2 false 9.
Definition forged3 : @msg Z nat := Msg 3 0%nat (PVal 1) (PVal 1).
Definition ztwo (evs : list (gtag * @msg Z nat)) :=
  two_run (zq rq) Z.eqb (zveq rq) (Z.eqb 0) (zvz rq) Nat.eqb (zH rhs) zsel true renvA renv evs.
Definition zpend (evs : list (gtag * @msg Z nat)) :=
  pend_run (zq rq) Z.eqb (zveq rq) (Z.eqb 0) (zvz rq) Nat.eqb (zH rhs) zsel true renvA renv evs.

Lemma cross_group_run :
  p_phase (snd (ztwo [(GA, forged3); (GB, honest2); (GB, honest3)])) = Finished /\
  p_phase (snd (fst (zpend [(GB, honest2); (GB, honest3)]))) = Finished /\
  p_phase (snd (fst (zpend [(GA, forged3); (GB, honest2); (GB, honest3)]))) = Collecting /\
  length (g_map (st_g (p_st (snd (fst (zpend [(GA, forged3); (GB, honest2); (GB, honest3)])))))) = 1%nat.
Proof. vm_compute. repeat split. Qed.

(* A verifier that remembers (key, signature) pairs it has verified and accepts a remembered pair
   without looking at the message (here: the model instance whose point comparison also accepts the
   remembered value 44 = member 2's share over the earlier block's hash, logarithm 4).  Member 2's old
   share, relabelled with this block's hash, is then admitted: with honest 3 it recovers garbage and
   the party ends in error.  The node's verification (a function of key, message and signature) rejects
   it and the block finalises on the valid shares. *)
Definition stale2 : @msg Z nat := Msg 2 0%nat (PVal (11 * 4)) (PVal (11 * 9)).
Definition zfinal_with (veq : Z -> Z -> bool) (ms : list (@msg Z nat)) :=
  party_final (zq rq) Z.eqb veq (Z.eqb 0) (zvz rq) Nat.eqb (zH rhs) zsel true renv ms.
Definition veq_remembering (a b : Z) : bool := zveq rq a b || (a mod rq =? 44).

Lemma stale_share_run :
  snd (zparty_run rq rhs true renv [stale2; honest3; honest2]) =
    [(OBadSign, TNone); (OAdded, TNone); (ORecovered, TDone)] /\
  g_map (st_g (p_st (zfinal_with veq_remembering [stale2; honest3; honest2]))) = [(2, 44); (3, 98)] /\
  p_phase (zfinal_with veq_remembering [stale2; honest3; honest2]) = Closed.
Proof. vm_compute. repeat split. Qed.
