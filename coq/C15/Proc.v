(* C15 — the path before the signing round (Processor.OnMessageVerify routing by cvm.BlockHash, the
   future-message store, creation of the party by the cast message, hand-over of the kept messages in
   arbitrary order, retirement of an ended party, timeout) reduced to a run of the party model, so that
   the theorems of Proofs.v apply from message arrival. *)
From mathcomp Require Import all_ssreflect all_algebra.
From V.C13 Require Import Model Proofs.
From V.C15 Require Import Model Proofs.
Set Implicit Arguments. Unset Strict Implicit. Unset Printing Implicit Defensive.
Import GRing.Theory.
Local Open Scope ring_scope.

Section ProcF.
Variables (F : fieldType) (M : eqType) (H : M -> F) (sel : seq (F * F) -> seq nat).
Notation z0 := (fun x : F => x == 0).
Notation msg := (@msg F M).
Notation event := (@event F M).
Variable drain : seq msg -> seq msg.
Variable e : @env F M.

Notation pstep1 := (fun ps m => (@party_step F M (fops F) eq_op eq_op z0 z0 eq_op H sel true e ps m).1).
Notation prstep := (@proc_step F M (fops F) eq_op eq_op z0 z0 eq_op H sel drain true e).
Notation prun := (@proc_run F M (fops F) eq_op eq_op z0 z0 eq_op H sel drain true e).
Notation pfrom := (@party_final_from F M (fops F) eq_op eq_op z0 z0 eq_op H sel true e).
Notation start0 := (@party_start F M (fops F) eq_op eq_op z0 z0 eq_op H sel true e [::]).1.1.

(* the verify messages filed under the block hash *)
Fixpoint hmsgs (evs : seq event) : seq msg :=
  match evs with
  | [::] => [::]
  | EvVerify bh m :: r => if bh == e_bh e then m :: hmsgs r else hmsgs r
  | _ :: r => hmsgs r
  end.
(* ... those that arrive before the first accepted cast message, and those after it *)
Fixpoint pre_of (evs : seq event) : seq msg :=
  match evs with
  | [::] => [::]
  | EvVerify bh m :: r => if bh == e_bh e then m :: pre_of r else pre_of r
  | EvCast true :: _ => [::]
  | _ :: r => pre_of r
  end.
Fixpoint post_of (evs : seq event) : seq msg :=
  match evs with
  | [::] => [::]
  | EvCast true :: r => hmsgs r
  | _ :: r => post_of r
  end.
Definition is_cast (ev : event) : bool := if ev is EvCast true then true else false.
(* no timeout, no eviction from the future-message cache *)
Definition quiet_ev (ev : event) : bool := match ev with EvTimeout | EvEvict => false | _ => true end.

Lemma phaseB ps d st (evs : seq event) : all quiet_ev evs ->
  pr_party (foldl prstep (Proc (Some ps) d st) evs) = Some (foldl pstep1 ps (hmsgs evs)).
Proof.
elim: evs ps d st => [|ev evs IH] ps d st //=; case: ev => [bh m|ok||] //= q.
- by case: (bh == e_bh e) => /=; rewrite IH.
- by rewrite IH.
Qed.

Lemma phaseA st (evs : seq event) : all quiet_ev evs -> has is_cast evs ->
  pr_party (foldl prstep (Proc None false st) evs) =
  Some (foldl pstep1 start0 (drain (st ++ pre_of evs) ++ post_of evs)).
Proof.
elim: evs st => [|ev evs IH] st //=; case: ev => [bh m|[|]||] //= q hc.
- by case: (bh == e_bh e) => /=; rewrite IH // -catA.
- by rewrite phaseB // cats0 foldl_cat fold_leftE.
- by rewrite IH.
Qed.

(* from message arrival: any interleaving of verify messages (of any block) and cast messages in which
   a cast message passes round0's checks, no timeout fires and the store is not evicted, ends in the
   party state of a run of the signing round on the kept messages (in hand-over order) followed by the
   later ones *)
Theorem proc_reduce (evs : seq event) : all quiet_ev evs -> has is_cast evs ->
  pr_party (prun evs) = Some (pfrom [::] (drain (pre_of evs) ++ post_of evs)).
Proof.
by move=> q hc; rewrite /proc_run fold_leftE (phaseA [::] q hc) /party_final_from fold_leftE.
Qed.

Lemma mem_senders (p : msg -> bool) (l : seq msg) (x : F) :
  (x \in [seq m_sender m | m <- l & p m]) = has (fun m => p m && (m_sender m == x)) l.
Proof. by elim: l => [|m l IH] //=; case: (p m) => //=; rewrite inE IH eq_sym. Qed.

Section Live.
Variables (k : nat) (dealers : seq (seq F)).
Hypothesis dealers_k : all (fun cs => size cs <= k)%N dealers.
Hypothesis k0 : (0 < k)%N.
Hypothesis thrE : e_thr e = k.
Hypothesis memE : forall id sk, lookup eq_op id (e_members e) = Some sk -> sk = member_key (fops F) dealers id.
Hypothesis gskE : e_gsk e = group_secret (fops F) dealers.
Hypothesis sel_ok : forall m : seq (F * F), (k <= size m)%N ->
  [/\ uniq (sel m), all (fun i => i < size m)%N (sel m) & (k <= size (sel m))%N].
Hypothesis notex : e_existed e = false.
Hypothesis nz : [/\ e_gsk e != 0, H (e_bh e) != 0 & H (e_pr e) != 0].
(* the kept messages are handed over in some order: a permutation *)
Hypothesis drain_perm : forall (p : msg -> bool) l, count p (drain l) = count p l.

Theorem proc_live (evs : seq event) : all quiet_ev evs -> has is_cast evs ->
  (k <= size (undup [seq m_sender m | m <- pre_of evs ++ post_of evs & honestb H e m]))%N ->
  exists2 pf, pr_party (prun evs) = Some pf &
    p_phase pf = Finished /\ st_hdr (p_st pf) = Some (e_gsk e * H (e_bh e), e_gsk e * H (e_pr e)).
Proof.
move=> q hc kh; exists (pfrom [::] (drain (pre_of evs) ++ post_of evs)); first exact: proc_reduce.
apply: (one_faulty_cannot_block dealers_k k0 thrE memE gskE sel_ok notex nz).
apply: leq_trans kh _; apply: uniq_leq_size (undup_uniq _) _ => x.
rewrite !mem_undup cat0s !mem_senders !has_cat => /orP [hp|->]; last by rewrite orbT.
by rewrite has_count drain_perm -has_count hp.
Qed.

End Live.
End ProcF.
