(* Evaluation of the C15 model (instance Z mod bn256.Order, messages named by table index) on
   harness-written runs of the node's signing round. *)
From Coq Require Import List ZArith NArith Bool.
From V.C13 Require Import Model.
From V.C15 Require Import Model.
Import ListNotations.
Local Open Scope Z_scope.

Definition r := curve_order.

Definition ocode (x : outcome) : N :=
  match x with
  | ONoKey => 0 | OHashMismatch => 1 | OBadSign => 2 | ORandNil => 3 | OBadRand => 4 | ODup => 5
  | OAdded => 6 | ORecovered => 7 | OExisted => 8 | OFinished => 9 | OClosed => 10
  end%N.

Definition tcode (x : term) : N :=
  match x with TNone => 0 | TDone => 1 | TErrG => 2 | TErrR => 3 | TErrExisted => 4 end%N.

Fixpoint obs_eqb (a : list (outcome * term)) (b : list (N * N)) : bool :=
  match a, b with
  | [], [] => true
  | (o1, t1) :: a', (o2, t2) :: b' => (ocode o1 =? o2)%N && (tcode t1 =? t2)%N && obs_eqb a' b'
  | _, _ => false
  end.

Fixpoint zlist_eqb (a b : list Z) : bool :=
  match a, b with
  | [], [] => true
  | x :: a', y :: b' => (x =? y) && zlist_eqb a' b'
  | _, _ => false
  end.

(* one run: member count, threshold the node used, the node's member table (id, sign key), the group
   secret, "block already on the chain", fictional logarithms of the base points (index 0 = block
   hash), index of the previous beacon value, messages (sender, index of the claimed data hash, share,
   beacon share), observed (outcome, party end) per message, senders in the recovery set in order of
   admission, "recovered", recovered block signature and beacon value (as scalars) *)
(* one run: member count, threshold the node used, the node's member table (id, sign key), the group
   secret, "block already on the chain", fictional logarithms of the base points (index 0 = block
   hash), index of the previous beacon value; messages are (message id = number of the byte string,
   sender, index of the claimed data hash, share, beacon share).
   [deliv]: messages handed to the party while round0 was still checking, with the observed "stored"
   flag of each; [rorder]: ids in the order round1.Start replayed them, [robs] the outcome of each,
   [fterm] the party end after the replay; [msgs]/[obs]: later messages with (outcome, party end),
   outcome 11 = refused on its id; senders in the recovery set in order of admission, "recovered",
   recovered block signature and beacon value (as scalars) *)
Definition zmsg := (nat * Z * nat * pt Z * pt Z)%type.
Inductive case :=
| CRun (n : Z) (thr : nat) (members : list (Z * Z)) (gsk : Z) (existed : bool) (hs : list Z) (pr : nat)
       (deliv : list zmsg) (dflags : list bool) (rorder : list nat) (robs : list N) (fterm : N)
       (msgs : list zmsg) (obs : list (N * N)) (admitted : list Z)
       (rec : bool) (gs rs : Z)
  (* classes of the top-level guards of round1.Update in source order, as read from the AST *)
| CGuards (codes : list N).

(* the guards of [r1_update] in the order the model applies them: message type (the model is typed),
   checkBlockExisted, key lookup, data hash = block hash, VerifySign, beacon share nil, beacon share
   verifies, AddWitnessSign refused, both signatures recovered *)
Definition guard_order : list N := [0; 1; 2; 3; 4; 5; 6; 7; 8]%N.

Fixpoint nlist_eqb (a b : list N) : bool :=
  match a, b with
  | [], [] => true
  | x :: a', y :: b' => (x =? y)%N && nlist_eqb a' b'
  | _, _ => false
  end.

Definition mk_imsg (m : zmsg) : nat * @msg Z nat :=
  let '(i, s, d, a, b) := m in (i, Msg s d a b).

(* A signer id longer than 32 bytes makes groupsig.ID.Serialize panic in the handler's first log line;
   the party (baseParty.Update, and round1.Start's replay) recovers, the message is dropped and the
   party goes on.  Such messages are removed before the model runs; their observed outcome must be
   12 = "panic recovered" (or 9/10/11 when the party had ended or the id was already refused). *)
Definition long_id (m : zmsg) : bool := let '(_, s, _, _, _) := m in (2 ^ 256 <=? s).
Definition id_of (m : zmsg) : nat := let '(i, _, _, _, _) := m in i.

Fixpoint drop_long {A : Type} (ms : list zmsg) (obs : list A) (isp : A -> bool)
  : option (list zmsg * list A) :=
  match ms, obs with
  | [], _ => Some ([], obs)
  | m :: ms', o :: obs' =>
      match drop_long ms' obs' isp with
      | Some (ml, ol) => if long_id m then (if isp o then Some (ml, ol) else None) else Some (m :: ml, o :: ol)
      | None => None
      end
  | _ :: _, [] => None
  end.

Fixpoint blist_eqb (a b : list bool) : bool :=
  match a, b with
  | [], [] => true
  | x :: a', y :: b' => Bool.eqb x y && blist_eqb a' b'
  | _, _ => false
  end.

(* the stored entries in the observed replay order *)
Definition reorder (stored : list (nat * @msg Z nat)) (ids : list nat) : list (nat * @msg Z nat) :=
  flat_map (fun i => filter (fun p => Nat.eqb (fst p) i) stored) ids.

Fixpoint iobs_eqb (a : list iout) (b : list (N * N)) : bool :=
  match a, b with
  | [], [] => true
  | IRefused :: a', (o2, t2) :: b' => (o2 =? 11)%N && (t2 =? 0)%N && iobs_eqb a' b'
  | IOut (o1, t1) :: a', (o2, t2) :: b' => (ocode o1 =? o2)%N && (tcode t1 =? t2)%N && iobs_eqb a' b'
  | _, _ => false
  end.

Definition check (c : case) : bool :=
  match c with
  | CRun n thr members gsk existed hs pr deliv0 dflags0 rorder0 robs0 fterm msgs0 obs0 admitted rec gs rs =>
      let longids := map id_of (filter long_id deliv0) in
      let keep_id i := negb (existsb (Nat.eqb i) longids) in
      match drop_long deliv0 dflags0 (fun _ => true),
            drop_long msgs0 obs0 (fun o => ((fst o =? 12) || (fst o =? 9) || (fst o =? 10) || (fst o =? 11))%N && (snd o =? 0)%N) with
      | Some (deliv, dflags), Some (msgs, obs) =>
        (* replayed long-id messages: outcome 12 *)
        let rpairs := combine rorder0 robs0 in
        let rkept := filter (fun p => keep_id (fst p)) rpairs in
        forallb (fun p => keep_id (fst p) || (snd p =? 12)%N) rpairs &&
        let rorder := map fst rkept in let robs := map snd rkept in
        let e := Env 0%nat pr members thr existed gsk in
        let '(stored, flags) := istore nat Nat.eqb [] (map mk_imsg deliv) in
        let fut := reorder stored rorder in
        let '(ip0, l0, t0) :=
          istart (zq r) Z.eqb (zveq r) (Z.eqb 0) (zvz r) Nat.eqb (zH hs) zsel nat (fun _ => fut) true e stored in
        let '(ipf, l) :=
          irun (zq r) Z.eqb (zveq r) (Z.eqb 0) (zvz r) Nat.eqb (zH hs) zsel nat Nat.eqb true e ip0 (map mk_imsg msgs) in
        let st := p_st (ip_ps nat ipf) in
        (group_k n =? Z.of_nat thr)
        && blist_eqb flags dflags
        && (Nat.eqb (length rorder0) (length robs0))
        && (match t0 with
            | TErrExisted => true
            | _ => (length fut =? length stored)%nat && nlist_eqb (map ocode l0) robs
            end)
        && (tcode t0 =? fterm)%N
        && iobs_eqb l obs
        && zlist_eqb (map fst (g_map (st_g st))) admitted
        && zlist_eqb (map fst (g_map (st_r st))) admitted
        && match g_sig (st_g st), g_sig (st_r st) with
           | Some a, Some b => rec && zveq r a gs && zveq r b rs
           | None, None => negb rec
           | _, _ => false
           end
      | _, _ => false
      end
  | CGuards codes => nlist_eqb codes guard_order
  end.
