(* Evaluation of the C15 model (instance Z mod bn256.Order, messages named by table index) on
   harness-written runs of the node's signing round. *)
From Coq Require Import List ZArith NArith Bool.
From V.C13 Require Import Model.
From V.C15 Require Import Model.
Import ListNotations.
Local Open Scope Z_scope.

Definition r := curve_order.

Definition ocode (x : outcome) : N :=
  match x with
  | ONoKey => 0 | OHashMismatch => 1 | OBadSign => 2 | ORandNil => 3 | OBadRand => 4 | ODup => 5
  | OAdded => 6 | ORecovered => 7 | OExisted => 8 | OFinished => 9 | OClosed => 10
  end%N.

Definition tcode (x : term) : N :=
  match x with TNone => 0 | TDone => 1 | TErrG => 2 | TErrR => 3 | TErrExisted => 4 end%N.

Fixpoint obs_eqb (a : list (outcome * term)) (b : list (N * N)) : bool :=
  match a, b with
  | [], [] => true
  | (o1, t1) :: a', (o2, t2) :: b' => (ocode o1 =? o2)%N && (tcode t1 =? t2)%N && obs_eqb a' b'
  | _, _ => false
  end.

Fixpoint zlist_eqb (a b : list Z) : bool :=
  match a, b with
  | [], [] => true
  | x :: a', y :: b' => (x =? y) && zlist_eqb a' b'
  | _, _ => false
  end.

(* one run: member count, threshold the node used, the node's member table (id, sign key), the group
   secret, "block already on the chain", fictional logarithms of the base points (index 0 = block
   hash), index of the previous beacon value, messages (sender, index of the claimed data hash, share,
   beacon share), observed (outcome, party end) per message, senders in the recovery set in order of
   admission, "recovered", recovered block signature and beacon value (as scalars) *)
Inductive case :=
| CRun (n : Z) (thr : nat) (members : list (Z * Z)) (gsk : Z) (existed : bool) (hs : list Z) (pr : nat)
       (* messages replayed by round1.Start in the order the node processed them, outcome of each,
          party end after the replay *)
       (fut : list (Z * nat * pt Z * pt Z)) (fobs : list N) (fterm : N)
       (msgs : list (Z * nat * pt Z * pt Z)) (obs : list (N * N)) (admitted : list Z)
       (rec : bool) (gs rs : Z)
  (* classes of the top-level guards of round1.Update in source order, as read from the AST *)
| CGuards (codes : list N).

(* the guards of [r1_update] in the order the model applies them: message type (the model is typed),
   checkBlockExisted, key lookup, data hash = block hash, VerifySign, beacon share nil, beacon share
   verifies, AddWitnessSign refused, both signatures recovered *)
Definition guard_order : list N := [0; 1; 2; 3; 4; 5; 6; 7; 8]%N.

Fixpoint nlist_eqb (a b : list N) : bool :=
  match a, b with
  | [], [] => true
  | x :: a', y :: b' => (x =? y)%N && nlist_eqb a' b'
  | _, _ => false
  end.

Definition mk_msg (m : Z * nat * pt Z * pt Z) : @msg Z nat :=
  let '(s, d, a, b) := m in Msg s d a b.

(* A signer id longer than 32 bytes makes groupsig.ID.Serialize panic in the handler's first log line;
   baseParty.Update recovers, the message is dropped and the party goes on: such messages (observed
   outcome 12 = "panic recovered", or 9/10 when the party had already ended; no party end) are removed
   before the model runs. *)
Definition long_id (m : Z * nat * pt Z * pt Z) : bool := let '(s, _, _, _) := m in (2 ^ 256 <=? s).

Fixpoint drop_long {A : Type} (ms : list (Z * nat * pt Z * pt Z)) (obs : list A) (isp : A -> bool)
  : option (list (Z * nat * pt Z * pt Z) * list A) :=
  match ms, obs with
  | [], _ => Some ([], obs)
  | m :: ms', o :: obs' =>
      match drop_long ms' obs' isp with
      | Some (ml, ol) => if long_id m then (if isp o then Some (ml, ol) else None) else Some (m :: ml, o :: ol)
      | None => None
      end
  | _ :: _, [] => None
  end.

Definition check (c : case) : bool :=
  match c with
  | CRun n thr members gsk existed hs pr fut fobs fterm msgs0 obs0 admitted rec gs rs =>
      match drop_long msgs0 obs0 (fun o => ((fst o =? 12) || (fst o =? 9) || (fst o =? 10))%N && (snd o =? 0)%N) with
      | None => false
      | Some (msgs, obs) =>
      let e := Env 0%nat pr members thr existed gsk in
      let '(ps0, l0, t0) := zparty_start r hs true e (map mk_msg fut) in
      let '(pf, l) := zparty_run_from r hs true e ps0 (map mk_msg msgs) in
      let st := p_st pf in
      (group_k n =? Z.of_nat thr)
      && nlist_eqb (map ocode l0) fobs && (tcode t0 =? fterm)%N
      && obs_eqb l obs
      && zlist_eqb (map fst (g_map (st_g st))) admitted
      && zlist_eqb (map fst (g_map (st_r st))) admitted
      && match g_sig (st_g st), g_sig (st_r st) with
         | Some a, Some b => rec && zveq r a gs && zveq r b rs
         | None, None => negb rec
         | _, _ => false
         end
      end
  | CGuards codes => nlist_eqb codes guard_order
  end.
