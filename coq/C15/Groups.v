(* C15 — two groups: events concerning group A cannot change the outcome of group B's round. *)
From mathcomp Require Import all_ssreflect.
From V.C13 Require Import Model.
From V.C15 Require Import Model.
Set Implicit Arguments. Unset Strict Implicit. Unset Printing Implicit Defensive.

Section GroupsG.
Variables (T M : Type) (o : ops T) (ideq veq : T -> T -> bool) (isz vz : T -> bool)
          (meq : M -> M -> bool) (H : M -> T) (sel : list (T * T) -> list nat).
Notation two := (@two_run T M o ideq veq isz vz meq H sel).
Notation tstep := (@two_step T M o ideq veq isz vz meq H sel).
Notation pfin := (@party_final T M o ideq veq isz vz meq H sel).
Notation pstep := (@party_step T M o ideq veq isz vz meq H sel).

Lemma two_fold bind eA eB (evs : seq (gtag * @msg T M)) sa sb :
  (List.fold_left (tstep bind eA eB) evs (sa, sb)).2 =
  List.fold_left (fun ps m => fst (pstep bind eB ps m)) (map snd (filter (@is_gb T M) evs)) sb.
Proof.
elim: evs sa sb => [|[g m] evs IH] sa sb //=.
by case: g; rewrite /two_step /is_gb /= IH.
Qed.

(* non-interference: whatever is sent concerning group A, in whatever interleaving, group B's party
   ends exactly as if only B's messages had been delivered *)
Theorem two_group_noninterference bind eA eB (evs : seq (gtag * @msg T M)) :
  (two bind eA eB evs).2 = pfin bind eB (map snd (filter (@is_gb T M) evs)).
Proof. by rewrite /two_run two_fold. Qed.

End GroupsG.
