(* C15 — property theorems only (statements + [exact]); proofs are in Proofs.v and Refute.v.
   Setting: F an arbitrary field (the exponents of the prime-order group G1: a point is its discrete
   logarithm), Msg an arbitrary type of signed messages with decidable equality, H : Msg -> F an
   arbitrary hash-to-group function, VerifySig pk m sigma  <->  sigma = sk * H m, sigma, pk <> identity
   (C14), [sel] an arbitrary choice of the share-map entries used by the recovery.
   [party_final_from bind e fut ms] = state of the signing party after the verify messages [fut] that
   were stored while the proposal was still being checked and are replayed by round1.Start, followed
   by the verify messages [ms] — ANY contents in ANY order (a message is a sender id, a claimed data
   hash, and two arbitrary points or nil); [party_final bind e ms] is the case [fut = nil];
   [bind = true] is the handler with the data-hash comparison (the code as repaired). *)
From Coq Require Import ZArith Znumtheory.
From mathcomp Require Import all_ssreflect all_algebra ssrZ.
From V.Base Require Import PrimeBn256Order PrimeBridge.
From V.C13 Require Import Model Proofs Bridge.
From V.C15 Require Import Model Proofs Refute Bridge Proc Ids R0 Groups.
Import GRing.Theory.
Local Open Scope ring_scope.
Delimit Scope Z_scope with ZZ.

Definition pfinal (F : fieldType) (M : eqType) (H : M -> F) (sel : seq (F * F) -> seq nat) :=
  @party_final F M (fops F) eq_op eq_op (fun x => x == 0) (fun x => x == 0) eq_op H sel.
Definition pfinal_from (F : fieldType) (M : eqType) (H : M -> F) (sel : seq (F * F) -> seq nat) :=
  @party_final_from F M (fops F) eq_op eq_op (fun x => x == 0) (fun x => x == 0) eq_op H sel.
(* the recovery may use any k or more distinct entries of the share map, in any order *)
Definition sel_any (F : Type) (k : nat) (sel : seq (F * F) -> seq nat) : Prop :=
  forall m : seq (F * F), (k <= size m)%N ->
  [/\ uniq (sel m), all (fun i => i < size m)%N (sel m) & (k <= size (sel m))%N].
Arguments sel_any {F} k sel.

(* Whatever is sent, in whatever order: the recovery sets hold at most one entry per sender, the same
   senders in both sets, every sender has a registered sign key in the group, and every entry is that
   sender's valid share for the hash of the block being signed (resp. for the previous beacon value). *)
Theorem C15_set_valid :
  forall (F : fieldType) (M : eqType) (H : M -> F) (sel : seq (F * F) -> seq nat)
         (e : @env F M) (fut ms : seq (@msg F M)),
  let st := p_st (pfinal_from F M H sel true e fut ms) in
  [/\ uniq (map fst (g_map (st_g st))),
      map fst (g_map (st_g st)) = map fst (g_map (st_r st)),
      forall id s, (id, s) \in g_map (st_g st) ->
        exists2 sk, lookup eq_op id (e_members e) = Some sk & s = sk * H (e_bh e) /\ s != 0 &
      forall id s, (id, s) \in g_map (st_r st) ->
        exists2 sk, lookup eq_op id (e_members e) = Some sk & s = sk * H (e_pr e) /\ s != 0].
Proof. exact: set_valid. Qed.
Print Assumptions C15_set_valid.

(* With a group key generated as in C13 (member key = sum of the dealers' polynomials at the member id,
   group secret = sum of the constant coefficients, threshold k): whatever is sent, a recovered block
   signature is the group key's signature on the block hash, a recovered beacon value is the group
   key's signature on the previous beacon value, what the round writes into the header are these two,
   and nothing is recovered before k shares are in. *)
Theorem C15_recovered_verifies :
  forall (F : fieldType) (M : eqType) (H : M -> F) (sel : seq (F * F) -> seq nat)
         (e : @env F M) (k : nat) (dealers : seq (seq F)),
  all (fun cs => size cs <= k)%N dealers -> (0 < k)%N -> e_thr e = k ->
  (forall id sk, lookup eq_op id (e_members e) = Some sk -> sk = member_key (fops F) dealers id) ->
  e_gsk e = group_secret (fops F) dealers -> sel_any k sel ->
  forall fut ms : seq (@msg F M),
  let st := p_st (pfinal_from F M H sel true e fut ms) in
  [/\ forall s, g_sig (st_g st) = Some s -> s = e_gsk e * H (e_bh e),
      forall s, g_sig (st_r st) = Some s -> s = e_gsk e * H (e_pr e),
      forall a b, st_hdr st = Some (a, b) -> st_can st ->
        a = e_gsk e * H (e_bh e) /\ b = e_gsk e * H (e_pr e) &
      g_sig (st_g st) = None -> (size (g_map (st_g st)) < k)%N].
Proof. move=> F M H sel e k dealers dk k0 thr mem gsk so fut ms; exact: (@recovered_verifies F M H sel e k dealers dk k0 thr mem gsk so fut ms). Qed.
Print Assumptions C15_recovered_verifies.

(* ... and therefore the finalizer's check of the recovered signatures never ends the party with an
   error, whatever is sent (block not yet on the chain; group key and the two hash points not the
   identity). *)
Theorem C15_no_error_end :
  forall (F : fieldType) (M : eqType) (H : M -> F) (sel : seq (F * F) -> seq nat)
         (e : @env F M) (k : nat) (dealers : seq (seq F)),
  all (fun cs => size cs <= k)%N dealers -> (0 < k)%N -> e_thr e = k ->
  (forall id sk, lookup eq_op id (e_members e) = Some sk -> sk = member_key (fops F) dealers id) ->
  e_gsk e = group_secret (fops F) dealers -> sel_any k sel ->
  e_existed e = false -> [/\ e_gsk e != 0, H (e_bh e) != 0 & H (e_pr e) != 0] ->
  forall fut ms : seq (@msg F M), p_phase (pfinal_from F M H sel true e fut ms) <> Closed.
Proof. move=> F M H sel e k dealers dk k0 thr mem gsk so ne nz fut ms; exact: (@no_error_end F M H sel e k dealers dk k0 thr mem gsk so ne nz fut ms). Qed.
Print Assumptions C15_no_error_end.

(* Liveness: if the messages of k distinct members carrying their valid share and beacon share are
   among those delivered (before or after the round started) — anywhere in the sequence, interleaved
   with any number of arbitrary messages of any senders — the block is finalised with the group
   signature.  [honestb H e m]: m claims the block hash, its sender has a registered key, and its two
   points verify under that key for the block hash and the previous beacon value. *)
Theorem C15_one_faulty_cannot_block :
  forall (F : fieldType) (M : eqType) (H : M -> F) (sel : seq (F * F) -> seq nat)
         (e : @env F M) (k : nat) (dealers : seq (seq F)),
  all (fun cs => size cs <= k)%N dealers -> (0 < k)%N -> e_thr e = k ->
  (forall id sk, lookup eq_op id (e_members e) = Some sk -> sk = member_key (fops F) dealers id) ->
  e_gsk e = group_secret (fops F) dealers -> sel_any k sel ->
  e_existed e = false -> [/\ e_gsk e != 0, H (e_bh e) != 0 & H (e_pr e) != 0] ->
  forall fut ms : seq (@msg F M),
  (k <= size (undup [seq m_sender m | m <- fut ++ ms & honestb H e m]))%N ->
  p_phase (pfinal_from F M H sel true e fut ms) = Finished /\
  st_hdr (p_st (pfinal_from F M H sel true e fut ms)) = Some (e_gsk e * H (e_bh e), e_gsk e * H (e_pr e)).
Proof.
move=> F M H sel e k dealers dk k0 thr mem gsk so ne nz fut ms kh.
exact: (@one_faulty_cannot_block F M H sel e k dealers dk k0 thr mem gsk so ne nz fut ms kh).
Qed.
Print Assumptions C15_one_faulty_cannot_block.

(* ======== from message arrival (Processor level) ========
   Events: verify messages naming any block hash, cast messages (accepted by round0's checks or not),
   the 10 s timer, eviction of the block's entry from the future-message cache.  Verify messages are
   routed by the block hash they name; those for this block that arrive before the accepted cast
   message are kept and handed to the party in an arbitrary order [drain]; an ended party is retired.
   [pre_of]/[post_of]: the verify messages naming this block's hash before / after the first accepted
   cast message. *)
Definition prun (F : fieldType) (M : eqType) (H : M -> F) sel drain :=
  @proc_run F M (fops F) eq_op eq_op (fun x => x == 0) (fun x => x == 0) eq_op H sel drain true.
Arguments prun {F M} H sel drain.

(* Any interleaving without timeout and eviction that contains an accepted cast message ends in the
   state of a run of the signing round (as in the theorems above) on those messages. *)
Theorem C15_arrival_reduces_to_round :
  forall (F : fieldType) (M : eqType) (H : M -> F) (sel : seq (F * F) -> seq nat)
         (drain : seq (@msg F M) -> seq (@msg F M)) (e : @env F M) (evs : seq (@event F M)),
  all (@quiet_ev F M) evs -> has (@is_cast F M) evs ->
  pr_party (prun H sel drain e evs) =
  Some (pfinal_from F M H sel true e [::] (drain (pre_of e evs) ++ post_of e evs)).
Proof. move=> F M H sel drain e evs; exact: proc_reduce. Qed.
Print Assumptions C15_arrival_reduces_to_round.

(* ... hence: k members' valid messages naming the block, arriving before or after the cast message, in
   any interleaving with anything else, finalise the block - as long as no timeout fires and the
   block's entry is not evicted from the future-message cache. *)
Theorem C15_arrival_one_faulty_cannot_block :
  forall (F : fieldType) (M : eqType) (H : M -> F) (sel : seq (F * F) -> seq nat)
         (drain : seq (@msg F M) -> seq (@msg F M)) (e : @env F M) (k : nat) (dealers : seq (seq F)),
  all (fun cs => size cs <= k)%N dealers -> (0 < k)%N -> e_thr e = k ->
  (forall id sk, lookup eq_op id (e_members e) = Some sk -> sk = member_key (fops F) dealers id) ->
  e_gsk e = group_secret (fops F) dealers -> sel_any k sel ->
  e_existed e = false -> [/\ e_gsk e != 0, H (e_bh e) != 0 & H (e_pr e) != 0] ->
  (forall (p : @msg F M -> bool) l, count p (drain l) = count p l) ->
  forall evs : seq (@event F M),
  all (@quiet_ev F M) evs -> has (@is_cast F M) evs ->
  (k <= size (undup [seq m_sender m | m <- pre_of e evs ++ post_of e evs & honestb H e m]))%N ->
  exists2 pf, pr_party (prun H sel drain e evs) = Some pf &
    p_phase pf = Finished /\ st_hdr (p_st pf) = Some (e_gsk e * H (e_bh e), e_gsk e * H (e_pr e)).
Proof.
move=> F M H sel drain e k dealers dk k0 thr mem gsk so ne nz dp evs q hc kh.
exact: (@proc_live F M H sel drain e k dealers dk k0 thr mem gsk so ne nz dp evs q hc kh).
Qed.
Print Assumptions C15_arrival_one_faulty_cannot_block.

(* The two excluded events do block a valid block (Z mod 101, group 1,2,3, threshold 2): honest shares
   of 2 and 3 kept before the cast message finalise the block; with the entry evicted in between the
   party starts empty and stays collecting (confirmed on the node: 50 verify messages naming other
   hashes evict it; known finding C15/future-store:evicted-by-flood); the timer closes a collecting
   party. *)
Theorem C15_arrival_store_eviction_refuted :
  phase_of (zproc [:: EvVerify 0%N honest2; EvVerify 0%N honest3; EvCast true]) = Some Finished /\
  phase_of (zproc [:: EvVerify 0%N honest2; EvVerify 0%N honest3; EvEvict; EvCast true]) = Some Collecting /\
  count_of (zproc [:: EvVerify 0%N honest2; EvVerify 0%N honest3; EvEvict; EvCast true]) = Some 0%N /\
  phase_of (zproc [:: EvCast true; EvVerify 0%N honest2; EvTimeout; EvVerify 0%N honest3]) = Some Closed.
Proof. exact: store_evicted_run. Qed.
Print Assumptions C15_arrival_store_eviction_refuted.

(* ======== verification does not depend on history ========
   In the model VerifySig is a function of (key, message, signature).  Whatever the round has seen and
   verified before (any state, any earlier block): a registered sender's share over another message x,
   relabelled with the data hash the round expects, leaves the round unchanged. *)
Theorem C15_stale_share_rejected :
  forall (F : fieldType) (M : eqType) (H : M -> F) (sel : seq (F * F) -> seq nat)
         (e : @env F M) (st : @rstate F) (m : @msg F M) (sk : F) (x : M),
  lookup eq_op (m_sender m) (e_members e) = Some sk -> m_sig m = PVal (sk * H x) -> H x != H (m_dh m) ->
  (@r1_update F M (fops F) eq_op eq_op (fun y => y == 0) (fun y => y == 0) eq_op H sel true e st m).1 = st.
Proof. move=> F M H sel e st m sk x; exact: stale_share_rejected. Qed.
Print Assumptions C15_stale_share_rejected.

(* A verifier that accepts a remembered (key, signature) pair without looking at the message admits
   member 2's share for an earlier block as a piece for this one: garbage is recovered and the party
   ends in error (Z mod 101); the node's verification rejects it and the block finalises. *)
Theorem C15_remembering_verifier_refuted :
  snd (zparty_run rq rhs true renv [:: stale2; honest3; honest2]) =
    [:: (OBadSign, TNone); (OAdded, TNone); (ORecovered, TDone)] /\
  g_map (st_g (p_st (zfinal_with veq_remembering [:: stale2; honest3; honest2]))) = [:: (2, 44); (3, 98)]%ZZ /\
  p_phase (zfinal_with veq_remembering [:: stale2; honest3; honest2]) = Closed.
Proof. exact: stale_share_run. Qed.
Print Assumptions C15_remembering_verifier_refuted.

(* ======== two groups: the sign-key lookup is a function of (group, member) ========
   The verifier belongs to groups A and B and runs a signing party for a block of each; every verify
   message concerns one of the two blocks.  (Stated for the model over any carrier, not only fields.) *)
Theorem C15_two_group_noninterference :
  forall (T M : Type) (o : ops T) (ideq veq : T -> T -> bool) (isz vz : T -> bool)
         (meq : M -> M -> bool) (H : M -> T) (sel : list (T * T) -> list nat)
         (bind : bool) (eA eB : @env T M) (evs : seq (gtag * @msg T M)),
  snd (@two_run T M o ideq veq isz vz meq H sel bind eA eB evs) =
  @party_final T M o ideq veq isz vz meq H sel bind eB (map snd (filter (@is_gb T M) evs)).
Proof. move=> T M o ideq veq isz vz meq H sel bind eA eB evs; exact: two_group_noninterference. Qed.
Print Assumptions C15_two_group_noninterference.

(* A lookup that also consults state keyed by the miner alone (a pending key request raised by a
   lookup in the other group) breaks it: a message forged in member 3's name about group A's block makes
   member 3's valid share unreadable in group B, whose (2,3) round then cannot finalise (Z mod 101). *)
Theorem C15_miner_keyed_lookup_refuted :
  p_phase (snd (ztwo [:: (GA, forged3); (GB, honest2); (GB, honest3)])) = Finished /\
  p_phase (snd (fst (zpend [:: (GB, honest2); (GB, honest3)]))) = Finished /\
  p_phase (snd (fst (zpend [:: (GA, forged3); (GB, honest2); (GB, honest3)]))) = Collecting /\
  length (g_map (st_g (p_st (snd (fst (zpend [:: (GA, forged3); (GB, honest2); (GB, honest3)])))))) = 1%N.
Proof. exact: cross_group_run. Qed.
Print Assumptions C15_miner_keyed_lookup_refuted.

(* ======== round0: when is the cast message "accepted" (EvCast true of the arrival model) ========
   Control flow of round0.Update / afterPreArrived / checkBlock with the callbacks for a missing
   previous block and missing transactions; the predicates themselves (VRF prove = C16, castor
   signature, group selection, VerifyBlock) are abstract booleans of the cast message. *)
Theorem C15_round0_accepts_only_checked :
  forall (c : cast) (evs : seq r0event), r0_run c evs = R0Ready ->
  c_qn_ok c = true /\ c_checks_ok c = true /\ c_verify_ok c = true /\ c_existed c = false.
Proof. exact: r0_ready_sound. Qed.
Print Assumptions C15_round0_accepts_only_checked.

Theorem C15_round0_accepts_on_every_path :
  forall c : cast, r0_sound c ->
  (c_pre_present c = true -> c_txs_present c = true -> r0_run c [:: R0CastMsg] = R0Ready) /\
  (c_pre_present c = false -> c_txs_present c = true -> r0_run c [:: R0CastMsg; R0PreArrived] = R0Ready) /\
  (c_pre_present c = true -> c_txs_present c = false ->
   r0_run c [:: R0CastMsg; R0TxsArrived false; R0TxsArrived true] = R0Ready).
Proof. exact: r0_ready_paths. Qed.
Print Assumptions C15_round0_accepts_on_every_path.

(* ======== message ids inside the party (CanAccept / StoreMessage / round1.Start) ========
   While round0 is still checking, verify messages handed to the party are stored by id (a second
   message with a stored id is refused); round1.Start replays the stored ones in an arbitrary order
   [ford] and marks their ids processed whether or not they verified; afterwards a message with a
   processed id is refused unread.  [idf] is the id function (net/msg_decode.go: hash of the raw
   bytes). *)
Definition ifinal_of (F : fieldType) (M : eqType) (H : M -> F) sel (I : eqType) ford :=
  @ifinal F M (fops F) eq_op eq_op (fun x => x == 0) (fun x => x == 0) eq_op H sel I eq_op ford true.
Arguments ifinal_of {F M} H sel {I} ford.

(* The faulty members may send anything, any number of times, before or after the round starts: if no
   message of the run carries the id of an honest member's valid message without being such a message
   of that member (no hash collision on those byte strings), k honest members' messages - stored
   while round0 was checking or delivered later - finalise the block. *)
Theorem C15_ids_one_faulty_cannot_block :
  forall (F : fieldType) (M : eqType) (H : M -> F) (sel : seq (F * F) -> seq nat) (I : eqType)
         (ford : seq (I * @msg F M) -> seq (I * @msg F M)) (e : @env F M) (k : nat) (dealers : seq (seq F)),
  all (fun cs => size cs <= k)%N dealers -> (0 < k)%N -> e_thr e = k ->
  (forall id sk, lookup eq_op id (e_members e) = Some sk -> sk = member_key (fops F) dealers id) ->
  e_gsk e = group_secret (fops F) dealers -> sel_any k sel ->
  e_existed e = false -> [/\ e_gsk e != 0, H (e_bh e) != 0 & H (e_pr e) != 0] ->
  (forall (p : I * @msg F M -> bool) l, count p (ford l) = count p l) ->
  forall (idf : @msg F M -> I) (deliv ms : seq (@msg F M)),
  no_collision H e idf (deliv ++ ms) ->
  (k <= size (undup [seq m_sender m | m <- deliv ++ ms & honestb H e m]))%N ->
  let pf := ifinal_of H sel ford e (map (fun m => (idf m, m)) deliv) (map (fun m => (idf m, m)) ms) in
  p_phase pf = Finished /\ st_hdr (p_st pf) = Some (e_gsk e * H (e_bh e), e_gsk e * H (e_pr e)).
Proof.
move=> F M H sel I ford e k dealers dk k0 thr mem gsk so ne nz fp idf deliv ms nc kh.
exact: (@id_live F M H sel I ford e k dealers dk k0 thr mem gsk so ne nz fp idf deliv ms nc kh).
Qed.
Print Assumptions C15_ids_one_faulty_cannot_block.

(* With an id that depends only on unauthenticated fields (here: the signer id named in the message)
   the theorem's hypothesis fails and so does the property: a faulty sender's message naming member 3,
   stored first, makes member 3's genuine message refused unread (Z mod 101, group 1,2,3, threshold 2,
   honest 2 and 3 delivered: the party stays collecting); with separating ids it finalises. *)
Theorem C15_ids_unauthenticated_refuted :
  p_phase (zifinal [:: (3, spoof3); (3, honest3)]%N [:: (2, honest2)]%N) = Collecting /\
  p_phase (zifinal [:: (3, spoof3)]%N [:: (2, honest2); (3, honest3)]%N) = Collecting /\
  p_phase (zifinal [:: (7, spoof3); (3, honest3)]%N [:: (2, honest2)]%N) = Finished /\
  p_phase (zifinal [:: (7, spoof3)]%N [:: (2, honest2); (3, honest3)]%N) = Finished.
Proof. exact: id_spoof_run. Qed.
Print Assumptions C15_ids_unauthenticated_refuted.

(* ======== the same theorems about the executable model the correspondence run evaluates ========
   [zmodel_final curve_order hs true e fut ms] is exactly what Harness.check computes for a run of the
   node: arithmetic on Z modulo r = bn256.Order (proved prime: V.Base.PrimeBn256Order, no primality
   hypothesis here), member ids compared as integers, [hs] the table of logarithms of the hash
   points, recovery from all entries in arrival order.  Hypotheses on the node's member table: the ids
   are pairwise distinct and non-zero modulo r (they are Lagrange abscissae).  Equalities of points
   are equalities modulo r. *)
Notation r := curve_order.

Lemma order_prime : Znumtheory.prime r.
Proof. exact: bn256_order_prime. Qed.

Definition table_ok (e : @env Z nat) : Prop :=
  uniq (residues r (map fst (e_members e))) /\
  all (fun i => negb (i mod r =? 0)%ZZ) (map fst (e_members e)).

Lemma table_okP e : table_ok e ->
  uniq (map (phi r) (map fst (e_members e))) /\ all (fun i => phi r i != 0) (map fst (e_members e)).
Proof.
case=> u nz; split; first exact: (uniq_phi order_prime).
by apply: sub_all nz => i; rewrite (phi_eq0 order_prime).
Qed.

Theorem C15Z_set_valid :
  forall (hs : seq Z) (e : @env Z nat) (fut ms : seq (@msg Z nat)), table_ok e ->
  let st := p_st (zmodel_final r hs true e fut ms) in
  [/\ uniq (map fst (g_map (st_g st))), map fst (g_map (st_g st)) = map fst (g_map (st_r st)),
      forall id s, (id, s) \in g_map (st_g st) ->
        exists2 sk, lookup Z.eqb id (e_members e) = Some sk &
                    (s mod r = (sk * zH hs (e_bh e)) mod r)%ZZ /\ (s mod r <> 0)%ZZ &
      forall id s, (id, s) \in g_map (st_r st) ->
        exists2 sk, lookup Z.eqb id (e_members e) = Some sk &
                    (s mod r = (sk * zH hs (e_pr e)) mod r)%ZZ /\ (s mod r <> 0)%ZZ].
Proof.
move=> hs e fut ms /table_okP [tab nz]; rewrite zmodel_finalE.
exact: (@set_valid_Z r order_prime hs e tab nz fut ms).
Qed.
Print Assumptions C15Z_set_valid.

Theorem C15Z_recovered_verifies :
  forall (hs : seq Z) (e : @env Z nat) (k : nat) (dealers : seq (seq Z)), table_ok e ->
  all (fun cs => size cs <= k)%N dealers -> (0 < k)%N -> e_thr e = k ->
  (forall id sk, lookup Z.eqb id (e_members e) = Some sk ->
     (sk mod r = member_key (zq r) dealers id mod r)%ZZ) ->
  (e_gsk e mod r = group_secret (zq r) dealers mod r)%ZZ ->
  forall fut ms : seq (@msg Z nat),
  let st := p_st (zmodel_final r hs true e fut ms) in
  [/\ forall s, g_sig (st_g st) = Some s -> (s mod r = (e_gsk e * zH hs (e_bh e)) mod r)%ZZ,
      forall s, g_sig (st_r st) = Some s -> (s mod r = (e_gsk e * zH hs (e_pr e)) mod r)%ZZ,
      forall a b, st_hdr st = Some (a, b) -> st_can st ->
        (a mod r = (e_gsk e * zH hs (e_bh e)) mod r)%ZZ /\ (b mod r = (e_gsk e * zH hs (e_pr e)) mod r)%ZZ &
      g_sig (st_g st) = None -> (size (g_map (st_g st)) < k)%N].
Proof.
move=> hs e k dealers /table_okP [tab nz] dk k0 thr mem gsk fut ms; rewrite zmodel_finalE.
exact: (@recovered_verifies_Z r order_prime hs e tab nz k dealers dk k0 thr mem gsk fut ms).
Qed.
Print Assumptions C15Z_recovered_verifies.

Theorem C15Z_no_error_end :
  forall (hs : seq Z) (e : @env Z nat) (k : nat) (dealers : seq (seq Z)), table_ok e ->
  all (fun cs => size cs <= k)%N dealers -> (0 < k)%N -> e_thr e = k ->
  (forall id sk, lookup Z.eqb id (e_members e) = Some sk ->
     (sk mod r = member_key (zq r) dealers id mod r)%ZZ) ->
  (e_gsk e mod r = group_secret (zq r) dealers mod r)%ZZ ->
  e_existed e = false ->
  [/\ (e_gsk e mod r <> 0)%ZZ, (zH hs (e_bh e) mod r <> 0)%ZZ & (zH hs (e_pr e) mod r <> 0)%ZZ] ->
  forall fut ms : seq (@msg Z nat), p_phase (zmodel_final r hs true e fut ms) <> Closed.
Proof.
move=> hs e k dealers /table_okP [tab nz] dk k0 thr mem gsk ne nzs fut ms; rewrite zmodel_finalE.
exact: (@no_error_end_Z r order_prime hs e tab nz k dealers dk k0 thr mem gsk ne nzs fut ms).
Qed.
Print Assumptions C15Z_no_error_end.

Theorem C15Z_one_faulty_cannot_block :
  forall (hs : seq Z) (e : @env Z nat) (k : nat) (dealers : seq (seq Z)), table_ok e ->
  all (fun cs => size cs <= k)%N dealers -> (0 < k)%N -> e_thr e = k ->
  (forall id sk, lookup Z.eqb id (e_members e) = Some sk ->
     (sk mod r = member_key (zq r) dealers id mod r)%ZZ) ->
  (e_gsk e mod r = group_secret (zq r) dealers mod r)%ZZ ->
  e_existed e = false ->
  [/\ (e_gsk e mod r <> 0)%ZZ, (zH hs (e_bh e) mod r <> 0)%ZZ & (zH hs (e_pr e) mod r <> 0)%ZZ] ->
  forall fut ms : seq (@msg Z nat),
  (k <= size (undup [seq m_sender m | m <- fut ++ ms & zhonestb r hs e m]))%N ->
  p_phase (zmodel_final r hs true e fut ms) = Finished /\
  exists a b, [/\ st_hdr (p_st (zmodel_final r hs true e fut ms)) = Some (a, b),
                  (a mod r = (e_gsk e * zH hs (e_bh e)) mod r)%ZZ &
                  (b mod r = (e_gsk e * zH hs (e_pr e)) mod r)%ZZ].
Proof.
move=> hs e k dealers /table_okP [tab nz] dk k0 thr mem gsk ne nzs fut ms kh; rewrite zmodel_finalE.
exact: (@one_faulty_cannot_block_Z r order_prime hs e tab nz k dealers dk k0 thr mem gsk ne nzs fut ms kh).
Qed.
Print Assumptions C15Z_one_faulty_cannot_block.

(* The handler as found (no comparison) violates the property: over Z mod 101, group of 3 with
   threshold 2, member 1 sends its well-signed share over another hash (claimed as such), members 2 and
   3 are honest: the foreign share is admitted, the recovered value 88 is not the group signature 35,
   the party ends with "fail to verify group sign" and the third message finds no party. *)
Theorem C15_hash_binding_refuted :
  g_map (st_g (p_st (zfinal false))) = [:: (1, 32); (2, 77)]%ZZ /\
  zveq rq 32 (8 * zH rhs 0) = false /\
  g_sig (st_g (p_st (zfinal false))) = Some 88%ZZ /\ zveq rq 88 (5 * zH rhs 0) = false /\
  p_phase (zfinal false) = Closed /\
  snd (zparty_run rq rhs false renv rmsgs) = [:: (OAdded, TNone); (ORecovered, TErrG); (OClosed, TNone)].
Proof. exact: refuted_run. Qed.
Print Assumptions C15_hash_binding_refuted.

(* Boundary of C15_set_valid: "registered sign key" is the round's only notion of membership, and
   the node registers keys from self-signed messages without checking the sender against the group's
   member list or the key against the member (group_create.OnMessageSignPK; confirmed on the node,
   listed as known findings C15/registered-key:...).  With the hash comparison in place, over Z mod 101,
   group 1,2,3, threshold 2, group signature 35: (a) a registered non-member id 4 gets its share
   admitted, 6 is recovered, the party ends in error with honest 2 and 3 delivered; (b) a key
   registered under member 2's id first makes the squatter's share count and member 2's valid share
   fail.  The positive theorems above exclude this by the hypothesis that the table holds exactly the
   key-generation keys of the ids it lists. *)
Theorem C15_registered_key_is_not_membership_refuted :
  g_map (st_g (p_st (fst (zrun renv_outsider [:: outsider4; honest2; honest3])))) = [:: (4, 350); (2, 77)]%ZZ /\
  g_sig (st_g (p_st (fst (zrun renv_outsider [:: outsider4; honest2; honest3])))) = Some 6%ZZ /\
  zveq rq 6 (5 * zH rhs 0) = false /\
  snd (zrun renv_outsider [:: outsider4; honest2; honest3]) =
    [:: (OAdded, TNone); (ORecovered, TErrG); (OClosed, TNone)] /\
  snd (zrun renv_squat [:: squatter2; honest2; honest3]) =
    [:: (OAdded, TNone); (OBadSign, TNone); (ORecovered, TErrG)] /\
  g_map (st_g (p_st (fst (zrun renv_squat [:: squatter2; honest2; honest3])))) = [:: (2, 420); (3, 98)]%ZZ /\
  zveq rq 420 (11 * zH rhs 0) = false.
Proof. exact: registered_key_run. Qed.
Print Assumptions C15_registered_key_is_not_membership_refuted.

(* The handler without the comparison is correct exactly under the guard the repair enforces: on
   messages that all claim the block hash it behaves as the repaired one. *)
Theorem C15_unbound_handler_guarded :
  forall (F : fieldType) (M : eqType) (H : M -> F) (sel : seq (F * F) -> seq nat)
         (e : @env F M) (ms : seq (@msg F M)),
  all (fun m => m_dh m == e_bh e) ms ->
  pfinal F M H sel false e ms = pfinal F M H sel true e ms.
Proof. move=> F M H sel e ms; exact: nobind_guarded. Qed.
Print Assumptions C15_unbound_handler_guarded.

(* Non-vacuity: (a) the hypotheses of the theorems above are satisfiable — rationals, one dealer with
   the constant polynomial 2, one member (id 1, key 2), threshold 1, H = 3 everywhere; its honest
   message finalises the block with 2 * 3; (b) the repaired handler on the refutation's messages. *)
Example C15_example_hypotheses :
  let F := [fieldType of rat] in
  let H := (fun _ : nat => 3%:R) : nat -> F in
  let sel := (fun m : seq (F * F) => iota 0 (size m)) in
  let e := @Env F nat_eqType 0%N 1%N [:: (1, 2%:R)] 1 false 2%:R in
  let dealers := [:: [:: 2%:R : F]] in
  let ms := [:: @Msg F nat_eqType 1 0%N (PVal (2%:R * 3%:R)) (PVal (2%:R * 3%:R))] in
  [/\ all (fun cs => size cs <= 1)%N dealers,
      forall id sk, lookup eq_op id (e_members e) = Some sk -> sk = member_key (fops F) dealers id,
      e_gsk e = group_secret (fops F) dealers, sel_any 1%N sel &
      (1 <= size (undup [seq m_sender m | m <- [::] ++ ms & honestb H e m]))%N] /\
  p_phase (pfinal_from F nat_eqType H sel true e [::] ms) = Finished.
Proof.
move=> F H sel e dealers ms.
have dk : all (fun cs => size cs <= 1)%N dealers by [].
have mem : forall id sk, lookup eq_op id (e_members e) = Some sk -> sk = member_key (fops F) dealers id.
  by move=> id sk /=; case: ifP => // _ [<-]; rewrite /member_key /= addr0.
have gsk : e_gsk e = group_secret (fops F) dealers by rewrite /group_secret /= addr0.
have so : sel_any 1%N sel.
  move=> m km; rewrite /sel iota_uniq size_iota; split=> //.
  by apply/allP => i; rewrite mem_iota.
have kh : (1 <= size (undup [seq m_sender m | m <- [::] ++ ms & honestb H e m]))%N by [].
split; first by split.
have nz : [/\ e_gsk e != 0, H (e_bh e) != 0 & H (e_pr e) != 0] by [].
by have [] := @C15_one_faulty_cannot_block F nat_eqType H sel e 1 dealers dk isT erefl mem gsk so erefl nz [::] ms kh.
Qed.

Example C15_example_repaired_run :
  g_map (st_g (p_st (zfinal true))) = [:: (2, 77); (3, 98)]%ZZ /\
  st_hdr (p_st (zfinal true)) = Some (35, 45)%ZZ /\ (5 * zH rhs 0 = 35)%ZZ /\ (5 * zH rhs 1 = 45)%ZZ /\
  p_phase (zfinal true) = Finished /\
  snd (zparty_run rq rhs true renv rmsgs) = [:: (OHashMismatch, TNone); (OAdded, TNone); (ORecovered, TDone)].
Proof. exact: repaired_run. Qed.

(* Non-vacuity of the Z-level hypotheses, over the real group order: two dealers 11+22x and 44+55x,
   threshold 2, members 101, 202, 303 with keys 55+77*id, group secret 55; the valid messages of 101
   and 202 finalise the block in the executable model. *)
Example C15Z_example :
  let hs := [:: 7; 9]%ZZ in
  let dealers := [:: [:: 11; 22]; [:: 44; 55]]%ZZ in
  let e := @Env Z nat 0%N 1%N [:: (101, 7832); (202, 15609); (303, 23386)]%ZZ 2 false 55%ZZ in
  let ms := [:: @Msg Z nat 101%ZZ 0%N (PVal (7832 * 7)%ZZ) (PVal (7832 * 9)%ZZ);
                @Msg Z nat 202%ZZ 0%N (PVal (15609 * 7)%ZZ) (PVal (15609 * 9)%ZZ)] in
  [/\ uniq (residues r (map fst (e_members e))),
      all (fun i => negb (i mod r =? 0)%ZZ) (map fst (e_members e)),
      all (fun x => (x.2 mod r =? member_key (zq r) dealers x.1 mod r)%ZZ) (e_members e),
      (e_gsk e mod r =? group_secret (zq r) dealers mod r)%ZZ &
      (2 <= size (undup [seq m_sender m | m <- [::] ++ ms & zhonestb r hs e m]))%N] /\
  p_phase (zmodel_final r hs true e [::] ms) = Finished.
Proof. by vm_compute. Qed.
