(* C15 — control flow of round0 (round_sign.go: Update / afterPreArrived / checkBlock and the two
   callbacks onBlockAddSuccess, onMissTxAddSucc) with the expensive predicates abstract: what has been
   established when the party is allowed to leave round0 ("cast accepted", the [EvCast true] of the
   arrival model), including the paths on which checkBlock completes later from a callback - the
   window in which verify messages handed to the party are stored as future messages. *)
From Coq Require Import List Bool.
Import ListNotations.

Record cast := Cast {
  c_qn_ok : bool;        (* blockchain.TotalQN() <= bh.TotalQN *)
  c_pre_present : bool;  (* the previous block is on the chain when the cast message arrives *)
  c_checks_ok : bool;    (* afterPreArrived: castor known and key valid, message hash and signature,
                            CanCastAt, verifyBlockVRF (C16), group lookup/membership/selection, block time *)
  c_verify_ok : bool;    (* core VerifyBlock does not return -1 *)
  c_txs_present : bool;  (* VerifyBlock reports no missing transactions at the first attempt *)
  c_existed : bool }.    (* checkBlockExisted: the chain already has the block *)

Inductive r0state := R0Init | R0WaitPre | R0WaitTxs | R0Ready | R0Failed.

(* onMissTxAddSucc with [all = true]: no missing transaction is left *)
Inductive r0event := R0CastMsg | R0PreArrived | R0TxsArrived (all : bool).

Definition r0_check_block (c : cast) (txs : bool) : r0state :=
  if negb (c_verify_ok c) then R0Failed
  else if txs then (if c_existed c then R0Failed else R0Ready)
  else R0WaitTxs.

Definition r0_after_pre (c : cast) : r0state :=
  if c_checks_ok c then r0_check_block c (c_txs_present c) else R0Failed.

Definition r0_step (c : cast) (s : r0state) (ev : r0event) : r0state :=
  match s, ev with
  | R0Init, R0CastMsg =>
      if negb (c_qn_ok c) then R0Failed
      else if c_pre_present c then r0_after_pre c else R0WaitPre
  | R0WaitPre, R0PreArrived => r0_after_pre c
  | R0WaitTxs, R0TxsArrived true => r0_check_block c true
  | _, _ => s
  end.

Definition r0_run (c : cast) (evs : list r0event) : r0state := fold_left (r0_step c) evs R0Init.

Definition r0_sound (c : cast) : Prop :=
  c_qn_ok c = true /\ c_checks_ok c = true /\ c_verify_ok c = true /\ c_existed c = false.

Lemma r0_check_block_sound c txs : c_qn_ok c = true -> c_checks_ok c = true ->
  (r0_check_block c txs = R0Ready -> r0_sound c) /\
  (r0_check_block c txs = R0WaitTxs -> c_verify_ok c = true).
Proof.
unfold r0_check_block, r0_sound; intros q k.
destruct (c_verify_ok c); simpl; [|split; discriminate].
destruct txs; [destruct (c_existed c)|]; split; try discriminate; auto.
Qed.

(* invariant of the run *)
Definition r0_inv (c : cast) (s : r0state) : Prop :=
  match s with
  | R0Init => True
  | R0WaitPre => c_qn_ok c = true
  | R0WaitTxs => c_qn_ok c = true /\ c_checks_ok c = true /\ c_verify_ok c = true
  | R0Ready => r0_sound c
  | R0Failed => True
  end.

Lemma r0_after_pre_inv c : c_qn_ok c = true -> r0_inv c (r0_after_pre c).
Proof.
intros q; unfold r0_after_pre; destruct (c_checks_ok c) eqn:k; simpl; auto.
destruct (r0_check_block_sound c (c_txs_present c) q k) as [h1 h2].
destruct (r0_check_block c (c_txs_present c)) eqn:E; simpl; auto.
Qed.

Lemma r0_step_inv c s ev : r0_inv c s -> r0_inv c (r0_step c s ev).
Proof.
destruct s, ev; simpl; auto; intros inv.
- destruct (c_qn_ok c) eqn:q; simpl; auto.
  destruct (c_pre_present c); simpl; auto. now apply r0_after_pre_inv.
- now apply r0_after_pre_inv.
- destruct all; simpl; auto. destruct inv as [q [k v]].
  destruct (r0_check_block_sound c true q k) as [h1 h2].
  destruct (r0_check_block c true) eqn:E; simpl; auto.
Qed.

(* a party leaves round0 only after every check of the cast message has passed, whatever the order
   of the cast message and the callbacks *)
Theorem r0_ready_sound c evs : r0_run c evs = R0Ready -> r0_sound c.
Proof.
assert (forall l s, r0_inv c s -> r0_inv c (fold_left (r0_step c) l s)) as H.
{ induction l as [|ev l IH]; simpl; auto. intros s inv; apply IH. now apply r0_step_inv. }
unfold r0_run; intros E; specialize (H evs R0Init I); rewrite E in H; exact H.
Qed.

(* ... and it does leave round0 on the three paths the code has: at once, after the previous block
   arrives, after the missing transactions arrive *)
Theorem r0_ready_paths c : r0_sound c ->
  (c_pre_present c = true -> c_txs_present c = true -> r0_run c [R0CastMsg] = R0Ready) /\
  (c_pre_present c = false -> c_txs_present c = true -> r0_run c [R0CastMsg; R0PreArrived] = R0Ready) /\
  (c_pre_present c = true -> c_txs_present c = false ->
   r0_run c [R0CastMsg; R0TxsArrived false; R0TxsArrived true] = R0Ready).
Proof.
intros [q [k [v x]]]; unfold r0_run, r0_step, r0_after_pre, r0_check_block; simpl.
repeat split; intros p t; rewrite q, ?p, k, v, ?t, ?x; simpl; rewrite ?k, ?v, ?t, ?x; reflexivity.
Qed.
