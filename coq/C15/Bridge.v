(* C15 — bridge from the field-generic theorems (Proofs.v) to the executable instance Z mod q that
   Harness.v evaluates ([zparty_run] etc. of Model.v): for a prime q the run of the Z model is
   simulated, step by step, by the run of the field model over 'F_q on translated messages; the
   theorems are then pulled back.  The residue map and its morphism lemmas are C13's (Bridge.v).

   Member ids in the Z model are compared as integers (the node compares id.GetHexString()) while the
   Lagrange arithmetic sees them modulo q, so the transfer needs what the node's key generation
   guarantees anyway: the ids in the member table are pairwise distinct and non-zero modulo q.  A
   message whose sender is not (as an integer) in the table is refused by the Z model at the key
   lookup; it is translated to a message the field model refuses as well. *)
From Coq Require Import ZArith Znumtheory.
From mathcomp Require Import all_ssreflect all_algebra zify ssrZ.
From V.C13 Require Import Model Proofs Bridge.
From V.C15 Require Import Model Proofs.
Set Implicit Arguments. Unset Strict Implicit. Unset Printing Implicit Defensive.
Import GRing.Theory.
Local Open Scope ring_scope.
Delimit Scope Z_scope with ZZ.

Lemma seqE a n : List.seq a n = iota a n.
Proof. by elim: n a => //= n IH a; rewrite IH. Qed.

Lemma uniq_map_inj (T1 T2 : eqType) (f : T1 -> T2) (s : seq T1) :
  uniq (map f s) -> {in s &, injective f}.
Proof.
elim: s => [|a s IH] //= /andP [na u] x y; rewrite !inE.
case/orP=> [/eqP ->|xs]; case/orP=> [/eqP ->|ys] // E.
- by rewrite E map_f in na.
- by rewrite -E map_f in na.
- exact: IH.
Qed.

Lemma has_id_mem (T : eqType) (z : T) (m : seq (T * T)) : has_id eq_op z m = (z \in map fst m).
Proof. by elim: m => [|[i s] m IH] //=; rewrite IH inE eq_sym. Qed.

Lemma existed_match (A : Type) (oc : outcome) (a b : A) :
  match oc with OExisted => a | _ => b end = if is_existed oc then a else b.
Proof. by case: oc. Qed.

Lemma party_run_fst (T M : Type) (o : ops T) ideq veq isz vz meq (H : M -> T) sel bind e ps ms :
  (@party_run T M o ideq veq isz vz meq H sel bind e ps ms).1 =
  List.fold_left (fun ps m => fst (@party_step T M o ideq veq isz vz meq H sel bind e ps m)) ms ps.
Proof.
elim: ms ps => [|m ms IH] ps //=.
by case: (party_step _ _ _ _ _ _ _ _ _ _ _ _) => ps' ob /=; rewrite -IH; case: (party_run _ _ _ _ _ _ _ _ _ _ _ _).
Qed.

Lemma zmodel_finalE q hs bind e fut ms :
  zmodel_final q hs bind e fut ms =
  @party_final_from Z nat (zq q) Z.eqb (zveq q) (Z.eqb 0) (zvz q) Nat.eqb (zH hs) zsel bind e fut ms.
Proof. by rewrite /zmodel_final /zparty_run_from party_run_fst. Qed.

Section Zq.
Variable q : Z.
Hypothesis q_prime : Znumtheory.prime q.
Notation F := [fieldType of 'F_(Z.to_nat q)].
Notation Fq := (fops F).
Notation ph := (phi q).
Notation z0 := (fun x : F => x == 0).
Variable hs : seq Z.

Definition HF (i : nat) : F := ph (zH hs i).
Definition selF (m : seq (F * F)) : seq nat := iota 0 (size m).

Definition tr2 (x : Z * Z) : F * F := (ph x.1, ph x.2).
Definition tr_pt (x : pt Z) : pt F := match x with PNil => PNil | PVal v => PVal (ph v) end.
Definition tr_gen (g : @gen Z) : @gen F := Gen (g_thr g) (map tr2 (g_map g)) (omap ph (g_sig g)).
Definition tr_st (st : @rstate Z) : @rstate F :=
  RState (tr_gen (st_g st)) (tr_gen (st_r st)) (omap tr2 (st_hdr st)) (st_can st).
Definition tr_ps (ps : @pstate Z) : @pstate F := PState (p_phase ps) (tr_st (p_st ps)).

Notation zverify := (@verify Z nat (zq q) (zveq q) (zvz q) (zH hs)).
Notation fverify := (@verify F nat Fq eq_op z0 HF).
Notation zgadd := (@gadd Z (zq q) Z.eqb zsel).
Notation fgadd := (@gadd F Fq eq_op selF).
Notation zupd := (@r1_update Z nat (zq q) Z.eqb (zveq q) (Z.eqb 0) (zvz q) Nat.eqb (zH hs) zsel).
Notation fupd := (@r1_update F nat Fq eq_op eq_op z0 z0 eq_op HF selF).
Notation zfin := (@finalize Z nat (zq q) (zveq q) (zvz q) (zH hs)).
Notation ffin := (@finalize F nat Fq eq_op z0 HF).
Notation zstep := (@party_step Z nat (zq q) Z.eqb (zveq q) (Z.eqb 0) (zvz q) Nat.eqb (zH hs) zsel).
Notation fstep := (@party_step F nat Fq eq_op eq_op z0 z0 eq_op HF selF).
Notation zreplay := (@r1_replay Z nat (zq q) Z.eqb (zveq q) (Z.eqb 0) (zvz q) Nat.eqb (zH hs) zsel).
Notation freplay := (@r1_replay F nat Fq eq_op eq_op z0 z0 eq_op HF selF).
Notation zstart := (@party_start Z nat (zq q) Z.eqb (zveq q) (Z.eqb 0) (zvz q) Nat.eqb (zH hs) zsel).
Notation fstart := (@party_start F nat Fq eq_op eq_op z0 z0 eq_op HF selF).
Notation zfinal := (@party_final_from Z nat (zq q) Z.eqb (zveq q) (Z.eqb 0) (zvz q) Nat.eqb (zH hs) zsel).
Notation ffinal := (@party_final_from F nat Fq eq_op eq_op z0 z0 eq_op HF selF).

Lemma veqE a b : zveq q a b = (ph a == ph b).
Proof.
rewrite /zveq; apply/idP/eqP => [/Z.eqb_spec E|/(phi_inj q_prime) ->]; last exact: Z.eqb_refl.
by rewrite -(phi_mod q_prime a) E phi_mod.
Qed.

Lemma vzE a : zvz q a = (ph a == 0).
Proof. by rewrite phi_eq0. Qed.

Lemma verify_sim sk m x : zverify sk m x = fverify (ph sk) m (tr_pt x).
Proof. by case: x => //= v; rewrite !vzE veqE /HF (phiM q_prime). Qed.

Section Env.
Variable e : @env Z nat.
Let tids := map fst (e_members e).
Hypothesis tab : uniq (map ph tids).
Hypothesis tabnz : all (fun i => ph i != 0) tids.

Definition tr_env : @env F nat :=
  Env (e_bh e) (e_pr e) (map tr2 (e_members e)) (e_thr e) (e_existed e) (ph (e_gsk e)).

Definition tr_msg (m : @msg Z nat) : @msg F nat :=
  match lookup Z.eqb (m_sender m) (e_members e) with
  | None => Msg (ph (m_sender m)) (m_dh m) PNil PNil
  | Some _ => Msg (ph (m_sender m)) (m_dh m) (tr_pt (m_sig m)) (tr_pt (m_rsig m))
  end.

Lemma ph_inj_tab : {in tids &, injective ph}.
Proof. exact: uniq_map_inj tab. Qed.

Lemma lookup_in id sk (l : seq (Z * Z)) : lookup Z.eqb id l = Some sk -> id \in map fst l.
Proof.
elim: l => [|[i s] l IH] //=; rewrite inE; case: (Z.eqb_spec i id) => [-> _|_ /IH ->]; first by rewrite eqxx.
by rewrite orbT.
Qed.

Lemma lookup_sim_aux id sk (l : seq (Z * Z)) :
  uniq (map ph (map fst l)) -> lookup Z.eqb id l = Some sk ->
  lookup eq_op (ph id) (map tr2 l) = Some (ph sk).
Proof.
elim: l => [|[i s] l IH] //= /andP [ni u].
case: (Z.eqb_spec i id) => [-> [->]|ne lk]; first by rewrite eqxx.
case: eqP => [E|_]; last exact: IH.
by rewrite E map_f // (lookup_in lk) in ni.
Qed.

Lemma lookup_sim id sk :
  lookup Z.eqb id (e_members e) = Some sk ->
  id \in tids /\ lookup eq_op (ph id) (e_members tr_env) = Some (ph sk).
Proof. by move=> lk; split; [exact: lookup_in lk | exact: lookup_sim_aux lk]. Qed.

Lemma isz_sim id : id \in tids -> Z.eqb 0 id = (ph id == 0).
Proof.
move=> idin; have nz := allP tabnz _ idin; rewrite (negbTE nz).
by case: (Z.eqb_spec 0 id) nz => // <-; rewrite (phi0 q_prime) eqxx.
Qed.

Definition wfg (g : @gen Z) : Prop := {subset map fst (g_map g) <= tids}.
Definition wfst (st : @rstate Z) : Prop := wfg (st_g st) /\ wfg (st_r st).

Lemma has_id_sim g id : wfg g -> id \in tids ->
  has_id Z.eqb id (g_map g) = has_id eq_op (ph id) (map tr2 (g_map g)).
Proof.
move=> wf idin; rewrite (has_id_mem id) has_id_mem -map_comp.
have -> : map (fst \o tr2) (g_map g) = map ph (map fst (g_map g)) by rewrite -map_comp.
apply/idP/mapP => [yin|[y yin E]]; first by exists id.
by rewrite (ph_inj_tab idin (wf _ yin) E).
Qed.

Lemma gadd_sim g id s : wfg g -> id \in tids ->
  fgadd (tr_gen g) (ph id) (ph s) =
    (tr_gen (zgadd g id s).1.1, (zgadd g id s).1.2, (zgadd g id s).2) /\ wfg (zgadd g id s).1.1.
Proof.
move=> wf idin; rewrite /gadd /gen_add /= -(has_id_sim wf idin).
case: (g_sig g) => [s0|] //=.
case: (has_id _ _ _) => //=.
rewrite !lenE !appE !size_cat size_map /=.
have wf' : wfg (Gen (g_thr g) (g_map g ++ [:: (id, s)]) None).
  by move=> y /=; rewrite map_cat mem_cat inE => /orP [/wf|/eqP ->].
case: (Nat.leb _ _); split=> //; rewrite /tr_gen /= map_cat //=.
congr (Gen _ _ (Some _), _, _).
rewrite (recover_sel_morph (phi_morph q_prime)) /zsel /selF lenE seqE !mapE !size_cat size_map /=.
by congr (recover_sel _ _ _ _); rewrite !map_cat /= -!map_comp.
Qed.

Lemma upd_sim st m : wfst st ->
  [/\ wfst (zupd true e st m).1,
      (fupd true tr_env (tr_st st) (tr_msg m)).1 = tr_st (zupd true e st m).1 &
      is_existed (fupd true tr_env (tr_st st) (tr_msg m)).2 = is_existed (zupd true e st m).2].
Proof.
move=> wf; have [wg wr] := wf.
rewrite /tr_msg /r1_update /=; case ex: (e_existed e) => //=.
case lk: (lookup Z.eqb _ _) => [sk|] /=; last first.
  by case: (lookup _ _ _) => [sk|] //=; case: ifP => //= _; rewrite orbT.
have [idin ->] := lookup_sim lk.
rewrite eqbE; case: eqP => //= _.
rewrite -[X in X || ~~ zverify _ _ _]/(Z.eqb 0 (m_sender m)) (isz_sim idin) verify_sim; case: (_ || _) => //=.
case: (m_sig m) => [|s] //=; case: (m_rsig m) => [|rs] //=.
rewrite !vzE veqE (phiM q_prime) /HF.
case: (_ && _ && _) => //=.
have [-> wg'] := gadd_sim s wg idin; have [-> wr'] := gadd_sim rs wr idin.
case: (zgadd (st_g st) _ _) wg' => [[g' add] gen] /= wg'.
case: add => //=.
case: (zgadd (st_r st) _ _) wr' => [[r' radd] rgen] /= wr'.
case: ifP => _ /=; split=> //.
by rewrite /tr_st /=; case: (g_sig g') => [a|] //=; case: (g_sig r') => [b|].
Qed.

Lemma fin_sim st : ffin tr_env (tr_st st) = zfin e st.
Proof.
rewrite /finalize /=; case: (e_existed e) => //; case: (st_hdr st) => [[a b]|] //=.
by rewrite !vzE !veqE !(phiM q_prime) /HF.
Qed.

Lemma step_sim ps m : wfst (p_st ps) ->
  wfst (p_st (zstep true e ps m).1) /\
  (fstep true tr_env (tr_ps ps) (tr_msg m)).1 = tr_ps (zstep true e ps m).1.
Proof.
move=> wf; rewrite /party_step /=; case: (p_phase ps) => //=.
have [] := upd_sim m wf.
case: (zupd _ _ _ _) => st' oc; case: (fupd _ _ _ _) => stF ocF /= wf' -> exE.
rewrite !existed_match exE; case: (is_existed oc) => //=.
by rewrite fin_sim; case: (st_can st') => //=; case: (zfin e st').
Qed.

Lemma replay_sim st ms : wfst st ->
  let rz := zreplay true e st ms in let rf := freplay true tr_env (tr_st st) (map tr_msg ms) in
  [/\ wfst rz.1.1, rf.1.1 = tr_st rz.1.1 & rf.2 = rz.2].
Proof.
elim: ms st => [|m ms IH] st wf //=.
have [] := upd_sim m wf.
case: (zupd _ _ _ _) => st' oc; case: (fupd _ _ _ _) => stF ocF /= wf' -> exE.
rewrite !existed_match exE; case: (is_existed oc) => //=.
have [] := IH _ wf'.
by case: (zreplay _ _ _ _) => [[sz lz] ez]; case: (freplay _ _ _ _) => [[sf lf] ef] /= ? -> ->.
Qed.

Lemma wf_init : wfst (r_init e).
Proof. by split. Qed.

Lemma start_sim fut :
  wfst (p_st (zstart true e fut).1.1) /\
  (fstart true tr_env (map tr_msg fut)).1.1 = tr_ps (zstart true e fut).1.1.
Proof.
rewrite /party_start; have [] := replay_sim fut wf_init.
rewrite -[tr_st (r_init e)]/(r_init tr_env).
case: (zreplay _ _ _ _) => [[sz lz] ez]; case: (freplay _ _ _ _) => [[sf lf] ef] /= wf -> ->.
by case: ez => //=; rewrite fin_sim; case: (st_can sz) => //=; case: (zfin e sz).
Qed.

Theorem final_sim fut ms :
  wfst (p_st (zfinal true e fut ms)) /\
  ffinal true tr_env (map tr_msg fut) (map tr_msg ms) = tr_ps (zfinal true e fut ms).
Proof.
rewrite /party_final_from !fold_leftE; have [] := start_sim fut.
move: (zstart _ _ _).1.1 (fstart _ _ _).1.1 => pz pf wf ->.
elim: ms pz wf => [|m ms IH] pz wf //=.
by have [wf' ->] := step_sim m wf; apply: IH.
Qed.

(* ---- pulling the theorems back to the Z model ---- *)
Notation zlook := (@lookup Z Z.eqb).
Let hb := zH hs (e_bh e).
Let hp := zH hs (e_pr e).
Definition eqm (a b : Z) : Prop := (a mod q = b mod q)%ZZ.

Lemma ph_eqm a b : ph a = ph b -> eqm a b.
Proof. exact: (phi_inj q_prime). Qed.

Lemma ph_mul a b : ph a * ph b = ph (a * b)%ZZ.
Proof. by rewrite -(phiM q_prime) (phi_mod q_prime). Qed.

Lemma ph_nz a : ph a != 0 -> (a mod q <> 0)%ZZ.
Proof. by rewrite (phi_eq0 q_prime) => /Z.eqb_spec. Qed.

Lemma tids_uniq : uniq tids.
Proof. exact: map_uniq tab. Qed.

Lemma lookup_mem id : id \in tids -> exists sk, zlook id (e_members e) = Some sk.
Proof.
rewrite /tids; elim: (e_members e) => [|[i s] l IH] //=; rewrite inE.
case: (Z.eqb_spec i id) => [_ _|ne]; first by exists s.
by case/orP=> [/eqP E|/IH //]; case: ne.
Qed.

Lemma lookup_entry i s : (i, s) \in e_members e -> zlook i (e_members e) = Some s.
Proof.
have := tids_uniq; rewrite /tids; elim: (e_members e) => [|[i' s'] l IH] //= /andP [ni u].
rewrite inE => /orP [/eqP [-> ->]|isin]; first by rewrite Z.eqb_refl.
case: (Z.eqb_spec i' i) => [E|_]; last exact: IH.
by rewrite E (map_f fst isin) in ni.
Qed.

Lemma flookup_inv idF skF :
  lookup eq_op idF (e_members tr_env) = Some skF ->
  exists i s, [/\ (i, s) \in e_members e, idF = ph i & skF = ph s].
Proof.
rewrite /=; elim: (e_members e) => [|[i s] l IH] //=.
case: eqP => [<- [<-]|_ /IH [i' [s' [isin -> ->]]]]; first by exists i, s; rewrite mem_head.
by exists i', s'; rewrite inE isin orbT.
Qed.

Lemma map_inj_in_eq (T1 T2 : eqType) (f : T1 -> T2) (s t u : seq T1) :
  {in u &, injective f} -> {subset s <= u} -> {subset t <= u} -> map f s = map f t -> s = t.
Proof.
move=> inj; elim: s t => [|a s IH] [|b t] //= sa sb [E Es].
have ain : a \in u by apply: sa; rewrite mem_head.
have bin : b \in u by apply: sb; rewrite mem_head.
rewrite (inj _ _ ain bin E); congr (_ :: _); apply: IH => // x xin; [apply: sa|apply: sb];
  by rewrite inE xin orbT.
Qed.

Theorem set_valid_Z fut ms :
  let st := p_st (zfinal true e fut ms) in
  [/\ uniq (map fst (g_map (st_g st))), map fst (g_map (st_g st)) = map fst (g_map (st_r st)),
      forall id s, (id, s) \in g_map (st_g st) ->
        exists2 sk, zlook id (e_members e) = Some sk & eqm s (sk * hb) /\ (s mod q <> 0)%ZZ &
      forall id s, (id, s) \in g_map (st_r st) ->
        exists2 sk, zlook id (e_members e) = Some sk & eqm s (sk * hp) /\ (s mod q <> 0)%ZZ].
Proof.
move=> st; have [[wg wr] E] := final_sim fut ms.
have := @set_valid _ _ HF selF tr_env (map tr_msg fut) (map tr_msg ms); rewrite E /= -/st.
have mE (g : @gen Z) : map fst (map tr2 (g_map g)) = map ph (map fst (g_map g)) by rewrite -!map_comp.
rewrite !mE; case=> u idE vg vr.
have pull (g : @gen Z) (h : nat) : wfg g ->
    (forall idF sF, (idF, sF) \in map tr2 (g_map g) ->
       exists2 skF, lookup eq_op idF (e_members tr_env) = Some skF & sF = skF * HF h /\ sF != 0) ->
    forall id s, (id, s) \in g_map g ->
      exists2 sk, zlook id (e_members e) = Some sk & eqm s (sk * zH hs h) /\ (s mod q <> 0)%ZZ.
  move=> wf v id s isin.
  have [sk lk] := lookup_mem (wf _ (map_f fst isin)).
  have [_ lkF] := lookup_sim lk.
  have [skF] := v _ _ (map_f tr2 isin); rewrite lkF => [[<-]] [sE s0].
  by exists sk => //; split; [apply: ph_eqm; rewrite sE /HF ph_mul | exact: ph_nz].
split; [exact: map_uniq u | exact: map_inj_in_eq ph_inj_tab wg wr idE | exact: pull | exact: pull].
Qed.

Section DKGZ.
Variables (k : nat) (dealers : seq (seq Z)).
Hypothesis dealers_k : all (fun cs => size cs <= k)%N dealers.
Hypothesis k0 : (0 < k)%N.
Hypothesis thrE : e_thr e = k.
Hypothesis memE : forall id sk, zlook id (e_members e) = Some sk -> eqm sk (member_key (zq q) dealers id).
Hypothesis gskE : eqm (e_gsk e) (group_secret (zq q) dealers).
Let dealersF := map (map ph) dealers.

Lemma dealersF_k : all (fun cs => size cs <= k)%N dealersF.
Proof. by rewrite all_map; apply: sub_all dealers_k => cs /=; rewrite size_map. Qed.

Lemma memEF idF skF : lookup eq_op idF (e_members tr_env) = Some skF -> skF = member_key Fq dealersF idF.
Proof.
move=> /flookup_inv [i [s [/lookup_entry /memE E -> ->]]].
by rewrite -(member_key_morph (phi_morph q_prime)) -(phi_mod q_prime s) E phi_mod.
Qed.

Lemma gskEF : e_gsk tr_env = group_secret Fq dealersF.
Proof. by rewrite /= -(group_secret_morph (phi_morph q_prime)) -(phi_mod q_prime (e_gsk e)) gskE phi_mod. Qed.

Lemma selF_ok (m : seq (F * F)) : (k <= size m)%N ->
  [/\ uniq (selF m), all (fun i => i < size m)%N (selF m) & (k <= size (selF m))%N].
Proof.
by move=> km; rewrite /selF iota_uniq size_iota; split=> //; apply/allP => i; rewrite mem_iota.
Qed.

Theorem recovered_verifies_Z fut ms :
  let st := p_st (zfinal true e fut ms) in
  [/\ forall s, g_sig (st_g st) = Some s -> eqm s (e_gsk e * hb),
      forall s, g_sig (st_r st) = Some s -> eqm s (e_gsk e * hp),
      forall a b, st_hdr st = Some (a, b) -> st_can st -> eqm a (e_gsk e * hb) /\ eqm b (e_gsk e * hp) &
      g_sig (st_g st) = None -> (size (g_map (st_g st)) < k)%N].
Proof.
move=> st; have [_ E] := final_sim fut ms.
have := @recovered_verifies _ _ HF selF tr_env k dealersF dealersF_k k0 thrE memEF gskEF selF_ok
          (map tr_msg fut) (map tr_msg ms).
rewrite E /= -/st => [[sg sr hdr szk]]; split.
- by move=> s Es; apply: ph_eqm; rewrite -ph_mul; apply: sg; rewrite Es.
- by move=> s Es; apply: ph_eqm; rewrite -ph_mul; apply: sr; rewrite Es.
- move=> a b Eh can; have [] := hdr (ph a) (ph b) _ can; first by rewrite Eh.
  by rewrite /HF !ph_mul => /ph_eqm ? /ph_eqm ?.
- by move=> N; have := szk _; rewrite N size_map; apply.
Qed.

Hypothesis notex : e_existed e = false.
Hypothesis nz : [/\ (e_gsk e mod q <> 0)%ZZ, (hb mod q <> 0)%ZZ & (hp mod q <> 0)%ZZ].

Lemma nzF : [/\ e_gsk tr_env != 0, HF (e_bh tr_env) != 0 & HF (e_pr tr_env) != 0].
Proof. by have [a b c] := nz; rewrite /HF /= !(phi_eq0 q_prime); split; apply/Z.eqb_spec. Qed.

Theorem no_error_end_Z fut ms : p_phase (zfinal true e fut ms) <> Closed.
Proof.
have [_ E] := final_sim fut ms.
have := @no_error_end _ _ HF selF tr_env k dealersF dealersF_k k0 thrE memEF gskEF selF_ok notex nzF
          (map tr_msg fut) (map tr_msg ms).
by rewrite E.
Qed.

(* a verify message carrying its sender's valid share and beacon share (Z model) *)
Definition zhonestb (m : @msg Z nat) : bool :=
  [&& Nat.eqb (m_dh m) (e_bh e), ~~ Z.eqb 0 (m_sender m) &
      if zlook (m_sender m) (e_members e) is Some sk
      then zverify sk (e_bh e) (m_sig m) && zverify sk (e_pr e) (m_rsig m) else false].

Lemma honest_sim m : zhonestb m -> honestb HF tr_env (tr_msg m) /\ m_sender m \in tids.
Proof.
rewrite /zhonestb /honestb /tr_msg; case/and3P; rewrite eqbE => dh id0.
case lk: (zlook _ _) => [sk|] // /andP [v1 v2]; have [idin lkF] := lookup_sim lk.
by rewrite /= dh lkF -(isz_sim idin) id0 -!verify_sim v1 v2.
Qed.

Lemma sender_tr m : m_sender (tr_msg m) = ph (m_sender m).
Proof. by rewrite /tr_msg; case: (zlook _ _). Qed.

Lemma honest_senders_sim (L : seq (@msg Z nat)) :
  {subset map ph [seq m_sender m | m <- L & zhonestb m]
       <= [seq m_sender m | m <- map tr_msg L & honestb HF tr_env m]} /\
  {subset [seq m_sender m | m <- L & zhonestb m] <= tids}.
Proof.
elim: L => [|m L [IH1 IH2]] //=; case hm: (zhonestb m) => /=; last first.
  by split=> // y /IH1 yin; case: ifP => //= _; rewrite inE yin orbT.
have [-> sin] := honest_sim hm; split=> y /=; rewrite ?sender_tr !inE.
- by case/orP=> [->|/IH1 ->] //; rewrite orbT.
- by case/orP=> [/eqP ->|/IH2].
Qed.

Theorem one_faulty_cannot_block_Z fut ms :
  (k <= size (undup [seq m_sender m | m <- fut ++ ms & zhonestb m]))%N ->
  p_phase (zfinal true e fut ms) = Finished /\
  exists a b, [/\ st_hdr (p_st (zfinal true e fut ms)) = Some (a, b), eqm a (e_gsk e * hb) & eqm b (e_gsk e * hp)].
Proof.
move=> kh; have [_ E] := final_sim fut ms.
set Zs := [seq m_sender m | m <- fut ++ ms & zhonestb m] in kh.
set Fs := [seq m_sender m | m <- map tr_msg fut ++ map tr_msg ms & honestb HF tr_env m].
have [sub0 inZ0] := honest_senders_sim (fut ++ ms); rewrite map_cat -/Zs -/Fs in sub0 inZ0.
have sub : {subset map ph (undup Zs) <= undup Fs}.
  by move=> y /mapP [x]; rewrite mem_undup => xin ->; rewrite mem_undup; apply: sub0; apply: map_f.
have inZ : {subset undup Zs <= tids} by move=> x; rewrite mem_undup; apply: inZ0.
have uF : uniq (map ph (undup Zs)).
  rewrite map_inj_in_uniq ?undup_uniq // => x y /inZ xin /inZ yin; exact: ph_inj_tab.
have kF : (k <= size (undup Fs))%N.
  by apply: leq_trans kh _; rewrite -(size_map ph); apply: uniq_leq_size uF sub.
have [] := @one_faulty_cannot_block _ _ HF selF tr_env k dealersF dealersF_k k0 thrE memEF gskEF selF_ok
             notex nzF (map tr_msg fut) (map tr_msg ms) kF.
rewrite E /= => -> ; case: (st_hdr _) => [[a b]|] //= [Ea Eb]; split=> //.
by exists a, b; split=> //; apply: ph_eqm; rewrite -ph_mul.
Qed.

End DKGZ.

End Env.
End Zq.
