(* C15 — model of the share-collecting round of block signing
   (src/consensus/logical/round_sign_piece.go round1.Update / groupSignGenerator,
    round_sign_finalizer.go round2.Start / checkSignature, party.go baseParty.Update,
    src/consensus/model/message.go SignInfo.VerifySign, src/consensus/groupsig/sig.go VerifySig).

   Written once over the operations record [ops T] of C13 (V.C13.Model): instantiated with the
   operations of an arbitrary field for the theorems (Proofs.v) and with Z modulo the curve order for
   execution against the node (Harness.v).  Signatures live "in the exponent": G1 is cyclic of prime
   order r, a point is its discrete logarithm in T, H m is the (unknown) logarithm of hashToG1(m), the
   share of a member with key sk on message m is sk * H m, a public key is identified with its secret
   key, and VerifySig(pk, m, sigma) holds iff sigma = sk * H m (property C14), sigma and pk not the
   identity.  The share collector [gen]/[gen_add] and the Lagrange recovery are those of C13. *)
From Coq Require Import ZArith List Bool.
From V.C13 Require Import Model.
Import ListNotations.

(* a groupsig.Signature value: the nil signature (zero struct; also what Deserialize leaves on bytes
   that are not a curve point) or a point *)
Inductive pt (T : Type) := PNil | PVal (v : T).
Arguments PNil {T}.
Arguments PVal {T} v.

Inductive outcome :=
| ONoKey          (* GetMemberSignPubKey not ok: sender has no registered sign key in this group *)
| OHashMismatch   (* signed data hash is not the hash of the block being signed *)
| OBadSign        (* SignInfo.VerifySign failed *)
| ORandNil        (* beacon share is the nil signature *)
| OBadRand        (* beacon share does not verify over the previous beacon value *)
| ODup            (* AddWitnessSign refused: sender already present, or signature already recovered *)
| OAdded          (* share and beacon share entered the recovery sets *)
| ORecovered      (* ... and both signatures were recovered *)
| OExisted        (* checkBlockExisted: the chain already has the block; the party ends with an error *)
| OFinished       (* party has no round left (block already final for this node) *)
| OClosed.        (* party ended with an error earlier; the processor has removed it *)

Inductive term := TNone | TDone | TErrG | TErrR | TErrExisted.

Section Round.
Context {T M : Type} (o : ops T).
Variable ideq : T -> T -> bool.   (* member ids: map keys id.GetHexString() *)
Variable veq : T -> T -> bool.    (* equality of points / exponents *)
Variable isz : T -> bool.         (* ID.IsValid: the id as an integer is not 0 *)
Variable vz : T -> bool.          (* the identity point / the identity public key *)
Variable meq : M -> M -> bool.    (* equality of signed messages (32-byte hashes) *)
Variable H : M -> T.              (* hashToG1 *)
(* which entries of the share map the recovery uses, and in which order (Go map iteration) *)
Variable sel : list (T * T) -> list nat.

Record env := Env {
  e_bh : M;                   (* r.bh.Hash *)
  e_pr : M;                   (* r.preBH.Random *)
  e_members : list (T * T);   (* joined-group record: member id -> sign key (MemberSignPubkeyMap) *)
  e_thr : nat;                (* GetGroupK(member count) *)
  e_existed : bool;           (* blockchain.HasBlockByHash(bh.Hash) *)
  e_gsk : T }.                (* the group public key *)

Record msg := Msg {
  m_sender : T;               (* SignInfo.signerID *)
  m_dh : M;                   (* SignInfo.dataHash *)
  m_sig : pt T;               (* SignInfo.signature *)
  m_rsig : pt T }.            (* ConsensusVerifyMessage.RandomSign *)

Fixpoint lookup (id : T) (l : list (T * T)) : option T :=
  match l with
  | [] => None
  | (i, sk) :: l' => if ideq i id then Some sk else lookup id l'
  end.

(* groupsig.VerifySig *)
Definition verify (sk : T) (m : M) (p : pt T) : bool :=
  match p with
  | PNil => false
  | PVal s => negb (vz s) && negb (vz sk) && veq s (o.(omul) sk (H m))
  end.

Record rstate := RState {
  st_g : @gen T;              (* gSignGenerator *)
  st_r : @gen T;              (* rSignGenerator *)
  st_hdr : option (T * T);    (* bh.Signature, bh.Random once written *)
  st_can : bool }.            (* canProcessed *)

Definition r_init (e : env) : rstate := RState (gen_new (e_thr e)) (gen_new (e_thr e)) None false.

Definition gadd (g : @gen T) (id s : T) := gen_add o ideq (sel (g_map g ++ [(id, s)])) g id s.

(* round1.Update, guard by guard.  [bind] = the comparison of the signed data hash with the block
   hash is present (the code as repaired; [false] = the code as found). *)
Definition r1_update (bind : bool) (e : env) (st : rstate) (m : msg) : rstate * outcome :=
  if e_existed e then (st, OExisted) else
  match lookup (m_sender m) (e_members e) with
  | None => (st, ONoKey)
  | Some sk =>
    if bind && negb (meq (m_dh m) (e_bh e)) then (st, OHashMismatch) else
    if isz (m_sender m) || negb (verify sk (m_dh m) (m_sig m)) then (st, OBadSign) else
    match m_sig m, m_rsig m with
    | PNil, _ => (st, OBadSign)
    | PVal _, PNil => (st, ORandNil)
    | PVal s, PVal rs =>
      if negb (verify sk (e_pr e) (PVal rs)) then (st, OBadRand) else
      let '(g', add, gen) := gadd (st_g st) (m_sender m) s in
      if negb add then (st, ODup) else
      let '(r', radd, rgen) := gadd (st_r st) (m_sender m) rs in
      if radd && gen && rgen then
        (RState g' r'
           (match g_sig g', g_sig r' with Some a, Some b => Some (a, b) | _, _ => st_hdr st end) true,
         ORecovered)
      else (RState g' r' (st_hdr st) (st_can st), OAdded)
    end
  end.

(* round2.Start: checkBlockExisted, checkSignature, then GenerateBlock *)
Definition finalize (e : env) (st : rstate) : term :=
  if e_existed e then TErrExisted else
  match st_hdr st with
  | Some (gs, rs) =>
      if verify (e_gsk e) (e_bh e) (PVal gs) then
        if verify (e_gsk e) (e_pr e) (PVal rs) then TDone else TErrR
      else TErrG
  | None => TErrG
  end.

Inductive phase := Collecting | Finished | Closed.

Record pstate := PState { p_phase : phase; p_st : rstate }.

Definition p_init (e : env) : pstate := PState Collecting (r_init e).

(* baseParty.Update for one verify message while the party is in round1: the round's Update, an
   error ends the party; then the advance loop: CanProceed -> round2.Start *)
Definition party_step (bind : bool) (e : env) (ps : pstate) (m : msg) : pstate * (outcome * term) :=
  match p_phase ps with
  | Closed => (ps, (OClosed, TNone))
  | Finished => (ps, (OFinished, TNone))
  | Collecting =>
      let '(st', oc) := r1_update bind e (p_st ps) m in
      match oc with
      | OExisted => (PState Closed st', (oc, TErrExisted))
      | _ =>
          if st_can st' then
            let t := finalize e st' in
            (PState (match t with TDone => Finished | _ => Closed end) st', (oc, t))
          else (PState Collecting st', (oc, TNone))
      end
  end.

Fixpoint party_run (bind : bool) (e : env) (ps : pstate) (ms : list msg) : pstate * list (outcome * term) :=
  match ms with
  | [] => (ps, [])
  | m :: ms' =>
      let '(ps', ob) := party_step bind e ps m in
      let '(pf, l) := party_run bind e ps' ms' in (pf, ob :: l)
  end.

Definition party_final (bind : bool) (e : env) (ms : list msg) : pstate :=
  fold_left (fun ps m => fst (party_step bind e ps m)) ms (p_init e).

(* round1.Start: verify messages that arrived while round0 was still checking the proposal were
   stored (baseParty.StoreMessage) and are replayed through Update, in the order of Go's map
   iteration (here: the order of the list); an error of Update ends the party, the rest is not
   replayed.  The party's advance loop runs only after the whole replay. *)
Fixpoint r1_replay (bind : bool) (e : env) (st : rstate) (ms : list msg) : rstate * list outcome * bool :=
  match ms with
  | [] => (st, [], false)
  | m :: ms' =>
      let '(st', oc) := r1_update bind e st m in
      match oc with
      | OExisted => (st', [oc], true)
      | _ => let '(sf, l, err) := r1_replay bind e st' ms' in (sf, oc :: l, err)
      end
  end.

Definition party_start (bind : bool) (e : env) (future : list msg) : pstate * list outcome * term :=
  let '(st, l, err) := r1_replay bind e (r_init e) future in
  if err then (PState Closed st, l, TErrExisted)
  else if st_can st then
    let t := finalize e st in (PState (match t with TDone => Finished | _ => Closed end) st, l, t)
  else (PState Collecting st, l, TNone).

(* the party after the stored messages [future] and then the messages [ms] *)
Definition party_final_from (bind : bool) (e : env) (future ms : list msg) : pstate :=
  fold_left (fun ps m => fst (party_step bind e ps m)) ms (fst (fst (party_start bind e future))).

(* ---- message ids inside a party: baseParty.StoreMessage, Round.CanAccept, round1.Start ----
   Every verify message carries an id (net/msg_decode.go: the hash of its raw bytes).  While round0 is
   still checking the proposal a verify message handed to the party is stored under its id unless that
   id is already stored (CanAccept: -1).  round1.Start replays the stored messages in Go-map order
   [ford] and - unless Update returned an error - marks all their ids processed, whether or not the
   shares verified.  From then on a message whose id is processed is refused unread. *)
Section Ids.
Variable I : Type.
Variable ieq : I -> I -> bool.

Definition imem (i : I) (l : list I) : bool := existsb (ieq i) l.

Fixpoint istore (acc : list (I * msg)) (ms : list (I * msg)) : list (I * msg) * list bool :=
  match ms with
  | [] => (acc, [])
  | im :: r =>
      if imem (fst im) (map fst acc) then let '(a, l) := istore acc r in (a, false :: l)
      else let '(a, l) := istore (acc ++ [im]) r in (a, true :: l)
  end.

Variable ford : list (I * msg) -> list (I * msg).

Record iparty := IParty { ip_ps : pstate; ip_processed : list I }.

Definition istart (bind : bool) (e : env) (stored : list (I * msg)) : iparty * list outcome * term :=
  let fut := ford stored in
  let '(ps, l, t) := party_start bind e (map snd fut) in
  (IParty ps (match t with TErrExisted => [] | _ => map fst fut end), l, t).

Inductive iout := IRefused | IOut (o : outcome * term).

Definition istep (bind : bool) (e : env) (ip : iparty) (im : I * msg) : iparty * iout :=
  match p_phase (ip_ps ip) with
  | Collecting =>
      if imem (fst im) (ip_processed ip) then (ip, IRefused)
      else let '(ps', o) := party_step bind e (ip_ps ip) (snd im) in (IParty ps' (ip_processed ip), IOut o)
  | _ => let '(ps', o) := party_step bind e (ip_ps ip) (snd im) in (IParty ps' (ip_processed ip), IOut o)
  end.

Fixpoint irun (bind : bool) (e : env) (ip : iparty) (ms : list (I * msg)) : iparty * list iout :=
  match ms with
  | [] => (ip, [])
  | im :: r =>
      let '(ip', o) := istep bind e ip im in
      let '(ipf, l) := irun bind e ip' r in (ipf, o :: l)
  end.

(* the party after the messages [deliv] handed over while round0 was still checking and the messages
   [ms] afterwards *)
Definition ifinal (bind : bool) (e : env) (deliv ms : list (I * msg)) : pstate :=
  ip_ps (fst (irun bind e (fst (fst (istart bind e (fst (istore [] deliv))))) ms)).

End Ids.

(* ---- two groups: the verifier is a member of groups A and B and runs one signing party for a block
   of each.  The sign-key lookup is a function of (group, member): each party consults the joined-group
   record of its own group ([e_members] of its own environment), so a message concerning group A
   touches only A's party. ---- *)
Inductive gtag := GA | GB.

Definition two_step (bind : bool) (eA eB : env) (st : pstate * pstate) (ev : gtag * msg) : pstate * pstate :=
  match fst ev with
  | GA => (fst (party_step bind eA (fst st) (snd ev)), snd st)
  | GB => (fst st, fst (party_step bind eB (snd st) (snd ev)))
  end.

Definition two_run (bind : bool) (eA eB : env) (evs : list (gtag * msg)) : pstate * pstate :=
  fold_left (two_step bind eA eB) evs (p_init eA, p_init eB).

Definition is_gb (ev : gtag * msg) : bool := match fst ev with GB => true | GA => false end.

(* a lookup that also consults state keyed by the member alone: while a key request for a member is
   pending (sent when some group's lookup found no key for him) his key reads as missing in every
   group.  NOT what the node does; the variant the non-interference theorem excludes. *)
Definition hide (pending : list T) (e : env) : env :=
  Env (e_bh e) (e_pr e)
      (filter (fun x => negb (existsb (ideq (fst x)) pending)) (e_members e))
      (e_thr e) (e_existed e) (e_gsk e).

Definition pend_step (bind : bool) (eA eB : env) (st : pstate * pstate * list T) (ev : gtag * msg)
  : pstate * pstate * list T :=
  let '(pa, pb, pending) := st in
  let e := match fst ev with GA => eA | GB => eB end in
  let pending' :=
    match lookup (m_sender (snd ev)) (e_members e) with
    | None => m_sender (snd ev) :: pending
    | Some _ => pending
    end in
  match fst ev with
  | GA => (fst (party_step bind (hide pending eA) pa (snd ev)), pb, pending')
  | GB => (pa, fst (party_step bind (hide pending eB) pb (snd ev)), pending')
  end.

Definition pend_run (bind : bool) (eA eB : env) (evs : list (gtag * msg)) : pstate * pstate * list T :=
  fold_left (pend_step bind eA eB) evs (p_init eA, p_init eB, []).

(* ---- before the round: Processor.OnMessageVerify / OnMessageCast / waitUntilDone
   (processor_party.go) for the block with hash [e_bh e] ----
   A verify message is routed by its BlockHash field: to the party registered under that hash if there
   is one, dropped if that hash is in the finished-party cache, otherwise kept in the future-message
   cache.  The cast message creates the party; when round0's checks pass ([ok]) the party announces the
   block hash, is re-registered under it and the kept messages are handed to it, each in its own
   goroutine (order [drain]); the round starts with no stored message of its own.  A party that ended
   (done, error) is retired into the finished-party cache: nothing reaches it any more, which is what
   [party_step] does in the phases Finished/Closed.  [EvTimeout] is the 10 s timer of waitUntilDone;
   [EvEvict] is the future-message cache (an LRU over 50 block hashes) dropping this block's entry. *)
Inductive event := EvVerify (bh : M) (m : msg) | EvCast (ok : bool) | EvTimeout | EvEvict.

Record proc := Proc { pr_party : option pstate; pr_done : bool; pr_store : list msg }.

Definition proc_init : proc := Proc None false [].

Variable drain : list msg -> list msg.

Definition proc_step (bind : bool) (e : env) (pc : proc) (ev : event) : proc :=
  match ev with
  | EvVerify bh m =>
      if negb (meq bh (e_bh e)) then pc else
      match pr_party pc with
      | Some ps => Proc (Some (fst (party_step bind e ps m))) (pr_done pc) (pr_store pc)
      | None => if pr_done pc then pc else Proc None false (pr_store pc ++ [m])
      end
  | EvCast ok =>
      match pr_party pc with
      | Some _ => pc
      | None =>
          if pr_done pc then pc else
          if ok then
            Proc (Some (fold_left (fun ps m => fst (party_step bind e ps m)) (drain (pr_store pc))
                                  (fst (fst (party_start bind e [])))))
                 false []
          else pc
      end
  | EvTimeout =>
      match pr_party pc with
      | Some ps =>
          match p_phase ps with
          | Collecting => Proc (Some (PState Closed (p_st ps))) true (pr_store pc)
          | _ => pc
          end
      | None => pc
      end
  | EvEvict => Proc (pr_party pc) (pr_done pc) []
  end.

Definition proc_run (bind : bool) (e : env) (evs : list event) : proc :=
  fold_left (proc_step bind e) evs proc_init.

End Round.

(* ---- instance: integers modulo q, messages named by their index in a table of logarithms ---- *)
Definition zveq (q a b : Z) : bool := ((a mod q) =? (b mod q))%Z.
Definition zvz (q a : Z) : bool := ((a mod q) =? 0)%Z.
Definition zH (hs : list Z) (i : nat) : Z := nth i hs 0%Z.
(* the executable model recovers from all entries in arrival order (the result does not depend on the
   choice: C13) *)
Definition zsel (m : list (Z * Z)) : list nat := seq 0 (length m).

Definition zparty_run (q : Z) (hs : list Z) (bind : bool) (e : @env Z nat) (ms : list (@msg Z nat)) :=
  party_run (zq q) Z.eqb (zveq q) (Z.eqb 0) (zvz q) Nat.eqb (zH hs) zsel bind e (p_init e) ms.

Definition zparty_start (q : Z) (hs : list Z) (bind : bool) (e : @env Z nat) (fut : list (@msg Z nat)) :=
  party_start (zq q) Z.eqb (zveq q) (Z.eqb 0) (zvz q) Nat.eqb (zH hs) zsel bind e fut.

Definition zparty_run_from (q : Z) (hs : list Z) (bind : bool) (e : @env Z nat) (ps : @pstate Z)
  (ms : list (@msg Z nat)) :=
  party_run (zq q) Z.eqb (zveq q) (Z.eqb 0) (zvz q) Nat.eqb (zH hs) zsel bind e ps ms.

(* the final party state of the run Harness.check evaluates: stored messages [fut] replayed at the
   start of the round, then the messages [ms] *)
Definition zmodel_final (q : Z) (hs : list Z) (bind : bool) (e : @env Z nat) (fut ms : list (@msg Z nat)) : @pstate Z :=
  fst (zparty_run_from q hs bind e (fst (fst (zparty_start q hs bind e fut))) ms).
