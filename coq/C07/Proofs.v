(* C07 proofs: decimal / hex rendering lemmas, the preimage lemma for single-field mutations, and the
   soundness / completeness / mutation theorems of the native and Ethereum decision procedures. *)
From Coq Require Import List NArith ZArith Bool Lia.
From V.Base Require Import Hex BigEndian.
From V.C08 Require Import Model Typed Proofs TypedProofs.
From V.C07 Require Import Model.
Import ListNotations.
Local Open Scope N_scope.

Lemma nz10 : 10 <> 0. Proof. discriminate. Qed.
Lemma nz16 : 16 <> 0. Proof. discriminate. Qed.

(* ------------------------------------------------------------------ *)
(* decimal rendering is injective                                      *)
(* ------------------------------------------------------------------ *)
Fixpoint undec_rev (l : bytes) : N :=
  match l with
  | [] => 0
  | d :: r => (d - 48) + 10 * undec_rev r
  end.

Lemma dec_rev_undec f : forall n, n < 2 ^ N.of_nat f -> undec_rev (dec_rev f n) = n.
Proof.
  induction f as [|f IH]; intros n Hn.
  - cbn in Hn. assert (n = 0) by lia. subst. reflexivity.
  - cbn [dec_rev]. destruct (N.ltb_spec n 10) as [Hlt|Hge].
    + cbn [undec_rev]. clear Hn IH. lia.
    + cbn [undec_rev]. rewrite IH.
      * rewrite (N.add_comm 48), N.add_sub, N.add_comm. symmetry. apply N.div_mod. exact nz10.
      * rewrite Nat2N.inj_succ, N.pow_succ_r' in Hn.
        apply N.div_lt_upper_bound; [lia|].
        assert (2 * 2 ^ N.of_nat f <= 10 * 2 ^ N.of_nat f) by (apply N.mul_le_mono_r; lia). lia.
Qed.

Lemma log2_fuel n : n < 2 ^ N.of_nat (S (N.to_nat (N.log2 n))).
Proof.
  rewrite Nat2N.inj_succ, N2Nat.id.
  destruct n as [|p]; [cbn; lia|]. apply N.log2_spec. lia.
Qed.

Lemma dec_inj a b : dec a = dec b -> a = b.
Proof.
  unfold dec. intro H.
  apply (f_equal (@rev N)) in H. rewrite !rev_involutive in H.
  apply (f_equal undec_rev) in H.
  rewrite !dec_rev_undec in H by apply log2_fuel. exact H.
Qed.

Definition is_digit (c : N) : Prop := 48 <= c <= 57.

Lemma dec_rev_digits f : forall n, Forall is_digit (dec_rev f n).
Proof.
  induction f as [|f IH]; intro n; cbn [dec_rev]; [constructor|].
  destruct (N.ltb_spec n 10).
  - constructor; [unfold is_digit; lia | constructor].
  - constructor; [|apply IH]. unfold is_digit. pose proof (N.mod_upper_bound n 10 nz10). remember (n mod 10) as m eqn:Em. clear Em. lia.
Qed.

Lemma dec_digits n : Forall is_digit (dec n).
Proof. unfold dec. apply Forall_rev, dec_rev_digits. Qed.

Lemma dec_not_minus n r : dec n <> 45 :: r.
Proof.
  intro H. pose proof (dec_digits n) as F. rewrite H in F. inversion F as [|? ? D]. unfold is_digit in D. lia.
Qed.

Lemma itoa_inj a b : itoa a = itoa b -> a = b.
Proof.
  unfold itoa. destruct (Z.ltb_spec a 0) as [La|La], (Z.ltb_spec b 0) as [Lb|Lb]; intro E.
  - inversion E as [H1]. apply dec_inj in H1. lia.
  - symmetry in E. apply dec_not_minus in E. contradiction.
  - apply dec_not_minus in E. contradiction.
  - apply dec_inj in E. lia.
Qed.

(* ------------------------------------------------------------------ *)
(* a single-field change changes the preimage                          *)
(* ------------------------------------------------------------------ *)
Definition set_data (t : tx) (x : bytes) : tx :=
  mkTx (t_source t) (t_target t) (t_type t) (t_time t) x (t_extra t) (t_hash t) (t_sign t) (t_nonce t) (t_chainid t).
Definition set_nonce (t : tx) (x : N) : tx :=
  mkTx (t_source t) (t_target t) (t_type t) (t_time t) (t_data t) (t_extra t) (t_hash t) (t_sign t) x (t_chainid t).
Definition set_source (t : tx) (x : bytes) : tx :=
  mkTx x (t_target t) (t_type t) (t_time t) (t_data t) (t_extra t) (t_hash t) (t_sign t) (t_nonce t) (t_chainid t).
Definition set_target (t : tx) (x : bytes) : tx :=
  mkTx (t_source t) x (t_type t) (t_time t) (t_data t) (t_extra t) (t_hash t) (t_sign t) (t_nonce t) (t_chainid t).
Definition set_type (t : tx) (x : Z) : tx :=
  mkTx (t_source t) (t_target t) x (t_time t) (t_data t) (t_extra t) (t_hash t) (t_sign t) (t_nonce t) (t_chainid t).
Definition set_time (t : tx) (x : bytes) : tx :=
  mkTx (t_source t) (t_target t) (t_type t) x (t_data t) (t_extra t) (t_hash t) (t_sign t) (t_nonce t) (t_chainid t).
Definition set_extra (t : tx) (x : bytes) : tx :=
  mkTx (t_source t) (t_target t) (t_type t) (t_time t) (t_data t) x (t_hash t) (t_sign t) (t_nonce t) (t_chainid t).
Definition set_chainid (t : tx) (x : bytes) : tx :=
  mkTx (t_source t) (t_target t) (t_type t) (t_time t) (t_data t) (t_extra t) (t_hash t) (t_sign t) (t_nonce t) x.
Definition set_hash (t : tx) (x : bytes) : tx :=
  mkTx (t_source t) (t_target t) (t_type t) (t_time t) (t_data t) (t_extra t) x (t_sign t) (t_nonce t) (t_chainid t).
Definition set_sign (t : tx) (x : option sig) : tx :=
  mkTx (t_source t) (t_target t) (t_type t) (t_time t) (t_data t) (t_extra t) (t_hash t) x (t_nonce t) (t_chainid t).

(* [t'] is [t] with exactly one of the eight hashed fields replaced by a different value
   (Hash and Sign untouched) *)
Inductive mut1 (t : tx) : tx -> Prop :=
| M_data x : x <> t_data t -> mut1 t (set_data t x)
| M_nonce x : x <> t_nonce t -> mut1 t (set_nonce t x)
| M_source x : x <> t_source t -> mut1 t (set_source t x)
| M_target x : x <> t_target t -> mut1 t (set_target t x)
| M_type x : x <> t_type t -> mut1 t (set_type t x)
| M_time x : x <> t_time t -> mut1 t (set_time t x)
| M_extra x : x <> t_extra t -> mut1 t (set_extra t x)
| M_chainid x : x <> t_chainid t -> mut1 t (set_chainid t x).

Lemma mid_inj (a x y b : bytes) : a ++ x ++ b = a ++ y ++ b -> x = y.
Proof. intro H. apply app_inv_head in H. apply app_inv_tail in H. exact H. Qed.

Lemma preimage_mut1 t t' : mut1 t t' -> preimage t' <> preimage t.
Proof.
  intros M E. destruct M as [x Hx|x Hx|x Hx|x Hx|x Hx|x Hx|x Hx|x Hx]; unfold preimage in E; cbn in E; apply Hx.
  - apply app_inv_tail in E. exact E.
  - apply dec_inj. eapply mid_inj. exact E.
  - eapply (mid_inj (t_data t ++ dec (t_nonce t))). rewrite <- !app_assoc. exact E.
  - eapply (mid_inj (t_data t ++ dec (t_nonce t) ++ t_source t)). rewrite <- !app_assoc. exact E.
  - apply itoa_inj. eapply (mid_inj (t_data t ++ dec (t_nonce t) ++ t_source t ++ t_target t)).
    rewrite <- !app_assoc. exact E.
  - eapply (mid_inj (t_data t ++ dec (t_nonce t) ++ t_source t ++ t_target t ++ itoa (t_type t))).
    rewrite <- !app_assoc. exact E.
  - eapply (mid_inj (t_data t ++ dec (t_nonce t) ++ t_source t ++ t_target t ++ itoa (t_type t) ++ t_time t)).
    rewrite <- !app_assoc. exact E.
  - rewrite !app_assoc in E. apply app_inv_head in E. exact E.
Qed.

(* the boundary between two neighbouring fields is not marked: moving a byte across it keeps the preimage *)
Lemma preimage_shift : forall t c,
  preimage (set_extra (set_time t (t_time t ++ [c])) (t_extra t)) =
  preimage (set_extra (set_time t (t_time t)) (c :: t_extra t)).
Proof. intros t c. unfold preimage. cbn. rewrite <- !app_assoc. reflexivity. Qed.

(* ------------------------------------------------------------------ *)
(* hex                                                                  *)
(* ------------------------------------------------------------------ *)
Lemma hexval_hexdig n : n < 16 -> hexval_opt (hexdig n) = Some n.
Proof.
  intro H.
  assert (C : n = 0 \/ n = 1 \/ n = 2 \/ n = 3 \/ n = 4 \/ n = 5 \/ n = 6 \/ n = 7 \/ n = 8 \/ n = 9 \/
              n = 10 \/ n = 11 \/ n = 12 \/ n = 13 \/ n = 14 \/ n = 15) by lia.
  repeat (destruct C as [->|C]; [reflexivity|]). subst. reflexivity.
Qed.

Lemma hex_decode_hexlower b : bytes_ok b -> hex_decode (hexlower b) = b.
Proof.
  induction 1 as [|x l Hx Hl IH]; [reflexivity|].
  cbn [hexlower hex_decode]. unfold byte_ok in Hx.
  rewrite !hexval_hexdig.
  - rewrite IH. f_equal. symmetry. apply N.div_mod. exact nz16.
  - apply N.mod_upper_bound. lia.
  - apply N.div_lt_upper_bound; lia.
Qed.

Lemma hexlower_length b : List.length (hexlower b) = (2 * List.length b)%nat.
Proof. induction b; cbn [hexlower List.length]; [reflexivity|]. rewrite IHb. lia. Qed.

Lemma from_to_hex b : bytes_ok b -> b <> [] -> from_hex (to_hex b) = b.
Proof.
  intros Hb Hne. destruct b as [|x r]; [contradiction|].
  unfold to_hex, from_hex. cbn [N.eqb Pos.eqb andb orb].
  rewrite hexlower_length.
  replace (Nat.odd (2 * List.length (x :: r))) with false.
  - apply hex_decode_hexlower. exact Hb.
  - symmetry. rewrite Nat.odd_mul. reflexivity.
Qed.

Lemma hex_decode_ok s : bytes_ok (hex_decode s).
Proof.
  assert (G : forall n (s : bytes), (List.length s <= n)%nat -> bytes_ok (hex_decode s)).
  { induction n as [|n IH]; intros s0 L.
    - destruct s0; [constructor | cbn in L; lia].
    - destruct s0 as [|a [|b r]]; try constructor.
      cbn [hex_decode]. unfold hexval_opt.
      assert (R : bytes_ok (hex_decode r)) by (apply IH; cbn in L; lia).
      repeat match goal with
             | |- context [if ?c then _ else _] => let E := fresh in destruct c eqn:E
             end; try constructor; try exact R; unfold byte_ok;
        repeat match goal with
               | H : andb _ _ = true |- _ => apply andb_true_iff in H as [? ?]
               | H : (_ <=? _) = true |- _ => apply N.leb_le in H
               end; lia. }
  apply (G (List.length s)). lia.
Qed.

Lemma from_hex_ok s : bytes_ok (from_hex s).
Proof.
  unfold from_hex. destruct s as [|a [|b r]]; try constructor.
  apply hex_decode_ok.
Qed.

(* ------------------------------------------------------------------ *)
(* the RLP encoder emits bytes                                          *)
(* ------------------------------------------------------------------ *)
Lemma head_ok base n : base <= 192 -> n < 2 ^ 64 -> bytes_ok (head base n).
Proof.
  intros Hb Hn. unfold head. destruct (N.ltb_spec n 56).
  - constructor; [unfold byte_ok; lia | constructor].
  - constructor; [|apply beb_ok].
    unfold byte_ok, len.
    assert (L : (List.length (beb n) <= 8)%nat) by (apply beb_length; exact Hn).
    lia.
Qed.

Lemma encode_ok : forall t, item_ok t -> bytes_ok (encode t).
Proof.
  apply (item_ind2 (fun t => item_ok t -> bytes_ok (encode t))
                   (fun l => Forall item_ok l -> bytes_ok (enc_seq l))).
  - intros b [Hb Hl]. cbn [encode]. unfold enc_str.
    destruct b as [|x [|y r]].
    + apply bytes_ok_app; [apply head_ok; cbn; lia | constructor].
    + destruct (x <? 128); [exact Hb|]. apply bytes_ok_app; [apply head_ok; cbn; lia | exact Hb].
    + apply bytes_ok_app; [apply head_ok; [lia | exact Hl] | exact Hb].
  - intros l IH H. apply item_ok_Lst in H as [HF HL]. cbn [encode]. fold (enc_seq l).
    apply bytes_ok_app; [apply head_ok; [lia | exact HL] | apply IH, HF].
  - intros _. constructor.
  - intros t l IHt IHl HF. inversion HF; subst. unfold enc_seq. cbn [map concat].
    apply bytes_ok_app; [apply IHt; assumption | apply IHl; assumption].
Qed.

(* ------------------------------------------------------------------ *)
(* bytes_eqb helpers                                                    *)
(* ------------------------------------------------------------------ *)
Lemma beq_refl b : bytes_eqb b b = true.
Proof. apply bytes_eqb_eq. reflexivity. Qed.

Lemma beq_false a b : a <> b -> bytes_eqb a b = false.
Proof. intro H. destruct (bytes_eqb a b) eqn:E; [apply bytes_eqb_eq in E; contradiction | reflexivity]. Qed.

Section AuthProofs.
  Variable sha256 : bytes -> bytes.
  Variable keccak : bytes -> bytes.
  Variable recover : bytes -> bytes -> N -> option bytes.
  Variable verify_sig : bytes -> bytes -> bytes -> bool.

  Notation verify_native := (verify_native sha256 keccak recover verify_sig).
  Notation verify_sign := (verify_sign keccak recover verify_sig).
  Notation verify_eth := (verify_eth keccak recover).
  Notation eth_trace := (eth_trace keccak recover).
  Notation eth_sender := (eth_sender keccak recover).
  Notation recover_plain := (recover_plain keccak recover).
  Notation verify := (verify sha256 keccak recover verify_sig).
  Notation gen_hash := (gen_hash sha256).
  Notation addr_of := (addr_of keccak).
  Notation convert := (convert keccak).

  (* what an accepted signature check established *)
  Definition signed_by_source (t : tx) : Prop :=
    exists sg v pk, t_sign t = Some sg /\ norm_recid (sg_v sg) = Some v /\
                    recover (t_hash t) (sig_rs sg) v = Some pk /\
                    verify_sig pk (t_hash t) (sig_rs sg) = true /\
                    t_source t = to_hex (addr_of pk).

  Lemma verify_sign_iff t : verify_sign t = Accept <-> signed_by_source t.
  Proof.
    unfold Model.verify_sign, signed_by_source. split.
    - destruct (t_sign t) as [sg|] eqn:Sg; [|discriminate].
      destruct (norm_recid (sg_v sg)) as [v|] eqn:Nr; [|discriminate].
      destruct (recover (t_hash t) (sig_rs sg) v) as [pk|] eqn:R; [|discriminate].
      destruct (verify_sig pk (t_hash t) (sig_rs sg)) eqn:V; [|discriminate]. cbn [negb].
      destruct (bytes_eqb (t_source t) (to_hex (addr_of pk))) eqn:E; [|discriminate].
      intros _. apply bytes_eqb_eq in E. exists sg, v, pk. repeat split; auto.
    - intros (sg & v & pk & -> & -> & -> & -> & E). cbn [negb]. rewrite E, beq_refl. reflexivity.
  Qed.

  Lemma verify_sign_verdict t : verify_sign t = Accept \/ verify_sign t = RSign.
  Proof.
    unfold Model.verify_sign.
    destruct (t_sign t) as [sg|]; [|right; reflexivity].
    destruct (norm_recid (sg_v sg)) as [v|]; [|right; reflexivity].
    destruct (recover (t_hash t) (sig_rs sg) v) as [pk|]; [|right; reflexivity].
    destruct (negb (verify_sig pk (t_hash t) (sig_rs sg))); [right; reflexivity|].
    destruct (bytes_eqb (t_source t) (to_hex (addr_of pk))); [left|right]; reflexivity.
  Qed.

  (* ---------------- native ---------------- *)
  Theorem native_accept_iff chain t :
    verify_native chain t = Accept <->
    t_chainid t = chain /\ t_hash t = sha256 (preimage t) /\ signed_by_source t.
  Proof.
    unfold Model.verify_native, verify_native_h, Model.gen_hash. split.
    - destruct (bytes_eqb (t_chainid t) chain) eqn:C; [|discriminate]. cbn [negb].
      destruct (bytes_eqb (t_hash t) (sha256 (preimage t))) eqn:Hh; [|discriminate]. cbn [negb].
      intro S. apply bytes_eqb_eq in C. apply bytes_eqb_eq in Hh. apply verify_sign_iff in S. auto.
    - intros (C & Hh & S). rewrite C, beq_refl. cbn [negb]. rewrite <- Hh, beq_refl. cbn [negb].
      apply verify_sign_iff. exact S.
  Qed.

  Theorem native_sound chain t :
    verify_native chain t = Accept ->
    t_hash t = sha256 (preimage t) /\ t_chainid t = chain /\
    exists sg v pk, t_sign t = Some sg /\ norm_recid (sg_v sg) = Some v /\
                    recover (t_hash t) (sig_rs sg) v = Some pk /\
                    verify_sig pk (t_hash t) (sig_rs sg) = true /\
                    t_source t = to_hex (addr_of pk).
  Proof. intro A. apply native_accept_iff in A as (C & Hh & S). auto. Qed.

  (* honest construction: content, then Hash := GenHash(), Sign := sign(sk, Hash), Source := address(pub(sk)) *)
  Definition honest_native (sign : bytes -> bytes -> sig) (pub_of : bytes -> bytes) (chain : bytes)
             (sk target : bytes) (ty : Z) (time data extra : bytes) (nonce : N) : tx :=
    let src := to_hex (addr_of (pub_of sk)) in
    let t0 := mkTx src target ty time data extra [] None nonce chain in
    let h := sha256 (preimage t0) in
    mkTx src target ty time data extra h (Some (sign sk h)) nonce chain.

  Theorem native_complete (sign : bytes -> bytes -> sig) (pub_of : bytes -> bytes) :
    (forall sk h, exists v, norm_recid (sg_v (sign sk h)) = Some v /\
                            recover h (sig_rs (sign sk h)) v = Some (pub_of sk) /\
                            verify_sig (pub_of sk) h (sig_rs (sign sk h)) = true) ->
    forall chain sk target ty time data extra nonce,
      verify_native chain (honest_native sign pub_of chain sk target ty time data extra nonce) = Accept.
  Proof.
    intros Hs chain sk target ty time data extra nonce.
    apply native_accept_iff. unfold honest_native. cbn.
    split; [reflexivity|]. split; [reflexivity|].
    set (h := sha256 _).
    destruct (Hs sk h) as (v & N1 & R & V).
    exists (sign sk h), v, (pub_of sk). cbn. auto.
  Qed.

  (* ---- mutations of an accepted native transaction ---- *)
  Lemma mut1_keeps_hash t t' : mut1 t t' -> t_hash t' = t_hash t.
  Proof. destruct 1; reflexivity. Qed.

  Theorem native_field_mutation_rejected chain t t' :
    verify_native chain t = Accept -> mut1 t t' ->
    sha256 (preimage t') <> sha256 (preimage t) ->
    verify_native chain t' = RChainId \/ verify_native chain t' = RHash.
  Proof.
    intros A M NC. apply native_accept_iff in A as (C & Hh & S).
    unfold Model.verify_native, verify_native_h, Model.gen_hash.
    destruct (bytes_eqb (t_chainid t') chain); [|left; reflexivity]. cbn [negb].
    rewrite (mut1_keeps_hash _ _ M), Hh, beq_false; [right; reflexivity|].
    intro E. apply NC. symmetry. exact E.
  Qed.

  (* the chain id is checked before anything else: no hash assumption *)
  Theorem native_chainid_mutation_rejected chain t x :
    verify_native chain t = Accept -> x <> t_chainid t ->
    verify_native chain (set_chainid t x) = RChainId.
  Proof.
    intros A Hx. apply native_accept_iff in A as (C & _).
    unfold Model.verify_native, verify_native_h. cbn [t_chainid set_chainid].
    rewrite beq_false; [reflexivity|]. congruence.
  Qed.

  Theorem native_hash_mutation_rejected chain t x :
    verify_native chain t = Accept -> x <> t_hash t ->
    verify_native chain (set_hash t x) = RHash.
  Proof.
    intros A Hx. apply native_accept_iff in A as (C & Hh & _).
    unfold Model.verify_native, verify_native_h, Model.gen_hash. cbn [t_chainid t_hash set_hash].
    rewrite C, beq_refl. cbn [negb].
    replace (preimage (set_hash t x)) with (preimage t) by reflexivity.
    rewrite <- Hh, beq_false; [reflexivity|exact Hx].
  Qed.

  (* a changed signature is accepted only if it, too, recovers to a key with the declared address *)
  Theorem native_sign_mutation chain t x :
    verify_native chain (set_sign t x) = Accept ->
    exists sg v pk, x = Some sg /\ norm_recid (sg_v sg) = Some v /\
                    recover (t_hash t) (sig_rs sg) v = Some pk /\
                    verify_sig pk (t_hash t) (sig_rs sg) = true /\ t_source t = to_hex (addr_of pk).
  Proof. intro A. apply native_sound in A as (_ & _ & S). exact S. Qed.

  Theorem native_sign_mutation_rejected chain t x :
    verify_native chain t = Accept ->
    (forall sg v pk, x = Some sg -> norm_recid (sg_v sg) = Some v ->
                     recover (t_hash t) (sig_rs sg) v = Some pk ->
                     verify_sig pk (t_hash t) (sig_rs sg) = true -> to_hex (addr_of pk) <> t_source t) ->
    verify_native chain (set_sign t x) = RSign.
  Proof.
    intros A Hx. apply native_accept_iff in A as (C & Hh & _).
    unfold Model.verify_native, verify_native_h, Model.gen_hash. cbn [t_chainid t_hash set_sign].
    rewrite C, beq_refl. cbn [negb].
    replace (preimage (set_sign t x)) with (preimage t) by reflexivity.
    rewrite <- Hh, beq_refl. cbn [negb].
    destruct (verify_sign_verdict (set_sign t x)) as [S|S]; [|exact S].
    apply verify_sign_iff in S. destruct S as (sg & v & pk & E1 & E2 & E3 & E4 & E5). cbn in *.
    exfalso. eapply Hx; eauto.
  Qed.

  (* the recovery id byte has two spellings: v and v + 27 denote the same signature *)
  Theorem native_recid_alias chain t sg :
    t_sign t = Some sg -> sg_v sg < 4 ->
    verify_native chain (set_sign t (Some (mkSig (sg_r sg) (sg_s sg) (sg_v sg + 27)))) = verify_native chain t.
  Proof.
    intros E Hv.
    unfold Model.verify_native, verify_native_h, Model.gen_hash, Model.verify_sign.
    cbn [t_chainid t_hash t_sign t_source set_sign sg_v sg_r sg_s].
    replace (preimage (set_sign t _)) with (preimage t) by reflexivity.
    rewrite E. unfold sig_rs. cbn [sg_r sg_s sg_v].
    assert (N1 : norm_recid (sg_v sg + 27) = Some (sg_v sg)).
    { unfold norm_recid. destruct (N.ltb_spec 26 (sg_v sg + 27)); [|lia].
      replace (sg_v sg + 27 - 27) with (sg_v sg) by lia.
      destruct (N.leb_spec 4 (sg_v sg)); [lia|reflexivity]. }
    assert (N2 : norm_recid (sg_v sg) = Some (sg_v sg)).
    { unfold norm_recid. destruct (N.ltb_spec 26 (sg_v sg)); [lia|].
      destruct (N.leb_spec 4 (sg_v sg)); [lia|reflexivity]. }
    rewrite N1, N2. reflexivity.
  Qed.

  (* two transactions with the same preimage, hash, signature, sender and chain id get the same verdict *)
  Theorem native_same_preimage chain t t' :
    preimage t' = preimage t -> t_hash t' = t_hash t -> t_sign t' = t_sign t ->
    t_source t' = t_source t -> t_chainid t' = t_chainid t ->
    verify_native chain t' = verify_native chain t.
  Proof.
    intros P Hh S So C.
    unfold Model.verify_native, verify_native_h, Model.gen_hash, Model.verify_sign.
    rewrite P, Hh, S, So, C. reflexivity.
  Qed.

  (* ---------------- Ethereum ---------------- *)
  Lemma compare_tx_iff t x :
    compare_tx t x = true <->
    t_source t = t_source x /\ t_target t = t_target x /\ t_type t = t_type x /\ t_extra t = t_extra x /\
    t_nonce t = t_nonce x /\ t_chainid t = t_chainid x /\ t_data t = t_data x /\ t_hash t = t_hash x.
  Proof.
    unfold compare_tx. rewrite !andb_true_iff, !bytes_eqb_eq, Z.eqb_eq, N.eqb_eq. tauto.
  Qed.

  Lemma verify_eth_accept chain t :
    verify_eth chain t = Accept <->
    exists v e a, decode_etx (from_hex (t_extra t)) = Some (v, e) /\ eth_sender chain e = SOk a /\
                  compare_tx t (convert v e a (from_hex (t_extra t))) = true.
  Proof.
    unfold Model.verify_eth, Model.eth_trace. split.
    - destruct (decode_etx (from_hex (t_extra t))) as [[v e]|] eqn:D; [|discriminate].
      destruct (eth_sender chain e) as [a|k] eqn:S; [|discriminate]. cbn [verdict_of_trace].
      destruct (compare_tx t _) eqn:C; [|discriminate]. intros _. exists v, e, a. auto.
    - intros (v & e & a & -> & -> & C). cbn [verdict_of_trace]. rewrite C. reflexivity.
  Qed.

  Lemma verify_eth_verdict chain t : verify_eth chain t = Accept \/ verify_eth chain t = RIllegal.
  Proof.
    unfold Model.verify_eth. destruct (eth_trace chain t) as [| |x [|]]; cbn; auto.
  Qed.

  Lemma txdata_ty_ok : ty_ok txdata_ty = true.
  Proof. reflexivity. Qed.

  (* the recomputed Ethereum hash is the digest of the payload bytes themselves (RLP is canonical: C08) *)
  Lemma decode_etx_reencode b v e :
    decode_etx b = Some (v, e) -> bytes_ok b -> encode_typed txdata_ty v = Some b.
  Proof.
    unfold decode_etx. destruct (decode_typed txdata_ty b) as [v'|] eqn:D; [|discriminate].
    destruct (etx_of_value v') as [e'|]; [|discriminate]. intros [= <- <-] Hb.
    apply typed_canonical; [apply txdata_ty_ok | exact Hb | exact D].
  Qed.

  Lemma decode_etx_value b v e : decode_etx b = Some (v, e) -> v = value_of_etx e.
  Proof.
    unfold decode_etx. destruct (decode_typed txdata_ty b) as [v'|]; [|discriminate].
    destruct (etx_of_value v') as [e'|] eqn:E; [|discriminate]. intros [= <- <-].
    unfold etx_of_value in E.
    repeat match type of E with
           | match ?x with _ => _ end = _ => destruct x; try discriminate
           end; inversion E; reflexivity.
  Qed.

  Theorem eth_sound chain t :
    verify_eth chain t = Accept ->
    exists e a,
      let enc := from_hex (t_extra t) in
      decode_etx enc = Some (value_of_etx e, e) /\
      eth_sender chain e = SOk a /\
      t_extra t = to_hex enc /\
      t_source t = to_hex a /\
      t_target t = match e_to e with Some x => to_hex x | None => [] end /\
      t_nonce t = e_nonce e /\
      t_data t = contract_json e /\
      t_chainid t = dec (derive_chain_id (e_v e)) /\
      t_hash t = keccak enc.
  Proof.
    intro A. apply verify_eth_accept in A as (v & e & a & D & S & C).
    apply compare_tx_iff in C as (C1 & C2 & _ & C4 & C5 & C6 & C7 & C8).
    unfold Model.convert in *. cbn in *.
    pose proof (decode_etx_value _ _ _ D) as ->.
    rewrite (decode_etx_reencode _ _ _ D (from_hex_ok _)) in C8.
    exists e, a. cbn. auto 10.
  Qed.

  (* what a successful sender derivation means *)
  Lemma recover_plain_ok h r s vb a :
    recover_plain h r s vb = SOk a ->
    exists rid pub, (rid = 0 \/ rid = 1) /\ (Z.abs vb = 27 + Z.of_N rid)%Z /\ validate_sig rid r s = true /\
                    recover h (pad32 r ++ pad32 s) rid = Some pub /\ a = addr_of pub.
  Proof.
    unfold Model.recover_plain.
    destruct (N.leb_spec 256 (Z.to_N (Z.abs vb))) as [|Hlt]; [discriminate|].
    set (rid := (Z.to_N (Z.abs vb) + 256 - 27) mod 256).
    destruct (validate_sig rid r s) eqn:V; [|discriminate]. cbn [negb].
    destruct (recover h (pad32 r ++ pad32 s) rid) as [pub|] eqn:R; [|discriminate].
    intros [= <-]. exists rid, pub.
    assert (Hr : rid = 0 \/ rid = 1).
    { unfold validate_sig in V. rewrite !andb_true_iff, orb_true_iff, !N.eqb_eq in V. tauto. }
    repeat split; try assumption.
    assert (Hz : (0 <= Z.abs vb)%Z) by apply Z.abs_nonneg.
    set (a := Z.to_N (Z.abs vb)) in *.
    assert (Ha : Z.abs vb = Z.of_N a) by (unfold a; rewrite Z2N.id; lia).
    rewrite Ha. clearbody a.
    destruct (N.ltb_spec a 27) as [Hs|Hs].
    - assert (rid = a + 229).
      { unfold rid. replace (a + 256 - 27) with (a + 229) by lia. apply N.mod_small. lia. }
      lia.
    - assert (rid = a - 27).
      { unfold rid. replace (a + 256 - 27) with ((a - 27) + 1 * 256) by lia.
        rewrite N.mod_add by lia. apply N.mod_small. lia. }
      lia.
  Qed.

  (* a payload with V outside {27, 28} is accepted only for this chain: EIP-155 proper *)
  Theorem eth_protected_sound chain e a :
    eth_sender chain e = SOk a -> protected_v (e_v e) = true ->
    derive_chain_id (e_v e) = chain /\
    exists rid pub, (rid = 0 \/ rid = 1) /\
                    (Z.abs (Z.of_N (e_v e) - 2 * Z.of_N chain - 8) = 27 + Z.of_N rid)%Z /\
                    validate_sig rid (e_r e) (e_s e) = true /\
                    recover (sighash_155 keccak chain e) (pad32 (e_r e) ++ pad32 (e_s e)) rid = Some pub /\
                    a = addr_of pub.
  Proof.
    unfold Model.eth_sender. intros S P. rewrite P in S. cbn [negb] in S.
    destruct (N.eqb_spec (derive_chain_id (e_v e)) chain) as [E|E]; [|discriminate].
    cbn [negb] in S. split; [exact E|]. apply recover_plain_ok in S. exact S.
  Qed.

  (* ... whereas for V in {27, 28} the chain id plays no role at all *)
  Theorem eth_unprotected_any_chain c1 c2 e :
    protected_v (e_v e) = false -> eth_sender c1 e = eth_sender c2 e.
  Proof. unfold Model.eth_sender. intros ->. reflexivity. Qed.

  Theorem eth_unprotected_verdict_any_chain c1 c2 t v e :
    decode_etx (from_hex (t_extra t)) = Some (v, e) -> protected_v (e_v e) = false ->
    verify_eth c1 t = verify_eth c2 t.
  Proof.
    intros D P. unfold Model.verify_eth, Model.eth_trace. rewrite D.
    rewrite (eth_unprotected_any_chain c1 c2 e P). reflexivity.
  Qed.

  Lemma unprotected_chain_zero v : protected_v v = false -> derive_chain_id v = 0.
  Proof.
    unfold protected_v, derive_chain_id.
    destruct (N.ltb_spec v 256) as [H|H]; [|discriminate].
    destruct ((v =? 27) || (v =? 28)) eqn:E; [|discriminate]. intros _.
    destruct (N.ltb_spec v two64) as [|H2]; [reflexivity|]. unfold two64 in H2. lia.
  Qed.

  (* an accepted unprotected payload declares chain id "0" *)
  Theorem eth_unprotected_declares_zero chain t :
    verify_eth chain t = Accept ->
    forall v e, decode_etx (from_hex (t_extra t)) = Some (v, e) -> protected_v (e_v e) = false ->
    t_chainid t = [48].
  Proof.
    intros A v e D P. apply eth_sound in A as (e' & a & D' & _ & _ & _ & _ & _ & _ & C & _).
    cbn in D'. rewrite D in D'. inversion D'; subst e'.
    rewrite C, (unprotected_chain_zero _ P). reflexivity.
  Qed.

  (* every compared field of an accepted wrapper is determined by ExtraData: changing any one of them
     (Source, Target, Nonce, ChainId, Data, Hash) while keeping ExtraData is rejected, unconditionally *)
  Theorem eth_wrapper_unique chain t t' :
    verify_eth chain t = Accept -> verify_eth chain t' = Accept -> t_extra t' = t_extra t ->
    t_source t' = t_source t /\ t_target t' = t_target t /\ t_nonce t' = t_nonce t /\
    t_chainid t' = t_chainid t /\ t_data t' = t_data t /\ t_hash t' = t_hash t.
  Proof.
    intros A A' E.
    apply verify_eth_accept in A as (v & e & a & D & S & C).
    apply verify_eth_accept in A' as (v' & e' & a' & D' & S' & C').
    rewrite E in D'. rewrite D in D'. inversion D'; subst v' e'. rewrite S in S'. inversion S'; subst a'.
    rewrite E in C'.
    apply compare_tx_iff in C as (C1 & C2 & _ & C4 & C5 & C6 & C7 & C8).
    apply compare_tx_iff in C' as (C1' & C2' & _ & C4' & C5' & C6' & C7' & C8').
    repeat split; congruence.
  Qed.

  Theorem eth_field_mutation_rejected chain t t' :
    verify_eth chain t = Accept -> t_extra t' = t_extra t ->
    (t_source t' <> t_source t \/ t_target t' <> t_target t \/ t_nonce t' <> t_nonce t \/
     t_chainid t' <> t_chainid t \/ t_data t' <> t_data t \/ t_hash t' <> t_hash t) ->
    verify_eth chain t' = RIllegal.
  Proof.
    intros A E Hd. destruct (verify_eth_verdict chain t') as [A'|R]; [|exact R].
    destruct (eth_wrapper_unique chain t t' A A' E) as (H1 & H2 & H3 & H4 & H5 & H6). tauto.
  Qed.

  (* a different ExtraData accepted under the same Hash is a Keccak collision *)
  Theorem eth_extra_mutation chain t t' :
    verify_eth chain t = Accept -> verify_eth chain t' = Accept ->
    t_extra t' <> t_extra t -> t_hash t' = t_hash t ->
    exists b1 b2, b1 <> b2 /\ keccak b1 = keccak b2.
  Proof.
    intros A A' Hd Hh.
    apply eth_sound in A as (e & a & _ & _ & X & _ & _ & _ & _ & _ & K).
    apply eth_sound in A' as (e' & a' & _ & _ & X' & _ & _ & _ & _ & _ & K').
    cbn in *. exists (from_hex (t_extra t')), (from_hex (t_extra t)). split.
    - intro E. apply Hd. rewrite X, X', E. reflexivity.
    - congruence.
  Qed.

  (* ---- honest EIP-155 construction is accepted ---- *)
  Definition etx_item (e : etx) : item :=
    Lst [Str (beb (e_nonce e)); Str (beb (e_price e)); Str (beb (e_gas e));
         Str (match e_to e with Some t => t | None => [] end);
         Str (beb (e_value e)); Str (e_payload e); Str (beb (e_v e)); Str (beb (e_r e)); Str (beb (e_s e))].

  Definition etx_wf (e : etx) : Prop :=
    e_nonce e < 2 ^ 64 /\ e_gas e < 2 ^ 64 /\
    match e_to e with Some t => len t = 20 | None => True end /\
    item_ok (etx_item e).

  Lemma enc_ty_etx e : etx_wf e -> enc_ty txdata_ty (value_of_etx e) = Some (etx_item e).
  Proof.
    intros (Hn & Hg & Ht & _). unfold txdata_ty, value_of_etx, etx_item.
    cbn [enc_ty].
    change (256 ^ 8) with (2 ^ 64).
    destruct (N.ltb_spec (e_nonce e) (2 ^ 64)) as [_|]; [|lia].
    destruct (N.ltb_spec (e_gas e) (2 ^ 64)) as [_|]; [|lia].
    destruct (e_to e) as [to|].
    - cbn [enc_ty nil_is_list]. rewrite Ht. cbn [N.eqb Pos.eqb].
      assert (Hne : is_empty_item (Str to) = false).
      { destruct to; [cbn in Ht; discriminate | reflexivity]. }
      rewrite Hne. reflexivity.
    - reflexivity.
  Qed.

  Lemma decode_etx_honest e : etx_wf e -> decode_etx (encode (etx_item e)) = Some (value_of_etx e, e).
  Proof.
    intro W. unfold decode_etx.
    rewrite (typed_decode_encode txdata_ty (value_of_etx e) (etx_item e) (enc_ty_etx e W)) by apply W.
    unfold value_of_etx, etx_of_value. destruct e as [n p g [to|] a pl v r s]; reflexivity.
  Qed.

  Lemma encode_nonempty i : encode i <> [].
  Proof.
    destruct i as [b|l]; cbn [encode].
    - unfold enc_str. destruct b as [|x [|y r]]; unfold head.
      + cbn. discriminate.
      + destruct (x <? 128); cbn; discriminate.
      + destruct (len (x :: y :: r) <? 56); cbn; discriminate.
    - unfold head. destruct (len (concat (map encode l)) <? 56); cbn; discriminate.
  Qed.

  Definition honest_eth (chain : N) (e0 : etx) (rid : N) (pub : bytes) : tx :=
    let e := mkEtx (e_nonce e0) (e_price e0) (e_gas e0) (e_to e0) (e_value e0) (e_payload e0)
                   (35 + 2 * chain + rid) (e_r e0) (e_s e0) in
    convert (value_of_etx e) e (addr_of pub) (encode (etx_item e)).

  Lemma derive_155 chain rid : rid < 2 -> derive_chain_id (35 + 2 * chain + rid) = chain.
  Proof.
    intro Hr. unfold derive_chain_id.
    destruct (N.ltb_spec (35 + 2 * chain + rid) two64) as [H|H].
    - destruct (N.eqb_spec (35 + 2 * chain + rid) 27); [lia|].
      destruct (N.eqb_spec (35 + 2 * chain + rid) 28); [lia|]. cbn [orb].
      replace (35 + 2 * chain + rid + two64 - 35) with ((2 * chain + rid) + 1 * two64) by lia.
      rewrite N.mod_add by (unfold two64; lia).
      rewrite N.mod_small by lia.
      replace (2 * chain + rid) with (rid + chain * 2) by lia.
      rewrite N.div_add by lia. rewrite N.div_small by lia. lia.
    - replace (35 + 2 * chain + rid - 35) with (rid + chain * 2) by lia.
      rewrite N.div_add by lia. rewrite N.div_small by lia. lia.
  Qed.

  Lemma protected_155 chain rid : protected_v (35 + 2 * chain + rid) = true.
  Proof.
    unfold protected_v. destruct (N.ltb_spec (35 + 2 * chain + rid) 256); [|reflexivity].
    destruct (N.eqb_spec (35 + 2 * chain + rid) 27); [lia|].
    destruct (N.eqb_spec (35 + 2 * chain + rid) 28); [lia|]. reflexivity.
  Qed.

  Theorem eth_complete chain e0 rid pub :
    let e := mkEtx (e_nonce e0) (e_price e0) (e_gas e0) (e_to e0) (e_value e0) (e_payload e0)
                   (35 + 2 * chain + rid) (e_r e0) (e_s e0) in
    etx_wf e ->
    (rid = 0 \/ rid = 1) -> validate_sig rid (e_r e) (e_s e) = true ->
    recover (sighash_155 keccak chain e) (pad32 (e_r e) ++ pad32 (e_s e)) rid = Some pub ->
    verify_eth chain (honest_eth chain e0 rid pub) = Accept.
  Proof.
    intros e W Hr V R. unfold honest_eth. fold e.
    assert (Hb : bytes_ok (encode (etx_item e))) by (apply encode_ok, W).
    apply verify_eth_accept.
    set (enc := encode (etx_item e)).
    assert (F : from_hex (to_hex enc) = enc) by (apply from_to_hex; [exact Hb | apply encode_nonempty]).
    exists (value_of_etx e), e, (addr_of pub).
    assert (X : t_extra (convert (value_of_etx e) e (addr_of pub) enc) = to_hex enc) by reflexivity.
    rewrite X, F.
    split; [apply decode_etx_honest; exact W|]. split.
    - unfold Model.eth_sender. cbn [e_v e].
      rewrite protected_155. cbn [negb].
      rewrite derive_155 by lia. rewrite N.eqb_refl. cbn [negb].
      unfold Model.recover_plain.
      replace (Z.of_N (35 + 2 * chain + rid) - 2 * Z.of_N chain - 8)%Z with (27 + Z.of_N rid)%Z by lia.
      replace (Z.to_N (Z.abs (27 + Z.of_N rid))) with (27 + rid) by lia.
      destruct (N.leb_spec 256 (27 + rid)); [lia|].
      replace ((27 + rid + 256 - 27) mod 256) with rid.
      + cbn [e_r e_s e] in *. rewrite V. cbn [negb]. rewrite R. reflexivity.
      + replace (27 + rid + 256 - 27) with (rid + 1 * 256) by lia.
        rewrite N.mod_add by lia. rewrite N.mod_small by lia. reflexivity.
    - apply compare_tx_iff. repeat split; reflexivity.
  Qed.
  (* ---------------- the entry point ---------------- *)
  Theorem verify_dispatch chain cn t :
    verify chain cn t = Accept ->
    (t_type t <> eth_type /\ verify_native chain t = Accept) \/
    (t_type t = eth_type /\ verify_eth cn t = Accept).
  Proof.
    unfold Model.verify. destruct (Z.eqb_spec (t_type t) eth_type) as [E|E]; intro A; [right|left]; auto.
  Qed.

  Theorem verify_field_mutation_rejected chain cn t t' :
    t_type t <> eth_type -> verify chain cn t = Accept -> mut1 t t' -> t_type t' <> eth_type ->
    sha256 (preimage t') <> sha256 (preimage t) ->
    verify chain cn t' = RChainId \/ verify chain cn t' = RHash.
  Proof.
    intros T A M T' NC. unfold Model.verify in *.
    destruct (Z.eqb_spec (t_type t) eth_type); [contradiction|].
    destruct (Z.eqb_spec (t_type t') eth_type); [contradiction|].
    eapply native_field_mutation_rejected; eauto.
  Qed.

  (* re-typing an accepted native transaction as an Ethereum wrapper: accepted only if the SHA-256 digest of
     the native preimage equals the Keccak digest of the bytes ExtraData spells *)
  Theorem type_to_eth_mutation chain cn t :
    verify_native chain t = Accept -> verify_eth cn (set_type t eth_type) = Accept ->
    sha256 (preimage t) = keccak (from_hex (t_extra t)).
  Proof.
    intros A A'. apply native_accept_iff in A as (_ & Hh & _).
    apply eth_sound in A' as (e & a & _ & _ & _ & _ & _ & _ & _ & _ & K). cbn in K. congruence.
  Qed.
  (* ---------------- the chain id changes with the height ---------------- *)
  Theorem native_other_chain_rejected ch1 ch2 t :
    verify_native ch1 t = Accept -> ch2 <> ch1 -> verify_native ch2 t = RChainId.
  Proof.
    intros A Hne. apply native_accept_iff in A as (C & _).
    unfold Model.verify_native, verify_native_h. rewrite beq_false; [reflexivity|]. congruence.
  Qed.

  Theorem eth_other_chain_rejected c1 c2 t v e :
    decode_etx (from_hex (t_extra t)) = Some (v, e) -> protected_v (e_v e) = true ->
    verify_eth c1 t = Accept -> c2 <> c1 -> verify_eth c2 t = RIllegal.
  Proof.
    intros D P A Hne. apply verify_eth_accept in A as (v' & e' & a & D' & S & _).
    rewrite D in D'. inversion D'; subst v' e'.
    destruct (eth_protected_sound c1 e a S P) as (E & _).
    unfold Model.verify_eth, Model.eth_trace. rewrite D.
    unfold Model.eth_sender. rewrite P. cbn [negb].
    destruct (N.eqb_spec (derive_chain_id (e_v e)) c2) as [E2|E2]; [congruence|]. reflexivity.
  Qed.

  Notation verify_at := (verify_at sha256 keccak recover verify_sig).

  (* a transaction accepted on one side of the fork is rejected on the other side (native: always;
     Ethereum: for every payload with V outside {27, 28}) *)
  Theorem fork_native c h1 h2 t :
    t_type t <> eth_type -> verify_at c h1 t = Accept -> chain_id_at c h2 <> chain_id_at c h1 ->
    verify_at c h2 t = RChainId.
  Proof.
    unfold Model.verify_at, Model.verify. intros T A Hne.
    destruct (Z.eqb_spec (t_type t) eth_type); [contradiction|].
    eapply native_other_chain_rejected; eauto.
  Qed.

  Theorem fork_eth c h1 h2 t v e :
    t_type t = eth_type -> decode_etx (from_hex (t_extra t)) = Some (v, e) -> protected_v (e_v e) = true ->
    verify_at c h1 t = Accept -> chain_n_at c h2 <> chain_n_at c h1 ->
    verify_at c h2 t = RIllegal.
  Proof.
    unfold Model.verify_at, Model.verify. intros T D P A Hne.
    destruct (Z.eqb_spec (t_type t) eth_type); [|contradiction].
    eapply eth_other_chain_rejected; eauto.
  Qed.
End AuthProofs.
