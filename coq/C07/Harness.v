(* Evaluation of the C07 model on harness-written cases: the model's verdict, its GenHash, and (for
   wrapped Ethereum transactions) its intermediate results are compared with what the real code produced.
   SHA-256 / Keccak-256 are the executable Gallina versions; secp256k1 recovery / verification results are
   read from the table the harness recorded from libsecp256k1.  The model must ask exactly for an entry the
   implementation's own digest produced: a miss is a mismatch (explicitly for the native path; for the
   Ethereum path a miss yields a sentinel key whose address can match no observation). *)
From Coq Require Import List NArith ZArith Bool String.
From V.Base Require Import Hex BigEndian.
From V.C08 Require Import Model Typed.
From V.C07 Require Import Fast Model.
Import ListNotations.
Local Open Scope N_scope.

(* one oracle entry: digest, r || s, recovery id -> recovered X || Y (or failure), VerifySignature result *)
Inductive oent := O (h rs : string) (v : N) (pub : option string) (ok : bool).

Definition okey (e : oent) : bytes * bytes * N := match e with O h rs v _ _ => (unhex h, unhex rs, v) end.

Definition key_eqb (k : bytes * bytes * N) (h rs : bytes) (v : N) : bool :=
  let '(h', rs', v') := k in bytes_eqb h h' && bytes_eqb rs rs' && (v =? v').

Fixpoint lookup (tbl : list oent) (h rs : bytes) (v : N) : option oent :=
  match tbl with
  | [] => None
  | e :: r => if key_eqb (okey e) h rs v then Some e else lookup r h rs v
  end.

Definition miss_key : bytes := [256].   (* not a byte string: no real key *)

Definition recover_t (tbl : list oent) (h rs : bytes) (v : N) : option bytes :=
  match lookup tbl h rs v with
  | Some (O _ _ _ (Some p) _) => Some (unhex p)
  | Some (O _ _ _ None _) => None
  | None => Some miss_key
  end.

(* VerifySignature does not take the recovery id: any entry with the same digest, r || s and key *)
Fixpoint verify_t (tbl : list oent) (pk h rs : bytes) : bool :=
  match tbl with
  | [] => false
  | O h' rs' _ (Some p) ok :: r =>
    if bytes_eqb h (unhex h') && bytes_eqb rs (unhex rs') && bytes_eqb pk (unhex p) then ok else verify_t r pk h rs
  | _ :: r => verify_t r pk h rs
  end.

(* transaction literal: every string field travels as the hex of its bytes; the signature as 65 bytes *)
Definition sig_of_hex (s : string) : option sig :=
  match s with
  | EmptyString => None
  | _ => let b := unhex s in Some (mkSig (bev (firstn 32 b)) (bev (firstn 32 (skipn 32 b))) (nth 64 b 0))
  end.

(* a string field: printable ASCII literally, anything else as hex *)
Inductive fld := A (s : string) | H (s : string).
Definition fb (f : fld) : bytes := match f with A s => B s | H s => unhex s end.

Definition T (src tgt : fld) (ty : Z) (time data extra : fld) (hash sign : string) (nonce : N) (cid : fld) : tx :=
  mkTx (fb src) (fb tgt) ty (fb time) (fb data) (fb extra) (unhex hash) (sig_of_hex sign) nonce (fb cid).

(* what the harness observed by running the pieces of verifyETHTx separately *)
Inductive eobs :=
| ENone                                   (* not an Ethereum-typed transaction *)
| EDecFail                                (* rlp.DecodeBytes failed *)
| ESender (code : N)                      (* eth_tx.Sender failed: 1 invalid chain id, 2 invalid v/r/s, 3 recovery failed *)
| EConv (src tgt data extra : option fld) (hash : option string) (cid : option fld) (nonce : option N).
  (* eth_tx.ConvertTx output; None = identical to the declared field of the transaction under test *)

(* verdict of VerifyTransaction, tx.GenHash() ("" = not recorded), Ethereum pieces *)
Inductive obs := Obs (verdict : N) (genhash : string) (e : eobs).

Definition verdict_code (v : verdict) : N :=
  match v with Accept => 0 | RChainId => 1 | RHash => 2 | RSign => 3 | RIllegal => 4 end.

Definition serr_code (e : serr) : N :=
  match e with SInvalidChain => 1 | SInvalidSig => 2 | SRecover => 3 end.

(* the recover query of the native path, when the model reaches it, must be in the table *)
Definition native_query_ok (tbl : list oent) (gh chain : bytes) (t : tx) : bool :=
  if negb (bytes_eqb (t_chainid t) chain) then true
  else if negb (bytes_eqb (t_hash t) gh) then true
  else match t_sign t with
       | None => true
       | Some sg => match norm_recid (sg_v sg) with
                    | None => true
                    | Some v => match lookup tbl (t_hash t) (sig_rs sg) v with Some _ => true | None => false end
                    end
       end.

Definition ofld (o : option fld) (dflt : bytes) : bytes := match o with Some f => fb f | None => dflt end.

Definition chk_trace (t : tx) (tr : etrace) (o : eobs) : bool :=
  match tr, o with
  | TDecFail, EDecFail => true
  | TSender k, ESender c => serr_code k =? c
  | TConv x _, EConv src tgt data extra hash cid nonce =>
    bytes_eqb (t_source x) (ofld src (t_source t)) && bytes_eqb (t_target x) (ofld tgt (t_target t)) &&
    bytes_eqb (t_data x) (ofld data (t_data t)) && bytes_eqb (t_extra x) (ofld extra (t_extra t)) &&
    bytes_eqb (t_hash x) (match hash with Some h => unhex h | None => t_hash t end) &&
    bytes_eqb (t_chainid x) (ofld cid (t_chainid t)) &&
    (t_nonce x =? match nonce with Some n => n | None => t_nonce t end)
  | _, _ => false
  end.

(* configuration (ChainId, OriginalChainId, Proposal001Block), height, transaction, oracle, observation *)
Definition check (c : (fld * fld * N * N) * tx * list oent * obs) : bool :=
  let '((cid, orig, fork, height), t, tbl, Obs vd gh eo) := c in
  let cfg := mkCfg (fb cid) (fb orig) fork in
  let ch := chain_id_at cfg height in
  let chain_n := chain_n_at cfg height in
  let rec_ := recover_t tbl in
  let ver_ := verify_t tbl in
  if (t_type t =? eth_type)%Z then
    let tr := eth_trace keccak256 rec_ chain_n t in
    (verdict_code (verdict_of_trace tr) =? vd) && chk_trace t tr eo &&
    match gh with EmptyString => true | _ => bytes_eqb (gen_hash sha256 t) (unhex gh) end
  else
    let g := gen_hash sha256 t in
    (verdict_code (verify_native_h keccak256 rec_ ver_ g ch t) =? vd) &&
    bytes_eqb g (unhex gh) && native_query_ok tbl g ch t &&
    match eo with ENone => true | _ => false end.

(* [check] evaluates exactly the model's [verify] (digest and trace shared instead of recomputed) *)
Lemma check_uses_verify : forall tbl cfg height t,
  verify_at sha256 keccak256 (recover_t tbl) (verify_t tbl) cfg height t =
  if (t_type t =? eth_type)%Z then verdict_of_trace (eth_trace keccak256 (recover_t tbl) (chain_n_at cfg height) t)
  else verify_native_h keccak256 (recover_t tbl) (verify_t tbl) (gen_hash sha256 t) (chain_id_at cfg height) t.
Proof. reflexivity. Qed.
