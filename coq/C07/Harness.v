(* Evaluation of the C07 model on harness-written cases: the model's verdict, its GenHash, and (for
   wrapped Ethereum transactions) its intermediate results are compared with what the real code produced.
   SHA-256 / Keccak-256 are the executable Gallina versions; secp256k1 recovery / verification results are
   read from the table the harness recorded from libsecp256k1 (the model must ask exactly for an entry
   the implementation's own digest produced: a miss is a mismatch). *)
From Coq Require Import List NArith ZArith Bool String.
From V.Base Require Import Hex BigEndian.
From V.C08 Require Import Model Typed.
From V.C07 Require Import Sha256 Keccak Model.
Import ListNotations.
Local Open Scope N_scope.

(* one oracle entry: digest, r || s, recovery id -> recovered X || Y (or failure), VerifySignature result *)
Inductive oent := O (h rs : string) (v : N) (pub : option string) (ok : bool).

Definition okey (e : oent) : bytes * bytes * N := match e with O h rs v _ _ => (unhex h, unhex rs, v) end.

Definition key_eqb (k : bytes * bytes * N) (h rs : bytes) (v : N) : bool :=
  let '(h', rs', v') := k in bytes_eqb h h' && bytes_eqb rs rs' && (v =? v').

Fixpoint lookup (tbl : list oent) (h rs : bytes) (v : N) : option oent :=
  match tbl with
  | [] => None
  | e :: r => if key_eqb (okey e) h rs v then Some e else lookup r h rs v
  end.

Definition recover_t (tbl : list oent) (h rs : bytes) (v : N) : option bytes :=
  match lookup tbl h rs v with
  | Some (O _ _ _ (Some p) _) => Some (unhex p)
  | _ => None
  end.

(* VerifySignature does not take the recovery id: any entry with the same digest and r || s *)
Fixpoint verify_t (tbl : list oent) (pk h rs : bytes) : bool :=
  match tbl with
  | [] => false
  | O h' rs' _ (Some p) ok :: r =>
    if bytes_eqb h (unhex h') && bytes_eqb rs (unhex rs') && bytes_eqb pk (unhex p) then ok else verify_t r pk h rs
  | _ :: r => verify_t r pk h rs
  end.

(* transaction literal: every string field travels as the hex of its bytes; the signature as 65 bytes *)
Definition sig_of_hex (s : string) : option sig :=
  match s with
  | EmptyString => None
  | _ => let b := unhex s in Some (mkSig (bev (firstn 32 b)) (bev (firstn 32 (skipn 32 b))) (nth 64 b 0))
  end.

Definition T (src tgt : string) (ty : Z) (time data extra hash sign : string) (nonce : N) (cid : string) : tx :=
  mkTx (unhex src) (unhex tgt) ty (unhex time) (unhex data) (unhex extra) (unhex hash) (sig_of_hex sign) nonce (unhex cid).

(* what the harness observed by running the pieces of verifyETHTx separately *)
Inductive eobs :=
| ENone                                   (* not an Ethereum-typed transaction *)
| EDecFail                                (* rlp.DecodeBytes failed *)
| ESender (code : N)                      (* eth_tx.Sender failed: 1 invalid chain id, 2 invalid v/r/s, 3 recovery failed *)
| EConv (src tgt data extra hash cid : string) (nonce : N).   (* eth_tx.ConvertTx output *)

Inductive obs := Obs (verdict : N) (genhash : string) (e : eobs).

Definition verdict_code (v : verdict) : N :=
  match v with Accept => 0 | RChainId => 1 | RHash => 2 | RSign => 3 | RIllegal => 4 end.

Definition serr_code (e : serr) : N :=
  match e with SInvalidChain => 1 | SInvalidSig => 2 | SRecover => 3 end.

Section Run.
  Variable tbl : list oent.
  Let rec_ := recover_t tbl.
  Let ver_ := verify_t tbl.

  Definition m_verify := verify sha256 keccak256 rec_ ver_.

  (* the recover query of the native path, when the model reaches it *)
  Definition native_query_ok (chain : bytes) (t : tx) : bool :=
    if negb (bytes_eqb (t_chainid t) chain) then true
    else if negb (bytes_eqb (t_hash t) (gen_hash sha256 t)) then true
    else match t_sign t with
         | None => true
         | Some sg => match norm_recid (sg_v sg) with
                      | None => true
                      | Some v => match lookup tbl (t_hash t) (sig_rs sg) v with Some _ => true | None => false end
                      end
         end.

  (* the recover query of the Ethereum path *)
  Definition plain_query_ok (h : bytes) (r s : N) (vb : Z) : bool :=
    let a := Z.to_N (Z.abs vb) in
    if 256 <=? a then true
    else let v := (a + 256 - 27) mod 256 in
         if negb (validate_sig v r s) then true
         else match lookup tbl h (pad32 r ++ pad32 s) v with Some _ => true | None => false end.

  Definition eth_query_ok (chain : N) (e : etx) : bool :=
    if negb (protected_v (e_v e)) then plain_query_ok (sighash_homestead keccak256 e) (e_r e) (e_s e) (Z.of_N (e_v e))
    else if negb (derive_chain_id (e_v e) =? chain) then true
    else plain_query_ok (sighash_155 keccak256 chain e) (e_r e) (e_s e) (Z.of_N (e_v e) - 2 * Z.of_N chain - 8)%Z.

  Definition chk_eth (chain : N) (t : tx) (o : eobs) : bool :=
    if negb (t_type t =? eth_type)%Z then match o with ENone => true | _ => false end
    else
      let enc := from_hex (t_extra t) in
      match decode_etx enc, o with
      | None, EDecFail => true
      | Some (v, e), ESender c =>
        eth_query_ok chain e &&
        match eth_sender keccak256 rec_ chain e with SErr k => serr_code k =? c | SOk _ => false end
      | Some (v, e), EConv src tgt data extra hash cid nonce =>
        eth_query_ok chain e &&
        match eth_sender keccak256 rec_ chain e with
        | SErr _ => false
        | SOk a =>
          let x := convert keccak256 v e a enc in
          bytes_eqb (t_source x) (unhex src) && bytes_eqb (t_target x) (unhex tgt) &&
          bytes_eqb (t_data x) (unhex data) && bytes_eqb (t_extra x) (unhex extra) &&
          bytes_eqb (t_hash x) (unhex hash) && bytes_eqb (t_chainid x) (unhex cid) && (t_nonce x =? nonce)
        end
      | _, _ => false
      end.
End Run.

Definition check (c : string * N * tx * list oent * obs) : bool :=
  let '(chain, chain_n, t, tbl, Obs vd gh eo) := c in
  let ch := unhex chain in
  (verdict_code (m_verify tbl ch chain_n t) =? vd) &&
  bytes_eqb (gen_hash sha256 t) (unhex gh) &&
  (if (t_type t =? eth_type)%Z then true else native_query_ok tbl ch t) &&
  chk_eth tbl chain_n t eo.
