(* C07 — property theorems only (statements + [exact]); see Proofs.v for the proofs.
   [sha256], [keccak] (the two digests) and [recover], [verify_sig] (libsecp256k1) are universally
   quantified: the theorems hold for whatever these functions are; hash-collision and signature
   hypotheses appear explicitly where a statement needs them. *)
From Coq Require Import List NArith ZArith Bool String.
From V.Base Require Import Hex BigEndian.
From V.C08 Require Import Model Typed.
From V.C07 Require Import Keccak Model Proofs.
Import ListNotations.
Local Open Scope N_scope.

Section Statements.
  Variable sha256 keccak : bytes -> bytes.
  Variable recover : bytes -> bytes -> N -> option bytes.
  Variable verify_sig : bytes -> bytes -> bytes -> bool.

  Notation verify_native := (verify_native sha256 keccak recover verify_sig).
  Notation verify_eth := (verify_eth keccak recover).
  Notation eth_sender := (eth_sender keccak recover).
  Notation addr_of := (addr_of keccak).

  (* ---- native transactions ---- *)

  (* Accepted => the hash is the digest of the transaction's own content, the chain id is the chain's,
     and the signature recovers (and verifies, low-s) to a key whose address is the declared sender. *)
  Theorem C07_native_sound : forall chain t,
    verify_native chain t = Accept ->
    t_hash t = sha256 (preimage t) /\ t_chainid t = chain /\
    exists sg v pk, t_sign t = Some sg /\ norm_recid (sg_v sg) = Some v /\
                    recover (t_hash t) (sig_rs sg) v = Some pk /\
                    verify_sig pk (t_hash t) (sig_rs sg) = true /\
                    t_source t = to_hex (addr_of pk).
  Proof. exact (native_sound sha256 keccak recover verify_sig). Qed.

  (* Honestly built transactions (Hash := GenHash(), Sign := sign(sk, Hash), Source := address of sk's key,
     ChainId := the chain's) are always accepted, for a signer whose signatures recover and verify. *)
  Theorem C07_native_complete : forall (sign : bytes -> bytes -> sig) (pub_of : bytes -> bytes),
    (forall sk h, exists v, norm_recid (sg_v (sign sk h)) = Some v /\
                            recover h (sig_rs (sign sk h)) v = Some (pub_of sk) /\
                            verify_sig (pub_of sk) h (sig_rs (sign sk h)) = true) ->
    forall chain sk target ty time data extra nonce,
      verify_native chain (honest_native sha256 keccak sign pub_of chain sk target ty time data extra nonce) = Accept.
  Proof. exact (native_complete sha256 keccak recover verify_sig). Qed.

  (* Replacing exactly one of the eight hashed fields by a different value changes the preimage
     (fields are concatenated without separators: this is a statement about SINGLE-field changes only). *)
  Theorem C07_single_field_preimage : forall t t', mut1 t t' -> preimage t' <> preimage t.
  Proof. exact preimage_mut1. Qed.

  (* ... hence the mutant is rejected unless SHA-256 collides on these two preimages. *)
  Theorem C07_native_field_mutation_rejected : forall chain t t',
    verify_native chain t = Accept -> mut1 t t' ->
    sha256 (preimage t') <> sha256 (preimage t) ->
    verify_native chain t' = RChainId \/ verify_native chain t' = RHash.
  Proof. exact (native_field_mutation_rejected sha256 keccak recover verify_sig). Qed.

  Theorem C07_native_chainid_mutation_rejected : forall chain t x,
    verify_native chain t = Accept -> x <> t_chainid t -> verify_native chain (set_chainid t x) = RChainId.
  Proof. exact (native_chainid_mutation_rejected sha256 keccak recover verify_sig). Qed.

  Theorem C07_native_hash_mutation_rejected : forall chain t x,
    verify_native chain t = Accept -> x <> t_hash t -> verify_native chain (set_hash t x) = RHash.
  Proof. exact (native_hash_mutation_rejected sha256 keccak recover verify_sig). Qed.

  (* A changed signature is rejected unless it too recovers, for the same hash, to a key with the declared
     address.  PARTIAL: that no such second signature can be produced without the key is ECDSA
     unforgeability / non-malleability, which is not a theorem here (libsecp256k1 is trusted; bit flips,
     (r, n-s, v^1), other keys are searched on the implementation). *)
  Theorem C07_sign_mutation_partial : forall chain t x,
    verify_native chain t = Accept ->
    (forall sg v pk, x = Some sg -> norm_recid (sg_v sg) = Some v ->
                     recover (t_hash t) (sig_rs sg) v = Some pk ->
                     verify_sig pk (t_hash t) (sig_rs sg) = true -> to_hex (addr_of pk) <> t_source t) ->
    verify_native chain (set_sign t x) = RSign.
  Proof. exact (native_sign_mutation_rejected sha256 keccak recover verify_sig). Qed.

  (* REFUTED clause "changing the signature makes it rejected", benign instance: the recovery id byte has two
     spellings (v and v + 27); replacing one by the other never changes the verdict. *)
  Theorem C07_sign_recid_alias_refuted : forall chain t sg,
    t_sign t = Some sg -> sg_v sg < 4 ->
    verify_native chain (set_sign t (Some (mkSig (sg_r sg) (sg_s sg) (sg_v sg + 27)))) = verify_native chain t.
  Proof. exact (native_recid_alias sha256 keccak recover verify_sig). Qed.

  (* Observation (outside the property: two fields change): a byte moved across the Time / ExtraData boundary
     keeps the preimage, and transactions with equal preimage, hash, signature, sender and chain id get the
     same verdict. *)
  Theorem C07_two_field_shift : forall chain t c,
    let t1 := set_extra (set_time t (t_time t ++ [c])) (t_extra t) in
    let t2 := set_extra (set_time t (t_time t)) (c :: t_extra t) in
    preimage t1 = preimage t2 /\ verify_native chain t1 = verify_native chain t2.
  Proof.
    intros chain t c t1 t2. split; [apply preimage_shift|].
    apply (native_same_preimage sha256 keccak recover verify_sig); try reflexivity. apply preimage_shift.
  Qed.

  (* ---- wrapped Ethereum transactions ---- *)

  (* Accepted => ExtraData is the canonical hex of an RLP payload [e]; a sender was derived from e's
     signature; and Source, Target, Nonce, Data (gas price, gas limit, value, input), ChainId and Hash are
     exactly those of the payload (Hash = Keccak of the payload bytes). *)
  Theorem C07_eth_sound : forall chain t,
    verify_eth chain t = Accept ->
    exists e a,
      let enc := from_hex (t_extra t) in
      decode_etx enc = Some (value_of_etx e, e) /\
      eth_sender chain e = SOk a /\
      t_extra t = to_hex enc /\
      t_source t = to_hex a /\
      t_target t = match e_to e with Some x => to_hex x | None => [] end /\
      t_nonce t = e_nonce e /\
      t_data t = contract_json e /\
      t_chainid t = dec (derive_chain_id (e_v e)) /\
      t_hash t = keccak enc.
  Proof. exact (eth_sound keccak recover). Qed.

  (* For V outside {27, 28} the derivation is EIP-155 for THIS chain: the chain id encoded in V is the
     chain's and the key is recovered from the EIP-155 signing hash for this chain, low-s, r and s in range. *)
  Theorem C07_eth_protected_chain : forall chain e a,
    eth_sender chain e = SOk a -> protected_v (e_v e) = true ->
    derive_chain_id (e_v e) = chain /\
    exists rid pub, (rid = 0 \/ rid = 1) /\
                    (Z.abs (Z.of_N (e_v e) - 2 * Z.of_N chain - 8) = 27 + Z.of_N rid)%Z /\
                    validate_sig rid (e_r e) (e_s e) = true /\
                    recover (sighash_155 keccak chain e) (pad32 (e_r e) ++ pad32 (e_s e)) rid = Some pub /\
                    a = addr_of pub.
  Proof. exact (eth_protected_sound sha256 keccak recover verify_sig). Qed.

  (* DEFECT (general form): for V in {27, 28} the verdict does not depend on the chain id at all, and an
     accepted transaction of this kind declares chain id "0". *)
  Theorem C07_eth_unprotected_any_chain : forall c1 c2 t v e,
    decode_etx (from_hex (t_extra t)) = Some (v, e) -> protected_v (e_v e) = false ->
    verify_eth c1 t = verify_eth c2 t.
  Proof. exact (eth_unprotected_verdict_any_chain keccak recover). Qed.

  Theorem C07_eth_unprotected_declares_zero : forall chain t,
    verify_eth chain t = Accept ->
    forall v e, decode_etx (from_hex (t_extra t)) = Some (v, e) -> protected_v (e_v e) = false ->
    t_chainid t = [48].
  Proof. exact (eth_unprotected_declares_zero keccak recover). Qed.

  (* Changing any one of Source, Target, Nonce, ChainId, Data, Hash of an accepted wrapper (ExtraData kept)
     is rejected, unconditionally: all of them are functions of ExtraData. *)
  Theorem C07_eth_field_mutation_rejected : forall chain t t',
    verify_eth chain t = Accept -> t_extra t' = t_extra t ->
    (t_source t' <> t_source t \/ t_target t' <> t_target t \/ t_nonce t' <> t_nonce t \/
     t_chainid t' <> t_chainid t \/ t_data t' <> t_data t \/ t_hash t' <> t_hash t) ->
    verify_eth chain t' = RIllegal.
  Proof. exact (eth_field_mutation_rejected keccak recover). Qed.

  (* Changing ExtraData and keeping the Hash of an accepted wrapper: accepted only at a Keccak collision. *)
  Theorem C07_eth_extra_mutation : forall chain t t',
    verify_eth chain t = Accept -> verify_eth chain t' = Accept ->
    t_extra t' <> t_extra t -> t_hash t' = t_hash t ->
    exists b1 b2, b1 <> b2 /\ keccak b1 = keccak b2.
  Proof. exact (eth_extra_mutation keccak recover). Qed.

  (* Honest EIP-155 construction for this chain (V = 35 + 2*chain + recid, wrapper built by ConvertTx from
     the RLP encoding) is accepted, for a signature whose values are in range and that recovers to [pub]. *)
  Theorem C07_eth_complete : forall chain e0 rid pub,
    let e := mkEtx (e_nonce e0) (e_price e0) (e_gas e0) (e_to e0) (e_value e0) (e_payload e0)
                   (35 + 2 * chain + rid) (e_r e0) (e_s e0) in
    etx_wf e ->
    (rid = 0 \/ rid = 1) -> validate_sig rid (e_r e) (e_s e) = true ->
    recover (sighash_155 keccak chain e) (pad32 (e_r e) ++ pad32 (e_s e)) rid = Some pub ->
    verify_eth chain (honest_eth keccak chain e0 rid pub) = Accept.
  Proof. exact (eth_complete keccak recover). Qed.

  (* ---- the entry point VerifyTransaction ---- *)
  Notation verify := (verify sha256 keccak recover verify_sig).

  Theorem C07_verify_dispatch : forall chain cn t,
    verify chain cn t = Accept ->
    (t_type t <> eth_type /\ verify_native chain t = Accept) \/
    (t_type t = eth_type /\ verify_eth cn t = Accept).
  Proof. exact (verify_dispatch sha256 keccak recover verify_sig). Qed.

  Theorem C07_verify_field_mutation_rejected : forall chain cn t t',
    t_type t <> eth_type -> verify chain cn t = Accept -> mut1 t t' -> t_type t' <> eth_type ->
    sha256 (preimage t') <> sha256 (preimage t) ->
    verify chain cn t' = RChainId \/ verify chain cn t' = RHash.
  Proof. exact (verify_field_mutation_rejected sha256 keccak recover verify_sig). Qed.

  (* the one single-field change that leaves the native path: Type := 188 *)
  Theorem C07_type_to_eth_mutation : forall chain cn t,
    verify_native chain t = Accept -> verify_eth cn (set_type t eth_type) = Accept ->
    sha256 (preimage t) = keccak (from_hex (t_extra t)).
  Proof. exact (type_to_eth_mutation sha256 keccak recover verify_sig). Qed.

  (* ---- the chain id is a function of the height (common.ChainId / common.GetChainId) ---- *)
  Notation verify_at := (verify_at sha256 keccak recover verify_sig).

  (* Accepted at a height where the chain id is X => rejected at every height where it is not X. *)
  Theorem C07_fork_native : forall c h1 h2 t,
    t_type t <> eth_type -> verify_at c h1 t = Accept -> chain_id_at c h2 <> chain_id_at c h1 ->
    verify_at c h2 t = RChainId.
  Proof. exact (fork_native sha256 keccak recover verify_sig). Qed.

  Theorem C07_fork_eth : forall c h1 h2 t v e,
    t_type t = eth_type -> decode_etx (from_hex (t_extra t)) = Some (v, e) -> protected_v (e_v e) = true ->
    verify_at c h1 t = Accept -> chain_n_at c h2 <> chain_n_at c h1 ->
    verify_at c h2 t = RIllegal.
  Proof. exact (fork_eth sha256 keccak recover verify_sig). Qed.
End Statements.

Print Assumptions C07_native_sound.
Print Assumptions C07_native_complete.
Print Assumptions C07_single_field_preimage.
Print Assumptions C07_native_field_mutation_rejected.
Print Assumptions C07_native_chainid_mutation_rejected.
Print Assumptions C07_native_hash_mutation_rejected.
Print Assumptions C07_sign_mutation_partial.
Print Assumptions C07_sign_recid_alias_refuted.
Print Assumptions C07_two_field_shift.
Print Assumptions C07_eth_sound.
Print Assumptions C07_eth_protected_chain.
Print Assumptions C07_eth_unprotected_any_chain.
Print Assumptions C07_eth_unprotected_declares_zero.
Print Assumptions C07_eth_field_mutation_rejected.
Print Assumptions C07_eth_extra_mutation.
Print Assumptions C07_eth_complete.
Print Assumptions C07_verify_dispatch.
Print Assumptions C07_verify_field_mutation_rejected.
Print Assumptions C07_type_to_eth_mutation.
Print Assumptions C07_fork_native.
Print Assumptions C07_fork_eth.

(* the mainnet-shaped configuration used by the harness: the hypotheses of the fork theorems are satisfiable *)
Example C07_fork_config_example :
  let c := mkCfg (B "2025") (B "8888") 1000 in
  chain_id_at c 999 = B "8888" /\ chain_id_at c 1000 = B "2025" /\
  chain_n_at c 999 = 8888 /\ chain_n_at c 1000 = 2025 /\ chain_n_at c 999 <> chain_n_at c 1000.
Proof. vm_compute. repeat split; try reflexivity. discriminate. Qed.

(* ---- the confirmed defect, concretely (dev chain, id 9500) ----
   A Homestead-signed payload (V = 28) wrapped with ChainId "0".  The only fact about the curve that is used
   is the one recovery libsecp256k1 performed for this input (re-observed by the harness in every run: the
   witness is always among the compared cases). *)
Local Open Scope string_scope.
Definition w_extra : bytes :=
  B "0xf86c098504a817c800825208943535353535353535353535353535353535353535880de0b6b3a7640000801ca0b14388e538b851efa002fc9f6f9f7c732672d181f83a1abb4e740663bf7c31d5a04d39deef0603b210cb2ef5cfeb5cd1c996976b376e1fc76d423c783126562489".
Definition w_tx : tx :=
  mkTx (B "0x2c7536e3605d9c16a7a3d7b1898e529396a65c23") (B "0x3535353535353535353535353535353535353535") eth_type []
       (B "{""gasPrice"":""20000000000"",""gasLimit"":""21000"",""transferValue"":""1.000000000000000000"",""abiData"":""0x0""}")
       w_extra (unhex "ca0bbb60b89db25badd94728c3fd5630ca12d83fe90e6b5fbec9dabc70e21b0f") None 9 (B "0").
Definition w_sighash : bytes := unhex "f9e36c28c8cb35adba138005c02ab7aa7fbcd891f3139cb2eeed052a51cd2713".
Definition w_rs : bytes :=
  unhex "b14388e538b851efa002fc9f6f9f7c732672d181f83a1abb4e740663bf7c31d54d39deef0603b210cb2ef5cfeb5cd1c996976b376e1fc76d423c783126562489".
Definition w_pub : bytes :=
  unhex "4e3b81af9c2234cad09d679ce6035ed1392347ce64ce405f5dcd36228a25de6e47fd35c4215d1edf53e6f83de344615ce719bdb0fd878f6ed76f06dd277956de".

Definition w_e : etx :=
  mkEtx 9 20000000000 21000 (Some (repeat 53%N 20)) 1000000000000000000 [] 28
        0xb14388e538b851efa002fc9f6f9f7c732672d181f83a1abb4e740663bf7c31d5
        0x4d39deef0603b210cb2ef5cfeb5cd1c996976b376e1fc76d423c783126562489.

Definition one_entry (h rs : bytes) (v : N) (pub : bytes) : bytes -> bytes -> N -> option bytes :=
  fun h' rs' v' => if bytes_eqb h h' && bytes_eqb rs rs' && (v =? v')%N then Some pub else None.

(* The property demands "under EIP-155 for this chain"; the transaction below is accepted on chain 9500
   although it is not an EIP-155 transaction and declares chain id "0". *)
Theorem C07_eth_unprotected_refuted :
  exists t e,
    decode_etx (from_hex (t_extra t)) = Some (value_of_etx e, e) /\
    e_v e = 28%N /\ protected_v (e_v e) = false /\
    t_chainid t = B "0" /\ t_chainid t <> dec 9500 /\
    verify_eth keccak256 (one_entry w_sighash w_rs 1 w_pub) 9500 t = Accept /\
    forall sha vs, verify sha keccak256 (one_entry w_sighash w_rs 1 w_pub) vs (dec 9500) 9500 t = Accept.
Proof.
  exists w_tx, w_e. split; [vm_compute; reflexivity|].
  split; [reflexivity|]. split; [reflexivity|]. split; [reflexivity|].
  split; [vm_compute; discriminate|].
  assert (A : verify_eth keccak256 (one_entry w_sighash w_rs 1 w_pub) 9500 w_tx = Accept) by (vm_compute; reflexivity).
  split; [exact A|]. intros sha vs. unfold verify. exact A.
Qed.
Print Assumptions C07_eth_unprotected_refuted.

(* ---- the hypotheses of the positive theorems are satisfiable ---- *)

(* EIP-155 payload for chain 9500 signed by the same key: the hypotheses of C07_eth_complete hold and the
   honest wrapper is the one the implementation was observed to accept. *)
Definition x_e0 : etx :=
  mkEtx 9 20000000000 21000 (Some (repeat 53%N 20)) 1000000000000000000 [] 0
        0xfe96e1dfb104bbb675fa51720d2b3a9de35c55068097a12d29493ba1d1ae29e9
        0x74fa1230205432590579b8172ace3e796e57844c64e9e9255d5dffbbc0aeb694.
Definition x_sighash : bytes := unhex "cbc528d522efacadecd9eff50636e7031e03f6fa76d092eb6db0d72fddb4c736".
Definition x_rs : bytes :=
  unhex "fe96e1dfb104bbb675fa51720d2b3a9de35c55068097a12d29493ba1d1ae29e974fa1230205432590579b8172ace3e796e57844c64e9e9255d5dffbbc0aeb694".

Example C07_eth_complete_example :
  let e := mkEtx (e_nonce x_e0) (e_price x_e0) (e_gas x_e0) (e_to x_e0) (e_value x_e0) (e_payload x_e0)
                 (35 + 2 * 9500 + 0) (e_r x_e0) (e_s x_e0) in
  let rec_ := one_entry x_sighash x_rs 0 w_pub in
  etx_wf e /\ validate_sig 0 (e_r e) (e_s e) = true /\
  rec_ (sighash_155 keccak256 9500 e) (pad32 (e_r e) ++ pad32 (e_s e))%list 0%N = Some w_pub /\
  let t := honest_eth keccak256 9500 x_e0 0 w_pub in
  t_source t = B "0x2c7536e3605d9c16a7a3d7b1898e529396a65c23" /\
  t_hash t = unhex "9c5844016e53288f6b678d03c7b31cb1d443de0e237e8fa727125b4722c24feb" /\
  t_chainid t = B "9500" /\
  verify_eth keccak256 rec_ 9500 t = Accept.
Proof.
  intros e rec_.
  assert (W : etx_wf e).
  { unfold etx_wf. split; [vm_compute; reflexivity|]. split; [vm_compute; reflexivity|].
    split; [vm_compute; reflexivity|].
    apply Proofs.item_ok_Lst. split.
    - repeat (apply Forall_cons; [cbn [item_ok]; split; [apply bytes_okb_spec; vm_compute; reflexivity | vm_compute; reflexivity]|]).
      apply Forall_nil.
    - vm_compute. reflexivity. }
  assert (V : validate_sig 0 (e_r e) (e_s e) = true) by (vm_compute; reflexivity).
  assert (R : rec_ (sighash_155 keccak256 9500 e) (pad32 (e_r e) ++ pad32 (e_s e))%list 0%N = Some w_pub) by (vm_compute; reflexivity).
  split; [exact W|]. split; [exact V|]. split; [exact R|]. cbv zeta.
  split; [vm_compute; reflexivity|]. split; [vm_compute; reflexivity|]. split; [vm_compute; reflexivity|].
  apply (C07_eth_complete keccak256 rec_ 9500 x_e0 0 w_pub W (or_introl eq_refl) V R).
Qed.

(* native: a toy signer satisfying the completeness hypothesis, an honest transaction, and one of its
   single-field mutants (different preimage) *)
Example C07_native_example :
  let sign := fun (_ _ : bytes) => mkSig 1 1 27 in
  let pub_of := fun sk : bytes => sk in
  let recover := fun (_ _ : bytes) (_ : N) => Some [7%N] in
  let verify_sig := fun _ _ _ : bytes => true in
  let sha := fun b : bytes => b in
  let kec := fun b : bytes => b in
  (forall sk h, sk = [7%N] -> exists v, norm_recid (sg_v (sign sk h)) = Some v /\
                          recover h (sig_rs (sign sk h)) v = Some (pub_of sk) /\
                          verify_sig (pub_of sk) h (sig_rs (sign sk h)) = true) /\
  let t := honest_native sha kec sign pub_of (B "9500") [7%N] (B "tgt") 2 (B "time") (B "data") [] 41 in
  verify_native sha kec recover verify_sig (B "9500") t = Accept /\
  mut1 t (set_nonce t 42) /\
  verify_native sha kec recover verify_sig (B "9500") (set_nonce t 42) = RHash.
Proof.
  cbv zeta. split.
  - intros sk h ->. exists 0%N. repeat split; reflexivity.
  - split; [vm_compute; reflexivity|]. split; [|vm_compute; reflexivity].
    apply M_nonce. vm_compute. discriminate.
Qed.
