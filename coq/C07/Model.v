(* C07 model: the decision logic of TxPool.VerifyTransaction (src/service/transaction_pool.go) for
   native transactions (verifyTxChainId / verifyTransactionHash with Transaction.GenHash /
   verifyTransactionSign with common.Sign, PublicKey.GetAddress) and for wrapped Ethereum transactions
   (verifyETHTx: common.FromHex, rlp.DecodeBytes into eth_tx.txdata, EIP155Signer.Sender with its
   Homestead fall-back, recoverPlain, ValidateSignatureValues, eth_tx.ConvertTx, compareTx).

   Go strings are byte sequences: every string field is a [bytes] value.  The two digests and the
   secp256k1 primitives are Section variables; Harness.v instantiates the digests with executable
   SHA-256 / Keccak-256 and the curve primitives with a table of what libsecp256k1 answered.

   Not modelled (never reached from the wire formats): a nil transaction (ErrNil / nil dereference),
   recoverPlain's "invalid public key" branch (libsecp256k1 returns 65 bytes starting with 04 or an error),
   BytesToPublicKey's panic on an off-curve key, Sign values above 2^256 built through Sign.Set, the
   sender cache of eth_tx.Sender (a fresh eth_tx.Transaction is decoded on every call). *)
From Coq Require Import List NArith ZArith Bool String Ascii Lia.
From V.Base Require Import Hex BigEndian.
From V.C08 Require Import Model Typed.
Import ListNotations.
Local Open Scope N_scope.

(* ---------- strings ---------- *)
Definition B (s : string) : bytes := map N_of_ascii (list_ascii_of_string s).

(* strconv.FormatUint(n, 10) *)
Fixpoint dec_rev (fuel : nat) (n : N) : bytes :=
  match fuel with
  | O => []
  | S f => if n <? 10 then [48 + n] else (48 + n mod 10) :: dec_rev f (n / 10)
  end.
Definition dec (n : N) : bytes := rev (dec_rev (S (N.to_nat (N.log2 n))) n).

(* strconv.Itoa(int(int32)) *)
Definition itoa (z : Z) : bytes :=
  if (z <? 0)%Z then 45 :: dec (Z.to_N (- z)) else dec (Z.to_N z).

(* hex.EncodeToString *)
Definition hexdig (n : N) : N := if n <? 10 then 48 + n else 87 + n.
Fixpoint hexlower (b : bytes) : bytes :=
  match b with
  | [] => []
  | x :: r => hexdig (x / 16) :: hexdig (x mod 16) :: hexlower r
  end.

(* common.ToHex: "0x0" for the empty string *)
Definition to_hex (b : bytes) : bytes :=
  48 :: 120 :: match b with [] => [48] | _ => hexlower b end.

Definition hexval_opt (c : N) : option N :=
  if (48 <=? c) && (c <=? 57) then Some (c - 48)
  else if (97 <=? c) && (c <=? 102) then Some (c - 87)
  else if (65 <=? c) && (c <=? 70) then Some (c - 55)
  else None.

(* hex.DecodeString with the error dropped (common.Hex2Bytes): the pairs decoded before the first bad digit *)
Fixpoint hex_decode (s : bytes) : bytes :=
  match s with
  | a :: b :: r => match hexval_opt a, hexval_opt b with
                   | Some x, Some y => (16 * x + y) :: hex_decode r
                   | _, _ => []
                   end
  | _ => []
  end.

(* common.FromHex *)
Definition from_hex (s : bytes) : bytes :=
  match s with
  | a :: b :: r =>
    let s1 := if (a =? 48) && ((b =? 120) || (b =? 88)) then r else s in
    let s2 := if Nat.odd (List.length s1) then 48 :: s1 else s1 in
    hex_decode s2
  | _ => []
  end.

(* ---------- transactions ---------- *)
Record sig := mkSig { sg_r : N; sg_s : N; sg_v : N }.   (* common.Sign: r, s < 2^256, recid byte *)

Record tx := mkTx {
  t_source : bytes; t_target : bytes; t_type : Z; t_time : bytes;
  t_data : bytes; t_extra : bytes; t_hash : bytes; t_sign : option sig;
  t_nonce : N; t_chainid : bytes }.

Inductive verdict := Accept | RChainId | RHash | RSign | RIllegal.

Definition verdict_eqb (a b : verdict) : bool :=
  match a, b with
  | Accept, Accept | RChainId, RChainId | RHash, RHash | RSign, RSign | RIllegal, RIllegal => true
  | _, _ => false
  end.

Definition eth_type : Z := 188.   (* types.TransactionTypeETHTX *)

(* Transaction.GenHash: the eight writes into the buffer, in source order, no separators *)
Definition preimage (t : tx) : bytes :=
  t_data t ++ dec (t_nonce t) ++ t_source t ++ t_target t ++ itoa (t_type t) ++ t_time t ++ t_extra t ++ t_chainid t.

Definition pad32 (n : N) : bytes := let b := beb n in repeat 0 (32 - List.length b) ++ b.
Definition sig_rs (s : sig) : bytes := pad32 (sg_r s) ++ pad32 (sg_s s).

(* secp256k1.checkSignature: V 27.. is shifted down, recovery id must be < 4 *)
Definition norm_recid (v : N) : option N :=
  let v' := if 26 <? v then v - 27 else v in
  if 4 <=? v' then None else Some v'.

(* ---------- Ethereum payload ---------- *)
Record etx := mkEtx {
  e_nonce : N; e_price : N; e_gas : N; e_to : option bytes; e_value : N; e_payload : bytes;
  e_v : N; e_r : N; e_s : N }.

(* eth_tx.txdata (the rlp:"-" Hash field is not part of the encoding) *)
Definition txdata_ty : ty :=
  TStruct [TUint 8; TBig; TUint 8; TPtrNil (TByteArr 20); TBig; TBytes; TBig; TBig; TBig] None.

Definition etx_of_value (v : value) : option etx :=
  match v with
  | VList [VNum n; VNum p; VNum g; to; VNum a; VBytes pl; VNum vv; VNum r; VNum s] =>
    match to with
    | VNil => Some (mkEtx n p g None a pl vv r s)
    | VBytes t => Some (mkEtx n p g (Some t) a pl vv r s)
    | _ => None
    end
  | _ => None
  end.

Definition value_of_etx (e : etx) : value :=
  VList [VNum (e_nonce e); VNum (e_price e); VNum (e_gas e);
         match e_to e with Some t => VBytes t | None => VNil end;
         VNum (e_value e); VBytes (e_payload e); VNum (e_v e); VNum (e_r e); VNum (e_s e)].

(* rlp.DecodeBytes(encodedTx, ethTx) *)
Definition decode_etx (b : bytes) : option (value * etx) :=
  match decode_typed txdata_ty b with
  | Some v => match etx_of_value v with Some e => Some (v, e) | None => None end
  | None => None
  end.

Definition two64 : N := 18446744073709551616.

(* isProtectedV *)
Definition protected_v (v : N) : bool :=
  if v <? 256 then negb ((v =? 27) || (v =? 28)) else true.

(* deriveChainId: uint64 arithmetic (wrapping v - 35) when V fits 64 bits, big.Int otherwise *)
Definition derive_chain_id (v : N) : N :=
  if v <? two64 then
    if (v =? 27) || (v =? 28) then 0 else ((v + two64 - 35) mod two64) / 2
  else (v - 35) / 2.

Definition secpN : N := 0xfffffffffffffffffffffffffffffffebaaedce6af48a03bbfd25e8cd0364141.
Definition secpHalfN : N := secpN / 2.

(* crypto.ValidateSignatureValues(v, r, s, homestead = true) *)
Definition validate_sig (v r s : N) : bool :=
  (1 <=? r) && (1 <=? s) && (s <=? secpHalfN) && (r <? secpN) && (s <? secpN) && ((v =? 0) || (v =? 1)).

Inductive serr := SInvalidChain | SInvalidSig | SRecover.
Inductive sres := SOk (addr : bytes) | SErr (e : serr).

(* the six signed fields as the RLP items of the []interface{} handed to rlpHash; a nil *Address is the empty string *)
Definition sig_fields (e : etx) : list item :=
  [Str (beb (e_nonce e)); Str (beb (e_price e)); Str (beb (e_gas e));
   Str (match e_to e with Some t => t | None => [] end);
   Str (beb (e_value e)); Str (e_payload e)].

(* utility.BigIntToStr for a non-negative amount: 18 decimals, "0" for zero *)
Definition bigint_to_str (n : N) : bytes :=
  if n =? 0 then [48]
  else let d := dec n in
       let l := List.length d in
       if Nat.leb l 18 then [48; 46] ++ repeat 48 (18 - l) ++ d
       else firstn (l - 18) d ++ [46] ++ skipn (l - 18) d.

(* json.Marshal(types.ContractData{GasPrice, GasLimit, TransferValue, AbiData}): no field is empty,
   every character is a digit, a hex digit, 'x' or '.', so no escaping takes place *)
Definition contract_json (e : etx) : bytes :=
  B "{""gasPrice"":""" ++ dec (e_price e) ++
  B """,""gasLimit"":""" ++ dec (e_gas e) ++
  B """,""transferValue"":""" ++ bigint_to_str (e_value e) ++
  B """,""abiData"":""" ++ to_hex (e_payload e) ++ B """}".

Section Auth.
  Variable sha256 : bytes -> bytes.     (* common.Sha256 *)
  Variable keccak : bytes -> bytes.     (* Keccak-256 *)
  (* libsecp256k1: public key (X || Y, 64 bytes) recovered from a 32-byte digest, r || s and a recovery id < 4 *)
  Variable recover : bytes -> bytes -> N -> option bytes.
  (* secp256k1_ecdsa_verify on r || s (refuses high s) *)
  Variable verify_sig : bytes -> bytes -> bytes -> bool.

  (* PublicKey.GetAddress / crypto.Keccak256(pub[1:])[12:] *)
  Definition addr_of (pub : bytes) : bytes := skipn 12 (keccak pub).

  (* ----- native ----- *)
  Definition gen_hash (t : tx) : bytes := sha256 (preimage t).

  Definition verify_sign (t : tx) : verdict :=
    match t_sign t with
    | None => RSign
    | Some sg =>
      match norm_recid (sg_v sg) with
      | None => RSign
      | Some v =>
        match recover (t_hash t) (sig_rs sg) v with
        | None => RSign
        | Some pk =>
          if negb (verify_sig pk (t_hash t) (sig_rs sg)) then RSign
          else if bytes_eqb (t_source t) (to_hex (addr_of pk)) then Accept else RSign
        end
      end
    end.

  (* [gh] is the recomputed digest tx.GenHash() *)
  Definition verify_native_h (gh : bytes) (chain : bytes) (t : tx) : verdict :=
    if negb (bytes_eqb (t_chainid t) chain) then RChainId
    else if negb (bytes_eqb (t_hash t) gh) then RHash
    else verify_sign t.

  Definition verify_native (chain : bytes) (t : tx) : verdict := verify_native_h (gen_hash t) chain t.

  (* ----- Ethereum ----- *)
  Definition recover_plain (h : bytes) (r s : N) (vb : Z) : sres :=
    let a := Z.to_N (Z.abs vb) in
    if 256 <=? a then SErr SInvalidSig               (* Vb.BitLen() > 8 *)
    else
      let v := (a + 256 - 27) mod 256 in             (* byte(Vb.Uint64() - 27) *)
      if negb (validate_sig v r s) then SErr SInvalidSig
      else match recover h (pad32 r ++ pad32 s) v with
           | None => SErr SRecover
           | Some pub => SOk (addr_of pub)
           end.

  Definition sighash_homestead (e : etx) : bytes := keccak (encode (Lst (sig_fields e))).
  Definition sighash_155 (chain : N) (e : etx) : bytes :=
    keccak (encode (Lst (sig_fields e ++ [Str (beb chain); Str []; Str []]))).

  (* EIP155Signer.Sender *)
  Definition eth_sender (chain : N) (e : etx) : sres :=
    if negb (protected_v (e_v e)) then recover_plain (sighash_homestead e) (e_r e) (e_s e) (Z.of_N (e_v e))
    else if negb (derive_chain_id (e_v e) =? chain) then SErr SInvalidChain
    else recover_plain (sighash_155 chain e) (e_r e) (e_s e) (Z.of_N (e_v e) - 2 * Z.of_N chain - 8)%Z.

  (* eth_tx.ConvertTx; Transaction.Hash() re-encodes the decoded txdata *)
  Definition convert (v : value) (e : etx) (sender enc : bytes) : tx :=
    mkTx (to_hex sender)
         (match e_to e with Some t => to_hex t | None => [] end)
         eth_type [] (contract_json e) (to_hex enc)
         (match encode_typed txdata_ty v with Some b => keccak b | None => [] end)
         None (e_nonce e) (dec (derive_chain_id (e_v e))).

  (* compareTx (Type is 188 on both sides) *)
  Definition compare_tx (t x : tx) : bool :=
    bytes_eqb (t_source t) (t_source x) && bytes_eqb (t_target t) (t_target x) &&
    (t_type t =? t_type x)%Z && bytes_eqb (t_extra t) (t_extra x) &&
    (t_nonce t =? t_nonce x) && bytes_eqb (t_chainid t) (t_chainid x) &&
    bytes_eqb (t_data t) (t_data x) && bytes_eqb (t_hash t) (t_hash x).

  (* verifyETHTx, keeping the intermediate results: decoding failed / sender derivation failed /
     the transaction ConvertTx builds from the payload and the outcome of compareTx *)
  Inductive etrace := TDecFail | TSender (e : serr) | TConv (x : tx) (same : bool).

  Definition eth_trace (chain : N) (t : tx) : etrace :=
    let enc := from_hex (t_extra t) in
    match decode_etx enc with
    | None => TDecFail
    | Some (v, e) =>
      match eth_sender chain e with
      | SErr k => TSender k
      | SOk a => let x := convert v e a enc in TConv x (compare_tx t x)
      end
    end.

  Definition verdict_of_trace (tr : etrace) : verdict :=
    match tr with TConv _ true => Accept | _ => RIllegal end.

  Definition verify_eth (chain : N) (t : tx) : verdict := verdict_of_trace (eth_trace chain t).

  (* TxPool.VerifyTransaction; [chain] is common.ChainId(height), [chain_n] its value as a number
     (common.GetChainId(height)) *)
  Definition verify (chain : bytes) (chain_n : N) (t : tx) : verdict :=
    if (t_type t =? eth_type)%Z then verify_eth chain_n t else verify_native chain t.
End Auth.

(* ---------- the chain id as a function of the height ----------
   common.ChainId(height): LocalChainConfig.ChainId from Proposal001Block on (isForked: height >= block),
   LocalChainConfig.OriginalChainId below; common.GetChainId(height) parses that string as a base-10 integer
   (no genesis.json override; a string big.Int.SetString rejects makes the signer's chain id 0). *)
Record chaincfg := mkCfg { cc_chainid : bytes; cc_original : bytes; cc_fork : N }.

Definition chain_id_at (c : chaincfg) (h : N) : bytes :=
  if cc_fork c <=? h then cc_chainid c else cc_original c.

Fixpoint undec (acc : N) (s : bytes) : option N :=
  match s with
  | [] => Some acc
  | d :: r => if (48 <=? d) && (d <=? 57) then undec (acc * 10 + (d - 48)) r else None
  end.

Definition parse_dec (s : bytes) : N :=
  match s with
  | [] => 0
  | _ => match undec 0 s with Some n => n | None => 0 end
  end.

Definition chain_n_at (c : chaincfg) (h : N) : N := parse_dec (chain_id_at c h).

(* TxPool.VerifyTransaction(tx, height): a function of the configuration, the height and the transaction only *)
Definition verify_at (sha256 keccak : bytes -> bytes) (recover : bytes -> bytes -> N -> option bytes)
           (verify_sig : bytes -> bytes -> bytes -> bool) (c : chaincfg) (h : N) (t : tx) : verdict :=
  verify sha256 keccak recover verify_sig (chain_id_at c h) (chain_n_at c h) t.
