(* The same SHA-256 and Keccak-256 as Sha256.v / Keccak.v, computed on Coq's primitive 63-bit integers
   (32-bit words; a Keccak lane is a pair of 32-bit halves) so that the correspondence run can afford
   thousands of digests.  Only used for evaluation (Harness.v); cross-checked against the [N] versions
   below and against the implementation on every compared case.  No theorem depends on this file. *)
From Coq Require Import List NArith ZArith Bool String Uint63.
From V.Base Require Import Hex BigEndian.
From V.C07 Require Sha256 Keccak.
Import ListNotations.
Local Open Scope uint63_scope.

Definition i_of_N (n : N) : int := of_Z (Z.of_N n).
Definition N_of_i (i : int) : N := Z.to_N (to_Z i).
Definition m32 : int := 4294967295.
Definition add32 (a b : int) : int := (a + b) land m32.
Definition shl32 (x n : int) : int := (x << n) land m32.

(* ---------------- SHA-256 ---------------- *)
Definition rotr (x n : int) : int := (x >> n) lor shl32 x (32 - n).
Definition not32 (x : int) : int := x lxor m32.

Definition K256 : list int := map i_of_N Sha256.K256.
Definition H0 : list int := map i_of_N Sha256.H0.

Definition ssig0 x := (rotr x 7) lxor ((rotr x 18) lxor (x >> 3)).
Definition ssig1 x := (rotr x 17) lxor ((rotr x 19) lxor (x >> 10)).
Definition bsig0 x := (rotr x 2) lxor ((rotr x 13) lxor (rotr x 22)).
Definition bsig1 x := (rotr x 6) lxor ((rotr x 11) lxor (rotr x 25)).
Definition ch x y z := (x land y) lxor ((not32 x) land z).
Definition maj x y z := (x land y) lxor ((x land z) lxor (y land z)).

Fixpoint extend (n : nat) (w : list int) : list int :=
  match n with
  | O => w
  | S k => let x := add32 (add32 (ssig1 (nth 1 w 0)) (nth 6 w 0)) (add32 (ssig0 (nth 14 w 0)) (nth 15 w 0)) in
           extend k (x :: w)
  end.

Definition be4 (a b c d : int) : int := (a << 24) lor ((b << 16) lor ((c << 8) lor d)).

Fixpoint words_of (n : nat) (b : list int) : list int :=
  match n with
  | O => []
  | S k => match b with
           | a :: b1 :: c :: d :: r => be4 a b1 c d :: words_of k r
           | _ => []
           end
  end.

Definition step (st : list int) (kw : int * int) : list int :=
  match st with
  | [a; b; c; d; e; f; g; h] =>
    let t1 := add32 (add32 (add32 h (bsig1 e)) (add32 (ch e f g) (fst kw))) (snd kw) in
    let t2 := add32 (bsig0 a) (maj a b c) in
    [add32 t1 t2; a; b; c; add32 d t1; e; f; g]
  | _ => st
  end.

Definition compress (hs : list int) (blk : list int) : list int :=
  let w := rev (extend 48 (rev (words_of 16 blk))) in
  let st := fold_left step (combine K256 w) hs in
  map (fun p => add32 (fst p) (snd p)) (combine hs st).

Fixpoint blocks (fuel : nat) (hs : list int) (m : list int) : list int :=
  match fuel with
  | O => hs
  | S f => match m with
           | [] => hs
           | _ => blocks f (compress hs (firstn 64 m)) (skipn 64 m)
           end
  end.

Definition word_bytes (x : int) : list N :=
  [N_of_i (x >> 24); N_of_i ((x >> 16) land 255); N_of_i ((x >> 8) land 255); N_of_i (x land 255)].

Definition sha256 (m : bytes) : bytes :=
  let p := map i_of_N (Sha256.pad256 m) in
  List.concat (map word_bytes (blocks (S (Nat.div (List.length p) 64)) H0 p)).

(* ---------------- Keccak-256 ---------------- *)
Definition lane := (int * int)%type.    (* (high 32 bits, low 32 bits) *)
Definition lz : lane := (0, 0).
Definition lxor2 (a b : lane) : lane := (fst a lxor fst b, snd a lxor snd b).
Definition land2 (a b : lane) : lane := (fst a land fst b, snd a land snd b).
Definition lnot2 (a : lane) : lane := (fst a lxor m32, snd a lxor m32).

Definition rot_small (a : lane) (n : int) : lane :=   (* 0 < n < 32 *)
  let '(h, l) := a in
  (shl32 h n lor (l >> (32 - n)), shl32 l n lor (h >> (32 - n))).

Definition rotl (a : lane) (n : int) : lane :=
  if n =? 0 then a
  else if n <? 32 then rot_small a n
  else if n =? 32 then (snd a, fst a)
  else rot_small (snd a, fst a) (n - 32).

Definition lane_of_N (x : N) : lane := (i_of_N (N.shiftr x 32), i_of_N (N.land x 4294967295)).

Definition RC : list lane := map lane_of_N Keccak.RC.
Definition ROT : list int := map i_of_N Keccak.ROT.

Definition ln (s : list lane) (i : nat) : lane := nth i s lz.

Definition idx5 : list nat := [0; 1; 2; 3; 4]%nat.
Definition idx25 : list nat := seq 0 25.

Definition theta (a : list lane) : list lane :=
  let c := map (fun x : nat => lxor2 (ln a x) (lxor2 (ln a (x + 5)%nat) (lxor2 (ln a (x + 10)%nat)
                          (lxor2 (ln a (x + 15)%nat) (ln a (x + 20)%nat))))) idx5 in
  let d := map (fun x : nat => lxor2 (ln c (Nat.modulo (x + 4) 5)) (rotl (ln c (Nat.modulo (x + 1) 5)) 1)) idx5 in
  map (fun i : nat => lxor2 (ln a i) (ln d (Nat.modulo i 5))) idx25.

(* source index and rotation of every target position, computed once *)
Definition rho_pi_tab : list (nat * int) :=
  Eval vm_compute in
  map (fun j : nat => let X := Nat.modulo j 5 in let Y := Nat.div j 5 in
                let x := Nat.modulo (X + 3 * Y) 5 in let y := X in
                let i := (x + 5 * y)%nat in (i, nth i ROT 0)) idx25.

Definition rho_pi (a : list lane) : list lane :=
  map (fun p : nat * int => rotl (ln a (fst p)) (snd p)) rho_pi_tab.

Definition chi_tab : list (nat * nat * nat) :=
  Eval vm_compute in
  map (fun j : nat => let x := Nat.modulo j 5 in let y5 := (5 * Nat.div j 5)%nat in
                (j, (y5 + Nat.modulo (x + 1) 5)%nat, (y5 + Nat.modulo (x + 2) 5)%nat)) idx25.

Definition chi (b : list lane) : list lane :=
  map (fun p : nat * nat * nat => let '(j, j1, j2) := p in
         lxor2 (ln b j) (land2 (lnot2 (ln b j1)) (ln b j2))) chi_tab.

Definition iota (rc : lane) (a : list lane) : list lane :=
  match a with x :: r => lxor2 x rc :: r | [] => [] end.

Definition round (a : list lane) (rc : lane) : list lane := iota rc (chi (rho_pi (theta a))).
Definition keccak_f (a : list lane) : list lane := fold_left round RC a.

Definition le4 (a b c d : int) : int := a lor ((b << 8) lor ((c << 16) lor (d << 24))).

Fixpoint lanes_of (fuel : nat) (b : list int) : list lane :=
  match fuel with
  | O => []
  | S f => match b with
           | b0 :: b1 :: b2 :: b3 :: b4 :: b5 :: b6 :: b7 :: r => (le4 b4 b5 b6 b7, le4 b0 b1 b2 b3) :: lanes_of f r
           | _ => []
           end
  end.

Fixpoint xor_in (s blk : list lane) : list lane :=
  match s, blk with
  | x :: s', y :: b' => lxor2 x y :: xor_in s' b'
  | _, [] => s
  | [], _ => []
  end.

Fixpoint absorb (fuel : nat) (s : list lane) (m : list int) : list lane :=
  match fuel with
  | O => s
  | S f =>
    match m with
    | [] => s
    | _ => absorb f (keccak_f (xor_in s (lanes_of 17 (firstn 136 m)))) (skipn 136 m)
    end
  end.

Definition half_bytes (x : int) : list N :=
  [N_of_i (x land 255); N_of_i ((x >> 8) land 255); N_of_i ((x >> 16) land 255); N_of_i (x >> 24)].
Definition lane_bytes (a : lane) : list N := half_bytes (snd a) ++ half_bytes (fst a).

Definition keccak256 (m : bytes) : bytes :=
  let p := map i_of_N (Keccak.pad m) in
  let s := absorb (S (Nat.div (List.length p) 136)) (repeat lz 25) p in
  List.concat (map lane_bytes (firstn 4 s)).

(* ---------------- cross-checks against the [N] versions ---------------- *)
Definition sample (n k : nat) : bytes := map (fun i : nat => N.of_nat (Nat.modulo (i * k + 7 * n) 256)) (seq 0 n).
Definition lens : list nat := [0; 1; 3; 31; 32; 55; 56; 63; 64; 65; 119; 120; 135; 136; 137; 200; 271; 272; 300]%nat.

Example sha256_agrees :
  forallb (fun n : nat => bytes_eqb (sha256 (sample n 37)) (Sha256.sha256 (sample n 37))) lens = true.
Proof. vm_compute. reflexivity. Qed.

Example keccak256_agrees :
  forallb (fun n : nat => bytes_eqb (keccak256 (sample n 91)) (Keccak.keccak256 (sample n 91))) lens = true.
Proof. vm_compute. reflexivity. Qed.

Example keccak256_abc :
  hex (keccak256 [97; 98; 99]%N) = "4e03657aea45a94fc7d47ba826c8d667c0d1e6e33a64a036ec44f58fa12d6c45"%string.
Proof. vm_compute. reflexivity. Qed.

Example sha256_abc :
  hex (sha256 [97; 98; 99]%N) = "ba7816bf8f01cfea414140de5dae2223b00361a396177a9cb410ff61f20015ad"%string.
Proof. vm_compute. reflexivity. Qed.
