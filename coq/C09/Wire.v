(* C09 -- model of the protobuf wire layer as the node uses it: gogo/protobuf v1.3.1 table-driven
   (reflection) decoder and encoder -- x.pb.go has no generated Unmarshal/Marshal methods, proto.Unmarshal and
   proto.Marshal go through proto/table_unmarshal.go (unmarshalInfo.unmarshal, decodeVarint, skipField,
   findEndGroup, unmarshal{Uint64Ptr,Int32Ptr,StringPtr,BytesValue,BytesSlice}, makeUnmarshalMessage{,Slice}Ptr)
   and proto/table_marshal.go (marshalInfo.marshal: fields by number, nil pointers/slices skipped).

   The decoder is generic in the message schema (field number -> kind, required), which is GENERATED from the
   struct tags of x.pb.go (Gen.msgs).  Its result is the list of recognised field occurrences in input order;
   per-message assembly (last one wins / append / merge, Assemble.v) turns it into the pb records of Model.v.
   Unknown field numbers and known numbers with the wrong wire type are skipped (the real decoder appends them
   to XXX_unrecognized, which no conversion reads). *)
From Coq Require Import List NArith ZArith String Bool Lia.
From V.Base Require Import Hex BigEndian.
From V.C09 Require Import Modes.
Import ListNotations.
Local Open Scope N_scope.

(* ---------- varints (decodeVarint: at most 10 bytes, the tenth below 2; any failure is "unexpected EOF") ---------- *)
Fixpoint dec_var (k : nat) (shift acc : N) (b : bytes) : option (N * bytes) :=
  match k with
  | O => None
  | S k' =>
      match b with
      | [] => None
      | y :: r =>
          if y <? 128 then
            match k' with
            | O => if y <? 2 then Some (acc + y * 2 ^ shift, r) else None
            | _ => Some (acc + y * 2 ^ shift, r)
            end
          else
            match k' with
            | O => None
            | _ => dec_var k' (shift + 7) (acc + (y - 128) * 2 ^ shift) r
            end
      end
  end.
Definition dec_varint (b : bytes) : option (N * bytes) := dec_var 10 0 0 b.

(* appendVarint *)
Fixpoint enc_var (k : nat) (x : N) : bytes :=
  match k with
  | O => []
  | S k' => if x <? 128 then [x] else (x mod 128 + 128) :: enc_var k' (x / 128)
  end.
Definition enc_varint (x : N) : bytes := enc_var 10 x.

(* ---------- results ---------- *)
Inductive werr := EEOF      (* io.ErrUnexpectedEOF: truncated / overlong varint, length beyond the input *)
                | EWire     (* "proto: can't skip unknown wire type" (4 = stray end-group, 6, 7) *)
                | ETag0.    (* "proto: M: illegal tag 0": field number 0 is rejected outright, at any depth *)
Inductive wres (A : Type) := WOk (a : A) | WErr (e : werr) | WFuel.
Arguments WOk {A} a.
Arguments WErr {A} e.
Arguments WFuel {A}.

(* ---------- skipping unknown fields ---------- *)
(* findEndGroup: b starts after a start-group tag; returns what follows the matching end-group tag *)
Fixpoint find_end_group (fuel : nat) (depth : nat) (b : bytes) : wres bytes :=
  match fuel with
  | O => match b with [] => WErr EEOF | _ => WFuel end
  | S f =>
      match dec_varint b with
      | None => WErr EEOF
      | Some (x, r) =>
          let w := x mod 8 in
          if w =? 0 then match dec_varint r with None => WErr EEOF | Some (_, r') => find_end_group f depth r' end
          else if w =? 5 then (if Nat.ltb (List.length r) 4 then WErr EEOF else find_end_group f depth (skipn 4 r))
          else if w =? 1 then (if Nat.ltb (List.length r) 8 then WErr EEOF else find_end_group f depth (skipn 8 r))
          else if w =? 2 then
            match dec_varint r with
            | None => WErr EEOF
            | Some (m, r') => if N.of_nat (List.length r') <? m then WErr EEOF else find_end_group f depth (skipn (N.to_nat m) r')
            end
          else if w =? 3 then find_end_group f (S depth) r
          else if w =? 4 then
            match depth with
            | O => WErr EEOF          (* not reachable: depth starts at 1 *)
            | S O => WOk r
            | S d => find_end_group f d r
            end
          else WErr EEOF               (* wire types 6, 7 inside a group: findEndGroup gives up (-1) *)
      end
  end.

(* skipField *)
Definition skip_field (fuel : nat) (wire : N) (b : bytes) : wres bytes :=
  if wire =? 0 then match dec_varint b with None => WErr EEOF | Some (_, r) => WOk r end
  else if wire =? 5 then (if Nat.ltb (List.length b) 4 then WErr EEOF else WOk (skipn 4 b))
  else if wire =? 1 then (if Nat.ltb (List.length b) 8 then WErr EEOF else WOk (skipn 8 b))
  else if wire =? 2 then
    match dec_varint b with
    | None => WErr EEOF
    | Some (m, r) => if N.of_nat (List.length r) <? m then WErr EEOF else WOk (skipn (N.to_nat m) r)
    end
  else if wire =? 3 then find_end_group fuel 1 b
  else WErr EWire.

(* ---------- decoded occurrences ---------- *)
Inductive dval := DVar (x : N) | DBytes (b : bytes) | DMsg (l : list (N * dval)).
Definition occs := list (N * dval).

Definition wire_of_kind (k : fkind) : N := match k with FVar64 | FVar32 => 0 | _ => 2 end.

(* length-delimited payload: (payload, rest) *)
Definition dec_len (b : bytes) : wres (bytes * bytes) :=
  match dec_varint b with
  | None => WErr EEOF
  | Some (x, r) => if N.of_nat (List.length r) <? x then WErr EEOF
                   else WOk (firstn (N.to_nat x) r, skipn (N.to_nat x) r)
  end.

(* unmarshalInfo.unmarshal of message [m] on input [b] (fuel >= length b is always enough: dec_fields_fuel) *)
Definition dec_body (rec : string -> bytes -> wres occs) (f : nat) (sc : schema) (m : string) (b : bytes) : wres occs :=
  match dec_varint b with
  | None => WErr EEOF
  | Some (x, r) =>
      let tag := x / 8 in
      let wire := x mod 8 in
      let skip := match skip_field f wire r with
                  | WOk r' => rec m r'
                  | WErr e => WErr e
                  | WFuel => WFuel
                  end in
      if tag =? 0 then WErr ETag0 else
      match find_fd (msg_fields sc m) tag with
      | None => skip
      | Some fd =>
          if negb (wire =? wire_of_kind fd.(fd_kind)) then skip    (* errInternalBadWireType: treated as unknown *)
          else
            match fd.(fd_kind) with
            | FVar64 | FVar32 =>
                match dec_varint r with
                | None => WErr EEOF
                | Some (v, r') => match rec m r' with
                                  | WOk l => WOk ((tag, DVar v) :: l) | e => e end
                end
            | FStr | FBytes | FRepBytes =>
                match dec_len r with
                | WOk (p, r') => match rec m r' with
                                 | WOk l => WOk ((tag, DBytes p) :: l) | e => e end
                | WErr e => WErr e
                | WFuel => WFuel
                end
            | FMsg sub | FRepMsg sub =>
                match dec_len r with
                | WOk (p, r') =>
                    match rec sub p with
                    | WOk inner => match rec m r' with
                                   | WOk l => WOk ((tag, DMsg inner) :: l) | e => e end
                    | e => e
                    end
                | WErr e => WErr e
                | WFuel => WFuel
                end
            end
      end
  end.

Fixpoint dec_fields (fuel : nat) (sc : schema) (m : string) (b : bytes) : wres occs :=
  match fuel with
  | O => match b with [] => WOk [] | _ => WFuel end
  | S f => match b with [] => WOk [] | _ => dec_body (dec_fields f sc) f sc m b end
  end.

Lemma dec_fields_S f sc m b : b <> [] -> dec_fields (S f) sc m b = dec_body (dec_fields f sc) f sc m b.
Proof. destruct b; [congruence | reflexivity]. Qed.

(* required fields: every occurrence of a message (top level and embedded) must contain each required number;
   a miss is reported only at the very end (RequiredNotSetError) and never stops the parse *)
Definition has_num (l : occs) (n : N) : bool := existsb (fun o => fst o =? n) l.

Definition bytes_kind (k : fkind) : bool := match k with FBytes | FRepBytes => true | _ => false end.

(* [ponly] = the marshaler's variant: only required POINTER fields (scalars, messages) are checked there, a nil
   required []byte is silently left out *)
Fixpoint req_ok_gen (ponly : bool) (fuel : nat) (sc : schema) (m : string) (l : occs) : bool :=
  match fuel with
  | O => true
  | S f =>
      forallb (fun fd => negb fd.(fd_req) || (ponly && bytes_kind fd.(fd_kind)) || has_num l fd.(fd_num)) (msg_fields sc m) &&
      forallb (fun o => match snd o, find_fd (msg_fields sc m) (fst o) with
                        | DMsg inner, Some fd => match fd.(fd_kind) with
                                                 | FMsg sub | FRepMsg sub => req_ok_gen ponly f sc sub inner
                                                 | _ => true end
                        | _, _ => true
                        end) l
  end.

Definition req_ok := req_ok_gen false.
(* messages of the generated schema nest at most three deep (Block > BlockHeader > Hashes): four levels of the
   required-field check reach every embedded message (EndToEnd.schema_depth_ok checks this on Gen.msgs) *)
Definition req_depth : nat := 4.

Inductive ures (A : Type) := UOk (a : A) | UErrWire (e : werr) | UErrRequired | UFuel.
Arguments UOk {A} a.
Arguments UErrWire {A} e.
Arguments UErrRequired {A}.
Arguments UFuel {A}.

(* proto.Unmarshal(b, new(M)) up to assembly *)
Definition unmarshal_occs (sc : schema) (m : string) (b : bytes) : ures occs :=
  match dec_fields (List.length b) sc m b with
  | WOk l => if req_ok req_depth sc m l then UOk l else UErrRequired
  | WErr e => UErrWire e
  | WFuel => UFuel
  end.

(* ---------- encoder ---------- *)
Fixpoint enc_occ (n : N) (v : dval) {struct v} : bytes :=
  match v with
  | DVar x => enc_varint (n * 8) ++ enc_varint x
  | DBytes p => enc_varint (n * 8 + 2) ++ enc_varint (N.of_nat (List.length p)) ++ p
  | DMsg inner =>
      let e := (fix go (l : list (N * dval)) : bytes :=
                  match l with [] => [] | (k, w) :: r => enc_occ k w ++ go r end) inner in
      enc_varint (n * 8 + 2) ++ enc_varint (N.of_nat (List.length e)) ++ e
  end.
Definition enc_occs : occs -> bytes :=
  fix go (l : list (N * dval)) : bytes := match l with [] => [] | (k, w) :: r => enc_occ k w ++ go r end.

Lemma enc_occs_cons n v r : enc_occs ((n, v) :: r) = enc_occ n v ++ enc_occs r.
Proof. reflexivity. Qed.
Lemma enc_occ_msg n inner :
  enc_occ n (DMsg inner) = enc_varint (n * 8 + 2) ++ enc_varint (N.of_nat (List.length (enc_occs inner))) ++ enc_occs inner.
Proof. reflexivity. Qed.

(* marshalInfo.marshal: the fields of the schema in number order, each contributing the occurrences [get] gives
   for its name (nothing for a nil pointer / nil slice) *)
Definition to_occs (flds : list fdesc) (get : string -> list dval) : occs :=
  flat_map (fun fd => map (pair fd.(fd_num)) (get fd.(fd_name))) flds.
