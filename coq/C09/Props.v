(* C09 -- property theorems (statements + [exact]); proofs in Proofs.v.
   [Gen.sites]/[Gen.recvs] is the access-mode table generated from serialization.go (after /repo commit
   aaa3b3c, which replaced the unchecked dereferences by the generated nil-safe getters). *)
From Coq Require Import List NArith ZArith String Bool Lia.
From V.Base Require Import Hex BigEndian.
From V.C09 Require Import Modes Gen Model Proofs Roundtrip Json Wire WireProofs Assemble AssembleProofs EndToEnd.
Import ListNotations.

Section Json.
(* encoding/json for []UserData and map[string]uint64 is a parameter of the model *)
Variable SubT : Type.
Variable sub_dec : bytes -> SubT.
Variable sub_nil : SubT.
Variable ReqT : Type.
Variable req_dec : bytes -> ReqT.
Variable req_nil : ReqT.

(* ---- totality: with the access modes of the current source no pb message makes a conversion panic,
   whichever optional fields are absent (and a nil message pointer is handled) ---- *)
Theorem C09_tx_total : forall p, tx_of_pb SubT sub_dec sub_nil Gen.sites Gen.recvs p <> Panic.
Proof.
  intros p. destruct (tx_ptr_total SubT sub_dec sub_nil Gen.sites Gen.recvs eq_refl eq_refl p) as [t E].
  rewrite E. discriminate.
Qed.

Theorem C09_txs_total : forall l, txs_of_pb SubT sub_dec sub_nil Gen.sites l <> Panic.
Proof.
  intros l. destruct (txs_total SubT sub_dec sub_nil Gen.sites eq_refl l) as [t E]. rewrite E. discriminate.
Qed.

Theorem C09_header_total : forall p, hdr_of_pb ReqT req_dec req_nil Gen.sites Gen.recvs p <> Panic.
Proof.
  intros p. destruct (hdr_ptr_total ReqT req_dec req_nil Gen.sites Gen.recvs eq_refl eq_refl p) as [t E].
  rewrite E. discriminate.
Qed.

Theorem C09_block_total : forall p, block_of_pb SubT sub_dec sub_nil ReqT req_dec req_nil Gen.sites Gen.recvs p <> Panic.
Proof.
  intros p. destruct (block_total SubT sub_dec sub_nil ReqT req_dec req_nil Gen.sites Gen.recvs eq_refl eq_refl eq_refl p) as [t E].
  rewrite E. discriminate.
Qed.

(* ---- the defect the fix removed, as a statement about ANY access table: one unchecked dereference of an
   optional scalar is enough; the witness is the message with only the required Type set (wire 28 01),
   resp. a header with two valid times and nothing else, resp. a group without GroupHeight / header ---- *)
Theorem C09_tx_total_refuted : forall ss f,
  In f ["Target"; "Data"; "SocketRequestId"; "Nonce"; "RequestId"; "ExtraDataType"; "Time"; "ChainId"]%string ->
  safe (site_mode ss fT "Transaction" f) = false ->
  tx_of_pb_body SubT sub_dec sub_nil ss pb_only_type = Panic.
Proof. intros ss f. exact (tx_deref_panics SubT sub_dec sub_nil ss f). Qed.

Theorem C09_header_total_refuted : forall ss rs,
  safe (site_mode ss fH "BlockHeader" "Height") && safe (site_mode ss fH "BlockHeader" "Nonce") &&
  safe (site_mode ss fH "BlockHeader" "TotalQN") = false ->
  hdr_of_pb_body ReqT req_dec req_nil ss rs pb_hdr_times_only = Panic.
Proof. intros ss rs. exact (hdr_deref_panics ReqT req_dec req_nil ss rs). Qed.

End Json.

Theorem C09_group_total : forall p, group_of_pb Gen.sites Gen.recvs p <> Panic.
Proof. intros p. destruct (group_total Gen.sites Gen.recvs eq_refl p) as [t E]. rewrite E. discriminate. Qed.

Theorem C09_group_total_refuted : forall ss rs, grp_sites_safe ss rs = false -> exists p, group_of_pb ss rs p = Panic.
Proof. exact group_deref_panics. Qed.

(* ================= round trip and fixed point ================= *)

(* Go's binary time form reproduces every time whose zone offset has whole minutes in int16 (not the UTC marker
   -1 min) and a non-negative seconds part; seconds in int64, nanoseconds below 2^30 *)
Theorem C09_time_roundtrip : forall t, time_ok t -> exists b, time_marshal t = Some b /\ time_unmarshal b = Some t.
Proof. exact time_roundtrip. Qed.

(* ... and does NOT reproduce a negative seconds part: parsing 02 .. ffc8 0f gives offset -3345 s, writing that
   value and parsing again gives -3089 s; a zone 30 s west comes back as 226 s east *)
Theorem C09_time_fixed_point_refuted :
  let t := mk_time 62135596804 0 (Some (-3345)%Z) in
  let b' := [2;0;0;0;14;119;145;247;4;0;0;0;0;255;201;211]%N in
  time_unmarshal hostile_time_bytes = Some t /\ time_marshal t = Some b' /\
  time_unmarshal b' = Some (mk_time 62135596804 0 (Some (-3089)%Z)).
Proof. exact time_fixed_point_gap. Qed.

Theorem C09_time_roundtrip_refuted :
  let b := [2;0;0;0;14;220;229;232;0;0;0;0;0;0;0;226]%N in
  time_marshal (mk_time 63835596800 0 (Some (-30)%Z)) = Some b /\
  time_unmarshal b = Some (mk_time 63835596800 0 (Some 226%Z)).
Proof. exact time_roundtrip_gap. Qed.

(* a signature survives its wire image for ALL r, s < 2^256 (Sign.Bytes() left-pads each 32-byte word), recid kept *)
Theorem C09_sign_roundtrip : forall r s v, (r < 2 ^ 256)%N -> (s < 2 ^ 256)%N -> to_sign (sign_bytes (r, s, v)) = Some (r, s, v).
Proof. exact sign_roundtrip. Qed.

(* right-padding the words instead is a different image as soon as r has a leading zero byte *)
Theorem C09_sign_right_pad_refuted :
  to_sign (sign_bytes (1, 2, 0)%N) = Some (1, 2, 0)%N /\
  to_sign ((1 :: repeat 0 31) ++ (2 :: repeat 0 31) ++ [0])%N <> Some (1, 2, 0)%N.
Proof. exact sign_left_pad_matters. Qed.

Section JsonRT.
Variable SubT : Type.
Variable sub_enc : SubT -> bytes.
Variable sub_dec : bytes -> SubT.
Variable sub_nil : SubT.
Variable ReqT : Type.
Variable req_enc : ReqT -> bytes.
Variable req_dec : bytes -> ReqT.
Variable req_nil : ReqT.

(* node-producible transaction: 32-byte hashes, a signature as BytesToSign builds it (or none), sub-transactions
   that survive encoding/json. Serialising and parsing returns every field except the node-local
   SocketRequestId (which transactionToPb does not write). *)
Theorem C09_tx_roundtrip : forall t, tx_wf SubT sub_enc sub_dec t ->
  tx_of_pb_body SubT sub_dec sub_nil Gen.sites (tx_to_pb SubT sub_enc t) = Ok (tx_wire_view SubT t).
Proof. intros t. exact (tx_roundtrip SubT sub_enc sub_dec sub_nil Gen.sites t eq_refl). Qed.

(* node-producible header: 32-byte hashes, non-nil Transactions/EvictedTxs (as every constructor in core/ builds
   them), non-negative prove value (or nil), times in reproducible zones, request ids that survive
   encoding/json: BlockHeaderToPb succeeds and PbToBlockHeader returns exactly the header (every field, nil vs
   empty byte slices included) -- so every function of the header, GenHash included, is unchanged. *)
Theorem C09_header_roundtrip : forall h, hdr_wf ReqT req_enc req_dec h ->
  exists p, hdr_to_pb ReqT req_enc h = Some p /\ hdr_of_pb_body ReqT req_dec req_nil Gen.sites Gen.recvs p = Ok (Some h).
Proof. exact (hdr_roundtrip ReqT req_enc req_dec req_nil Gen.sites Gen.recvs). Qed.

Theorem C09_hash_stable : forall (X : Type) (gen_hash : hdr ReqT -> X) h, hdr_wf ReqT req_enc req_dec h ->
  exists p h', hdr_to_pb ReqT req_enc h = Some p /\ hdr_of_pb_body ReqT req_dec req_nil Gen.sites Gen.recvs p = Ok (Some h') /\
               gen_hash h' = gen_hash h.
Proof.
  intros X f h H. destruct (hdr_roundtrip ReqT req_enc req_dec req_nil Gen.sites Gen.recvs h H) as (p & A & B).
  exists p, h. auto.
Qed.

Theorem C09_block_roundtrip : forall b, block_wf SubT sub_enc sub_dec ReqT req_enc req_dec b ->
  exists p, block_to_pb SubT sub_enc ReqT req_enc b = Ok p /\
            block_of_pb SubT sub_dec sub_nil ReqT req_dec req_nil Gen.sites Gen.recvs p = Ok (block_wire_view SubT ReqT b).
Proof. intros b. exact (block_roundtrip SubT sub_enc sub_dec sub_nil ReqT req_enc req_dec req_nil Gen.sites Gen.recvs b eq_refl). Qed.

(* fixed-point law: whatever the parser returns (from ANY pb message, hostile or not) is reproduced by the
   next serialise/parse pass. Assumptions on encoding/json: re-encoding a decoded value decodes to it again. *)
Hypothesis sub_idem : forall b, sub_dec (sub_enc (sub_dec b)) = sub_dec b.
Hypothesis sub_nil_ok : sub_dec (sub_enc sub_nil) = sub_nil.
Hypothesis req_idem : forall b, req_dec (req_enc (req_dec b)) = req_dec b.
Hypothesis req_nil_ok : req_dec (req_enc req_nil) = req_nil.

Theorem C09_tx_fixed_point : forall p t, bytes_ok (ob p.(p_Sign)) -> tx_of_pb_body SubT sub_dec sub_nil Gen.sites p = Ok t ->
  let t1 := tx_wire_view SubT t in
  tx_of_pb_body SubT sub_dec sub_nil Gen.sites (tx_to_pb SubT sub_enc t) = Ok t1 /\
  tx_of_pb_body SubT sub_dec sub_nil Gen.sites (tx_to_pb SubT sub_enc t1) = Ok t1.
Proof.
  intros p t BS E. pose proof (tx_of_pb_wf SubT sub_enc sub_dec sub_nil Gen.sites p t sub_idem sub_nil_ok BS E) as W.
  split; [apply (tx_roundtrip SubT sub_enc sub_dec sub_nil Gen.sites t eq_refl W)|].
  apply (tx_roundtrip SubT sub_enc sub_dec sub_nil Gen.sites (tx_wire_view SubT t) eq_refl W).
Qed.

(* for headers the law holds whenever the two parsed zone offsets are ones Go's binary time form reproduces
   (see C09_time_fixed_point_refuted for the excluded case: known finding) *)
Theorem C09_header_fixed_point : forall p h, pb_times_ok p ->
  hdr_of_pb_body ReqT req_dec req_nil Gen.sites Gen.recvs p = Ok (Some h) ->
  off_ok h.(b_PreTime _).(t_off) -> off_ok h.(b_CurTime _).(t_off) ->
  exists p', hdr_to_pb ReqT req_enc h = Some p' /\ hdr_of_pb_body ReqT req_dec req_nil Gen.sites Gen.recvs p' = Ok (Some h).
Proof.
  intros p h B E O1 O2. apply (hdr_roundtrip ReqT req_enc req_dec req_nil Gen.sites Gen.recvs).
  exact (hdr_of_pb_wf ReqT req_enc req_dec req_nil Gen.sites Gen.recvs p h req_idem req_nil_ok B E O1 O2).
Qed.

End JsonRT.

(* ---- the GenHash preimage (json.Marshal of the `header` projection): field order and null / [] / value are
   concrete, leaf encoders are parameters ---- *)
Section Preimage.
Variable ReqT : Type.
Variable req_enc : ReqT -> bytes.
Variable req_dec : bytes -> ReqT.
Variable req_nil : ReqT.
Variable j_num : N -> bytes.
Variable j_hash : bytes -> bytes.
Variable j_time : gtime -> bytes.
Variable j_big : Z -> bytes.
Variable j_b64 : bytes -> bytes.

(* one serialise/parse pass maps ANY in-memory header with well-formed leaves to its normal form: identical
   except that nil Transactions / EvictedTxs become empty lists *)
Theorem C09_header_one_pass : forall h, hdr_wf_mem ReqT req_enc req_dec h ->
  exists p, hdr_to_pb ReqT req_enc h = Some p /\
            hdr_of_pb_body ReqT req_dec req_nil Gen.sites Gen.recvs p = Ok (Some (hdr_norm ReqT h)).
Proof. exact (hdr_pass ReqT req_enc req_dec req_nil Gen.sites Gen.recvs). Qed.

Theorem C09_genhash_preimage_stable : forall h,
  (exists l, h.(b_Transactions _) = Some l) -> (exists l, h.(b_EvictedTxs _) = Some l) ->
  json_hdr ReqT req_enc j_num j_hash j_time j_big j_b64 (hdr_norm ReqT h) = json_hdr ReqT req_enc j_num j_hash j_time j_big j_b64 h.
Proof. exact (json_hdr_stable ReqT req_enc j_num j_hash j_time j_big j_b64). Qed.

(* a header built with a nil Transactions or EvictedTxs slice (the node's constructors take care not to: "important!!"
   in core/genesis_block.go) does not keep its GenHash preimage: null becomes [] *)
Theorem C09_genhash_nil_slice_refuted : forall h, h.(b_Transactions _) = None \/ h.(b_EvictedTxs _) = None ->
  json_hdr ReqT req_enc j_num j_hash j_time j_big j_b64 (hdr_norm ReqT h) <> json_hdr ReqT req_enc j_num j_hash j_time j_big j_b64 h.
Proof. exact (json_hdr_drift ReqT req_enc j_num j_hash j_time j_big j_b64). Qed.

End Preimage.

(* groups: the wire carries everything but Ready/Work/DismissHeight (derived from CreateHeight after loading) *)
Theorem C09_group_roundtrip : forall g, group_wf g ->
  exists p, group_to_pb g = Ok p /\ group_of_pb Gen.sites Gen.recvs p = Ok (group_wire_view g).
Proof. exact (group_roundtrip Gen.sites Gen.recvs). Qed.

Theorem C09_group_header_fixed_point : forall p g, bytes_ok (ob p.(g_BeginTime)) ->
  ghdr_of_pb_body Gen.sites p = Ok g -> off_ok g.(gh_BeginTime).(t_off) ->
  ghdr_of_pb_body Gen.sites (ghdr_to_pb g) = Ok g.
Proof.
  intros p g B E O. pose proof (ghdr_of_pb_wf Gen.sites p g B E O) as W.
  rewrite (ghdr_roundtrip Gen.sites g W).
  revert E. unfold ghdr_of_pb_body.
  repeat match goal with |- context [rd ?m ?x ?d] => destruct (rd m x d); cbn [bind]; [|discriminate] end.
  intros E. apply Ok_inj in E. subst g. reflexivity.
Qed.

(* non-vacuity: a concrete header/transaction/group (JSON parts as their canonical text, identity codec) *)
Example C09_example :
  let t0 := mk_time 63774518400 123456789 (Some 28800%Z) in
  let h32 := repeat 7%N 32 in
  let h := mk_hdr bytes h32 5 h32 t0 (Some 0%Z) 9 (mk_time 63774518400 0 None) None (Some []) (Some [1%N]) 3 [110;117;108;108]%N
                  (Some [(h32, h32)]) h32 h32 h32 (Some [0%N]) None (Some []) in
  hdr_wf bytes (fun b => b) (fun b => b) h /\
  (exists p, hdr_to_pb bytes (fun b => b) h = Some p /\
             hdr_of_pb_body bytes (fun b => b) [110;117;108;108]%N Gen.sites Gen.recvs p = Ok (Some h)) /\
  tx_wf bytes (fun b => b) (fun b => b) (mk_tx bytes [1%N] [] 1 [] [] [] 0 [91;93]%N h32 h32 (Some (0, 255, 27)%N) 1 2 [5%N] []).
Proof.
  cbv zeta.
  assert (W : hdr_wf bytes (fun b => b) (fun b => b)
    (mk_hdr bytes (repeat 7%N 32) 5 (repeat 7%N 32) (mk_time 63774518400 123456789 (Some 28800%Z)) (Some 0%Z) 9 (mk_time 63774518400 0 None) None (Some []) (Some [1%N]) 3
       [110;117;108;108]%N (Some [(repeat 7%N 32, repeat 7%N 32)]) (repeat 7%N 32) (repeat 7%N 32) (repeat 7%N 32) (Some [0%N]) None (Some []))).
  { unfold hdr_wf, time_ok, off_ok, hash32. cbn. repeat split; try lia; try discriminate.
    - eexists; split; [reflexivity|]. repeat constructor.
    - eexists; split; [reflexivity|]. constructor. }
  split; [exact W|]. split.
  - exact (hdr_roundtrip bytes (fun b => b) (fun b => b) _ Gen.sites Gen.recvs _ W).
  - unfold tx_wf, hash32, sign_ok. cbn. repeat split.
Qed.

(* ================= the protobuf wire layer (gogo/protobuf table-driven decoder/encoder) ================= *)

(* varints: what appendVarint writes for x < 2^64 is read back by decodeVarint, which stops there *)
Theorem C09_varint_roundtrip : forall x r, (x < 2 ^ 64)%N -> dec_varint (enc_varint x ++ r) = Some (x, r).
Proof. exact dec_enc_varint. Qed.

(* decodeVarint consumes between 1 and 10 bytes of its input and nothing else (no read beyond the input);
   anything longer, truncated, or with a tenth byte above 1 is an error *)
Theorem C09_varint_reads_within_input : forall b x r, dec_varint b = Some (x, r) ->
  exists pre, b = pre ++ r /\ (1 <= List.length pre <= 10)%nat.
Proof. exact dec_varint_suffix. Qed.

(* the message decoder is total: with fuel = length of the input it never runs out, for ANY schema, message
   name and byte string -- the result is a list of field occurrences, or one of three errors *)
Theorem C09_wire_decoder_total : forall sc m b, unmarshal_occs sc m b <> UFuel.
Proof. exact unmarshal_occs_total. Qed.

(* decoding what the encoder writes returns exactly the occurrences written (any schema; nested messages) *)
Theorem C09_wire_roundtrip : forall sc m l, conf sc m l -> dec_fields (List.length (enc_occs l)) sc m (enc_occs l) = WOk l.
Proof. intros sc m l C. exact (dec_enc_occs sc m l C _ (le_n _)). Qed.

(* proto.Unmarshal (proto.Marshal p) = p for the pb messages of the generated schema (all lengths and integers
   within their Go types) *)
Theorem C09_pb_tx_roundtrip : forall p b, pb_tx_ok p -> marshal_tx Gen.msgs p = Some b -> unmarshal_tx Gen.msgs b = UOk p.
Proof. exact unmarshal_marshal_tx. Qed.
Theorem C09_pb_txs_roundtrip : forall p b, pb_txs_ok p -> marshal_txs Gen.msgs p = Some b -> unmarshal_txs Gen.msgs b = UOk p.
Proof. exact unmarshal_marshal_txs. Qed.
Theorem C09_pb_header_roundtrip : forall p b, pb_hdr_ok p -> marshal_hdr Gen.msgs p = Some b -> unmarshal_hdr Gen.msgs b = UOk p.
Proof. exact unmarshal_marshal_hdr. Qed.
Theorem C09_pb_block_roundtrip : forall p b, pb_block_ok p -> marshal_block Gen.msgs p = Some b -> unmarshal_block Gen.msgs b = UOk p.
Proof. exact unmarshal_marshal_block. Qed.
Theorem C09_pb_group_roundtrip : forall p b, pb_group_ok p -> req_ok req_depth Gen.msgs "Group" (group_occs Gen.msgs p) = true ->
  marshal_group Gen.msgs p = Some b -> unmarshal_group Gen.msgs b = UOk p.
Proof. exact unmarshal_marshal_group. Qed.

(* the wire format is NOT canonical and the property does not need it to be: unknown fields (any wire type, groups
   included), fields out of order, repeated optional scalars (last one wins) and overlong varints decode to the
   same message as the encoder's own bytes.  Kernel-evaluated instance: Type=1, Nonce=5 *)
Example C09_noncanonical_example :
  let canonical := [16;5;40;1]%N in
  let odd := [40;7; 248;7;9; 16;133;0; 91;8;1;92; 40;129;128;0]%N in
  marshal_tx Gen.msgs (mk_pb_tx None (Some 5%N) None None (Some 1%Z) None None None None None None None None None None) = Some canonical /\
  unmarshal_tx Gen.msgs canonical = unmarshal_tx Gen.msgs odd /\
  unmarshal_tx Gen.msgs odd = UOk (mk_pb_tx None (Some 5%N) None None (Some 1%Z) None None None None None None None None None None).
Proof. vm_compute. repeat split; reflexivity. Qed.

Section Bytes.
Variable SubT : Type.
Variable sub_enc : SubT -> bytes.
Variable sub_dec : bytes -> SubT.
Variable sub_nil : SubT.
Variable ReqT : Type.
Variable req_enc : ReqT -> bytes.
Variable req_dec : bytes -> ReqT.
Variable req_nil : ReqT.

(* ---- totality from the bytes: wire model composed with the conversion model; PPanic = nil dereference,
   PFuel = the model's fuel ran out (excluded); a value is a usable object: UnMarshalBlockHeader/UnMarshalBlock
   never return a nil header without an error (/repo 15a1dce) ---- *)
Theorem C09_UnMarshalTransaction_total : forall b,
  UnMarshalTransaction SubT sub_dec sub_nil b <> PPanic /\ UnMarshalTransaction SubT sub_dec sub_nil b <> PFuel.
Proof. exact (UnMarshalTransaction_total SubT sub_dec sub_nil). Qed.
Theorem C09_UnMarshalTransactions_total : forall b,
  UnMarshalTransactions SubT sub_dec sub_nil b <> PPanic /\ UnMarshalTransactions SubT sub_dec sub_nil b <> PFuel.
Proof. exact (UnMarshalTransactions_total SubT sub_dec sub_nil). Qed.
Theorem C09_UnMarshalBlockHeader_total : forall b,
  UnMarshalBlockHeader ReqT req_dec req_nil b <> PPanic /\ UnMarshalBlockHeader ReqT req_dec req_nil b <> PFuel.
Proof. exact (UnMarshalBlockHeader_total ReqT req_dec req_nil). Qed.
Theorem C09_UnMarshalBlock_total : forall b,
  UnMarshalBlock SubT sub_dec sub_nil ReqT req_dec req_nil b <> PPanic /\ UnMarshalBlock SubT sub_dec sub_nil ReqT req_dec req_nil b <> PFuel.
Proof. exact (UnMarshalBlock_total SubT sub_dec sub_nil ReqT req_dec req_nil). Qed.
Theorem C09_UnMarshalGroup_total : forall b, UnMarshalGroup b <> PPanic /\ UnMarshalGroup b <> PFuel.
Proof. exact UnMarshalGroup_total. Qed.

(* ---- losslessness through the bytes ---- *)
Theorem C09_tx_bytes_roundtrip : forall t b, tx_wf SubT sub_enc sub_dec t -> pb_tx_ok (tx_to_pb SubT sub_enc t) ->
  MarshalTransaction SubT sub_enc t = Some b -> UnMarshalTransaction SubT sub_dec sub_nil b = PVal (tx_wire_view SubT t).
Proof. exact (tx_bytes_roundtrip SubT sub_enc sub_dec sub_nil). Qed.

(* a node-producible header always serialises, and parsing the bytes returns the identical header: every function of
   it -- BlockHeader.GenHash -- is the same before storing/relaying and after loading/receiving *)
Theorem C09_header_bytes_roundtrip : forall h, hdr_wf ReqT req_enc req_dec h ->
  (forall p, hdr_to_pb ReqT req_enc h = Some p -> pb_hdr_ok p) ->
  exists b, MarshalBlockHeader ReqT req_enc h = Some b /\ UnMarshalBlockHeader ReqT req_dec req_nil b = PVal h.
Proof. exact (hdr_bytes_roundtrip ReqT req_enc req_dec req_nil). Qed.

Theorem C09_hash_stable_bytes : forall (X : Type) (gen_hash : hdr ReqT -> X) h, hdr_wf ReqT req_enc req_dec h ->
  (forall p, hdr_to_pb ReqT req_enc h = Some p -> pb_hdr_ok p) ->
  exists b h', MarshalBlockHeader ReqT req_enc h = Some b /\ UnMarshalBlockHeader ReqT req_dec req_nil b = PVal h' /\
               gen_hash h' = gen_hash h.
Proof.
  intros X f h W O. destruct (hdr_bytes_roundtrip ReqT req_enc req_dec req_nil h W O) as (b & A & B). exists b, h. auto.
Qed.

Theorem C09_block_bytes_roundtrip : forall k p b, block_wf SubT sub_enc sub_dec ReqT req_enc req_dec k ->
  block_to_pb SubT sub_enc ReqT req_enc k = Ok p -> pb_block_ok p -> marshal_block Gen.msgs p = Some b ->
  UnMarshalBlock SubT sub_dec sub_nil ReqT req_dec req_nil b = PVal (block_wire_view SubT ReqT k).
Proof. exact (block_bytes_roundtrip SubT sub_enc sub_dec sub_nil ReqT req_enc req_dec req_nil). Qed.

End Bytes.

Theorem C09_group_bytes_roundtrip : forall g p b, group_wf g -> group_to_pb g = Ok p -> pb_group_ok p ->
  req_ok req_depth Gen.msgs "Group" (group_occs Gen.msgs p) = true -> marshal_group Gen.msgs p = Some b ->
  UnMarshalGroup b = PVal (group_wire_view g).
Proof. exact group_bytes_roundtrip. Qed.

(* one audit of everything above: the tuple of all property theorems *)
Definition C09_all_theorems := (@C09_sign_roundtrip, @C09_sign_right_pad_refuted,
  @C09_tx_total,
  @C09_txs_total,
  @C09_header_total,
  @C09_block_total,
  @C09_tx_total_refuted,
  @C09_header_total_refuted,
  @C09_group_total,
  @C09_group_total_refuted,
  @C09_time_roundtrip,
  @C09_time_fixed_point_refuted,
  @C09_time_roundtrip_refuted,
  @C09_tx_roundtrip,
  @C09_header_roundtrip,
  @C09_hash_stable,
  @C09_block_roundtrip,
  @C09_tx_fixed_point,
  @C09_header_fixed_point,
  @C09_header_one_pass,
  @C09_genhash_preimage_stable,
  @C09_genhash_nil_slice_refuted,
  @C09_group_roundtrip,
  @C09_group_header_fixed_point,
  @C09_example,
  @C09_varint_roundtrip,
  @C09_varint_reads_within_input,
  @C09_wire_decoder_total,
  @C09_wire_roundtrip,
  @C09_pb_tx_roundtrip,
  @C09_pb_txs_roundtrip,
  @C09_pb_header_roundtrip,
  @C09_pb_block_roundtrip,
  @C09_pb_group_roundtrip,
  @C09_noncanonical_example,
  @C09_UnMarshalTransaction_total,
  @C09_UnMarshalTransactions_total,
  @C09_UnMarshalBlockHeader_total,
  @C09_UnMarshalBlock_total,
  @C09_UnMarshalGroup_total,
  @C09_tx_bytes_roundtrip,
  @C09_header_bytes_roundtrip,
  @C09_hash_stable_bytes,
  @C09_block_bytes_roundtrip,
  @C09_group_bytes_roundtrip).
Print Assumptions C09_all_theorems.
