(* C09 -- property theorems (statements + [exact]); proofs in Proofs.v.
   [Gen.sites]/[Gen.recvs] is the access-mode table generated from serialization.go (after /repo commit
   aaa3b3c, which replaced the unchecked dereferences by the generated nil-safe getters). *)
From Coq Require Import List NArith ZArith String Bool.
From V.Base Require Import Hex BigEndian.
From V.C09 Require Import Modes Gen Model Proofs.
Import ListNotations.

Section Json.
(* encoding/json for []UserData and map[string]uint64 is a parameter of the model *)
Variable SubT : Type.
Variable sub_dec : bytes -> SubT.
Variable sub_nil : SubT.
Variable ReqT : Type.
Variable req_dec : bytes -> ReqT.
Variable req_nil : ReqT.

(* ---- totality: with the access modes of the current source no pb message makes a conversion panic,
   whichever optional fields are absent (and a nil message pointer is handled) ---- *)
Theorem C09_tx_total : forall p, tx_of_pb SubT sub_dec sub_nil Gen.sites Gen.recvs p <> Panic.
Proof.
  intros p. destruct (tx_ptr_total SubT sub_dec sub_nil Gen.sites Gen.recvs eq_refl eq_refl p) as [t E].
  rewrite E. discriminate.
Qed.

Theorem C09_txs_total : forall l, txs_of_pb SubT sub_dec sub_nil Gen.sites l <> Panic.
Proof.
  intros l. destruct (txs_total SubT sub_dec sub_nil Gen.sites eq_refl l) as [t E]. rewrite E. discriminate.
Qed.

Theorem C09_header_total : forall p, hdr_of_pb ReqT req_dec req_nil Gen.sites Gen.recvs p <> Panic.
Proof.
  intros p. destruct (hdr_ptr_total ReqT req_dec req_nil Gen.sites Gen.recvs eq_refl eq_refl p) as [t E].
  rewrite E. discriminate.
Qed.

Theorem C09_block_total : forall p, block_of_pb SubT sub_dec sub_nil ReqT req_dec req_nil Gen.sites Gen.recvs p <> Panic.
Proof.
  intros p. destruct (block_total SubT sub_dec sub_nil ReqT req_dec req_nil Gen.sites Gen.recvs eq_refl eq_refl eq_refl p) as [t E].
  rewrite E. discriminate.
Qed.

(* ---- the defect the fix removed, as a statement about ANY access table: one unchecked dereference of an
   optional scalar is enough; the witness is the message with only the required Type set (wire 28 01),
   resp. a header with two valid times and nothing else, resp. a group without GroupHeight / header ---- *)
Theorem C09_tx_total_refuted : forall ss f,
  In f ["Target"; "Data"; "SocketRequestId"; "Nonce"; "RequestId"; "ExtraDataType"; "Time"; "ChainId"]%string ->
  safe (site_mode ss fT "Transaction" f) = false ->
  tx_of_pb_body SubT sub_dec sub_nil ss pb_only_type = Panic.
Proof. intros ss f. exact (tx_deref_panics SubT sub_dec sub_nil ss f). Qed.

Theorem C09_header_total_refuted : forall ss rs,
  safe (site_mode ss fH "BlockHeader" "Height") && safe (site_mode ss fH "BlockHeader" "Nonce") &&
  safe (site_mode ss fH "BlockHeader" "TotalQN") = false ->
  hdr_of_pb_body ReqT req_dec req_nil ss rs pb_hdr_times_only = Panic.
Proof. intros ss rs. exact (hdr_deref_panics ReqT req_dec req_nil ss rs). Qed.

End Json.

Theorem C09_group_total : forall p, group_of_pb Gen.sites Gen.recvs p <> Panic.
Proof. intros p. destruct (group_total Gen.sites Gen.recvs eq_refl p) as [t E]. rewrite E. discriminate. Qed.

Theorem C09_group_total_refuted : forall ss rs, grp_sites_safe ss rs = false -> exists p, group_of_pb ss rs p = Panic.
Proof. exact group_deref_panics. Qed.

Print Assumptions C09_tx_total.
Print Assumptions C09_txs_total.
Print Assumptions C09_header_total.
Print Assumptions C09_block_total.
Print Assumptions C09_group_total.
Print Assumptions C09_tx_total_refuted.
Print Assumptions C09_header_total_refuted.
Print Assumptions C09_group_total_refuted.
