(* C09 -- proofs about the wire model: varints, totality (fuel = input length always suffices, nothing is read
   beyond the input), and decode (encode l) = l for every occurrence list that conforms to the schema. *)
From Coq Require Import List NArith ZArith String Bool Lia.
From V.Base Require Import Hex BigEndian.
From V.C09 Require Import Modes Wire.
Import ListNotations.
Local Open Scope N_scope.

(* ---------- varints ---------- *)
Fixpoint bnd (k : nat) : N := match k with O => 0 | S O => 2 | S k' => 128 * bnd k' end.
Lemma bnd_10 : bnd 10 = 2 ^ 64. Proof. reflexivity. Qed.
Lemma bnd_SS k : bnd (S (S k)) = 128 * bnd (S k). Proof. reflexivity. Qed.
Lemma bnd_ge2 k : 2 <= bnd (S k).
Proof. induction k; [cbn; lia | rewrite bnd_SS; lia]. Qed.

Lemma dec_enc_var k : forall x shift acc r, (1 <= k)%nat -> x < bnd k ->
  dec_var k shift acc (enc_var k x ++ r) = Some (acc + x * 2 ^ shift, r).
Proof.
  induction k as [|k IH]; intros x shift acc r Hk Hx; [lia|].
  cbn [enc_var]. destruct (x <? 128) eqn:E.
  - apply N.ltb_lt in E. cbn [app dec_var]. rewrite (proj2 (N.ltb_lt x 128) E).
    destruct k; [|reflexivity]. cbn in Hx. rewrite (proj2 (N.ltb_lt x 2) Hx). reflexivity.
  - apply N.ltb_ge in E. cbn [app dec_var].
    pose proof (N.div_mod x 128 ltac:(lia)) as DM. pose proof (N.mod_lt x 128 ltac:(lia)) as ML.
    set (q := x / 128) in *. set (d := x mod 128) in *.
    rewrite (proj2 (N.ltb_ge (d + 128) 128)) by lia.
    destruct k as [|k']; [cbn in Hx; lia|].
    rewrite IH; [|lia|].
    + f_equal. f_equal. replace (d + 128 - 128) with d by lia.
      rewrite N.pow_add_r. change (2 ^ 7) with 128. rewrite DM. lia.
    + rewrite bnd_SS in Hx. lia.
Qed.

Lemma dec_enc_varint x r : x < 2 ^ 64 -> dec_varint (enc_varint x ++ r) = Some (x, r).
Proof.
  intros H. unfold dec_varint, enc_varint. rewrite dec_enc_var; [|lia|rewrite bnd_10; exact H].
  f_equal. f_equal. cbn. lia.
Qed.

Lemma enc_var_nonempty k x : (1 <= k)%nat -> exists y t, enc_var k x = y :: t.
Proof. destruct k; [lia|]. intros _. cbn. destruct (x <? 128); eauto. Qed.

Lemma enc_varint_nonempty x : exists y t, enc_varint x = y :: t.
Proof. apply enc_var_nonempty. lia. Qed.

(* a decoded varint consumed at least one byte and left a suffix of the input: nothing beyond the input is read *)
Lemma dec_var_suffix k : forall shift acc b x r, dec_var k shift acc b = Some (x, r) ->
  exists pre, b = pre ++ r /\ (1 <= List.length pre <= k)%nat.
Proof.
  induction k as [|k IH]; intros shift acc b x r H; [discriminate|].
  cbn in H. destruct b as [|y t]; [discriminate|].
  destruct (y <? 128).
  - assert (t = r) as ->.
    { destruct k; [destruct (y <? 2)|]; congruence. }
    exists [y]. cbn. split; [reflexivity | lia].
  - destruct k; [discriminate|]. apply IH in H. destruct H as (pre & -> & L).
    exists (y :: pre). cbn. split; [reflexivity | lia].
Qed.

Lemma dec_varint_suffix b x r : dec_varint b = Some (x, r) ->
  exists pre, b = pre ++ r /\ (1 <= List.length pre <= 10)%nat.
Proof. apply dec_var_suffix. Qed.

Lemma dec_varint_shorter b x r : dec_varint b = Some (x, r) -> (List.length r < List.length b)%nat.
Proof. intros H. apply dec_varint_suffix in H. destruct H as (pre & -> & L). rewrite app_length. lia. Qed.

(* ---------- skipping ---------- *)
Lemma skipn_le {A} n (l : list A) : (List.length (skipn n l) <= List.length l)%nat.
Proof. rewrite skipn_length. lia. Qed.

Ltac triv := split; [discriminate | intros; discriminate].

Lemma find_end_group_ok fuel : forall depth b, (List.length b <= fuel)%nat ->
  find_end_group fuel depth b <> WFuel /\
  (forall r, find_end_group fuel depth b = WOk r -> (List.length r <= List.length b)%nat).
Proof.
  induction fuel as [|f IH]; intros depth b Hb.
  - destruct b; [|cbn in Hb; lia]. cbn. triv.
  - cbn [find_end_group]. destruct (dec_varint b) as [[x r]|] eqn:E; [|triv].
    pose proof (dec_varint_shorter _ _ _ E) as L.
    assert (Hr : (List.length r <= f)%nat) by lia. cbv zeta.
    destruct (x mod 8 =? 0).
    { destruct (dec_varint r) as [[m r']|] eqn:E2; [|triv].
      pose proof (dec_varint_shorter _ _ _ E2).
      destruct (IH depth r') as [A B]; [lia|]. split; [exact A|]. intros r'' H'. apply B in H'. lia. }
    destruct (x mod 8 =? 5).
    { destruct (Nat.ltb_spec (List.length r) 4); [triv|].
      pose proof (skipn_le 4 r). destruct (IH depth (skipn 4 r)) as [A B]; [lia|]. split; [exact A|]. intros r' H'. apply B in H'. lia. }
    destruct (x mod 8 =? 1).
    { destruct (Nat.ltb_spec (List.length r) 8); [triv|].
      pose proof (skipn_le 8 r). destruct (IH depth (skipn 8 r)) as [A B]; [lia|]. split; [exact A|]. intros r' H'. apply B in H'. lia. }
    destruct (x mod 8 =? 2).
    { destruct (dec_varint r) as [[m r']|] eqn:E2; [|triv].
      pose proof (dec_varint_shorter _ _ _ E2).
      destruct (N.of_nat (List.length r') <? m); [triv|].
      pose proof (skipn_le (N.to_nat m) r'). destruct (IH depth (skipn (N.to_nat m) r')) as [A B]; [lia|].
      split; [exact A|]. intros r'' H'. apply B in H'. lia. }
    destruct (x mod 8 =? 3).
    { destruct (IH (S depth) r Hr) as [A B]. split; [exact A|]. intros r' H'. apply B in H'. lia. }
    destruct (x mod 8 =? 4); [|triv].
    destruct depth as [|[|d]]; [triv| |].
    + split; [discriminate|]. intros r' H'. injection H' as <-. lia.
    + destruct (IH (S d) r Hr) as [A B]. split; [exact A|]. intros r' H'. apply B in H'. lia.
Qed.

Lemma skip_field_ok fuel wire b : (List.length b <= fuel)%nat ->
  skip_field fuel wire b <> WFuel /\
  (forall r, skip_field fuel wire b = WOk r -> (List.length r <= List.length b)%nat).
Proof.
  intros Hb. unfold skip_field.
  destruct (wire =? 0).
  { destruct (dec_varint b) as [[m r]|] eqn:E; [|triv].
    pose proof (dec_varint_shorter _ _ _ E).
    split; [discriminate|]. intros r' H'. injection H' as <-. lia. }
  destruct (wire =? 5).
  { destruct (Nat.ltb_spec (List.length b) 4); [triv|].
    split; [discriminate|]. intros r H'. injection H' as <-. exact (skipn_le 4 b). }
  destruct (wire =? 1).
  { destruct (Nat.ltb_spec (List.length b) 8); [triv|].
    split; [discriminate|]. intros r H'. injection H' as <-. exact (skipn_le 8 b). }
  destruct (wire =? 2).
  { destruct (dec_varint b) as [[m r]|] eqn:E; [|triv].
    pose proof (dec_varint_shorter _ _ _ E).
    destruct (N.of_nat (List.length r) <? m); [triv|].
    split; [discriminate|]. intros r' H'. injection H' as <-. pose proof (skipn_le (N.to_nat m) r). lia. }
  destruct (wire =? 3); [apply find_end_group_ok; exact Hb | triv].
Qed.

Lemma dec_len_ok b p r : dec_len b = WOk (p, r) ->
  (List.length p < List.length b)%nat /\ (List.length r < List.length b)%nat /\ exists pre, b = pre ++ p ++ r.
Proof.
  unfold dec_len. destruct (dec_varint b) as [[x t]|] eqn:E; [|discriminate].
  destruct (dec_varint_suffix _ _ _ E) as (pre & -> & L).
  destruct (N.of_nat (List.length t) <? x); [discriminate|].
  intros H. injection H as <- <-. rewrite app_length.
  pose proof (firstn_length (N.to_nat x) t). pose proof (skipn_le (N.to_nat x) t).
  split; [lia|]. split; [lia|]. exists pre. rewrite firstn_skipn. reflexivity.
Qed.

Lemma dec_len_nofuel b : dec_len b <> WFuel.
Proof. unfold dec_len. destruct (dec_varint b) as [[x t]|]; [destruct (_ <? _)|]; discriminate. Qed.

(* ---------- the message decoder never runs out of fuel when fuel >= length of the input ---------- *)
Lemma dec_fields_fuel sc fuel : forall m b, (List.length b <= fuel)%nat -> dec_fields fuel sc m b <> WFuel.
Proof.
  induction fuel as [|f IH]; intros m b Hb.
  - destruct b; [cbn; discriminate | cbn in Hb; lia].
  - destruct b as [|y t] eqn:Eb; [cbn; discriminate|]. rewrite <- Eb in *.
    rewrite dec_fields_S by (rewrite Eb; discriminate). clear Eb y t. unfold dec_body.
    destruct (dec_varint b) as [[x r]|] eqn:E; [|discriminate]. cbv zeta.
    pose proof (dec_varint_shorter _ _ _ E) as L. assert (Hr : (List.length r <= f)%nat) by lia.
    assert (SK : match skip_field f (x mod 8) r with
                 | WOk r' => dec_fields f sc m r' | WErr e => WErr e | WFuel => WFuel end <> WFuel).
    { destruct (skip_field_ok f (x mod 8) r Hr) as [A B].
      destruct (skip_field f (x mod 8) r) as [r'| |] eqn:ES; [|discriminate|congruence].
      apply IH. specialize (B r' eq_refl). lia. }
    destruct (x / 8 =? 0); [discriminate|].
    destruct (find_fd (msg_fields sc m) (x / 8)) as [fd|]; [|exact SK].
    destruct (negb (x mod 8 =? wire_of_kind (fd_kind fd))); [exact SK|].
    assert (VAR : match dec_varint r with
                  | Some (v, r') => match dec_fields f sc m r' with WOk l => WOk ((x / 8, DVar v) :: l) | e => e end
                  | None => WErr EEOF end <> WFuel).
    { destruct (dec_varint r) as [[v r']|] eqn:E2; [|discriminate].
      pose proof (dec_varint_shorter _ _ _ E2). specialize (IH m r').
      destruct (dec_fields f sc m r'); [discriminate|discriminate|]. exfalso. apply IH; [lia|reflexivity]. }
    assert (BYT : match dec_len r with
                  | WOk (p, r') => match dec_fields f sc m r' with WOk l => WOk ((x / 8, DBytes p) :: l) | e => e end
                  | WErr e => WErr e | WFuel => WFuel end <> WFuel).
    { destruct (dec_len r) as [[p r']| |] eqn:E2; [|discriminate|exfalso; eapply dec_len_nofuel; eauto].
      destruct (dec_len_ok _ _ _ E2) as (L1 & L2 & _). specialize (IH m r').
      destruct (dec_fields f sc m r'); [discriminate|discriminate|]. exfalso. apply IH; [lia|reflexivity]. }
    assert (MSG : forall sub, match dec_len r with
                  | WOk (p, r') => match dec_fields f sc sub p with
                                   | WOk inner => match dec_fields f sc m r' with WOk l => WOk ((x / 8, DMsg inner) :: l) | e => e end
                                   | e => e end
                  | WErr e => WErr e | WFuel => WFuel end <> WFuel).
    { intros sub. destruct (dec_len r) as [[p r']| |] eqn:E2; [|discriminate|exfalso; eapply dec_len_nofuel; eauto].
      destruct (dec_len_ok _ _ _ E2) as (L1 & L2 & _).
      pose proof (IH sub p) as I1. pose proof (IH m r') as I2.
      destruct (dec_fields f sc sub p); [|discriminate|exfalso; apply I1; [lia|reflexivity]].
      destruct (dec_fields f sc m r'); [discriminate|discriminate|]. exfalso. apply I2; [lia|reflexivity]. }
    destruct (fd_kind fd); try exact VAR; try exact BYT; apply MSG.
Qed.

Theorem unmarshal_occs_total sc m b : unmarshal_occs sc m b <> UFuel.
Proof.
  unfold unmarshal_occs. pose proof (dec_fields_fuel sc (List.length b) m b (le_n _)).
  destruct (dec_fields (List.length b) sc m b); [destruct (req_ok _ _ _ _)| |]; congruence.
Qed.

(* ---------- decode (encode l) = l ---------- *)
Definition num_ok (n : N) : Prop := 0 < n < 2 ^ 61.

Inductive conf (sc : schema) : string -> occs -> Prop :=
| conf_nil m : conf sc m []
| conf_var m n x r fd : find_fd (msg_fields sc m) n = Some fd -> wire_of_kind fd.(fd_kind) = 0 ->
    num_ok n -> x < 2 ^ 64 -> conf sc m r -> conf sc m ((n, DVar x) :: r)
| conf_bytes m n p r fd : find_fd (msg_fields sc m) n = Some fd ->
    (fd.(fd_kind) = FStr \/ fd.(fd_kind) = FBytes \/ fd.(fd_kind) = FRepBytes) ->
    num_ok n -> N.of_nat (List.length p) < 2 ^ 64 -> conf sc m r -> conf sc m ((n, DBytes p) :: r)
| conf_msg m n inner r fd sub : find_fd (msg_fields sc m) n = Some fd ->
    (fd.(fd_kind) = FMsg sub \/ fd.(fd_kind) = FRepMsg sub) ->
    num_ok n -> N.of_nat (List.length (enc_occs inner)) < 2 ^ 64 -> conf sc sub inner -> conf sc m r ->
    conf sc m ((n, DMsg inner) :: r).

Lemma conf_app sc m a b : conf sc m a -> conf sc m b -> conf sc m (a ++ b).
Proof. induction 1; cbn; intros; [assumption | econstructor; eauto ..]. Qed.

Lemma tag_div n w : w < 8 -> (n * 8 + w) / 8 = n /\ (n * 8 + w) mod 8 = w.
Proof.
  intros H. split.
  - rewrite N.add_comm. rewrite N.div_add by lia. rewrite N.div_small by lia. lia.
  - rewrite N.add_comm. rewrite N.mod_add by lia. apply N.mod_small. lia.
Qed.

Lemma dec_len_enc p r : N.of_nat (List.length p) < 2 ^ 64 ->
  dec_len (enc_varint (N.of_nat (List.length p)) ++ p ++ r) = WOk (p, r).
Proof.
  intros H. unfold dec_len. rewrite dec_enc_varint by exact H.
  replace (N.of_nat (List.length (p ++ r)) <? N.of_nat (List.length p)) with false
    by (symmetry; apply N.ltb_ge; rewrite app_length; lia).
  rewrite Nat2N.id. rewrite firstn_app, Nat.sub_diag, firstn_all. cbn [firstn]. rewrite app_nil_r.
  rewrite skipn_app, Nat.sub_diag, skipn_all. reflexivity.
Qed.

Lemma enc_occ_nonempty n v : exists y t, enc_occ n v = y :: t.
Proof.
  destruct v; cbn [enc_occ].
  - destruct (enc_varint_nonempty (n * 8)) as (y & t & ->). cbn. eauto.
  - destruct (enc_varint_nonempty (n * 8 + 2)) as (y & t & ->). cbn. eauto.
  - destruct (enc_varint_nonempty (n * 8 + 2)) as (y & t & ->). cbn. eauto.
Qed.

Lemma app_cons_nonempty (a : bytes) b : (exists y t, a = y :: t) -> a ++ b <> [].
Proof. intros (y & t & ->). discriminate. Qed.

Lemma enc_varint_length_ge1 x : (1 <= List.length (enc_varint x))%nat.
Proof. destruct (enc_varint_nonempty x) as (y & t & ->). cbn. lia. Qed.

Theorem dec_enc_occs sc m l : conf sc m l -> forall fuel, (List.length (enc_occs l) <= fuel)%nat ->
  dec_fields fuel sc m (enc_occs l) = WOk l.
Proof.
  induction 1 as [m | m n x r fd F W NO X C IH | m n p r fd F K NO P C IH | m n inner r fd sub F K NO P Ci IHi C IH];
    intros fuel Hf.
  - destruct fuel; reflexivity.
  - rewrite enc_occs_cons in *. cbn [enc_occ] in *. rewrite <- !app_assoc in *.
    pose proof (enc_varint_length_ge1 (n * 8)) as G.
    rewrite !app_length in Hf.
    destruct fuel as [|f]; [lia|].
    rewrite dec_fields_S by (apply app_cons_nonempty, enc_varint_nonempty). unfold dec_body.
    assert (T : n * 8 < 2 ^ 64) by (destruct NO; change (2 ^ 64) with (2 ^ 61 * 8); lia).
    rewrite dec_enc_varint by exact T. cbv zeta.
    replace (n * 8) with (n * 8 + 0) by lia. destruct (tag_div n 0 ltac:(lia)) as [-> ->].
    replace (n =? 0) with false by (symmetry; apply N.eqb_neq; destruct NO; lia).
    rewrite F, W. cbn [N.eqb negb].
    rewrite dec_enc_varint by exact X.
    rewrite (IH f) by lia.
    destruct (fd_kind fd); cbn in W; try discriminate; reflexivity.
  - rewrite enc_occs_cons in *. cbn [enc_occ] in *. rewrite <- !app_assoc in *.
    pose proof (enc_varint_length_ge1 (n * 8 + 2)) as G.
    rewrite !app_length in Hf.
    destruct fuel as [|f]; [lia|].
    rewrite dec_fields_S by (apply app_cons_nonempty, enc_varint_nonempty). unfold dec_body.
    assert (T : n * 8 + 2 < 2 ^ 64) by (destruct NO; change (2 ^ 64) with (2 ^ 61 * 8); lia).
    rewrite dec_enc_varint by exact T. cbv zeta.
    destruct (tag_div n 2 ltac:(lia)) as [-> ->].
    replace (n =? 0) with false by (symmetry; apply N.eqb_neq; destruct NO; lia).
    rewrite F.
    rewrite dec_len_enc by exact P. rewrite (IH f) by lia.
    destruct K as [K|[K|K]]; rewrite K; reflexivity.
  - rewrite enc_occs_cons in *. rewrite enc_occ_msg in *. rewrite <- !app_assoc in *.
    pose proof (enc_varint_length_ge1 (n * 8 + 2)) as G.
    rewrite !app_length in Hf.
    destruct fuel as [|f]; [lia|].
    rewrite dec_fields_S by (apply app_cons_nonempty, enc_varint_nonempty). unfold dec_body.
    assert (T : n * 8 + 2 < 2 ^ 64) by (destruct NO; change (2 ^ 64) with (2 ^ 61 * 8); lia).
    rewrite dec_enc_varint by exact T. cbv zeta.
    destruct (tag_div n 2 ltac:(lia)) as [-> ->].
    replace (n =? 0) with false by (symmetry; apply N.eqb_neq; destruct NO; lia).
    rewrite F.
    destruct K as [K|K]; rewrite K; cbn [wire_of_kind N.eqb Pos.eqb negb];
      rewrite dec_len_enc by exact P; rewrite (IHi f), (IH f) by lia; reflexivity.
Qed.
