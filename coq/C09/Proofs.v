(* C09 -- totality of the pb -> value conversions as a function of the access-mode table. *)
From Coq Require Import List NArith ZArith String Bool Lia.
From V.Base Require Import Hex BigEndian.
From V.C09 Require Import Modes Model.
Import ListNotations.

Lemma rd_safe {A} m (x : option A) d : safe m = true -> exists a, rd m x d = Ok a.
Proof. intros H. destruct x; cbn; [eauto | rewrite H; eauto]. Qed.

Lemma rd_some {A} m (a : A) d : rd m (Some a) d = Ok a.
Proof. reflexivity. Qed.

Lemma rd_unsafe_none {A} m (d : A) : safe m = false -> rd m None d = Panic.
Proof. intros H. cbn. rewrite H. reflexivity. Qed.

Section Total.
Variable SubT : Type.
Variable sub_dec : bytes -> SubT.
Variable sub_nil : SubT.
Variable ReqT : Type.
Variable req_dec : bytes -> ReqT.
Variable req_nil : ReqT.
Variable ss : list site.
Variable rs : list recv.

Local Notation tx_body := (tx_of_pb_body SubT sub_dec sub_nil ss).
Local Notation hdr_body := (hdr_of_pb_body ReqT req_dec req_nil ss rs).

(* ---- transactions ---- *)
Definition tx_fields : list string :=
  ["Target"; "Data"; "SocketRequestId"; "Nonce"; "RequestId"; "ExtraDataType"; "Type"; "Time"; "ChainId"]%string.
Definition tx_sites_safe : bool := forallb (fun f => safe (mT ss f)) tx_fields.

Ltac step_rd H :=
  match goal with
  | |- context [rd ?m ?x ?d] =>
      let a := fresh "a" in let E := fresh "E" in
      destruct (@rd_safe _ m x d) as [a E]; [exact H | rewrite E; cbn [bind]]
  end.

Lemma tx_body_total : tx_sites_safe = true -> forall p, exists t, tx_body p = Ok t.
Proof.
  unfold tx_sites_safe, tx_fields. cbn [forallb]. intros H p.
  repeat (apply andb_true_iff in H; destruct H as [?H H]).
  unfold tx_of_pb_body.
  repeat match goal with
  | H : safe (mT ss ?f) = true |- context [rd (mT ss ?f) ?x ?d] =>
      let a := fresh "a" in let E := fresh "E" in
      destruct (@rd_safe _ (mT ss f) x d H) as [a E]; rewrite E; cbn [bind]
  end.
  eexists; reflexivity.
Qed.

Lemma txs_total : tx_sites_safe = true -> forall l, exists r, txs_of_pb SubT sub_dec sub_nil ss l = Ok r.
Proof.
  intros H l. unfold txs_of_pb. induction l as [|p l [r IH]]; cbn.
  - eauto.
  - destruct (tx_body_total H p) as [t E]. rewrite E. cbn. rewrite IH. cbn. eauto.
Qed.

Lemma tx_ptr_total : tx_sites_safe = true -> safe (recv_mode rs fT "Transaction") = true ->
  forall p, exists t, tx_of_pb SubT sub_dec sub_nil ss rs p = Ok t.
Proof.
  intros H R [p|]; cbn.
  - apply tx_body_total; assumption.
  - destruct (recv_mode rs fT "Transaction"); try discriminate; [eauto | apply tx_body_total; assumption].
Qed.

(* the message the confirmed defect was found with: only the required field Type is set (wire bytes 28 01) *)
Definition pb_only_type : pb_tx := mk_pb_tx None None None None (Some 1%Z) None None None None None None None None None None.

(* any Deref among the optional scalars of the transaction makes the conversion panic on that message *)
Lemma tx_deref_panics : forall f, In f ["Target"; "Data"; "SocketRequestId"; "Nonce"; "RequestId"; "ExtraDataType"; "Time"; "ChainId"]%string ->
  safe (mT ss f) = false -> tx_body pb_only_type = Panic.
Proof.
  intros f Hin Hf. unfold tx_of_pb_body, pb_only_type. cbn [p_Target p_Data p_SocketRequestId p_Nonce p_RequestId p_ExtraDataType p_Type p_Time p_ChainId p_SubTransactions p_Sign p_Source].
  cbn in Hin.
  repeat match goal with
  | |- bind (rd (mT ss ?g) None ?d) _ = Panic =>
      let E := fresh "E" in
      destruct (safe (mT ss g)) eqn:E;
      [ unfold rd at 1; rewrite E; cbn [bind] | unfold rd at 1; rewrite E; reflexivity ]
  | |- bind (rd _ (Some _) _) _ = Panic => rewrite rd_some; cbn [bind]
  end.
  exfalso. repeat (destruct Hin as [<- | Hin]; [congruence|]). exact Hin.
Qed.

(* ---- block headers ---- *)
Definition hdr_sites_safe : bool :=
  safe (mH ss "Height") && safe (mH ss "Nonce") && safe (mH ss "TotalQN") && safe (recv_mode rs fH "Hashes").

Lemma hdr_body_total : hdr_sites_safe = true -> forall p, exists h, hdr_body p = Ok h.
Proof.
  unfold hdr_sites_safe. intros H p.
  repeat (apply andb_true_iff in H; destruct H as [H ?H]).
  unfold hdr_of_pb_body.
  destruct (h_EvictedTxs p); [|rewrite H0]; cbn [bind];
  (destruct (time_unmarshal (ob (h_PreTime p))); [|eauto];
   destruct (time_unmarshal (ob (h_CurTime p))); [|eauto];
   repeat match goal with
   | H : safe ?m = true |- context [rd ?m ?x ?d] =>
       let a := fresh "a" in let E := fresh "E" in
       destruct (@rd_safe _ m x d H) as [a E]; rewrite E; cbn [bind]
   end; eauto).
Qed.

Lemma hdr_ptr_total : hdr_sites_safe = true -> safe (recv_mode rs fH "BlockHeader") = true ->
  forall p, exists h, hdr_of_pb ReqT req_dec req_nil ss rs p = Ok h.
Proof.
  intros H R [p|]; cbn.
  - apply hdr_body_total; assumption.
  - destruct (recv_mode rs fH "BlockHeader"); try discriminate; [eauto | apply hdr_body_total; assumption].
Qed.

(* header with well-formed times and nothing else: the conversion reaches the struct literal *)
Definition utc_zero_bytes : bytes := [1;0;0;0;0;0;0;0;0;0;0;0;0;255;255]%N.
Definition pb_hdr_times_only : pb_hdr :=
  mk_pb_hdr None None None (Some utc_zero_bytes) None None (Some utc_zero_bytes) None None None None [] None None None None None (Some []) None.

Lemma hdr_deref_panics :
  safe (mH ss "Height") && safe (mH ss "Nonce") && safe (mH ss "TotalQN") = false -> hdr_body pb_hdr_times_only = Panic.
Proof.
  intros H. unfold hdr_of_pb_body, pb_hdr_times_only.
  cbn [h_EvictedTxs h_PreTime h_CurTime h_Height h_Nonce h_TotalQN bind ob].
  change (time_unmarshal utc_zero_bytes) with (Some zero_time). cbv iota beta.
  destruct (safe (mH ss "Height")) eqn:E1; unfold rd at 1; rewrite E1; [cbn [bind]|reflexivity].
  destruct (safe (mH ss "Nonce")) eqn:E2; unfold rd at 1; rewrite E2; [cbn [bind]|reflexivity].
  destruct (safe (mH ss "TotalQN")) eqn:E3; unfold rd at 1; rewrite E3; [cbn [bind]|reflexivity].
  discriminate.
Qed.

(* ---- blocks ---- *)
Lemma block_total : tx_sites_safe = true -> hdr_sites_safe = true -> safe (recv_mode rs fH "BlockHeader") = true ->
  forall p, exists b, block_of_pb SubT sub_dec sub_nil ReqT req_dec req_nil ss rs p = Ok b.
Proof.
  intros Ht Hh Hr p. unfold block_of_pb.
  destruct (hdr_ptr_total Hh Hr (k_Header p)) as [h E]. rewrite E. cbn [bind].
  destruct (txs_total Ht (k_Transactions p)) as [l E2]. rewrite E2. cbn [bind]. eauto.
Qed.

(* ---- groups ---- *)
Definition grp_sites_safe : bool :=
  safe (mGH ss "CreateHeight") && safe (mGH ss "Extends") && safe (recv_mode rs fGH "GroupHeader") &&
  safe (site_mode ss fG "Group" "GroupHeight").

Lemma ghdr_body_total : safe (mGH ss "CreateHeight") = true -> safe (mGH ss "Extends") = true ->
  forall p, exists g, ghdr_of_pb_body ss p = Ok g.
Proof.
  intros H1 H2 p. unfold ghdr_of_pb_body.
  destruct (@rd_safe _ (mGH ss "CreateHeight") (g_CreateHeight p) 0%N H1) as [a E]. rewrite E. cbn [bind].
  destruct (@rd_safe _ (mGH ss "Extends") (g_Extends p) [] H2) as [b E2]. rewrite E2. cbn [bind]. eauto.
Qed.

Lemma group_total : grp_sites_safe = true -> forall p, exists g, group_of_pb ss rs p = Ok g.
Proof.
  unfold grp_sites_safe. intros H p.
  repeat (apply andb_true_iff in H; destruct H as [H ?H]).
  unfold group_of_pb, ghdr_of_pb.
  assert (exists h, match r_Header p with
    | Some p0 => do g <- ghdr_of_pb_body ss p0; Ok (Some g)
    | None => match recv_mode rs fGH "GroupHeader" with
              | NilChecked => Ok None
              | Getter => do g <- ghdr_of_pb_body ss empty_pb_ghdr; Ok (Some g)
              | _ => Panic end end = Ok h) as [h E].
  { destruct (r_Header p) as [q|].
    - destruct (ghdr_body_total H H2 q) as [g E]. rewrite E. cbn. eauto.
    - destruct (recv_mode rs fGH "GroupHeader"); try discriminate; [eauto|].
      destruct (ghdr_body_total H H2 empty_pb_ghdr) as [g E]. rewrite E. cbn. eauto. }
  rewrite E. cbn [bind].
  destruct (@rd_safe _ (site_mode ss fG "Group" "GroupHeight") (r_GroupHeight p) 0%N H0) as [a E2]. rewrite E2. cbn [bind]. eauto.
Qed.

(* a group message without header, or with a header but without GroupHeight *)
Definition pb_group_empty : pb_group := mk_pb_group None None None None [] None.

Lemma group_deref_panics : grp_sites_safe = false -> exists p, group_of_pb ss rs p = Panic.
Proof.
  unfold grp_sites_safe. intros H.
  destruct (safe (recv_mode rs fGH "GroupHeader")) eqn:ER.
  - (* header pointer handled: use a present, empty header *)
    exists (mk_pb_group (Some empty_pb_ghdr) None None None [] None).
    unfold group_of_pb, ghdr_of_pb, ghdr_of_pb_body. cbn [r_Header r_GroupHeight g_CreateHeight g_Extends g_BeginTime].
    destruct (safe (mGH ss "CreateHeight")) eqn:E1; unfold rd at 1; rewrite E1; [cbn [bind]|reflexivity].
    destruct (safe (mGH ss "Extends")) eqn:E2; unfold rd at 1; rewrite E2; [cbn [bind]|reflexivity].
    destruct (safe (site_mode ss fG "Group" "GroupHeight")) eqn:E3; unfold rd at 1; rewrite E3; [|reflexivity].
    cbn in H. discriminate.
  - exists pb_group_empty. unfold group_of_pb, ghdr_of_pb, pb_group_empty. cbn [r_Header].
    destruct (recv_mode rs fGH "GroupHeader"); try discriminate; reflexivity.
Qed.

End Total.
