(* C09 -- access modes of pb fields in the pb -> value conversions (vocabulary of the generated Gen.v). *)
From Coq Require Import List String Bool.
Import ListNotations.
Local Open Scope string_scope.

(* How the Go code reaches an optional pb field (pointer to scalar) or the fields behind a message pointer:
   Deref       *x.F / x.F with x possibly nil : nil pointer dereference when absent
   NilChecked  inside `if x.F != nil` / after `if x == nil { return }`
   Getter      generated nil-safe accessor x.GetF()
   Plain       the field value is used as it is (slices, pointers handed on): no dereference at this site *)
Inductive mode := Deref | NilChecked | Getter | Plain.
Inductive kind := K_ptr | K_bytes | K_msg | K_repmsg | K_repbytes | K_other.
Inductive label := L_opt | L_req | L_rep.

Record site := mk_site { s_func : string; s_var : string; s_msg : string; s_field : string;
                         s_kind : kind; s_label : label; s_mode : mode; s_holder : mode }.
Record recv := mk_recv { r_func : string; r_var : string; r_msg : string; r_mode : mode }.

Definition mode_eqb (a b : mode) : bool :=
  match a, b with Deref, Deref | NilChecked, NilChecked | Getter, Getter | Plain, Plain => true | _, _ => false end.
Definition kind_eqb (a b : kind) : bool :=
  match a, b with K_ptr, K_ptr | K_bytes, K_bytes | K_msg, K_msg | K_repmsg, K_repmsg | K_repbytes, K_repbytes | K_other, K_other => true | _, _ => false end.
Definition label_eqb (a b : label) : bool :=
  match a, b with L_opt, L_opt | L_req, L_req | L_rep, L_rep => true | _, _ => false end.

Definition site_eqb (a b : site) : bool :=
  String.eqb a.(s_func) b.(s_func) && String.eqb a.(s_var) b.(s_var) && String.eqb a.(s_msg) b.(s_msg) &&
  String.eqb a.(s_field) b.(s_field) && kind_eqb a.(s_kind) b.(s_kind) && label_eqb a.(s_label) b.(s_label) &&
  mode_eqb a.(s_mode) b.(s_mode) && mode_eqb a.(s_holder) b.(s_holder).
Definition recv_eqb (a b : recv) : bool :=
  String.eqb a.(r_func) b.(r_func) && String.eqb a.(r_var) b.(r_var) && String.eqb a.(r_msg) b.(r_msg) && mode_eqb a.(r_mode) b.(r_mode).

Fixpoint list_eqb {A} (e : A -> A -> bool) (a b : list A) : bool :=
  match a, b with
  | [], [] => true
  | x :: a', y :: b' => e x y && list_eqb e a' b'
  | _, _ => false
  end.

(* mode of the access to message field [fld] in function [f]; a site that is not in the table counts as
   Deref (the conservative reading: totality is then not provable, and the correspondence run decides) *)
Fixpoint site_mode (ss : list site) (f msg fld : string) : mode :=
  match ss with
  | [] => Deref
  | s :: r => if String.eqb s.(s_func) f && String.eqb s.(s_msg) msg && String.eqb s.(s_field) fld then s.(s_mode)
              else site_mode r f msg fld
  end.

(* mode of the variable of message type [msg] in function [f] *)
Fixpoint recv_mode (rs : list recv) (f msg : string) : mode :=
  match rs with
  | [] => Deref
  | s :: r => if String.eqb s.(r_func) f && String.eqb s.(r_msg) msg then s.(r_mode) else recv_mode r f msg
  end.

Definition safe (m : mode) : bool := match m with NilChecked | Getter => true | _ => false end.
