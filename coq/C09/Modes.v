(* C09 -- access modes of pb fields in the pb -> value conversions (vocabulary of the generated Gen.v). *)
From Coq Require Import List String Bool.
Import ListNotations.
Local Open Scope string_scope.

(* How the Go code reaches an optional pb field (pointer to scalar) or the fields behind a message pointer:
   Deref       *x.F / x.F with x possibly nil : nil pointer dereference when absent
   NilChecked  inside `if x.F != nil` / after `if x == nil { return }`
   Getter      generated nil-safe accessor x.GetF()
   Plain       the field value is used as it is (slices, pointers handed on): no dereference at this site *)
Inductive mode := Deref | NilChecked | Getter | Plain.
Inductive kind := K_ptr | K_bytes | K_msg | K_repmsg | K_repbytes | K_other.
Inductive label := L_opt | L_req | L_rep.

Record site := mk_site { s_func : string; s_var : string; s_msg : string; s_field : string;
                         s_kind : kind; s_label : label; s_mode : mode; s_holder : mode }.
Record recv := mk_recv { r_func : string; r_var : string; r_msg : string; r_mode : mode }.

Definition mode_eqb (a b : mode) : bool :=
  match a, b with Deref, Deref | NilChecked, NilChecked | Getter, Getter | Plain, Plain => true | _, _ => false end.
Definition kind_eqb (a b : kind) : bool :=
  match a, b with K_ptr, K_ptr | K_bytes, K_bytes | K_msg, K_msg | K_repmsg, K_repmsg | K_repbytes, K_repbytes | K_other, K_other => true | _, _ => false end.
Definition label_eqb (a b : label) : bool :=
  match a, b with L_opt, L_opt | L_req, L_req | L_rep, L_rep => true | _, _ => false end.

Definition site_eqb (a b : site) : bool :=
  String.eqb a.(s_func) b.(s_func) && String.eqb a.(s_var) b.(s_var) && String.eqb a.(s_msg) b.(s_msg) &&
  String.eqb a.(s_field) b.(s_field) && kind_eqb a.(s_kind) b.(s_kind) && label_eqb a.(s_label) b.(s_label) &&
  mode_eqb a.(s_mode) b.(s_mode) && mode_eqb a.(s_holder) b.(s_holder).
Definition recv_eqb (a b : recv) : bool :=
  String.eqb a.(r_func) b.(r_func) && String.eqb a.(r_var) b.(r_var) && String.eqb a.(r_msg) b.(r_msg) && mode_eqb a.(r_mode) b.(r_mode).

Fixpoint list_eqb {A} (e : A -> A -> bool) (a b : list A) : bool :=
  match a, b with
  | [], [] => true
  | x :: a', y :: b' => e x y && list_eqb e a' b'
  | _, _ => false
  end.

(* mode of the access to message field [fld] in function [f]; a site that is not in the table counts as
   Deref (the conservative reading: totality is then not provable, and the correspondence run decides) *)
Fixpoint site_mode (ss : list site) (f msg fld : string) : mode :=
  match ss with
  | [] => Deref
  | s :: r => if String.eqb s.(s_func) f && String.eqb s.(s_msg) msg && String.eqb s.(s_field) fld then s.(s_mode)
              else site_mode r f msg fld
  end.

(* mode of the variable of message type [msg] in function [f] *)
Fixpoint recv_mode (rs : list recv) (f msg : string) : mode :=
  match rs with
  | [] => Deref
  | s :: r => if String.eqb s.(r_func) f && String.eqb s.(r_msg) msg then s.(r_mode) else recv_mode r f msg
  end.

Definition safe (m : mode) : bool := match m with NilChecked | Getter => true | _ => false end.

(* ---------- protobuf message schemas (generated into Gen.v from the struct tags of x.pb.go) ---------- *)
From Coq Require Import NArith.
Inductive fkind :=
| FVar64                (* *uint64 : varint *)
| FVar32                (* *int32  : varint, truncated to 32 bits, signed *)
| FStr                  (* *string : length-delimited (proto2: no UTF-8 validation) *)
| FBytes                (* []byte  : length-delimited, optional *)
| FRepBytes             (* [][]byte *)
| FMsg (m : string)     (* *M      : embedded message, occurrences merge *)
| FRepMsg (m : string). (* []*M *)
Record fdesc := mk_fd { fd_num : N; fd_name : string; fd_kind : fkind; fd_req : bool }.
Definition schema := list (string * list fdesc).

Definition fkind_eqb (a b : fkind) : bool :=
  match a, b with
  | FVar64, FVar64 | FVar32, FVar32 | FStr, FStr | FBytes, FBytes | FRepBytes, FRepBytes => true
  | FMsg x, FMsg y | FRepMsg x, FRepMsg y => String.eqb x y
  | _, _ => false
  end.
Definition fdesc_eqb (a b : fdesc) : bool :=
  N.eqb a.(fd_num) b.(fd_num) && String.eqb a.(fd_name) b.(fd_name) && fkind_eqb a.(fd_kind) b.(fd_kind) &&
  Bool.eqb a.(fd_req) b.(fd_req).
Definition schema_eqb (a b : schema) : bool :=
  list_eqb (fun x y => String.eqb (fst x) (fst y) && list_eqb fdesc_eqb (snd x) (snd y)) a b.

Fixpoint msg_fields (s : schema) (m : string) : list fdesc :=
  match s with [] => [] | (n, f) :: r => if String.eqb n m then f else msg_fields r m end.
Fixpoint find_fd (f : list fdesc) (num : N) : option fdesc :=
  match f with [] => None | d :: r => if N.eqb d.(fd_num) num then Some d else find_fd r num end.
Fixpoint fnum_in (f : list fdesc) (name : string) : N :=
  match f with [] => 0%N | d :: r => if String.eqb d.(fd_name) name then d.(fd_num) else fnum_in r name end.
