(* C09 -- evaluation of the model on harness-written cases (correspondence check).
   JSON-carried parts ([]UserData, map[string]uint64) are represented by the canonical JSON text Go's
   encoding/json writes for them; the decoder is the table of (input bytes -> re-marshalled text) pairs
   the harness observed from encoding/json on exactly the inputs of the case. *)
From Coq Require Import List NArith ZArith String Bool.
From V.Base Require Import Hex BigEndian.
From V.C09 Require Import Modes Gen Model Wire Assemble.
Import ListNotations.

Definition tbl := list (string * string).
Fixpoint oracle (t : tbl) (dflt : bytes) (b : bytes) : bytes :=
  match t with
  | [] => dflt
  | (k, v) :: r => if bytes_eqb (unhex k) b then unhex v else oracle r dflt b
  end.
Definition jnull : bytes := unhex "6e756c6c".

(* shorthands used by the generated case terms *)
Definition B (s : string) : obytes := Some (unhex s).
Definition St (s : string) : option bytes := Some (unhex s).
Definition U (s : string) : bytes := unhex s.
Definition Nil : obytes := None.

Definition Tx := tx bytes.
Definition Hdr := hdr bytes.
Definition Blk := block bytes bytes.

Definition obytes_eqb (a b : obytes) : bool :=
  match a, b with Some x, Some y => bytes_eqb x y | None, None => true | _, _ => false end.
Definition oZ_eqb (a b : option Z) : bool :=
  match a, b with Some x, Some y => Z.eqb x y | None, None => true | _, _ => false end.
Definition time_eqb (a b : gtime) : bool :=
  Z.eqb a.(t_sec) b.(t_sec) && Z.eqb a.(t_nsec) b.(t_nsec) && oZ_eqb a.(t_off) b.(t_off).
Definition olist_eqb {A} (e : A -> A -> bool) (a b : option (list A)) : bool :=
  match a, b with Some x, Some y => list_eqb e x y | None, None => true | _, _ => false end.

Definition osign_eqb (a b : option gsign) : bool :=
  match a, b with
  | Some (r, s, v), Some (r', s', v') => N.eqb r r' && N.eqb s s' && N.eqb v v'
  | None, None => true | _, _ => false end.

Definition tx_eqb (a b : Tx) : bool :=
  bytes_eqb a.(x_Source _) b.(x_Source _) && bytes_eqb a.(x_Target _) b.(x_Target _) && Z.eqb a.(x_Type _) b.(x_Type _) &&
  bytes_eqb a.(x_Time _) b.(x_Time _) && bytes_eqb a.(x_Data _) b.(x_Data _) && bytes_eqb a.(x_ExtraData _) b.(x_ExtraData _) &&
  Z.eqb a.(x_ExtraDataType _) b.(x_ExtraDataType _) && bytes_eqb a.(x_Sub _) b.(x_Sub _) &&
  bytes_eqb a.(x_SubHash _) b.(x_SubHash _) && bytes_eqb a.(x_Hash _) b.(x_Hash _) && osign_eqb a.(x_Sign _) b.(x_Sign _) &&
  N.eqb a.(x_Nonce _) b.(x_Nonce _) && N.eqb a.(x_RequestId _) b.(x_RequestId _) &&
  bytes_eqb a.(x_SocketRequestId _) b.(x_SocketRequestId _) && bytes_eqb a.(x_ChainId _) b.(x_ChainId _).

Definition pair_eqb (a b : bytes * bytes) : bool := bytes_eqb (fst a) (fst b) && bytes_eqb (snd a) (snd b).

Definition hdr_eqb (a b : Hdr) : bool :=
  bytes_eqb a.(b_Hash _) b.(b_Hash _) && N.eqb a.(b_Height _) b.(b_Height _) && bytes_eqb a.(b_PreHash _) b.(b_PreHash _) &&
  time_eqb a.(b_PreTime _) b.(b_PreTime _) && oZ_eqb a.(b_ProveValue _) b.(b_ProveValue _) && N.eqb a.(b_TotalQN _) b.(b_TotalQN _) &&
  time_eqb a.(b_CurTime _) b.(b_CurTime _) && obytes_eqb a.(b_Castor _) b.(b_Castor _) && obytes_eqb a.(b_GroupId _) b.(b_GroupId _) &&
  obytes_eqb a.(b_Signature _) b.(b_Signature _) && N.eqb a.(b_Nonce _) b.(b_Nonce _) && bytes_eqb a.(b_RequestIds _) b.(b_RequestIds _) &&
  olist_eqb pair_eqb a.(b_Transactions _) b.(b_Transactions _) && bytes_eqb a.(b_TxTree _) b.(b_TxTree _) &&
  bytes_eqb a.(b_ReceiptTree _) b.(b_ReceiptTree _) && bytes_eqb a.(b_StateTree _) b.(b_StateTree _) &&
  obytes_eqb a.(b_ExtraData _) b.(b_ExtraData _) && obytes_eqb a.(b_Random _) b.(b_Random _) &&
  olist_eqb bytes_eqb a.(b_EvictedTxs _) b.(b_EvictedTxs _).

Definition ohdr_eqb (a b : option Hdr) : bool :=
  match a, b with Some x, Some y => hdr_eqb x y | None, None => true | _, _ => false end.

Definition ghdr_eqb (a b : ghdr) : bool :=
  bytes_eqb a.(gh_Hash) b.(gh_Hash) && obytes_eqb a.(gh_Parent) b.(gh_Parent) && obytes_eqb a.(gh_PreGroup) b.(gh_PreGroup) &&
  obytes_eqb a.(gh_CreateBlockHash) b.(gh_CreateBlockHash) && time_eqb a.(gh_BeginTime) b.(gh_BeginTime) &&
  bytes_eqb a.(gh_MemberRoot) b.(gh_MemberRoot) && N.eqb a.(gh_CreateHeight) b.(gh_CreateHeight) &&
  N.eqb a.(gh_ReadyHeight) b.(gh_ReadyHeight) && N.eqb a.(gh_WorkHeight) b.(gh_WorkHeight) &&
  N.eqb a.(gh_DismissHeight) b.(gh_DismissHeight) && bytes_eqb a.(gh_Extends) b.(gh_Extends).

Definition group_eqb (a b : group) : bool :=
  match a.(gr_Header), b.(gr_Header) with Some x, Some y => ghdr_eqb x y | None, None => true | _, _ => false end &&
  obytes_eqb a.(gr_Id) b.(gr_Id) && obytes_eqb a.(gr_PubKey) b.(gr_PubKey) && obytes_eqb a.(gr_Signature) b.(gr_Signature) &&
  list_eqb bytes_eqb a.(gr_Members) b.(gr_Members) && N.eqb a.(gr_GroupHeight) b.(gr_GroupHeight).

Definition out_eqb {A} (e : A -> A -> bool) (a b : outcome A) : bool :=
  match a, b with Ok x, Ok y => e x y | Panic, Panic => true | _, _ => false end.

(* the model instantiated with the JSON behaviour observed in this case and the GENERATED access table *)
Definition m_tx_of_pb (t : tbl) := tx_of_pb_body bytes (oracle t jnull) jnull Gen.sites.
Definition m_hdr_of_pb (t : tbl) := hdr_of_pb_body bytes (oracle t jnull) jnull Gen.sites Gen.recvs.
Definition m_blk_of_pb (t : tbl) := block_of_pb bytes (oracle t jnull) jnull bytes (oracle t jnull) jnull Gen.sites Gen.recvs.
Definition m_grp_of_pb := group_of_pb Gen.sites Gen.recvs.

(* ---- wire layer observations ---- *)
Inductive wobs :=
| WE (kind code : N)          (* kind: 0 Transaction 1 TransactionSlice 2 BlockHeader 3 Block 4 Group;
                                 code: 1 unexpected EOF, 2 can't skip unknown wire type, 3 required field not set, 4 illegal tag 0 *)
| WTx (p : pb_tx) | WTxs (l : list pb_tx) | WHdr (p : pb_hdr) | WBlk (p : pb_block) | WGrp (p : pb_group).

Inductive uobs :=
| UE (kind : N)                        (* error returned *)
| UNilHdr                              (* UnMarshalBlockHeader: (nil, nil) *)
| UTx (x : Tx) | UHdr (x : Hdr) | UBlk (x : Blk) | UGrp (x : group).

Inductive case :=
| CGen (ss : list site) (rs : list recv)                       (* table re-extracted from the sources under test *)
| CTx (t : tbl) (p : pb_tx) (o : outcome Tx)                   (* pbToTransaction via PbToTransactions *)
| CHdr (t : tbl) (p : pb_hdr) (o : outcome (option Hdr))       (* PbToBlockHeader *)
| CBlk (t : tbl) (p : pb_block) (o : outcome Blk)              (* PbToBlock *)
| CGrp (p : pb_group) (o : outcome group)                      (* PbToGroup *)
| CTxPb (x : Tx) (p : pb_tx)                                   (* TransactionsToPb *)
| CHdrPb (x : Hdr) (p : option pb_hdr)                         (* BlockHeaderToPb *)
| CGrpPb (x : group) (o : outcome pb_group)                    (* GroupToPb *)
| CTime (b : string) (o : option gtime)                        (* time.UnmarshalBinary *)
| CTimeM (t : gtime) (o : option string)                       (* time.MarshalBinary *)
| CSchema (s : schema)                                          (* field tables re-extracted from x.pb.go *)
| CWire (b : string) (o : wobs)                                 (* proto.Unmarshal into the pb type named by [o] *)
| CEnc (p : wobs) (o : option string)                           (* proto.Marshal *)
| CUn (t : tbl) (b : string) (o : uobs).                        (* types.UnMarshalX, bytes to node value *)

Definition optb_eqb (a b : option bytes) : bool := obytes_eqb a b.
Definition oN_eqb (a b : option N) : bool :=
  match a, b with Some x, Some y => N.eqb x y | None, None => true | _, _ => false end.

Definition pb_tx_eqb (a b : pb_tx) : bool :=
  optb_eqb a.(p_Data) b.(p_Data) && oN_eqb a.(p_Nonce) b.(p_Nonce) && obytes_eqb a.(p_Source) b.(p_Source) &&
  optb_eqb a.(p_Target) b.(p_Target) && oZ_eqb a.(p_Type) b.(p_Type) && obytes_eqb a.(p_Hash) b.(p_Hash) &&
  obytes_eqb a.(p_ExtraData) b.(p_ExtraData) && oZ_eqb a.(p_ExtraDataType) b.(p_ExtraDataType) &&
  obytes_eqb a.(p_Sign) b.(p_Sign) && optb_eqb a.(p_Time) b.(p_Time) && oN_eqb a.(p_RequestId) b.(p_RequestId) &&
  optb_eqb a.(p_SocketRequestId) b.(p_SocketRequestId) && obytes_eqb a.(p_SubTransactions) b.(p_SubTransactions) &&
  obytes_eqb a.(p_SubHash) b.(p_SubHash) && optb_eqb a.(p_ChainId) b.(p_ChainId).

Definition pb_txhash_eqb (a b : pb_txhash) : bool :=
  obytes_eqb a.(ph_Hash) b.(ph_Hash) && obytes_eqb a.(ph_SubHash) b.(ph_SubHash).

Definition pb_hdr_eqb (a b : pb_hdr) : bool :=
  obytes_eqb a.(h_Hash) b.(h_Hash) && oN_eqb a.(h_Height) b.(h_Height) && obytes_eqb a.(h_PreHash) b.(h_PreHash) &&
  obytes_eqb a.(h_PreTime) b.(h_PreTime) && obytes_eqb a.(h_ProveValue) b.(h_ProveValue) && oN_eqb a.(h_TotalQN) b.(h_TotalQN) &&
  obytes_eqb a.(h_CurTime) b.(h_CurTime) && obytes_eqb a.(h_Castor) b.(h_Castor) && obytes_eqb a.(h_GroupId) b.(h_GroupId) &&
  obytes_eqb a.(h_Signature) b.(h_Signature) && oN_eqb a.(h_Nonce) b.(h_Nonce) &&
  list_eqb pb_txhash_eqb a.(h_Transactions) b.(h_Transactions) && obytes_eqb a.(h_TxTree) b.(h_TxTree) &&
  obytes_eqb a.(h_ReceiptTree) b.(h_ReceiptTree) && obytes_eqb a.(h_StateTree) b.(h_StateTree) &&
  obytes_eqb a.(h_ExtraData) b.(h_ExtraData) && obytes_eqb a.(h_Random) b.(h_Random) &&
  olist_eqb bytes_eqb a.(h_EvictedTxs) b.(h_EvictedTxs) && obytes_eqb a.(h_RequestIds) b.(h_RequestIds).

Definition pb_ghdr_eqb (a b : pb_ghdr) : bool :=
  obytes_eqb a.(g_Hash) b.(g_Hash) && obytes_eqb a.(g_Parent) b.(g_Parent) && obytes_eqb a.(g_PreGroup) b.(g_PreGroup) &&
  obytes_eqb a.(g_CreateBlockHash) b.(g_CreateBlockHash) && obytes_eqb a.(g_BeginTime) b.(g_BeginTime) &&
  obytes_eqb a.(g_MemberRoot) b.(g_MemberRoot) && oN_eqb a.(g_CreateHeight) b.(g_CreateHeight) && optb_eqb a.(g_Extends) b.(g_Extends).

Definition pb_group_eqb (a b : pb_group) : bool :=
  match a.(r_Header), b.(r_Header) with Some x, Some y => pb_ghdr_eqb x y | None, None => true | _, _ => false end &&
  obytes_eqb a.(r_Id) b.(r_Id) && obytes_eqb a.(r_PubKey) b.(r_PubKey) && obytes_eqb a.(r_Signature) b.(r_Signature) &&
  list_eqb bytes_eqb a.(r_Members) b.(r_Members) && oN_eqb a.(r_GroupHeight) b.(r_GroupHeight).

Definition blk_eqb (a b : Blk) : bool :=
  ohdr_eqb a.(c_Header _ _) b.(c_Header _ _) && olist_eqb tx_eqb a.(c_Transactions _ _) b.(c_Transactions _ _).

Definition pb_block_eqb (a b : pb_block) : bool :=
  match a.(k_Header), b.(k_Header) with Some x, Some y => pb_hdr_eqb x y | None, None => true | _, _ => false end &&
  list_eqb pb_tx_eqb a.(k_Transactions) b.(k_Transactions).

Definition ucode {A} (r : ures A) : N :=
  match r with UOk _ => 0 | UErrWire EEOF => 1 | UErrWire EWire => 2 | UErrWire ETag0 => 4 | UErrRequired => 3 | UFuel => 9 end%N.

Definition chk_u {A} (r : ures A) (e : A -> bool) : bool := match r with UOk a => e a | _ => false end.

Definition chk_wire (b : bytes) (o : wobs) : bool :=
  match o with
  | WE 0 c => N.eqb (ucode (unmarshal_tx Gen.msgs b)) c
  | WE 1 c => N.eqb (ucode (unmarshal_txs Gen.msgs b)) c
  | WE 2 c => N.eqb (ucode (unmarshal_hdr Gen.msgs b)) c
  | WE 3 c => N.eqb (ucode (unmarshal_block Gen.msgs b)) c
  | WE 4 c => N.eqb (ucode (unmarshal_group Gen.msgs b)) c
  | WE _ _ => false
  | WTx p => chk_u (unmarshal_tx Gen.msgs b) (fun q => pb_tx_eqb q p)
  | WTxs p => chk_u (unmarshal_txs Gen.msgs b) (fun q => list_eqb pb_tx_eqb q p)
  | WHdr p => chk_u (unmarshal_hdr Gen.msgs b) (fun q => pb_hdr_eqb q p)
  | WBlk p => chk_u (unmarshal_block Gen.msgs b) (fun q => pb_block_eqb q p)
  | WGrp p => chk_u (unmarshal_group Gen.msgs b) (fun q => pb_group_eqb q p)
  end.

Definition chk_enc (p : wobs) (o : option string) : bool :=
  let r := match p with
           | WTx p => marshal_tx Gen.msgs p | WTxs p => marshal_txs Gen.msgs p | WHdr p => marshal_hdr Gen.msgs p
           | WBlk p => marshal_block Gen.msgs p | WGrp p => marshal_group Gen.msgs p | WE _ _ => None end in
  match r, o with Some a, Some h => bytes_eqb a (unhex h) | None, None => true | _, _ => false end.

(* bytes -> node value: the model of types.UnMarshalX = wire model, then the conversion model *)
Definition chk_un (t : tbl) (b : bytes) (o : uobs) : bool :=
  match o with
  | UE 0 => negb (N.eqb (ucode (unmarshal_tx Gen.msgs b)) 0)
  | UE 2 => match unmarshal_hdr Gen.msgs b with
            | UOk p => out_eqb ohdr_eqb (m_hdr_of_pb t p) (Ok None)    (* rejected header: an error since 15a1dce *)
            | r => negb (N.eqb (ucode r) 0) end
  | UE 3 => match unmarshal_block Gen.msgs b with
            | UOk p => match m_blk_of_pb t p with Ok k => match k.(c_Header _ _) with None => true | _ => false end | Panic => false end
            | r => negb (N.eqb (ucode r) 0) end
  | UE 4 => negb (N.eqb (ucode (unmarshal_group Gen.msgs b)) 0)
  | UE _ => false
  | UNilHdr => false                        (* (nil, nil) is no longer a possible result *)
  | UTx x => chk_u (unmarshal_tx Gen.msgs b) (fun p => out_eqb tx_eqb (m_tx_of_pb t p) (Ok x))
  | UHdr x => chk_u (unmarshal_hdr Gen.msgs b) (fun p => out_eqb ohdr_eqb (m_hdr_of_pb t p) (Ok (Some x)))
  | UBlk x => match x.(c_Header _ _) with None => false | Some _ =>
              chk_u (unmarshal_block Gen.msgs b) (fun p => out_eqb blk_eqb (m_blk_of_pb t p) (Ok x)) end
  | UGrp x => chk_u (unmarshal_group Gen.msgs b) (fun p => out_eqb group_eqb (m_grp_of_pb p) (Ok x))
  end.

Definition check (c : case) : bool :=
  match c with
  | CGen ss rs => list_eqb site_eqb ss Gen.sites && list_eqb recv_eqb rs Gen.recvs
  | CTx t p o => out_eqb tx_eqb (m_tx_of_pb t p) o
  | CHdr t p o => out_eqb ohdr_eqb (m_hdr_of_pb t p) o
  | CBlk t p o => out_eqb blk_eqb (m_blk_of_pb t p) o
  | CGrp p o => out_eqb group_eqb (m_grp_of_pb p) o
  | CTxPb x p => pb_tx_eqb (tx_to_pb bytes (fun b => b) x) p
  | CHdrPb x p => match hdr_to_pb bytes (fun b => b) x, p with
                  | Some a, Some b => pb_hdr_eqb a b | None, None => true | _, _ => false end
  | CGrpPb x o => out_eqb pb_group_eqb (group_to_pb x) o
  | CTime b o => match time_unmarshal (unhex b), o with
                 | Some a, Some b => time_eqb a b | None, None => true | _, _ => false end
  | CTimeM t o => match time_marshal t, o with
                  | Some a, Some b => bytes_eqb a (unhex b) | None, None => true | _, _ => false end
  | CSchema s => schema_eqb s Gen.msgs
  | CWire b o => chk_wire (unhex b) o
  | CEnc p o => chk_enc p o
  | CUn t b o => chk_un t (unhex b) o
  end.
