(* C09 -- from decoded field occurrences to the pb records of Model.v and back (what the reflection decoder's
   per-kind setters do: optional scalars and byte fields keep the LAST occurrence, repeated fields append,
   occurrences of an embedded message merge = their occurrence lists concatenate), and the top-level
   proto.Unmarshal / proto.Marshal of the C09 message types.  Field numbers are looked up by Go field name in the
   generated schema. *)
From Coq Require Import List NArith ZArith String Bool.
From V.Base Require Import Hex BigEndian.
From V.C09 Require Import Modes Model Wire.
Import ListNotations.
Local Open Scope string_scope.

Definition vals (l : occs) (n : N) : list dval := map snd (filter (fun o => N.eqb (fst o) n) l).

Definition last_var (l : occs) (n : N) : option N :=
  fold_left (fun acc v => match v with DVar x => Some x | _ => acc end) (vals l n) None.
Definition last_bytes (l : occs) (n : N) : option bytes :=
  fold_left (fun acc v => match v with DBytes b => Some b | _ => acc end) (vals l n) None.
Definition all_bytes (l : occs) (n : N) : list bytes :=
  flat_map (fun v => match v with DBytes b => [b] | _ => [] end) (vals l n).
Definition all_msgs (l : occs) (n : N) : list occs :=
  flat_map (fun v => match v with DMsg i => [i] | _ => [] end) (vals l n).
Definition merged (l : occs) (n : N) : option occs :=
  match all_msgs l n with [] => None | ms => Some (List.concat ms) end.

Definition i32 (x : N) : Z := u_to_s 32 (x mod 2 ^ 32)%N.           (* int32(x) *)
Definition d_i32 (z : Z) : dval := DVar (z_to_u 64 z).             (* uint64(int32) *)

Definition ob2d (x : option bytes) : list dval := match x with Some b => [DBytes b] | None => [] end.
Definition on2d (x : option N) : list dval := match x with Some n => [DVar n] | None => [] end.
Definition oz2d (x : option Z) : list dval := match x with Some z => [d_i32 z] | None => [] end.

Section Sch.
Variable sc : schema.
Definition fn (m f : string) : N := fnum_in (msg_fields sc m) f.

(* ---- Transaction ---- *)
Definition tx_of (l : occs) : pb_tx :=
  let n := fn "Transaction" in
  mk_pb_tx (last_bytes l (n "Data")) (last_var l (n "Nonce")) (last_bytes l (n "Source")) (last_bytes l (n "Target"))
           (option_map i32 (last_var l (n "Type"))) (last_bytes l (n "Hash")) (last_bytes l (n "ExtraData"))
           (option_map i32 (last_var l (n "ExtraDataType"))) (last_bytes l (n "Sign")) (last_bytes l (n "Time"))
           (last_var l (n "RequestId")) (last_bytes l (n "SocketRequestId")) (last_bytes l (n "SubTransactions"))
           (last_bytes l (n "SubHash")) (last_bytes l (n "ChainId")).

Definition tx_get (p : pb_tx) (f : string) : list dval :=
  if f =? "Data" then ob2d p.(p_Data) else if f =? "Nonce" then on2d p.(p_Nonce) else
  if f =? "Source" then ob2d p.(p_Source) else if f =? "Target" then ob2d p.(p_Target) else
  if f =? "Type" then oz2d p.(p_Type) else if f =? "Hash" then ob2d p.(p_Hash) else
  if f =? "ExtraData" then ob2d p.(p_ExtraData) else if f =? "ExtraDataType" then oz2d p.(p_ExtraDataType) else
  if f =? "Sign" then ob2d p.(p_Sign) else if f =? "Time" then ob2d p.(p_Time) else
  if f =? "RequestId" then on2d p.(p_RequestId) else if f =? "SocketRequestId" then ob2d p.(p_SocketRequestId) else
  if f =? "SubTransactions" then ob2d p.(p_SubTransactions) else if f =? "SubHash" then ob2d p.(p_SubHash) else
  if f =? "ChainId" then ob2d p.(p_ChainId) else [].

Definition tx_occs (p : pb_tx) : occs := to_occs (msg_fields sc "Transaction") (tx_get p).

(* ---- TransactionHash, Hashes, BlockHeader ---- *)
Definition txhash_of (l : occs) : pb_txhash :=
  mk_pb_txhash (last_bytes l (fn "TransactionHash" "Hash")) (last_bytes l (fn "TransactionHash" "SubHash")).
Definition txhash_get (p : pb_txhash) (f : string) : list dval :=
  if f =? "Hash" then ob2d p.(ph_Hash) else if f =? "SubHash" then ob2d p.(ph_SubHash) else [].
Definition txhash_occs (p : pb_txhash) : occs := to_occs (msg_fields sc "TransactionHash") (txhash_get p).

Definition hashes_of (l : occs) : list bytes := all_bytes l (fn "Hashes" "Hashes").
Definition hashes_occs (h : list bytes) : occs :=
  to_occs (msg_fields sc "Hashes") (fun f => if f =? "Hashes" then map DBytes h else []).

Definition hdr_of (l : occs) : pb_hdr :=
  let n := fn "BlockHeader" in
  mk_pb_hdr (last_bytes l (n "Hash")) (last_var l (n "Height")) (last_bytes l (n "PreHash")) (last_bytes l (n "PreTime"))
            (last_bytes l (n "ProveValue")) (last_var l (n "TotalQN")) (last_bytes l (n "CurTime")) (last_bytes l (n "Castor"))
            (last_bytes l (n "GroupId")) (last_bytes l (n "Signature")) (last_var l (n "Nonce"))
            (map txhash_of (all_msgs l (n "Transactions"))) (last_bytes l (n "TxTree")) (last_bytes l (n "ReceiptTree"))
            (last_bytes l (n "StateTree")) (last_bytes l (n "ExtraData")) (last_bytes l (n "Random"))
            (option_map hashes_of (merged l (n "EvictedTxs"))) (last_bytes l (n "RequestIds")).

Definition hdr_get (p : pb_hdr) (f : string) : list dval :=
  if f =? "Hash" then ob2d p.(h_Hash) else if f =? "Height" then on2d p.(h_Height) else
  if f =? "PreHash" then ob2d p.(h_PreHash) else if f =? "PreTime" then ob2d p.(h_PreTime) else
  if f =? "ProveValue" then ob2d p.(h_ProveValue) else if f =? "TotalQN" then on2d p.(h_TotalQN) else
  if f =? "CurTime" then ob2d p.(h_CurTime) else if f =? "Castor" then ob2d p.(h_Castor) else
  if f =? "GroupId" then ob2d p.(h_GroupId) else if f =? "Signature" then ob2d p.(h_Signature) else
  if f =? "Nonce" then on2d p.(h_Nonce) else
  if f =? "Transactions" then map (fun e => DMsg (txhash_occs e)) p.(h_Transactions) else
  if f =? "TxTree" then ob2d p.(h_TxTree) else if f =? "ReceiptTree" then ob2d p.(h_ReceiptTree) else
  if f =? "StateTree" then ob2d p.(h_StateTree) else if f =? "ExtraData" then ob2d p.(h_ExtraData) else
  if f =? "Random" then ob2d p.(h_Random) else
  if f =? "EvictedTxs" then match p.(h_EvictedTxs) with Some h => [DMsg (hashes_occs h)] | None => [] end else
  if f =? "RequestIds" then ob2d p.(h_RequestIds) else [].
Definition hdr_occs (p : pb_hdr) : occs := to_occs (msg_fields sc "BlockHeader") (hdr_get p).

(* ---- Block, TransactionSlice ---- *)
Definition block_of (l : occs) : pb_block :=
  mk_pb_block (option_map hdr_of (merged l (fn "Block" "Header"))) (map tx_of (all_msgs l (fn "Block" "Transactions"))).
Definition block_get (p : pb_block) (f : string) : list dval :=
  if f =? "Header" then match p.(k_Header) with Some h => [DMsg (hdr_occs h)] | None => [] end else
  if f =? "Transactions" then map (fun t => DMsg (tx_occs t)) p.(k_Transactions) else [].
Definition block_occs (p : pb_block) : occs := to_occs (msg_fields sc "Block") (block_get p).

Definition txs_of (l : occs) : list pb_tx := map tx_of (all_msgs l (fn "TransactionSlice" "Transactions")).
Definition txs_occs (p : list pb_tx) : occs :=
  to_occs (msg_fields sc "TransactionSlice") (fun f => if f =? "Transactions" then map (fun t => DMsg (tx_occs t)) p else []).

(* ---- GroupHeader, Group ---- *)
Definition ghdr_of (l : occs) : pb_ghdr :=
  let n := fn "GroupHeader" in
  mk_pb_ghdr (last_bytes l (n "Hash")) (last_bytes l (n "Parent")) (last_bytes l (n "PreGroup")) (last_bytes l (n "CreateBlockHash"))
             (last_bytes l (n "BeginTime")) (last_bytes l (n "MemberRoot")) (last_var l (n "CreateHeight")) (last_bytes l (n "Extends")).
Definition ghdr_get (p : pb_ghdr) (f : string) : list dval :=
  if f =? "Hash" then ob2d p.(g_Hash) else if f =? "Parent" then ob2d p.(g_Parent) else
  if f =? "PreGroup" then ob2d p.(g_PreGroup) else if f =? "CreateBlockHash" then ob2d p.(g_CreateBlockHash) else
  if f =? "BeginTime" then ob2d p.(g_BeginTime) else if f =? "MemberRoot" then ob2d p.(g_MemberRoot) else
  if f =? "CreateHeight" then on2d p.(g_CreateHeight) else if f =? "Extends" then ob2d p.(g_Extends) else [].
Definition ghdr_occs (p : pb_ghdr) : occs := to_occs (msg_fields sc "GroupHeader") (ghdr_get p).

Definition group_of (l : occs) : pb_group :=
  let n := fn "Group" in
  mk_pb_group (option_map ghdr_of (merged l (n "Header"))) (last_bytes l (n "Id")) (last_bytes l (n "PubKey"))
              (last_bytes l (n "Signature")) (all_bytes l (n "Members")) (last_var l (n "GroupHeight")).
Definition group_get (p : pb_group) (f : string) : list dval :=
  if f =? "Header" then match p.(r_Header) with Some h => [DMsg (ghdr_occs h)] | None => [] end else
  if f =? "Id" then ob2d p.(r_Id) else if f =? "PubKey" then ob2d p.(r_PubKey) else
  if f =? "Signature" then ob2d p.(r_Signature) else if f =? "Members" then map DBytes p.(r_Members) else
  if f =? "GroupHeight" then on2d p.(r_GroupHeight) else [].
Definition group_occs (p : pb_group) : occs := to_occs (msg_fields sc "Group") (group_get p).

(* ---- proto.Unmarshal(b, new(M)) and proto.Marshal(m) ---- *)
Definition umap {A B} (f : A -> B) (r : ures A) : ures B :=
  match r with UOk a => UOk (f a) | UErrWire e => UErrWire e | UErrRequired => UErrRequired | UFuel => UFuel end.

Definition unmarshal_tx (b : bytes) : ures pb_tx := umap tx_of (unmarshal_occs sc "Transaction" b).
Definition unmarshal_txs (b : bytes) : ures (list pb_tx) := umap txs_of (unmarshal_occs sc "TransactionSlice" b).
Definition unmarshal_hdr (b : bytes) : ures pb_hdr := umap hdr_of (unmarshal_occs sc "BlockHeader" b).
Definition unmarshal_block (b : bytes) : ures pb_block := umap block_of (unmarshal_occs sc "Block" b).
Definition unmarshal_group (b : bytes) : ures pb_group := umap group_of (unmarshal_occs sc "Group" b).

(* Marshal: None = RequiredNotSetError (a required pointer field is nil, at any depth) *)
Definition marshal (m : string) (l : occs) : option bytes :=
  if req_ok_gen true req_depth sc m l then Some (enc_occs l) else None.
Definition marshal_tx (p : pb_tx) := marshal "Transaction" (tx_occs p).
Definition marshal_txs (p : list pb_tx) := marshal "TransactionSlice" (txs_occs p).
Definition marshal_hdr (p : pb_hdr) := marshal "BlockHeader" (hdr_occs p).
Definition marshal_block (p : pb_block) := marshal "Block" (block_occs p).
Definition marshal_group (p : pb_group) := marshal "Group" (group_occs p).
End Sch.
