(* C09 -- model of the protobuf <-> node value conversions of src/middleware/types/serialization.go
   (transactions, block headers, blocks, group headers, groups), following the Go code branch by branch.

   Representation choices (what the distinctions in Go are mapped to):
   - Go []byte        : [obytes] = option bytes, None = nil slice, Some [] = empty non-nil slice
   - Go string        : [bytes]
   - pb optional scalar (pointer) : option
   - common.Hash      : [bytes] of length 32 ([to_hash] = common.BytesToHash: crop from the left / left-pad)
   - *common.Sign     : option (r, s, recid) as integers; [sign_bytes] = Sign.Bytes() (r, s < 2^256)
   - time.Time        : the observable triple (internal seconds since year 1 as t.sec(), t.nsec(),
                        zone offset at that instant in seconds, None = the UTC location); wall/monotonic
                        encoding, location names and Local-vs-fixed zone are not observable through
                        MarshalBinary or the JSON form and are left out
   - *big.Int         : option Z
   - []UserData and map[string]uint64 travel as JSON: abstract types with the encoder/decoder as
     parameters of the model (encoding/json is trusted; the harness supplies its observed behaviour)
   - repeated pb fields: lists (the wire decoder never produces nil elements; nil vs empty slice of a
     repeated field is not distinguishable after the wire and is not distinguished here)

   Every optional-scalar read and every step through a message pointer takes its access mode from the table
   generated from the Go source (Gen.v); [Deref] on an absent field is the outcome [Panic]. *)
From Coq Require Import List NArith ZArith String Bool.
From V.Base Require Import Hex BigEndian.
From V.C09 Require Import Modes.
Import ListNotations.

Definition obytes := option bytes.

Inductive outcome (A : Type) := Ok (a : A) | Panic.
Arguments Ok {A} a.
Arguments Panic {A}.

Definition bind {A B} (o : outcome A) (f : A -> outcome B) : outcome B :=
  match o with Ok a => f a | Panic => Panic end.
Notation "'do' x <- o ; f" := (bind o (fun x => f)) (at level 200, x name, o at level 100, f at level 200).

(* read of an optional scalar through a site of mode [m]; [d] = Go zero value *)
Definition rd {A} (m : mode) (x : option A) (d : A) : outcome A :=
  match x with
  | Some a => Ok a
  | None => if safe m then Ok d else Panic
  end.

Definition ob (x : obytes) : bytes := match x with Some b => b | None => [] end.   (* string(b), len/range of b *)

(* ---------- common.BytesToHash ---------- *)
Definition lastn {A} (n : nat) (l : list A) : list A := skipn (List.length l - n) l.
Definition to_hash (b : bytes) : bytes :=
  if Nat.ltb 32 (List.length b) then lastn 32 b else repeat 0%N (32 - List.length b) ++ b.

(* ---------- common.BytesToSign ---------- *)
(* *common.Sign = (r, s, recid).  Sign.Bytes(): r and s big-endian, each copied RIGHT-aligned into its own 32-byte
   word (left-padded with zeros), then the recid byte.  BytesToSign reads the two words back with SetBytes. *)
Definition gsign := (N * N * N)%type.
Definition pad32 (b : bytes) : bytes := repeat 0%N (32 - List.length b) ++ b.
Definition sign_bytes (g : gsign) : bytes :=
  let '(r, s, v) := g in pad32 (beb r) ++ pad32 (beb s) ++ [v].
Definition to_sign (b : bytes) : option gsign :=
  if Nat.eqb (List.length b) 65 then Some (bev (firstn 32 b), bev (firstn 32 (skipn 32 b)), nth 64 b 0%N) else None.

(* ---------- time.Time MarshalBinary / UnmarshalBinary (Go 1.23) ---------- *)
Record gtime := mk_time { t_sec : Z; t_nsec : Z; t_off : option Z }.
Definition zero_time := mk_time 0 0 None.

Fixpoint le_fix (k : nat) (n : N) : bytes :=
  match k with O => [] | S k' => (n mod 256)%N :: le_fix k' (n / 256)%N end.
Definition be_fix (k : nat) (n : N) : bytes := rev (le_fix k n).

Definition z_to_u (bits : Z) (z : Z) : N := Z.to_N (z mod 2 ^ bits).
Definition u_to_s (bits : Z) (n : N) : Z :=
  let z := Z.of_N n in if (z <? 2 ^ (bits - 1))%Z then z else (z - 2 ^ bits)%Z.

Definition wall_to_internal : Z := 59453308800.

Definition time_marshal (t : gtime) : option bytes :=
  match t.(t_off) with
  | None => Some (1%N :: be_fix 8 (z_to_u 64 t.(t_sec)) ++ be_fix 4 (z_to_u 32 t.(t_nsec)) ++ be_fix 2 (z_to_u 16 (-1)))
  | Some o =>
      let r := Z.rem o 60 in
      let q := Z.quot o 60 in
      if ((q <? -32768) || (q =? -1) || (32767 <? q))%Z then None
      else
        let body := be_fix 8 (z_to_u 64 t.(t_sec)) ++ be_fix 4 (z_to_u 32 t.(t_nsec)) ++ be_fix 2 (z_to_u 16 q) in
        if (r =? 0)%Z then Some (1%N :: body) else Some (2%N :: body ++ [z_to_u 8 r])
  end.

Definition time_unmarshal (b : bytes) : option gtime :=
  match b with
  | [] => None
  | v :: r =>
      if (v =? 1)%N || (v =? 2)%N then
        let want := if (v =? 1)%N then 14%nat else 15%nat in
        if Nat.eqb (List.length r) want then
          let sec := u_to_s 64 (bev (firstn 8 r)) in
          let ns := u_to_s 32 (bev (firstn 4 (skipn 8 r))) in
          let om := u_to_s 16 (bev (firstn 2 (skipn 12 r))) in
          let off := (om * 60 + (if (v =? 2)%N then Z.of_N (nth 14 r 0%N) else 0))%Z in
          (* t.wall = uint64(int32 nsec): a negative value sets the hasMonotonic bit and the wall seconds field *)
          let sec' := if (ns <? 0)%Z then (wall_to_internal + (2 ^ 63 + ns) / 2 ^ 30)%Z else sec in
          Some (mk_time sec' (ns mod 2 ^ 30)%Z (if (off =? -60)%Z then None else Some off))
        else None
      else None
  end.

(* ---------- *big.Int <-> bytes ---------- *)
Definition big_bytes (z : Z) : bytes := beb (Z.to_N (Z.abs z)).      (* big.Int.Bytes(): magnitude, sign lost *)
Definition big_set (b : bytes) : Z := Z.of_N (bev b).

(* ========== Transaction ========== *)
Section Codec.
Variable SubT : Type.                 (* []UserData *)
Variable sub_enc : SubT -> bytes.     (* json.Marshal *)
Variable sub_dec : bytes -> SubT.     (* json.Unmarshal into a nil slice (error ignored by the code) *)
Variable sub_nil : SubT.
Variable ReqT : Type.                 (* map[string]uint64 *)
Variable req_enc : ReqT -> bytes.
Variable req_dec : bytes -> ReqT.
Variable req_nil : ReqT.

Variable ss : list site.
Variable rs : list recv.

Record pb_tx := mk_pb_tx {
  p_Data : option bytes; p_Nonce : option N; p_Source : obytes; p_Target : option bytes; p_Type : option Z;
  p_Hash : obytes; p_ExtraData : obytes; p_ExtraDataType : option Z; p_Sign : obytes; p_Time : option bytes;
  p_RequestId : option N; p_SocketRequestId : option bytes; p_SubTransactions : obytes; p_SubHash : obytes;
  p_ChainId : option bytes }.

Record tx := mk_tx {
  x_Source : bytes; x_Target : bytes; x_Type : Z; x_Time : bytes; x_Data : bytes; x_ExtraData : bytes;
  x_ExtraDataType : Z; x_Sub : SubT; x_SubHash : bytes; x_Hash : bytes; x_Sign : option gsign;
  x_Nonce : N; x_RequestId : N; x_SocketRequestId : bytes; x_ChainId : bytes }.

Definition zero_tx : tx := mk_tx [] [] 0 [] [] [] 0 sub_nil (to_hash []) (to_hash []) None 0 0 [] [].

Definition nonempty (b : bytes) : option bytes := match b with [] => None | _ => Some b end.

(* transactionToPb (t != nil) *)
Definition tx_to_pb (t : tx) : pb_tx :=
  mk_pb_tx (nonempty t.(x_Data)) (Some t.(x_Nonce)) (nonempty t.(x_Source)) (nonempty t.(x_Target)) (Some t.(x_Type))
           (Some t.(x_Hash)) (Some t.(x_ExtraData)) (Some t.(x_ExtraDataType)) (option_map sign_bytes t.(x_Sign)) (Some t.(x_Time))
           (Some t.(x_RequestId)) None (Some (sub_enc t.(x_Sub))) (Some t.(x_SubHash)) (Some t.(x_ChainId)).

Definition fT := "pbToTransaction"%string.
Definition mT (fld : string) : mode := site_mode ss fT "Transaction" fld.

(* pbToTransaction, argument not nil *)
Definition tx_of_pb_body (p : pb_tx) : outcome tx :=
  let source := ob p.(p_Source) in
  do target <- rd (mT "Target") p.(p_Target) [];
  do data <- rd (mT "Data") p.(p_Data) [];
  do sock <- rd (mT "SocketRequestId") p.(p_SocketRequestId) [];
  let sub := match p.(p_SubTransactions) with Some b => sub_dec b | None => sub_nil end in
  let sign := match p.(p_Sign) with
              | Some b => if Nat.eqb (List.length b) 0 then None else to_sign b
              | None => None end in
  do nonce <- rd (mT "Nonce") p.(p_Nonce) 0%N;
  do rid <- rd (mT "RequestId") p.(p_RequestId) 0%N;
  do edt <- rd (mT "ExtraDataType") p.(p_ExtraDataType) 0%Z;
  do ty <- rd (mT "Type") p.(p_Type) 0%Z;
  do tm <- rd (mT "Time") p.(p_Time) [];
  do cid <- rd (mT "ChainId") p.(p_ChainId) [];
  Ok (mk_tx source target ty tm data (ob p.(p_ExtraData)) edt sub (to_hash (ob p.(p_SubHash)))
            (to_hash (ob p.(p_Hash))) sign nonce rid sock cid).

(* pbToTransaction on a possibly nil pointer *)
Definition tx_of_pb (p : option pb_tx) : outcome tx :=
  match p with
  | Some p => tx_of_pb_body p
  | None => match recv_mode rs fT "Transaction" with
            | NilChecked => Ok zero_tx
            | Getter => tx_of_pb_body (mk_pb_tx None None None None None None None None None None None None None None None)
            | _ => Panic
            end
  end.

Fixpoint map_out {A B} (f : A -> outcome B) (l : list A) : outcome (list B) :=
  match l with
  | [] => Ok []
  | a :: r => do b <- f a; do r' <- map_out f r; Ok (b :: r')
  end.

(* PbToTransactions: always a non-nil slice *)
Definition txs_of_pb (l : list pb_tx) : outcome (list tx) := map_out tx_of_pb_body l.

(* ========== BlockHeader ========== *)
Record pb_txhash := mk_pb_txhash { ph_Hash : obytes; ph_SubHash : obytes }.

Record pb_hdr := mk_pb_hdr {
  h_Hash : obytes; h_Height : option N; h_PreHash : obytes; h_PreTime : obytes; h_ProveValue : obytes;
  h_TotalQN : option N; h_CurTime : obytes; h_Castor : obytes; h_GroupId : obytes; h_Signature : obytes;
  h_Nonce : option N; h_Transactions : list pb_txhash; h_TxTree : obytes; h_ReceiptTree : obytes;
  h_StateTree : obytes; h_ExtraData : obytes; h_Random : obytes; h_EvictedTxs : option (list bytes);
  h_RequestIds : obytes }.

Record hdr := mk_hdr {
  b_Hash : bytes; b_Height : N; b_PreHash : bytes; b_PreTime : gtime; b_ProveValue : option Z; b_TotalQN : N;
  b_CurTime : gtime; b_Castor : obytes; b_GroupId : obytes; b_Signature : obytes; b_Nonce : N; b_RequestIds : ReqT;
  b_Transactions : option (list (bytes * bytes)); b_TxTree : bytes; b_ReceiptTree : bytes; b_StateTree : bytes;
  b_ExtraData : obytes; b_Random : obytes; b_EvictedTxs : option (list bytes) }.

Definition fH := "PbToBlockHeader"%string.
Definition mH (fld : string) : mode := site_mode ss fH "BlockHeader" fld.

(* BlockHeaderToPb (h != nil): None = the function returns nil (a time does not marshal) *)
Definition hdr_to_pb (h : hdr) : option pb_hdr :=
  let txh := map (fun p => mk_pb_txhash (Some (fst p)) (Some (snd p))) (match h.(b_Transactions) with Some l => l | None => [] end) in
  let ev := match h.(b_EvictedTxs) with Some l => l | None => [] end in
  match time_marshal h.(b_PreTime) with
  | None => None
  | Some pt =>
    match time_marshal h.(b_CurTime) with
    | None => None
    | Some ct =>
      Some (mk_pb_hdr (Some h.(b_Hash)) (Some h.(b_Height)) (Some h.(b_PreHash)) (Some pt)
              (match h.(b_ProveValue) with Some z => Some (big_bytes z) | None => None end)
              (Some h.(b_TotalQN)) (Some ct) h.(b_Castor) h.(b_GroupId) h.(b_Signature) (Some h.(b_Nonce)) txh
              (Some h.(b_TxTree)) (Some h.(b_ReceiptTree)) (Some h.(b_StateTree)) h.(b_ExtraData) h.(b_Random)
              (Some ev) (Some (req_enc h.(b_RequestIds))))
    end
  end.

(* PbToBlockHeader, argument not nil: Ok None = returns nil (logged time error) *)
Definition hdr_of_pb_body (p : pb_hdr) : outcome (option hdr) :=
  let hashes := map (fun e => (to_hash (ob e.(ph_Hash)), to_hash (ob e.(ph_SubHash)))) p.(h_Transactions) in
  do hashes2 <- match p.(h_EvictedTxs) with
                | Some l => Ok (map to_hash l)
                | None => if safe (recv_mode rs fH "Hashes") then Ok [] else Panic
                end;
  match time_unmarshal (ob p.(h_PreTime)) with
  | None => Ok None
  | Some pt =>
    match time_unmarshal (ob p.(h_CurTime)) with
    | None => Ok None
    | Some ct =>
      let pv := match p.(h_ProveValue) with Some b => Some (big_set b) | None => None end in
      do height <- rd (mH "Height") p.(h_Height) 0%N;
      do nonce <- rd (mH "Nonce") p.(h_Nonce) 0%N;
      do qn <- rd (mH "TotalQN") p.(h_TotalQN) 0%N;
      let req := match p.(h_RequestIds) with Some b => req_dec b | None => req_nil end in
      Ok (Some (mk_hdr (to_hash (ob p.(h_Hash))) height (to_hash (ob p.(h_PreHash))) pt pv qn ct p.(h_Castor) p.(h_GroupId)
                  p.(h_Signature) nonce req (Some hashes) (to_hash (ob p.(h_TxTree))) (to_hash (ob p.(h_ReceiptTree)))
                  (to_hash (ob p.(h_StateTree))) p.(h_ExtraData) p.(h_Random) (Some hashes2)))
    end
  end.

Definition empty_pb_hdr : pb_hdr :=
  mk_pb_hdr None None None None None None None None None None None [] None None None None None None None.

Definition hdr_of_pb (p : option pb_hdr) : outcome (option hdr) :=
  match p with
  | Some p => hdr_of_pb_body p
  | None => match recv_mode rs fH "BlockHeader" with
            | NilChecked => Ok None
            | Getter => hdr_of_pb_body empty_pb_hdr
            | _ => Panic
            end
  end.

(* ========== Block ========== *)
Record pb_block := mk_pb_block { k_Header : option pb_hdr; k_Transactions : list pb_tx }.
Record block := mk_block { c_Header : option hdr; c_Transactions : option (list tx) }.

(* BlockToPb (b != nil): Panic when b.Header is nil (BlockHeaderToPb selects h.Transactions) *)
Definition block_to_pb (b : block) : outcome pb_block :=
  match b.(c_Header) with
  | None => Panic
  | Some h => Ok (mk_pb_block (hdr_to_pb h) (map tx_to_pb (match b.(c_Transactions) with Some l => l | None => [] end)))
  end.

Definition block_of_pb (p : pb_block) : outcome block :=
  do h <- hdr_of_pb p.(k_Header);
  do txs <- txs_of_pb p.(k_Transactions);
  Ok (mk_block h (Some txs)).

(* ========== GroupHeader / Group ========== *)
Record pb_ghdr := mk_pb_ghdr {
  g_Hash : obytes; g_Parent : obytes; g_PreGroup : obytes; g_CreateBlockHash : obytes; g_BeginTime : obytes;
  g_MemberRoot : obytes; g_CreateHeight : option N; g_Extends : option bytes }.

Record ghdr := mk_ghdr {
  gh_Hash : bytes; gh_Parent : obytes; gh_PreGroup : obytes; gh_CreateBlockHash : obytes; gh_BeginTime : gtime;
  gh_MemberRoot : bytes; gh_CreateHeight : N; gh_ReadyHeight : N; gh_WorkHeight : N; gh_DismissHeight : N;
  gh_Extends : bytes }.

Definition fGH := "PbToGroupHeader"%string.
Definition mGH (fld : string) : mode := site_mode ss fGH "GroupHeader" fld.

(* GroupToPbHeader (g != nil); the error of MarshalBinary is dropped: BeginTime nil *)
Definition ghdr_to_pb (g : ghdr) : pb_ghdr :=
  mk_pb_ghdr (Some g.(gh_Hash)) g.(gh_Parent) g.(gh_PreGroup) g.(gh_CreateBlockHash) (time_marshal g.(gh_BeginTime))
             (Some g.(gh_MemberRoot)) (Some g.(gh_CreateHeight)) (Some g.(gh_Extends)).

Definition ghdr_of_pb_body (p : pb_ghdr) : outcome ghdr :=
  let bt := match time_unmarshal (ob p.(g_BeginTime)) with Some t => t | None => zero_time end in
  do ch <- rd (mGH "CreateHeight") p.(g_CreateHeight) 0%N;
  do ext <- rd (mGH "Extends") p.(g_Extends) [];
  Ok (mk_ghdr (to_hash (ob p.(g_Hash))) p.(g_Parent) p.(g_PreGroup) p.(g_CreateBlockHash) bt
              (to_hash (ob p.(g_MemberRoot))) ch 0 0 0 ext).

Definition empty_pb_ghdr : pb_ghdr := mk_pb_ghdr None None None None None None None None.

Definition ghdr_of_pb (p : option pb_ghdr) : outcome (option ghdr) :=
  match p with
  | Some p => do g <- ghdr_of_pb_body p; Ok (Some g)
  | None => match recv_mode rs fGH "GroupHeader" with
            | NilChecked => Ok None
            | Getter => do g <- ghdr_of_pb_body empty_pb_ghdr; Ok (Some g)
            | _ => Panic
            end
  end.

Record pb_group := mk_pb_group {
  r_Header : option pb_ghdr; r_Id : obytes; r_PubKey : obytes; r_Signature : obytes; r_Members : list bytes;
  r_GroupHeight : option N }.

Record group := mk_group {
  gr_Header : option ghdr; gr_Id : obytes; gr_PubKey : obytes; gr_Signature : obytes; gr_Members : list bytes;
  gr_GroupHeight : N }.

Definition fG := "PbToGroup"%string.

(* GroupToPb (g != nil): Panic when g.Header is nil (GroupToPbHeader selects g.BeginTime) *)
Definition group_to_pb (g : group) : outcome pb_group :=
  match g.(gr_Header) with
  | None => Panic
  | Some h => Ok (mk_pb_group (Some (ghdr_to_pb h)) g.(gr_Id) g.(gr_PubKey) g.(gr_Signature) g.(gr_Members)
                              (Some g.(gr_GroupHeight)))
  end.

Definition group_of_pb (p : pb_group) : outcome group :=
  do h <- ghdr_of_pb p.(r_Header);
  do gh <- rd (site_mode ss fG "Group" "GroupHeight") p.(r_GroupHeight) 0%N;
  Ok (mk_group h p.(r_Id) p.(r_PubKey) p.(r_Signature) p.(r_Members) gh).

End Codec.
