(* C09 -- bytes to node value and back: the wire model composed with the conversion model. *)
From Coq Require Import List NArith ZArith String Bool Lia.
From V.Base Require Import Hex BigEndian.
From V.C09 Require Import Modes Gen Model Proofs Roundtrip Wire WireProofs Assemble AssembleProofs.
Import ListNotations.
Local Open Scope string_scope.
Local Open Scope list_scope.

Local Notation sc := Gen.msgs.

(* ---------- required-field check: marshaler's variant vs decoder's variant ---------- *)
(* [clean f m]: down to depth f, no required field of m or of a message embedded in m is a []byte -- then the
   marshaler (which checks required pointers only) and the decoder agree on what "all required fields set" means *)
Fixpoint clean (f : nat) (s : schema) (m : string) : bool :=
  match f with
  | O => true
  | S f' => forallb (fun fd => negb (fd.(fd_req) && bytes_kind fd.(fd_kind)) &&
                              match fd.(fd_kind) with FMsg sub | FRepMsg sub => clean f' s sub | _ => true end)
                    (msg_fields s m)
  end.

Lemma forallb_ext_in {A} (f g : A -> bool) l : (forall a, In a l -> f a = g a) -> forallb f l = forallb g l.
Proof.
  induction l as [|a l IH]; intros H; cbn; [reflexivity|].
  rewrite (H a (or_introl eq_refl)), IH; [reflexivity|]. intros x Hx. apply H. right. exact Hx.
Qed.

Lemma find_fd_In flds n fd : find_fd flds n = Some fd -> In fd flds.
Proof.
  induction flds as [|d r IH]; cbn; [discriminate|].
  destruct (N.eqb (fd_num d) n); [intros E; injection E as <-; left; reflexivity | intros E; right; apply IH; exact E].
Qed.

Lemma req_gen_clean s f : forall m l, clean f s m = true -> req_ok_gen true f s m l = req_ok_gen false f s m l.
Proof.
  induction f as [|f IH]; intros m l C; [reflexivity|].
  cbn [req_ok_gen]. cbn [clean] in C. rewrite forallb_forall in C. f_equal.
  - apply forallb_ext_in. intros fd Hin. specialize (C fd Hin). apply andb_true_iff in C. destruct C as [C _].
    destruct (fd_req fd); [|reflexivity]. cbn in *. destruct (bytes_kind (fd_kind fd)); [discriminate | reflexivity].
  - apply forallb_ext_in. intros [n v] _. cbn [fst snd]. destruct v as [x|b|inner]; try reflexivity.
    destruct (find_fd (msg_fields s m) n) as [fd|] eqn:F; [|reflexivity].
    specialize (C fd (find_fd_In _ _ _ F)). apply andb_true_iff in C. destruct C as [_ C].
    destruct (fd_kind fd); try reflexivity; apply IH; exact C.
Qed.

(* no message reachable within [f] levels has a required field at all: the check is vacuous *)
Fixpoint reqfree (f : nat) (s : schema) (m : string) : bool :=
  match f with
  | O => true
  | S f' => forallb (fun fd => negb fd.(fd_req) &&
                              match fd.(fd_kind) with FMsg sub | FRepMsg sub => reqfree f' s sub | _ => true end)
                    (msg_fields s m)
  end.

Lemma req_reqfree s ponly f : forall m l, reqfree f s m = true -> req_ok_gen ponly f s m l = true.
Proof.
  induction f as [|f IH]; intros m l C; [reflexivity|].
  cbn [req_ok_gen]. cbn [reqfree] in C. rewrite forallb_forall in C. apply andb_true_iff. split.
  - apply forallb_forall. intros fd Hin. specialize (C fd Hin). apply andb_true_iff in C. destruct C as [C _].
    destruct (fd_req fd); [discriminate | reflexivity].
  - apply forallb_forall. intros [n v] _. cbn [fst snd]. destruct v as [x|b|inner]; try reflexivity.
    destruct (find_fd (msg_fields s m) n) as [fd|] eqn:F; [|reflexivity].
    specialize (C fd (find_fd_In _ _ _ F)). apply andb_true_iff in C. destruct C as [_ C].
    destruct (fd_kind fd); try reflexivity; apply IH; exact C.
Qed.

(* facts about the GENERATED schema, by computation *)
Fixpoint depth_le (f : nat) (s : schema) (m : string) : bool :=
  match f with
  | O => false
  | S f' => forallb (fun fd => match fd.(fd_kind) with FMsg sub | FRepMsg sub => depth_le f' s sub | _ => true end) (msg_fields s m)
  end.
Lemma schema_depth_ok : forallb (fun e => depth_le 3 sc (fst e)) sc = true.
Proof. vm_compute. reflexivity. Qed.
Lemma clean_tx : clean req_depth sc "Transaction" = true. Proof. vm_compute. reflexivity. Qed.
Lemma clean_txs : clean req_depth sc "TransactionSlice" = true. Proof. vm_compute. reflexivity. Qed.
Lemma clean_hdr : clean req_depth sc "BlockHeader" = true. Proof. vm_compute. reflexivity. Qed.
Lemma clean_block : clean req_depth sc "Block" = true. Proof. vm_compute. reflexivity. Qed.
Lemma reqfree_hdr : reqfree req_depth sc "BlockHeader" = true. Proof. vm_compute. reflexivity. Qed.

(* ---------- proto.Unmarshal (proto.Marshal p) = p ---------- *)
Lemma unmarshal_marshal_generic {A} (m : string) (occ : A -> occs) (asm : occs -> A) (p : A) b :
  conf sc m (occ p) -> asm (occ p) = p ->
  (req_ok_gen true req_depth sc m (occ p) = true -> req_ok req_depth sc m (occ p) = true) ->
  marshal sc m (occ p) = Some b -> umap asm (unmarshal_occs sc m b) = UOk p.
Proof.
  intros C A1 R. unfold marshal. destruct (req_ok_gen true req_depth sc m (occ p)) eqn:E; [|discriminate].
  intros H. injection H as <-. unfold unmarshal_occs.
  rewrite (dec_enc_occs sc m (occ p) C _ (le_n _)). rewrite (R eq_refl). cbn. rewrite A1. reflexivity.
Qed.

Theorem unmarshal_marshal_tx p b : pb_tx_ok p -> marshal_tx sc p = Some b -> unmarshal_tx sc b = UOk p.
Proof.
  intros O. apply (unmarshal_marshal_generic "Transaction" (tx_occs sc) (tx_of sc)); [apply tx_conf; exact O | apply tx_of_occs; exact O |].
  unfold req_ok. rewrite (req_gen_clean sc req_depth _ _ clean_tx). auto.
Qed.

Theorem unmarshal_marshal_txs p b : pb_txs_ok p -> marshal_txs sc p = Some b -> unmarshal_txs sc b = UOk p.
Proof.
  intros O. apply (unmarshal_marshal_generic "TransactionSlice" (txs_occs sc) (txs_of sc)); [apply txs_conf; exact O | apply txs_of_occs; exact O |].
  unfold req_ok. rewrite (req_gen_clean sc req_depth _ _ clean_txs). auto.
Qed.

Theorem unmarshal_marshal_hdr p b : pb_hdr_ok p -> marshal_hdr sc p = Some b -> unmarshal_hdr sc b = UOk p.
Proof.
  intros O. apply (unmarshal_marshal_generic "BlockHeader" (hdr_occs sc) (hdr_of sc)); [apply hdr_conf; exact O | apply hdr_of_occs |].
  unfold req_ok. rewrite (req_gen_clean sc req_depth _ _ clean_hdr). auto.
Qed.

(* a header always marshals: no message under BlockHeader has a required field *)
Lemma marshal_hdr_some p : marshal_hdr sc p = Some (enc_occs (hdr_occs sc p)).
Proof. unfold marshal_hdr, marshal. rewrite (req_reqfree sc true req_depth _ _ reqfree_hdr). reflexivity. Qed.

Theorem unmarshal_marshal_block p b : pb_block_ok p -> marshal_block sc p = Some b -> unmarshal_block sc b = UOk p.
Proof.
  intros O. apply (unmarshal_marshal_generic "Block" (block_occs sc) (block_of sc)); [apply block_conf; exact O | apply block_of_occs; exact O |].
  unfold req_ok. rewrite (req_gen_clean sc req_depth _ _ clean_block). auto.
Qed.

(* GroupHeader.MemberRoot is a required []byte: the marshaler does not insist on it, the decoder does *)
Theorem unmarshal_marshal_group p b : pb_group_ok p -> req_ok req_depth sc "Group" (group_occs sc p) = true ->
  marshal_group sc p = Some b -> unmarshal_group sc b = UOk p.
Proof.
  intros O R. apply (unmarshal_marshal_generic "Group" (group_occs sc) (group_of sc)); [apply group_conf; exact O | apply group_of_occs |].
  intros _. exact R.
Qed.

(* ---------- types.UnMarshalX / types.MarshalX ---------- *)
Inductive parse (A : Type) := PVal (a : A) | PErr | PPanic | PFuel.
Arguments PVal {A} a.
Arguments PErr {A}.
Arguments PPanic {A}.
Arguments PFuel {A}.

Definition compose {P A} (u : ures P) (conv : P -> outcome A) : parse A :=
  match u with
  | UOk p => match conv p with Ok a => PVal a | Panic => PPanic end
  | UFuel => PFuel
  | _ => PErr
  end.

Lemma compose_total {P A} (u : ures P) (conv : P -> outcome A) :
  u <> UFuel -> (forall p, conv p <> Panic) -> compose u conv <> PPanic /\ compose u conv <> PFuel.
Proof.
  intros HU HC. unfold compose. destruct u as [p| | |]; try (split; discriminate); [|congruence].
  specialize (HC p). destruct (conv p); [split; discriminate | congruence].
Qed.

Lemma umap_nofuel {A B} (f : A -> B) u : u <> UFuel -> umap f u <> UFuel.
Proof. destruct u; cbn; congruence. Qed.

Section Json.
Variable SubT : Type.
Variable sub_enc : SubT -> bytes.
Variable sub_dec : bytes -> SubT.
Variable sub_nil : SubT.
Variable ReqT : Type.
Variable req_enc : ReqT -> bytes.
Variable req_dec : bytes -> ReqT.
Variable req_nil : ReqT.

Definition UnMarshalTransaction (b : bytes) : parse (tx SubT) :=
  compose (unmarshal_tx sc b) (tx_of_pb_body SubT sub_dec sub_nil Gen.sites).
Definition UnMarshalTransactions (b : bytes) : parse (list (tx SubT)) :=
  compose (unmarshal_txs sc b) (txs_of_pb SubT sub_dec sub_nil Gen.sites).
(* since /repo 15a1dce a header that PbToBlockHeader rejects (nil: missing or malformed PreTime/CurTime) is an error of
   UnMarshalBlockHeader / UnMarshalBlock, not a nil header with a nil error *)
Definition need {A B} (f : A -> option B) (r : parse A) : parse B :=
  match r with
  | PVal a => match f a with Some v => PVal v | None => PErr end
  | PErr => PErr | PPanic => PPanic | PFuel => PFuel
  end.
Lemma need_total {A B} (f : A -> option B) r : r <> PPanic /\ r <> PFuel -> need f r <> PPanic /\ need f r <> PFuel.
Proof. intros [H1 H2]. destruct r as [a| | |]; cbn; try congruence; [destruct (f a)|]; split; discriminate. Qed.

Definition UnMarshalBlockHeader (b : bytes) : parse (hdr ReqT) :=
  need (fun o => o) (compose (unmarshal_hdr sc b) (hdr_of_pb_body ReqT req_dec req_nil Gen.sites Gen.recvs)).
Definition UnMarshalBlock (b : bytes) : parse (block SubT ReqT) :=
  need (fun k => match k.(c_Header _ _) with Some _ => Some k | None => None end)
       (compose (unmarshal_block sc b) (block_of_pb SubT sub_dec sub_nil ReqT req_dec req_nil Gen.sites Gen.recvs)).
Definition UnMarshalGroup (b : bytes) : parse group :=
  compose (unmarshal_group sc b) (group_of_pb Gen.sites Gen.recvs).

Definition MarshalTransaction (t : tx SubT) : option bytes := marshal_tx sc (tx_to_pb SubT sub_enc t).
(* MarshalBlockHeader returns (nil, nil) when BlockHeaderToPb returns nil: the empty byte string *)
Definition MarshalBlockHeader (h : hdr ReqT) : option bytes :=
  match hdr_to_pb ReqT req_enc h with Some p => marshal_hdr sc p | None => Some [] end.
Definition MarshalBlock (k : block SubT ReqT) : outcome (option bytes) :=
  match block_to_pb SubT sub_enc ReqT req_enc k with Ok p => Ok (marshal_block sc p) | Panic => Panic end.
Definition MarshalGroup (g : group) : outcome (option bytes) :=
  match group_to_pb g with Ok p => Ok (marshal_group sc p) | Panic => Panic end.

(* totality from the bytes: every parser returns a value or an error for EVERY byte string *)
Ltac tot H := apply compose_total; [apply umap_nofuel, unmarshal_occs_total | intros p E; destruct (H p) as [x Ex]; congruence].

Theorem UnMarshalTransaction_total b : UnMarshalTransaction b <> PPanic /\ UnMarshalTransaction b <> PFuel.
Proof. tot (tx_body_total SubT sub_dec sub_nil Gen.sites eq_refl). Qed.
Theorem UnMarshalTransactions_total b : UnMarshalTransactions b <> PPanic /\ UnMarshalTransactions b <> PFuel.
Proof. tot (txs_total SubT sub_dec sub_nil Gen.sites eq_refl). Qed.
Theorem UnMarshalBlockHeader_total b : UnMarshalBlockHeader b <> PPanic /\ UnMarshalBlockHeader b <> PFuel.
Proof. apply need_total. tot (hdr_body_total ReqT req_dec req_nil Gen.sites Gen.recvs eq_refl). Qed.
Theorem UnMarshalBlock_total b : UnMarshalBlock b <> PPanic /\ UnMarshalBlock b <> PFuel.
Proof. apply need_total. tot (block_total SubT sub_dec sub_nil ReqT req_dec req_nil Gen.sites Gen.recvs eq_refl eq_refl eq_refl). Qed.
Theorem UnMarshalGroup_total b : UnMarshalGroup b <> PPanic /\ UnMarshalGroup b <> PFuel.
Proof. tot (group_total Gen.sites Gen.recvs eq_refl). Qed.

(* round trip through the bytes *)
Theorem tx_bytes_roundtrip t b : tx_wf SubT sub_enc sub_dec t -> pb_tx_ok (tx_to_pb SubT sub_enc t) ->
  MarshalTransaction t = Some b -> UnMarshalTransaction b = PVal (tx_wire_view SubT t).
Proof.
  intros W O M. unfold UnMarshalTransaction. rewrite (unmarshal_marshal_tx _ _ O M). unfold compose.
  rewrite (tx_roundtrip SubT sub_enc sub_dec sub_nil Gen.sites t eq_refl W). reflexivity.
Qed.

Theorem hdr_bytes_roundtrip h : hdr_wf ReqT req_enc req_dec h ->
  (forall p, hdr_to_pb ReqT req_enc h = Some p -> pb_hdr_ok p) ->
  exists b, MarshalBlockHeader h = Some b /\ UnMarshalBlockHeader b = PVal h.
Proof.
  intros W O. destruct (hdr_roundtrip ReqT req_enc req_dec req_nil Gen.sites Gen.recvs h W) as (p & P1 & P2).
  unfold MarshalBlockHeader. rewrite P1. rewrite marshal_hdr_some. eexists; split; [reflexivity|].
  unfold UnMarshalBlockHeader. rewrite (unmarshal_marshal_hdr p _ (O p P1) (marshal_hdr_some p)). unfold compose. rewrite P2. reflexivity.
Qed.

Theorem block_bytes_roundtrip k p b : block_wf SubT sub_enc sub_dec ReqT req_enc req_dec k ->
  block_to_pb SubT sub_enc ReqT req_enc k = Ok p -> pb_block_ok p -> marshal_block sc p = Some b ->
  UnMarshalBlock b = PVal (block_wire_view SubT ReqT k).
Proof.
  intros W P O M. destruct (block_roundtrip SubT sub_enc sub_dec sub_nil ReqT req_enc req_dec req_nil Gen.sites Gen.recvs k eq_refl W) as (p' & P1 & P2).
  rewrite P in P1. injection P1 as <-.
  unfold UnMarshalBlock. rewrite (unmarshal_marshal_block _ _ O M). unfold compose. rewrite P2.
  destruct W as ((h & Eh & _) & _). unfold need, block_wire_view. cbn. rewrite Eh. reflexivity.
Qed.

Theorem group_bytes_roundtrip g p b : group_wf g -> group_to_pb g = Ok p -> pb_group_ok p ->
  req_ok req_depth sc "Group" (group_occs sc p) = true -> marshal_group sc p = Some b ->
  UnMarshalGroup b = PVal (group_wire_view g).
Proof.
  intros W P O R M. destruct (group_roundtrip Gen.sites Gen.recvs g W) as (p' & P1 & P2).
  rewrite P in P1. injection P1 as <-.
  unfold UnMarshalGroup. rewrite (unmarshal_marshal_group _ _ O R M). unfold compose. rewrite P2. reflexivity.
Qed.

End Json.
