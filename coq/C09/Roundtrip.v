(* C09 -- round trip of node-producible values, and the fixed-point law for values obtained by parsing. *)
From Coq Require Import List NArith ZArith String Bool Lia.
From V.Base Require Import Hex BigEndian.
From V.C09 Require Import Modes Model Proofs.
Import ListNotations.

(* ---------- fixed-width big-endian ---------- *)
Lemma le_val_le_fix k n : le_val (le_fix k n) = (n mod 256 ^ N.of_nat k)%N.
Proof.
  revert n. induction k as [|k IH]; intros n.
  - cbn. rewrite N.mod_1_r. reflexivity.
  - cbn [le_fix le_val]. rewrite IH. rewrite Nat2N.inj_succ, N.pow_succ_r'.
    rewrite N.mod_mul_r by (try apply N.pow_nonzero; lia). lia.
Qed.

Lemma be_fix_length k n : List.length (be_fix k n) = k.
Proof.
  unfold be_fix. rewrite rev_length. revert n. induction k; intros; cbn; [reflexivity | rewrite IHk; reflexivity].
Qed.

Lemma bev_be_fix k n : bev (be_fix k n) = (n mod 256 ^ N.of_nat k)%N.
Proof. unfold bev, be_fix. rewrite rev_involutive. apply le_val_le_fix. Qed.

Lemma firstn_len_app {A} (a b : list A) n : List.length a = n -> firstn n (a ++ b) = a.
Proof. intros <-. rewrite firstn_app, Nat.sub_diag, firstn_all. cbn. apply app_nil_r. Qed.

Lemma skipn_len_app {A} (a b : list A) n : List.length a = n -> skipn n (a ++ b) = b.
Proof. intros <-. rewrite skipn_app, Nat.sub_diag, skipn_all. reflexivity. Qed.

Lemma u_to_s_to_u bits z : (0 < bits)%Z -> (- 2 ^ (bits - 1) <= z < 2 ^ (bits - 1))%Z -> u_to_s bits (z_to_u bits z) = z.
Proof.
  intros Hb Hz. unfold u_to_s, z_to_u.
  assert (P : (2 ^ bits = 2 * 2 ^ (bits - 1))%Z).
  { replace bits with (Z.succ (bits - 1)) at 1 by lia. rewrite Z.pow_succ_r by lia. reflexivity. }
  assert (Hp : (0 < 2 ^ (bits - 1))%Z) by (apply Z.pow_pos_nonneg; lia).
  rewrite Z2N.id by (apply Z.mod_pos_bound; lia).
  destruct (Z.ltb_spec (z mod 2 ^ bits) (2 ^ (bits - 1))) as [L|L].
  - destruct (Z.neg_nonneg_cases z) as [Hn|Hn].
    + rewrite <- (Z.mod_add z 1) in L by lia. rewrite Z.mod_small in L by lia. lia.
    + apply Z.mod_small. lia.
  - destruct (Z.neg_nonneg_cases z) as [Hn|Hn].
    + rewrite <- (Z.mod_add z 1) by lia. rewrite Z.mod_small by lia. lia.
    + rewrite Z.mod_small in L by lia. lia.
Qed.

(* ---------- time ---------- *)
(* zone offsets Go's binary form reproduces: minutes in int16 and not the UTC marker, non-negative seconds part *)
Definition off_ok (o : option Z) : Prop :=
  match o with
  | None => True
  | Some o => (-32768 <= Z.quot o 60 <= 32767 /\ Z.quot o 60 <> -1 /\ 0 <= Z.rem o 60)%Z
  end.

Definition time_ok (t : gtime) : Prop :=
  (- 2 ^ 63 <= t.(t_sec) < 2 ^ 63)%Z /\ (0 <= t.(t_nsec) < 2 ^ 30)%Z /\ off_ok t.(t_off).

Lemma pow256_8 : (256 ^ N.of_nat 8 = 2 ^ 64)%N. Proof. reflexivity. Qed.

Lemma z_to_u_lt bits z : (0 <= bits)%Z -> (z_to_u bits z < 2 ^ Z.to_N bits)%N.
Proof.
  intros Hb. unfold z_to_u.
  assert (0 < 2 ^ bits)%Z by (apply Z.pow_pos_nonneg; lia).
  pose proof (Z.mod_pos_bound z (2 ^ bits) H).
  apply N2Z.inj_lt. rewrite Z2N.id by lia. rewrite N2Z.inj_pow. rewrite Z2N.id by lia. cbn. lia.
Qed.

Lemma decode_body A B C tail :
  let r := be_fix 8 A ++ be_fix 4 B ++ be_fix 2 C ++ tail in
  firstn 8 r = be_fix 8 A /\ firstn 4 (skipn 8 r) = be_fix 4 B /\ firstn 2 (skipn 12 r) = be_fix 2 C /\
  skipn 14 r = tail /\ List.length r = (14 + List.length tail)%nat.
Proof.
  cbn zeta. repeat split.   (* the fixed-width encoders unfold to explicit cons cells: all five by conversion *)
Qed.

Lemma time_roundtrip t : time_ok t -> exists b, time_marshal t = Some b /\ time_unmarshal b = Some t.
Proof.
  destruct t as [sec ns off]. intros (Hs & Hn & Ho). cbn [t_sec t_nsec t_off] in *.
  assert (ES : u_to_s 64 (bev (be_fix 8 (z_to_u 64 sec))) = sec).
  { rewrite bev_be_fix, pow256_8. rewrite N.mod_small by (apply (z_to_u_lt 64); lia). apply u_to_s_to_u; lia. }
  assert (EN : u_to_s 32 (bev (be_fix 4 (z_to_u 32 ns))) = ns).
  { rewrite bev_be_fix. change (256 ^ N.of_nat 4)%N with (2 ^ 32)%N. rewrite N.mod_small by (apply (z_to_u_lt 32); lia).
    apply u_to_s_to_u; [lia|]. change (2 ^ (32 - 1))%Z with 2147483648%Z. change (2 ^ 30)%Z with 1073741824%Z in Hn. lia. }
  assert (EQ : forall q, (-32768 <= q <= 32767)%Z -> u_to_s 16 (bev (be_fix 2 (z_to_u 16 q))) = q).
  { intros q Hq. rewrite bev_be_fix. change (256 ^ N.of_nat 2)%N with (2 ^ 16)%N. rewrite N.mod_small by (apply (z_to_u_lt 16); lia).
    apply u_to_s_to_u; [lia|]. change (2 ^ (16 - 1))%Z with 32768%Z. lia. }
  assert (NS : (ns <? 0)%Z = false) by (apply Z.ltb_ge; lia).
  assert (NM : (ns mod 2 ^ 30 = ns)%Z) by (apply Z.mod_small; lia).
  unfold time_marshal. cbn [t_sec t_nsec t_off].
  destruct off as [o|].
  - destruct Ho as ((Hq1 & Hq2) & Hq3 & Hr).
    assert (Hr2 : (Z.rem o 60 < 60)%Z) by (pose proof (Z.rem_bound_pos_pos o 60); destruct (Z.neg_nonneg_cases o); [|lia];
      pose proof (Z.rem_nonpos o 60); lia).
    assert (Ho : (o = 60 * Z.quot o 60 + Z.rem o 60)%Z) by (apply Z.quot_rem'; lia).
    replace ((Z.quot o 60 <? -32768) || (Z.quot o 60 =? -1) || (32767 <? Z.quot o 60))%Z%bool with false
      by (symmetry; rewrite !orb_false_iff; repeat split; [apply Z.ltb_ge | apply Z.eqb_neq | apply Z.ltb_ge]; lia).
    destruct (Z.eqb_spec (Z.rem o 60) 0) as [R0|R0].
    + eexists; split; [reflexivity|].
      unfold time_unmarshal. cbn [N.eqb Pos.eqb orb].
      pose proof (decode_body (z_to_u 64 sec) (z_to_u 32 ns) (z_to_u 16 (Z.quot o 60)) []) as D. cbn zeta in D.
      rewrite app_nil_r in D. destruct D as (D1 & D2 & D3 & D4 & D5).
      rewrite D5. cbn [List.length Nat.add Nat.eqb]. rewrite D1, D2, D3, ES, EN, EQ by lia. rewrite NS, NM.
      replace (Z.quot o 60 * 60 + 0)%Z with o by lia.
      destruct (Z.eqb_spec o (-60)) as [E|E]; [exfalso; subst o; cbn in Hq3; lia|]. reflexivity.
    + eexists; split; [reflexivity|].
      unfold time_unmarshal. cbn [N.eqb Pos.eqb orb].
      pose proof (decode_body (z_to_u 64 sec) (z_to_u 32 ns) (z_to_u 16 (Z.quot o 60)) [z_to_u 8 (Z.rem o 60)]) as D. cbn zeta in D.
      destruct D as (D1 & D2 & D3 & D4 & D5).
      rewrite <- !app_assoc. rewrite D5. cbn [List.length Nat.add Nat.eqb]. rewrite D1, D2, D3, ES, EN, EQ by lia. rewrite NS, NM.
      assert (NT : nth 14 (be_fix 8 (z_to_u 64 sec) ++ be_fix 4 (z_to_u 32 ns) ++ be_fix 2 (z_to_u 16 (Z.quot o 60)) ++ [z_to_u 8 (Z.rem o 60)]) 0%N
                   = z_to_u 8 (Z.rem o 60)).
      { rewrite !app_assoc. rewrite app_nth2; rewrite !app_length, !be_fix_length; [|lia]. reflexivity. }
      assert (E8 : Z.of_N (z_to_u 8 (Z.rem o 60)) = Z.rem o 60).
      { unfold z_to_u. rewrite Z.mod_small by (change (2 ^ 8)%Z with 256%Z; lia). apply Z2N.id; lia. }
      rewrite NT, E8.
      replace (Z.quot o 60 * 60 + Z.rem o 60)%Z with o by lia.
      destruct (Z.eqb_spec o (-60)) as [E|E]; [exfalso; subst o; cbn in Hq3; lia|]. reflexivity.
  - eexists; split; [reflexivity|].
    unfold time_unmarshal. cbn [N.eqb Pos.eqb orb].
    pose proof (decode_body (z_to_u 64 sec) (z_to_u 32 ns) (z_to_u 16 (-1)) []) as D. cbn zeta in D.
    rewrite app_nil_r in D. destruct D as (D1 & D2 & D3 & D4 & D5).
    rewrite D5. cbn [List.length Nat.add Nat.eqb]. rewrite D1, D2, D3, ES, EN, EQ by lia. rewrite NS, NM. reflexivity.
Qed.

(* what UnmarshalBinary returns is always in range, except possibly for the zone offset *)
Lemma u_to_s_range bits n : (0 < bits)%Z -> (n < 2 ^ Z.to_N bits)%N -> (- 2 ^ (bits - 1) <= u_to_s bits n < 2 ^ (bits - 1))%Z.
Proof.
  intros Hb Hn. unfold u_to_s.
  assert (P : (2 ^ bits = 2 * 2 ^ (bits - 1))%Z).
  { replace bits with (Z.succ (bits - 1)) at 1 by lia. rewrite Z.pow_succ_r by lia. reflexivity. }
  assert (Hp : (0 < 2 ^ (bits - 1))%Z) by (apply Z.pow_pos_nonneg; lia).
  assert (Hz : (Z.of_N n < 2 ^ bits)%Z).
  { apply N2Z.inj_lt in Hn. rewrite N2Z.inj_pow in Hn. rewrite Z2N.id in Hn by lia. exact Hn. }
  destruct (Z.ltb_spec (Z.of_N n) (2 ^ (bits - 1))); lia.
Qed.


Lemma bytes_ok_firstn l n : bytes_ok l -> bytes_ok (firstn n l).
Proof. intros H. rewrite <- (firstn_skipn n l) in H. apply bytes_ok_app_inv in H. tauto. Qed.

Lemma bytes_ok_skipn l n : bytes_ok l -> bytes_ok (skipn n l).
Proof. intros H. rewrite <- (firstn_skipn n l) in H. apply bytes_ok_app_inv in H. tauto. Qed.

Lemma bev_firstn_bound l k : bytes_ok l -> (bev (firstn k l) < 256 ^ N.of_nat k)%N.
Proof.
  intros H. eapply N.lt_le_trans; [apply bev_bound, bytes_ok_firstn, H|].
  apply N.pow_le_mono_r; [lia|]. pose proof (firstn_le_length k l). lia.
Qed.

Lemma Ok_inj {A} (a b : A) : Ok a = Ok b -> a = b.
Proof. intros H. injection H. auto. Qed.

Lemma Some_inj {A} (a b : A) : Some a = Some b -> a = b.
Proof. intros H. injection H. auto. Qed.

(* whatever UnmarshalBinary accepts has seconds and nanoseconds in range; only the zone offset can be one
   that MarshalBinary does not reproduce *)
Lemma time_unmarshal_range b t : bytes_ok b -> time_unmarshal b = Some t ->
  (- 2 ^ 63 <= t.(t_sec) < 2 ^ 63)%Z /\ (0 <= t.(t_nsec) < 2 ^ 30)%Z.
Proof.
  intros Hb. unfold time_unmarshal. destruct b as [|v r]; [discriminate|].
  assert (Hr : bytes_ok r) by (inversion Hb; assumption).
  destruct ((v =? 1)%N || (v =? 2)%N); [|discriminate].
  destruct (Nat.eqb _ _); [|discriminate].
  intros E. apply Some_inj in E. subst t. cbn [t_sec t_nsec].
  assert (S64 : (- 2 ^ 63 <= u_to_s 64 (bev (firstn 8 r)) < 2 ^ 63)%Z).
  { apply (u_to_s_range 64); [lia|]. change (2 ^ Z.to_N 64)%N with (256 ^ N.of_nat 8)%N. apply bev_firstn_bound, Hr. }
  assert (S32 : (- 2 ^ 31 <= u_to_s 32 (bev (firstn 4 (skipn 8 r))) < 2 ^ 31)%Z).
  { apply (u_to_s_range 32); [lia|]. change (2 ^ Z.to_N 32)%N with (256 ^ N.of_nat 4)%N. apply bev_firstn_bound, bytes_ok_skipn, Hr. }
  split; [|apply Z.mod_pos_bound; reflexivity].
  destruct (Z.ltb_spec (u_to_s 32 (bev (firstn 4 (skipn 8 r)))) 0); [|exact S64].
  set (ns := u_to_s 32 (bev (firstn 4 (skipn 8 r)))) in *.
  assert ((2 ^ 63 - 2 ^ 31) / 2 ^ 30 <= (2 ^ 63 + ns) / 2 ^ 30 <= 2 ^ 63 / 2 ^ 30)%Z
    by (split; apply Z.div_le_mono; lia).
  unfold wall_to_internal.
  change ((2 ^ 63 - 2 ^ 31) / 2 ^ 30)%Z with 8589934590%Z in H0. change (2 ^ 63 / 2 ^ 30)%Z with 8589934592%Z in H0.
  set (q := ((2 ^ 63 + ns) / 2 ^ 30)%Z) in *. change (2 ^ 63)%Z with 9223372036854775808%Z. lia.
Qed.

(* ---------- hashes, signatures, big integers ---------- *)
Definition hash32 (b : bytes) : Prop := List.length b = 32%nat.

Lemma to_hash_id h : hash32 h -> to_hash h = h.
Proof. unfold hash32, to_hash. intros ->. cbn. reflexivity. Qed.

Lemma to_hash_length b : hash32 (to_hash b).
Proof.
  unfold hash32, to_hash, lastn. destruct (Nat.ltb_spec 32 (List.length b)).
  - rewrite skipn_length. lia.
  - rewrite app_length, repeat_length. lia.
Qed.

Lemma big_roundtrip z : (0 <= z)%Z -> big_set (big_bytes z) = z.
Proof. intros H. unfold big_set, big_bytes. rewrite bev_beb. rewrite Z2N.id by lia. lia. Qed.

Lemma big_set_nonneg b : (0 <= big_set b)%Z.
Proof. unfold big_set. lia. Qed.

Lemma ob_nonempty b : ob (nonempty b) = b.
Proof. destruct b; reflexivity. Qed.

Lemma rd_nonempty m b : safe m = true -> rd m (nonempty b) [] = Ok b.
Proof. intros H. destruct b; cbn; [rewrite H|]; reflexivity. Qed.

Lemma map_to_hash_id l : Forall hash32 l -> map to_hash l = l.
Proof. induction 1; cbn; [reflexivity | rewrite to_hash_id, IHForall by assumption; reflexivity]. Qed.

Lemma Forall_map_to_hash l : Forall hash32 (map to_hash l).
Proof. induction l; cbn; constructor; [apply to_hash_length | assumption]. Qed.

Definition pair32 (p : bytes * bytes) : Prop := hash32 (fst p) /\ hash32 (snd p).

Lemma map_txhash_id l : Forall pair32 l ->
  map (fun e => (to_hash (ob e.(ph_Hash)), to_hash (ob e.(ph_SubHash))))
      (map (fun p => mk_pb_txhash (Some (fst p)) (Some (snd p))) l) = l.
Proof.
  induction 1 as [|[a b] l [Ha Hb] _ IH]; cbn in *; [reflexivity|].
  rewrite !to_hash_id, IH by assumption. reflexivity.
Qed.

Lemma Forall_txhash l : Forall pair32 (map (fun e => (to_hash (ob e.(ph_Hash)), to_hash (ob e.(ph_SubHash)))) l).
Proof. induction l; cbn; constructor; [split; apply to_hash_length | assumption]. Qed.

(* ---------- signatures: Sign.Bytes() / BytesToSign ---------- *)
Lemma le_val_app_zeros l k : le_val (l ++ repeat 0%N k) = le_val l.
Proof.
  induction l as [|d l IH]; cbn.
  - induction k; cbn; [reflexivity | rewrite IHk; reflexivity].
  - rewrite IH. reflexivity.
Qed.

Lemma rev_repeat {A} (a : A) k : rev (repeat a k) = repeat a k.
Proof.
  induction k; cbn; [reflexivity|]. rewrite IHk. clear IHk.
  induction k; cbn; [reflexivity | rewrite IHk; reflexivity].
Qed.

Lemma bev_pad32 b : bev (pad32 b) = bev b.
Proof. unfold bev, pad32. rewrite rev_app_distr, rev_repeat. apply le_val_app_zeros. Qed.

Lemma pad32_length n : (n < 2 ^ 256)%N -> List.length (pad32 (beb n)) = 32%nat.
Proof.
  intros H. pose proof (beb_length n 32 H). unfold pad32. rewrite app_length, repeat_length. lia.
Qed.

Lemma sign_bytes_length r s v : (r < 2 ^ 256)%N -> (s < 2 ^ 256)%N -> List.length (sign_bytes (r, s, v)) = 65%nat.
Proof. intros Hr Hs. unfold sign_bytes. rewrite !app_length, !pad32_length by assumption. reflexivity. Qed.

(* the round trip of a signature through its wire image, for all r, s < 2^256 -- in particular when the big-endian
   form of r or s is shorter than 32 bytes (leading zero bytes): each word is LEFT-padded *)
Lemma sign_roundtrip r s v : (r < 2 ^ 256)%N -> (s < 2 ^ 256)%N -> to_sign (sign_bytes (r, s, v)) = Some (r, s, v).
Proof.
  intros Hr Hs. unfold to_sign. rewrite sign_bytes_length by assumption. cbn [Nat.eqb]. unfold sign_bytes.
  pose proof (pad32_length r Hr) as Lr. pose proof (pad32_length s Hs) as Ls.
  rewrite (firstn_len_app _ _ 32 Lr), (skipn_len_app _ _ 32 Lr), (firstn_len_app _ _ 32 Ls).
  rewrite !bev_pad32, !bev_beb.
  rewrite app_assoc. rewrite app_nth2; rewrite app_length, Lr, Ls; [|lia]. reflexivity.
Qed.

(* a right-padded word (the seeded variant) is a different image as soon as r has a leading zero byte: r = 1 *)
Lemma sign_left_pad_matters :
  to_sign (sign_bytes (1, 2, 0)%N) = Some (1, 2, 0)%N /\
  to_sign ((1 :: repeat 0 31) ++ (2 :: repeat 0 31) ++ [0])%N <> Some (1, 2, 0)%N.
Proof. split; [vm_compute; reflexivity | vm_compute; discriminate]. Qed.

Lemma to_sign_range b r s v : bytes_ok b -> to_sign b = Some (r, s, v) -> (r < 2 ^ 256)%N /\ (s < 2 ^ 256)%N.
Proof.
  intros B. unfold to_sign. destruct (Nat.eqb _ _); [|discriminate]. intros E. apply Some_inj in E.
  assert (Er : r = bev (firstn 32 b)) by (apply (f_equal (fun t => fst (fst t))) in E; cbn [fst] in E; symmetry; exact E).
  assert (Es : s = bev (firstn 32 (skipn 32 b))) by (apply (f_equal (fun t => snd (fst t))) in E; cbn [fst snd] in E; symmetry; exact E).
  subst r s. change (2 ^ 256)%N with (256 ^ N.of_nat 32)%N.
  split; [exact (bev_firstn_bound b 32 B) | exact (bev_firstn_bound (skipn 32 b) 32 (bytes_ok_skipn b 32 B))].
Qed.

(* ================= value round trips ================= *)
#[local] Arguments big_bytes : simpl never.
#[local] Arguments big_set : simpl never.
#[local] Arguments to_hash : simpl never.
#[local] Arguments time_marshal : simpl never.
#[local] Arguments time_unmarshal : simpl never.
Section RT.
Variable SubT : Type.
Variable sub_enc : SubT -> bytes.
Variable sub_dec : bytes -> SubT.
Variable sub_nil : SubT.
Variable ReqT : Type.
Variable req_enc : ReqT -> bytes.
Variable req_dec : bytes -> ReqT.
Variable req_nil : ReqT.
Variable ss : list site.
Variable rs : list recv.

Local Notation Tx := (tx SubT).
Local Notation Hdr := (hdr ReqT).
Local Notation tx_body := (tx_of_pb_body SubT sub_dec sub_nil ss).
Local Notation hdr_body := (hdr_of_pb_body ReqT req_dec req_nil ss rs).

(* ---- transactions ---- *)
Definition sign_ok (s : option gsign) : Prop :=
  match s with Some (r, s, _) => (r < 2 ^ 256)%N /\ (s < 2 ^ 256)%N | None => True end.

Definition tx_wf (t : Tx) : Prop :=
  hash32 t.(x_Hash _) /\ hash32 t.(x_SubHash _) /\ sign_ok t.(x_Sign _) /\ sub_dec (sub_enc t.(x_Sub _)) = t.(x_Sub _).

(* what the wire format carries of a transaction: everything but the node-local SocketRequestId *)
Definition tx_wire_view (t : Tx) : Tx :=
  mk_tx SubT t.(x_Source _) t.(x_Target _) t.(x_Type _) t.(x_Time _) t.(x_Data _) t.(x_ExtraData _) t.(x_ExtraDataType _)
        t.(x_Sub _) t.(x_SubHash _) t.(x_Hash _) t.(x_Sign _) t.(x_Nonce _) t.(x_RequestId _) [] t.(x_ChainId _).

Definition tx_opt_safe : bool := safe (mT ss "Target") && safe (mT ss "Data") && safe (mT ss "SocketRequestId").

Lemma tx_roundtrip t : tx_opt_safe = true -> tx_wf t -> tx_body (tx_to_pb SubT sub_enc t) = Ok (tx_wire_view t).
Proof.
  unfold tx_opt_safe. intros H (H1 & H2 & H3 & H4).
  repeat (apply andb_true_iff in H; destruct H as [H ?H]).
  destruct t as [src tgt ty tm dat ed edt sub shash hash sg nonce rid sock cid]; cbn in *. unfold tx_of_pb_body, tx_to_pb, tx_wire_view. cbn.
  rewrite !rd_nonempty by assumption. cbn [bind]. rewrite H0. cbn [bind].
  rewrite ob_nonempty, H4, !to_hash_id by assumption.
  replace (match option_map sign_bytes sg with Some b => if Nat.eqb (List.length b) 0 then None else to_sign b | None => None end) with sg.
  2:{ destruct sg as [[[r s] v]|]; [|reflexivity]. cbn [option_map]. destruct H3 as [Hr Hs].
      rewrite (sign_bytes_length r s v Hr Hs). cbn [Nat.eqb]. rewrite (sign_roundtrip r s v Hr Hs). reflexivity. }
  reflexivity.
Qed.

Lemma tx_of_pb_wf p t : (forall b, sub_dec (sub_enc (sub_dec b)) = sub_dec b) -> sub_dec (sub_enc sub_nil) = sub_nil ->
  bytes_ok (ob p.(p_Sign)) -> tx_body p = Ok t -> tx_wf t.
Proof.
  intros J1 J2 BS. unfold tx_of_pb_body.
  repeat match goal with |- context [rd ?m ?x ?d] => destruct (rd m x d); cbn [bind]; [|discriminate] end.
  intros E. apply Ok_inj in E. subst t. unfold tx_wf. cbn. repeat split; try apply to_hash_length.
  - destruct (p_Sign p) as [b|]; [|exact I]. destruct (Nat.eqb (List.length b) 0); [exact I|]. cbn [ob] in BS.
    destruct (to_sign b) as [[[r s] v]|] eqn:E; [|exact I]. exact (to_sign_range b r s v BS E).
  - destruct (p_SubTransactions p); [apply J1 | apply J2].
Qed.

Lemma tx_wire_view_wf t : tx_wf t -> tx_wf (tx_wire_view t).
Proof. intros H. exact H. Qed.

Lemma tx_wire_view_idem t : tx_wire_view (tx_wire_view t) = tx_wire_view t.
Proof. reflexivity. Qed.

Lemma to_pb_wire_view t : tx_to_pb SubT sub_enc (tx_wire_view t) = tx_to_pb SubT sub_enc t.
Proof. reflexivity. Qed.

Lemma txs_roundtrip l : tx_opt_safe = true -> Forall tx_wf l ->
  txs_of_pb SubT sub_dec sub_nil ss (map (tx_to_pb SubT sub_enc) l) = Ok (map tx_wire_view l).
Proof.
  intros H. unfold txs_of_pb. induction 1 as [|t l Ht _ IH]; cbn; [reflexivity|].
  rewrite (tx_roundtrip t H Ht). cbn [bind]. rewrite IH. reflexivity.
Qed.

(* ---- block headers ---- *)
Definition hdr_wf (h : Hdr) : Prop :=
  hash32 h.(b_Hash _) /\ hash32 h.(b_PreHash _) /\ hash32 h.(b_TxTree _) /\ hash32 h.(b_ReceiptTree _) /\ hash32 h.(b_StateTree _) /\
  time_ok h.(b_PreTime _) /\ time_ok h.(b_CurTime _) /\
  match h.(b_ProveValue _) with Some z => (0 <= z)%Z | None => True end /\
  (exists l, h.(b_Transactions _) = Some l /\ Forall pair32 l) /\
  (exists l, h.(b_EvictedTxs _) = Some l /\ Forall hash32 l) /\
  req_dec (req_enc h.(b_RequestIds _)) = h.(b_RequestIds _).

Lemma hdr_roundtrip h : hdr_wf h -> exists p, hdr_to_pb ReqT req_enc h = Some p /\ hdr_body p = Ok (Some h).
Proof.
  destruct h as [hash height prehash ptm pv qn ctm castor gid sig nonce req txs txtree rtree stree ed rnd ev]. unfold hdr_wf. cbn. intros (H1 & H2 & H3 & H4 & H5 & T1 & T2 & HP & (l1 & -> & L1) & (l2 & -> & L2) & HJ).
  destruct (time_roundtrip _ T1) as (pt & M1 & U1). destruct (time_roundtrip _ T2) as (ct & M2 & U2).
  unfold hdr_to_pb. cbn. rewrite M1, M2. eexists; split; [reflexivity|].
  unfold hdr_of_pb_body. cbn. rewrite U1, U2. cbn. rewrite HJ, map_txhash_id, map_to_hash_id, !to_hash_id by assumption.
  destruct pv as [z|]; [rewrite big_roundtrip by assumption|]; reflexivity.
Qed.

Definition pb_times_ok (p : pb_hdr) : Prop := bytes_ok (ob p.(h_PreTime)) /\ bytes_ok (ob p.(h_CurTime)).

(* every header the parser returns is well-formed, provided its two zone offsets are ones Go's binary time
   form reproduces (the known stdlib gap) *)
Lemma hdr_of_pb_wf p h : (forall b, req_dec (req_enc (req_dec b)) = req_dec b) -> req_dec (req_enc req_nil) = req_nil ->
  pb_times_ok p -> hdr_body p = Ok (Some h) -> off_ok h.(b_PreTime _).(t_off) -> off_ok h.(b_CurTime _).(t_off) -> hdr_wf h.
Proof.
  intros J1 J2 (B1 & B2). unfold hdr_of_pb_body.
  destruct (match h_EvictedTxs p with Some l => Ok (map to_hash l) | None => if safe (recv_mode rs fH "Hashes") then Ok [] else Panic end)
    as [ev|] eqn:EV; cbn [bind]; [|discriminate].
  destruct (time_unmarshal (ob (h_PreTime p))) as [pt|] eqn:U1; [|discriminate].
  destruct (time_unmarshal (ob (h_CurTime p))) as [ct|] eqn:U2; [|discriminate].
  repeat match goal with |- context [rd ?m ?x ?d] => destruct (rd m x d); cbn [bind]; [|discriminate] end.
  intros E. apply Ok_inj, Some_inj in E. subst h. cbn. intros O1 O2.
  pose proof (time_unmarshal_range _ _ B1 U1) as [R1 R1']. pose proof (time_unmarshal_range _ _ B2 U2) as [R2 R2'].
  unfold hdr_wf, time_ok. cbn. repeat split; try apply to_hash_length; try assumption; try lia.
  - destruct (h_ProveValue p); [apply big_set_nonneg | exact I].
  - eexists; split; [reflexivity | apply Forall_txhash].
  - exists ev; split; [reflexivity|]. destruct (h_EvictedTxs p).
    + injection EV as <-. apply Forall_map_to_hash.
    + destruct (safe _); [injection EV as <-; constructor | discriminate].
  - destruct (h_RequestIds p); [apply J1 | apply J2].
Qed.

(* ---- blocks ---- *)
Definition block_wf (b : block SubT ReqT) : Prop :=
  (exists h, b.(c_Header _ _) = Some h /\ hdr_wf h) /\
  Forall tx_wf (match b.(c_Transactions _ _) with Some l => l | None => [] end).

(* a block comes back with its header, and its transactions as a non-nil list in their wire view *)
Definition block_wire_view (b : block SubT ReqT) : block SubT ReqT :=
  mk_block SubT ReqT b.(c_Header _ _) (Some (map tx_wire_view (match b.(c_Transactions _ _) with Some l => l | None => [] end))).

Lemma block_roundtrip b : tx_opt_safe = true -> block_wf b ->
  exists p, block_to_pb SubT sub_enc ReqT req_enc b = Ok p /\
            block_of_pb SubT sub_dec sub_nil ReqT req_dec req_nil ss rs p = Ok (block_wire_view b).
Proof.
  intros S ((h & Eh & Hh) & Ht). destruct b as [hd txs]. cbn in *. subst hd.
  destruct (hdr_roundtrip h Hh) as (p & P1 & P2).
  unfold block_to_pb. cbn. rewrite P1. eexists; split; [reflexivity|].
  unfold block_of_pb, hdr_of_pb. cbn. rewrite P2. cbn [bind]. pose proof (txs_roundtrip _ S Ht) as R. unfold txs_of_pb in R. rewrite R. reflexivity.
Qed.

End RT.

(* ---- groups ---- *)
Section GroupRT.
Variable ss : list site.
Variable rs : list recv.

Definition ghdr_wf (g : ghdr) : Prop := hash32 g.(gh_Hash) /\ hash32 g.(gh_MemberRoot) /\ time_ok g.(gh_BeginTime).

(* the wire carries CreateHeight; Ready/Work/DismissHeight are derived from it again after loading
   (core/groupchain.go) and are not part of the wire format *)
Definition ghdr_wire_view (g : ghdr) : ghdr :=
  mk_ghdr g.(gh_Hash) g.(gh_Parent) g.(gh_PreGroup) g.(gh_CreateBlockHash) g.(gh_BeginTime) g.(gh_MemberRoot)
          g.(gh_CreateHeight) 0 0 0 g.(gh_Extends).

Lemma ghdr_roundtrip g : ghdr_wf g -> ghdr_of_pb_body ss (ghdr_to_pb g) = Ok (ghdr_wire_view g).
Proof.
  destruct g. unfold ghdr_wf. cbn. intros (H1 & H2 & T).
  destruct (time_roundtrip _ T) as (b & M & U).
  unfold ghdr_of_pb_body, ghdr_to_pb, ghdr_wire_view. cbn. rewrite M. cbn. rewrite U, !to_hash_id by assumption. reflexivity.
Qed.

Definition group_wf (g : group) : Prop := exists h, g.(gr_Header) = Some h /\ ghdr_wf h.

Definition group_wire_view (g : group) : group :=
  mk_group (option_map ghdr_wire_view g.(gr_Header)) g.(gr_Id) g.(gr_PubKey) g.(gr_Signature) g.(gr_Members) g.(gr_GroupHeight).

Lemma group_roundtrip g : group_wf g -> exists p, group_to_pb g = Ok p /\ group_of_pb ss rs p = Ok (group_wire_view g).
Proof.
  intros (h & Eh & Hh). destruct g as [hd i pk sg mm ght]. cbn in *. subst hd.
  unfold group_to_pb. cbn [gr_Header gr_Id gr_PubKey gr_Signature gr_Members gr_GroupHeight]. eexists; split; [reflexivity|].
  unfold group_of_pb, ghdr_of_pb. cbn [r_Header r_Id r_PubKey r_Signature r_Members r_GroupHeight].
  rewrite (ghdr_roundtrip h Hh). reflexivity.
Qed.

Lemma ghdr_of_pb_wf p g : bytes_ok (ob p.(g_BeginTime)) -> ghdr_of_pb_body ss p = Ok g -> off_ok g.(gh_BeginTime).(t_off) -> ghdr_wf g.
Proof.
  intros B. unfold ghdr_of_pb_body.
  repeat match goal with |- context [rd ?m ?x ?d] => destruct (rd m x d); cbn [bind]; [|discriminate] end.
  intros E. apply Ok_inj in E. subst g. cbn. intros O. unfold ghdr_wf. cbn. repeat split; try apply to_hash_length.
  all: destruct (time_unmarshal (ob (g_BeginTime p))) as [t|] eqn:U; cbn in *;
    try (pose proof (time_unmarshal_range _ _ B U)); try lia; try assumption; try tauto.
Qed.

End GroupRT.

(* ---------- the zone-offset gap of Go's binary time form, as kernel-evaluated facts ---------- *)
(* version 2, offset minutes -56, seconds byte 15: UnmarshalBinary yields offset -3345 s; MarshalBinary of that
   value writes minutes -55 / seconds byte 0xd3, which reads back as -3089 s: no fixed point *)
Definition hostile_time_bytes : bytes := [2;0;0;0;14;119;145;247;4;0;0;0;0;255;200;15]%N.

Lemma time_fixed_point_gap :
  let t := mk_time 62135596804 0 (Some (-3345)%Z) in
  let b' := [2;0;0;0;14;119;145;247;4;0;0;0;0;255;201;211]%N in
  time_unmarshal hostile_time_bytes = Some t /\ time_marshal t = Some b' /\
  time_unmarshal b' = Some (mk_time 62135596804 0 (Some (-3089)%Z)).
Proof. vm_compute. repeat split; reflexivity. Qed.

(* an in-memory time in a zone 30 s west of Greenwich is written as version 2 / seconds byte 0xe2 and read back
   as +226 s *)
Lemma time_roundtrip_gap :
  let b := [2;0;0;0;14;220;229;232;0;0;0;0;0;0;0;226]%N in
  time_marshal (mk_time 63835596800 0 (Some (-30)%Z)) = Some b /\
  time_unmarshal b = Some (mk_time 63835596800 0 (Some 226%Z)).
Proof. vm_compute. split; reflexivity. Qed.
