(* C09 -- assembly is inverse to the marshaler's field walk, and what the marshaler emits conforms to the schema:
   together with WireProofs.dec_enc_occs this gives proto.Unmarshal (proto.Marshal p) = p for the C09 messages. *)
From Coq Require Import List NArith ZArith String Bool Lia Znumtheory.
From V.Base Require Import Hex BigEndian.
From V.C09 Require Import Modes Gen Model Wire WireProofs Assemble Roundtrip.
Import ListNotations.
Local Open Scope string_scope.
Local Open Scope list_scope.

(* ---------- generic facts about [vals] over the marshaler's output ---------- *)
Lemma vals_app a b n : vals (a ++ b) n = vals a n ++ vals b n.
Proof. unfold vals. rewrite filter_app, map_app. reflexivity. Qed.

Lemma vals_group k l n : vals (map (pair k) l) n = if N.eqb k n then l else [].
Proof.
  unfold vals. induction l as [|v l IH]; cbn; [destruct (N.eqb k n); reflexivity|].
  destruct (N.eqb k n) eqn:E; cbn; rewrite IH; reflexivity.
Qed.

Lemma vals_to_occs flds get n :
  vals (to_occs flds get) n = flat_map (fun fd => if N.eqb fd.(fd_num) n then get fd.(fd_name) else []) flds.
Proof.
  unfold to_occs. induction flds as [|fd r IH]; cbn [flat_map]; [reflexivity|].
  rewrite vals_app, vals_group, IH. reflexivity.
Qed.

Lemma all_msgs_map {A} (f : A -> occs) l :
  flat_map (fun v => match v with DMsg i => [i] | _ => [] end) (map (fun e => DMsg (f e)) l) = map f l.
Proof. induction l; cbn; [reflexivity | rewrite IHl; reflexivity]. Qed.

Lemma all_bytes_map l : flat_map (fun v => match v with DBytes b => [b] | _ => [] end) (map DBytes l) = l.
Proof. induction l; cbn; [reflexivity | rewrite IHl; reflexivity]. Qed.

(* ---------- int32 through uint64 ---------- *)
Lemma i32_roundtrip z : (- 2 ^ 31 <= z < 2 ^ 31)%Z -> i32 (z_to_u 64 z) = z.
Proof.
  intros H. unfold i32.
  assert (E : (z_to_u 64 z mod 2 ^ 32)%N = z_to_u 32 z).
  { unfold z_to_u. change (2 ^ 32)%N with (Z.to_N (2 ^ 32)).
    rewrite <- Z2N.inj_mod by (try apply Z.mod_pos_bound; lia).
    f_equal. symmetry. apply Zmod_div_mod; try lia. exists (2 ^ 32)%Z. reflexivity. }
  rewrite E. apply u_to_s_to_u; lia.
Qed.

(* ---------- sizes: everything fits Go's 64-bit lengths and integer types ---------- *)
Definition bok (x : option bytes) : Prop := match x with Some b => (N.of_nat (List.length b) < 2 ^ 64)%N | None => True end.
Definition nok (x : option N) : Prop := match x with Some n => (n < 2 ^ 64)%N | None => True end.
Definition zok (x : option Z) : Prop := match x with Some z => (- 2 ^ 31 <= z < 2 ^ 31)%Z | None => True end.
Definition sized (l : occs) : Prop := (N.of_nat (List.length (enc_occs l)) < 2 ^ 64)%N.

Definition pb_tx_ok (p : pb_tx) : Prop :=
  bok p.(p_Data) /\ nok p.(p_Nonce) /\ bok p.(p_Source) /\ bok p.(p_Target) /\ zok p.(p_Type) /\ bok p.(p_Hash) /\
  bok p.(p_ExtraData) /\ zok p.(p_ExtraDataType) /\ bok p.(p_Sign) /\ bok p.(p_Time) /\ nok p.(p_RequestId) /\
  bok p.(p_SocketRequestId) /\ bok p.(p_SubTransactions) /\ bok p.(p_SubHash) /\ bok p.(p_ChainId).

Local Notation sc := Gen.msgs.

Ltac grp_b := match goal with |- conf _ _ (map (pair _) (ob2d ?d)) =>
  destruct d; cbn [ob2d map]; [eapply conf_bytes; [reflexivity | cbn; tauto | unfold num_ok; lia | assumption | constructor] | constructor] end.
Ltac grp_n := match goal with |- conf _ _ (map (pair _) (on2d ?d)) =>
  destruct d; cbn [on2d map]; [eapply conf_var; [reflexivity | reflexivity | unfold num_ok; lia | assumption | constructor] | constructor] end.
Ltac grp_z := match goal with |- conf _ _ (map (pair _) (oz2d ?d)) =>
  destruct d; cbn [oz2d map]; [eapply conf_var; [reflexivity | reflexivity | unfold num_ok; lia | apply (z_to_u_lt 64); lia | constructor] | constructor] end.

Lemma mk_pb_tx_eq a0 a1 a2 a3 a4 a5 a6 a7 a8 a9 a10 a11 a12 a13 a14 b0 b1 b2 b3 b4 b5 b6 b7 b8 b9 b10 b11 b12 b13 b14 : a0 = b0 -> a1 = b1 -> a2 = b2 -> a3 = b3 -> a4 = b4 -> a5 = b5 -> a6 = b6 -> a7 = b7 -> a8 = b8 -> a9 = b9 -> a10 = b10 -> a11 = b11 -> a12 = b12 -> a13 = b13 -> a14 = b14 -> mk_pb_tx a0 a1 a2 a3 a4 a5 a6 a7 a8 a9 a10 a11 a12 a13 a14 = mk_pb_tx b0 b1 b2 b3 b4 b5 b6 b7 b8 b9 b10 b11 b12 b13 b14.
Proof. intros; subst; reflexivity. Qed.
Lemma mk_pb_hdr_eq a0 a1 a2 a3 a4 a5 a6 a7 a8 a9 a10 a11 a12 a13 a14 a15 a16 a17 a18 b0 b1 b2 b3 b4 b5 b6 b7 b8 b9 b10 b11 b12 b13 b14 b15 b16 b17 b18 : a0 = b0 -> a1 = b1 -> a2 = b2 -> a3 = b3 -> a4 = b4 -> a5 = b5 -> a6 = b6 -> a7 = b7 -> a8 = b8 -> a9 = b9 -> a10 = b10 -> a11 = b11 -> a12 = b12 -> a13 = b13 -> a14 = b14 -> a15 = b15 -> a16 = b16 -> a17 = b17 -> a18 = b18 -> mk_pb_hdr a0 a1 a2 a3 a4 a5 a6 a7 a8 a9 a10 a11 a12 a13 a14 a15 a16 a17 a18 = mk_pb_hdr b0 b1 b2 b3 b4 b5 b6 b7 b8 b9 b10 b11 b12 b13 b14 b15 b16 b17 b18.
Proof. intros; subst; reflexivity. Qed.
Lemma mk_pb_ghdr_eq a0 a1 a2 a3 a4 a5 a6 a7 b0 b1 b2 b3 b4 b5 b6 b7 : a0 = b0 -> a1 = b1 -> a2 = b2 -> a3 = b3 -> a4 = b4 -> a5 = b5 -> a6 = b6 -> a7 = b7 -> mk_pb_ghdr a0 a1 a2 a3 a4 a5 a6 a7 = mk_pb_ghdr b0 b1 b2 b3 b4 b5 b6 b7.
Proof. intros; subst; reflexivity. Qed.
Lemma mk_pb_group_eq a0 a1 a2 a3 a4 a5 b0 b1 b2 b3 b4 b5 : a0 = b0 -> a1 = b1 -> a2 = b2 -> a3 = b3 -> a4 = b4 -> a5 = b5 -> mk_pb_group a0 a1 a2 a3 a4 a5 = mk_pb_group b0 b1 b2 b3 b4 b5.
Proof. intros; subst; reflexivity. Qed.
Lemma mk_pb_block_eq a0 a1 b0 b1 : a0 = b0 -> a1 = b1 -> mk_pb_block a0 a1 = mk_pb_block b0 b1.
Proof. intros; subst; reflexivity. Qed.
Lemma mk_pb_txhash_eq a0 a1 b0 b1 : a0 = b0 -> a1 = b1 -> mk_pb_txhash a0 a1 = mk_pb_txhash b0 b1.
Proof. intros; subst; reflexivity. Qed.

(* ---- Transaction ---- *)
Lemma tx_conf p : pb_tx_ok p -> conf sc "Transaction" (tx_occs sc p).
Proof.
  destruct p. intros H. unfold pb_tx_ok in H. cbn -[N.pow Z.pow] in H. decompose [and] H. clear H.
  unfold tx_occs, to_occs. cbn -[map ob2d on2d oz2d].
  repeat (apply conf_app; [first [grp_b | grp_n | grp_z]|]). constructor.
Qed.

Ltac fld_tac :=
  unfold last_bytes, last_var, all_bytes, all_msgs, merged;
  rewrite vals_to_occs; cbn -[N.pow Z.pow i32 d_i32];
  repeat match goal with
         | |- context [ob2d ?d] => is_var d; destruct d
         | |- context [on2d ?d] => is_var d; destruct d
         | |- context [oz2d ?d] => is_var d; destruct d
         end;
  cbn -[N.pow Z.pow i32 d_i32]; try reflexivity.

Lemma tx_of_occs p : pb_tx_ok p -> tx_of sc (tx_occs sc p) = p.
Proof.
  destruct p. intros H. unfold pb_tx_ok in H. cbn -[N.pow Z.pow] in H. decompose [and] H. clear H.
  unfold tx_of, tx_occs. cbv zeta. apply mk_pb_tx_eq; fld_tac.
  all: unfold d_i32; cbn -[N.pow Z.pow i32 z_to_u]; rewrite i32_roundtrip by assumption; reflexivity.
Qed.

(* ---- helpers for repeated / embedded message groups ---- *)
Lemma conf_repmsg_group {A} m k fd sub (f : A -> occs) l :
  find_fd (msg_fields sc m) k = Some fd -> (fd.(fd_kind) = FMsg sub \/ fd.(fd_kind) = FRepMsg sub) -> num_ok k ->
  Forall (fun e => conf sc sub (f e) /\ sized (f e)) l ->
  conf sc m (map (pair k) (map (fun e => DMsg (f e)) l)).
Proof.
  intros F K NO H. induction H as [|e l [C S] _ IH]; cbn [map]; [constructor|].
  eapply conf_msg; eauto.
Qed.

Lemma conf_repbytes_group m k fd l :
  find_fd (msg_fields sc m) k = Some fd -> fd.(fd_kind) = FRepBytes -> num_ok k ->
  Forall (fun b => (N.of_nat (List.length b) < 2 ^ 64)%N) l ->
  conf sc m (map (pair k) (map DBytes l)).
Proof.
  intros F K NO H. induction H as [|e l S _ IH]; cbn [map]; [constructor|].
  eapply conf_bytes; eauto.
Qed.

Lemma map_id_Forall {A} (f : A -> A) l : Forall (fun e => f e = e) l -> map f l = l.
Proof. induction 1; cbn; congruence. Qed.

Ltac simp := cbn -[N.pow Z.pow i32 d_i32 z_to_u tx_occs tx_of txhash_occs txhash_of hashes_occs hashes_of hdr_occs hdr_of
                   ghdr_occs ghdr_of map ob2d on2d oz2d].

Ltac fld2 :=
  unfold merged; unfold last_bytes, last_var, all_bytes, all_msgs;
  rewrite vals_to_occs; simp;
  repeat match goal with
         | |- context [ob2d ?d] => is_var d; destruct d
         | |- context [on2d ?d] => is_var d; destruct d
         | |- context [oz2d ?d] => is_var d; destruct d
         end;
  cbn -[N.pow Z.pow i32 d_i32 z_to_u tx_occs tx_of txhash_occs txhash_of hashes_occs hashes_of hdr_occs hdr_of ghdr_occs ghdr_of];
  try reflexivity.

(* ---- TransactionHash / Hashes ---- *)
Definition pb_txhash_ok (e : pb_txhash) : Prop := bok e.(ph_Hash) /\ bok e.(ph_SubHash).

Lemma txhash_conf e : pb_txhash_ok e -> conf sc "TransactionHash" (txhash_occs sc e).
Proof.
  destruct e. intros H. unfold pb_txhash_ok in H. cbn -[N.pow] in H. decompose [and] H. clear H.
  unfold txhash_occs, to_occs. cbn -[map ob2d].
  repeat (apply conf_app; [grp_b|]). constructor.
Qed.

Lemma txhash_of_occs e : txhash_of sc (txhash_occs sc e) = e.
Proof. destruct e. unfold txhash_of, txhash_occs. apply mk_pb_txhash_eq; fld2. Qed.

Definition hashes_ok (h : list bytes) : Prop := Forall (fun b => (N.of_nat (List.length b) < 2 ^ 64)%N) h.

Lemma hashes_conf h : hashes_ok h -> conf sc "Hashes" (hashes_occs sc h).
Proof.
  intros H. unfold hashes_occs, to_occs. cbn -[map]. apply conf_app; [|constructor].
  eapply conf_repbytes_group; [reflexivity | reflexivity | unfold num_ok; lia | exact H].
Qed.

Lemma hashes_of_occs h : hashes_of sc (hashes_occs sc h) = h.
Proof.
  unfold hashes_of, hashes_occs, all_bytes. rewrite vals_to_occs. cbn -[map]. rewrite app_nil_r. apply all_bytes_map.
Qed.

(* ---- BlockHeader ---- *)
Definition pb_hdr_ok (p : pb_hdr) : Prop :=
  bok p.(h_Hash) /\ nok p.(h_Height) /\ bok p.(h_PreHash) /\ bok p.(h_PreTime) /\ bok p.(h_ProveValue) /\ nok p.(h_TotalQN) /\
  bok p.(h_CurTime) /\ bok p.(h_Castor) /\ bok p.(h_GroupId) /\ bok p.(h_Signature) /\ nok p.(h_Nonce) /\
  Forall (fun e => pb_txhash_ok e /\ sized (txhash_occs sc e)) p.(h_Transactions) /\
  bok p.(h_TxTree) /\ bok p.(h_ReceiptTree) /\ bok p.(h_StateTree) /\ bok p.(h_ExtraData) /\ bok p.(h_Random) /\
  match p.(h_EvictedTxs) with Some h => hashes_ok h /\ sized (hashes_occs sc h) | None => True end /\
  bok p.(h_RequestIds).

Lemma hdr_conf p : pb_hdr_ok p -> conf sc "BlockHeader" (hdr_occs sc p).
Proof.
  destruct p. intros H. unfold pb_hdr_ok in H. cbn -[N.pow txhash_occs hashes_occs] in H. decompose [and] H. clear H.
  unfold hdr_occs, to_occs. cbn -[map ob2d on2d oz2d txhash_occs hashes_occs].
  repeat (apply conf_app; [first [grp_b | grp_n | idtac]|]); try constructor.
  - eapply conf_repmsg_group; [reflexivity | right; reflexivity | unfold num_ok; lia |].
    eapply Forall_impl; [|eassumption]. cbn. intros e [A B]. split; [apply txhash_conf; exact A | exact B].
  - destruct h_EvictedTxs as [h|]; [|constructor]. cbn [map]. destruct H17 as [A B].
    eapply conf_msg; [reflexivity | left; reflexivity | unfold num_ok; lia | exact B | apply hashes_conf; exact A | constructor].
Qed.

Lemma hdr_of_occs p : hdr_of sc (hdr_occs sc p) = p.
Proof.
  destruct p. unfold hdr_of, hdr_occs. cbv zeta. apply mk_pb_hdr_eq; fld2.
  - rewrite app_nil_r, all_msgs_map, map_map. apply map_id_Forall. apply Forall_forall. intros e _. apply txhash_of_occs.
  - destruct h_EvictedTxs as [h|]; cbn -[hashes_occs hashes_of]; [|reflexivity]. rewrite app_nil_r, hashes_of_occs. reflexivity.
Qed.

(* ---- Block, TransactionSlice ---- *)
Definition pb_txs_ok (l : list pb_tx) : Prop := Forall (fun t => pb_tx_ok t /\ sized (tx_occs sc t)) l.

Definition pb_block_ok (p : pb_block) : Prop :=
  match p.(k_Header) with Some h => pb_hdr_ok h /\ sized (hdr_occs sc h) | None => True end /\ pb_txs_ok p.(k_Transactions).

Lemma txs_group_conf m k fd l : find_fd (msg_fields sc m) k = Some fd -> fd.(fd_kind) = FRepMsg "Transaction" -> num_ok k ->
  pb_txs_ok l -> conf sc m (map (pair k) (map (fun t => DMsg (tx_occs sc t)) l)).
Proof.
  intros F K NO H. eapply conf_repmsg_group; [exact F | right; exact K | exact NO |].
  eapply Forall_impl; [|exact H]. cbn. intros t [A B]. split; [apply tx_conf; exact A | exact B].
Qed.

Lemma txs_map_of l : pb_txs_ok l -> map (fun t => tx_of sc (tx_occs sc t)) l = l.
Proof. intros H. apply map_id_Forall. eapply Forall_impl; [|exact H]. cbn. intros t [A _]. apply tx_of_occs; exact A. Qed.

Lemma block_conf p : pb_block_ok p -> conf sc "Block" (block_occs sc p).
Proof.
  destruct p as [hd txs]. intros [H1 H2]. cbn [k_Header k_Transactions] in *.
  unfold block_occs, to_occs. cbn -[map hdr_occs tx_occs].
  apply conf_app; [|apply conf_app; [|constructor]].
  - destruct hd as [h|]; [|constructor]. cbn [map]. destruct H1 as [A B].
    eapply conf_msg; [reflexivity | left; reflexivity | unfold num_ok; lia | exact B | apply hdr_conf; exact A | constructor].
  - eapply txs_group_conf; [reflexivity | reflexivity | unfold num_ok; lia | exact H2].
Qed.

Lemma block_of_occs p : pb_block_ok p -> block_of sc (block_occs sc p) = p.
Proof.
  destruct p as [hd txs]. intros [H1 H2]. cbn [k_Header k_Transactions] in *.
  unfold block_of, block_occs. apply mk_pb_block_eq; unfold merged, all_msgs; rewrite vals_to_occs; simp.
  - destruct hd as [h|]; cbn -[hdr_occs hdr_of]; [|reflexivity]. rewrite app_nil_r, hdr_of_occs. reflexivity.
  - rewrite app_nil_r, all_msgs_map, map_map. apply txs_map_of; exact H2.
Qed.

Lemma txs_conf l : pb_txs_ok l -> conf sc "TransactionSlice" (txs_occs sc l).
Proof.
  intros H. unfold txs_occs, to_occs. cbn -[map tx_occs]. apply conf_app; [|constructor].
  eapply txs_group_conf; [reflexivity | reflexivity | unfold num_ok; lia | exact H].
Qed.

Lemma txs_of_occs l : pb_txs_ok l -> txs_of sc (txs_occs sc l) = l.
Proof.
  intros H. unfold txs_of, txs_occs, all_msgs. rewrite vals_to_occs. cbn -[map tx_occs tx_of].
  rewrite app_nil_r, all_msgs_map, map_map. apply txs_map_of; exact H.
Qed.

(* ---- GroupHeader, Group ---- *)
Definition pb_ghdr_ok (p : pb_ghdr) : Prop :=
  bok p.(g_Hash) /\ bok p.(g_Parent) /\ bok p.(g_PreGroup) /\ bok p.(g_CreateBlockHash) /\ bok p.(g_BeginTime) /\
  bok p.(g_MemberRoot) /\ nok p.(g_CreateHeight) /\ bok p.(g_Extends).

Lemma ghdr_conf p : pb_ghdr_ok p -> conf sc "GroupHeader" (ghdr_occs sc p).
Proof.
  destruct p. intros H. unfold pb_ghdr_ok in H. cbn -[N.pow] in H. decompose [and] H. clear H.
  unfold ghdr_occs, to_occs. cbn -[map ob2d on2d].
  repeat (apply conf_app; [first [grp_b | grp_n]|]). constructor.
Qed.

Lemma ghdr_of_occs p : ghdr_of sc (ghdr_occs sc p) = p.
Proof. destruct p. unfold ghdr_of, ghdr_occs. cbv zeta. apply mk_pb_ghdr_eq; fld2. Qed.

Definition pb_group_ok (p : pb_group) : Prop :=
  match p.(r_Header) with Some h => pb_ghdr_ok h /\ sized (ghdr_occs sc h) | None => True end /\
  bok p.(r_Id) /\ bok p.(r_PubKey) /\ bok p.(r_Signature) /\ hashes_ok p.(r_Members) /\ nok p.(r_GroupHeight).

Lemma group_conf p : pb_group_ok p -> conf sc "Group" (group_occs sc p).
Proof.
  destruct p as [hd i pk sg mm gh]. intros H. unfold pb_group_ok in H. cbn -[N.pow ghdr_occs] in H. decompose [and] H. clear H.
  unfold group_occs, to_occs. cbn -[map ob2d on2d ghdr_occs].
  repeat (apply conf_app; [first [grp_b | grp_n | idtac]|]); try constructor.
  - destruct hd as [h|]; [|constructor]. cbn [map]. destruct H0 as [A B].
    eapply conf_msg; [reflexivity | left; reflexivity | unfold num_ok; lia | exact B | apply ghdr_conf; exact A | constructor].
  - eapply conf_repbytes_group; [reflexivity | reflexivity | unfold num_ok; lia | assumption].
Qed.

Lemma group_of_occs p : group_of sc (group_occs sc p) = p.
Proof.
  destruct p as [hd i pk sg mm gh]. unfold group_of, group_occs. cbv zeta. apply mk_pb_group_eq; fld2.
  - destruct hd as [h|]; cbn -[ghdr_occs ghdr_of]; [|reflexivity]. rewrite app_nil_r, ghdr_of_occs. reflexivity.
  - rewrite app_nil_r. apply all_bytes_map.
Qed.
