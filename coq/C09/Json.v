(* C09 -- the preimage of BlockHeader.GenHash (json.Marshal of the unexported `header` struct of
   src/middleware/types/core.go) as far as the codec can influence it: field order and the null / [] / value
   distinction are concrete, the leaf encoders (numbers, hashes as hex text, RFC 3339 times, base64, big ints) are
   parameters.  What is proved here: the only drift a serialise/parse pass can cause in the preimage of an
   in-memory header with reproducible times is nil -> empty of Transactions / EvictedTxs (null -> []). *)
From Coq Require Import List NArith ZArith String Ascii Bool Lia.
From V.Base Require Import Hex BigEndian.
From V.C09 Require Import Modes Model Proofs Roundtrip.
Import ListNotations.

Fixpoint sb (s : string) : bytes :=
  match s with EmptyString => [] | String a r => N_of_ascii a :: sb r end.

Section JsonHdr.
Variable ReqT : Type.
Variable req_enc : ReqT -> bytes.      (* json.Marshal of the request-id map: embedded verbatim *)
Variable req_dec : bytes -> ReqT.
Variable req_nil : ReqT.
Variable j_num : N -> bytes.
Variable j_hash : bytes -> bytes.      (* "0x..." *)
Variable j_time : gtime -> bytes.
Variable j_big : Z -> bytes.
Variable j_b64 : bytes -> bytes.       (* "...." *)
Variable ss : list site.
Variable rs : list recv.

Definition j_null : bytes := sb "null".
Definition key (k : string) : bytes := [34%N] ++ sb k ++ [34; 58]%N.
Definition j_obytes (b : obytes) : bytes := match b with None => j_null | Some b => j_b64 b end.
Fixpoint join (l : list bytes) : bytes :=
  match l with [] => [] | [x] => x | x :: r => x ++ [44%N] ++ join r end.
Definition j_list {A} (f : A -> bytes) (l : option (list A)) : bytes :=
  match l with None => j_null | Some l => [91%N] ++ join (map f l) ++ [93%N] end.
Definition j_pair (p : bytes * bytes) : bytes := [91%N] ++ j_hash (fst p) ++ [44%N] ++ j_hash (snd p) ++ [93%N].

Local Notation Hdr := (hdr ReqT).

(* fields before Transactions: Height PreHash PreTime ProveValue TotalQN CurTime Castor GroupId Nonce RequestId *)
Definition pre_tx (h : Hdr) : bytes :=
  [123%N] ++ key "Height" ++ j_num h.(b_Height _) ++ [44%N] ++ key "PreHash" ++ j_hash h.(b_PreHash _) ++ [44%N] ++
  key "PreTime" ++ j_time h.(b_PreTime _) ++ [44%N] ++
  key "ProveValue" ++ (match h.(b_ProveValue _) with Some z => j_big z | None => j_null end) ++ [44%N] ++
  key "TotalQN" ++ j_num h.(b_TotalQN _) ++ [44%N] ++ key "CurTime" ++ j_time h.(b_CurTime _) ++ [44%N] ++
  key "Castor" ++ j_obytes h.(b_Castor _) ++ [44%N] ++ key "GroupId" ++ j_null ++ [44%N] ++
  key "Nonce" ++ j_num h.(b_Nonce _) ++ [44%N] ++ key "RequestId" ++ req_enc h.(b_RequestIds _) ++ [44%N] ++ key "Transactions".

(* fields between Transactions and EvictedTxs: TxTree ReceiptTree StateTree ExtraData ProveRoot *)
Definition mid (h : Hdr) : bytes :=
  [44%N] ++ key "TxTree" ++ j_hash h.(b_TxTree _) ++ [44%N] ++ key "ReceiptTree" ++ j_hash h.(b_ReceiptTree _) ++ [44%N] ++
  key "StateTree" ++ j_hash h.(b_StateTree _) ++ [44%N] ++ key "ExtraData" ++ j_obytes h.(b_ExtraData _) ++ [44%N] ++
  key "ProveRoot" ++ j_hash (repeat 0%N 32) ++ [44%N] ++ key "EvictedTxs".

Definition json_hdr (h : Hdr) : bytes :=
  pre_tx h ++ j_list j_pair h.(b_Transactions _) ++ mid h ++ j_list j_hash h.(b_EvictedTxs _) ++ [125%N].

(* ---- what one serialise/parse pass does to an arbitrary in-memory header ---- *)
Definition olist {A} (l : option (list A)) : list A := match l with Some l => l | None => [] end.

Definition hdr_wf_mem (h : Hdr) : Prop :=
  hash32 h.(b_Hash _) /\ hash32 h.(b_PreHash _) /\ hash32 h.(b_TxTree _) /\ hash32 h.(b_ReceiptTree _) /\ hash32 h.(b_StateTree _) /\
  time_ok h.(b_PreTime _) /\ time_ok h.(b_CurTime _) /\
  match h.(b_ProveValue _) with Some z => (0 <= z)%Z | None => True end /\
  Forall pair32 (olist h.(b_Transactions _)) /\ Forall hash32 (olist h.(b_EvictedTxs _)) /\
  req_dec (req_enc h.(b_RequestIds _)) = h.(b_RequestIds _).

Definition hdr_norm (h : Hdr) : Hdr :=
  mk_hdr ReqT h.(b_Hash _) h.(b_Height _) h.(b_PreHash _) h.(b_PreTime _) h.(b_ProveValue _) h.(b_TotalQN _) h.(b_CurTime _)
         h.(b_Castor _) h.(b_GroupId _) h.(b_Signature _) h.(b_Nonce _) h.(b_RequestIds _) (Some (olist h.(b_Transactions _)))
         h.(b_TxTree _) h.(b_ReceiptTree _) h.(b_StateTree _) h.(b_ExtraData _) h.(b_Random _) (Some (olist h.(b_EvictedTxs _))).

#[local] Arguments big_bytes : simpl never.
#[local] Arguments big_set : simpl never.
#[local] Arguments to_hash : simpl never.
#[local] Arguments time_marshal : simpl never.
#[local] Arguments time_unmarshal : simpl never.

Lemma hdr_pass h : hdr_wf_mem h ->
  exists p, hdr_to_pb ReqT req_enc h = Some p /\ hdr_of_pb_body ReqT req_dec req_nil ss rs p = Ok (Some (hdr_norm h)).
Proof.
  destruct h as [hash height prehash ptm pv qn ctm castor gid sig nonce req txs txtree rtree stree ed rnd ev].
  unfold hdr_wf_mem, hdr_norm. cbn. intros (H1 & H2 & H3 & H4 & H5 & T1 & T2 & HP & L1 & L2 & HJ).
  destruct (time_roundtrip _ T1) as (pt & M1 & U1). destruct (time_roundtrip _ T2) as (ct & M2 & U2).
  unfold hdr_to_pb. cbn. rewrite M1, M2. eexists; split; [reflexivity|].
  unfold hdr_of_pb_body. cbn. rewrite U1, U2. cbn.
  replace (match txs with Some l => l | None => [] end) with (olist txs) by reflexivity.
  replace (match ev with Some l => l | None => [] end) with (olist ev) by reflexivity.
  rewrite HJ, map_txhash_id, map_to_hash_id, !to_hash_id by assumption.
  destruct pv as [z|]; [rewrite big_roundtrip by assumption|]; reflexivity.
Qed.

(* the preimage is unchanged when both lists are non-nil ... *)
Lemma json_hdr_stable h : (exists l, h.(b_Transactions _) = Some l) -> (exists l, h.(b_EvictedTxs _) = Some l) ->
  json_hdr (hdr_norm h) = json_hdr h.
Proof.
  destruct h as [hash height prehash ptm pv qn ctm castor gid sig nonce req txs txtree rtree stree ed rnd ev].
  cbn. intros (l1 & ->) (l2 & ->). reflexivity.
Qed.

(* ... and changes (null becomes []) as soon as one of them is nil: such a header does not keep its GenHash
   preimage across the codec, whatever the leaf encoders are *)
Lemma json_hdr_drift h : h.(b_Transactions _) = None \/ h.(b_EvictedTxs _) = None -> json_hdr (hdr_norm h) <> json_hdr h.
Proof.
  destruct h as [hash height prehash ptm pv qn ctm castor gid sig nonce req txs txtree rtree stree ed rnd ev].
  cbn [b_Transactions b_EvictedTxs]. unfold json_hdr, hdr_norm.
  cbn [b_Transactions b_EvictedTxs].
  change (pre_tx (mk_hdr ReqT hash height prehash ptm pv qn ctm castor gid sig nonce req (Some (olist txs)) txtree rtree stree ed rnd (Some (olist ev))))
    with (pre_tx (mk_hdr ReqT hash height prehash ptm pv qn ctm castor gid sig nonce req txs txtree rtree stree ed rnd ev)).
  change (mid (mk_hdr ReqT hash height prehash ptm pv qn ctm castor gid sig nonce req (Some (olist txs)) txtree rtree stree ed rnd (Some (olist ev))))
    with (mid (mk_hdr ReqT hash height prehash ptm pv qn ctm castor gid sig nonce req txs txtree rtree stree ed rnd ev)).
  set (P := pre_tx _). set (M := mid _).
  destruct txs as [l1|].
  - intros [E|E]; [discriminate|]. subst ev. intros E.
    apply app_inv_head in E. cbn [olist] in E. apply app_inv_head in E. apply app_inv_head in E.
    cbn in E. discriminate.
  - intros _ E. apply app_inv_head in E. cbn in E. discriminate.
Qed.

End JsonHdr.
