(* C02 proofs, part 1: list-level facts (key prefixes, valid keys, 17-slot arrays). *)
From Coq Require Import List Sorted Arith NArith Lia Bool.
From V.Base Require Import Hex.
From V.C02 Require Import Model.
Import ListNotations.
Local Open Scope N_scope.

(* ---------- decidable equality of nibble lists ---------- *)
Lemma keys_eqb_refl a : bytes_eqb a a = true.
Proof. apply bytes_eqb_eq; reflexivity. Qed.

Lemma keys_eq_dec (a b : list N) : {a = b} + {a <> b}.
Proof. apply list_eq_dec, N.eq_dec. Qed.

Lemma if_app_head {A} p r ra (a b : A) :
  (if keys_eq_dec (p ++ r) (p ++ ra) then a else b) = (if keys_eq_dec r ra then a else b).
Proof.
  destruct (keys_eq_dec r ra) as [E1|Hne]; destruct (keys_eq_dec (p ++ r) (p ++ ra)) as [E|Hne']; auto.
  - congruence.
  - apply app_inv_head in E. congruence.
Qed.

Lemma if_cons_head {A} x r ra (a b : A) :
  (if keys_eq_dec (x :: r) (x :: ra) then a else b) = (if keys_eq_dec r ra then a else b).
Proof. apply (if_app_head [x]). Qed.

Lemma if_eq_refl {A} k (a b : A) : (if keys_eq_dec k k then a else b) = a.
Proof. destruct (keys_eq_dec k k); [reflexivity | congruence]. Qed.

(* ---------- strip: remove a prefix ---------- *)
Fixpoint strip (p k : list N) : option (list N) :=
  match p, k with
  | [], _ => Some k
  | x :: p', y :: k' => if x =? y then strip p' k' else None
  | _ :: _, [] => None
  end.

Definition bind {A B} (o : option A) (f : A -> option B) : option B :=
  match o with Some a => f a | None => None end.

Lemma strip_spec p k r : strip p k = Some r <-> k = p ++ r.
Proof.
  revert k; induction p as [|x p IH]; intros k; simpl.
  - split; [intros [= ->]; reflexivity | intros ->; reflexivity].
  - destruct k as [|y k]; [split; [discriminate | intros [=]]|].
    destruct (N.eqb_spec x y) as [->|Hne].
    + rewrite IH. split; [intros ->; reflexivity | intros [= ->]; reflexivity].
    + split; [discriminate | intros [= -> _]; congruence].
Qed.

Lemma strip_app p q k : strip (p ++ q) k = bind (strip p k) (strip q).
Proof.
  revert k; induction p as [|x p IH]; intros k; simpl; [reflexivity|].
  destruct k as [|y k]; [reflexivity|]. destruct (x =? y); [apply IH | reflexivity].
Qed.

Lemma strip_self p r : strip p (p ++ r) = Some r.
Proof. apply strip_spec; reflexivity. Qed.

(* the Go test "len(key)-pos < len(n.Key) || !bytes.Equal(n.Key, key[pos:pos+len(n.Key)])" *)
Lemma go_prefix_test nk key :
  ((length key <? length nk)%nat || negb (bytes_eqb nk (firstn (length nk) key))) = true
  <-> strip nk key = None.
Proof.
  revert key; induction nk as [|x nk IH]; intros key.
  - simpl. split; [intros [=] | discriminate].
  - destruct key as [|y key].
    + simpl. split; reflexivity.
    + cbn [length firstn bytes_eqb strip]. change (S (length key) <? S (length nk))%nat with (length key <? length nk)%nat.
      destruct (N.eqb_spec x y) as [->|Hne].
      * cbn [andb]. apply IH.
      * cbn [andb negb]. rewrite orb_true_r. split; reflexivity.
Qed.

Lemma go_prefix_skip nk key r : strip nk key = Some r -> skipn (length nk) key = r.
Proof. intros H. apply strip_spec in H. subst. rewrite skipn_app, skipn_all, Nat.sub_diag. reflexivity. Qed.

(* ---------- prefix_len ---------- *)
Definition heads_differ (ra rb : list N) : Prop :=
  match ra, rb with x :: _, y :: _ => x <> y | _, _ => True end.

Lemma prefix_len_spec a b :
  exists p ra rb, a = p ++ ra /\ b = p ++ rb /\ length p = prefix_len a b /\ heads_differ ra rb.
Proof.
  revert b; induction a as [|x a IH]; intros b.
  - exists [], [], b. unfold heads_differ. simpl. repeat split; auto.
  - destruct b as [|y b].
    + exists [], (x :: a), []. unfold heads_differ. simpl. repeat split; auto.
    + simpl. destruct (N.eqb_spec x y) as [->|Hne].
      * destruct (IH b) as (p & ra & rb & -> & -> & Hl & Hd).
        exists (y :: p), ra, rb. simpl. repeat split; auto.
      * exists [], (x :: a), (y :: b). unfold heads_differ. simpl. repeat split; auto.
Qed.

(* ---------- valid keys ---------- *)
Lemma valid_cons x r :
  valid_key (x :: r) = true <-> (x = 16 /\ r = []) \/ (x < 16 /\ valid_key r = true).
Proof.
  destruct r as [|y r].
  - cbn [valid_key]. rewrite N.eqb_eq. split; [intros ->; left; auto | intros [[-> _]|[_ H]]; [reflexivity | discriminate]].
  - change (valid_key (x :: y :: r)) with (nib x && valid_key (y :: r)). unfold nib.
    rewrite andb_true_iff, N.ltb_lt. split; [intros [? ?]; right; auto | intros [[_ H]|[? ?]]; [discriminate | auto]].
Qed.

Lemma valid_nil : valid_key [] = false.
Proof. reflexivity. Qed.

Lemma valid_le16 k : valid_key k = true -> Forall (fun x => x <= 16) k.
Proof.
  induction k as [|x k IH]; intros H; [constructor|].
  apply valid_cons in H as [[-> ->]|[Hx Hk]]; constructor; try lia; auto.
Qed.

(* nibble-only strings *)
Definition nibs (k : list N) : bool := forallb nib k.

Lemma nibs_cons x k : nibs (x :: k) = true <-> x < 16 /\ nibs k = true.
Proof. unfold nibs; cbn [forallb]. unfold nib. rewrite andb_true_iff, N.ltb_lt. tauto. Qed.

Lemma nibs_app a b : nibs (a ++ b) = true <-> nibs a = true /\ nibs b = true.
Proof. unfold nibs. rewrite forallb_app, andb_true_iff. tauto. Qed.

Lemma valid_not_nibs k : valid_key k = true -> nibs k = true -> False.
Proof.
  induction k as [|x k IH]; [discriminate|]. intros Hv Hn.
  apply nibs_cons in Hn as [Hx Hn]. apply valid_cons in Hv as [[-> _]|[_ Hv]]; [lia | auto].
Qed.

(* splitting a valid key after a nibble-only prefix leaves a valid key *)
Lemma valid_app_nibs p r : nibs p = true -> (valid_key (p ++ r) = true <-> valid_key r = true).
Proof.
  induction p as [|x p IH]; intros Hp; [reflexivity|].
  apply nibs_cons in Hp as [Hx Hp]. cbn [app]. rewrite valid_cons, (IH Hp).
  split; [intros [[-> _]|[_ H]]; [lia | exact H] | intros H; right; auto].
Qed.

(* a proper prefix of a valid key is nibble-only; the rest is valid *)
Lemma valid_split p r : valid_key (p ++ r) = true -> r <> [] -> nibs p = true /\ valid_key r = true.
Proof.
  induction p as [|x p IH]; intros H Hr; [split; [reflexivity | exact H]|].
  cbn [app] in H. apply valid_cons in H as [[-> Hnil]|[Hx Hv]].
  - apply app_eq_nil in Hnil as [_ ->]. congruence.
  - destruct (IH Hv Hr) as [Hp Hv']. split; [apply nibs_cons; auto | exact Hv'].
Qed.

(* valid keys are prefix-free *)
Lemma valid_prefix_free a r : valid_key a = true -> valid_key (a ++ r) = true -> r = [].
Proof.
  intros Ha Har. destruct r as [|y r]; [reflexivity|]. exfalso.
  destruct (valid_split a (y :: r) Har ltac:(discriminate)) as [Hn _].
  exact (valid_not_nibs a Ha Hn).
Qed.

Lemma valid_strip_eq a b r : valid_key a = true -> valid_key b = true -> strip a b = Some r -> a = b /\ r = [].
Proof.
  intros Ha Hb Hs. apply strip_spec in Hs. subst b.
  pose proof (valid_prefix_free a r Ha Hb) as ->. rewrite app_nil_r. auto.
Qed.

(* suffixes of valid keys: what remains after removing the first symbol *)
Definition vtail (x : N) (r : list N) : Prop := (x = 16 /\ r = []) \/ (x < 16 /\ valid_key r = true).

Lemma vtail_strip_eq x a b r : vtail x a -> vtail x b -> strip a b = Some r -> a = b.
Proof.
  intros [[-> ->]|[Hx Ha]] [[Hx' ->]|[Hx' Hb]] Hs; try lia.
  - reflexivity.
  - apply (valid_strip_eq a b r Ha Hb Hs).
Qed.

(* ---------- 17-slot arrays ---------- *)
Lemma set_nth_length cs i c : length (set_nth cs i c) = length cs.
Proof. revert i; induction cs as [|x cs IH]; intros [|i]; simpl; auto. Qed.

Lemma nth_set_nth cs i j c :
  (i < length cs)%nat -> nth j (set_nth cs i c) Empty = if Nat.eqb i j then c else nth j cs Empty.
Proof.
  revert i j; induction cs as [|x cs IH]; intros i j Hi; [simpl in Hi; lia|].
  destruct i as [|i], j as [|j]; simpl; auto. apply IH. simpl in Hi; lia.
Qed.

Lemma set_nth_same cs i : set_nth cs i (nth i cs Empty) = cs.
Proof.
  revert i; induction cs as [|x cs IH]; intros [|i]; simpl; auto. f_equal; apply IH.
Qed.

Lemma child_set_nth cs x y c :
  (N.to_nat x < length cs)%nat -> child (set_nth cs (N.to_nat x) c) y = if x =? y then c else child cs y.
Proof.
  intros Hx. unfold child. rewrite nth_set_nth by exact Hx.
  destruct (N.eqb_spec x y) as [->|Hne]; [rewrite Nat.eqb_refl; reflexivity|].
  destruct (Nat.eqb_spec (N.to_nat x) (N.to_nat y)) as [E|_]; [apply N2Nat.inj in E; congruence | reflexivity].
Qed.

Lemma child_empty17 x : child empty17 x = Empty.
Proof.
  unfold child, empty17. destruct (Nat.lt_ge_cases (N.to_nat x) 17) as [H|H].
  - apply nth_repeat.
  - apply nth_overflow. rewrite repeat_length. exact H.
Qed.

Lemma child_overflow cs x : (length cs <= N.to_nat x)%nat -> child cs x = Empty.
Proof. intros H. unfold child. apply nth_overflow. exact H. Qed.

Lemma list_ext17 (cs ds : list node) :
  length cs = 17%nat -> length ds = 17%nat -> (forall x, x <= 16 -> child cs x = child ds x) -> cs = ds.
Proof.
  intros Hc Hd H. apply (nth_ext cs ds Empty Empty); [congruence|].
  intros n Hn. specialize (H (N.of_nat n)). unfold child in H. rewrite Nat2N.id in H. apply H. lia.
Qed.

(* live: the non-nil slots *)
Lemma live_spec cs b i :
  In i (live cs b) <-> exists j, i = b + N.of_nat j /\ (j < length cs)%nat /\ nth j cs Empty <> Empty.
Proof.
  revert b; induction cs as [|c cs IH]; intros b.
  - simpl. split; [tauto | intros (j & _ & Hj & _); simpl in Hj; lia].
  - assert (Hstep : In i (live cs (b + 1)) <-> exists j, i = b + N.of_nat (S j) /\ (j < length cs)%nat /\ nth j cs Empty <> Empty).
    { rewrite IH. split; intros (j & -> & ? & ?); exists j; repeat split; auto; lia. }
    destruct c; cbn [live].
    + rewrite Hstep. split.
      * intros (j & -> & ? & ?). exists (S j). simpl. repeat split; auto; lia.
      * intros (j & -> & Hj & Hn). destruct j as [|j]; [simpl in Hn; congruence|]. exists j. simpl in *. repeat split; auto; lia.
    + cbn [In]. rewrite Hstep. split.
      * intros [<-|(j & -> & ? & ?)]; [exists 0%nat; simpl; repeat split; try lia; discriminate|].
        exists (S j). simpl. repeat split; auto; lia.
      * intros (j & -> & Hj & Hn). destruct j as [|j]; [left; simpl; lia|]. right. exists j. simpl in *. repeat split; auto; lia.
    + cbn [In]. rewrite Hstep. split.
      * intros [<-|(j & -> & ? & ?)]; [exists 0%nat; simpl; repeat split; try lia; discriminate|].
        exists (S j). simpl. repeat split; auto; lia.
      * intros (j & -> & Hj & Hn). destruct j as [|j]; [left; simpl; lia|]. right. exists j. simpl in *. repeat split; auto; lia.
    + cbn [In]. rewrite Hstep. split.
      * intros [<-|(j & -> & ? & ?)]; [exists 0%nat; simpl; repeat split; try lia; discriminate|].
        exists (S j). simpl. repeat split; auto; lia.
      * intros (j & -> & Hj & Hn). destruct j as [|j]; [left; simpl; lia|]. right. exists j. simpl in *. repeat split; auto; lia.
Qed.

Lemma live_child cs i :
  In i (live cs 0) <-> (N.to_nat i < length cs)%nat /\ child cs i <> Empty.
Proof.
  rewrite live_spec. unfold child. split.
  - intros (j & -> & Hj & Hn). rewrite N.add_0_l, Nat2N.id. auto.
  - intros [Hi Hn]. exists (N.to_nat i). rewrite N2Nat.id. auto.
Qed.

Lemma live_sorted cs b : StronglySorted N.lt (live cs b) /\ Forall (fun i => b <= i) (live cs b).
Proof.
  revert b; induction cs as [|c cs IH]; intros b; [split; constructor|].
  destruct (IH (b + 1)) as [Hs Hf].
  assert (Hf' : Forall (fun i => b <= i) (live cs (b + 1))).
  { eapply Forall_impl; [|exact Hf]. simpl; intros; lia. }
  assert (Hlt : Forall (N.lt b) (live cs (b + 1))).
  { eapply Forall_impl; [|exact Hf]. simpl; intros; lia. }
  destruct c; cbn [live]; split; auto; try (constructor; auto); try lia.
Qed.

Lemma live_nodup cs : NoDup (live cs 0).
Proof.
  destruct (live_sorted cs 0) as [Hs _]. induction Hs as [|a l Hs IH Hf]; constructor; auto.
  intros Hin. rewrite Forall_forall in Hf. specialize (Hf a Hin). lia.
Qed.

(* at least two slots in use  <->  two distinct non-nil children *)
Lemma live_two cs :
  (2 <= length (live cs 0))%nat <->
  exists i j, i <> j /\ (N.to_nat i < length cs)%nat /\ (N.to_nat j < length cs)%nat /\ child cs i <> Empty /\ child cs j <> Empty.
Proof.
  split.
  - intros H. destruct (live cs 0) as [|i [|j l]] eqn:E; simpl in H; try lia.
    pose proof (live_nodup cs) as Hnd. rewrite E in Hnd.
    assert (Hi : In i (live cs 0)) by (rewrite E; simpl; auto).
    assert (Hj : In j (live cs 0)) by (rewrite E; simpl; auto).
    apply live_child in Hi as [? ?]. apply live_child in Hj as [? ?].
    exists i, j. repeat split; auto. intros ->. inversion Hnd as [|? ? Hni _]; subst. apply Hni; simpl; auto.
  - intros (i & j & Hne & Hi & Hj & Hci & Hcj).
    assert (Ii : In i (live cs 0)) by (apply live_child; auto).
    assert (Ij : In j (live cs 0)) by (apply live_child; auto).
    destruct (live cs 0) as [|a [|b l]]; simpl in *; try tauto; try lia;
      destruct Ii as [<-|[]], Ij as [<-|[]]; congruence.
Qed.

Lemma live_single cs pos :
  live cs 0 = [pos] -> (N.to_nat pos < length cs)%nat /\ child cs pos <> Empty /\ forall z, z <> pos -> child cs z = Empty.
Proof.
  intros E.
  assert (Hp : In pos (live cs 0)) by (rewrite E; simpl; auto).
  apply live_child in Hp as [Hl Hc]. repeat split; auto.
  intros z Hz. destruct (Nat.lt_ge_cases (N.to_nat z) (length cs)) as [Hlt|Hge]; [|apply child_overflow; exact Hge].
  destruct (child cs z) eqn:Ec; auto; exfalso;
    assert (Hin : In z (live cs 0)) by (apply live_child; split; [exact Hlt | rewrite Ec; discriminate]);
    rewrite E in Hin; simpl in Hin; destruct Hin as [<-|[]]; congruence.
Qed.

Lemma live_none cs : live cs 0 = [] -> forall z, child cs z = Empty.
Proof.
  intros E z. destruct (Nat.lt_ge_cases (N.to_nat z) (length cs)) as [Hlt|Hge]; [|apply child_overflow; exact Hge].
  destruct (child cs z) eqn:Ec; auto; exfalso;
    assert (Hin : In z (live cs 0)) by (apply live_child; split; [exact Hlt | rewrite Ec; discriminate]);
    rewrite E in Hin; exact Hin.
Qed.
