(* Evaluation of the C02 model on harness-written operation histories (correspondence check).
   The hash function of the model is instantiated with the Gallina Keccak-256 of Keccak.v; that
   instance is validated by every compared root, not proved. *)
From Coq Require Import String List NArith Bool.
From V.Base Require Import Hex.
From V.C02 Require Import Keccak Model ModelB.
Import ListNotations.
Local Open Scope N_scope.

(* one step of an observed history; byte strings are hex literals *)
Inductive hop :=
| HUpd (k v : string)                                  (* TryUpdate(k, v)  (empty v = delete) *)
| HDel (k : string)                                    (* TryDelete(k) *)
| HGet (k : string) (found : bool) (v : string)        (* TryGet(k): found=false when it returned no bytes *)
| HRoot (root enc : string)                            (* Hash()/Commit()/root after reopen; enc = RLP of the root
                                                          node as stored by the node database ("" = not observed) *)
| HIter (start : string) (obs : list (string * string))  (* NewIterator(NodeIterator(start)) listing *)
| HDisk (root : string) (dump : list (string * string)). (* after Commit + NodeDatabase.Commit(root): the whole
                                                            content of the disk store, hash -> node RLP *)

Fixpoint node_eqb (a b : node) : bool :=
  match a, b with
  | Empty, Empty => true
  | Value v, Value w => bytes_eqb v w
  | Short k c, Short k' c' => bytes_eqb k k' && node_eqb c c'
  | Full cs, Full ds =>
      (fix go (l1 l2 : list node) {struct l1} : bool :=
         match l1, l2 with
         | [], [] => true
         | x :: r1, z :: r2 => node_eqb x z && go r1 r2
         | _, _ => false
         end) cs ds
  | _, _ => false
  end.

(* layer B: (1) the real disk content, read back by the model's loader (ModelB.load: decodeNode +
   resolveHash until everything is resolved), is exactly the model's trie; (2) every entry the model's
   Commit writes (ModelB.commit_db) is in the real store with the same bytes *)
Definition disk_ok (t : node) (root : bytes) (real : list (bytes * bytes)) : bool :=
  match reopen (lookup real) 400 (keccak256 [128]) root with
  | Some t' => node_eqb t' t
  | None => false
  end
  && forallb (fun he => match lookup real (fst he) with
                        | Some e => bytes_eqb e (snd he)
                        | None => false
                        end) (commit_db keccak256 t).

Fixpoint kvs_eqb (a : list (bytes * bytes)) (b : list (string * string)) : bool :=
  match a, b with
  | [], [] => true
  | (k, v) :: a', (k', v') :: b' => bytes_eqb k (unhex k') && bytes_eqb v (unhex v') && kvs_eqb a' b'
  | _, _ => false
  end.

Definition obs_ok (t : node) (o : hop) : bool :=
  match o with
  | HUpd _ _ | HDel _ => true
  | HGet k found v =>
      match try_get t (unhex k) with
      | Some x => found && bytes_eqb x (unhex v)
      | None => negb found
      end
  | HRoot root enc =>
      match t with
      | Empty => bytes_eqb (keccak256 [128]) (unhex root)
      | _ => let e := root_rlp keccak256 t in
             bytes_eqb (keccak256 e) (unhex root)
             && match enc with EmptyString => true | _ => bytes_eqb e (unhex enc) end
      end
  | HIter start obs => kvs_eqb (iter_from t (unhex start)) obs
  | HDisk root dump => disk_ok t (unhex root) (map (fun he => (unhex (fst he), unhex (snd he))) dump)
  end.

Definition apply (t : node) (o : hop) : node :=
  match o with
  | HUpd k v => try_update t (unhex k) (unhex v)
  | HDel k => try_delete t (unhex k)
  | _ => t
  end.

(* the model follows the history; every observation must agree, and the model trie must stay in
   minimal form (kernel-evaluated instance of the invariant theorems) *)
Fixpoint follow (t : node) (h : list hop) : bool :=
  match h with
  | [] => true
  | o :: r => obs_ok t o && (let t' := apply t o in wf_trie t' && follow t' r)
  end.

Definition check (h : list hop) : bool := follow Empty h.
