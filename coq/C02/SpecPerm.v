(* C02 proofs, part 8: the Yellow-Paper root (Spec.v) is a function of the SET of pairs: it does not
   depend on the order in which a duplicate-free list presents them.  Hence the model's root equals
   the Yellow-Paper root of ANY duplicate-free listing of the content. *)
From Coq Require Import List Arith NArith Lia Bool Permutation.
From V.Base Require Import Hex.
From V.C02 Require Import Model Lemmas Sem InsDel Unique Iter Proofs Spec SpecProofs.
Import ListNotations.
Local Open Scope N_scope.

Definition keys_nodup (J : kvs) : Prop := NoDup (map fst J).

(* ---------- lcp ---------- *)
Lemma prefix_antisym (a b ra rb : list N) : a = b ++ ra -> b = a ++ rb -> a = b.
Proof.
  intros E1 E2. assert (Hl : length a = (length b + length ra)%nat) by (rewrite E1 at 1; apply app_length).
  assert (Hl' : length b = (length a + length rb)%nat) by (rewrite E2 at 1; apply app_length).
  destruct ra; [rewrite app_nil_r in E1; exact E1 | cbn [length] in Hl; lia].
Qed.

Lemma lcp_perm ks ks' : Permutation ks ks' -> lcp ks = lcp ks'.
Proof.
  intros Hp. destruct ks as [|k0 ks].
  - apply Permutation_nil in Hp. subst. reflexivity.
  - assert (Hne' : ks' <> []) by (intros ->; apply Permutation_sym, Permutation_nil in Hp; discriminate).
    destruct (lcp_max (k0 :: ks) (lcp ks')) as (r1 & E1); [discriminate | |].
    { intros k Hk. apply lcp_prefix. eapply Permutation_in; eassumption. }
    destruct (lcp_max ks' (lcp (k0 :: ks)) Hne') as (r2 & E2).
    { intros k Hk. apply lcp_prefix. eapply Permutation_in; [apply Permutation_sym|]; eassumption. }
    eapply prefix_antisym; eassumption.
Qed.

(* ---------- sub ---------- *)
Definition subk (ks : list (list N)) (x : N) : list (list N) :=
  flat_map (fun k => match k with z :: r => if z =? x then [r] else [] | [] => [] end) ks.

Lemma sub_keys J x : map fst (sub J x) = subk (map fst J) x.
Proof.
  induction J as [|[k v] J IH]; [reflexivity|].
  change (sub ((k, v) :: J) x) with ((match k with z :: r => if z =? x then [(r, v)] else [] | [] => [] end) ++ sub J x).
  rewrite map_app, IH. cbn [map fst subk flat_map]. f_equal.
  destruct k as [|z r]; [reflexivity|]. destruct (z =? x); reflexivity.
Qed.

Lemma in_subk ks x r : In r (subk ks x) <-> In (x :: r) ks.
Proof.
  unfold subk. rewrite in_flat_map. split.
  - intros (k & Hk & Hin). destruct k as [|z r']; [destruct Hin|].
    destruct (N.eqb_spec z x) as [->|_]; [|destruct Hin]. destruct Hin as [<-|[]]. exact Hk.
  - intros Hin. exists (x :: r). split; [exact Hin|]. rewrite N.eqb_refl. left; reflexivity.
Qed.

Lemma subk_nodup ks x : NoDup ks -> NoDup (subk ks x).
Proof.
  induction 1 as [|k ks Hnin Hnd IH]; [constructor|].
  change (subk (k :: ks) x) with ((match k with z :: r => if z =? x then [r] else [] | [] => [] end) ++ subk ks x).
  destruct k as [|z r]; [exact IH|]. destruct (N.eqb_spec z x) as [->|_]; [|exact IH].
  cbn [app]. constructor; [|exact IH]. rewrite in_subk. exact Hnin.
Qed.

Lemma sub_nodup J x : keys_nodup J -> keys_nodup (sub J x).
Proof. unfold keys_nodup. rewrite sub_keys. apply subk_nodup. Qed.

Lemma sub_perm J J' x : Permutation J J' -> Permutation (sub J x) (sub J' x).
Proof. intros Hp. unfold sub. apply Permutation_flat_map. exact Hp. Qed.

(* ---------- drop_prefix ---------- *)
Lemma NoDup_map_inj_in {A B} (f : A -> B) l :
  (forall a b, In a l -> In b l -> f a = f b -> a = b) -> NoDup l -> NoDup (map f l).
Proof.
  intros Hinj Hnd. induction Hnd as [|a l Hnin Hnd IH]; [constructor|]. cbn [map]. constructor.
  - intros Hin. apply in_map_iff in Hin as (b & E & Hb). apply Hnin.
    rewrite (Hinj a b (or_introl eq_refl) (or_intror Hb) (eq_sym E)). exact Hb.
  - apply IH. intros x z Hx Hz. apply Hinj; right; assumption.
Qed.

Lemma drop_nodup J : keys_nodup J -> keys_nodup (drop_prefix (lcp (map fst J)) J).
Proof.
  unfold keys_nodup, drop_prefix. intros Hnd. rewrite map_map. cbn [fst].
  rewrite <- (map_map fst (skipn (length (lcp (map fst J))))).
  apply NoDup_map_inj_in; [|exact Hnd].
  intros a b Ha Hb E.
  destruct (lcp_prefix _ a Ha) as (ra & Ea), (lcp_prefix _ b Hb) as (rb & Eb).
  rewrite Ea, Eb in E. rewrite !skipn_app_len in E. congruence.
Qed.

(* ---------- vslot ---------- *)
Lemma vslot_in J v : keys_nodup J -> In ([], v) J -> vslot J = v.
Proof.
  unfold keys_nodup, vslot. induction J as [|[k w] J IH]; intros Hnd Hin; [destruct Hin|].
  cbn [find fst]. destruct k as [|z r].
  - cbn [snd]. destruct Hin as [E|Hin]; [congruence|].
    exfalso. cbn [map fst] in Hnd. inversion Hnd as [|? ? Hnin _]; subst. apply Hnin.
    apply in_map_iff. exists ([], v). auto.
  - destruct Hin as [E|Hin]; [discriminate|]. apply IH; [|exact Hin]. cbn [map] in Hnd. inversion Hnd; assumption.
Qed.

Lemma vslot_none J : (forall v, ~ In ([], v) J) -> vslot J = [].
Proof.
  unfold vslot. intros Hn. destruct (find _ J) as [[k v]|] eqn:E; [|reflexivity].
  apply find_some in E as [Hin Hk]. cbn [fst] in Hk. destruct k; [|discriminate]. exfalso. exact (Hn v Hin).
Qed.

Lemma vslot_perm J J' : Permutation J J' -> keys_nodup J -> vslot J = vslot J'.
Proof.
  intros Hp Hnd.
  assert (Hnd' : keys_nodup J') by (unfold keys_nodup in *; eapply Permutation_NoDup; [apply Permutation_map; exact Hp | exact Hnd]).
  destruct (find isnil J) as [[k v]|] eqn:E.
  - apply find_some in E as [Hin Hk]. unfold isnil in Hk. cbn [fst] in Hk. destruct k; [|discriminate].
    rewrite (vslot_in J v Hnd Hin). symmetry. apply vslot_in; [exact Hnd'|]. eapply Permutation_in; eassumption.
  - pose proof (find_none _ _ E) as Hn.
    assert (HnJ : forall v, ~ In ([], v) J) by (intros v Hin; specialize (Hn _ Hin); discriminate).
    rewrite (vslot_none J HnJ). symmetry. apply vslot_none. intros v Hin. apply (HnJ v).
    eapply Permutation_in; [apply Permutation_sym|]; eassumption.
Qed.

(* ---------- measure ---------- *)
Lemma measure_perm J J' : Permutation J J' -> measure J = measure J'.
Proof.
  induction 1 as [|e J J' _ IH|a b J|J1 J2 J3 _ IH1 _ IH2]; [reflexivity | | | congruence].
  - change (S (length (fst e)) + measure J = S (length (fst e)) + measure J')%nat. rewrite IH. reflexivity.
  - change (S (length (fst b)) + (S (length (fst a)) + measure J) = S (length (fst a)) + (S (length (fst b)) + measure J))%nat. lia.
Qed.

Lemma mapM_ext {A B} (f g : A -> option B) l : (forall x, f x = g x) -> mapM f l = mapM g l.
Proof. intros E. induction l as [|a l IH]; [reflexivity|]. cbn [mapM]. rewrite E, IH. reflexivity. Qed.

Section Perm.
  Variable H : bytes -> bytes.

  Theorem spec_c_perm : forall fuel J J', Permutation J J' -> keys_nodup J -> spec_c H fuel J = spec_c H fuel J'.
  Proof.
    induction fuel as [|f IH]; intros J J' Hp Hnd; [reflexivity|].
    assert (Hn : forall K K', Permutation K K' -> keys_nodup K -> spec_n H f K = spec_n H f K').
    { intros K K' HpK HndK. unfold spec_n. destruct K as [|e K].
      - apply Permutation_nil in HpK. subst. reflexivity.
      - destruct K' as [|e' K']; [apply Permutation_sym, Permutation_nil in HpK; discriminate|].
        rewrite (IH _ _ HpK HndK). reflexivity. }
    pose proof (Permutation_length Hp) as Hlen.
    destruct J as [|e1 [|e2 r]].
    - apply Permutation_nil in Hp. subst. reflexivity.
    - apply Permutation_length_1_inv in Hp. subst. reflexivity.
    - rewrite (spec_c_many H f (e1 :: e2 :: r)) by (cbn [length]; lia).
      rewrite (spec_c_many H f J') by (rewrite <- Hlen; cbn [length]; lia).
      rewrite <- (lcp_perm _ _ (Permutation_map fst Hp)).
      remember (e1 :: e2 :: r) as J eqn:EJ.
      destruct (lcp (map fst J)) as [|x p] eqn:El.
      + rewrite (vslot_perm J J' Hp Hnd).
        rewrite (mapM_ext _ (fun x => spec_n H f (sub J' x))); [reflexivity|].
        intros x. apply Hn; [apply sub_perm; exact Hp | apply sub_nodup; exact Hnd].
      + cbv beta iota zeta. rewrite (Hn (drop_prefix (x :: p) J) (drop_prefix (x :: p) J')); [reflexivity | |].
        * unfold drop_prefix. apply Permutation_map. exact Hp.
        * rewrite <- El. apply drop_nodup. exact Hnd.
  Qed.

  Lemma y_nibbles_inj a : forall b, y_nibbles a = y_nibbles b -> a = b.
  Proof.
    induction a as [|x a IH]; intros [|z b] E; cbn [y_nibbles] in E; try discriminate; [reflexivity|].
    injection E as E1 E2 E3. f_equal; [|apply IH; exact E3].
    rewrite (N.div_mod x 16), (N.div_mod z 16) by lia. congruence.
  Qed.

  (* the root is the Yellow-Paper root of any duplicate-free listing of the content *)
  Theorem root_spec_set ops (J : list (bytes * bytes)) : ops_ok ops ->
    NoDup (map fst J) -> (forall k v, In (k, v) J <-> content ops k = Some v) ->
    spec_root H J = Some (root_hash H (run ops)).
  Proof.
    intros Hok Hnd HJ. rewrite <- (root_spec H ops Hok).
    assert (Hp : Permutation J (iter_from (run ops) [])).
    { apply NoDup_Permutation.
      - apply (NoDup_map_inv fst). exact Hnd.
      - apply (NoDup_map_inv fst). rewrite iter_from_all, map_map. cbn [fst].
        rewrite <- (map_map fst hex_to_keybytes).
        apply NoDup_map_inj_in; [|apply iter_keys_nodup].
        intros p q Hp Hq E. apply in_map_iff in Hp as ((p', v) & <- & Hp). apply in_map_iff in Hq as ((q', w) & <- & Hq).
        cbn [fst] in *.
        apply (iter_content _ _ _ (run_wf ops Hok)) in Hp as [Hvp Hgp]. apply (iter_content _ _ _ (run_wf ops Hok)) in Hq as [Hvq Hgq].
        destruct (stored_is_image ops p' v Hok Hvp Hgp) as (kp & Hkp & -> & _).
        destruct (stored_is_image ops q' w Hok Hvq Hgq) as (kq & Hkq & -> & _).
        rewrite !h2k_hex in E by assumption. congruence.
      - intros [k v]. rewrite HJ. symmetry. apply iter_bytes_content. exact Hok. }
    rewrite !spec_root_unfold.
    set (f := fun kv : bytes * bytes => (y_nibbles (fst kv), snd kv)).
    pose proof (Permutation_map f Hp) as Hp'.
    assert (Hnd' : keys_nodup (map f J)).
    { unfold keys_nodup. rewrite map_map. cbn [f fst]. rewrite <- (map_map fst y_nibbles).
      apply NoDup_map_inj_in; [|exact Hnd]. intros a b _ _. apply y_nibbles_inj. }
    unfold spec_root_nib. rewrite <- (measure_perm _ _ Hp'), <- (spec_c_perm _ _ _ Hp' Hnd').
    destruct (map f J) as [|e L] eqn:E1.
    - apply Permutation_nil in Hp'. rewrite Hp'. reflexivity.
    - destruct (map f (iter_from (run ops) [])) as [|e' L']; [apply Permutation_sym, Permutation_nil in Hp'; discriminate | reflexivity].
  Qed.
End Perm.
