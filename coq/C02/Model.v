(* C02 model, layer A: the Merkle-Patricia trie of src/storage/trie (geth-1.8 lineage) as a pure
   tree, following trie.go (insert / delete / tryGet), encoding.go (keybytesToHex, hexToCompact,
   compactToHex, prefixLen), node.go + hasher.go (node RLP, collapse-to-hash of children whose
   encoding is >= 32 bytes, forced hash of the root) and iterator.go (leaf order, seek).

   A key inside the trie is a list of nibbles ended by the terminator 16 (keybytesToHex).
   [Empty] is Go's nil node, a leaf is [Short (... ++ [16]) (Value v)] or slot 16 of a [Full].
   Hash nodes, cache flags and the node database belong to layer B (ModelB.v); in layer A every
   node is resolved.  The hash function is the section variable [H] (Keccak-256 in the code). *)
From Coq Require Import List Arith NArith Lia Bool.
From V.Base Require Import Hex BigEndian.
From V.C08 Require Model.
Import ListNotations.
Local Open Scope N_scope.

Notation item := C08.Model.item.
Notation Str := C08.Model.Str.
Notation Lst := C08.Model.Lst.
Notation rlp := C08.Model.encode.

Inductive node :=
| Empty                              (* nil *)
| Value (v : bytes)                  (* valueNode *)
| Short (k : list N) (c : node)      (* shortNode{Key, Val} *)
| Full (cs : list node).             (* fullNode{Children [17]node} *)

(* ---------- encoding.go ---------- *)
Fixpoint keybytes_to_hex (b : bytes) : list N :=
  match b with
  | [] => [16]
  | x :: r => x / 16 :: x mod 16 :: keybytes_to_hex r
  end.

Definition has_term (h : list N) : bool := last h 0 =? 16.

(* decodeNibbles: bytes[bi] = nibbles[ni]<<4 | nibbles[ni+1] (byte arithmetic) *)
Fixpoint decode_nibbles (h : list N) : bytes :=
  match h with
  | a :: b :: r => N.lor ((a * 16) mod 256) b :: decode_nibbles r
  | _ => []
  end.

Definition hex_to_compact (hex : list N) : bytes :=
  let t := if has_term hex then 1 else 0 in
  let hex := if has_term hex then removelast hex else hex in
  if Nat.odd (length hex)
  then N.lor (N.lor (32 * t) 16) (hd 0 hex) :: decode_nibbles (tl hex)
  else 32 * t :: decode_nibbles hex.

Definition compact_to_hex (compact : bytes) : list N :=
  let base := keybytes_to_hex compact in
  let base := if hd 0 base <? 2 then removelast base else base in
  let chop := 2 - N.land (hd 0 base) 1 in
  skipn (N.to_nat chop) base.

(* hexToKeybytes (iterator.LeafKey); Go panics on odd length, the model truncates *)
Definition hex_to_keybytes (h : list N) : bytes :=
  decode_nibbles (if has_term h then removelast h else h).

Fixpoint prefix_len (a b : list N) : nat :=
  match a, b with
  | x :: a', y :: b' => if x =? y then S (prefix_len a' b') else O
  | _, _ => O
  end.

(* ---------- 17-slot child arrays ---------- *)
Definition empty17 : list node := repeat Empty 17.

Fixpoint set_nth (cs : list node) (i : nat) (c : node) : list node :=
  match cs with
  | [] => []
  | x :: r => match i with O => c :: r | S j => x :: set_nth r j c end
  end.

Definition child (cs : list node) (x : N) : node := nth (N.to_nat x) cs Empty.

(* indices of the non-nil children, in order (the "pos" scan of delete) *)
Fixpoint live (cs : list node) (i : N) : list N :=
  match cs with
  | [] => []
  | Empty :: r => live r (i + 1)
  | _ :: r => i :: live r (i + 1)
  end.

(* ---------- trie.go: tryGet ---------- *)
Fixpoint get (n : node) (key : list N) {struct n} : option bytes :=
  match n with
  | Empty => None
  | Value v => Some v
  | Short nk c =>
      if (length key <? length nk)%nat || negb (bytes_eqb nk (firstn (length nk) key)) then None
      else get c (skipn (length nk) key)
  | Full cs =>
      match key with
      | [] => None   (* Go: key[pos] out of range; unreachable, every key ends in 16 and 16 leads to a value *)
      | x :: kr =>
          (fix go (cs : list node) (i : nat) {struct cs} : option bytes :=
             match cs with
             | [] => None
             | c :: r => match i with O => get c kr | S j => go r j end
             end) cs (N.to_nat x)
      end
  end.

(* ---------- trie.go: insert ---------- *)
(* insert(nil, prefix, key, value): "if len(key)==0 return value" then "case nil: shortNode{key,value}" *)
Definition insert_nil (key : list N) (value : node) : node :=
  match key with [] => value | _ => Short key value end.

(* returns (dirty, new node) like the Go function; [value] is a node because the branch-out case
   re-inserts n.Val *)
Fixpoint insert (n : node) (key : list N) (value : node) {struct n} : bool * node :=
  match key with
  | [] =>
      match n, value with
      | Value v, Value v' => (negb (bytes_eqb v v'), value)
      | _, _ => (true, value)
      end
  | x :: kr =>
      match n with
      | Short nk c =>
          let m := prefix_len key nk in
          if Nat.eqb m (length nk) then
            let '(dirty, nn) := insert c (skipn m key) value in
            if dirty then (true, Short nk nn) else (false, n)
          else
            let b1 := set_nth empty17 (N.to_nat (nth m nk 0)) (insert_nil (skipn (S m) nk) c) in
            let b2 := set_nth b1 (N.to_nat (nth m key 0)) (insert_nil (skipn (S m) key) value) in
            if Nat.eqb m 0 then (true, Full b2) else (true, Short (firstn m key) (Full b2))
      | Full cs =>
          let r := (fix go (cs : list node) (i : nat) {struct cs} : bool * list node :=
                      match cs with
                      | [] => (false, [])   (* Go: index out of range; unreachable for nibbles <= 16 *)
                      | c :: rest =>
                          match i with
                          | O => let '(d, nn) := insert c kr value in (d, nn :: rest)
                          | S j => let '(d, rest') := go rest j in (d, c :: rest')
                          end
                      end) cs (N.to_nat x) in
          if fst r then (true, Full (snd r)) else (false, n)
      | Empty => (true, Short key value)
      | Value _ => (false, n)   (* Go: panic "invalid node"; unreachable, values sit behind the terminator *)
      end
  end.

(* ---------- trie.go: delete ---------- *)
Fixpoint delete (n : node) (key : list N) {struct n} : bool * node :=
  match n with
  | Short nk c =>
      let m := prefix_len key nk in
      if (m <? length nk)%nat then (false, n)
      else if Nat.eqb m (length key) then (true, Empty)
      else
        let '(dirty, ch) := delete c (skipn (length nk) key) in
        if dirty then
          match ch with
          | Short ck cv => (true, Short (nk ++ ck) cv)
          | _ => (true, Short nk ch)
          end
        else (false, n)
  | Full cs =>
      match key with
      | [] => (false, n)   (* Go: key[0] out of range; unreachable *)
      | x :: kr =>
          let r := (fix go (cs : list node) (i : nat) {struct cs} : bool * list node :=
                      match cs with
                      | [] => (false, [])
                      | c :: rest =>
                          match i with
                          | O => let '(d, nn) := delete c kr in (d, nn :: rest)
                          | S j => let '(d, rest') := go rest j in (d, c :: rest')
                          end
                      end) cs (N.to_nat x) in
          if fst r then
            let cs' := snd r in
            match live cs' 0 with
            | [pos] =>
                if negb (pos =? 16) then
                  match child cs' pos with
                  | Short ck cv => (true, Short (pos :: ck) cv)
                  | ch => (true, Short [pos] ch)
                  end
                else (true, Short [pos] (child cs' pos))
            | _ => (true, Full cs')
            end
          else (false, n)
      end
  | Value _ => (true, Empty)
  | Empty => (false, Empty)
  end.

(* ---------- exported API on byte keys ---------- *)
Definition try_get (t : node) (key : bytes) : option bytes := get t (keybytes_to_hex key).

Definition try_delete (t : node) (key : bytes) : node := snd (delete t (keybytes_to_hex key)).

Definition try_update (t : node) (key value : bytes) : node :=
  match value with
  | [] => snd (delete t (keybytes_to_hex key))
  | _ => snd (insert t (keybytes_to_hex key) (Value value))
  end.

(* ---------- iterator.go: leaves in path order ---------- *)
Fixpoint iter (n : node) : list (list N * bytes) :=
  match n with
  | Empty => []
  | Value v => [([], v)]
  | Short k c => map (fun kv => (k ++ fst kv, snd kv)) (iter c)
  | Full cs =>
      (fix go (cs : list node) (i : N) {struct cs} : list (list N * bytes) :=
         match cs with
         | [] => []
         | c :: r => map (fun kv => (i :: fst kv, snd kv)) (iter c) ++ go r (i + 1)
         end) cs 0
  end.

(* bytes.Compare(a, b) < 0 on nibble paths *)
Fixpoint path_lt (a b : list N) : bool :=
  match a, b with
  | _, [] => false
  | [], _ :: _ => true
  | x :: a', y :: b' => if x <? y then true else if x =? y then path_lt a' b' else false
  end.

(* NodeIterator(start) + Iterator.Next: seek stops before the first path >= hex(start) without
   terminator; the leaves delivered are those whose path is not below it *)
Definition iter_from (n : node) (start : bytes) : list (bytes * bytes) :=
  let key := removelast (keybytes_to_hex start) in
  map (fun kv => (hex_to_keybytes (fst kv), snd kv))
      (filter (fun kv => negb (path_lt (fst kv) key)) (iter n)).

(* ---------- node.go / hasher.go: encoding and hashing ---------- *)
Section Hashing.
  Variable H : bytes -> bytes.

  (* hasher.store with force=false applied to a collapsed node: keep it if its RLP is < 32 bytes,
     else replace it by its hash.  Strings are nil children (empty) or values. *)
  Definition embed (it : item) : item :=
    match it with
    | C08.Model.Lst _ =>
        let e := rlp it in
        if (length e <? 32)%nat then it else Str (H e)
    | C08.Model.Str b =>
        match b with
        | [] => it
        | _ => let e := rlp it in if (length e <? 32)%nat then it else Str (H e)
        end
    end.

  Definition slot16 (n : node) : item :=
    match n with Value v => Str v | _ => Str [] end.

  (* hashChildren: the collapsed form of a node (compact key, children replaced by embed) *)
  Fixpoint collapse (n : node) : item :=
    match n with
    | Empty => Str []
    | Value v => Str v
    | Short k c =>
        Lst [Str (hex_to_compact k);
             match c with Value v => Str v | _ => embed (collapse c) end]
    | Full cs =>
        let l := map (fun c => embed (collapse c)) cs in
        Lst (firstn 16 l ++ [slot16 (nth 16 cs Empty)])
    end.

  (* the root node's RLP before hashing (what Trie.Hash feeds to Keccak) *)
  Definition root_rlp (n : node) : bytes := rlp (collapse n).

  (* Trie.Hash / hashRoot: emptyRoot for nil, else forced hash of the collapsed root *)
  Definition root_hash (n : node) : bytes :=
    match n with
    | Empty => H [128]
    | _ => H (root_rlp n)
    end.
End Hashing.

(* ---------- operation histories over the exported API ---------- *)
Inductive op :=
| OUpdate (key value : bytes)
| ODelete (key : bytes).

Definition step (t : node) (o : op) : node :=
  match o with
  | OUpdate k v => try_update t k v
  | ODelete k => try_delete t k
  end.

Definition run (ops : list op) : node := fold_left step ops Empty.

(* ---------- structural well-formedness (decidable) ---------- *)
Definition nib (x : N) : bool := x <? 16.

(* a key as stored in the trie: nibbles then the terminator *)
Fixpoint valid_key (k : list N) : bool :=
  match k with
  | [] => false
  | [x] => x =? 16
  | x :: r => nib x && valid_key r
  end.

Definition is_empty (n : node) : bool := match n with Empty => true | _ => false end.

Definition is_value (n : node) : bool := match n with Value _ => true | _ => false end.

(* [wfb n]: n is a non-nil subtrie in minimal form: no Short with an empty key, a Short leads
   either to a value (then its key is nibbles + terminator and the value is non-empty) or to a
   Full (then its key is nibbles only; never Short-under-Short); a Full has 17 slots, slots 0..15
   hold nil or a well-formed subtrie, slot 16 holds nil or a non-empty value, and at least two
   slots are in use. *)
Fixpoint wfb (n : node) : bool :=
  match n with
  | Empty => false
  | Value _ => false
  | Short k c =>
      match c with
      | Value v => valid_key k && match v with [] => false | _ => true end
      | Full _ => match k with [] => false | _ => true end && forallb nib k && wfb c
      | _ => false
      end
  | Full cs =>
      Nat.eqb (length cs) 17
      && forallb (fun c => is_empty c || is_value c || wfb c) cs
      && forallb (fun c => negb (is_value c)) (firstn 16 cs)
      && match nth 16 cs Empty with Empty => true | Value (_ :: _) => true | _ => false end
      && (2 <=? length (live cs 0))%nat
  end.

(* a whole trie: nil or a well-formed subtrie *)
Definition wf_trie (n : node) : bool := is_empty n || wfb n.
