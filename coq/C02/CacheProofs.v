(* C02 proofs, part 10 (layer B, cache): soundness of the hash cache and of the dirty-flag discipline
   on tries whose nodes are all in memory (no hash placeholders).

   erase        : forget the flags (defined on every cnode, meaningful when there is no placeholder)
   coh          : every cached hash is the hash of the node's present content (and a non-root node only
                  carries a cached hash when its RLP is >= 32 bytes)
   *_sim        : tryGet / insert / delete of the cache model are the layer-A functions on [erase]
                  whenever they do not panic, and leave placeholders-free tries placeholder-free
   *_coh        : insert / delete keep [coh] (every node on a modified path gets fresh flags, everything
                  else is reused as is)
   hashB_sound  : Trie.Hash with coherent flags returns the layer-A root and leaves coherent flags
   Commit / unloading / lazy resolution through the NodeDatabase are NOT covered by these theorems
   (they are covered by the HarnessB correspondence run and by ProofsB for the eager reload). *)
From Coq Require Import List Arith NArith Lia Bool.
From V.Base Require Import Hex.
From V.C02 Require Import Model Lemmas Sem InsDel Spec SpecProofs ModelB Cache.
Import ListNotations.
Local Open Scope N_scope.

Fixpoint erase (c : cnode) : node :=
  match c with
  | CEmpty => Empty
  | CValue v => Value v
  | CHash _ => Empty
  | CShort k c' _ => Short k (erase c')
  | CFull cs _ => Full (map erase cs)
  end.

Fixpoint hash_free (c : cnode) : bool :=
  match c with
  | CHash _ => false
  | CShort _ c' _ => hash_free c'
  | CFull cs _ => forallb hash_free cs
  | _ => true
  end.

Lemma erase_full cs fl : erase (CFull cs fl) = Full (map erase cs). Proof. reflexivity. Qed.
Lemma erase_short k c fl : erase (CShort k c fl) = Short k (erase c). Proof. reflexivity. Qed.
Lemma hf_full cs fl : hash_free (CFull cs fl) = forallb hash_free cs. Proof. reflexivity. Qed.
Lemma hf_short k c fl : hash_free (CShort k c fl) = hash_free c. Proof. reflexivity. Qed.
Ltac simpl_c := repeat (rewrite erase_full || rewrite erase_short || rewrite hf_full || rewrite hf_short).

Lemma OK_pair_inj {A B} (a a' : A) (b b' : B) : @OK (A * B) (a, b) = OK (a', b') -> a = a' /\ b = b'.
Proof. intros E. injection E as -> ->. auto. Qed.
Ltac ok_inj H := apply OK_pair_inj in H as [<- <-].

(* ---------- list plumbing ---------- *)
Lemma erase_cchild cs x : erase (cchild cs x) = child (map erase cs) x.
Proof. unfold cchild, child. change Empty with (erase CEmpty). apply eq_sym, map_nth. Qed.

Lemma erase_cset_nth cs : forall i c, map erase (cset_nth cs i c) = set_nth (map erase cs) i (erase c).
Proof. induction cs as [|x cs IH]; intros [|i] c; cbn; auto. f_equal. apply IH. Qed.

Lemma hash_free_cchild cs x : forallb hash_free cs = true -> hash_free (cchild cs x) = true.
Proof.
  intros Hf. unfold cchild. destruct (Nat.lt_ge_cases (N.to_nat x) (length cs)).
  - rewrite forallb_forall in Hf. apply Hf, nth_In. assumption.
  - rewrite nth_overflow by assumption. reflexivity.
Qed.

Lemma hash_free_cset_nth cs : forall i c, forallb hash_free cs = true -> hash_free c = true ->
  forallb hash_free (cset_nth cs i c) = true.
Proof.
  induction cs as [|x cs IH]; intros [|i] c Hf Hc; cbn in *; auto;
    apply andb_true_iff in Hf as [Hx Hf]; apply andb_true_iff; split; auto.
Qed.

Lemma erase_cempty17 : map erase cempty17 = empty17.
Proof. reflexivity. Qed.

Lemma clive_live cs : forall b, forallb hash_free cs = true -> clive cs b = live (map erase cs) b.
Proof.
  induction cs as [|c cs IH]; intros b Hf; [reflexivity|]. cbn [forallb] in Hf. apply andb_true_iff in Hf as [Hc Hf].
  destruct c; cbn [clive map erase live]; try discriminate; rewrite IH by exact Hf; reflexivity.
Qed.

Lemma cset_nth_length cs : forall i c, length (cset_nth cs i c) = length cs.
Proof. induction cs as [|x cs IH]; intros [|i] c; cbn; auto. Qed.

(* ---------- tryGet ---------- *)
Section Sim.
  Variable d : ndb.
  Variable gen : N.

  Lemma getB_sim : forall fuel c key v c' dr, hash_free c = true ->
    getB d gen fuel c key = OK (v, c', dr) -> v = get (erase c) key /\ c' = c /\ dr = false.
  Proof.
    induction fuel as [|f IH]; intros c key v c' dr Hf Hg; [discriminate|].
    destruct c as [|v0|h|nk c0 fl|cs fl]; cbn [getB] in Hg.
    - injection Hg as <- <- <-. auto.
    - injection Hg as <- <- <-. auto.
    - discriminate Hf.
    - cbn [erase get]. cbn [hash_free] in Hf.
      destruct ((length key <? length nk)%nat || negb (bytes_eqb nk (firstn (length nk) key))).
      + injection Hg as <- <- <-. auto.
      + destruct (getB d gen f c0 (skipn (length nk) key)) as [[[v1 c1] dr1]| | |] eqn:E; try discriminate.
        destruct (IH _ _ _ _ _ Hf E) as (-> & -> & ->). cbn [obind] in Hg. injection Hg as <- <- <-. auto.
    - cbn [hash_free] in Hf. destruct key as [|x kr]; [discriminate|].
      destruct (N.to_nat x <? length cs)%nat; [|discriminate].
      destruct (getB d gen f (cchild cs x) kr) as [[[v1 c1] dr1]| | |] eqn:E; try discriminate.
      destruct (IH _ _ _ _ _ (hash_free_cchild cs x Hf) E) as (-> & -> & ->). cbn [obind] in Hg.
      injection Hg as <- <- <-. cbn [erase]. rewrite get_full, erase_cchild. auto.
  Qed.

  (* ---------- insert ---------- *)
  Lemma erase_cinsert_nil k c : erase (cinsert_nil gen k c) = insert_nil k (erase c).
  Proof. destruct k; reflexivity. Qed.

  Lemma hash_free_cinsert_nil k c : hash_free c = true -> hash_free (cinsert_nil gen k c) = true.
  Proof. destruct k; auto. Qed.

  Lemma insertB_short f nk c fl x kr v :
    insertB d gen (S f) (CShort nk c fl) (x :: kr) v =
    if Nat.eqb (prefix_len (x :: kr) nk) (length nk) then
      obind (insertB d gen f c (skipn (prefix_len (x :: kr) nk) (x :: kr)) v) (fun r =>
        let '(dirty, nn) := r in
        if dirty then OK (true, CShort nk nn (new_flag gen)) else OK (false, CShort nk c fl))
    else
      if Nat.eqb (prefix_len (x :: kr) nk) 0 then
        OK (true, CFull (cset_nth (cset_nth cempty17 (N.to_nat (nth (prefix_len (x :: kr) nk) nk 0))
                                     (cinsert_nil gen (skipn (S (prefix_len (x :: kr) nk)) nk) c))
                           (N.to_nat (nth (prefix_len (x :: kr) nk) (x :: kr) 0))
                           (cinsert_nil gen (skipn (S (prefix_len (x :: kr) nk)) (x :: kr)) v)) (new_flag gen))
      else
        OK (true, CShort (firstn (prefix_len (x :: kr) nk) (x :: kr))
                    (CFull (cset_nth (cset_nth cempty17 (N.to_nat (nth (prefix_len (x :: kr) nk) nk 0))
                                        (cinsert_nil gen (skipn (S (prefix_len (x :: kr) nk)) nk) c))
                              (N.to_nat (nth (prefix_len (x :: kr) nk) (x :: kr) 0))
                              (cinsert_nil gen (skipn (S (prefix_len (x :: kr) nk)) (x :: kr)) v)) (new_flag gen))
                    (new_flag gen)).
  Proof. reflexivity. Qed.

  Lemma insert_short_cons nk c x kr v :
    insert (Short nk c) (x :: kr) v =
    if Nat.eqb (prefix_len (x :: kr) nk) (length nk) then
      let '(dirty, nn) := insert c (skipn (prefix_len (x :: kr) nk) (x :: kr)) v in
      if dirty then (true, Short nk nn) else (false, Short nk c)
    else
      if Nat.eqb (prefix_len (x :: kr) nk) 0 then
        (true, Full (set_nth (set_nth empty17 (N.to_nat (nth (prefix_len (x :: kr) nk) nk 0))
                                (insert_nil (skipn (S (prefix_len (x :: kr) nk)) nk) c))
                       (N.to_nat (nth (prefix_len (x :: kr) nk) (x :: kr) 0))
                       (insert_nil (skipn (S (prefix_len (x :: kr) nk)) (x :: kr)) v)))
      else
        (true, Short (firstn (prefix_len (x :: kr) nk) (x :: kr))
                 (Full (set_nth (set_nth empty17 (N.to_nat (nth (prefix_len (x :: kr) nk) nk 0))
                                   (insert_nil (skipn (S (prefix_len (x :: kr) nk)) nk) c))
                          (N.to_nat (nth (prefix_len (x :: kr) nk) (x :: kr) 0))
                          (insert_nil (skipn (S (prefix_len (x :: kr) nk)) (x :: kr)) v)))).
  Proof. reflexivity. Qed.

  Lemma insertB_full f cs fl x kr v :
    insertB d gen (S f) (CFull cs fl) (x :: kr) v =
    if (N.to_nat x <? length cs)%nat then
      obind (insertB d gen f (cchild cs x) kr v) (fun r =>
        let '(dirty, nn) := r in
        if dirty then OK (true, CFull (cset_nth cs (N.to_nat x) nn) (new_flag gen)) else OK (false, CFull cs fl))
    else Panic.
  Proof. reflexivity. Qed.

  Lemma insertB_sim : forall fuel c key v dty c', hash_free c = true -> hash_free v = true ->
    insertB d gen fuel c key v = OK (dty, c') ->
    insert (erase c) key (erase v) = (dty, erase c') /\ hash_free c' = true.
  Proof.
    induction fuel as [|f IH]; intros c key v dty c' Hf Hv Hi; [discriminate|].
    destruct key as [|x kr].
    - destruct c as [|v0|h|nk c0 fl|cs fl]; destruct v as [|v1|h1|nk1 c1 fl1|cs1 fl1];
        injection Hi as <- <-; cbn [erase insert]; auto; discriminate.
    - destruct c as [|v0|h|nk c0 fl|cs fl].
      + injection Hi as <- <-. cbn [erase insert hash_free]. auto.
      + discriminate.
      + discriminate.
      + cbn [hash_free] in Hf. rewrite insertB_short in Hi. cbn [erase]. rewrite insert_short_cons.
        destruct (Nat.eqb (prefix_len (x :: kr) nk) (length nk)).
        * destruct (insertB d gen f c0 (skipn (prefix_len (x :: kr) nk) (x :: kr)) v) as [[d1 n1]| | |] eqn:E; try discriminate.
          destruct (IH _ _ _ _ _ Hf Hv E) as [E1 H1]. rewrite E1. cbn [obind] in Hi.
          destruct d1; injection Hi as <- <-; cbn [erase hash_free]; auto.
        * destruct (Nat.eqb (prefix_len (x :: kr) nk) 0); ok_inj Hi; simpl_c;
            rewrite !erase_cset_nth, !erase_cinsert_nil, erase_cempty17;
            (split; [reflexivity | apply hash_free_cset_nth; [apply hash_free_cset_nth; [reflexivity|]|]; apply hash_free_cinsert_nil; auto]).
      + cbn [hash_free] in Hf. rewrite insertB_full in Hi. cbn [erase]. rewrite insert_full, map_length.
        destruct (N.to_nat x <? length cs)%nat; [|discriminate].
        destruct (insertB d gen f (cchild cs x) kr v) as [[d1 n1]| | |] eqn:E; try discriminate.
        destruct (IH _ _ _ _ _ (hash_free_cchild cs x Hf) Hv E) as [E1 H1].
        rewrite <- erase_cchild, E1. cbn [obind] in Hi.
        destruct d1; injection Hi as <- <-; cbn [erase hash_free]; [rewrite erase_cset_nth|]; split; auto.
        apply hash_free_cset_nth; auto.
  Qed.

  (* ---------- delete ---------- *)
  Lemma reduceB_sim cs n' : forallb hash_free cs = true -> reduceB d gen cs = OK n' ->
    erase n' = reduce (map erase cs) /\ hash_free n' = true.
  Proof.
    intros Hf Hr. unfold reduceB in Hr. unfold reduce. rewrite <- (clive_live cs 0 Hf).
    destruct (clive cs 0) as [|pos [|? ?]]; try (injection Hr as <-; cbn [erase hash_free]; auto; fail).
    pose proof (hash_free_cchild cs pos Hf) as Hc.
    destruct (negb (pos =? 16)).
    - rewrite <- erase_cchild. unfold resolveB in Hr.
      destruct (cchild cs pos) as [|v0|h|ck cv fl0|cs0 fl0] eqn:Ec; try discriminate;
        cbn [obind] in Hr; injection Hr as <-; cbn [erase hash_free]; rewrite ?Ec; auto.
    - injection Hr as <-. cbn [erase hash_free]. rewrite erase_cchild. auto.
  Qed.

  Lemma deleteB_sim : forall fuel c key dty c', hash_free c = true ->
    deleteB d gen fuel c key = OK (dty, c') ->
    delete (erase c) key = (dty, erase c') /\ hash_free c' = true.
  Proof.
    induction fuel as [|f IH]; intros c key dty c' Hf Hd; [discriminate|].
    cbn [deleteB] in Hd. destruct c as [|v0|h|nk c0 fl|cs fl].
    - injection Hd as <- <-. auto.
    - injection Hd as <- <-. auto.
    - discriminate.
    - cbn [hash_free] in Hf. cbn [erase delete].
      destruct (prefix_len key nk <? length nk)%nat; [injection Hd as <- <-; auto|].
      destruct (Nat.eqb (prefix_len key nk) (length key)); [injection Hd as <- <-; auto|].
      destruct (deleteB d gen f c0 (skipn (length nk) key)) as [[d1 n1]| | |] eqn:E; try discriminate.
      destruct (IH _ _ _ _ Hf E) as [E1 H1]. rewrite E1. cbn [obind] in Hd.
      destruct d1; [|injection Hd as <- <-; auto].
      destruct n1 as [|v1|h1|ck cv fl1|cs1 fl1]; injection Hd as <- <-; cbn [erase hash_free] in *; auto.
    - cbn [hash_free] in Hf. cbn [erase]. destruct key as [|x kr]; [discriminate|].
      rewrite delete_full, map_length. destruct (N.to_nat x <? length cs)%nat; [|discriminate].
      destruct (deleteB d gen f (cchild cs x) kr) as [[d1 n1]| | |] eqn:E; try discriminate.
      destruct (IH _ _ _ _ (hash_free_cchild cs x Hf) E) as [E1 H1].
      rewrite <- erase_cchild, E1. cbn [obind] in Hd.
      destruct d1; [|injection Hd as <- <-; auto].
      destruct (reduceB d gen (cset_nth cs (N.to_nat x) n1)) as [n2| | |] eqn:Er; try discriminate.
      cbn [obind] in Hd. injection Hd as <- <-.
      destruct (reduceB_sim _ _ (hash_free_cset_nth cs _ _ Hf H1) Er) as [E2 H2].
      rewrite E2, erase_cset_nth. auto.
  Qed.
End Sim.

(* ---------- coherence of cached hashes ---------- *)
Section Coh.
  Variable H : bytes -> bytes.

  Definition fl_ok (top : bool) (f : flags) (n : node) : Prop :=
    forall h, fhash f = Some h ->
      h = H (rlp (collapse H n)) /\ (top = false -> (32 <= length (rlp (collapse H n)))%nat).

  Fixpoint coh (top : bool) (c : cnode) : Prop :=
    match c with
    | CShort k c' f => fl_ok top f (Short k (erase c')) /\ coh false c'
    | CFull cs f => fl_ok top f (Full (map erase cs)) /\
                    (fix all (l : list cnode) : Prop := match l with [] => True | x :: r => coh false x /\ all r end) cs
    | _ => True
    end.

  Lemma coh_full top cs f : coh top (CFull cs f) <-> fl_ok top f (Full (map erase cs)) /\ Forall (coh false) cs.
  Proof.
    cbn [coh]. split; intros [Hf Ha]; (split; [exact Hf|]).
    - clear Hf. induction cs as [|x cs IH]; [constructor|]. destruct Ha as [Hx Ha]. constructor; [exact Hx | exact (IH Ha)].
    - clear Hf. induction Ha as [|x cs Hx Ha IH]; [exact I | split; [exact Hx | exact IH]].
  Qed.

  Lemma coh_short top k c f : coh top (CShort k c f) <-> fl_ok top f (Short k (erase c)) /\ coh false c.
  Proof. reflexivity. Qed.

  Lemma fl_ok_new top gen n : fl_ok top (new_flag gen) n.
  Proof. intros h E. discriminate E. Qed.

  Lemma coh_weaken top c : coh false c -> coh top c.
  Proof.
    destruct c as [|v|h|k c f|cs f]; auto.
    - intros [Hf Hc]. split; [|exact Hc]. intros h E. destruct (Hf h E) as [E1 E2]. split; [exact E1 | intros ->; apply E2; reflexivity].
    - intros Hc. apply coh_full in Hc as [Hf Ha]. apply coh_full. split; [|exact Ha].
      intros h E. destruct (Hf h E) as [E1 E2]. split; [exact E1 | intros ->; apply E2; reflexivity].
  Qed.

  Lemma coh_cchild cs x : Forall (coh false) cs -> coh false (cchild cs x).
  Proof.
    intros Ha. unfold cchild. destruct (Nat.lt_ge_cases (N.to_nat x) (length cs)).
    - rewrite Forall_forall in Ha. apply Ha, nth_In. assumption.
    - rewrite nth_overflow by assumption. exact I.
  Qed.

  Lemma coh_cset_nth cs : forall i c, Forall (coh false) cs -> coh false c -> Forall (coh false) (cset_nth cs i c).
  Proof.
    induction cs as [|x cs IH]; intros [|i] c Ha Hc; cbn [cset_nth]; auto; inversion Ha; subst; constructor; auto.
  Qed.

  Lemma coh_cempty17 : Forall (coh false) cempty17.
  Proof. unfold cempty17. apply Forall_forall. intros x Hx. apply repeat_spec in Hx. subst. exact I. Qed.

  Lemma coh_cinsert_nil gen k c : coh false c -> coh false (cinsert_nil gen k c).
  Proof. destruct k; [auto|]. intros Hc. split; [apply fl_ok_new | exact Hc]. Qed.

  Variable d : ndb.
  Variable gen : N.

  (* insert: every node on the modified path gets fresh flags, everything else is reused unchanged *)
  Lemma insertB_coh : forall fuel top c key v dty c', hash_free c = true -> coh top c -> coh false v ->
    insertB d gen fuel c key v = OK (dty, c') -> coh top c'.
  Proof.
    induction fuel as [|f IH]; intros top c key v dty c' Hfree Hc Hv Hi; [discriminate|].
    destruct key as [|x kr].
    - assert (c' = v) as ->; [|apply coh_weaken; exact Hv].
      destruct c as [|v0|h|nk c0 fl|cs fl]; destruct v as [|v1|h1|nk1 c1 fl1|cs1 fl1]; ok_inj Hi; reflexivity.
    - destruct c as [|v0|h|nk c0 fl|cs fl].
      + ok_inj Hi. split; [apply fl_ok_new | exact Hv].
      + discriminate.
      + discriminate Hfree.
      + apply coh_short in Hc as [Hfl Hc0]. rewrite insertB_short in Hi. rewrite hf_short in Hfree.
        destruct (Nat.eqb (prefix_len (x :: kr) nk) (length nk)).
        * destruct (insertB d gen f c0 (skipn (prefix_len (x :: kr) nk) (x :: kr)) v) as [[d1 n1]| | |] eqn:E; try discriminate.
          pose proof (IH false _ _ _ _ _ Hfree Hc0 Hv E) as H1. cbn [obind] in Hi.
          destruct d1; ok_inj Hi; [split; [apply fl_ok_new | exact H1] | split; assumption].
        * assert (Hb : Forall (coh false)
                    (cset_nth (cset_nth cempty17 (N.to_nat (nth (prefix_len (x :: kr) nk) nk 0))
                                 (cinsert_nil gen (skipn (S (prefix_len (x :: kr) nk)) nk) c0))
                       (N.to_nat (nth (prefix_len (x :: kr) nk) (x :: kr) 0))
                       (cinsert_nil gen (skipn (S (prefix_len (x :: kr) nk)) (x :: kr)) v))).
          { apply coh_cset_nth; [apply coh_cset_nth; [apply coh_cempty17|]|]; apply coh_cinsert_nil; assumption. }
          destruct (Nat.eqb (prefix_len (x :: kr) nk) 0); ok_inj Hi.
          -- apply coh_full. split; [apply fl_ok_new | exact Hb].
          -- apply coh_short. split; [apply fl_ok_new|]. apply coh_full. split; [apply fl_ok_new | exact Hb].
      + apply coh_full in Hc as [Hfl Ha]. rewrite insertB_full in Hi. rewrite hf_full in Hfree.
        destruct (N.to_nat x <? length cs)%nat; [|discriminate].
        destruct (insertB d gen f (cchild cs x) kr v) as [[d1 n1]| | |] eqn:E; try discriminate.
        pose proof (IH false _ _ _ _ _ (hash_free_cchild cs x Hfree) (coh_cchild cs x Ha) Hv E) as H1. cbn [obind] in Hi.
        destruct d1; ok_inj Hi; apply coh_full; split; auto; [apply fl_ok_new | apply coh_cset_nth; assumption].
  Qed.

  Lemma reduceB_coh cs n' : forallb hash_free cs = true -> Forall (coh false) cs ->
    reduceB d gen cs = OK n' -> forall top, coh top n'.
  Proof.
    intros Hfree Ha Hr top. unfold reduceB in Hr. pose proof (fun p => hash_free_cchild cs p Hfree) as Hfc.
    destruct (clive cs 0) as [|pos [|? ?]].
    - injection Hr as <-. apply coh_full. split; [apply fl_ok_new | exact Ha].
    - pose proof (coh_cchild cs pos Ha) as Hc. destruct (negb (pos =? 16)).
      + unfold resolveB in Hr. specialize (Hfc pos). destruct (cchild cs pos) as [|v0|h|ck cv fl0|cs0 fl0].
        * cbn [obind] in Hr. injection Hr as <-. split; [apply fl_ok_new | exact Hc].
        * cbn [obind] in Hr. injection Hr as <-. split; [apply fl_ok_new | exact Hc].
        * discriminate Hfc.
        * cbn [obind] in Hr. injection Hr as <-. split; [apply fl_ok_new | apply Hc].
        * cbn [obind] in Hr. injection Hr as <-. split; [apply fl_ok_new | exact Hc].
      + injection Hr as <-. split; [apply fl_ok_new | exact Hc].
    - injection Hr as <-. apply coh_full. split; [apply fl_ok_new | exact Ha].
  Qed.
  Lemma deleteB_coh : forall fuel top c key dty c', hash_free c = true -> coh top c ->
    deleteB d gen fuel c key = OK (dty, c') -> coh top c'.
  Proof.
    induction fuel as [|f IH]; intros top c key dty c' Hfree Hc Hd; [discriminate|].
    cbn [deleteB] in Hd. destruct c as [|v0|h|nk c0 fl|cs fl].
    - ok_inj Hd. exact I.
    - ok_inj Hd. exact I.
    - discriminate Hfree.
    - rewrite hf_short in Hfree. pose proof Hc as Hc'. apply coh_short in Hc' as [Hfl Hc0].
      destruct (prefix_len key nk <? length nk)%nat; [ok_inj Hd; exact Hc|].
      destruct (Nat.eqb (prefix_len key nk) (length key)); [ok_inj Hd; exact I|].
      destruct (deleteB d gen f c0 (skipn (length nk) key)) as [[d1 n1]| | |] eqn:E; try discriminate.
      pose proof (IH false _ _ _ _ Hfree Hc0 E) as H1. cbn [obind] in Hd.
      destruct d1; [|ok_inj Hd; exact Hc].
      destruct n1 as [|v1|h1|ck cv fl1|cs1 fl1]; ok_inj Hd; (split; [apply fl_ok_new|]); try exact H1. apply H1.
    - rewrite hf_full in Hfree. pose proof Hc as Hc'. apply coh_full in Hc' as [Hfl Ha].
      destruct key as [|x kr]; [discriminate|].
      destruct (N.to_nat x <? length cs)%nat; [|discriminate].
      destruct (deleteB d gen f (cchild cs x) kr) as [[d1 n1]| | |] eqn:E; try discriminate.
      pose proof (IH false _ _ _ _ (hash_free_cchild cs x Hfree) (coh_cchild cs x Ha) E) as H1.
      destruct (deleteB_sim d gen _ _ _ _ _ (hash_free_cchild cs x Hfree) E) as [_ Hf1].
      cbn [obind] in Hd. destruct d1; [|ok_inj Hd; exact Hc].
      destruct (reduceB d gen (cset_nth cs (N.to_nat x) n1)) as [n2| | |] eqn:Er; try discriminate.
      cbn [obind] in Hd. ok_inj Hd.
      apply (reduceB_coh _ _ (hash_free_cset_nth cs _ _ Hfree Hf1) (coh_cset_nth cs _ _ Ha H1) Er).
  Qed.
End Coh.

(* ---------- Trie.Hash (no database) with coherent flags ---------- *)
Fixpoint csize (c : cnode) : nat :=
  match c with
  | CShort _ c' _ => S (csize c')
  | CFull cs _ => S (list_sum (map csize cs))
  | _ => 1
  end.

Lemma csize_in c cs : In c cs -> (csize c <= list_sum (map csize cs))%nat.
Proof. induction cs as [|x cs IH]; [intros []|]. intros [->|Hin]; [|specialize (IH Hin)]; unfold list_sum in *; cbn [map fold_right]; lia. Qed.

Section HashSound.
  Variable H : bytes -> bytes.
  Variable gen limit : N.
  Notation hb := (hashB H false gen limit).

  Fixpoint hchildren (cs : list cnode) (i : nat) (db : ndb) : list item * list bytes * list cnode * ndb :=
    match cs with
    | [] => ([], [], [], db)
    | c :: r =>
        let '(it, k, cc, db1) :=
          match c with
          | CEmpty => (Str [], [], c, db)
          | _ => if (i <? 16)%nat then hb db c false
                 else (match c with CValue v => Str v | _ => Str [] end, [], c, db)
          end in
        let '(its, ks, ccs, db2) := hchildren r (S i) db1 in
        (it :: its, k ++ ks, cc :: ccs, db2)
    end.

  Lemma hashB_full db cs fl force :
    hb db (CFull cs fl) force =
    match fhash fl with
    | Some h => (Str h, [h], CFull cs fl, db)
    | None => let '(its, kids, ccs, db1) := hchildren cs 0 db in
              let '(hashed, kids', db2) := storeB H false db1 (Lst its) None kids force in
              (hashed, kids', CFull ccs (set_hash false fl hashed), db2)
    end.
  Proof. destruct fl as [[h|] dd gg]; reflexivity. Qed.

  Lemma hashB_short db k c fl force :
    hb db (CShort k c fl) force =
    match fhash fl with
    | Some h => (Str h, [h], CShort k c fl, db)
    | None => let '(cit, ckids, cc, db1) := match c with CValue v => (Str v, [], c, db) | _ => hb db c false end in
              let '(hashed, kids, db2) := storeB H false db1 (Lst [Str (hex_to_compact k); cit]) None ckids force in
              (hashed, kids, CShort k cc (set_hash false fl hashed), db2)
    end.
  Proof. destruct fl as [[h|] dd gg]; reflexivity. Qed.

  (* what the parent sees of a node: forced hash for the root, embed-or-hash for a child *)
  Definition seen (force : bool) (n : node) : item :=
    if force then Str (H (rlp (collapse H n))) else embed H (collapse H n).

  Definition sound (db : ndb) (c : cnode) (force : bool) : Prop :=
    let '(it, kids, c', db') := hb db c force in
    db' = db /\ erase c' = erase c /\ hash_free c' = true /\ coh H force c' /\ it = seen force (erase c).

  (* storing a collapsed node: embedded when small and not forced, else hashed; the new flags are coherent *)
  Lemma store_sound db n its kids force fl :
    collapse H n = Lst its -> fhash fl = None ->
    let '(hashed, kids', db2) := storeB H false db (Lst its) None kids force in
    db2 = db /\ hashed = seen force n /\ fl_ok H force (set_hash false fl hashed) n.
  Proof.
    intros Ec Efl. unfold storeB, seen. rewrite Ec. unfold embed.
    destruct (Nat.ltb_spec (length (rlp (Lst its))) 32) as [Hlt|Hge]; destruct force; cbn [andb negb];
      (split; [reflexivity|]); (split; [reflexivity|]); intros h Eh; cbn [set_hash fhash] in Eh;
      try discriminate; injection Eh as <-; rewrite Ec; split; auto; intros; try discriminate; exact Hge.
  Qed.

  Fixpoint slot_items (i : nat) (l : list node) : list item :=
    match l with
    | [] => []
    | n :: r => (if (i <? 16)%nat then embed H (collapse H n) else slot16 n) :: slot_items (S i) r
    end.

  Lemma slot_items_17 ecs : length ecs = 17%nat ->
    slot_items 0 ecs = firstn 16 (map (fun c => embed H (collapse H c)) ecs) ++ [slot16 (nth 16 ecs Empty)].
  Proof. intros Hl. do 17 (destruct ecs as [|? ecs]; [discriminate|]). destruct ecs; [reflexivity | discriminate]. Qed.

  Lemma hchildren_sound : forall cs i db,
    forallb hash_free cs = true -> Forall (coh H false) cs ->
    (forall j, (j < length cs)%nat -> (i + j < 16)%nat -> slot_ok (erase (nth j cs CEmpty))) ->
    (forall c, In c cs -> wfb (erase c) = true -> hash_free c = true -> coh H false c -> forall db, sound db c false) ->
    let '(its, kids, ccs, db') := hchildren cs i db in
    db' = db /\ map erase ccs = map erase cs /\ forallb hash_free ccs = true /\ Forall (coh H false) ccs /\
    its = slot_items i (map erase cs).
  Proof.
    induction cs as [|c cs IH]; intros i db Hfree Hcoh Hslot Hs; [cbn; repeat split; constructor|].
    cbn [forallb] in Hfree. apply andb_true_iff in Hfree as [Hfc Hfree]. inversion Hcoh as [|? ? Hcc Hcoh']; subst.
    assert (Hslot' : forall j, (j < length cs)%nat -> (S i + j < 16)%nat -> slot_ok (erase (nth j cs CEmpty))).
    { intros j Hj Hij. apply (Hslot (S j)); cbn [length]; lia. }
    assert (Hs' : forall c0, In c0 cs -> wfb (erase c0) = true -> hash_free c0 = true -> coh H false c0 -> forall db, sound db c0 false).
    { intros c0 Hin. apply Hs. right. exact Hin. }
    assert (Hhead : let '(it, k, cc, db1) :=
                      match c with
                      | CEmpty => (Str [], [], c, db)
                      | _ => if (i <? 16)%nat then hb db c false
                             else (match c with CValue v => Str v | _ => Str [] end, [], c, db)
                      end in
                    db1 = db /\ erase cc = erase c /\ hash_free cc = true /\ coh H false cc /\
                    it = (if (i <? 16)%nat then embed H (collapse H (erase c)) else slot16 (erase c))).
    { destruct (Nat.ltb_spec i 16) as [Hi|Hi].
      - pose proof (Hslot 0%nat ltac:(cbn [length]; lia) ltac:(lia)) as Hso. cbn [nth] in Hso.
        destruct Hso as [He|Hw].
        + destruct c; try discriminate He; try discriminate Hfc; cbv beta iota zeta; (split; [reflexivity|split; [reflexivity|split; [exact Hfc|split; [exact Hcc|reflexivity]]]]).
        + pose proof (Hs c (or_introl eq_refl) Hw Hfc Hcc db) as Hsd. unfold sound in Hsd.
          destruct c; try discriminate Hw; exact Hsd.
      - destruct c; try discriminate Hfc; cbv beta iota zeta; (split; [reflexivity|split; [reflexivity|split; [exact Hfc|split; [exact Hcc|reflexivity]]]]). }
    cbn [hchildren]. destruct (match c with CEmpty => _ | _ => _ end) as [[[it k] cc] db1].
    destruct Hhead as (-> & Ee & Hfcc & Hccc & ->).
    specialize (IH (S i) db Hfree Hcoh' Hslot' Hs'). destruct (hchildren cs (S i) db) as [[[its ks] ccs] db2].
    destruct IH as (-> & Em & Hfm & Hcm & ->).
    cbn [map forallb slot_items]. rewrite Ee, Em, Hfcc, Hfm. repeat split; auto.
  Qed.

  Theorem hashB_sound : forall m c force db, (csize c < m)%nat ->
    wfb (erase c) = true -> hash_free c = true -> coh H force c -> sound db c force.
  Proof.
    induction m as [|m IH]; intros c force db Hm Hw Hfree Hc; [lia|].
    destruct c as [|v|h|k c0 fl|cs fl]; try discriminate Hw.
    - (* short *)
      unfold sound. rewrite hashB_short. apply coh_short in Hc as [Hfl Hc0]. rewrite hf_short in Hfree.
      destruct (fhash fl) as [h|] eqn:Efl.
      + cbv beta iota zeta. split; [reflexivity|]. split; [reflexivity|]. split; [rewrite hf_short; exact Hfree|].
        split; [apply coh_short; split; assumption|].
        destruct (Hfl h Efl) as [-> Hge]. unfold seen. destruct force; [reflexivity|].
        specialize (Hge eq_refl). cbn [erase]. destruct (collapse_lst H _ Hw) as (l & El). cbn [erase] in El. rewrite El in *. unfold embed.
        destruct (Nat.ltb_spec (length (rlp (Lst l))) 32); [lia | reflexivity].
      + cbn [erase] in Hw. destruct (wf_short_inv _ _ Hw) as [(v & Ev & _)|(ecs & Ev & _ & _ & Hwc)].
        * destruct c0; try discriminate Ev. cbn [erase] in Ev. injection Ev as ->.
          pose proof (store_sound db (Short k (Value v)) [Str (hex_to_compact k); Str v] [] force fl eq_refl Efl) as Hst.
          destruct (storeB H false db (Lst [Str (hex_to_compact k); Str v]) None [] force) as [[hashed kids] db2].
          destruct Hst as (-> & -> & Hfl'). split; [reflexivity|]. split; [reflexivity|]. split; [reflexivity|].
          split; [apply coh_short; split; [exact Hfl' | exact I] | reflexivity].
        * assert (Hsd : sound db c0 false).
          { apply IH; [cbn [csize] in Hm; lia | rewrite Ev; exact Hwc | exact Hfree | exact Hc0]. }
          unfold sound in Hsd.
          assert (Enz : match c0 with CValue v => (Str v, [], c0, db) | _ => hb db c0 false end = hb db c0 false).
          { destruct c0; try reflexivity. discriminate Ev. }
          rewrite Enz. destruct (hb db c0 false) as [[[cit ckids] cc] db1]. destruct Hsd as (-> & Ee & Hfcc & Hccc & ->).
          assert (Ecol : collapse H (Short k (erase c0)) = Lst [Str (hex_to_compact k); seen false (erase c0)]).
          { rewrite Ev. reflexivity. }
          pose proof (store_sound db (Short k (erase c0)) _ ckids force fl Ecol Efl) as Hst.
          destruct (storeB H false db (Lst [Str (hex_to_compact k); seen false (erase c0)]) None ckids force) as [[hashed kids] db2].
          destruct Hst as (-> & -> & Hfl'). split; [reflexivity|]. split; [cbn [erase]; rewrite Ee; reflexivity|].
          split; [rewrite hf_short; exact Hfcc|]. split; [apply coh_short; rewrite Ee; split; assumption | reflexivity].
    - (* full *)
      unfold sound. rewrite hashB_full. pose proof Hc as Hc'. apply coh_full in Hc' as [Hfl Ha]. rewrite hf_full in Hfree.
      cbn [erase] in Hw. pose proof Hw as Hw'. apply wf_full in Hw' as (Hl & Hsl & _ & _).
      destruct (fhash fl) as [h|] eqn:Efl.
      + cbv beta iota zeta. split; [reflexivity|]. split; [reflexivity|]. split; [rewrite hf_full; exact Hfree|].
        split; [exact Hc|].
        destruct (Hfl h Efl) as [-> Hge]. unfold seen. destruct force; [reflexivity|].
        specialize (Hge eq_refl). cbn [erase]. destruct (collapse_lst H _ Hw) as (l & El). rewrite El in *. unfold embed.
        destruct (Nat.ltb_spec (length (rlp (Lst l))) 32); [lia | reflexivity].
      + assert (Hch := hchildren_sound cs 0 db Hfree Ha).
        destruct (hchildren cs 0 db) as [[[its kids] ccs] db1].
        destruct Hch as (-> & Em & Hfm & Hcm & ->).
        * intros j Hj Hj16. specialize (Hsl (N.of_nat j) ltac:(lia)). rewrite <- erase_cchild in Hsl.
          unfold cchild in Hsl. rewrite Nat2N.id in Hsl. exact Hsl.
        * intros c Hin Hwc Hfc Hcc db'. apply IH; auto. pose proof (csize_in c cs Hin). cbn [csize] in Hm. lia.
        * assert (Ecol : collapse H (Full (map erase cs)) = Lst (slot_items 0 (map erase cs))).
          { rewrite slot_items_17 by exact Hl. reflexivity. }
          pose proof (store_sound db (Full (map erase cs)) _ kids force fl Ecol Efl) as Hst.
          destruct (storeB H false db (Lst (slot_items 0 (map erase cs))) None kids force) as [[hashed kids'] db2].
          destruct Hst as (-> & -> & Hfl'). split; [reflexivity|]. split; [cbn [erase]; rewrite Em; reflexivity|].
          split; [rewrite hf_full; exact Hfm|]. split; [apply coh_full; rewrite Em; split; assumption | reflexivity].
  Qed.
End HashSound.

(* ---------- histories of update / delete / get / Hash on the cache model ---------- *)
From V.C02 Require Import Proofs.

Inductive ev := EUpd (k v : bytes) | EDel (k : bytes) | EGet (k : bytes) | EHash.
Inductive observation := OGet (v : option bytes) | ORoot (h : bytes).

Definition ev_ok (e : ev) : Prop :=
  match e with EUpd k _ | EDel k | EGet k => bytes_ok k | EHash => True end.

Section Histories.
  Variable H : bytes -> bytes.
  Variable d : ndb.

  (* layer A: the pure tree *)
  Fixpoint execA (n : node) (evs : list ev) : list observation :=
    match evs with
    | [] => []
    | EUpd k v :: r => execA (try_update n k v) r
    | EDel k :: r => execA (try_delete n k) r
    | EGet k :: r => OGet (try_get n k) :: execA n r
    | EHash :: r => ORoot (root_hash H n) :: execA n r
    end.

  (* layer B: nodes with flags; Hash caches hashes in the nodes, updates mark paths dirty *)
  Fixpoint execB (t : trieB) (evs : list ev) : outcome (list observation) :=
    match evs with
    | [] => OK []
    | EUpd k v :: r => obind (try_updateB d t k v) (fun t' => execB t' r)
    | EDel k :: r => obind (try_deleteB d t k) (fun t' => execB t' r)
    | EGet k :: r =>
        match try_getB d t k with
        | (OK v, t') => obind (execB t' r) (fun l => OK (OGet v :: l))
        | (Missing h, _) => Missing h
        | (Panic, _) => Panic
        | (NoFuel, _) => NoFuel
        end
    | EHash :: r => let '(h, t') := hash_trieB H d t in obind (execB t' r) (fun l => OK (ORoot h :: l))
    end.

  Definition Inv (t : trieB) (n : node) : Prop :=
    hash_free (troot t) = true /\ erase (troot t) = n /\ coh H true (troot t) /\ slot_ok n.

  Lemma inv_update t n k v t' : Inv t n -> bytes_ok k -> try_updateB d t k v = OK t' -> Inv t' (try_update n k v).
  Proof.
    intros (Hf & He & Hc & Hw) Hk Hu. unfold try_updateB in Hu. unfold try_update.
    pose proof (step_spec n (OUpdate k v) Hw Hk) as [Hw' _]. cbn [step] in Hw'. unfold try_update in Hw'.
    destruct v as [|b v].
    - destruct (deleteB d (tgen t) _ (troot t) (keybytes_to_hex k)) as [[dty c']| | |] eqn:E; try discriminate.
      cbn [obind snd] in Hu. injection Hu as <-. cbn [troot].
      destruct (deleteB_sim d _ _ _ _ _ _ Hf E) as [E1 Hf']. rewrite He in E1. rewrite E1. cbn [snd].
      repeat split; auto. apply (deleteB_coh H d _ _ true _ _ _ _ Hf Hc E). rewrite E1 in Hw'. exact Hw'.
    - destruct (insertB d (tgen t) _ (troot t) (keybytes_to_hex k) (CValue (b :: v))) as [[dty c']| | |] eqn:E; try discriminate.
      cbn [obind snd] in Hu. injection Hu as <-. cbn [troot].
      destruct (insertB_sim d (tgen t) _ (troot t) _ (CValue (b :: v)) dty c' Hf eq_refl E) as [E1 Hf']. rewrite He in E1. cbn [erase] in E1. rewrite E1. cbn [snd].
      repeat split; auto. apply (insertB_coh H d (tgen t) _ true (troot t) _ (CValue (b :: v)) dty c' Hf Hc I E). rewrite E1 in Hw'. exact Hw'.
  Qed.

  Lemma inv_delete t n k t' : Inv t n -> bytes_ok k -> try_deleteB d t k = OK t' -> Inv t' (try_delete n k).
  Proof.
    intros (Hf & He & Hc & Hw) Hk Hu. unfold try_deleteB in Hu. unfold try_delete.
    pose proof (step_spec n (ODelete k) Hw Hk) as [Hw' _]. cbn [step] in Hw'. unfold try_delete in Hw'.
    destruct (deleteB d (tgen t) _ (troot t) (keybytes_to_hex k)) as [[dty c']| | |] eqn:E; try discriminate.
    cbn [obind snd] in Hu. injection Hu as <-. cbn [troot].
    destruct (deleteB_sim d _ _ _ _ _ _ Hf E) as [E1 Hf']. rewrite He in E1. rewrite E1. cbn [snd].
    repeat split; auto. apply (deleteB_coh H d _ _ true _ _ _ _ Hf Hc E). rewrite E1 in Hw'. exact Hw'.
  Qed.

  Lemma inv_get t n k v t' : Inv t n -> try_getB d t k = (OK v, t') -> v = try_get n k /\ t' = t.
  Proof.
    intros (Hf & He & _) Hg. unfold try_getB in Hg. unfold try_get.
    destruct (getB d (tgen t) _ (troot t) (keybytes_to_hex k)) as [[[v1 c1] dr]| | |] eqn:E; try discriminate.
    destruct (getB_sim d _ _ _ _ _ _ _ Hf E) as (-> & -> & ->). rewrite He in Hg. injection Hg as <- <-. auto.
  Qed.

  Lemma hash_root_nonempty g l c : c <> CEmpty ->
    hash_rootB H false g l d c =
    (let '(hashed, _, cached, db') := hashB H false g l d c true in
     (match hashed with Str h => h | _ => [] end, cached, db')).
  Proof. destruct c; intros Hne; [congruence | reflexivity ..]. Qed.

  Lemma inv_hash t n h t' : Inv t n -> hash_trieB H d t = (h, t') -> h = root_hash H n /\ Inv t' n.
  Proof.
    intros (Hf & He & Hc & Hw) Hh. unfold hash_trieB in Hh.
    destruct Hw as [->|Hw].
    - destruct (troot t) eqn:Et; try discriminate He; try discriminate Hf.
      cbn in Hh. injection Hh as <- <-. split; [reflexivity|]. unfold Inv. cbn [troot].
      split; [reflexivity|]. split; [reflexivity|]. split; [exact I | left; reflexivity].
    - assert (Hne : troot t <> CEmpty) by (intros E; rewrite E in He; subst n; discriminate Hw).
      rewrite (hash_root_nonempty _ _ _ Hne) in Hh.
      pose proof (hashB_sound H (tgen t) (tlimit t) (S (csize (troot t))) (troot t) true d ltac:(lia)) as Hs.
      rewrite He in Hs. specialize (Hs Hw Hf Hc). unfold sound in Hs.
      destruct (hashB H false (tgen t) (tlimit t) d (troot t) true) as [[[it kids] c'] db'].
      destruct Hs as (Edb & Ee & Hf' & Hc' & Eit). subst it. unfold seen in Hh. injection Hh as <- <-.
      split; [rewrite He; destruct n; try discriminate Hw; reflexivity|].
      unfold Inv. cbn [troot]. split; [exact Hf'|]. split; [congruence|]. split; [exact Hc' | right; exact Hw].
  Qed.

  Theorem execB_refines : forall evs t n l, Inv t n -> Forall ev_ok evs ->
    execB t evs = OK l -> l = execA n evs.
  Proof.
    induction evs as [|e evs IH]; intros t n l HI Hok Hx; [injection Hx as <-; reflexivity|].
    inversion Hok as [|? ? He Hok']; subst. destruct e as [k v|k|k|]; cbn [execB execA] in *.
    - destruct (try_updateB d t k v) as [t'| | |] eqn:E; try discriminate. apply (IH t'); auto. apply (inv_update t); auto.
    - destruct (try_deleteB d t k) as [t'| | |] eqn:E; try discriminate. apply (IH t'); auto. apply (inv_delete t); auto.
    - destruct (try_getB d t k) as [[v| | |] t'] eqn:E; try discriminate.
      destruct (inv_get _ _ _ _ _ HI E) as [-> ->].
      destruct (execB t evs) as [l'| | |] eqn:E'; try discriminate. injection Hx as <-. f_equal. apply (IH t); auto.
    - destruct (hash_trieB H d t) as [h t'] eqn:E. destruct (inv_hash _ _ _ _ HI E) as [-> HI'].
      destruct (execB t' evs) as [l'| | |] eqn:E'; try discriminate. injection Hx as <-. f_equal. apply (IH t'); auto.
  Qed.

  Lemma inv_empty : Inv empty_trie Empty.
  Proof. repeat split; auto. left; reflexivity. Qed.
End Histories.
