(* C02 proofs, part 9 (layer B, reload): a trie in minimal form whose nodes are in the node database
   under their hashes is read back unchanged: decodeNode inverts the hasher's encoding, compactToHex
   inverts hexToCompact, embedded children are taken inline and hashed children resolved. *)
From Coq Require Import List Arith NArith Lia Bool.
From V.Base Require Import Hex.
From V.C08 Require Model Proofs.
From V.C02 Require Import Model Lemmas Sem InsDel Unique Iter Proofs Spec SpecProofs ModelB.
Import ListNotations.
Local Open Scope N_scope.

Inductive subnode : node -> node -> Prop :=
| sub_refl n : subnode n n
| sub_short n k c : subnode n c -> subnode n (Short k c)
| sub_full n cs x : x < 16 -> subnode n (child cs x) -> subnode n (Full cs).

Lemma subnode_trans a b c : subnode a b -> subnode b c -> subnode a c.
Proof. intros Hab Hbc. induction Hbc; [exact Hab | apply sub_short; auto | eapply sub_full; eauto]. Qed.

Lemma has_term_valid k : valid_key k = true -> has_term k = true.
Proof. intros Hv. destruct (valid_snoc k Hv) as (p & _ & ->). unfold has_term. rewrite last_last. reflexivity. Qed.

Lemma has_term_nibs k : nibs k = true -> has_term k = false.
Proof. intros Hn. unfold has_term. pose proof (nibs_last k Hn). destruct (N.eqb_spec (last k 0) 16); [lia | reflexivity]. Qed.

Lemma cs_rebuild cs : length cs = 17%nat -> map (child cs) nibbles16 ++ [child cs 16] = cs.
Proof. intros Hl. do 17 (destruct cs as [|? cs]; [discriminate|]). destruct cs; [reflexivity | discriminate]. Qed.

Lemma mapM_map_some {A B C} (ref : B -> option C) (g : A -> B) (h : A -> C) l :
  (forall x, In x l -> ref (g x) = Some (h x)) -> mapM ref (map g l) = Some (map h l).
Proof.
  induction l as [|a l IH]; intros Hg; [reflexivity|]. cbn [map mapM].
  rewrite (Hg a (or_introl eq_refl)), IH; [reflexivity|]. intros x Hx. apply Hg. right. exact Hx.
Qed.

Section B.
  Variable H : bytes -> bytes.
  Variable d : db.
  Hypothesis H32 : forall x, length (H x) = 32%nat.

  Definition enc (n : node) : bytes := rlp (collapse H n).

  (* the database holds every node of t that does not fit into its parent (RLP of 32 bytes or more)
     under its hash, and every node encoding is within what RLP carries (bytes < 256, lengths < 2^64) *)
  Definition stores (t : node) : Prop :=
    forall c, subnode c t -> wfb c = true ->
      C08.Model.item_ok (collapse H c) /\
      ((32 <= length (enc c))%nat -> d (H (enc c)) = Some (enc c)).

  Lemma stores_sub t c : stores t -> subnode c t -> stores c.
  Proof. intros Hs Hc c' Hc'. apply Hs. eapply subnode_trans; eassumption. Qed.

  Lemma load_ref_str ld h : length h = 32%nat ->
    load_ref d ld (Str h) = match d h with
                            | Some e => match C08.Model.decode_bytes e with
                                        | C08.Model.Ok it => ld it
                                        | C08.Model.Err _ => None
                                        end
                            | None => None
                            end.
  Proof. intros Hl. destruct h as [|b r]; [discriminate Hl|]. unfold load_ref. rewrite Hl. reflexivity. Qed.

  Lemma load_ref_hash ld c : wfb c = true -> stores c -> (32 <= length (enc c))%nat ->
    load_ref d ld (Str (H (enc c))) = ld (collapse H c).
  Proof.
    intros Hw Hs Hlen. destruct (Hs c (sub_refl c) Hw) as [Hok Hd].
    rewrite (load_ref_str _ _ (H32 (enc c))), (Hd Hlen). unfold enc.
    rewrite (C08.Proofs.decode_bytes_encode _ Hok). reflexivity.
  Qed.

  Lemma load_ref_embed f c : wfb c = true -> stores c -> load d f (collapse H c) = Some c ->
    load_ref d (load d f) (embed H (collapse H c)) = Some c.
  Proof.
    intros Hw Hs Hld. destruct (collapse_lst H c Hw) as (l & El).
    rewrite El. unfold embed. rewrite <- El. fold (enc c).
    destruct (Nat.ltb_spec (length (enc c)) 32) as [Hlt|Hge].
    - rewrite El. unfold load_ref. rewrite <- El. fold (enc c).
      destruct (Nat.leb_spec (length (enc c)) 32); [exact Hld | lia].
    - rewrite (load_ref_hash _ c Hw Hs Hge). exact Hld.
  Qed.

  Lemma load_ref_slot f c : slot_ok c -> stores c -> (wfb c = true -> load d f (collapse H c) = Some c) ->
    load_ref d (load d f) (embed H (collapse H c)) = Some c.
  Proof. intros [->|Hw] Hs Hld; [reflexivity | apply load_ref_embed; auto]. Qed.

  Theorem load_collapse : forall t, wfb t = true -> stores t ->
    forall fuel, (size t <= fuel)%nat -> load d fuel (collapse H t) = Some t.
  Proof.
    induction t as [|v0|nk c IH|cs IH] using node_ind'; intros Hw Hs fuel Hf; try discriminate.
    - (* short node *)
      destruct fuel as [|f]; [cbn [size] in Hf; lia|].
      destruct (wf_short_inv _ _ Hw) as [(v & -> & Hvk & Hv)|(cs & -> & Hne & Hnb & Hwc)].
      + cbn [collapse load length Nat.eqb]. unfold load_short.
        rewrite (compact_roundtrip nk (or_intror Hvk)), (has_term_valid nk Hvk). reflexivity.
      + change (collapse H (Short nk (Full cs))) with (Lst [Str (hex_to_compact nk); embed H (collapse H (Full cs))]).
        cbn [load length Nat.eqb]. unfold load_short.
        rewrite (compact_roundtrip nk (or_introl Hnb)), (has_term_nibs nk Hnb).
        rewrite load_ref_embed; [reflexivity | exact Hwc | |].
        * apply (stores_sub _ _ Hs). apply sub_short, sub_refl.
        * apply IH; [exact Hwc | apply (stores_sub _ _ Hs); apply sub_short, sub_refl|].
          change (size (Short nk (Full cs))) with (S (length nk + size (Full cs)))%nat in Hf. lia.
    - (* full node *)
      destruct fuel as [|f]; [cbn [size] in Hf; lia|].
      pose proof Hw as Hw'. apply wf_full in Hw' as (Hl & Hsl & H16 & _).
      rewrite collapse_full, (firstn16_children _ cs Hl). change (nth 16 cs Empty) with (child cs 16).
      set (g := fun x => embed H (collapse H (child cs x))).
      assert (Hlen : length (map g nibbles16 ++ [slot16 (child cs 16)]) = 17%nat) by (rewrite app_length, map_length; reflexivity).
      cbn [load]. rewrite Hlen. cbn [Nat.eqb]. unfold load_full.
      rewrite firstn_app, firstn_all2 by (rewrite map_length; cbn; lia).
      replace (16 - length (map g nibbles16))%nat with 0%nat by (rewrite map_length; reflexivity).
      cbn [firstn]. rewrite app_nil_r.
      rewrite app_nth2 by (rewrite map_length; cbn; lia).
      replace (16 - length (map g nibbles16))%nat with 0%nat by (rewrite map_length; reflexivity).
      cbn [nth].
      rewrite (mapM_map_some _ g (child cs) nibbles16).
      + destruct H16 as [E|(v & Hv & E)]; rewrite E; cbn [slot16].
        * rewrite <- E, (cs_rebuild cs Hl). reflexivity.
        * destruct v as [|b v]; [congruence|]. rewrite <- E, (cs_rebuild cs Hl). reflexivity.
      + intros x Hx. assert (Hx16 : x < 16) by (unfold nibbles16 in Hx; cbn [In] in Hx; lia).
        unfold g. apply load_ref_slot.
        * apply Hsl. exact Hx16.
        * apply (stores_sub _ _ Hs). eapply sub_full; [exact Hx16 | apply sub_refl].
        * intros Hwc. apply IH; [exact Hwc | apply (stores_sub _ _ Hs); eapply sub_full; [exact Hx16 | apply sub_refl]|].
          pose proof (size_child cs x). lia.
  Qed.

  (* reopening from the committed root gives back the trie *)
  Theorem reopen_roundtrip t : wf_trie t = true -> stores t ->
    (t <> Empty -> d (root_hash H t) = Some (root_rlp H t) /\ root_hash H t <> H [128]) ->
    reopen d (size t) (H [128]) (root_hash H t) = Some t.
  Proof.
    intros Ht Hs Hroot. apply wf_trie_slot in Ht as [->|Hw].
    - unfold reopen. cbn [root_hash]. rewrite keys_eqb_refl. reflexivity.
    - destruct (Hroot (wfb_not_empty t Hw)) as [Hd Hne]. unfold reopen.
      destruct (bytes_eqb (root_hash H t) (H [128])) eqn:E; [apply bytes_eqb_eq in E; contradiction|].
      assert (Er : root_hash H t = H (enc t)) by (destruct t; try discriminate; reflexivity).
      destruct (Hs t (sub_refl t) Hw) as [Hok _].
      rewrite Er in *. rewrite (load_ref_str _ _ (H32 (enc t))), Hd. unfold root_rlp. rewrite (C08.Proofs.decode_bytes_encode _ Hok).
      apply load_collapse; [exact Hw | exact Hs | lia].
  Qed.
End B.

(* ---------- Commit followed by reopen ---------- *)
Definition functional (l : list (bytes * bytes)) : Prop :=
  forall h e e', In (h, e) l -> In (h, e') l -> e = e'.

Lemma lookup_in l h e : functional l -> In (h, e) l -> lookup l h = Some e.
Proof.
  induction l as [|[k x] l IH]; intros Hf Hin; [destruct Hin|].
  cbn [lookup]. destruct (bytes_eqb k h) eqn:E.
  - apply bytes_eqb_eq in E. subst k. f_equal. apply (Hf h x e); [left; reflexivity | exact Hin].
  - destruct Hin as [Hin|Hin]; [injection Hin as -> ->; rewrite keys_eqb_refl in E; discriminate|].
    apply IH; [|exact Hin]. intros h' a b Ha Hb. apply (Hf h' a b); right; assumption.
Qed.

Lemma subnode_nodes c t : subnode c t -> wfb c = true -> In c (nodes t).
Proof.
  induction 1 as [n|n k c' Hs IH|n cs x Hx Hs IH]; intros Hw.
  - destruct n; try discriminate; left; reflexivity.
  - cbn [nodes]. right. apply IH. exact Hw.
  - cbn [nodes]. right. apply in_flat_map. exists (child cs x). split; [|apply IH; exact Hw].
    unfold child. destruct (Nat.lt_ge_cases (N.to_nat x) (length cs)) as [Hlt|Hge]; [apply nth_In; exact Hlt|].
    specialize (IH Hw). unfold child in IH. rewrite nth_overflow in IH by exact Hge. destruct IH.
Qed.

Section CommitReopen.
  Variable H : bytes -> bytes.
  Hypothesis H32 : forall x, length (H x) = 32%nat.

  (* Under the explicit hypotheses that no two different stored encodings share a hash (no collision
     among this trie's nodes and the empty root) and that every node is RLP-encodable, the database
     written by Commit reopens to the same trie. *)
  Theorem commit_reopen t : wf_trie t = true ->
    functional (commit_db H t) -> root_hash H t <> H [128] \/ t = Empty ->
    (forall c, In c (nodes t) -> C08.Model.item_ok (collapse H c)) ->
    reopen (lookup (commit_db H t)) (size t) (H [128]) (root_hash H t) = Some t.
  Proof.
    intros Ht Hfun Hne Hok. apply reopen_roundtrip; [exact H32 | exact Ht | |].
    - intros c Hc Hw. pose proof (subnode_nodes c t Hc Hw) as Hin. split; [apply Hok; exact Hin|].
      intros Hlen. apply lookup_in; [exact Hfun|].
      destruct t; try (destruct Hin; fail); right; apply in_map_iff; exists c; (split; [reflexivity|]);
        apply filter_In; (split; [exact Hin | apply Nat.leb_le; exact Hlen]).
    - intros Hnt. split; [|destruct Hne; [assumption | contradiction]].
      apply lookup_in; [exact Hfun|]. destruct t; try congruence; left; reflexivity.
  Qed.
End CommitReopen.
