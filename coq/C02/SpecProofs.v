(* C02 proofs, part 7: the collapsed form of a trie in minimal form is what the Yellow-Paper
   definition (Spec.v) computes from the list of its leaves; hence the model's root is the
   Yellow-Paper root of the content. *)
From Coq Require Import List Arith NArith Lia Bool.
From V.Base Require Import Hex.
From V.C02 Require Import Model Lemmas Sem InsDel Unique Iter Spec.
Import ListNotations.
Local Open Scope N_scope.

(* ---------- the leaves of a trie as Yellow-Paper pairs: paths without the terminator ---------- *)
Definition unterm (k : list N) : list N := filter (fun x => x <? 16) k.
Definition U (kv : list N * bytes) : list N * bytes := (unterm (fst kv), snd kv).
Definition leaves (n : node) : kvs := map U (iter n).

Lemma unterm_app a b : unterm (a ++ b) = unterm a ++ unterm b.
Proof. apply filter_app. Qed.

Lemma unterm_cons_nib x k : x < 16 -> unterm (x :: k) = x :: unterm k.
Proof. intros Hx. unfold unterm. cbn [filter]. destruct (N.ltb_spec x 16); [reflexivity | lia]. Qed.

Lemma unterm_nibs k : nibs k = true -> unterm k = k.
Proof.
  induction k as [|x k IH]; intros Hn; [reflexivity|]. apply nibs_cons in Hn as [Hx Hn].
  rewrite unterm_cons_nib by exact Hx. f_equal. apply IH. exact Hn.
Qed.

Lemma valid_snoc k : valid_key k = true -> exists p, nibs p = true /\ k = p ++ [16].
Proof.
  induction k as [|x k IH]; intros Hv; [discriminate|].
  apply valid_cons in Hv as [[-> ->]|[Hx Hv]].
  - exists []. split; reflexivity.
  - destruct (IH Hv) as (p & Hp & ->). exists (x :: p). split; [apply nibs_cons; auto | reflexivity].
Qed.

(* ---------- hex-prefix: encoding.go hexToCompact = HP ---------- *)
Lemma forall_lt16 (P : N -> bool) :
  forallb P (map N.of_nat (seq 0 16)) = true -> forall x, x < 16 -> P x = true.
Proof.
  intros Hall x Hx. rewrite forallb_forall in Hall. apply Hall.
  apply in_map_iff. exists (N.to_nat x). split; [apply N2Nat.id|]. apply in_seq. lia.
Qed.

Lemma lor_nib a b : a < 16 -> b < 16 -> N.lor ((a * 16) mod 256) b = 16 * a + b.
Proof.
  intros Ha Hb.
  pose (P := fun a => forallb (fun b => N.lor ((a * 16) mod 256) b =? 16 * a + b) (map N.of_nat (seq 0 16))).
  assert (HP : P a = true) by (apply forall_lt16; [vm_compute; reflexivity | exact Ha]).
  unfold P in HP. apply N.eqb_eq. apply (forall_lt16 _ HP b Hb).
Qed.

Lemma lor_flag x : x < 16 -> N.lor 48 x = 48 + x /\ N.lor 16 x = 16 + x.
Proof.
  intros Hx.
  pose (P := fun x => (N.lor 48 x =? 48 + x) && (N.lor 16 x =? 16 + x)).
  assert (HP : P x = true) by (apply forall_lt16; [vm_compute; reflexivity | exact Hx]).
  unfold P in HP. apply andb_true_iff in HP as [H1 H2]. split; apply N.eqb_eq; assumption.
Qed.

Lemma decode_pack : forall k, nibs k = true -> decode_nibbles k = pack k.
Proof.
  fix IH 1. intros [|a [|b r]] Hn; try reflexivity.
  apply nibs_cons in Hn as [Ha Hn]. apply nibs_cons in Hn as [Hb Hn].
  cbn [decode_nibbles pack]. f_equal; [apply lor_nib; assumption | apply IH; exact Hn].
Qed.

Lemma nibs_last p : nibs p = true -> last p 0 < 16.
Proof.
  induction p as [|x p IH]; intros Hn; [cbn; lia|]. apply nibs_cons in Hn as [Hx Hn].
  destruct p as [|z p]; [exact Hx|]. change (last (x :: z :: p) 0) with (last (z :: p) 0). apply IH. exact Hn.
Qed.

Lemma nibs_hd p : nibs p = true -> hd 0 p < 16.
Proof. destruct p as [|x p]; intros Hn; [cbn; lia|]. apply nibs_cons in Hn as [Hx _]. exact Hx. Qed.

Lemma nibs_tl p : nibs p = true -> nibs (tl p) = true.
Proof. destruct p as [|x p]; intros Hn; [reflexivity|]. apply nibs_cons in Hn as [_ Hn]. exact Hn. Qed.

Lemma compact_leaf p : nibs p = true -> hex_to_compact (p ++ [16]) = hp p true.
Proof.
  intros Hp. unfold hex_to_compact, has_term. rewrite last_last. cbn [N.eqb Pos.eqb].
  rewrite removelast_last. unfold hp. rewrite <- Nat.negb_even.
  destruct (Nat.even (length p)); cbn [negb].
  - f_equal. apply decode_pack. exact Hp.
  - f_equal.
    + change (32 * 1) with 32. change (N.lor 32 16) with 48. change (16 * (2 + 1)) with 48.
      apply lor_flag. apply nibs_hd. exact Hp.
    + apply decode_pack. apply nibs_tl. exact Hp.
Qed.

Lemma compact_ext p : nibs p = true -> hex_to_compact p = hp p false.
Proof.
  intros Hp. unfold hex_to_compact, has_term.
  pose proof (nibs_last p Hp) as Hl. destruct (N.eqb_spec (last p 0) 16) as [E|_]; [lia|].
  unfold hp. rewrite <- Nat.negb_even.
  destruct (Nat.even (length p)); cbn [negb].
  - f_equal. apply decode_pack. exact Hp.
  - f_equal.
    + change (32 * 0) with 0. change (N.lor 0 16) with 16. change (16 * (0 + 1)) with 16.
      apply lor_flag. apply nibs_hd. exact Hp.
    + apply decode_pack. apply nibs_tl. exact Hp.
Qed.

(* ---------- longest common prefix ---------- *)
Lemma cpre_app p a b : cpre (p ++ a) (p ++ b) = p ++ cpre a b.
Proof. induction p as [|x p IH]; [reflexivity|]. cbn [app cpre]. rewrite N.eqb_refl, IH. reflexivity. Qed.

Lemma cpre_prefix_l a : forall b, exists r, a = cpre a b ++ r.
Proof.
  induction a as [|x a IH]; intros b; [exists []; reflexivity|].
  destruct b as [|z b]; [exists (x :: a); reflexivity|]. cbn [cpre].
  destruct (x =? z); [|exists (x :: a); reflexivity].
  destruct (IH b) as (r & E). exists r. cbn [app]. f_equal. exact E.
Qed.

Lemma cpre_prefix_r a : forall b, exists r, b = cpre a b ++ r.
Proof.
  induction a as [|x a IH]; intros b; [exists b; reflexivity|].
  destruct b as [|z b]; [exists []; reflexivity|]. cbn [cpre].
  destruct (N.eqb_spec x z) as [->|_]; [|exists (z :: b); reflexivity].
  destruct (IH b) as (r & E). exists r. cbn [app]. f_equal. exact E.
Qed.

Lemma lcp_cons k k1 ks : lcp (k :: k1 :: ks) = cpre k (lcp (k1 :: ks)).
Proof. reflexivity. Qed.

Lemma lcp_prefix ks : forall k, In k ks -> exists r, k = lcp ks ++ r.
Proof.
  induction ks as [|k0 ks IH]; intros k Hin; [destruct Hin|].
  destruct ks as [|k1 ks].
  - destruct Hin as [<-|[]]. exists []. cbn [lcp]. rewrite app_nil_r. reflexivity.
  - rewrite lcp_cons. destruct Hin as [<-|Hin].
    + apply cpre_prefix_l.
    + destruct (IH k Hin) as (r & E). destruct (cpre_prefix_r k0 (lcp (k1 :: ks))) as (r' & E').
      exists (r' ++ r). rewrite app_assoc, <- E'. exact E.
Qed.

(* every common prefix is a prefix of [lcp]: it is the longest one *)
Lemma cpre_max q a b ra rb : a = q ++ ra -> b = q ++ rb -> exists r, cpre a b = q ++ r.
Proof. intros -> ->. rewrite cpre_app. eauto. Qed.

Lemma lcp_max ks q : ks <> [] -> (forall k, In k ks -> exists r, k = q ++ r) -> exists r, lcp ks = q ++ r.
Proof.
  induction ks as [|k0 ks IH]; intros Hne Hq; [congruence|].
  destruct ks as [|k1 ks]; [apply Hq; left; reflexivity|].
  rewrite lcp_cons. destruct (Hq k0 (or_introl eq_refl)) as (r0 & E0).
  destruct IH as (r1 & E1); [discriminate | intros k Hk; apply Hq; right; exact Hk|].
  eapply cpre_max; eassumption.
Qed.

Lemma lcp_map_app p ks : ks <> [] -> lcp (map (app p) ks) = p ++ lcp ks.
Proof.
  induction ks as [|k0 ks IH]; intros Hne; [congruence|].
  destruct ks as [|k1 ks]; [reflexivity|].
  cbn [map]. rewrite !lcp_cons. cbn [map] in IH. rewrite IH by discriminate. apply cpre_app.
Qed.

(* two keys that part at their first symbol *)
Definition diff (a b : list N) : Prop :=
  match a, b with
  | x :: _, z :: _ => x <> z
  | [], _ :: _ => True
  | _ :: _, [] => True
  | [], [] => False
  end.

Lemma diff_ne a b : diff a b -> a <> b.
Proof. intros Hd ->. destruct b; cbn in Hd; [exact Hd | congruence]. Qed.

Lemma lcp_nil_of_diff ks k1 k2 : In k1 ks -> In k2 ks -> diff k1 k2 -> lcp ks = [].
Proof.
  intros H1 H2 Hd. destruct (lcp_prefix ks k1 H1) as (r1 & E1), (lcp_prefix ks k2 H2) as (r2 & E2).
  destruct (lcp ks) as [|x p]; [reflexivity|]. subst k1 k2. cbn in Hd. congruence.
Qed.

Definition two_entries (J : kvs) : Prop :=
  exists e1 e2, In e1 J /\ In e2 J /\ diff (fst e1) (fst e2).

Lemma two_entries_shape J : two_entries J -> exists a b r, J = a :: b :: r.
Proof.
  intros (e1 & e2 & H1 & H2 & Hd). destruct J as [|a [|b r]]; [destruct H1 | | eauto].
  destruct H1 as [<-|[]], H2 as [<-|[]]. exfalso. exact (diff_ne _ _ Hd eq_refl).
Qed.

Lemma two_entries_lcp J : two_entries J -> lcp (map fst J) = [].
Proof.
  intros (e1 & e2 & H1 & H2 & Hd).
  apply (lcp_nil_of_diff _ (fst e1) (fst e2)); [apply in_map; exact H1 | apply in_map; exact H2 | exact Hd].
Qed.

(* ---------- shape of the leaf list ---------- *)
Definition pre (p : list N) (kv : list N * bytes) : list N * bytes := (p ++ fst kv, snd kv).

Lemma leaves_short k c : leaves (Short k c) = map (pre (unterm k)) (leaves c).
Proof.
  unfold leaves. rewrite iter_short, !map_map. apply map_ext. intros [r v]. unfold U, pre. cbn [fst snd].
  rewrite unterm_app. reflexivity.
Qed.

Lemma leaves_value v : leaves (Value v) = [([], v)].
Proof. reflexivity. Qed.

Definition lsl (l : list node) (b : N) : kvs := map U (iter_slots l b).

Lemma lsl_cons c r b : b < 16 -> lsl (c :: r) b = map (pre [b]) (leaves c) ++ lsl r (b + 1).
Proof.
  intros Hb. unfold lsl, leaves. cbn [iter_slots]. rewrite map_app, !map_map. f_equal.
  apply map_ext. intros [k v]. unfold U, pre. cbn [fst snd app]. rewrite unterm_cons_nib by exact Hb. reflexivity.
Qed.

Lemma iter_slots_app a : forall b i, iter_slots (a ++ b) i = iter_slots a i ++ iter_slots b (i + N.of_nat (length a)).
Proof.
  induction a as [|c a IH]; intros b i.
  - cbn [app iter_slots length]. f_equal. lia.
  - cbn [app iter_slots length]. rewrite IH, app_assoc. f_equal. f_equal. lia.
Qed.

Lemma split17 (cs : list node) : length cs = 17%nat ->
  exists l, cs = l ++ [child cs 16] /\ length l = 16%nat /\ forall x, x < 16 -> nth (N.to_nat x) l Empty = child cs x.
Proof.
  intros Hl. exists (firstn 16 cs). split; [|split].
  - do 17 (destruct cs as [|? cs]; [discriminate|]). destruct cs; [reflexivity | discriminate].
  - rewrite firstn_length. lia.
  - intros x Hx. unfold child. apply nth_firstn_lt. lia.
Qed.

Lemma leaves_full cs : wfb (Full cs) = true ->
  exists l, length l = 16%nat /\ (forall x, x < 16 -> nth (N.to_nat x) l Empty = child cs x) /\
            leaves (Full cs) = lsl l 0 ++ match child cs 16 with Value v => [([], v)] | _ => [] end.
Proof.
  intros Hw. apply wf_full in Hw as (Hl & _ & H16 & _).
  destruct (split17 cs Hl) as (l & E & Hll & Hn). exists l. split; [exact Hll|]. split; [exact Hn|].
  unfold leaves. rewrite iter_full. rewrite E at 1. rewrite iter_slots_app, map_app, Hll. f_equal.
  destruct H16 as [->|(v & _ & ->)]; reflexivity.
Qed.

(* ---------- sub / vslot on the leaf list of a branch ---------- *)
Lemma sub_app A B x : sub (A ++ B) x = sub A x ++ sub B x.
Proof. apply flat_map_app. Qed.

Lemma sub_pre b L x : sub (map (pre [b]) L) x = if b =? x then L else [].
Proof.
  induction L as [|[k v] L IH]; [destruct (b =? x); reflexivity|].
  cbn [map]. change (sub (pre [b] (k, v) :: map (pre [b]) L) x)
    with ((if b =? x then [(k, v)] else []) ++ sub (map (pre [b]) L) x).
  rewrite IH. destruct (b =? x); reflexivity.
Qed.

Lemma sub_lsl l : forall b x, b + N.of_nat (length l) <= 16 ->
  sub (lsl l b) x = if b <=? x then leaves (nth (N.to_nat (x - b)) l Empty) else [].
Proof.
  induction l as [|c l IH]; intros b x Hb.
  - cbn. destruct (b <=? x); [destruct (N.to_nat (x - b)); reflexivity | reflexivity].
  - cbn [length] in Hb. rewrite lsl_cons by lia. rewrite sub_app, sub_pre, IH by lia.
    destruct (N.eqb_spec b x) as [->|Hne].
    + destruct (N.leb_spec (x + 1) x); [lia|]. destruct (N.leb_spec x x); [|lia].
      rewrite N.sub_diag, app_nil_r. reflexivity.
    + cbn [app]. destruct (N.leb_spec (b + 1) x), (N.leb_spec b x); try lia; [|reflexivity].
      replace (N.to_nat (x - b)) with (S (N.to_nat (x - (b + 1)))) by lia. reflexivity.
Qed.

Definition isnil (kv : list N * bytes) : bool := match fst kv with [] => true | _ => false end.

Lemma find_app_none {A} (f : A -> bool) a b : find f a = None -> find f (a ++ b) = find f b.
Proof. induction a as [|x a IH]; [reflexivity|]. cbn [find app]. destruct (f x); [discriminate | exact IH]. Qed.

Lemma find_lsl l : forall b, b + N.of_nat (length l) <= 16 -> find isnil (lsl l b) = None.
Proof.
  induction l as [|c l IH]; intros b Hb; [reflexivity|].
  cbn [length] in Hb. rewrite lsl_cons by lia. rewrite find_app_none; [apply IH; lia|].
  induction (leaves c) as [|[k v] L IHL]; [reflexivity|]. exact IHL.
Qed.

(* ---------- fuel ---------- *)
Lemma measure_app A B : measure (A ++ B) = (measure A + measure B)%nat.
Proof. unfold measure. rewrite map_app, list_sum_app. reflexivity. Qed.

Lemma measure_sub J x : (measure (sub J x) + length (sub J x) <= measure J)%nat.
Proof.
  induction J as [|[k v] J IH]; [cbn; lia|].
  change (sub ((k, v) :: J) x) with ((match k with z :: r => if z =? x then [(r, v)] else [] | [] => [] end) ++ sub J x).
  rewrite measure_app, app_length. change (measure ((k, v) :: J)) with (S (length k) + measure J)%nat.
  destruct k as [|z r]; [cbn; lia|]. destruct (z =? x); cbn; lia.
Qed.

Lemma measure_pre p L : p <> [] -> (measure L + length L <= measure (map (pre p) L))%nat.
Proof.
  intros Hp. induction L as [|[k v] L IH]; [cbn; lia|].
  cbn [map]. change (measure (pre p (k, v) :: map (pre p) L)) with (S (length (p ++ k)) + measure (map (pre p) L))%nat.
  change (measure ((k, v) :: L)) with (S (length k) + measure L)%nat. rewrite app_length. cbn [length].
  destruct p; [congruence|]. cbn [length]. lia.
Qed.

(* ---------- every trie in minimal form has a leaf; a branch has two that part at once ---------- *)
Lemma iter_nonempty n : wfb n = true -> iter n <> [].
Proof.
  induction n as [|v0|nk c IH|cs IH] using node_ind'; intros Hw; try discriminate.
  - rewrite iter_short. destruct (wf_short_inv _ _ Hw) as [(v & -> & _)|(cs & -> & _ & _ & Hwc)].
    + discriminate.
    + specialize (IH Hwc). destruct (iter (Full cs)); [congruence | discriminate].
  - pose proof Hw as Hw'. apply wf_full in Hw' as (Hl & Hs & H16 & (i & _ & _ & Hi & _ & Hci & _)).
    assert (Hex : exists r v, In (r, v) (iter (child cs i))).
    { destruct (N.eq_dec i 16) as [->|Hne].
      - destruct H16 as [E|(v & _ & E)]; [congruence|]. rewrite E. exists [], v. left; reflexivity.
      - destruct (Hs i ltac:(lia)) as [E|Hwc]; [congruence|].
        specialize (IH i Hwc). destruct (iter (child cs i)) as [|[r v] ?]; [congruence|]. exists r, v. left; reflexivity. }
    destruct Hex as (r & v & Hin). intros E.
    assert (Hin' : In (i :: r, v) (iter (Full cs))) by (apply (in_iter_full cs _ _ Hl); exists i, r; auto).
    rewrite E in Hin'. exact Hin'.
Qed.

(* the leaf list has an entry under every slot in use *)
Lemma full_entry cs i : wfb (Full cs) = true -> i <= 16 -> child cs i <> Empty ->
  exists e, In e (leaves (Full cs)) /\ (i < 16 -> exists r, fst e = i :: r) /\ (i = 16 -> fst e = []).
Proof.
  intros Hw Hi Hci. pose proof Hw as Hw'. apply wf_full in Hw' as (Hl & Hs & H16 & _).
  destruct (N.eq_dec i 16) as [->|Hne].
  - destruct H16 as [E|(v & _ & E)]; [congruence|].
    exists ([], v). split; [|split; [lia | reflexivity]].
    apply in_map_iff. exists ([16], v). split; [reflexivity|].
    apply (in_iter_full cs _ _ Hl). exists 16, []. rewrite E. repeat split; [lia | left; reflexivity].
  - assert (Hi16 : i < 16) by lia. destruct (Hs i Hi16) as [E|Hwc]; [congruence|].
    pose proof (iter_nonempty _ Hwc) as Hne'. destruct (iter (child cs i)) as [|[r v] rest] eqn:Eit; [congruence|].
    exists (i :: unterm r, v). split; [|split; [intros _; eexists; reflexivity | lia]].
    apply in_map_iff. exists (i :: r, v). split; [unfold U; cbn [fst snd]; rewrite unterm_cons_nib by exact Hi16; reflexivity|].
    apply (in_iter_full cs _ _ Hl). exists i, r. rewrite Eit. repeat split; [lia | left; reflexivity].
Qed.

Lemma full_two_entries cs : wfb (Full cs) = true -> two_entries (leaves (Full cs)).
Proof.
  intros Hw. pose proof Hw as Hw'. apply wf_full in Hw' as (_ & _ & _ & (i & j & Hij & Hi & Hj & Hci & Hcj)).
  destruct (full_entry cs i Hw Hi Hci) as (e1 & H1 & A1 & B1).
  destruct (full_entry cs j Hw Hj Hcj) as (e2 & H2 & A2 & B2).
  exists e1, e2. split; [exact H1|]. split; [exact H2|].
  destruct (N.eq_dec i 16) as [Ei|Ei], (N.eq_dec j 16) as [Ej|Ej].
  - congruence.
  - rewrite (B1 Ei). destruct (A2 ltac:(lia)) as (r & ->). exact I.
  - rewrite (B2 Ej). destruct (A1 ltac:(lia)) as (r & ->). exact I.
  - destruct (A1 ltac:(lia)) as (r1 & ->). destruct (A2 ltac:(lia)) as (r2 & ->). exact Hij.
Qed.

(* ---------- the main lemma: collapse = c(J) ---------- *)
Lemma mapM_some {A B} (g : A -> option B) (h : A -> B) l :
  (forall x, In x l -> g x = Some (h x)) -> mapM g l = Some (map h l).
Proof.
  induction l as [|a l IH]; intros Hg; [reflexivity|]. cbn [mapM map].
  rewrite (Hg a (or_introl eq_refl)), IH; [reflexivity|]. intros x Hx. apply Hg. right. exact Hx.
Qed.

Lemma firstn16_children {A} (f : node -> A) cs : length cs = 17%nat ->
  firstn 16 (map f cs) = map (fun x => f (child cs x)) nibbles16.
Proof.
  intros Hl. do 17 (destruct cs as [|? cs]; [discriminate|]). destruct cs; [reflexivity | discriminate].
Qed.

Lemma leaves_nonempty n : wfb n = true -> leaves n <> [].
Proof.
  intros Hw E. apply (iter_nonempty n Hw). unfold leaves in E. destruct (iter n); [reflexivity | discriminate].
Qed.

Section Main.
  Variable H : bytes -> bytes.

  Lemma spec_c_many f J : (2 <= length J)%nat ->
    spec_c H (S f) J =
    match lcp (map fst J) with
    | [] => match mapM (fun x => spec_n H f (sub J x)) nibbles16 with
            | Some us => Some (Lst (us ++ [Str (vslot J)]))
            | None => None
            end
    | p => match spec_n H f (drop_prefix p J) with
           | Some c => Some (Lst [Str (hp p false); c])
           | None => None
           end
    end.
  Proof. destruct J as [|[k v] [|e2 r]]; cbn [length]; try lia. reflexivity. Qed.

  Lemma embed_cap l : embed H (Lst l) = cap H (Lst l).
  Proof. reflexivity. Qed.

  Lemma collapse_lst n : wfb n = true -> exists l, collapse H n = Lst l.
  Proof. destruct n; try discriminate; intros _; eexists; reflexivity. Qed.

  Lemma collapse_full cs :
    collapse H (Full cs) = Lst (firstn 16 (map (fun c => embed H (collapse H c)) cs) ++ [slot16 (nth 16 cs Empty)]).
  Proof. reflexivity. Qed.

  (* n(J) on the leaves of one slot *)
  Lemma spec_n_slot f c : slot_ok c ->
    (wfb c = true -> spec_c H f (leaves c) = Some (collapse H c)) ->
    spec_n H f (leaves c) = Some (embed H (collapse H c)).
  Proof.
    intros [->|Hw] Hc; [reflexivity|].
    pose proof (leaves_nonempty c Hw) as Hne. unfold spec_n.
    destruct (leaves c) as [|e L] eqn:E; [congruence|].
    rewrite (Hc Hw). destruct (collapse_lst c Hw) as (l & ->). reflexivity.
  Qed.

  Lemma measure_two a b r : (2 <= measure (a :: b :: r))%nat.
  Proof. unfold measure. cbn [map list_sum fold_right]. lia. Qed.

  Theorem spec_c_collapse : forall t, wfb t = true ->
    forall fuel, (measure (leaves t) <= fuel)%nat -> spec_c H fuel (leaves t) = Some (collapse H t).
  Proof.
    induction t as [|v0|nk c IH|cs IH] using node_ind'; intros Hw fuel Hf; try discriminate.
    - (* short node *)
      destruct (wf_short_inv _ _ Hw) as [(v & -> & Hvk & Hv)|(cs & -> & Hne & Hnb & Hwc)].
      + (* leaf *)
        destruct (valid_snoc nk Hvk) as (p & Hp & ->).
        assert (E : leaves (Short (p ++ [16]) (Value v)) = [(p, v)]).
        { rewrite leaves_short, leaves_value. cbn [map]. unfold pre. cbn [fst snd].
          rewrite unterm_app, (unterm_nibs p Hp), !app_nil_r. reflexivity. }
        rewrite E in *. destruct fuel as [|f]; [cbn in Hf; lia|].
        cbn [spec_c collapse]. rewrite (compact_leaf p Hp). reflexivity.
      + (* extension *)
        pose proof (full_two_entries cs Hwc) as H2.
        assert (EL : leaves (Short nk (Full cs)) = map (pre nk) (leaves (Full cs)))
          by (rewrite leaves_short, (unterm_nibs nk Hnb); reflexivity).
        rewrite EL in *.
        pose proof (measure_pre nk (leaves (Full cs)) Hne) as Hm.
        destruct (two_entries_shape _ H2) as (a & b & r & EJ).
        assert (Hlen : (2 <= length (leaves (Full cs)))%nat) by (rewrite EJ; cbn; lia).
        assert (Elcp : lcp (map fst (map (pre nk) (leaves (Full cs)))) = nk).
        { replace (map fst (map (pre nk) (leaves (Full cs)))) with (map (app nk) (map fst (leaves (Full cs))))
            by (rewrite !map_map; reflexivity).
          rewrite lcp_map_app by (rewrite EJ; discriminate). rewrite (two_entries_lcp _ H2). apply app_nil_r. }
        assert (Edrop : drop_prefix nk (map (pre nk) (leaves (Full cs))) = leaves (Full cs)).
        { unfold drop_prefix. rewrite map_map. rewrite <- (map_id (leaves (Full cs))) at 2.
          apply map_ext. intros [k v]. unfold pre. cbn [fst snd]. rewrite skipn_app_len. reflexivity. }
        destruct fuel as [|f]; [lia|].
        rewrite spec_c_many by (rewrite map_length; exact Hlen). rewrite Elcp.
        destruct nk as [|x nk]; [congruence|]. cbv beta iota zeta. rewrite Edrop.
        assert (En : spec_n H f (leaves (Full cs)) = Some (embed H (collapse H (Full cs)))).
        { apply spec_n_slot; [right; exact Hwc|]. intros _. apply IH; [exact Hwc | lia]. }
        rewrite En. cbn [collapse]. rewrite (compact_ext (x :: nk) Hnb). reflexivity.
    - (* full node *)
      pose proof Hw as Hw'. apply wf_full in Hw' as (Hl & Hs & H16 & _).
      destruct (leaves_full cs Hw) as (l & Hll & Hn & EJ).
      pose proof (full_two_entries cs Hw) as H2.
      destruct (two_entries_shape _ H2) as (a & b & r & EJ2).
      pose proof (measure_two a b r) as Hm2.
      destruct fuel as [|f]; [rewrite EJ2 in Hf; lia|].
      assert (Hm : mapM (fun x => spec_n H f (sub (leaves (Full cs)) x)) nibbles16
                   = Some (map (fun x => embed H (collapse H (child cs x))) nibbles16)).
      { apply mapM_some. intros x Hx.
        assert (Hx16 : x < 16) by (unfold nibbles16 in Hx; cbn [In] in Hx; lia).
        assert (Esub : sub (leaves (Full cs)) x = leaves (child cs x)).
        { rewrite EJ, sub_app, sub_lsl by (rewrite Hll; lia).
          destruct (N.leb_spec 0 x); [|lia]. rewrite N.sub_0_r, (Hn x Hx16).
          destruct (child cs 16); cbn; rewrite app_nil_r; reflexivity. }
        rewrite Esub. apply spec_n_slot; [apply Hs; exact Hx16|]. intros Hwc. apply IH; [exact Hwc|].
        pose proof (measure_sub (leaves (Full cs)) x) as Hms. rewrite Esub in Hms.
        pose proof (leaves_nonempty _ Hwc) as Hne. destruct (leaves (child cs x)); [congruence|]. cbn [length] in Hms. lia. }
      assert (Ev : vslot (leaves (Full cs)) = match child cs 16 with Value v => v | _ => [] end).
      { unfold vslot. change (fun kv : list N * bytes => match fst kv with [] => true | _ :: _ => false end) with isnil.
        rewrite EJ, find_app_none by (apply find_lsl; rewrite Hll; lia).
        destruct H16 as [E|(v & _ & E)]; rewrite E; reflexivity. }
      rewrite spec_c_many by (rewrite EJ2; cbn [length]; lia). rewrite (two_entries_lcp _ H2), Hm, Ev.
      rewrite collapse_full, (firstn16_children _ cs Hl). change (nth 16 cs Empty) with (child cs 16).
      destruct H16 as [E|(v & _ & E)]; rewrite E; reflexivity.
  Qed.
End Main.

(* ---------- the root ---------- *)
From V.C02 Require Import Proofs.

Section Root.
  Variable H : bytes -> bytes.

  (* TRIE(J) on nibble keys *)
  Definition spec_root_nib (J : kvs) : option bytes :=
    match J with
    | [] => Some (H [128])
    | _ => option_map (fun c => H (rlp c)) (spec_c H (measure J) J)
    end.

  Lemma spec_root_unfold J : spec_root H J = spec_root_nib (map (fun kv => (y_nibbles (fst kv), snd kv)) J).
  Proof. destruct J; reflexivity. Qed.

  Lemma root_spec_leaves t : wf_trie t = true -> spec_root_nib (leaves t) = Some (root_hash H t).
  Proof.
    intros Ht. apply wf_trie_slot in Ht as [->|Hw]; [reflexivity|].
    pose proof (leaves_nonempty t Hw) as Hne. unfold spec_root_nib.
    destruct (leaves t) as [|e L] eqn:E; [congruence|]. rewrite <- E.
    rewrite (spec_c_collapse H t Hw) by lia. cbn [option_map].
    destruct t; try discriminate; reflexivity.
  Qed.

  Lemma y_nibbles_of b : y_nibbles b = nibbles_of b.
  Proof. induction b as [|x b IH]; [reflexivity|]. cbn [y_nibbles nibbles_of]. rewrite IH. reflexivity. Qed.

  Lemma nibs_nibbles_of b : bytes_ok b -> nibs (nibbles_of b) = true.
  Proof.
    induction 1 as [|x b Hx Hb IH]; [reflexivity|]. unfold byte_ok in Hx. cbn [nibbles_of].
    apply nibs_cons. split; [apply N.div_lt_upper_bound; lia|].
    apply nibs_cons. split; [apply N.mod_lt; lia | exact IH].
  Qed.

  (* the byte-key listing of the trie a history leaves behind, as Yellow-Paper pairs, is its leaf list *)
  Lemma listing_leaves ops : ops_ok ops ->
    map (fun kv => (y_nibbles (fst kv), snd kv)) (iter_from (run ops) []) = leaves (run ops).
  Proof.
    intros Hok. rewrite iter_from_all, map_map. unfold leaves. apply map_ext_in.
    intros [p v] Hin. cbn [fst snd]. unfold U. cbn [fst snd]. f_equal.
    apply (iter_content _ _ _ (run_wf ops Hok)) in Hin as [Hp Hg].
    destruct (stored_is_image ops p v Hok Hp Hg) as (key & Hk & -> & _).
    rewrite (h2k_hex key Hk), hex_nibbles, unterm_app, (unterm_nibs _ (nibs_nibbles_of key Hk)).
    rewrite y_nibbles_of. symmetry. apply app_nil_r.
  Qed.

  Theorem root_spec ops : ops_ok ops ->
    spec_root H (iter_from (run ops) []) = Some (root_hash H (run ops)).
  Proof.
    intros Hok. rewrite spec_root_unfold, (listing_leaves ops Hok).
    apply root_spec_leaves. apply run_wf. exact Hok.
  Qed.
End Root.

(* ---------- encoding.go: compactToHex inverts hexToCompact (what a reload reads back) ---------- *)
Lemma byte_split a b : b < 16 -> (16 * a + b) / 16 = a /\ (16 * a + b) mod 16 = b.
Proof.
  intros Hb. split.
  - symmetry. apply (N.div_unique (16 * a + b) 16 a b); [exact Hb | reflexivity].
  - symmetry. apply (N.mod_unique (16 * a + b) 16 a b); [exact Hb | reflexivity].
Qed.

Lemma pack_hex : forall k, nibs k = true -> Nat.even (length k) = true -> keybytes_to_hex (pack k) = k ++ [16].
Proof.
  fix IH 1. intros [|a [|b r]] Hn He; [reflexivity | discriminate He |].
  apply nibs_cons in Hn as [Ha Hn]. apply nibs_cons in Hn as [Hb Hn].
  cbn [pack keybytes_to_hex app]. destruct (byte_split a b Hb) as [-> ->].
  rewrite (IH r Hn He). reflexivity.
Qed.

Lemma compact_roundtrip_hp p t : nibs p = true ->
  compact_to_hex (hp p t) = if t then p ++ [16] else p.
Proof.
  intros Hp. unfold hp. destruct (Nat.even (length p)) eqn:He.
  - unfold compact_to_hex. cbn [keybytes_to_hex]. rewrite (pack_hex p Hp He).
    destruct t.
    + reflexivity.
    + change (16 * 0) with 0. change (0 / 16) with 0. change (0 mod 16) with 0. cbn [hd N.ltb N.compare].
      change (0 :: 0 :: p ++ [16]) with ((0 :: 0 :: p) ++ [16]). rewrite removelast_last. reflexivity.
  - destruct p as [|x p]; [discriminate He|]. apply nibs_cons in Hp as [Hx Hp].
    assert (He' : Nat.even (length p) = true).
    { cbn [length] in He. rewrite Nat.even_succ in He. rewrite <- Nat.negb_odd, He. reflexivity. }
    cbn [hd tl]. unfold compact_to_hex. cbn [keybytes_to_hex]. rewrite (pack_hex p Hp He').
    destruct t.
    + change (16 * (2 + 1)) with (16 * 3). destruct (byte_split 3 x Hx) as [-> ->]. reflexivity.
    + change (16 * (0 + 1)) with (16 * 1). destruct (byte_split 1 x Hx) as [-> ->].
      cbn [hd N.ltb N.compare Pos.compare Pos.compare_cont].
      change (1 :: x :: p ++ [16]) with ((1 :: x :: p) ++ [16]). rewrite removelast_last. reflexivity.
Qed.

Theorem compact_roundtrip k : (nibs k = true \/ valid_key k = true) -> compact_to_hex (hex_to_compact k) = k.
Proof.
  intros [Hn|Hv].
  - rewrite (compact_ext k Hn). apply (compact_roundtrip_hp k false Hn).
  - destruct (valid_snoc k Hv) as (p & Hp & ->). rewrite (compact_leaf p Hp). apply (compact_roundtrip_hp p true Hp).
Qed.
