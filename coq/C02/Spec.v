(* C02: the trie root as the Ethereum Yellow Paper (Appendix D, "Modified Merkle Patricia Tree")
   defines it, transcribed independently of the model's tree (Model.v) and of the Go code: a function
   of the SET of key/value pairs only.

     y(J): keys as nibble sequences
     HP(x, t): hex-prefix encoding
     c(J, i) = RLP(HP(I0[i..], 1), I1)                         if |J| = 1
             = RLP(HP(I0[i..j-1], 0), n(J, j))                 if i <> j, j = length of the longest common prefix
             = RLP(u(0), ..., u(15), v)                        otherwise,
                 u(x) = n({I in J : I0[i] = x}, i+1), v = I1 of the I with |I0| = i, else ()
     n(J, i) = ()                        if J is empty
             = c(J, i)                   if |RLP c(J, i)| < 32
             = KEC(RLP c(J, i))          otherwise
     TRIE(J) = KEC(RLP c(J, 0))           (KEC(RLP(())) for the empty set)

   Transcription choices: every pair of J passed to c(J, i) shares its first i nibbles, and c only
   looks at I0[i..]; the functions below carry the suffixes I0[i..] instead of the index i.  A set is a
   duplicate-free list.  The recursion is fuelled ([None] = out of fuel or c applied to the empty
   set); [measure J] is always enough fuel (theorem spec_c_collapse in SpecProofs.v). *)
From Coq Require Import List Arith NArith Bool.
From V.Base Require Import Hex.
From V.C08 Require Model.
Import ListNotations.
Local Open Scope N_scope.

Notation item := C08.Model.item.
Notation Str := C08.Model.Str.
Notation Lst := C08.Model.Lst.
Notation rlp := C08.Model.encode.

Definition kvs := list (list N * bytes).

(* y: a byte key as nibbles, high nibble first *)
Fixpoint y_nibbles (b : bytes) : list N :=
  match b with [] => [] | x :: r => x / 16 :: x mod 16 :: y_nibbles r end.

(* HP(x, t) *)
Fixpoint pack (k : list N) : bytes :=
  match k with a :: b :: r => 16 * a + b :: pack r | _ => [] end.

Definition hp (k : list N) (t : bool) : bytes :=
  let f := if t then 2 else 0 in
  if Nat.even (length k) then 16 * f :: pack k
  else 16 * (f + 1) + hd 0 k :: pack (tl k).

(* longest common prefix of all keys *)
Fixpoint cpre (a b : list N) : list N :=
  match a, b with
  | x :: a', z :: b' => if x =? z then x :: cpre a' b' else []
  | _, _ => []
  end.

Fixpoint lcp (ks : list (list N)) : list N :=
  match ks with
  | [] => []
  | k :: r => match r with [] => k | _ => cpre k (lcp r) end
  end.

(* {I in J : I0[i] = x}, as suffixes after that nibble *)
Definition sub (J : kvs) (x : N) : kvs :=
  flat_map (fun kv => match fst kv with
                      | z :: r => if z =? x then [(r, snd kv)] else []
                      | [] => []
                      end) J.

(* the value of the pair whose key ends here, else () *)
Definition vslot (J : kvs) : bytes :=
  match find (fun kv => match fst kv with [] => true | _ => false end) J with
  | Some kv => snd kv
  | None => []
  end.

Definition drop_prefix (p : list N) (J : kvs) : kvs :=
  map (fun kv => (skipn (length p) (fst kv), snd kv)) J.

Fixpoint mapM {A B} (f : A -> option B) (l : list A) : option (list B) :=
  match l with
  | [] => Some []
  | a :: r => match f a, mapM f r with Some b, Some bs => Some (b :: bs) | _, _ => None end
  end.

Definition nibbles16 : list N := [0; 1; 2; 3; 4; 5; 6; 7; 8; 9; 10; 11; 12; 13; 14; 15].

Definition measure (J : kvs) : nat := list_sum (map (fun kv => S (length (fst kv))) J).

Section Spec.
  Variable H : bytes -> bytes.

  (* n(J, i) given c *)
  Definition cap (c : item) : item := if (length (rlp c) <? 32)%nat then c else Str (H (rlp c)).

  Fixpoint spec_c (fuel : nat) (J : kvs) : option item :=
    match fuel with
    | O => None
    | S f =>
        let n := fun J' : kvs =>
                   match J' with
                   | [] => Some (Str [])
                   | _ => option_map cap (spec_c f J')
                   end in
        match J with
        | [] => None
        | [(k, v)] => Some (Lst [Str (hp k true); Str v])
        | _ =>
            match lcp (map fst J) with
            | [] =>
                match mapM (fun x => n (sub J x)) nibbles16 with
                | Some us => Some (Lst (us ++ [Str (vslot J)]))
                | None => None
                end
            | p =>
                match n (drop_prefix p J) with
                | Some c => Some (Lst [Str (hp p false); c])
                | None => None
                end
            end
        end
    end.

  Definition spec_n (fuel : nat) (J : kvs) : option item :=
    match J with
    | [] => Some (Str [])
    | _ => option_map cap (spec_c fuel J)
    end.

  (* TRIE(J) for J given with byte keys *)
  Definition spec_root (J : list (bytes * bytes)) : option bytes :=
    match J with
    | [] => Some (H [128])
    | _ => let J' := map (fun kv => (y_nibbles (fst kv), snd kv)) J in
           option_map (fun c => H (rlp c)) (spec_c (measure J') J')
    end.
End Spec.
