(* C02 proofs, part 12: the Go panics ("invalid node", index out of range) and the model's NoFuel are
   unreachable on well-formed input: on a trie in minimal form without hash placeholders and a key
   produced by keybytesToHex, tryGet / insert / delete of the cache model return OK with the fuel the
   exported API gives them (and never Missing, since nothing is resolved). *)
From Coq Require Import List Arith NArith Lia Bool.
From V.Base Require Import Hex.
From V.C02 Require Import Model Lemmas Sem InsDel Unique Proofs Spec SpecProofs ModelB Cache CacheProofs.
Import ListNotations.
Local Open Scope N_scope.

(* the positions a descent can be in *)
Definition Pos (c : cnode) (key : list N) : Prop :=
  (wfb (erase c) = true /\ valid_key key = true) \/ erase c = Empty \/ ((exists v, erase c = Value v) /\ key = []).

Lemma pos_child cs x kr : wfb (Full (map erase cs)) = true -> valid_key (x :: kr) = true ->
  (N.to_nat x < length cs)%nat /\ Pos (cchild cs x) kr.
Proof.
  intros Hw Hk. apply wf_full in Hw as (Hl & Hs & H16 & _). rewrite map_length in Hl.
  apply valid_cons in Hk as [[-> ->]|[Hx Hkr]].
  - split; [rewrite Hl; cbn; lia|]. unfold Pos. rewrite erase_cchild.
    destruct H16 as [E|(v & _ & E)]; rewrite E; [right; left; reflexivity | right; right; split; [eauto | reflexivity]].
  - split; [rewrite Hl; lia|]. unfold Pos. rewrite erase_cchild.
    destruct (Hs x Hx) as [E|Hw]; [right; left; exact E | left; split; assumption].
Qed.

Lemma strip_of_test nk key :
  ((length key <? length nk)%nat || negb (bytes_eqb nk (firstn (length nk) key))) = false ->
  key = nk ++ skipn (length nk) key.
Proof.
  intros T. destruct (strip nk key) as [r|] eqn:E.
  - pose proof (go_prefix_skip _ _ _ E) as Hs. apply strip_spec in E. rewrite Hs. exact E.
  - apply go_prefix_test in E. congruence.
Qed.

Lemma pos_short_child nk c0 key : wfb (Short nk (erase c0)) = true -> valid_key key = true ->
  key = nk ++ skipn (length nk) key ->
  Pos c0 (skipn (length nk) key) /\ (length (skipn (length nk) key) < length key)%nat.
Proof.
  intros Hw Hk E. set (rest := skipn (length nk) key) in *.
  assert (Hlen : length key = (length nk + length rest)%nat) by (rewrite E at 1; apply app_length).
  destruct (wf_short_inv _ _ Hw) as [(v & Ev & Hvk & _)|(cs & Ev & Hne & Hnb & Hwc)].
  - rewrite E in Hk. pose proof (valid_prefix_free nk rest Hvk Hk) as Hr. split.
    + right; right. split; [eauto | exact Hr].
    + destruct nk; [discriminate Hvk | cbn [length] in Hlen; lia].
  - split.
    + left. rewrite Ev. split; [exact Hwc|]. rewrite E in Hk. apply (valid_app_nibs nk rest Hnb). exact Hk.
    + destruct nk; [congruence | cbn [length] in Hlen; lia].
Qed.

Section Total.
  Variable d : ndb.
  Variable gen : N.

  Lemma getB_total : forall fuel c key, hash_free c = true -> Pos c key -> (length key + 2 <= fuel)%nat ->
    exists r, getB d gen fuel c key = OK r.
  Proof.
    induction fuel as [|f IH]; intros c key Hf Hp Hfuel; [lia|].
    destruct c as [|v0|h|nk c0 fl|cs fl]; cbn [getB].
    - eauto.
    - eauto.
    - discriminate Hf.
    - destruct Hp as [[Hw Hk]|[E|[[v E] _]]]; try discriminate E. cbn [erase] in Hw. rewrite hf_short in Hf.
      destruct ((length key <? length nk)%nat || negb (bytes_eqb nk (firstn (length nk) key))) eqn:T; [eauto|].
      destruct (pos_short_child nk c0 key Hw Hk (strip_of_test _ _ T)) as [Hp' Hl'].
      destruct (IH c0 _ Hf Hp' ltac:(lia)) as ([[v c'] dr] & ->). cbn [obind]. eauto.
    - destruct Hp as [[Hw Hk]|[E|[[v E] _]]]; try discriminate E. cbn [erase] in Hw. rewrite hf_full in Hf.
      destruct key as [|x kr]; [discriminate Hk|].
      destruct (pos_child cs x kr Hw Hk) as [Hx Hp']. apply Nat.ltb_lt in Hx. rewrite Hx.
      destruct (IH (cchild cs x) kr (hash_free_cchild cs x Hf) Hp' ltac:(cbn [length] in Hfuel; lia)) as ([[v c'] dr] & ->).
      cbn [obind]. eauto.
  Qed.

  Lemma insertB_total : forall fuel c key v, hash_free c = true -> Pos c key -> (length key + 2 <= fuel)%nat ->
    exists r, insertB d gen fuel c key (CValue v) = OK r.
  Proof.
    induction fuel as [|f IH]; intros c key v Hf Hp Hfuel; [lia|].
    destruct key as [|x kr].
    - destruct c; cbn [insertB]; eauto.
    - destruct c as [|v0|h|nk c0 fl|cs fl].
      + cbn [insertB]. eauto.
      + destruct Hp as [[Hw _]|[E|[_ E]]]; discriminate.
      + discriminate Hf.
      + destruct Hp as [[Hw Hk]|[E|[[v' E] _]]]; try discriminate E. cbn [erase] in Hw. rewrite hf_short in Hf.
        rewrite insertB_short.
        destruct (Nat.eqb_spec (prefix_len (x :: kr) nk) (length nk)) as [Em|Em].
        * (* the whole node key matches: nk is a prefix of the key *)
          destruct (prefix_len_spec (x :: kr) nk) as (p & ra & rb & Ek & Enk & Hl & _).
          assert (rb = []) as ->.
          { rewrite <- Hl in Em. apply (f_equal (@length N)) in Enk. rewrite app_length in Enk. destruct rb; [reflexivity | cbn [length] in Enk; lia]. }
          rewrite app_nil_r in Enk. subst p.
          assert (Esk : skipn (prefix_len (x :: kr) nk) (x :: kr) = skipn (length nk) (x :: kr)) by (rewrite Em; reflexivity).
          rewrite Esk. assert (Ekey : x :: kr = nk ++ skipn (length nk) (x :: kr)) by (rewrite Ek at 2; rewrite skipn_app_len; exact Ek).
          destruct (pos_short_child nk c0 (x :: kr) Hw Hk Ekey) as [Hp' Hl'].
          destruct (IH c0 _ v Hf Hp' ltac:(lia)) as ([d1 n1] & ->). cbn [obind]. destruct d1; eauto.
        * destruct (Nat.eqb (prefix_len (x :: kr) nk) 0); eauto.
      + destruct Hp as [[Hw Hk]|[E|[[v' E] _]]]; try discriminate E. cbn [erase] in Hw. rewrite hf_full in Hf.
        rewrite insertB_full. destruct (pos_child cs x kr Hw Hk) as [Hx Hp']. apply Nat.ltb_lt in Hx. rewrite Hx.
        destruct (IH (cchild cs x) kr v (hash_free_cchild cs x Hf) Hp' ltac:(cbn [length] in Hfuel; lia)) as ([d1 n1] & ->).
        cbn [obind]. destruct d1; eauto.
  Qed.

  Lemma reduceB_total cs : forallb hash_free cs = true -> exists n, reduceB d gen cs = OK n.
  Proof.
    intros Hf. unfold reduceB. destruct (clive cs 0) as [|pos [|? ?]]; eauto.
    destruct (negb (pos =? 16)); eauto. pose proof (hash_free_cchild cs pos Hf) as Hc.
    unfold resolveB. destruct (cchild cs pos); try discriminate Hc; cbn [obind]; eauto.
  Qed.

  Lemma deleteB_total : forall fuel c key, hash_free c = true -> Pos c key -> (length key + 2 <= fuel)%nat ->
    exists r, deleteB d gen fuel c key = OK r.
  Proof.
    induction fuel as [|f IH]; intros c key Hf Hp Hfuel; [lia|].
    destruct c as [|v0|h|nk c0 fl|cs fl]; cbn [deleteB].
    - eauto.
    - eauto.
    - discriminate Hf.
    - destruct Hp as [[Hw Hk]|[E|[[v E] _]]]; try discriminate E. cbn [erase] in Hw. rewrite hf_short in Hf.
      destruct (Nat.ltb_spec (prefix_len key nk) (length nk)) as [Hlt|Hge]; [eauto|].
      destruct (Nat.eqb (prefix_len key nk) (length key)); [eauto|].
      destruct (prefix_len_spec key nk) as (p & ra & rb & Ek & Enk & Hl & _).
      assert (rb = []) as ->.
      { rewrite <- Hl in Hge. apply (f_equal (@length N)) in Enk. rewrite app_length in Enk. destruct rb; [reflexivity | cbn [length] in Enk; lia]. }
      rewrite app_nil_r in Enk. subst p.
      assert (Ekey : key = nk ++ skipn (length nk) key) by (rewrite Ek at 2; rewrite skipn_app_len; exact Ek).
      destruct (pos_short_child nk c0 key Hw Hk Ekey) as [Hp' Hl'].
      destruct (IH c0 _ Hf Hp' ltac:(lia)) as ([d1 n1] & ->). cbn [obind]. destruct d1; [|eauto].
      destruct n1; eauto.
    - destruct Hp as [[Hw Hk]|[E|[[v E] _]]]; try discriminate E. cbn [erase] in Hw. rewrite hf_full in Hf.
      destruct key as [|x kr]; [discriminate Hk|].
      destruct (pos_child cs x kr Hw Hk) as [Hx Hp']. apply Nat.ltb_lt in Hx. rewrite Hx.
      destruct (deleteB d gen f (cchild cs x) kr) as [[d1 n1]| | |] eqn:E;
        destruct (IH (cchild cs x) kr (hash_free_cchild cs x Hf) Hp' ltac:(cbn [length] in Hfuel; lia)) as (r & Er); rewrite Er in E; try discriminate E.
      injection E as ->. cbn [obind]. destruct d1; [|eauto].
      destruct (deleteB_sim d gen _ _ _ _ _ (hash_free_cchild cs x Hf) Er) as [_ Hf1].
      destruct (reduceB_total (cset_nth cs (N.to_nat x) n1) (hash_free_cset_nth cs _ _ Hf Hf1)) as (n2 & ->). cbn [obind]. eauto.
  Qed.
End Total.

(* the exported API on a trie satisfying the invariant of CacheProofs.Inv never panics or runs out of fuel *)
Section API.
  Variable H : bytes -> bytes.
  Variable d : ndb.

  Lemma pos_root t n key : Inv H t n -> bytes_ok key -> Pos (troot t) (keybytes_to_hex key).
  Proof.
    intros (_ & He & _ & Hw) Hk. unfold Pos. rewrite He.
    destruct Hw as [->|Hw]; [right; left; reflexivity | left; split; [exact Hw | apply hex_valid; exact Hk]].
  Qed.

  Theorem api_total t n : Inv H t n -> forall key v, bytes_ok key ->
    (exists t', try_updateB d t key v = OK t') /\ (exists t', try_deleteB d t key = OK t') /\
    (exists r t', try_getB d t key = (OK r, t')).
  Proof.
    intros HI key v Hk. pose proof (pos_root t n key HI Hk) as Hp. destruct HI as (Hf & _).
    assert (Hfuel : (length (keybytes_to_hex key) + 2 <= op_fuel (keybytes_to_hex key))%nat) by (unfold op_fuel; lia).
    split; [|split].
    - unfold try_updateB. destruct v as [|b v].
      + destruct (deleteB_total d (tgen t) _ _ _ Hf Hp Hfuel) as (r & ->). cbn [obind]. eauto.
      + destruct (insertB_total d (tgen t) _ _ _ (b :: v) Hf Hp Hfuel) as (r & ->). cbn [obind]. eauto.
    - unfold try_deleteB. destruct (deleteB_total d (tgen t) _ _ _ Hf Hp Hfuel) as (r & ->). cbn [obind]. eauto.
    - unfold try_getB. destruct (getB_total d (tgen t) _ _ _ Hf Hp Hfuel) as ([[r c'] dr] & ->). eauto.
  Qed.
End API.

(* hence, unconditionally: on histories of TryUpdate / TryDelete / TryGet / Hash over byte keys the cache
   model completes and returns exactly the layer-A reads and roots *)
Section Refines.
  Variable H : bytes -> bytes.
  Variable d : ndb.

  Theorem execB_total_refines : forall evs t n, Inv H t n -> Forall ev_ok evs ->
    execB H d t evs = OK (execA H n evs).
  Proof.
    induction evs as [|e evs IH]; intros t n HI Hok; [reflexivity|].
    inversion Hok as [|? ? He Hok']; subst. destruct e as [k v|k|k|]; cbn [execB execA ev_ok] in *.
    - destruct (api_total H d t n HI k v He) as ((t' & E) & _ & _). rewrite E. cbn [obind].
      apply IH; [apply (inv_update H d t n k v t' HI He E) | exact Hok'].
    - destruct (api_total H d t n HI k [] He) as (_ & (t' & E) & _). rewrite E. cbn [obind].
      apply IH; [apply (inv_delete H d t n k t' HI He E) | exact Hok'].
    - destruct (api_total H d t n HI k [] He) as (_ & _ & (r & t' & E)). rewrite E.
      destruct (inv_get H d _ _ _ _ _ HI E) as [-> ->]. rewrite (IH t n HI Hok'). reflexivity.
    - destruct (hash_trieB H d t) as [h t'] eqn:E. destruct (inv_hash H d _ _ _ _ HI E) as [-> HI'].
      rewrite (IH t' n HI' Hok'). reflexivity.
  Qed.
End Refines.
