(* C02 model, layer B (cache): what trie.go / hasher.go / node.go / database.go really keep.

   - trie nodes carry nodeFlag {hash cache, dirty, gen}; unloaded or not-yet-loaded subtries are
     hashNode placeholders ([CHash]) resolved lazily, on the path of each operation (resolveHash);
   - hasher.hash with and without a database: cached hashes are reused, clean nodes whose generation
     is [cachelimit] or more commits old are unloaded to their hash (canUnload), dirty flags are
     cleared when storing, nodes whose RLP is >= 32 bytes (and the root) are inserted into the
     NodeDatabase memory map with parent reference counts;
   - NodeDatabase: memory map (hash -> collapsed node blob, children, parents), disk store,
     node (memory first, then disk), insert, Commit (children first, then the node; then uncache),
     Dereference.
   Outcomes are explicit: [Missing h] = MissingNodeError, [Panic] = the Go code would panic
   (invalid node / index out of range), [NoFuel] = the model ran out of fuel.
   Not modelled: flush-list order (oldest/newest, Cap), preimages, external (account -> storage)
   references, locks, the hasher sync.Pool. *)
From Coq Require Import List Arith NArith Bool.
From V.Base Require Import Hex.
From V.C08 Require Model.
From V.C02 Require Import Model Spec ModelB.
Import ListNotations.
Local Open Scope N_scope.

Record flags := mkF { fhash : option bytes; fdirty : bool; fgen : N }.

Inductive cnode :=
| CEmpty
| CValue (v : bytes)
| CHash (h : bytes)                          (* hashNode *)
| CShort (k : list N) (c : cnode) (f : flags)
| CFull (cs : list cnode) (f : flags).

Inductive outcome (A : Type) :=
| OK (a : A)
| Missing (h : bytes)
| Panic
| NoFuel.
Arguments OK {A} a. Arguments Missing {A} h. Arguments Panic {A}. Arguments NoFuel {A}.

Definition obind {A B} (o : outcome A) (f : A -> outcome B) : outcome B :=
  match o with OK a => f a | Missing h => Missing h | Panic => Panic | NoFuel => NoFuel end.

(* ---------- NodeDatabase ---------- *)
Record mentry := mkE { eblob : bytes; ekids : list bytes; eparents : N }.
Record ndb := mkDb { mem : list (bytes * mentry); disk : list (bytes * bytes) }.

Definition empty_db : ndb := mkDb [] [].

Fixpoint mlookup (l : list (bytes * mentry)) (h : bytes) : option mentry :=
  match l with
  | [] => None
  | (k, e) :: r => if bytes_eqb k h then Some e else mlookup r h
  end.

Fixpoint mupdate (l : list (bytes * mentry)) (h : bytes) (f : mentry -> mentry) : list (bytes * mentry) :=
  match l with
  | [] => []
  | (k, e) :: r => if bytes_eqb k h then (k, f e) :: r else (k, e) :: mupdate r h f
  end.

Fixpoint mremove (l : list (bytes * mentry)) (h : bytes) : list (bytes * mentry) :=
  match l with
  | [] => []
  | (k, e) :: r => if bytes_eqb k h then r else (k, e) :: mremove r h
  end.

(* the stored encoding of a node: memory first, then disk (NodeDatabase.node / Node) *)
Definition db_blob (d : ndb) (h : bytes) : option bytes :=
  match mlookup (mem d) h with
  | Some e => Some (eblob e)
  | None => lookup (disk d) h
  end.

(* NodeDatabase.insert: skip if cached; children that are cached get one more parent *)
Definition db_insert (d : ndb) (h blob : bytes) (kids : list bytes) : ndb :=
  match mlookup (mem d) h with
  | Some _ => d
  | None =>
      let m := fold_left (fun m k => mupdate m k (fun e => mkE (eblob e) (ekids e) (eparents e + 1))) kids (mem d) in
      mkDb (m ++ [(h, mkE blob kids 0)]) (disk d)
  end.

(* NodeDatabase.commit: children first, then the node itself, into the disk store *)
Fixpoint db_commit_disk (fuel : nat) (m : list (bytes * mentry)) (dk : list (bytes * bytes)) (h : bytes) : list (bytes * bytes) :=
  match fuel with
  | O => dk
  | S f =>
      match mlookup m h with
      | None => dk
      | Some e => let dk' := fold_left (fun dk k => db_commit_disk f m dk k) (ekids e) dk in
                  (h, eblob e) :: filter (fun kv => negb (bytes_eqb (fst kv) h)) dk'
      end
  end.

(* NodeDatabase.uncache *)
Fixpoint db_uncache (fuel : nat) (m : list (bytes * mentry)) (h : bytes) : list (bytes * mentry) :=
  match fuel with
  | O => m
  | S f =>
      match mlookup m h with
      | None => m
      | Some e => mremove (fold_left (fun m k => db_uncache f m k) (ekids e) m) h
      end
  end.

(* NodeDatabase.Commit(root) *)
Definition db_commit (d : ndb) (h : bytes) : ndb :=
  let fuel := S (length (mem d)) in
  mkDb (db_uncache fuel (mem d) h) (db_commit_disk fuel (mem d) (disk d) h).

(* NodeDatabase.dereference(child, parent): drop one reference; a node without parents is deleted
   together with the references it holds *)
Fixpoint db_deref (fuel : nat) (m : list (bytes * mentry)) (h : bytes) : list (bytes * mentry) :=
  match fuel with
  | O => m
  | S f =>
      match mlookup m h with
      | None => m
      | Some e =>
          let p := if eparents e =? 0 then 0 else eparents e - 1 in
          if p =? 0 then mremove (fold_left (fun m k => db_deref f m k) (ekids e) m) h
          else mupdate m h (fun e => mkE (eblob e) (ekids e) p)
      end
  end.

Definition db_dereference (d : ndb) (root : bytes) : ndb :=
  mkDb (db_deref (S (length (mem d))) (mem d) root) (disk d).

(* ---------- decodeNode: one level, hash references stay placeholders ---------- *)
Definition clean (h : option bytes) (gen : N) : flags := mkF h false gen.

Fixpoint dec_node (fuel : nat) (hash : option bytes) (gen : N) (it : item) : option cnode :=
  match fuel with
  | O => None
  | S f =>
      let ref := fun r : item =>
        match r with
        | Str [] => Some CEmpty
        | Str h => if (length h =? 32)%nat then Some (CHash h) else None
        | Lst _ => if (length (rlp r) <=? 32)%nat then dec_node f None gen r else None
        end in
      match it with
      | Lst l =>
          if (length l =? 2)%nat then
            match l with
            | Str kb :: v :: _ =>
                let key := compact_to_hex kb in
                if has_term key then
                  match v with
                  | Str val => Some (CShort key (CValue val) (clean hash gen))
                  | Lst _ => None
                  end
                else option_map (fun c => CShort key c (clean hash gen)) (ref v)
            | _ => None
            end
          else if (length l =? 17)%nat then
            match mapM ref (firstn 16 l), nth 16 l (Str []) with
            | Some cs, Str [] => Some (CFull (cs ++ [CEmpty]) (clean hash gen))
            | Some cs, Str v => Some (CFull (cs ++ [CValue v]) (clean hash gen))
            | _, _ => None
            end
          else None
      | Str _ => None
      end
  end.

(* embedded nodes nest at most three deep (a node of < 32 bytes) *)
Definition dec_fuel : nat := 8.

(* trie.resolveHash = NodeDatabase.node; a blob that does not decode makes Go panic (mustDecodeNode) *)
Definition resolve_hash (d : ndb) (gen : N) (h : bytes) : outcome cnode :=
  match db_blob d h with
  | None => Missing h
  | Some blob =>
      match C08.Model.decode_bytes blob with
      | C08.Model.Ok it => match dec_node dec_fuel (Some h) gen it with Some c => OK c | None => Panic end
      | C08.Model.Err _ => Panic
      end
  end.

(* ---------- 17-slot arrays of cnodes ---------- *)
Fixpoint cset_nth (cs : list cnode) (i : nat) (c : cnode) : list cnode :=
  match cs with
  | [] => []
  | x :: r => match i with O => c :: r | S j => x :: cset_nth r j c end
  end.

Definition cchild (cs : list cnode) (x : N) : cnode := nth (N.to_nat x) cs CEmpty.

Definition cempty17 : list cnode := repeat CEmpty 17.

Fixpoint clive (cs : list cnode) (i : N) : list N :=
  match cs with
  | [] => []
  | CEmpty :: r => clive r (i + 1)
  | _ :: r => i :: clive r (i + 1)
  end.

Definition with_gen (f : flags) (gen : N) : flags := mkF (fhash f) (fdirty f) gen.
Definition new_flag (gen : N) : flags := mkF None true gen.

Section Ops.
  Variable d : ndb.       (* reads never change the database *)
  Variable gen : N.       (* t.cachegen *)

  (* ---------- trie.go tryGet: (value, newnode, didResolve) ---------- *)
  Fixpoint getB (fuel : nat) (n : cnode) (key : list N) : outcome (option bytes * cnode * bool) :=
    match fuel with
    | O => NoFuel
    | S f =>
        match n with
        | CEmpty => OK (None, CEmpty, false)
        | CValue v => OK (Some v, n, false)
        | CShort nk c fl =>
            if (length key <? length nk)%nat || negb (bytes_eqb nk (firstn (length nk) key)) then OK (None, n, false)
            else obind (getB f c (skipn (length nk) key)) (fun r =>
                   let '(v, c', dr) := r in
                   OK (v, if dr then CShort nk c' (with_gen fl gen) else n, dr))
        | CFull cs fl =>
            match key with
            | [] => Panic                                  (* key[pos]: index out of range *)
            | x :: kr =>
                if (N.to_nat x <? length cs)%nat then
                  obind (getB f (cchild cs x) kr) (fun r =>
                    let '(v, c', dr) := r in
                    OK (v, if dr then CFull (cset_nth cs (N.to_nat x) c') (with_gen fl gen) else n, dr))
                else Panic
            end
        | CHash h =>
            obind (resolve_hash d gen h) (fun child =>
              obind (getB f child key) (fun r => let '(v, c', _) := r in OK (v, c', true)))
        end
    end.

  (* ---------- trie.go insert: (dirty, newnode) ---------- *)
  Definition cinsert_nil (key : list N) (value : cnode) : cnode :=
    match key with [] => value | _ => CShort key value (new_flag gen) end.

  Fixpoint insertB (fuel : nat) (n : cnode) (key : list N) (value : cnode) : outcome (bool * cnode) :=
    match fuel with
    | O => NoFuel
    | S f =>
        match key with
        | [] =>
            match n, value with
            | CValue v, CValue v' => OK (negb (bytes_eqb v v'), value)
            | _, _ => OK (true, value)
            end
        | x :: kr =>
            match n with
            | CShort nk c fl =>
                let m := prefix_len key nk in
                if Nat.eqb m (length nk) then
                  obind (insertB f c (skipn m key) value) (fun r =>
                    let '(dirty, nn) := r in
                    if dirty then OK (true, CShort nk nn (new_flag gen)) else OK (false, n))
                else
                  let b1 := cset_nth cempty17 (N.to_nat (nth m nk 0)) (cinsert_nil (skipn (S m) nk) c) in
                  let b2 := cset_nth b1 (N.to_nat (nth m key 0)) (cinsert_nil (skipn (S m) key) value) in
                  if Nat.eqb m 0 then OK (true, CFull b2 (new_flag gen))
                  else OK (true, CShort (firstn m key) (CFull b2 (new_flag gen)) (new_flag gen))
            | CFull cs fl =>
                if (N.to_nat x <? length cs)%nat then
                  obind (insertB f (cchild cs x) kr value) (fun r =>
                    let '(dirty, nn) := r in
                    if dirty then OK (true, CFull (cset_nth cs (N.to_nat x) nn) (new_flag gen)) else OK (false, n))
                else Panic
            | CEmpty => OK (true, CShort key value (new_flag gen))
            | CHash h =>
                obind (resolve_hash d gen h) (fun rn =>
                  obind (insertB f rn key value) (fun r =>
                    let '(dirty, nn) := r in
                    if dirty then OK (true, nn) else OK (false, rn)))
            | CValue _ => Panic                            (* "invalid node" *)
            end
        end
    end.

  (* ---------- trie.go delete ---------- *)
  Definition resolveB (n : cnode) : outcome cnode :=
    match n with CHash h => resolve_hash d gen h | _ => OK n end.

  Definition reduceB (cs' : list cnode) : outcome cnode :=
    match clive cs' 0 with
    | [pos] =>
        if negb (pos =? 16) then
          obind (resolveB (cchild cs' pos)) (fun cn =>
            match cn with
            | CShort ck cv _ => OK (CShort (pos :: ck) cv (new_flag gen))
            | _ => OK (CShort [pos] (cchild cs' pos) (new_flag gen))
            end)
        else OK (CShort [pos] (cchild cs' pos) (new_flag gen))
    | _ => OK (CFull cs' (new_flag gen))
    end.

  Fixpoint deleteB (fuel : nat) (n : cnode) (key : list N) : outcome (bool * cnode) :=
    match fuel with
    | O => NoFuel
    | S f =>
        match n with
        | CShort nk c fl =>
            let m := prefix_len key nk in
            if (m <? length nk)%nat then OK (false, n)
            else if Nat.eqb m (length key) then OK (true, CEmpty)
            else
              obind (deleteB f c (skipn (length nk) key)) (fun r =>
                let '(dirty, ch) := r in
                if dirty then
                  match ch with
                  | CShort ck cv _ => OK (true, CShort (nk ++ ck) cv (new_flag gen))
                  | _ => OK (true, CShort nk ch (new_flag gen))
                  end
                else OK (false, n))
        | CFull cs fl =>
            match key with
            | [] => Panic
            | x :: kr =>
                if (N.to_nat x <? length cs)%nat then
                  obind (deleteB f (cchild cs x) kr) (fun r =>
                    let '(dirty, nn) := r in
                    if dirty then obind (reduceB (cset_nth cs (N.to_nat x) nn)) (fun n' => OK (true, n'))
                    else OK (false, n))
                else Panic
            end
        | CValue _ => OK (true, CEmpty)
        | CEmpty => OK (false, CEmpty)
        | CHash h =>
            obind (resolve_hash d gen h) (fun rn =>
              obind (deleteB f rn key) (fun r =>
                let '(dirty, nn) := r in
                if dirty then OK (true, nn) else OK (false, rn)))
        end
    end.
End Ops.

(* ---------- hasher.go ---------- *)
Section Hasher.
  Variable H : bytes -> bytes.
  Variable withdb : bool.      (* Commit (true) or Hash (false) *)
  Variable gen limit : N.      (* h.cachegen, h.cachelimit *)

  (* nodeFlag.canUnload, uint16 arithmetic *)
  Definition can_unload (f : flags) : bool :=
    negb (fdirty f) && (limit <=? (gen + 65536 - fgen f) mod 65536).

  (* hasher.store on a collapsed node with its cached hash; returns what the parent embeds
     (the node itself or its hash) and the hashes of the children it references *)
  Definition storeB (db : ndb) (collapsed : item) (cached : option bytes) (kids : list bytes) (force : bool)
    : item * list bytes * ndb :=
    let e := rlp collapsed in
    if (length e <? 32)%nat && negb force then (collapsed, kids, db)
    else
      let h := match cached with Some h => h | None => H e end in
      (Str h, [h], if withdb then db_insert db h e kids else db).

  Definition set_hash (f : flags) (hashed : item) : flags :=
    mkF (match hashed with Str h => Some h | _ => None end) (if withdb then false else fdirty f) (fgen f).

  (* hasher.hash: (hashed, kids of hashed, cached, db) *)
  Fixpoint hashB (db : ndb) (n : cnode) (force : bool) {struct n} : item * list bytes * cnode * ndb :=
    match n with
    | CEmpty => (Str [], [], n, db)
    | CHash h => (Str h, [h], n, db)
    | CValue v =>
        let '(hashed, kids, db') := storeB db (Str v) None [] force in (hashed, kids, n, db')
    | CShort k c fl =>
        let go := fun _ : unit =>
          let '(cit, ckids, cc, db1) :=
            match c with
            | CValue v => (Str v, [], c, db)
            | _ => hashB db c false
            end in
          let '(hashed, kids, db2) := storeB db1 (Lst [Str (hex_to_compact k); cit]) (fhash fl) ckids force in
          (hashed, kids, CShort k cc (set_hash fl hashed), db2) in
        match fhash fl with
        | Some h =>
            if negb withdb then (Str h, [h], n, db)
            else if can_unload fl then (Str h, [h], CHash h, db)
            else if negb (fdirty fl) then (Str h, [h], n, db)
            else go tt
        | None => go tt
        end
    | CFull cs fl =>
        let go := fun _ : unit =>
          let '(its, kids, ccs, db1) :=
            (fix children (cs : list cnode) (i : nat) (db : ndb) {struct cs} : list item * list bytes * list cnode * ndb :=
               match cs with
               | [] => ([], [], [], db)
               | c :: r =>
                   let '(it, k, cc, db1) :=
                     match c with
                     | CEmpty => (Str [], [], c, db)
                     | _ => if (i <? 16)%nat then hashB db c false
                            else (match c with CValue v => Str v | _ => Str [] end, [], c, db)
                     end in
                   let '(its, ks, ccs, db2) := children r (S i) db1 in
                   (it :: its, k ++ ks, cc :: ccs, db2)
               end) cs O db in
          let '(hashed, kids', db2) := storeB db1 (Lst its) (fhash fl) kids force in
          (hashed, kids', CFull ccs (set_hash fl hashed), db2) in
        match fhash fl with
        | Some h =>
            if negb withdb then (Str h, [h], n, db)
            else if can_unload fl then (Str h, [h], CHash h, db)
            else if negb (fdirty fl) then (Str h, [h], n, db)
            else go tt
        | None => go tt
        end
    end.

  (* Trie.hashRoot *)
  Definition hash_rootB (db : ndb) (root : cnode) : bytes * cnode * ndb :=
    match root with
    | CEmpty => (H [128], CEmpty, db)
    | _ => let '(hashed, _, cached, db') := hashB db root true in
           (match hashed with Str h => h | _ => [] end, cached, db')
    end.
End Hasher.

(* ---------- the trie object and its exported API ---------- *)
Record trieB := mkT { troot : cnode; tgen : N; tlimit : N }.

Definition empty_trie : trieB := mkT CEmpty 0 0.

(* depth of any path is bounded by the key length; a hash placeholder costs one extra step per level *)
Definition op_fuel (key : list N) : nat := 2 * length key + 4.

Definition try_getB (d : ndb) (t : trieB) (key : bytes) : outcome (option bytes) * trieB :=
  let k := keybytes_to_hex key in
  match getB d (tgen t) (op_fuel k) (troot t) k with
  | OK (v, n', dr) => (OK v, if dr then mkT n' (tgen t) (tlimit t) else t)
  | Missing h => (Missing h, t)
  | Panic => (Panic, t)
  | NoFuel => (NoFuel, t)
  end.

Definition try_updateB (d : ndb) (t : trieB) (key value : bytes) : outcome trieB :=
  let k := keybytes_to_hex key in
  match value with
  | [] => obind (deleteB d (tgen t) (op_fuel k) (troot t) k) (fun r => OK (mkT (snd r) (tgen t) (tlimit t)))
  | _ => obind (insertB d (tgen t) (op_fuel k) (troot t) k (CValue value)) (fun r => OK (mkT (snd r) (tgen t) (tlimit t)))
  end.

Definition try_deleteB (d : ndb) (t : trieB) (key : bytes) : outcome trieB :=
  let k := keybytes_to_hex key in
  obind (deleteB d (tgen t) (op_fuel k) (troot t) k) (fun r => OK (mkT (snd r) (tgen t) (tlimit t))).

Section API.
  Variable H : bytes -> bytes.

  (* Trie.Hash: no database *)
  Definition hash_trieB (d : ndb) (t : trieB) : bytes * trieB :=
    let '(h, cached, _) := hash_rootB H false (tgen t) (tlimit t) d (troot t) in
    (h, mkT cached (tgen t) (tlimit t)).

  (* Trie.Commit: into the memory database; cachegen++ (uint16) *)
  Definition commit_trieB (d : ndb) (t : trieB) : bytes * trieB * ndb :=
    let '(h, cached, d') := hash_rootB H true (tgen t) (tlimit t) d (troot t) in
    (h, mkT cached ((tgen t + 1) mod 65536) (tlimit t), d').

  (* trie.NewTrie(root, db) *)
  Definition new_trieB (d : ndb) (root : bytes) (limit : N) : outcome trieB :=
    if bytes_eqb root (H [128]) || bytes_eqb root (repeat 0 32) then OK (mkT CEmpty 0 limit)
    else obind (resolve_hash d 0 root) (fun n => OK (mkT n 0 limit)).
End API.

(* ---------- abstraction: resolve every placeholder through the database ---------- *)
Fixpoint resolve_all (fuel : nat) (d : ndb) (n : cnode) : outcome node :=
  match fuel with
  | O => NoFuel
  | S f =>
      match n with
      | CEmpty => OK Empty
      | CValue v => OK (Value v)
      | CHash h => obind (resolve_hash d 0 h) (resolve_all f d)
      | CShort k c _ => obind (resolve_all f d c) (fun c' => OK (Short k c'))
      | CFull cs _ =>
          obind ((fix all (cs : list cnode) : outcome (list node) :=
                    match cs with
                    | [] => OK []
                    | c :: r => obind (resolve_all f d c) (fun c' => obind (all r) (fun r' => OK (c' :: r')))
                    end) cs) (fun l => OK (Full l))
      end
  end.
