(* C02 proofs, part 2: unfolding equations of get / insert / delete, the well-formedness
   predicate in propositional form, node size. *)
From Coq Require Import List Arith NArith Lia Bool.
From V.Base Require Import Hex.
From V.C02 Require Import Model Lemmas.
Import ListNotations.
Local Open Scope N_scope.

(* ---------- get ---------- *)
Lemma get_full cs x kr : get (Full cs) (x :: kr) = get (child cs x) kr.
Proof.
  cbn [get]. unfold child. generalize (N.to_nat x) as i.
  induction cs as [|c cs IH]; intros [|i]; simpl; auto.
Qed.

Lemma get_full_nil cs : get (Full cs) [] = None.
Proof. reflexivity. Qed.

Lemma get_short nk c key : get (Short nk c) key = bind (strip nk key) (get c).
Proof.
  cbn [get]. destruct (strip nk key) as [r|] eqn:E.
  - destruct ((length key <? length nk)%nat || negb (bytes_eqb nk (firstn (length nk) key))) eqn:T.
    + apply go_prefix_test in T. congruence.
    + rewrite (go_prefix_skip _ _ _ E). reflexivity.
  - apply go_prefix_test in E. rewrite E. reflexivity.
Qed.

Lemma get_insert_nil k c key : c <> Empty \/ k = [] -> get (insert_nil k c) key = bind (strip k key) (get c).
Proof.
  destruct k as [|x k]; [reflexivity|]. intros _. unfold insert_nil. apply get_short.
Qed.

Lemma get_insert_nil' k c key : get (insert_nil k c) key = bind (strip k key) (get c).
Proof. destruct k; [reflexivity | apply get_short]. Qed.

(* ---------- insert ---------- *)
Lemma insert_full cs x kr v :
  insert (Full cs) (x :: kr) v =
  if (N.to_nat x <? length cs)%nat then
    let '(d, nn) := insert (child cs x) kr v in
    if d then (true, Full (set_nth cs (N.to_nat x) nn)) else (false, Full cs)
  else (false, Full cs).
Proof.
  cbn [insert]. unfold child. generalize (N.to_nat x) as i. intros i.
  set (go := fix go (cs0 : list node) (i0 : nat) {struct cs0} : bool * list node :=
               match cs0 with
               | [] => (false, [])
               | c :: rest => match i0 with
                              | O => let '(d, nn) := insert c kr v in (d, nn :: rest)
                              | S j => let '(d, rest') := go rest j in (d, c :: rest')
                              end
               end).
  assert (Hgo : forall cs i, go cs i = if (i <? length cs)%nat
                                       then (fst (insert (nth i cs Empty) kr v), set_nth cs i (snd (insert (nth i cs Empty) kr v)))
                                       else (false, cs)).
  { clear. induction cs as [|c cs IH]; intros [|i]; simpl; auto.
    - destruct (insert c kr v); reflexivity.
    - rewrite IH. change (S i <? S (length cs))%nat with (i <? length cs)%nat.
      destruct (i <? length cs)%nat; reflexivity. }
  rewrite Hgo. destruct (i <? length cs)%nat; [|reflexivity].
  cbn [fst snd]. destruct (insert (nth i cs Empty) kr v) as [d nn]. cbn [fst snd]. reflexivity.
Qed.

Lemma insert_empty key v : key <> [] -> insert Empty key v = (true, Short key v).
Proof. destruct key; [congruence | reflexivity]. Qed.

(* ---------- delete ---------- *)
(* the reduction of a Full node left with a single child *)
Definition reduce (cs' : list node) : node :=
  match live cs' 0 with
  | [pos] =>
      if negb (pos =? 16) then
        match child cs' pos with
        | Short ck cv => Short (pos :: ck) cv
        | ch => Short [pos] ch
        end
      else Short [pos] (child cs' pos)
  | _ => Full cs'
  end.

Lemma delete_full cs x kr :
  delete (Full cs) (x :: kr) =
  if (N.to_nat x <? length cs)%nat then
    let '(d, nn) := delete (child cs x) kr in
    if d then (true, reduce (set_nth cs (N.to_nat x) nn)) else (false, Full cs)
  else (false, Full cs).
Proof.
  cbn [delete]. unfold child at 3. generalize (N.to_nat x) as i. intros i.
  set (go := fix go (cs0 : list node) (i0 : nat) {struct cs0} : bool * list node :=
               match cs0 with
               | [] => (false, [])
               | c :: rest => match i0 with
                              | O => let '(d, nn) := delete c kr in (d, nn :: rest)
                              | S j => let '(d, rest') := go rest j in (d, c :: rest')
                              end
               end).
  assert (Hgo : forall cs i, go cs i = if (i <? length cs)%nat
                                       then (fst (delete (nth i cs Empty) kr), set_nth cs i (snd (delete (nth i cs Empty) kr)))
                                       else (false, cs)).
  { clear. induction cs as [|c cs IH]; intros [|i]; simpl; auto.
    - destruct (delete c kr); reflexivity.
    - rewrite IH. change (S i <? S (length cs))%nat with (i <? length cs)%nat.
      destruct (i <? length cs)%nat; reflexivity. }
  rewrite Hgo. destruct (i <? length cs)%nat; [|reflexivity].
  cbn [fst snd]. destruct (delete (nth i cs Empty) kr) as [d nn]. cbn [fst snd].
  destruct d; [|reflexivity]. unfold reduce.
  destruct (live (set_nth cs i nn) 0) as [|pos [|? ?]]; try reflexivity.
  destruct (negb (pos =? 16)); [|reflexivity].
  destruct (child (set_nth cs i nn) pos); reflexivity.
Qed.

(* ---------- node size and a nested induction principle ---------- *)
Fixpoint size (n : node) : nat :=
  match n with
  | Empty => 0
  | Value _ => 1
  | Short k c => S (length k + size c)
  | Full cs => S (list_sum (map size cs))
  end.

Lemma size_child cs x : (size (child cs x) < size (Full cs))%nat.
Proof.
  unfold child. cbn [size]. generalize (N.to_nat x) as i.
  induction cs as [|c cs IH]; intros [|i]; simpl; try lia. specialize (IH i). lia.
Qed.

Section NodeInd.
  Variable P : node -> Prop.
  Hypothesis HE : P Empty.
  Hypothesis HV : forall v, P (Value v).
  Hypothesis HS : forall k c, P c -> P (Short k c).
  Hypothesis HF : forall cs, (forall x, P (child cs x)) -> P (Full cs).

  Lemma node_ind_size : forall m n, (size n < m)%nat -> P n.
  Proof.
    induction m as [|m IH]; intros n Hn; [lia|].
    destruct n as [|v|k c|cs]; auto.
    - apply HS. apply IH. cbn [size] in Hn. lia.
    - apply HF. intros x. apply IH. pose proof (size_child cs x). lia.
  Qed.

  Lemma node_ind' : forall n, P n.
  Proof. intros n. apply (node_ind_size (S (size n))). lia. Qed.
End NodeInd.

(* ---------- well-formedness, propositional form ---------- *)
Definition slot_ok (c : node) : Prop := c = Empty \/ wfb c = true.
Definition slot16_ok (c : node) : Prop := c = Empty \/ exists v, v <> [] /\ c = Value v.

Lemma wf_leaf k v : wfb (Short k (Value v)) = true <-> valid_key k = true /\ v <> [].
Proof.
  cbn [wfb]. rewrite andb_true_iff. destruct v; split; intros [? ?]; split; auto; try discriminate; congruence.
Qed.

Lemma wf_ext k cs : wfb (Short k (Full cs)) = true <-> k <> [] /\ nibs k = true /\ wfb (Full cs) = true.
Proof.
  change (wfb (Short k (Full cs))) with (match k with [] => false | _ => true end && forallb nib k && wfb (Full cs)).
  rewrite !andb_true_iff. unfold nibs. destruct k as [|x k].
  - split; [intros [[? ?] ?]; discriminate | intros [? _]; congruence].
  - split; [intros [[_ ?] ?]; repeat split; auto; discriminate | intros (_ & ? & ?); auto].
Qed.

Lemma wf_short_inv k c : wfb (Short k c) = true ->
  (exists v, c = Value v /\ valid_key k = true /\ v <> []) \/
  (exists cs, c = Full cs /\ k <> [] /\ nibs k = true /\ wfb (Full cs) = true).
Proof.
  destruct c as [|v|k' c'|cs]; try (cbn [wfb]; discriminate).
  - intros H. apply wf_leaf in H. left; eauto.
  - intros H. apply wf_ext in H. right; eauto.
Qed.

Lemma forallb_child (f : node -> bool) cs :
  f Empty = true -> (forallb f cs = true <-> forall x, f (child cs x) = true).
Proof.
  intros HE. rewrite forallb_forall. split.
  - intros H x. unfold child. destruct (Nat.lt_ge_cases (N.to_nat x) (length cs)).
    + apply H, nth_In. assumption.
    + rewrite nth_overflow by assumption. exact HE.
  - intros H c Hc. apply (In_nth _ _ Empty) in Hc as (i & Hi & <-).
    specialize (H (N.of_nat i)). unfold child in H. rewrite Nat2N.id in H. exact H.
Qed.

Lemma nth_firstn_lt (l : list node) n i : (i < n)%nat -> nth i (firstn n l) Empty = nth i l Empty.
Proof.
  revert n i; induction l as [|a l IH]; intros [|n] [|i] H; simpl; auto; try lia. apply IH. lia.
Qed.

Lemma forallb_firstn_child (f : node -> bool) cs :
  f Empty = true -> length cs = 17%nat -> (forallb f (firstn 16 cs) = true <-> forall x, x < 16 -> f (child cs x) = true).
Proof.
  intros HE Hl. rewrite forallb_forall. split.
  - intros H x Hx. unfold child. apply H.
    rewrite <- (nth_firstn_lt cs 16 (N.to_nat x)) by lia.
    apply nth_In. rewrite firstn_length. lia.
  - intros H c Hc. apply (In_nth _ _ Empty) in Hc as (i & Hi & <-).
    rewrite firstn_length in Hi. rewrite nth_firstn_lt by lia.
    specialize (H (N.of_nat i)). unfold child in H. rewrite Nat2N.id in H. apply H. lia.
Qed.

Lemma wf_full cs :
  wfb (Full cs) = true <->
  length cs = 17%nat /\
  (forall x, x < 16 -> slot_ok (child cs x)) /\
  slot16_ok (child cs 16) /\
  (exists i j, i <> j /\ i <= 16 /\ j <= 16 /\ child cs i <> Empty /\ child cs j <> Empty).
Proof.
  cbn [wfb]. rewrite !andb_true_iff, Nat.eqb_eq.
  split.
  - intros [[[[Hl Hall] Hnv] H16] Hlive]. split; [exact Hl|].
    rewrite forallb_child in Hall by reflexivity.
    rewrite forallb_firstn_child in Hnv by (auto; reflexivity).
    split; [|split].
    + intros x Hx. specialize (Hall x). specialize (Hnv x Hx). unfold slot_ok.
      destruct (child cs x); simpl in *; auto; discriminate.
    + unfold slot16_ok, child. change (N.to_nat 16) with 16%nat.
      destruct (nth 16 cs Empty) as [|[|b v]| |]; try discriminate; [left; reflexivity|].
      right. exists (b :: v). split; [discriminate | reflexivity].
    + apply Nat.leb_le in Hlive. apply live_two in Hlive as (i & j & Hne & Hi & Hj & Hci & Hcj).
      exists i, j. repeat split; auto; lia.
  - intros (Hl & Hs & H16 & (i & j & Hne & Hi & Hj & Hci & Hcj)).
    repeat split; auto.
    + apply forallb_child; [reflexivity|]. intros x.
      destruct (N.lt_ge_cases x 16) as [Hx|Hx].
      * destruct (Hs x Hx) as [->|Hw]; [reflexivity|]. rewrite Hw. apply orb_true_r.
      * destruct (N.eq_dec x 16) as [->|Hx'].
        -- destruct H16 as [->|(v & _ & ->)]; reflexivity.
        -- rewrite child_overflow by lia. reflexivity.
    + apply forallb_firstn_child; [reflexivity | exact Hl|]. intros x Hx.
      destruct (Hs x Hx) as [->|Hw]; [reflexivity|]. destruct (child cs x); try reflexivity. discriminate.
    + unfold slot16_ok, child in H16. change (N.to_nat 16) with 16%nat in H16.
      destruct H16 as [->|(v & Hv & ->)]; [reflexivity|]. destruct v; [congruence | reflexivity].
    + apply Nat.leb_le. apply live_two. exists i, j. repeat split; auto; lia.
Qed.

Lemma slot_ok_not_value c v : slot_ok c -> c <> Value v.
Proof. intros [->|H] E; [discriminate | subst; discriminate]. Qed.

Lemma wfb_not_empty n : wfb n = true -> n <> Empty.
Proof. intros H ->. discriminate. Qed.

Lemma wfb_cases n : wfb n = true -> (exists k c, n = Short k c) \/ (exists cs, n = Full cs).
Proof. destruct n; try discriminate; eauto. Qed.

(* slots of a well-formed Full node, by index *)
Lemma wf_full_slot cs x : wfb (Full cs) = true -> x <= 16 ->
  (x < 16 /\ slot_ok (child cs x)) \/ (x = 16 /\ slot16_ok (child cs 16)).
Proof.
  intros H Hx. apply wf_full in H as (_ & Hs & H16 & _).
  destruct (N.eq_dec x 16) as [->|Hne]; [right; auto | left; split; [lia | apply Hs; lia]].
Qed.
