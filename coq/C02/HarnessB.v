(* Evaluation of the layer-B (cache) model of Cache.v on harness-written histories: the model keeps
   node flags, hash placeholders, cache generations and the NodeDatabase (memory map with reference
   counts + disk store) and must reproduce every read, root and listing, and after every
   commit / flush / reopen exactly the set of node hashes in the memory cache (NodeDatabase.Nodes)
   and on disk.  Any Missing / Panic / NoFuel outcome of the model counts as a disagreement. *)
From Coq Require Import String List NArith Bool.
From V.Base Require Import Hex.
From V.C02 Require Import Keccak Model ModelB Cache Harness.
Import ListNotations.
Local Open Scope N_scope.

Inductive hopB :=
| BUpd (k v : string)
| BDel (k : string)
| BGet (k : string) (found : bool) (v : string)
| BHash (root : string)                       (* Trie.Hash *)
| BCommit (root : string)                     (* Trie.Commit *)
| BFlush                                      (* Trie.Commit + NodeDatabase.Commit(root) *)
| BReopenDisk (root : string)                 (* flush, fresh NodeDatabase over the same disk, NewTrie(root), Hash *)
| BReopenMem (root : string)                  (* Commit, NewTrie(root) on the same NodeDatabase, Hash *)
| BLimit (l : N)                              (* SetCacheLimit *)
| BIter (start : string) (obs : list (string * string))
| BDeref (root : string)                      (* NodeDatabase.Dereference(root) of an older committed root *)
| BStore (memnodes disknodes : list string).  (* NodeDatabase.Nodes() and the keys of the disk store *)

Record st := mkS { strie : trieB; sdb : ndb }.

Definition set_eqb (a : list bytes) (b : list string) : bool :=
  Nat.eqb (length a) (length b) && forallb (fun x => existsb (fun y => bytes_eqb x (unhex y)) b) a.

Definition is_empty_c (c : cnode) : bool := match c with CEmpty => true | _ => false end.

(* one step: None = disagreement *)
Definition stepB (s : st) (o : hopB) : option st :=
  let t := strie s in let d := sdb s in
  match o with
  | BUpd k v => match try_updateB d t (unhex k) (unhex v) with OK t' => Some (mkS t' d) | _ => None end
  | BDel k => match try_deleteB d t (unhex k) with OK t' => Some (mkS t' d) | _ => None end
  | BGet k found v =>
      match try_getB d t (unhex k) with
      | (OK (Some x), t') => if found && bytes_eqb x (unhex v) then Some (mkS t' d) else None
      | (OK None, t') => if negb found then Some (mkS t' d) else None
      | _ => None
      end
  | BHash root =>
      let '(h, t') := hash_trieB keccak256 d t in
      if bytes_eqb h (unhex root) then Some (mkS t' d) else None
  | BCommit root =>
      let '(h, t', d') := commit_trieB keccak256 d t in
      if bytes_eqb h (unhex root) then Some (mkS t' d') else None
  | BFlush =>
      let '(h, t', d') := commit_trieB keccak256 d t in
      Some (mkS t' (db_commit d' h))
  | BReopenDisk root =>
      let '(h, t', d') := commit_trieB keccak256 d t in
      let d2 := mkDb [] (disk (db_commit d' h)) in
      match new_trieB keccak256 d2 h (tlimit t) with
      | OK t2 => let '(h2, t3) := hash_trieB keccak256 d2 t2 in
                 if bytes_eqb h (unhex root) && bytes_eqb h2 (unhex root) then Some (mkS t3 d2) else None
      | _ => None
      end
  | BReopenMem root =>
      let '(h, t', d') := commit_trieB keccak256 d t in
      match new_trieB keccak256 d' h (tlimit t) with
      | OK t2 => let '(h2, t3) := hash_trieB keccak256 d' t2 in
                 if bytes_eqb h (unhex root) && bytes_eqb h2 (unhex root) then Some (mkS t3 d') else None
      | _ => None
      end
  | BLimit l => Some (mkS (mkT (troot t) (tgen t) l) d)
  | BIter start obs =>
      match resolve_all 200 d (troot t) with
      | OK n => if kvs_eqb (iter_from n (unhex start)) obs then Some s else None
      | _ => None
      end
  | BDeref root => Some (mkS t (db_dereference d (unhex root)))
  | BStore memnodes disknodes =>
      if set_eqb (map fst (mem d)) memnodes && set_eqb (map fst (disk d)) disknodes then Some s else None
  end.

Fixpoint followB (s : st) (h : list hopB) : bool :=
  match h with
  | [] => true
  | o :: r => match stepB s o with Some s' => followB s' r | None => false end
  end.

Definition checkB (h : list hopB) : bool := followB (mkS empty_trie empty_db) h.
