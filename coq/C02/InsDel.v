(* C02 proofs, part 3: insert and delete keep the trie in minimal form and act on the content as
   finite-map update / removal. *)
From Coq Require Import List Arith NArith Lia Bool.
From V.Base Require Import Hex.
From V.C02 Require Import Model Lemmas Sem.
Import ListNotations.
Local Open Scope N_scope.

(* n' holds what n holds, except that [key] now maps to [r] *)
Definition upd_sem (n n' : node) (key : list N) (r : option bytes) : Prop :=
  forall k', valid_key k' = true -> get n' k' = if keys_eq_dec k' key then r else get n k'.

Lemma upd_sem_refl n key : valid_key key = true -> upd_sem n n key (get n key).
Proof. intros _ k' _. destruct (keys_eq_dec k' key) as [->|]; reflexivity. Qed.

(* ---------- the two-way branch built when a short node is split ---------- *)
Definition branch2 (y : N) (a : node) (x : N) (b : node) : list node :=
  set_nth (set_nth empty17 (N.to_nat y) a) (N.to_nat x) b.

Lemma branch2_length y a x b : length (branch2 y a x b) = 17%nat.
Proof. unfold branch2. rewrite !set_nth_length. reflexivity. Qed.

Lemma child_branch2 y a x b z : y <= 16 -> x <= 16 ->
  child (branch2 y a x b) z = if x =? z then b else if y =? z then a else Empty.
Proof.
  intros Hy Hx. unfold branch2.
  rewrite child_set_nth by (rewrite set_nth_length; unfold empty17; rewrite repeat_length; lia).
  destruct (x =? z); [reflexivity|].
  rewrite child_set_nth by (unfold empty17; rewrite repeat_length; lia).
  destruct (y =? z); [reflexivity | apply child_empty17].
Qed.

(* what may sit in slot z *)
Definition slot_for (z : N) (c : node) : Prop :=
  (z < 16 /\ wfb c = true) \/ (z = 16 /\ exists v, v <> [] /\ c = Value v).

Lemma slot_for_ne z c : slot_for z c -> c <> Empty.
Proof. intros [[_ H]|[_ (v & _ & ->)]]; [apply wfb_not_empty; exact H | discriminate]. Qed.

Lemma wf_branch2 y a x b : x <> y -> slot_for y a -> slot_for x b -> wfb (Full (branch2 y a x b)) = true.
Proof.
  intros Hne Ha Hb.
  assert (Hy : y <= 16) by (destruct Ha as [[? _]|[-> _]]; lia).
  assert (Hx : x <= 16) by (destruct Hb as [[? _]|[-> _]]; lia).
  apply wf_full. split; [apply branch2_length|]. split; [|split].
  - intros z Hz. rewrite child_branch2 by assumption.
    destruct (N.eqb_spec x z) as [->|_].
    + destruct Hb as [[_ H]|[-> _]]; [right; exact H | lia].
    + destruct (N.eqb_spec y z) as [->|_]; [|left; reflexivity].
      destruct Ha as [[_ H]|[-> _]]; [right; exact H | lia].
  - rewrite child_branch2 by assumption.
    destruct (N.eqb_spec x 16) as [->|Hx16].
    + destruct Hb as [[? _]|[_ (v & Hv & ->)]]; [lia | right; eauto].
    + destruct (N.eqb_spec y 16) as [->|Hy16]; [|left; reflexivity].
      destruct Ha as [[? _]|[_ (v & Hv & ->)]]; [lia | right; eauto].
  - exists x, y. repeat split; auto; rewrite child_branch2 by assumption.
    + rewrite N.eqb_refl. apply (slot_for_ne x); exact Hb.
    + destruct (N.eqb_spec x y) as [->|_]; [congruence|]. rewrite N.eqb_refl. apply (slot_for_ne y); exact Ha.
Qed.

Lemma slot_for_leaf z r v : vtail z r -> v <> [] -> slot_for z (insert_nil r (Value v)).
Proof.
  intros [[-> ->]|[Hz Hr]] Hv.
  - right. split; [reflexivity|]. exists v. auto.
  - left. split; [exact Hz|]. destruct r as [|a r]; [discriminate|]. unfold insert_nil. apply wf_leaf. auto.
Qed.

(* the remainder of a well-formed short node after cutting its key at position |p| *)
Lemma slot_for_rest p y r c : wfb (Short (p ++ y :: r) c) = true -> slot_for y (insert_nil r c) /\ nibs p = true.
Proof.
  intros H. apply wf_short_inv in H as [(v & -> & Hk & Hv)|(cs & -> & _ & Hn & Hw)].
  - destruct (valid_split p (y :: r) Hk ltac:(discriminate)) as [Hp Hyr]. split; [|exact Hp].
    apply slot_for_leaf; [|exact Hv]. apply valid_cons in Hyr. exact Hyr.
  - apply nibs_app in Hn as [Hp Hyr]. apply nibs_cons in Hyr as [Hy Hr]. split; [|exact Hp].
    left. split; [exact Hy|]. destruct r as [|a r]; [exact Hw|]. unfold insert_nil. apply wf_ext.
    repeat split; auto. discriminate.
Qed.

Lemma wf_insert_nil_ext p cs : nibs p = true -> wfb (Full cs) = true -> wfb (insert_nil p (Full cs)) = true.
Proof.
  intros Hp Hw. destruct p as [|a p]; [exact Hw|]. unfold insert_nil. apply wf_ext. repeat split; auto. discriminate.
Qed.

(* ---------- insert on a short node, by the common prefix ---------- *)
Lemma prefix_len_app p ra rb :
  heads_differ ra rb ->
  prefix_len (p ++ ra) (p ++ rb) = length p.
Proof.
  intros Hd. induction p as [|a p IH]; simpl.
  - unfold heads_differ in Hd. destruct ra as [|x ra], rb as [|y rb]; simpl; auto. destruct (N.eqb_spec x y); [contradiction | reflexivity].
  - rewrite N.eqb_refl, IH. reflexivity.
Qed.

Lemma nth_app_len (p : list N) y r : nth (length p) (p ++ y :: r) 0 = y.
Proof. rewrite app_nth2 by lia. rewrite Nat.sub_diag. reflexivity. Qed.

Lemma skipn_app_len {A} (p r : list A) : skipn (length p) (p ++ r) = r.
Proof. rewrite skipn_app, skipn_all, Nat.sub_diag. reflexivity. Qed.

Lemma skipn_S_app_len {A} (p : list A) y r : skipn (S (length p)) (p ++ y :: r) = r.
Proof.
  induction p as [|a p IH]; [reflexivity|]. exact IH.
Qed.

Lemma firstn_app_len {A} (p r : list A) : firstn (length p) (p ++ r) = p.
Proof. rewrite firstn_app, firstn_all, Nat.sub_diag. simpl. apply app_nil_r. Qed.

Lemma insert_short nk c key value p ra rb :
  key <> [] -> key = p ++ ra -> nk = p ++ rb ->
  heads_differ ra rb ->
  insert (Short nk c) key value =
  match rb with
  | [] => let '(d, nn) := insert c ra value in if d then (true, Short nk nn) else (false, Short nk c)
  | y :: rb' => (true, insert_nil p (Full (branch2 y (insert_nil rb' c) (hd 0 ra) (insert_nil (tl ra) value))))
  end.
Proof.
  intros Hne Hk Hnk Hd. destruct key as [|x kr]; [congruence|].
  cbn [insert]. rewrite Hk, Hnk. rewrite (prefix_len_app p ra rb Hd).
  destruct rb as [|y rb'].
  - rewrite app_nil_r, Nat.eqb_refl, skipn_app_len. reflexivity.
  - assert (Hlen : Nat.eqb (length p) (length (p ++ y :: rb')) = false).
    { apply Nat.eqb_neq. rewrite app_length. simpl. lia. }
    rewrite Hlen, nth_app_len, skipn_S_app_len, firstn_app_len.
    assert (Hh : nth (length p) (p ++ ra) 0 = hd 0 ra).
    { destruct ra as [|a ra]; [rewrite app_nil_r; apply nth_overflow; lia | apply nth_app_len]. }
    assert (Ht : skipn (S (length p)) (p ++ ra) = tl ra).
    { destruct ra as [|a ra]; [rewrite app_nil_r; apply skipn_all2; lia | apply skipn_S_app_len]. }
    rewrite Hh, Ht. unfold branch2.
    destruct p as [|a p]; reflexivity.
Qed.

Lemma insert_full_shape cs x kr v d n' : insert (Full cs) (x :: kr) v = (d, n') -> exists cs', n' = Full cs'.
Proof.
  rewrite insert_full. destruct (N.to_nat x <? length cs)%nat; [|intros [= _ <-]; eauto].
  destruct (insert (child cs x) kr v) as [d0 nn]. destruct d0; intros [= _ <-]; eauto.
Qed.

Lemma valid_ne_nil k : valid_key k = true -> k <> [].
Proof. intros H ->. discriminate. Qed.

(* ---------- insert ---------- *)
Lemma insert_spec n : forall key v d n',
  slot_ok n -> valid_key key = true -> v <> [] ->
  insert n key (Value v) = (d, n') ->
  wfb n' = true /\ upd_sem n n' key (Some v) /\ (d = false -> n' = n).
Proof.
  induction n as [|v0|nk c IH|cs IH] using node_ind'; intros key v d n' Hok Hkey Hv Hins.
  - (* nil *)
    rewrite insert_empty in Hins by (apply valid_ne_nil; exact Hkey). injection Hins as <- <-.
    split; [apply wf_leaf; auto|]. split; [|discriminate].
    intros k' Hk'. rewrite get_short. destruct (keys_eq_dec k' key) as [->|Hne].
    + rewrite <- (app_nil_r key) at 2. rewrite strip_self. reflexivity.
    + destruct (strip key k') as [r|] eqn:E; [|reflexivity].
      destruct (valid_strip_eq key k' r Hkey Hk' E) as [-> _]. congruence.
  - (* value: not a trie *)
    destruct Hok as [?|?]; discriminate.
  - (* short *)
    destruct Hok as [?|Hw]; [discriminate|].
    destruct (prefix_len_spec key nk) as (p & ra & rb & Hk & Hnk & _ & Hd).
    rewrite (insert_short nk c key (Value v) p ra rb (valid_ne_nil _ Hkey) Hk Hnk Hd) in Hins.
    destruct rb as [|y rb'].
    + (* the whole short key matches *)
      rewrite app_nil_r in Hnk. subst p.
      destruct (wf_short_inv _ _ Hw) as [(v0 & -> & Hvk & Hv0)|(cs & -> & Hne & Hnb & Hwc)].
      * (* leaf: same key, replace the value *)
        assert (ra = []) by (subst key; apply (valid_prefix_free nk ra Hvk Hkey)). subst ra.
        rewrite app_nil_r in Hk. subst key. cbn [insert] in Hins.
        assert (Hsem : forall w, upd_sem (Short nk (Value v0)) (Short nk (Value w)) nk (Some w)).
        { intros w k' Hk'. rewrite !get_short. destruct (keys_eq_dec k' nk) as [->|Hne].
          - rewrite <- (app_nil_r nk) at 2. rewrite strip_self. reflexivity.
          - destruct (strip nk k') as [r|] eqn:E; [|reflexivity].
            destruct (valid_strip_eq nk k' r Hvk Hk' E) as [-> _]. congruence. }
        destruct (bytes_eqb v0 v) eqn:Eq; cbn [negb] in Hins; injection Hins as <- <-.
        -- apply bytes_eqb_eq in Eq. subst v0. split; [exact Hw|]. split; [apply Hsem | reflexivity].
        -- split; [apply wf_leaf; auto|]. split; [apply Hsem | discriminate].
      * (* extension: descend *)
        assert (Hra : valid_key ra = true) by (subst key; apply (valid_app_nibs nk ra Hnb); exact Hkey).
        destruct (insert (Full cs) ra (Value v)) as [d0 nn] eqn:Ei.
        destruct (IH ra v d0 nn (or_intror Hwc) Hra Hv Ei) as (Hwn & Hsem & Hsame).
        assert (Hfull : exists cs', nn = Full cs').
        { destruct ra as [|a ra]; [discriminate|]. eapply insert_full_shape; exact Ei. }
        destruct Hfull as (cs' & ->).
        assert (Hn' : n' = Short nk (Full cs') /\ (d = false -> Full cs' = Full cs)).
        { destruct d0; injection Hins as <- <-.
          - split; [reflexivity | discriminate].
          - rewrite (Hsame eq_refl). split; reflexivity. }
        destruct Hn' as [-> Hd'].
        split; [apply wf_ext; auto|]. split.
        -- intros k' Hk'. rewrite !get_short. destruct (strip nk k') as [r|] eqn:E.
           ++ apply strip_spec in E. subst k'. cbn [bind].
              assert (Hr : valid_key r = true) by (apply (valid_app_nibs nk r Hnb); exact Hk').
              rewrite (Hsem r Hr). subst key. rewrite if_app_head. reflexivity.
           ++ cbn [bind]. destruct (keys_eq_dec k' key) as [->|_]; [|reflexivity].
              subst key. rewrite strip_self in E. discriminate.
        -- intros Hd0. rewrite (Hd' Hd0). reflexivity.
    + (* split the short node *)
      injection Hins as <- <-. subst nk.
      destruct (slot_for_rest p y rb' c Hw) as [Hold Hp].
      destruct ra as [|x ra'].
      { exfalso. rewrite app_nil_r in Hk. subst key. exact (valid_not_nibs p Hkey Hp). }
      cbn [hd tl].
      assert (Hxv : vtail x ra').
      { subst key. apply (proj1 (valid_app_nibs p _ Hp)) in Hkey. apply valid_cons in Hkey. exact Hkey. }
      assert (Hnew : slot_for x (insert_nil ra' (Value v))) by (apply slot_for_leaf; auto).
      assert (Hxy : x <> y) by exact Hd.
      assert (Hy16 : y <= 16) by (destruct Hold as [[? _]|[-> _]]; lia).
      assert (Hx16 : x <= 16) by (destruct Hnew as [[? _]|[-> _]]; lia).
      pose proof (wf_branch2 y (insert_nil rb' c) x (insert_nil ra' (Value v)) Hxy Hold Hnew) as Hwb.
      split; [apply wf_insert_nil_ext; assumption|]. split; [|discriminate].
      intros k' Hk'. rewrite get_insert_nil', get_short, strip_app.
      destruct (strip p k') as [r|] eqn:E; cbn [bind].
      * apply strip_spec in E. subst k'.
        assert (Hr : valid_key r = true) by (apply (valid_app_nibs p r Hp); exact Hk').
        destruct r as [|z r']; [discriminate|].
        rewrite get_full, child_branch2 by assumption.
        assert (Hzv : vtail z r') by (apply valid_cons; exact Hr).
        cbn [strip]. destruct (N.eqb_spec x z) as [<-|Hxz].
        -- rewrite get_insert_nil'. destruct (N.eqb_spec y x) as [->|_]; [congruence|].
           destruct (strip ra' r') as [t|] eqn:Es; cbn [bind get].
           ++ pose proof (vtail_strip_eq x ra' r' t Hxv Hzv Es) as ->.
              subst key. rewrite if_eq_refl. reflexivity.
           ++ destruct (keys_eq_dec (p ++ x :: r') key) as [E2|_]; [|reflexivity].
              subst key. apply app_inv_head in E2. injection E2 as ->. rewrite <- (app_nil_r ra') in Es at 2.
              rewrite strip_self in Es. discriminate.
        -- assert (Hkk : p ++ z :: r' <> key).
           { subst key. intros E2. apply app_inv_head in E2. congruence. }
           destruct (keys_eq_dec (p ++ z :: r') key) as [?|_]; [contradiction|].
           destruct (N.eqb_spec y z) as [<-|Hyz]; [apply get_insert_nil' | reflexivity].
      * destruct (keys_eq_dec k' key) as [->|_]; [|reflexivity].
        subst key. rewrite strip_self in E. discriminate.
  - (* full *)
    destruct Hok as [?|Hw]; [discriminate|].
    destruct key as [|x kr]; [discriminate|].
    assert (Hxv : vtail x kr) by (apply valid_cons; exact Hkey).
    assert (Hx16 : x <= 16) by (destruct Hxv as [[-> _]|[? _]]; lia).
    pose proof Hw as Hw'. apply wf_full in Hw' as (Hl & Hs & H16 & (i & j & Hij & Hi & Hj & Hci & Hcj)).
    rewrite insert_full in Hins.
    assert (Hlt : (N.to_nat x <? length cs)%nat = true) by (apply Nat.ltb_lt; lia).
    rewrite Hlt in Hins.
    destruct (insert (child cs x) kr (Value v)) as [d0 nn] eqn:Ei.
    (* facts about the new child *)
    assert (Hchild : slot_for x nn /\ (forall r', vtail x r' -> get nn r' = if keys_eq_dec r' kr then Some v else get (child cs x) r')
                     /\ (d0 = false -> nn = child cs x)).
    { destruct Hxv as [[-> ->]|[Hx Hkr]].
      - destruct H16 as [E|(v0 & Hv0 & E)]; rewrite E in Ei; cbn [insert] in Ei.
        + injection Ei as <- <-. split; [right; split; eauto|]. split; [|discriminate].
          intros r' [[_ ->]|[? _]]; [rewrite if_eq_refl; reflexivity | lia].
        + injection Ei as <- <-. split; [right; split; eauto|]. split.
          * intros r' [[_ ->]|[? _]]; [rewrite if_eq_refl; reflexivity | lia].
          * intros Hd0. apply negb_false_iff, bytes_eqb_eq in Hd0. subst v0. symmetry; exact E.
      - destruct (IH x kr v d0 nn (Hs x Hx) Hkr Hv Ei) as (Hwn & Hsem & Hsame).
        split; [left; auto|]. split; [|exact Hsame].
        intros r' [[? _]|[_ Hr']]; [lia | apply Hsem; exact Hr']. }
    destruct Hchild as (Hslot & Hget & Hsame).
    set (cs' := set_nth cs (N.to_nat x) nn).
    assert (Hn' : n' = Full cs').
    { destruct d0; injection Hins as <- <-; [reflexivity|]. unfold cs'. rewrite Hsame by reflexivity.
      unfold child. rewrite set_nth_same. reflexivity. }
    assert (Hch : forall z, child cs' z = if x =? z then nn else child cs z).
    { intros z. unfold cs'. apply child_set_nth. lia. }
    split; [|split].
    + subst n'. apply wf_full. split; [unfold cs'; rewrite set_nth_length; exact Hl|]. split; [|split].
      * intros z Hz. rewrite Hch. destruct (N.eqb_spec x z) as [<-|_]; [|apply Hs; exact Hz].
        destruct Hslot as [[_ H]|[-> _]]; [right; exact H | lia].
      * rewrite Hch. destruct (N.eqb_spec x 16) as [->|_]; [|exact H16].
        destruct Hslot as [[? _]|[_ (w & Hw1 & ->)]]; [lia | right; eauto].
      * exists i, j. repeat split; auto; try lia; rewrite Hch.
        -- destruct (N.eqb_spec x i) as [_|_]; [apply (slot_for_ne x); exact Hslot | exact Hci].
        -- destruct (N.eqb_spec x j) as [_|_]; [apply (slot_for_ne x); exact Hslot | exact Hcj].
    + subst n'. intros k' Hk'. destruct k' as [|z r']; [discriminate|].
      rewrite !get_full, Hch. assert (Hzv : vtail z r') by (apply valid_cons; exact Hk').
      destruct (N.eqb_spec x z) as [<-|Hxz].
      * rewrite (Hget r' Hzv), if_cons_head. reflexivity.
      * destruct (keys_eq_dec (z :: r') (x :: kr)) as [E2|_]; [congruence | reflexivity].
    + intros ->. destruct d0; [discriminate|]. injection Hins as <-. reflexivity.
Qed.

(* ---------- delete on a short node, by the common prefix ---------- *)
Lemma delete_short nk c key p ra rb :
  key = p ++ ra -> nk = p ++ rb ->
  heads_differ ra rb ->
  delete (Short nk c) key =
  match rb with
  | _ :: _ => (false, Short nk c)
  | [] =>
      match ra with
      | [] => (true, Empty)
      | _ => let '(d, ch) := delete c ra in
             if d then match ch with
                       | Short ck cv => (true, Short (nk ++ ck) cv)
                       | _ => (true, Short nk ch)
                       end
             else (false, Short nk c)
      end
  end.
Proof.
  intros Hk Hnk Hd. cbn [delete]. rewrite Hk, Hnk, (prefix_len_app p ra rb Hd).
  destruct rb as [|y rb'].
  - rewrite !app_nil_r. rewrite Nat.ltb_irrefl.
    destruct ra as [|x ra'].
    + rewrite app_nil_r, Nat.eqb_refl. reflexivity.
    + assert (Hlen : Nat.eqb (length p) (length (p ++ x :: ra')) = false).
      { apply Nat.eqb_neq. rewrite app_length. simpl. lia. }
      rewrite Hlen, skipn_app_len. reflexivity.
  - assert (Hlt : (length p <? length (p ++ y :: rb'))%nat = true).
    { apply Nat.ltb_lt. rewrite app_length. simpl. lia. }
    rewrite Hlt. reflexivity.
Qed.

(* ---------- the single-child reduction ---------- *)
Lemma reduce_get cs' k : get (reduce cs') k = get (Full cs') k.
Proof.
  unfold reduce. destruct (live cs' 0) as [|pos [|? ?]] eqn:E; try reflexivity.
  destruct (live_single cs' pos E) as (_ & _ & Hothers).
  assert (Hgen : forall ch, (forall r, get ch r = get (child cs' pos) r) ->
                            forall ck, get (Short (pos :: ck) ch) k = match k with [] => None | z :: r => if pos =? z then bind (strip ck r) (get ch) else None end).
  { intros ch _ ck. rewrite get_short. destruct k as [|z r]; [reflexivity|]. cbn [strip]. destruct (pos =? z); reflexivity. }
  destruct k as [|z r].
  { destruct (negb (pos =? 16)); [destruct (child cs' pos)|]; rewrite get_short; reflexivity. }
  rewrite get_full.
  assert (Hz : pos <> z -> get (child cs' z) r = None).
  { intros Hne. rewrite Hothers by congruence. reflexivity. }
  destruct (negb (pos =? 16)).
  - destruct (child cs' pos) as [|v|ck cv|ds] eqn:Ec; rewrite get_short; cbn [strip];
      destruct (N.eqb_spec pos z) as [<-|Hne]; try (rewrite Hz by exact Hne; reflexivity);
      rewrite Ec; try reflexivity.
    rewrite get_short. reflexivity.
  - rewrite get_short. cbn [strip]. destruct (N.eqb_spec pos z) as [<-|Hne]; [reflexivity | rewrite Hz by exact Hne; reflexivity].
Qed.

Lemma reduce_wf cs' :
  length cs' = 17%nat -> (forall z, z < 16 -> slot_ok (child cs' z)) -> slot16_ok (child cs' 16) ->
  live cs' 0 <> [] -> wfb (reduce cs') = true.
Proof.
  intros Hl Hs H16 Hne. unfold reduce. destruct (live cs' 0) as [|pos [|q l]] eqn:E; [congruence| |].
  - destruct (live_single cs' pos E) as (Hlt & Hc & _).
    destruct (N.eqb_spec pos 16) as [->|Hp]; cbn [negb].
    + destruct H16 as [?|(v & Hv & Ev)]; [contradiction|]. rewrite Ev. apply wf_leaf. auto.
    + assert (Hp16 : pos < 16) by lia.
      destruct (Hs pos Hp16) as [?|Hw]; [contradiction|].
      destruct (child cs' pos) as [|v|ck cv|ds] eqn:Ec; try discriminate.
      * apply wf_short_inv in Hw as [(v & -> & Hk & Hv)|(ds & -> & Hn0 & Hn & Hwd)].
        -- apply wf_leaf. split; [|exact Hv]. apply valid_cons. right; auto.
        -- apply wf_ext. split; [discriminate|]. split; [apply nibs_cons; auto | exact Hwd].
      * apply wf_ext. split; [discriminate|]. split; [apply nibs_cons; auto | exact Hw].
  - apply wf_full. split; [exact Hl|]. split; [exact Hs|]. split; [exact H16|].
    assert (H2 : (2 <= length (live cs' 0))%nat) by (rewrite E; simpl; lia).
    apply live_two in H2 as (i & j & Hij & Hi & Hj & Hci & Hcj). exists i, j. repeat split; auto; lia.
Qed.

(* ---------- delete ---------- *)
Definition is_full (n : node) : bool := match n with Full _ => true | _ => false end.

Lemma delete_spec n : forall key d n',
  wfb n = true -> valid_key key = true ->
  delete n key = (d, n') ->
  slot_ok n' /\ upd_sem n n' key None /\ (d = false -> n' = n) /\ (is_full n = true -> wfb n' = true).
Proof.
  induction n as [|v0|nk c IH|cs IH] using node_ind'; intros key d n' Hw Hkey Hdel; try discriminate.
  - (* short *)
    destruct (prefix_len_spec key nk) as (p & ra & rb & Hk & Hnk & _ & Hd).
    rewrite (delete_short nk c key p ra rb Hk Hnk Hd) in Hdel.
    destruct rb as [|y rb'].
    + rewrite app_nil_r in Hnk. subst p.
      destruct ra as [|x ra'].
      * (* the key is exactly this leaf *)
        injection Hdel as <- <-. rewrite app_nil_r in Hk. subst key.
        split; [left; reflexivity|]. split; [|split; discriminate].
        destruct (wf_short_inv _ _ Hw) as [(v0 & -> & Hvk & Hv0)|(cs & -> & _ & Hnb & _)];
          [|exfalso; exact (valid_not_nibs nk Hkey Hnb)].
        intros k' Hk'. destruct (keys_eq_dec k' nk) as [_|Hne]; [reflexivity|].
        rewrite get_short. destruct (strip nk k') as [r|] eqn:E; [|reflexivity].
        destruct (valid_strip_eq nk k' r Hvk Hk' E) as [-> _]. congruence.
      * (* descend *)
        destruct (wf_short_inv _ _ Hw) as [(v0 & -> & Hvk & Hv0)|(cs & -> & Hne & Hnb & Hwc)].
        { exfalso. subst key. pose proof (valid_prefix_free nk (x :: ra') Hvk Hkey). discriminate. }
        assert (Hra : valid_key (x :: ra') = true) by (subst key; apply (valid_app_nibs nk _ Hnb); exact Hkey).
        destruct (delete (Full cs) (x :: ra')) as [d0 ch] eqn:Ed.
        destruct (IH (x :: ra') d0 ch Hwc Hra Ed) as (_ & Hsem & Hsame & Hwch).
        specialize (Hwch eq_refl).
        (* in every case the result behaves as Short nk ch *)
        assert (Hres : wfb n' = true /\ (forall k', get n' k' = bind (strip nk k') (get ch)) /\ (d = false -> n' = Short nk (Full cs))).
        { destruct d0.
          - destruct ch as [|w|ck cv|ds]; try discriminate; injection Hdel as <- <-.
            + split; [|split; [|discriminate]].
              * apply wf_short_inv in Hwch as [(w & -> & Hck & Hw0)|(ds & -> & Hck0 & Hck & Hwd)].
                -- apply wf_leaf. split; [|exact Hw0]. apply (valid_app_nibs nk ck Hnb). exact Hck.
                -- apply wf_ext. repeat split; auto.
                   ++ intros E. apply app_eq_nil in E as [? _]. contradiction.
                   ++ apply nibs_app; auto.
              * intros k'. rewrite get_short, strip_app. destruct (strip nk k'); cbn [bind]; [rewrite get_short|]; reflexivity.
            + split; [apply wf_ext; auto|]. split; [intros k'; apply get_short | discriminate].
          - injection Hdel as <- <-. rewrite (Hsame eq_refl). split; [exact Hw|]. split; [intros k'; apply get_short | reflexivity]. }
        destruct Hres as (Hwn & Hgetn & Hdn).
        split; [right; exact Hwn|]. split; [|split; [exact Hdn | discriminate]].
        intros k' Hk'. rewrite Hgetn, get_short. destruct (strip nk k') as [r|] eqn:E; cbn [bind].
        -- apply strip_spec in E. subst k'.
           assert (Hr : valid_key r = true) by (apply (valid_app_nibs nk r Hnb); exact Hk').
           rewrite (Hsem r Hr). subst key. rewrite if_app_head. reflexivity.
        -- destruct (keys_eq_dec k' key) as [->|_]; [|reflexivity].
           subst key. rewrite strip_self in E. discriminate.
    + (* the key leaves the short key: nothing to delete *)
      injection Hdel as <- <-. split; [right; exact Hw|]. split; [|split; [reflexivity | discriminate]].
      assert (Hnone : get (Short nk c) key = None).
      { rewrite get_short. subst key nk. rewrite strip_app, strip_self. cbn [bind].
        destruct ra as [|x ra']; [reflexivity|]. cbn [strip]. destruct (N.eqb_spec y x) as [->|_]; [congruence | reflexivity]. }
      rewrite <- Hnone. apply upd_sem_refl. exact Hkey.
  - (* full *)
    destruct key as [|x kr]; [discriminate|].
    assert (Hxv : vtail x kr) by (apply valid_cons; exact Hkey).
    assert (Hx16 : x <= 16) by (destruct Hxv as [[-> _]|[? _]]; lia).
    pose proof Hw as Hw'. apply wf_full in Hw' as (Hl & Hs & H16 & (i & j & Hij & Hi & Hj & Hci & Hcj)).
    rewrite delete_full in Hdel.
    assert (Hlt : (N.to_nat x <? length cs)%nat = true) by (apply Nat.ltb_lt; lia).
    rewrite Hlt in Hdel.
    destruct (delete (child cs x) kr) as [d0 nn] eqn:Ed.
    assert (Hchild : ((x < 16 /\ slot_ok nn) \/ (x = 16 /\ nn = Empty))
                     /\ (forall r', vtail x r' -> get nn r' = if keys_eq_dec r' kr then None else get (child cs x) r')
                     /\ (d0 = false -> nn = child cs x)).
    { destruct Hxv as [[-> ->]|[Hx Hkr]].
      - destruct H16 as [E|(v0 & Hv0 & E)]; rewrite E in Ed; cbn [delete] in Ed; injection Ed as <- <-.
        + split; [right; auto|]. split; [|intros _; symmetry; exact E].
          intros r' [[_ ->]|[? _]]; [rewrite if_eq_refl; reflexivity | lia].
        + split; [right; auto|]. split; [|discriminate].
          intros r' [[_ ->]|[? _]]; [rewrite if_eq_refl; reflexivity | lia].
      - destruct (Hs x Hx) as [E|Hwc].
        + rewrite E in Ed. cbn [delete] in Ed. injection Ed as <- <-.
          split; [left; split; [exact Hx | left; reflexivity]|]. split; [|intros _; symmetry; exact E].
          intros r' _. rewrite E. destruct (keys_eq_dec r' kr); reflexivity.
        + destruct (IH x kr d0 nn Hwc Hkr Ed) as (Hok & Hsem & Hsame & _).
          split; [left; auto|]. split; [|exact Hsame].
          intros r' [[? _]|[_ Hr']]; [lia | apply Hsem; exact Hr']. }
    destruct Hchild as (Hslot & Hget & Hsame).
    destruct d0.
    + (* a value was removed below: rebuild and possibly reduce *)
      injection Hdel as <- <-.
      set (cs' := set_nth cs (N.to_nat x) nn).
      assert (Hch : forall z, child cs' z = if x =? z then nn else child cs z).
      { intros z. unfold cs'. apply child_set_nth. lia. }
      assert (Hwn : wfb (reduce cs') = true).
      { apply reduce_wf.
        - unfold cs'. rewrite set_nth_length. exact Hl.
        - intros z Hz. rewrite Hch. destruct (N.eqb_spec x z) as [<-|_]; [|apply Hs; exact Hz].
          destruct Hslot as [[_ H]|[-> _]]; [exact H | lia].
        - rewrite Hch. destruct (N.eqb_spec x 16) as [->|_]; [|exact H16].
          destruct Hslot as [[? _]|[_ ->]]; [lia | left; reflexivity].
        - (* one of the two old children is still there *)
          assert (Hex : exists z, z <> x /\ z <= 16 /\ child cs z <> Empty).
          { destruct (N.eq_dec i x) as [->|Hix]; [exists j | exists i]; repeat split; auto. }
          destruct Hex as (z & Hzx & Hz16 & Hcz).
          assert (Hin : In z (live cs' 0)).
          { apply live_child. split; [unfold cs'; rewrite set_nth_length; lia|].
            rewrite Hch. destruct (N.eqb_spec x z) as [->|_]; [congruence | exact Hcz]. }
          intros E. rewrite E in Hin. exact Hin. }
      split; [right; exact Hwn|]. split; [|split; [discriminate | intros _; exact Hwn]].
      intros k' Hk'. rewrite reduce_get. destruct k' as [|z r']; [discriminate|].
      rewrite !get_full, Hch. assert (Hzv : vtail z r') by (apply valid_cons; exact Hk').
      destruct (N.eqb_spec x z) as [<-|Hxz].
      * rewrite (Hget r' Hzv), if_cons_head. reflexivity.
      * destruct (keys_eq_dec (z :: r') (x :: kr)) as [E2|_]; [congruence | reflexivity].
    + (* nothing found below *)
      injection Hdel as <- <-. split; [right; exact Hw|]. split; [|split; [reflexivity | intros _; exact Hw]].
      assert (Hnone : get (Full cs) (x :: kr) = None).
      { rewrite get_full. rewrite <- (Hsame eq_refl). rewrite (Hget kr Hxv).
        destruct (keys_eq_dec kr kr); [reflexivity | congruence]. }
      rewrite <- Hnone. apply upd_sem_refl. exact Hkey.
Qed.
