(* C02 proofs, part 6: operation histories over byte keys.  The trie reached by any history is in
   minimal form, reads follow the finite map of last writes, the tree (hence the root for every hash
   function) depends on that map only. *)
From Coq Require Import List Sorted Arith NArith Lia Bool.
From V.Base Require Import Hex.
From V.C02 Require Import Model Lemmas Sem InsDel Unique Iter.
Import ListNotations.
Local Open Scope N_scope.

(* ---------- keybytesToHex ---------- *)
Lemma hex_valid b : bytes_ok b -> valid_key (keybytes_to_hex b) = true.
Proof.
  induction 1 as [|x b Hx Hb IH]; [reflexivity|].
  cbn [keybytes_to_hex]. unfold byte_ok in Hx.
  apply valid_cons. right. split; [apply N.div_lt_upper_bound; lia|].
  apply valid_cons. right. split; [apply N.mod_lt; lia | exact IH].
Qed.

Lemma hex_inj a b : keybytes_to_hex a = keybytes_to_hex b -> a = b.
Proof.
  revert b; induction a as [|x a IH]; intros [|y b] E; cbn [keybytes_to_hex] in E.
  - reflexivity.
  - discriminate E.
  - discriminate E.
  - injection E as E1 E2 E3. f_equal; [|apply IH; exact E3].
    rewrite (N.div_mod x 16), (N.div_mod y 16) by lia. congruence.
Qed.

Lemma bytes_eq_dec (a b : bytes) : {a = b} + {a <> b}.
Proof. apply list_eq_dec, N.eq_dec. Qed.

(* ---------- one operation ---------- *)
Definition op_key (o : op) : bytes := match o with OUpdate k _ => k | ODelete k => k end.
Definition op_ok (o : op) : Prop := bytes_ok (op_key o).

(* what the operation writes: Some v = store v, None = remove *)
Definition op_val (o : op) : option bytes :=
  match o with
  | OUpdate _ [] => None
  | OUpdate _ v => Some v
  | ODelete _ => None
  end.

Lemma wf_trie_slot t : wf_trie t = true <-> slot_ok t.
Proof.
  unfold wf_trie, slot_ok. rewrite orb_true_iff. destruct t; cbn; split; intros [?|?]; auto; discriminate.
Qed.

Lemma delete_top t key : slot_ok t -> valid_key key = true ->
  slot_ok (snd (delete t key)) /\ upd_sem t (snd (delete t key)) key None.
Proof.
  intros [->|Hw] Hk.
  - cbn. split; [left; reflexivity|]. intros k' _. destruct (keys_eq_dec k' key); reflexivity.
  - destruct (delete t key) as [d n'] eqn:E. destruct (delete_spec t key d n' Hw Hk E) as (H1 & H2 & _). auto.
Qed.

Lemma step_spec t o : slot_ok t -> op_ok o ->
  slot_ok (step t o) /\ upd_sem t (step t o) (keybytes_to_hex (op_key o)) (op_val o).
Proof.
  intros Ht Ho. pose proof (hex_valid _ Ho) as Hk. destruct o as [k v|k]; cbn [step op_key op_val] in *.
  - unfold try_update. destruct v as [|b v].
    + apply delete_top; assumption.
    + destruct (insert t (keybytes_to_hex k) (Value (b :: v))) as [d n'] eqn:E.
      destruct (insert_spec t _ (b :: v) d n' Ht Hk ltac:(discriminate) E) as (H1 & H2 & _).
      cbn [snd]. split; [right; exact H1 | exact H2].
  - unfold try_delete. apply delete_top; assumption.
Qed.

(* ---------- histories ---------- *)
Definition run_from (t : node) (ops : list op) : node := fold_left step ops t.

(* finite map of last writes, over trie keys (hex) and over byte keys *)
Definition happly (m : list N -> option bytes) (o : op) : list N -> option bytes :=
  fun k' => if keys_eq_dec k' (keybytes_to_hex (op_key o)) then op_val o else m k'.
Definition hcontent_from (m : list N -> option bytes) (ops : list op) := fold_left happly ops m.

Definition bapply (m : bytes -> option bytes) (o : op) : bytes -> option bytes :=
  fun k' => if bytes_eq_dec k' (op_key o) then op_val o else m k'.
Definition content_from (m : bytes -> option bytes) (ops : list op) := fold_left bapply ops m.

(* the finite map a history leaves behind: last write wins, empty write = delete *)
Definition content (ops : list op) : bytes -> option bytes := content_from (fun _ => None) ops.

Definition ops_ok (ops : list op) : Prop := Forall op_ok ops.

Lemma run_from_spec ops : forall t m,
  slot_ok t -> (forall k, valid_key k = true -> get t k = m k) -> ops_ok ops ->
  slot_ok (run_from t ops) /\ forall k, valid_key k = true -> get (run_from t ops) k = hcontent_from m ops k.
Proof.
  induction ops as [|o ops IH]; intros t m Ht Hm Hok; [split; assumption|].
  inversion Hok as [|? ? Ho Hops]; subst. cbn [run_from hcontent_from fold_left].
  destruct (step_spec t o Ht Ho) as [Ht' Hsem].
  apply IH; auto. intros k Hk. rewrite (Hsem k Hk). unfold happly.
  destruct (keys_eq_dec k (keybytes_to_hex (op_key o))); [reflexivity | apply Hm; exact Hk].
Qed.

Lemma hcontent_bytes ops : forall mh mb,
  (forall key, mh (keybytes_to_hex key) = mb key) ->
  forall key, hcontent_from mh ops (keybytes_to_hex key) = content_from mb ops key.
Proof.
  induction ops as [|o ops IH]; intros mh mb Hm key; [apply Hm|].
  cbn [hcontent_from content_from fold_left]. apply IH. intros key'. unfold happly, bapply.
  destruct (keys_eq_dec (keybytes_to_hex key') (keybytes_to_hex (op_key o))) as [E|Hne],
           (bytes_eq_dec key' (op_key o)) as [E'|Hne']; auto.
  - apply hex_inj in E. contradiction.
  - subst. contradiction.
Qed.

Lemma hcontent_untouched ops : forall m k,
  (forall o, In o ops -> keybytes_to_hex (op_key o) <> k) -> hcontent_from m ops k = m k.
Proof.
  induction ops as [|o ops IH]; intros m k H; [reflexivity|].
  change (hcontent_from (happly m o) ops k = m k). rewrite IH by (intros o' Ho'; apply H; right; exact Ho').
  unfold happly. destruct (keys_eq_dec k (keybytes_to_hex (op_key o))) as [->|_]; [|reflexivity].
  exfalso. apply (H o); [left; reflexivity | reflexivity].
Qed.

(* ---------- invariant and read semantics ---------- *)
Lemma run_wf ops : ops_ok ops -> wf_trie (run ops) = true.
Proof.
  intros Hok. apply wf_trie_slot.
  apply (run_from_spec ops Empty (fun _ => None)); auto. left; reflexivity.
Qed.

Lemma run_get ops key : ops_ok ops -> bytes_ok key -> try_get (run ops) key = content ops key.
Proof.
  intros Hok Hk. unfold try_get, content.
  destruct (run_from_spec ops Empty (fun _ => None)) as [_ Hget]; auto; [left; reflexivity|].
  unfold run. fold (run_from Empty ops). rewrite (Hget _ (hex_valid _ Hk)).
  apply hcontent_bytes. reflexivity.
Qed.

Lemma content_app ops o key :
  content (ops ++ [o]) key = if bytes_eq_dec key (op_key o) then op_val o else content ops key.
Proof. unfold content, content_from. rewrite fold_left_app. reflexivity. Qed.

(* ---------- canonical form and history independence ---------- *)
Lemma canonical a b : wf_trie a = true -> wf_trie b = true ->
  (forall k, valid_key k = true -> get a k = get b k) -> a = b.
Proof. intros Ha Hb H. apply unique; [apply wf_trie_slot, Ha | apply wf_trie_slot, Hb | exact H]. Qed.

Lemma history_independent ops1 ops2 :
  ops_ok ops1 -> ops_ok ops2 ->
  (forall key, bytes_ok key -> content ops1 key = content ops2 key) ->
  run ops1 = run ops2.
Proof.
  intros H1 H2 Hc. apply canonical; [apply run_wf, H1 | apply run_wf, H2|].
  intros k Hk. unfold run. fold (run_from Empty ops1). fold (run_from Empty ops2).
  destruct (run_from_spec ops1 Empty (fun _ => None)) as [_ G1]; auto; [left; reflexivity|].
  destruct (run_from_spec ops2 Empty (fun _ => None)) as [_ G2]; auto; [left; reflexivity|].
  rewrite (G1 k Hk), (G2 k Hk).
  (* is k the image of a key some operation touched? *)
  destruct (in_dec keys_eq_dec k (map (fun o => keybytes_to_hex (op_key o)) (ops1 ++ ops2))) as [Hin|Hnin].
  - apply in_map_iff in Hin as (o & <- & Ho).
    assert (Hko : bytes_ok (op_key o)).
    { apply in_app_iff in Ho as [Ho|Ho]; [exact (proj1 (Forall_forall _ _) H1 o Ho) | exact (proj1 (Forall_forall _ _) H2 o Ho)]. }
    rewrite !(hcontent_bytes _ _ (fun _ => None)) by reflexivity. apply Hc. exact Hko.
  - rewrite !hcontent_untouched; [reflexivity | |];
      intros o Ho E; apply Hnin; apply in_map_iff; exists o; (split; [exact E|]); apply in_app_iff; auto.
Qed.

Section Root.
  Variable H : bytes -> bytes.
  Lemma root_history_independent ops1 ops2 :
    ops_ok ops1 -> ops_ok ops2 ->
    (forall key, bytes_ok key -> content ops1 key = content ops2 key) ->
    root_hash H (run ops1) = root_hash H (run ops2).
  Proof. intros. f_equal. apply history_independent; assumption. Qed.
End Root.

(* a trie in minimal form is what a fresh trie built from its own listing looks like *)
Definition ops_of_listing (l : list (bytes * bytes)) : list op := map (fun kv => OUpdate (fst kv) (snd kv)) l.

(* ---------- iteration ---------- *)
Lemma iter_content t k v : wf_trie t = true ->
  (In (k, v) (iter t) <-> valid_key k = true /\ get t k = Some v).
Proof.
  intros Ht. apply wf_trie_slot in Ht as [->|Hw]; [|apply iter_get; exact Hw].
  cbn. split; [tauto | intros [_ ?]; discriminate].
Qed.

(* ---------- iteration over byte keys ---------- *)
Lemma nibble_join x : x < 256 -> N.lor (((x / 16) * 16) mod 256) (x mod 16) = x.
Proof.
  intros Hx.
  assert (Hall : forallb (fun x => N.lor (((x / 16) * 16) mod 256) (x mod 16) =? x) (map N.of_nat (seq 0 256)) = true)
    by (vm_compute; reflexivity).
  rewrite forallb_forall in Hall. apply N.eqb_eq, Hall.
  apply in_map_iff. exists (N.to_nat x). split; [apply N2Nat.id|]. apply in_seq. lia.
Qed.

Lemma hex_last b : last (keybytes_to_hex b) 0 = 16.
Proof.
  induction b as [|x b IH]; [reflexivity|]. cbn [keybytes_to_hex].
  destruct (keybytes_to_hex b) as [|a r] eqn:E; [destruct b; discriminate|]. exact IH.
Qed.

Fixpoint nibbles_of (b : bytes) : list N :=
  match b with [] => [] | x :: r => x / 16 :: x mod 16 :: nibbles_of r end.

Lemma hex_nibbles b : keybytes_to_hex b = nibbles_of b ++ [16].
Proof. induction b as [|x b IH]; [reflexivity|]. cbn. rewrite IH. reflexivity. Qed.

Lemma decode_nibbles_of b : bytes_ok b -> decode_nibbles (nibbles_of b) = b.
Proof.
  induction 1 as [|x b Hx Hb IH]; [reflexivity|]. cbn [nibbles_of decode_nibbles].
  rewrite nibble_join by exact Hx. rewrite IH. reflexivity.
Qed.

Lemma h2k_hex b : bytes_ok b -> hex_to_keybytes (keybytes_to_hex b) = b.
Proof.
  intros Hb. unfold hex_to_keybytes, has_term. rewrite hex_last. cbn [N.eqb Pos.eqb].
  rewrite hex_nibbles, removelast_last. apply decode_nibbles_of. exact Hb.
Qed.

Lemma path_lt_nil a : path_lt a [] = false.
Proof. destruct a; reflexivity. Qed.

Lemma iter_from_all t : iter_from t [] = map (fun kv => (hex_to_keybytes (fst kv), snd kv)) (iter t).
Proof.
  unfold iter_from. cbn [keybytes_to_hex removelast]. f_equal.
  induction (iter t) as [|a l IH]; [reflexivity|]. cbn [filter]. rewrite path_lt_nil. cbn [negb]. f_equal. exact IH.
Qed.

(* the history's content is only ever stored under its own keys *)
Lemma content_from_key ops : forall m key v,
  content_from m ops key = Some v -> (exists o, In o ops /\ op_key o = key) \/ m key = Some v.
Proof.
  induction ops as [|o ops IH]; intros m key v Hc; [right; exact Hc|].
  cbn [content_from fold_left] in Hc. apply IH in Hc as [(o' & Ho' & E)|Hc].
  - left. exists o'. split; [right; exact Ho' | exact E].
  - unfold bapply in Hc. destruct (bytes_eq_dec key (op_key o)) as [->|_]; [|right; exact Hc].
    left. exists o. split; [left; reflexivity | reflexivity].
Qed.

Lemma content_key ops key v : content ops key = Some v -> exists o, In o ops /\ op_key o = key.
Proof. intros Hc. apply content_from_key in Hc as [?|?]; [assumption | discriminate]. Qed.

Lemma run_get_hex ops k : ops_ok ops -> valid_key k = true ->
  get (run ops) k = hcontent_from (fun _ => None) ops k.
Proof.
  intros Hok Hk. destruct (run_from_spec ops Empty (fun _ => None)) as [_ G]; auto. left; reflexivity.
Qed.

(* a stored path is the image of a key the history wrote *)
Lemma stored_is_image ops p v : ops_ok ops -> valid_key p = true -> get (run ops) p = Some v ->
  exists key, bytes_ok key /\ p = keybytes_to_hex key /\ content ops key = Some v.
Proof.
  intros Hok Hp Hg. rewrite run_get_hex in Hg by assumption.
  destruct (in_dec keys_eq_dec p (map (fun o => keybytes_to_hex (op_key o)) ops)) as [Hin|Hnin].
  - apply in_map_iff in Hin as (o & <- & Ho).
    exists (op_key o). split; [exact (proj1 (Forall_forall _ _) Hok o Ho)|]. split; [reflexivity|].
    unfold content. rewrite <- (hcontent_bytes ops (fun _ => None) (fun _ => None)) by reflexivity. exact Hg.
  - rewrite hcontent_untouched in Hg; [discriminate|].
    intros o Ho E. apply Hnin. apply in_map_iff. exists o. auto.
Qed.

Lemma iter_bytes_content ops key v : ops_ok ops ->
  (In (key, v) (iter_from (run ops) []) <-> content ops key = Some v).
Proof.
  intros Hok. rewrite iter_from_all, in_map_iff. split.
  - intros ((p, w) & E & Hin). cbn in E. injection E as <- <-.
    apply (iter_content _ _ _ (run_wf ops Hok)) in Hin as [Hp Hg].
    destruct (stored_is_image ops p w Hok Hp Hg) as (key & Hk & -> & Hc).
    rewrite h2k_hex by exact Hk. exact Hc.
  - intros Hc. destruct (content_key ops key v Hc) as (o & Ho & <-).
    pose proof (proj1 (Forall_forall _ _) Hok o Ho) as Hk.
    exists (keybytes_to_hex (op_key o), v). cbn. rewrite h2k_hex by exact Hk. split; [reflexivity|].
    apply (iter_content _ _ _ (run_wf ops Hok)). split; [apply hex_valid; exact Hk|].
    rewrite <- (run_get ops (op_key o) Hok Hk) in Hc. exact Hc.
Qed.

(* ---------- order of the delivered byte keys ---------- *)
(* path order on trie keys versus bytes.Compare order on the byte keys they encode: they agree
   except when one key is a proper prefix of the other (the terminator 16 sorts after every nibble) *)
Lemma hex_order a : forall b, bytes_ok a -> bytes_ok b ->
  path_lt (keybytes_to_hex a) (keybytes_to_hex b) = true ->
  path_lt a b = true \/ exists r, r <> [] /\ a = b ++ r.
Proof.
  induction a as [|x a IH]; intros b Ha Hb Hlt.
  - exfalso. destruct b as [|y b]; cbn [keybytes_to_hex path_lt] in Hlt; [rewrite N.ltb_irrefl, N.eqb_refl in Hlt; discriminate|].
    inversion Hb as [|? ? Hy _]; subst. unfold byte_ok in Hy.
    assert (y / 16 < 16) by (apply N.div_lt_upper_bound; lia).
    destruct (N.ltb_spec 16 (y / 16)); [lia|]. destruct (N.eqb_spec 16 (y / 16)); [lia | discriminate].
  - destruct b as [|y b]; [right; exists (x :: a); split; [discriminate | reflexivity]|].
    inversion Ha as [|? ? Hx Ha']; subst. inversion Hb as [|? ? Hy Hb']; subst. unfold byte_ok in Hx, Hy.
    cbn [keybytes_to_hex path_lt] in Hlt.
    pose proof (N.div_mod x 16 ltac:(lia)) as Dx. pose proof (N.div_mod y 16 ltac:(lia)) as Dy.
    pose proof (N.mod_lt x 16 ltac:(lia)) as Mx. pose proof (N.mod_lt y 16 ltac:(lia)) as My.
    cbn [path_lt].
    remember (x / 16) as qx. remember (y / 16) as qy. remember (x mod 16) as rx. remember (y mod 16) as ry.
    clear Heqqx Heqqy Heqrx Heqry.
    destruct (N.ltb_spec qx qy) as [H1|H1].
    { left. destruct (N.ltb_spec x y); [reflexivity | lia]. }
    destruct (N.eqb_spec qx qy) as [E1|E1]; [|discriminate].
    destruct (N.ltb_spec rx ry) as [H2|H2].
    { left. destruct (N.ltb_spec x y); [reflexivity | lia]. }
    destruct (N.eqb_spec rx ry) as [E2|E2]; [|discriminate].
    assert (Exy : y = x) by lia. clear Dy. subst y.
    destruct (IH b Ha' Hb' Hlt) as [Hl|(r & Hr & ->)].
    + left. rewrite N.ltb_irrefl, N.eqb_refl. exact Hl.
    + right. exists r. split; [exact Hr | reflexivity].
Qed.

Definition bytes_kv_lt (a b : bytes * bytes) : Prop := path_lt (fst a) (fst b) = true.

(* no live key is a proper prefix of another live key *)
Definition prefix_free (m : bytes -> option bytes) : Prop :=
  forall k r v w, m k = Some v -> m (k ++ r) = Some w -> r = [].

Lemma sorted_map_in {A B} (R : A -> A -> Prop) (R' : B -> B -> Prop) (f : A -> B) l :
  StronglySorted R l ->
  (forall a b, In a l -> In b l -> R a b -> R' (f a) (f b)) ->
  StronglySorted R' (map f l).
Proof.
  induction 1 as [|a l Hs IH Hf]; intros Hm; cbn [map]; constructor.
  - apply IH. intros x y Hx Hy. apply Hm; right; assumption.
  - rewrite Forall_map. rewrite Forall_forall in *. intros b Hb. apply Hm; [left; reflexivity | right; exact Hb | apply Hf; exact Hb].
Qed.

Lemma iter_bytes_sorted ops : ops_ok ops -> prefix_free (content ops) ->
  StronglySorted bytes_kv_lt (iter_from (run ops) []).
Proof.
  intros Hok Hpf. rewrite iter_from_all. eapply sorted_map_in; [apply iter_sorted|].
  intros [p1 v1] [p2 v2] H1 H2 Hlt. unfold kv_lt in Hlt. unfold bytes_kv_lt. cbn [fst snd] in *.
  apply (iter_content _ _ _ (run_wf ops Hok)) in H1 as [Hp1 Hg1].
  apply (iter_content _ _ _ (run_wf ops Hok)) in H2 as [Hp2 Hg2].
  destruct (stored_is_image ops p1 v1 Hok Hp1 Hg1) as (k1 & Hk1 & -> & Hc1).
  destruct (stored_is_image ops p2 v2 Hok Hp2 Hg2) as (k2 & Hk2 & -> & Hc2).
  rewrite !h2k_hex by assumption.
  destruct (hex_order k1 k2 Hk1 Hk2 Hlt) as [?|(r & Hr & ->)]; [assumption|].
  exfalso. apply Hr. exact (Hpf k2 r v2 v1 Hc2 Hc1).
Qed.

(* ... and with a key that is a proper prefix of another key the delivery order is not ascending *)
Definition refuting_history : list op := [OUpdate [97] [49]; OUpdate [97; 98] [50]].

Lemma iter_bytes_sorted_refuted :
  ops_ok refuting_history /\ ~ StronglySorted bytes_kv_lt (iter_from (run refuting_history) []).
Proof.
  split.
  - repeat constructor; unfold byte_ok; lia.
  - intros Hs. assert (E : iter_from (run refuting_history) [] = [([97; 98], [50]); ([97], [49])]) by (vm_compute; reflexivity).
    rewrite E in Hs. inversion Hs as [|? ? _ Hf]; subst. inversion Hf as [|? ? Hlt _]; subst.
    unfold bytes_kv_lt in Hlt. cbn in Hlt. discriminate.
Qed.
