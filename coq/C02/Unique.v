(* C02 proofs, part 4: canonical form.  Two tries in minimal form with the same content are the
   same tree. *)
From Coq Require Import List Arith NArith Lia Bool.
From V.Base Require Import Hex.
From V.C02 Require Import Model Lemmas Sem InsDel.
Import ListNotations.
Local Open Scope N_scope.

(* the subtrie reached by consuming one symbol *)
Definition down (n : node) (x : N) : node :=
  match n with
  | Short (y :: k) c => if x =? y then insert_nil k c else Empty
  | Full cs => child cs x
  | _ => Empty
  end.

Lemma get_down n x r : wfb n = true -> get n (x :: r) = get (down n x) r.
Proof.
  destruct n as [|v|k c|cs]; try discriminate; intros Hw.
  - destruct k as [|y k].
    + apply wf_short_inv in Hw as [(v & _ & Hk & _)|(cs & _ & Hk & _)]; [discriminate | congruence].
    + rewrite get_short. cbn [strip down]. rewrite N.eqb_sym.
      destruct (x =? y); [symmetry; apply get_insert_nil' | reflexivity].
  - apply get_full.
Qed.

Lemma size_insert_nil k c : (size (insert_nil k c) <= S (length k + size c))%nat.
Proof. destruct k; simpl; lia. Qed.

Lemma size_down n x : wfb n = true -> (size (down n x) < size n)%nat.
Proof.
  destruct n as [|v|k c|cs]; try discriminate; intros Hw.
  - destruct k as [|y k]; cbn [down size]; [lia|].
    destruct (x =? y); [|simpl; lia]. pose proof (size_insert_nil k c). simpl. lia.
  - apply size_child.
Qed.

Lemma wf_down n x : wfb n = true ->
  (x < 16 -> slot_ok (down n x)) /\ (x = 16 -> slot16_ok (down n x)).
Proof.
  destruct n as [|v|k c|cs]; try discriminate; intros Hw.
  - destruct k as [|y k].
    { apply wf_short_inv in Hw as [(v & _ & Hk & _)|(cs & _ & Hk & _)]; [discriminate | congruence]. }
    cbn [down]. destruct (N.eqb_spec x y) as [->|Hne]; [|split; intros _; left; reflexivity].
    destruct (slot_for_rest [] y k c Hw) as [[[Hy H]|[-> (v & Hv & E)]] _].
    + split; [intros _; right; exact H | lia].
    + split; [lia | intros _; right; exists v; auto].
  - apply wf_full in Hw as (_ & Hs & H16 & _). cbn [down]. split; [apply Hs | intros ->; exact H16].
Qed.

(* a well-formed subtrie has a non-nil successor under some symbol <= 16 *)
Lemma wf_has_down n : wfb n = true -> exists x, x <= 16 /\ down n x <> Empty.
Proof.
  destruct n as [|v|k c|cs]; try discriminate; intros Hw.
  - destruct k as [|y k].
    { apply wf_short_inv in Hw as [(v & _ & Hk & _)|(cs & _ & Hk & _)]; [discriminate | congruence]. }
    destruct (slot_for_rest [] y k c Hw) as [Hslot _]. exists y. split.
    + destruct Hslot as [[? _]|[-> _]]; lia.
    + cbn [down]. rewrite N.eqb_refl. apply (slot_for_ne y); exact Hslot.
  - apply wf_full in Hw as (_ & _ & _ & (i & _ & _ & Hi & _ & Hci & _)). exists i. auto.
Qed.

Lemma insert_nil_inj k1 c1 k2 c2 :
  (forall k c, c1 <> Short k c) -> (forall k c, c2 <> Short k c) ->
  insert_nil k1 c1 = insert_nil k2 c2 -> k1 = k2 /\ c1 = c2.
Proof.
  intros H1 H2. destruct k1 as [|a k1], k2 as [|b k2]; unfold insert_nil; intros E.
  - auto.
  - exfalso. eapply H1. exact E.
  - exfalso. eapply H2. symmetry. exact E.
  - injection E as -> -> ->. auto.
Qed.

Lemma short_child_not_short k c : wfb (Short k c) = true -> forall k' c', c <> Short k' c'.
Proof.
  intros Hw k' c' ->. apply wf_short_inv in Hw as [(v & E & _)|(cs & E & _)]; discriminate.
Qed.

(* a trie in minimal form is determined by its successors *)
Lemma reconstruct a b :
  slot_ok a -> slot_ok b -> (forall x, x <= 16 -> down a x = down b x) -> a = b.
Proof.
  intros [->|Ha] [->|Hb] H; [reflexivity| | |].
  - destruct (wf_has_down b Hb) as (x & Hx & Hd). rewrite <- (H x Hx) in Hd. cbn in Hd. congruence.
  - destruct (wf_has_down a Ha) as (x & Hx & Hd). rewrite (H x Hx) in Hd. cbn in Hd. congruence.
  - destruct a as [|v|k1 c1|cs]; try discriminate; destruct b as [|w|k2 c2|ds]; try discriminate.
    + (* short / short *)
      destruct k1 as [|y k1].
      { apply wf_short_inv in Ha as [(v' & _ & Hk & _)|(cs' & _ & Hk & _)]; [discriminate | congruence]. }
      destruct k2 as [|z k2].
      { apply wf_short_inv in Hb as [(v' & _ & Hk & _)|(cs' & _ & Hk & _)]; [discriminate | congruence]. }
      destruct (slot_for_rest [] y k1 c1 Ha) as [Hsa _].
      assert (Hy : y <= 16) by (destruct Hsa as [[? _]|[-> _]]; lia).
      pose proof (H y Hy) as E. cbn [down] in E. rewrite N.eqb_refl in E.
      destruct (N.eqb_spec y z) as [->|Hne].
      * apply insert_nil_inj in E as [-> ->]; [reflexivity | |];
          [apply (short_child_not_short _ _ Ha) | apply (short_child_not_short _ _ Hb)].
      * exfalso. apply (slot_for_ne y _ Hsa). exact E.
    + (* short / full *)
      exfalso. apply wf_full in Hb as (_ & _ & _ & (i & j & Hij & Hi & Hj & Hci & Hcj)).
      destruct k1 as [|y k1].
      { apply wf_short_inv in Ha as [(v' & _ & Hk & _)|(cs' & _ & Hk & _)]; [discriminate | congruence]. }
      pose proof (H i Hi) as Ei. pose proof (H j Hj) as Ej. cbn [down] in Ei, Ej.
      destruct (N.eqb_spec i y) as [->|_]; [|congruence].
      destruct (N.eqb_spec j y) as [->|_]; congruence.
    + (* full / short *)
      exfalso. apply wf_full in Ha as (_ & _ & _ & (i & j & Hij & Hi & Hj & Hci & Hcj)).
      destruct k2 as [|y k2].
      { apply wf_short_inv in Hb as [(v' & _ & Hk & _)|(cs' & _ & Hk & _)]; [discriminate | congruence]. }
      pose proof (H i Hi) as Ei. pose proof (H j Hj) as Ej. cbn [down] in Ei, Ej.
      destruct (N.eqb_spec i y) as [->|_]; [|congruence].
      destruct (N.eqb_spec j y) as [->|_]; congruence.
    + (* full / full *)
      f_equal. apply wf_full in Ha as (Hla & _). apply wf_full in Hb as (Hlb & _).
      apply list_ext17; auto.
Qed.

(* same content on every valid key *)
Definition same_content (a b : node) : Prop :=
  forall k, valid_key k = true -> get a k = get b k.

Lemma get_empty k : get Empty k = None.
Proof. reflexivity. Qed.

Lemma get_down_ok n x r : slot_ok n -> get n (x :: r) = get (down n x) r.
Proof. intros [->|H]; [reflexivity | apply get_down; exact H]. Qed.

Lemma slot_ok_down n x : slot_ok n -> x < 16 -> slot_ok (down n x).
Proof. intros [->|H] Hx; [left; reflexivity | apply (wf_down n x H); exact Hx]. Qed.

Lemma slot16_ok_down n : slot_ok n -> slot16_ok (down n 16).
Proof. intros [->|H]; [left; reflexivity | apply (wf_down n 16 H); reflexivity]. Qed.

Lemma size_down_ok n x : slot_ok n -> n <> Empty -> (size (down n x) < size n)%nat.
Proof. intros [->|H] Hn; [congruence | apply size_down; exact H]. Qed.

Lemma node_eq_empty (n : node) : {n = Empty} + {n <> Empty}.
Proof. destruct n; [left; reflexivity | right; discriminate ..]. Qed.

Lemma unique_size : forall m a b,
  (size a + size b < m)%nat -> slot_ok a -> slot_ok b -> same_content a b -> a = b.
Proof.
  induction m as [|m IH]; intros a b Hm Ha Hb Hsame; [lia|].
  apply reconstruct; auto. intros x Hx.
  destruct (N.eq_dec x 16) as [->|Hne].
  - (* the value slot *)
    pose proof (Hsame [16] eq_refl) as E. rewrite !get_down_ok in E by assumption.
    destruct (slot16_ok_down a Ha) as [Ea|(v & _ & Ea)], (slot16_ok_down b Hb) as [Eb|(w & _ & Eb)];
      rewrite Ea, Eb in *; cbn in E; congruence.
  - assert (Hx16 : x < 16) by lia.
    destruct (node_eq_empty a) as [Ea|Ea], (node_eq_empty b) as [Eb|Eb].
    + subst. reflexivity.
    + subst a. apply IH.
      * pose proof (size_down_ok b x Hb Eb). cbn [down size]. simpl in Hm. lia.
      * left; reflexivity.
      * apply slot_ok_down; assumption.
      * intros k Hk. rewrite <- (get_down_ok b x k Hb). rewrite <- (Hsame (x :: k)); [reflexivity|].
        apply valid_cons. right; auto.
    + subst b. apply IH.
      * pose proof (size_down_ok a x Ha Ea). cbn [down size]. simpl in Hm. lia.
      * apply slot_ok_down; assumption.
      * left; reflexivity.
      * intros k Hk. rewrite <- (get_down_ok a x k Ha). rewrite (Hsame (x :: k)); [reflexivity|].
        apply valid_cons. right; auto.
    + apply IH.
      * pose proof (size_down_ok a x Ha Ea). pose proof (size_down_ok b x Hb Eb). lia.
      * apply slot_ok_down; assumption.
      * apply slot_ok_down; assumption.
      * intros k Hk. rewrite <- !get_down_ok by assumption. apply Hsame.
        apply valid_cons. right; auto.
Qed.

Theorem unique a b : slot_ok a -> slot_ok b -> same_content a b -> a = b.
Proof. intros. apply (unique_size (S (size a + size b))); auto. Qed.
