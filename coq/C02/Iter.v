(* C02 proofs, part 5: iteration lists exactly the content, in strictly ascending path order
   (paths are nibble strings ended by the terminator 16, compared like bytes.Compare). *)
From Coq Require Import List Sorted Arith NArith Lia Bool.
From V.Base Require Import Hex.
From V.C02 Require Import Model Lemmas Sem InsDel.
Import ListNotations.
Local Open Scope N_scope.

Fixpoint iter_slots (cs : list node) (i : N) : list (list N * bytes) :=
  match cs with
  | [] => []
  | c :: r => map (fun kv => (i :: fst kv, snd kv)) (iter c) ++ iter_slots r (i + 1)
  end.

Lemma iter_full cs : iter (Full cs) = iter_slots cs 0.
Proof. reflexivity. Qed.

Lemma iter_short k c : iter (Short k c) = map (fun kv => (k ++ fst kv, snd kv)) (iter c).
Proof. reflexivity. Qed.

Lemma in_iter_slots cs b k v :
  In (k, v) (iter_slots cs b) <->
  exists j r, (j < length cs)%nat /\ k = (b + N.of_nat j) :: r /\ In (r, v) (iter (nth j cs Empty)).
Proof.
  revert b; induction cs as [|c cs IH]; intros b.
  - simpl. split; [tauto | intros (j & r & Hj & _); simpl in Hj; lia].
  - cbn [iter_slots]. rewrite in_app_iff, in_map_iff, IH. split.
    + intros [((r, w) & E & Hin)|(j & r & Hj & -> & Hin)].
      * cbn in E. injection E as <- <-. exists 0%nat, r. simpl. repeat split; auto; [lia | f_equal; lia].
      * exists (S j), r. simpl. repeat split; auto; [lia | f_equal; lia].
    + intros (j & r & Hj & -> & Hin). destruct j as [|j].
      * left. exists (r, v). simpl in *. split; [f_equal; f_equal; lia | exact Hin].
      * right. exists j, r. simpl in *. repeat split; auto; [lia | f_equal; lia].
Qed.

Lemma in_iter_full cs k v :
  length cs = 17%nat ->
  (In (k, v) (iter (Full cs)) <-> exists z r, z <= 16 /\ k = z :: r /\ In (r, v) (iter (child cs z))).
Proof.
  intros Hl. rewrite iter_full, in_iter_slots. unfold child. split.
  - intros (j & r & Hj & -> & Hin). exists (N.of_nat j), r. rewrite Nat2N.id. repeat split; auto; lia.
  - intros (z & r & Hz & -> & Hin). exists (N.to_nat z), r. rewrite N2Nat.id. repeat split; auto; lia.
Qed.

(* ---------- iteration = content ---------- *)
Lemma iter_get n : wfb n = true ->
  forall k v, In (k, v) (iter n) <-> valid_key k = true /\ get n k = Some v.
Proof.
  induction n as [|v0|nk c IH|cs IH] using node_ind'; intros Hw k v; try discriminate.
  - (* short *)
    rewrite iter_short, in_map_iff, get_short.
    destruct (wf_short_inv _ _ Hw) as [(v0 & -> & Hvk & Hv0)|(cs & -> & Hne & Hnb & Hwc)].
    + cbn [iter]. split.
      * intros ((r, w) & E & [E'|[]]). injection E' as <- <-. cbn in E. injection E as <- <-.
        rewrite app_nil_r. split; [exact Hvk|]. rewrite <- (app_nil_r nk) at 2. rewrite strip_self. reflexivity.
      * intros [Hk Hg]. destruct (strip nk k) as [r|] eqn:E; [|discriminate].
        destruct (valid_strip_eq nk k r Hvk Hk E) as [-> ->]. cbn in Hg. injection Hg as ->.
        exists ([], v). cbn. rewrite app_nil_r. auto.
    + split.
      * intros ((r, w) & E & Hin). cbn in E. injection E as <- <-.
        apply (IH Hwc) in Hin as [Hr Hg]. split; [apply (valid_app_nibs nk r Hnb); exact Hr|].
        rewrite strip_self. exact Hg.
      * intros [Hk Hg]. destruct (strip nk k) as [r|] eqn:E; [|discriminate]. cbn [bind] in Hg.
        apply strip_spec in E. subst k. exists (r, v). split; [reflexivity|].
        apply (IH Hwc). split; [apply (valid_app_nibs nk r Hnb); exact Hk | exact Hg].
  - (* full *)
    pose proof Hw as Hw'. apply wf_full in Hw' as (Hl & Hs & H16 & _).
    rewrite (in_iter_full cs k v Hl). split.
    + intros (z & r & Hz & -> & Hin). rewrite get_full.
      destruct (N.eq_dec z 16) as [->|Hne].
      * destruct H16 as [E|(v0 & Hv0 & E)]; rewrite E in *; cbn in Hin; [contradiction|].
        destruct Hin as [E'|[]]. injection E' as <- <-. auto.
      * assert (Hz16 : z < 16) by lia. destruct (Hs z Hz16) as [E|Hwc].
        -- rewrite E in Hin. contradiction.
        -- apply (IH z Hwc) in Hin as [Hr Hg]. split; [apply valid_cons; right; auto | exact Hg].
    + intros [Hk Hg]. destruct k as [|z r]; [discriminate|]. rewrite get_full in Hg.
      apply valid_cons in Hk as [[-> ->]|[Hz Hr]].
      * exists 16, []. repeat split; try lia.
        destruct H16 as [E|(v0 & Hv0 & E)]; rewrite E in *; cbn in Hg; [discriminate|].
        injection Hg as ->. cbn. auto.
      * exists z, r. repeat split; try lia. destruct (Hs z Hz) as [E|Hwc].
        -- rewrite E in Hg. discriminate.
        -- apply (IH z Hwc). auto.
Qed.

(* ---------- order ---------- *)
Definition kv_lt (a b : list N * bytes) : Prop := path_lt (fst a) (fst b) = true.

Lemma path_lt_app p a b : path_lt (p ++ a) (p ++ b) = path_lt a b.
Proof.
  induction p as [|x p IH]; [reflexivity|]. cbn [app path_lt]. rewrite N.ltb_irrefl, N.eqb_refl. exact IH.
Qed.

Lemma sorted_map_prefix p l :
  StronglySorted kv_lt l -> StronglySorted kv_lt (map (fun kv => (p ++ fst kv, snd kv)) l).
Proof.
  induction 1 as [|a l Hs IH Hf]; cbn [map]; constructor; auto.
  rewrite Forall_map. eapply Forall_impl; [|exact Hf].
  intros b Hb. unfold kv_lt in *. cbn [fst]. rewrite path_lt_app. exact Hb.
Qed.

Lemma sorted_app (l1 l2 : list (list N * bytes)) :
  StronglySorted kv_lt l1 -> StronglySorted kv_lt l2 ->
  (forall a b, In a l1 -> In b l2 -> kv_lt a b) -> StronglySorted kv_lt (l1 ++ l2).
Proof.
  intros H1 H2 H. induction H1 as [|a l Hs IH Hf]; [exact H2|].
  cbn [app]. constructor.
  - apply IH. intros x y Hx Hy. apply H; [right; exact Hx | exact Hy].
  - apply Forall_app. split; [exact Hf|]. apply Forall_forall. intros y Hy. apply H; [left; reflexivity | exact Hy].
Qed.

Lemma iter_slots_first cs b k v : In (k, v) (iter_slots cs b) -> exists z r, k = z :: r /\ b <= z.
Proof.
  intros H. apply in_iter_slots in H as (j & r & _ & -> & _). exists (b + N.of_nat j), r. split; [reflexivity | lia].
Qed.

Lemma iter_slots_sorted cs : (forall x, StronglySorted kv_lt (iter (child cs x))) ->
  forall b, StronglySorted kv_lt (iter_slots cs b).
Proof.
  induction cs as [|c cs IH]; intros Hc b; [constructor|].
  cbn [iter_slots]. apply sorted_app.
  - specialize (Hc 0). unfold child in Hc. cbn in Hc.
    apply (sorted_map_prefix [b]) in Hc. exact Hc.
  - apply IH. intros x. specialize (Hc (x + 1)). unfold child in *.
    replace (N.to_nat (x + 1)) with (S (N.to_nat x)) in Hc by lia. exact Hc.
  - intros [k1 v1] [k2 v2] H1 H2. apply in_map_iff in H1 as ((r, w) & E & _). cbn in E. injection E as <- <-.
    apply iter_slots_first in H2 as (z & r2 & -> & Hz). unfold kv_lt. cbn [fst path_lt].
    destruct (N.ltb_spec b z); [reflexivity | lia].
Qed.

Lemma iter_sorted n : StronglySorted kv_lt (iter n).
Proof.
  induction n as [|v0|nk c IH|cs IH] using node_ind'.
  - constructor.
  - cbn [iter]. repeat constructor.
  - rewrite iter_short. apply sorted_map_prefix. exact IH.
  - rewrite iter_full. apply iter_slots_sorted. exact IH.
Qed.

Lemma path_lt_irrefl a : path_lt a a = false.
Proof. induction a as [|x a IH]; [reflexivity|]. cbn [path_lt]. rewrite N.ltb_irrefl, N.eqb_refl. exact IH. Qed.

Lemma iter_keys_nodup n : NoDup (map fst (iter n)).
Proof.
  pose proof (iter_sorted n) as H. induction H as [|a l Hs IH Hf]; cbn [map]; constructor; auto.
  intros Hin. apply in_map_iff in Hin as (b & E & Hb). rewrite Forall_forall in Hf.
  specialize (Hf b Hb). unfold kv_lt in Hf. rewrite E, path_lt_irrefl in Hf. discriminate.
Qed.
