(* C02 model, layer B (reload part): what reopening a trie reads back from the node database.
   node.go decodeNode / decodeShort / decodeFull / decodeRef and trie.go resolveHash, followed until
   every hash reference is resolved (the Go code resolves lazily, on the path of each operation; the
   model resolves the whole tree at once, so [load d root = Some t] says: every node reachable from
   the root is present in the database and decodes, and the fully resolved trie is t).

   The database is a partial function from hashes to stored encodings.  RLP decoding is the C08
   model's strict decoder.  The in-memory cache (nodeFlag, cachegen / cachelimit unloading, the dirty
   node cache of NodeDatabase) is not modelled; it is covered by the correspondence and search runs. *)
From Coq Require Import List Arith NArith Bool.
From V.Base Require Import Hex.
From V.C08 Require Model.
From V.C02 Require Import Model Spec.
Import ListNotations.
Local Open Scope N_scope.

Definition db := bytes -> option bytes.

(* a database given as an association list (what the harness dumps from the disk store) *)
Fixpoint lookup (l : list (bytes * bytes)) (h : bytes) : option bytes :=
  match l with
  | [] => None
  | (k, e) :: r => if bytes_eqb k h then Some e else lookup r h
  end.

Section Load.
  Variable d : db.

  (* decodeRef, with hash references resolved through the database (resolveHash + decodeNode);
     [ld] loads a node from its decoded RLP *)
  Definition load_ref (ld : item -> option node) (r : item) : option node :=
    match r with
    | Str [] => Some Empty                                   (* empty string: nil *)
    | Str h =>
        if (length h =? 32)%nat then
          match d h with
          | Some e => match C08.Model.decode_bytes e with
                      | C08.Model.Ok it => ld it
                      | C08.Model.Err _ => None
                      end
          | None => None                                     (* MissingNodeError *)
          end
        else None                                            (* "invalid RLP string size" *)
    | Lst _ => if (length (rlp r) <=? 32)%nat then ld r else None   (* embedded node; "oversized embedded node" *)
    end.

  Definition load_short (ref : item -> option node) (kb : bytes) (v : item) : option node :=
    let key := compact_to_hex kb in
    if has_term key then
      match v with
      | Str val => Some (Short key (Value val))
      | Lst _ => None                                        (* "invalid value node" *)
      end
    else option_map (Short key) (ref v).

  Definition load_full (ref : item -> option node) (l : list item) : option node :=
    match mapM ref (firstn 16 l), nth 16 l (Str []) with
    | Some cs, Str [] => Some (Full (cs ++ [Empty]))
    | Some cs, Str v => Some (Full (cs ++ [Value v]))
    | _, _ => None
    end.

  (* decodeNode on the decoded list: 2 elements = short node, 17 = full node *)
  Fixpoint load (fuel : nat) (it : item) : option node :=
    match fuel with
    | O => None
    | S f =>
        match it with
        | Lst l =>
            if (length l =? 2)%nat then
              match l with
              | Str kb :: v :: _ => load_short (load_ref (load f)) kb v
              | _ => None
              end
            else if (length l =? 17)%nat then load_full (load_ref (load f)) l
            else None                                        (* "invalid number of list elements" *)
        | Str _ => None
        end
    end.

  (* trie.NewTrie(root, db) followed by resolving everything; the empty root needs no database entry *)
  Definition reopen (fuel : nat) (empty_root root : bytes) : option node :=
    if bytes_eqb root empty_root then Some Empty
    else load_ref (load fuel) (Str root).
End Load.

(* ---------- what Commit leaves in the database ---------- *)
(* the proper nodes (short / full) of a trie, the trie itself first *)
Fixpoint nodes (n : node) : list node :=
  match n with
  | Short k c => n :: nodes c
  | Full cs => n :: flat_map nodes cs
  | _ => []
  end.

Section Commit.
  Variable H : bytes -> bytes.

  (* hasher.store with a database: every collapsed node whose RLP is >= 32 bytes is inserted under its
     hash; the root is forced *)
  Definition commit_db (t : node) : list (bytes * bytes) :=
    match t with
    | Empty => []
    | _ => (root_hash H t, root_rlp H t)
           :: map (fun c => (H (rlp (collapse H c)), rlp (collapse H c)))
                  (filter (fun c => (32 <=? length (rlp (collapse H c)))%nat) (nodes t))
    end.
End Commit.
