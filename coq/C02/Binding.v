(* C02 proofs, part 11: the root BINDS the content.  Two tries in minimal form with the same root hash
   are the same tree (hence hold the same content), or the two tries exhibit an explicit collision of
   H: two different byte strings among their node encodings (and the empty-trie encoding 0x80) with
   the same hash.  Uses injectivity of the RLP encoding (C08 decode-after-encode), of the compact key
   encoding (C02_compact_roundtrip) and of the collapse-to-hash rule. *)
From Coq Require Import List Arith NArith Lia Bool.
From V.Base Require Import Hex.
From V.C08 Require Model Proofs.
From V.C02 Require Import Model Lemmas Sem InsDel Unique Iter Proofs Spec SpecProofs ModelB ProofsB.
Import ListNotations.
Local Open Scope N_scope.

Lemma nodes_short_incl k c : incl (nodes c) (nodes (Short k c)).
Proof. intros x Hx. cbn [nodes]. right. exact Hx. Qed.

Lemma nodes_child_incl cs x : incl (nodes (child cs x)) (nodes (Full cs)).
Proof.
  intros y Hy. cbn [nodes]. right. apply in_flat_map. exists (child cs x). split; [|exact Hy].
  unfold child in *. destruct (Nat.lt_ge_cases (N.to_nat x) (length cs)) as [Hlt|Hge]; [apply nth_In; exact Hlt|].
  rewrite nth_overflow in Hy by exact Hge. destruct Hy.
Qed.

Lemma nodes_self n : wfb n = true -> In n (nodes n).
Proof. destruct n; try discriminate; intros _; left; reflexivity. Qed.

Lemma map_eq_in {A B} (f g : A -> B) l : map f l = map g l -> forall x, In x l -> f x = g x.
Proof.
  induction l as [|a l IH]; intros E x Hx; [destruct Hx|]. cbn [map] in E. injection E as E1 E2.
  destruct Hx as [<-|Hx]; [exact E1 | apply IH; assumption].
Qed.

Lemma all_or {A} (P : A -> Prop) (C : Prop) l :
  (forall x, In x l -> P x \/ C) -> (forall x, In x l -> P x) \/ C.
Proof.
  induction l as [|a l IH]; intros Hx; [left; intros x []|].
  destruct (Hx a (or_introl eq_refl)) as [Ha|Hc]; [|right; exact Hc].
  destruct IH as [Hl|Hc]; [intros x Hin; apply Hx; right; exact Hin | | right; exact Hc].
  left. intros x [<-|Hin]; auto.
Qed.

Lemma Lst_inj (a b : list item) : Lst a = Lst b -> a = b.
Proof. intros E. injection E as E. exact E. Qed.

Section Binding.
  Variable H : bytes -> bytes.
  Hypothesis H32 : forall x, length (H x) = 32%nat.

  Definition enc (n : node) : bytes := rlp (collapse H n).

  (* an explicit collision among the byte strings of S *)
  Definition collision (S : list bytes) : Prop :=
    exists x y, In x S /\ In y S /\ x <> y /\ H x = H y.

  Definition enc_ok (t : node) : Prop := forall c, In c (nodes t) -> C08.Model.item_ok (collapse H c).

  Lemma rlp_inj a b : C08.Model.item_ok a -> C08.Model.item_ok b -> rlp a = rlp b -> a = b.
  Proof.
    intros Ha Hb E. pose proof (C08.Proofs.decode_bytes_encode a Ha) as Da.
    rewrite E, (C08.Proofs.decode_bytes_encode b Hb) in Da. congruence.
  Qed.

  Section WithS.
    Variable S : list bytes.

    (* same hash: same preimage, or a collision *)
    Lemma hash_inj x y : In x S -> In y S -> H x = H y -> x = y \/ collision S.
    Proof.
      intros Hx Hy E. destruct (bytes_eq_dec x y) as [->|Hne]; [left; reflexivity|].
      right. exists x, y. auto.
    Qed.

    Definition inS (t : node) : Prop := forall c, In c (nodes t) -> In (enc c) S.

    Definition Inj (a b : node) : Prop :=
      wfb a = true -> wfb b = true -> enc_ok a -> enc_ok b -> inS a -> inS b ->
      collapse H a = collapse H b -> a = b \/ collision S.

    (* children: what the parent embeds determines the child *)
    Lemma embed_inj a b : slot_ok a -> slot_ok b -> enc_ok a -> enc_ok b -> inS a -> inS b -> Inj a b ->
      embed H (collapse H a) = embed H (collapse H b) -> a = b \/ collision S.
    Proof.
      intros Ha Hb Oa Ob Sa Sb IH E.
      assert (Hnil : forall n, wfb n = true -> embed H (collapse H n) <> Str []).
      { intros n Hw. destruct (collapse_lst H n Hw) as (l & ->). unfold embed.
        destruct (length (rlp (Lst l)) <? 32)%nat; [discriminate|]. intros E'. injection E' as E'.
        apply (f_equal (@length N)) in E'. rewrite H32 in E'. discriminate E'. }
      destruct Ha as [->|Ha], Hb as [->|Hb].
      - left; reflexivity.
      - exfalso. apply (Hnil b Hb). symmetry. exact E.
      - exfalso. apply (Hnil a Ha). exact E.
      - destruct (collapse_lst H a Ha) as (la & Ea), (collapse_lst H b Hb) as (lb & Eb).
        pose proof (Oa a (nodes_self a Ha)) as Ia. pose proof (Ob b (nodes_self b Hb)) as Ib.
        pose proof (Sa a (nodes_self a Ha)) as Xa. pose proof (Sb b (nodes_self b Hb)) as Xb. unfold enc in Xa, Xb.
        rewrite Ea, Eb in *. unfold embed in E.
        destruct (length (rlp (Lst la)) <? 32)%nat, (length (rlp (Lst lb)) <? 32)%nat; try discriminate E.
        + apply IH; auto. congruence.
        + injection E as E. destruct (hash_inj _ _ Xa Xb E) as [Er|Hc]; [|right; exact Hc].
          apply IH; auto. rewrite Ea, Eb. apply rlp_inj; assumption.
    Qed.

    Lemma collapse_inj : forall m a b, (size a + size b < m)%nat -> Inj a b.
    Proof.
      induction m as [|m IH]; intros a b Hm Ha Hb Oa Ob Sa Sb E; [lia|].
      destruct a as [|va|ka ca|csa]; try discriminate Ha; destruct b as [|vb|kb cb|csb]; try discriminate Hb.
      - (* short / short *)
        destruct (wf_short_inv _ _ Ha) as [(v1 & -> & Hk1 & Hv1)|(cs1 & -> & Hne1 & Hn1 & Hw1)];
        destruct (wf_short_inv _ _ Hb) as [(v2 & -> & Hk2 & Hv2)|(cs2 & -> & Hne2 & Hn2 & Hw2)].
        + cbn [collapse] in E. injection E as Ek Ev.
          assert (ka = kb) as -> by (rewrite <- (compact_roundtrip ka (or_intror Hk1)), <- (compact_roundtrip kb (or_intror Hk2)), Ek; reflexivity).
          left. subst. reflexivity.
        + exfalso. cbn [collapse] in E. injection E as Ek _.
          assert (ka = kb) as -> by (rewrite <- (compact_roundtrip ka (or_intror Hk1)), <- (compact_roundtrip kb (or_introl Hn2)), Ek; reflexivity).
          exact (valid_not_nibs kb Hk1 Hn2).
        + exfalso. cbn [collapse] in E. injection E as Ek _.
          assert (ka = kb) as -> by (rewrite <- (compact_roundtrip ka (or_introl Hn1)), <- (compact_roundtrip kb (or_intror Hk2)), Ek; reflexivity).
          exact (valid_not_nibs kb Hk2 Hn1).
        + change (collapse H (Short ka (Full cs1))) with (Lst [Str (hex_to_compact ka); embed H (collapse H (Full cs1))]) in E.
          change (collapse H (Short kb (Full cs2))) with (Lst [Str (hex_to_compact kb); embed H (collapse H (Full cs2))]) in E.
          injection E as Ek Ec.
          assert (ka = kb) as -> by (rewrite <- (compact_roundtrip ka (or_introl Hn1)), <- (compact_roundtrip kb (or_introl Hn2)), Ek; reflexivity).
          destruct (embed_inj (Full cs1) (Full cs2)) as [Eq|Hc]; auto.
          * right; exact Hw1.
          * right; exact Hw2.
          * intros c Hc. apply Oa. apply nodes_short_incl. exact Hc.
          * intros c Hc. apply Ob. apply nodes_short_incl. exact Hc.
          * intros c Hc. apply Sa. apply nodes_short_incl. exact Hc.
          * intros c Hc. apply Sb. apply nodes_short_incl. exact Hc.
          * apply IH. change (size (Short kb (Full cs1))) with (Datatypes.S (length kb + size (Full cs1)))%nat in Hm.
            change (size (Short kb (Full cs2))) with (Datatypes.S (length kb + size (Full cs2)))%nat in Hm. lia.
          * left. congruence.
      - (* short / full *)
        exfalso. apply wf_full in Hb as (Hl & _). rewrite collapse_full in E.
        destruct (wf_short_inv _ _ Ha) as [(v1 & -> & _)|(cs1 & -> & _)];
          [cbn [collapse] in E | change (collapse H (Short ka (Full cs1))) with (Lst [Str (hex_to_compact ka); embed H (collapse H (Full cs1))]) in E];
          apply Lst_inj in E; apply (f_equal (@length item)) in E; rewrite app_length, firstn_length, map_length, Hl in E; discriminate E.
      - (* full / short *)
        exfalso. apply wf_full in Ha as (Hl & _). rewrite collapse_full in E.
        destruct (wf_short_inv _ _ Hb) as [(v1 & -> & _)|(cs1 & -> & _)];
          [cbn [collapse] in E | change (collapse H (Short kb (Full cs1))) with (Lst [Str (hex_to_compact kb); embed H (collapse H (Full cs1))]) in E];
          apply Lst_inj in E; apply (f_equal (@length item)) in E; rewrite app_length, firstn_length, map_length, Hl in E; discriminate E.
      - (* full / full *)
        pose proof Ha as Ha'. pose proof Hb as Hb'.
        apply wf_full in Ha' as (Hla & Hsa & H16a & _). apply wf_full in Hb' as (Hlb & Hsb & H16b & _).
        rewrite !collapse_full, (firstn16_children _ csa Hla), (firstn16_children _ csb Hlb) in E.
        apply Lst_inj in E. apply app_inj_tail in E as [Em E16].
        change (nth 16 csa Empty) with (child csa 16) in E16. change (nth 16 csb Empty) with (child csb 16) in E16.
        assert (Hch : (forall x, In x nibbles16 -> child csa x = child csb x) \/ collision S).
        { apply all_or. intros x Hx. assert (Hx16 : x < 16) by (unfold nibbles16 in Hx; cbn [In] in Hx; lia).
          apply embed_inj; auto.
          - intros c Hc. apply Oa. apply (nodes_child_incl csa x). exact Hc.
          - intros c Hc. apply Ob. apply (nodes_child_incl csb x). exact Hc.
          - intros c Hc. apply Sa. apply (nodes_child_incl csa x). exact Hc.
          - intros c Hc. apply Sb. apply (nodes_child_incl csb x). exact Hc.
          - apply IH. pose proof (size_child csa x). pose proof (size_child csb x). lia.
          - apply (map_eq_in _ _ _ Em x Hx). }
        destruct Hch as [Hch|Hc]; [|right; exact Hc]. left. f_equal. apply list_ext17; auto.
        intros x Hx. destruct (N.eq_dec x 16) as [->|Hne].
        + destruct H16a as [Ea|(va & Hva & Ea)], H16b as [Eb|(vb & Hvb & Eb)]; rewrite Ea, Eb in *; cbn [slot16] in E16; try congruence.
        + apply Hch. unfold nibbles16. cbn [In]. lia.
    Qed.
  End WithS.

  Definition encs (t : node) : list bytes := map enc (nodes t).

  (* the byte strings among which a collision is exhibited: every node encoding of both tries and the
     encoding of the empty trie *)
  Definition witnesses (a b : node) : list bytes := encs a ++ encs b ++ [[128]].

  Lemma rlp_lst_not_empty_enc l : C08.Model.item_ok (Lst l) -> rlp (Lst l) <> [128].
  Proof.
    intros Hok E. pose proof (C08.Proofs.decode_bytes_encode _ Hok) as D. rewrite E in D.
    vm_compute in D. discriminate D.
  Qed.

  Theorem binding a b : wf_trie a = true -> wf_trie b = true -> enc_ok a -> enc_ok b ->
    root_hash H a = root_hash H b -> a = b \/ collision (witnesses a b).
  Proof.
    intros Ha Hb Oa Ob E. set (S := witnesses a b).
    assert (Sa : inS S a) by (intros c Hc; apply in_or_app; left; apply in_map; exact Hc).
    assert (Sb : inS S b) by (intros c Hc; apply in_or_app; right; apply in_or_app; left; apply in_map; exact Hc).
    assert (S0 : In [128] S) by (apply in_or_app; right; apply in_or_app; right; left; reflexivity).
    apply wf_trie_slot in Ha as [->|Ha]; apply wf_trie_slot in Hb as [->|Hb].
    - left; reflexivity.
    - assert (Er : root_hash H b = H (enc b)) by (destruct b; try discriminate; reflexivity).
      rewrite Er in E. cbn [root_hash] in E.
      destruct (hash_inj S _ _ S0 (Sb b (nodes_self b Hb)) E) as [E'|Hc]; [|right; exact Hc].
      exfalso. destruct (collapse_lst H b Hb) as (l & El). unfold enc in E'. rewrite El in E'.
      apply (rlp_lst_not_empty_enc l); [rewrite <- El; apply Ob, nodes_self, Hb | congruence].
    - assert (Er : root_hash H a = H (enc a)) by (destruct a; try discriminate; reflexivity).
      rewrite Er in E. cbn [root_hash] in E.
      destruct (hash_inj S _ _ (Sa a (nodes_self a Ha)) S0 E) as [E'|Hc]; [|right; exact Hc].
      exfalso. destruct (collapse_lst H a Ha) as (l & El). unfold enc in E'. rewrite El in E'.
      apply (rlp_lst_not_empty_enc l); [rewrite <- El; apply Oa, nodes_self, Ha | congruence].
    - assert (Era : root_hash H a = H (enc a)) by (destruct a; try discriminate; reflexivity).
      assert (Erb : root_hash H b = H (enc b)) by (destruct b; try discriminate; reflexivity).
      rewrite Era, Erb in E.
      destruct (hash_inj S _ _ (Sa a (nodes_self a Ha)) (Sb b (nodes_self b Hb)) E) as [E'|Hc]; [|right; exact Hc].
      apply (collapse_inj S (Datatypes.S (size a + size b)) a b); auto.
      apply rlp_inj; [apply Oa, nodes_self, Ha | apply Ob, nodes_self, Hb | exact E'].
  Qed.

  (* histories: equal roots mean equal content, or an explicit collision *)
  Theorem binding_content ops1 ops2 : ops_ok ops1 -> ops_ok ops2 ->
    enc_ok (run ops1) -> enc_ok (run ops2) ->
    root_hash H (run ops1) = root_hash H (run ops2) ->
    (forall key, bytes_ok key -> content ops1 key = content ops2 key) \/
    collision (witnesses (run ops1) (run ops2)).
  Proof.
    intros H1 H2 O1 O2 E.
    destruct (binding _ _ (run_wf ops1 H1) (run_wf ops2 H2) O1 O2 E) as [Eq|Hc]; [left | right; exact Hc].
    intros key Hk. rewrite <- (run_get ops1 key H1 Hk), <- (run_get ops2 key H2 Hk), Eq. reflexivity.
  Qed.
End Binding.
