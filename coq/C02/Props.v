(* C02 — property theorems only (statements + [exact]); proofs are in Lemmas / Sem / InsDel / Unique /
   Iter / Proofs.  Layer A: the trie as a pure tree (every node resolved); [H] is any hash function. *)
From Coq Require Import List Sorted NArith.
From V.Base Require Import Hex.
From V.C02 Require Import Model Lemmas Sem InsDel Unique Iter Proofs.
Import ListNotations.
Local Open Scope N_scope.

(* Invariant: whatever history of updates / deletes / empty writes is applied to the empty trie, the
   tree stays in minimal form (no empty short key, never short-under-short, every branch has >= 2
   slots in use, 17 slots, values non-empty and only behind the terminator). *)
Theorem C02_minimal_form_invariant : forall ops, ops_ok ops -> wf_trie (run ops) = true.
Proof. exact run_wf. Qed.
Print Assumptions C02_minimal_form_invariant.

(* One insert / delete step on any trie in minimal form: stays minimal, acts as finite-map update. *)
Theorem C02_step_spec : forall t o, slot_ok t -> op_ok o ->
  slot_ok (step t o) /\
  forall k, valid_key k = true ->
    get (step t o) k = if keys_eq_dec k (keybytes_to_hex (op_key o)) then op_val o else get t k.
Proof. exact step_spec. Qed.
Print Assumptions C02_step_spec.

(* Reads return exactly the last value written for the key; absent after delete or empty write. *)
Theorem C02_reads_last_write : forall ops key, ops_ok ops -> bytes_ok key ->
  try_get (run ops) key = content ops key.
Proof. exact run_get. Qed.
Print Assumptions C02_reads_last_write.

(* [content] is the finite map of last writes: *)
Theorem C02_content_is_last_write : forall ops o key,
  content (ops ++ [o]) key = if bytes_eq_dec key (op_key o) then op_val o else content ops key.
Proof. exact content_app. Qed.
Print Assumptions C02_content_is_last_write.

(* Canonical form: two tries in minimal form holding the same content are the same tree. *)
Theorem C02_unique : forall a b, wf_trie a = true -> wf_trie b = true ->
  (forall k, valid_key k = true -> get a k = get b k) -> a = b.
Proof. exact canonical. Qed.
Print Assumptions C02_unique.

(* History independence: the tree depends only on the set of key/value pairs currently held, not on
   the order of insertions, deletions and overwrites that produced it ... *)
Theorem C02_history_independent : forall ops1 ops2, ops_ok ops1 -> ops_ok ops2 ->
  (forall key, bytes_ok key -> content ops1 key = content ops2 key) -> run ops1 = run ops2.
Proof. exact history_independent. Qed.
Print Assumptions C02_history_independent.

(* ... hence so does the root hash, for every hash function. *)
Theorem C02_root_history_independent : forall (H : bytes -> bytes) ops1 ops2, ops_ok ops1 -> ops_ok ops2 ->
  (forall key, bytes_ok key -> content ops1 key = content ops2 key) ->
  root_hash H (run ops1) = root_hash H (run ops2).
Proof. exact root_history_independent. Qed.
Print Assumptions C02_root_history_independent.

(* Iteration delivers exactly the live pairs ... *)
Theorem C02_iter_content : forall ops key v, ops_ok ops ->
  (In (key, v) (iter_from (run ops) []) <-> content ops key = Some v).
Proof. exact iter_bytes_content. Qed.
Print Assumptions C02_iter_content.

(* ... each once, in strictly ascending order of the trie paths (nibbles + terminator 16) ... *)
Theorem C02_iter_path_sorted : forall t, StronglySorted kv_lt (iter t) /\ NoDup (map fst (iter t)).
Proof. intros t. split; [exact (iter_sorted t) | exact (iter_keys_nodup t)]. Qed.
Print Assumptions C02_iter_path_sorted.

(* ... which is ascending byte-key order whenever no live key is a proper prefix of another live key
   (e.g. fixed-length keys) ... *)
Theorem C02_iter_sorted : forall ops, ops_ok ops -> prefix_free (content ops) ->
  StronglySorted bytes_kv_lt (iter_from (run ops) []).
Proof. exact iter_bytes_sorted. Qed.
Print Assumptions C02_iter_sorted.

(* ... and is NOT ascending key order in general: with keys "a" and "ab" the iterator delivers "ab"
   first (the terminator sorts after every nibble).  The property's iteration clause fails on keys
   that are prefixes of one another; the harness reports it as C02/iter-order:prefix-key. *)
Theorem C02_iter_sorted_refuted :
  exists ops, ops_ok ops /\ ~ StronglySorted bytes_kv_lt (iter_from (run ops) []).
Proof. exists refuting_history. exact iter_bytes_sorted_refuted. Qed.
Print Assumptions C02_iter_sorted_refuted.

(* Non-vacuity: a history with shared prefixes, a key that is a prefix of another, an overwrite, a
   delete and an empty write satisfies the hypotheses; its trie is minimal, and equals the trie of a
   different history with the same final content. *)
Example C02_example :
  let h1 := [OUpdate [1; 35] [7]; OUpdate [1] [8]; OUpdate [1; 36] [9]; OUpdate [2] [5]; ODelete [1; 36];
             OUpdate [1] [6]; OUpdate [2] []] in
  let h2 := [OUpdate [1] [6]; OUpdate [1; 35] [7]] in
  bytes_okb (concat (map op_key h1)) = true /\ wf_trie (run h1) = true /\ run h1 = run h2 /\
  try_get (run h1) [1] = Some [6] /\ try_get (run h1) [2] = None.
Proof. vm_compute. repeat split; reflexivity. Qed.
