(* C02 — property theorems only (statements + [exact]); proofs are in Lemmas / Sem / InsDel / Unique /
   Iter / Proofs.  Layer A: the trie as a pure tree (every node resolved); [H] is any hash function. *)
From Coq Require Import String List Sorted NArith Arith.
From V.Base Require Import Hex.
From V.C02 Require Import Model Lemmas Sem InsDel Unique Iter Proofs Spec SpecProofs SpecPerm ModelB ProofsB Cache CacheProofs CacheTotal Binding Keccak.
Import ListNotations.
Local Open Scope N_scope.

(* Invariant: whatever history of updates / deletes / empty writes is applied to the empty trie, the
   tree stays in minimal form (no empty short key, never short-under-short, every branch has >= 2
   slots in use, 17 slots, values non-empty and only behind the terminator). *)
Theorem C02_minimal_form_invariant : forall ops, ops_ok ops -> wf_trie (run ops) = true.
Proof. exact run_wf. Qed.
Print Assumptions C02_minimal_form_invariant.

(* One insert / delete step on any trie in minimal form: stays minimal, acts as finite-map update. *)
Theorem C02_step_spec : forall t o, slot_ok t -> op_ok o ->
  slot_ok (step t o) /\
  forall k, valid_key k = true ->
    get (step t o) k = if keys_eq_dec k (keybytes_to_hex (op_key o)) then op_val o else get t k.
Proof. exact step_spec. Qed.
Print Assumptions C02_step_spec.

(* Reads return exactly the last value written for the key; absent after delete or empty write. *)
Theorem C02_reads_last_write : forall ops key, ops_ok ops -> bytes_ok key ->
  try_get (run ops) key = content ops key.
Proof. exact run_get. Qed.
Print Assumptions C02_reads_last_write.

(* [content] is the finite map of last writes: *)
Theorem C02_content_is_last_write : forall ops o key,
  content (ops ++ [o]) key = if bytes_eq_dec key (op_key o) then op_val o else content ops key.
Proof. exact content_app. Qed.
Print Assumptions C02_content_is_last_write.

(* Canonical form: two tries in minimal form holding the same content are the same tree. *)
Theorem C02_unique : forall a b, wf_trie a = true -> wf_trie b = true ->
  (forall k, valid_key k = true -> get a k = get b k) -> a = b.
Proof. exact canonical. Qed.
Print Assumptions C02_unique.

(* History independence: the tree depends only on the set of key/value pairs currently held, not on
   the order of insertions, deletions and overwrites that produced it ... *)
Theorem C02_history_independent : forall ops1 ops2, ops_ok ops1 -> ops_ok ops2 ->
  (forall key, bytes_ok key -> content ops1 key = content ops2 key) -> run ops1 = run ops2.
Proof. exact history_independent. Qed.
Print Assumptions C02_history_independent.

(* ... hence so does the root hash, for every hash function. *)
Theorem C02_root_history_independent : forall (H : bytes -> bytes) ops1 ops2, ops_ok ops1 -> ops_ok ops2 ->
  (forall key, bytes_ok key -> content ops1 key = content ops2 key) ->
  root_hash H (run ops1) = root_hash H (run ops2).
Proof. exact root_history_independent. Qed.
Print Assumptions C02_root_history_independent.

(* The root equals the root the Ethereum Yellow Paper (Appendix D) defines for the content: [spec_root]
   (Spec.v) is a transcription of TRIE(J) = KEC(RLP(c(J,0))) with HP, c, n written by recursion on the
   SET of pairs only (no tree, no insertion); it is evaluated on the listing of the trie, which by
   C02_iter_content below is exactly the content, each pair once.  For every hash function. *)
Theorem C02_root_is_yellow_paper_root : forall (H : bytes -> bytes) ops, ops_ok ops ->
  spec_root H (iter_from (run ops) []) = Some (root_hash H (run ops)).
Proof. exact root_spec. Qed.
Print Assumptions C02_root_is_yellow_paper_root.

(* ... and [spec_root] does not depend on how the set is listed: the root is the Yellow-Paper root of
   ANY duplicate-free list holding exactly the live pairs. *)
Theorem C02_root_is_yellow_paper_root_of_content : forall (H : bytes -> bytes) ops (J : list (bytes * bytes)),
  ops_ok ops -> NoDup (map fst J) -> (forall k v, In (k, v) J <-> content ops k = Some v) ->
  spec_root H J = Some (root_hash H (run ops)).
Proof. exact root_spec_set. Qed.
Print Assumptions C02_root_is_yellow_paper_root_of_content.

Theorem C02_spec_order_independent : forall (H : bytes -> bytes) fuel J J',
  Permutation.Permutation J J' -> NoDup (map fst J) -> spec_c H fuel J = spec_c H fuel J'.
Proof. exact spec_c_perm. Qed.
Print Assumptions C02_spec_order_independent.

(* Node level: the collapsed form (compact keys, children embedded when their RLP is < 32 bytes, else
   hashed) of any trie in minimal form is the Yellow Paper's c(J, i) of its leaves; [measure] is
   enough fuel, so the out-of-fuel result is excluded. *)
Theorem C02_collapse_is_yellow_paper_c : forall (H : bytes -> bytes) t, wfb t = true ->
  forall fuel, (measure (leaves t) <= fuel)%nat -> spec_c H fuel (leaves t) = Some (collapse H t).
Proof. exact spec_c_collapse. Qed.
Print Assumptions C02_collapse_is_yellow_paper_c.

(* encoding.go: compactToHex inverts hexToCompact on every key a trie in minimal form stores (nibble-only
   extension keys and terminated leaf keys): what a reload decodes is the key that was written. *)
Theorem C02_compact_roundtrip : forall k, (forallb nib k = true \/ valid_key k = true) ->
  compact_to_hex (hex_to_compact k) = k.
Proof. exact compact_roundtrip. Qed.
Print Assumptions C02_compact_roundtrip.

(* The "j" of the Yellow Paper: [lcp] is a common prefix of all keys and every common prefix is a
   prefix of it. *)
Theorem C02_spec_lcp_is_longest : forall ks, ks <> [] ->
  (forall k, In k ks -> exists r, k = lcp ks ++ r) /\
  (forall q, (forall k, In k ks -> exists r, k = q ++ r) -> exists r, lcp ks = q ++ r).
Proof. intros ks Hne. split; [exact (lcp_prefix ks) | intros q; exact (lcp_max ks q Hne)]. Qed.
Print Assumptions C02_spec_lcp_is_longest.

(* The transcription evaluated with the Gallina Keccak-256 gives the root of the Ethereum test vector
   {doe: reindeer, dog: puppy, dogglesworth: cat}. *)
Example C02_spec_ethereum_vector :
  option_map hex (spec_root keccak256
    [(unhex "646f65"%string, unhex "7265696e64656572"%string); (unhex "646f67"%string, unhex "7075707079"%string);
     (unhex "646f67676c6573776f727468"%string, unhex "636174"%string)])
  = Some "8aad789dff2f538bca5d8ea56e8abe10f4c7ba3a5dea95fea4cd6e7c3a1168d3"%string.
Proof. vm_compute. reflexivity. Qed.

(* Non-vacuity of the hypotheses of C02_root_is_yellow_paper_root_of_content: the final content of the
   history of C02_example below, listed in descending order. *)
Example C02_spec_example :
  let h1 := [OUpdate [1; 35] [7]; OUpdate [1] [8]; OUpdate [1; 36] [9]; OUpdate [2] [5]; ODelete [1; 36];
             OUpdate [1] [6]; OUpdate [2] []] in
  spec_root keccak256 [([1; 35], [7]); ([1], [6])] = Some (root_hash keccak256 (run h1)).
Proof. vm_compute. reflexivity. Qed.

(* Iteration delivers exactly the live pairs ... *)
Theorem C02_iter_content : forall ops key v, ops_ok ops ->
  (In (key, v) (iter_from (run ops) []) <-> content ops key = Some v).
Proof. exact iter_bytes_content. Qed.
Print Assumptions C02_iter_content.

(* ... each once, in strictly ascending order of the trie paths (nibbles + terminator 16) ... *)
Theorem C02_iter_path_sorted : forall t, StronglySorted kv_lt (iter t) /\ NoDup (map fst (iter t)).
Proof. intros t. split; [exact (iter_sorted t) | exact (iter_keys_nodup t)]. Qed.
Print Assumptions C02_iter_path_sorted.

(* ... which is ascending byte-key order whenever no live key is a proper prefix of another live key
   (e.g. fixed-length keys) ... *)
Theorem C02_iter_sorted : forall ops, ops_ok ops -> prefix_free (content ops) ->
  StronglySorted bytes_kv_lt (iter_from (run ops) []).
Proof. exact iter_bytes_sorted. Qed.
Print Assumptions C02_iter_sorted.

(* ... and is NOT ascending key order in general: with keys "a" and "ab" the iterator delivers "ab"
   first (the terminator sorts after every nibble).  The property's iteration clause fails on keys
   that are prefixes of one another; the harness reports it as C02/iter-order:prefix-key. *)
Theorem C02_iter_sorted_refuted :
  exists ops, ops_ok ops /\ ~ StronglySorted bytes_kv_lt (iter_from (run ops) []).
Proof. exists refuting_history. exact iter_bytes_sorted_refuted. Qed.
Print Assumptions C02_iter_sorted_refuted.

(* Layer B, reload.  [load] (ModelB.v) is node.go decodeNode / decodeRef with hash references resolved
   through the node database until the whole trie is in memory.  If every node of a trie in minimal
   form that does not fit into its parent (RLP >= 32 bytes) is in the database under its hash, the
   collapsed root decodes back to exactly that trie: decodeNode inverts the hasher's encoding. *)
Theorem C02_load_inverts_collapse : forall (H : bytes -> bytes) (d : db), (forall x, List.length (H x) = 32%nat) ->
  forall t, wfb t = true -> stores H d t ->
  forall fuel, (size t <= fuel)%nat -> load d fuel (collapse H t) = Some t.
Proof. exact load_collapse. Qed.
Print Assumptions C02_load_inverts_collapse.

(* Commit followed by reopening from the committed root gives back the same trie (hence the same root,
   reads and iteration), under the explicit hypotheses that no two different node encodings of this trie
   (and the empty root) share a hash and that every node is RLP-encodable (bytes < 256, sizes < 2^64). *)
Theorem C02_commit_reopen : forall (H : bytes -> bytes), (forall x, List.length (H x) = 32%nat) ->
  forall t, wf_trie t = true ->
  functional (commit_db H t) -> root_hash H t <> H [128] \/ t = Empty ->
  (forall c, In c (nodes t) -> C08.Model.item_ok (collapse H c)) ->
  reopen (lookup (commit_db H t)) (size t) (H [128]) (root_hash H t) = Some t.
Proof. exact commit_reopen. Qed.
Print Assumptions C02_commit_reopen.

(* the hypotheses of C02_commit_reopen are satisfiable (a toy hash, one leaf of 40 value bytes) ... *)
Example C02_commit_reopen_hyps :
  let H := fun x : bytes => firstn 32 (x ++ repeat 0 32) in
  let t := run [OUpdate [18; 52] (repeat 7 40)] in
  (forall x, List.length (H x) = 32%nat) /\ wf_trie t = true /\ functional (commit_db H t) /\
  root_hash H t <> H [128] /\ (forall c, In c (nodes t) -> C08.Model.item_ok (collapse H c)).
Proof.
  cbv zeta. split; [|split; [|split; [|split]]].
  - intros x. rewrite firstn_length, app_length, repeat_length. apply Nat.min_l. apply Nat.le_add_l.
  - vm_compute. reflexivity.
  - intros h e e' H1 H2. vm_compute in H1, H2.
    destruct H1 as [H1|[H1|[]]], H2 as [H2|[H2|[]]]; congruence.
  - vm_compute. discriminate.
  - intros c Hc. vm_compute in Hc. destruct Hc as [<-|[]].
    cbn. repeat split; try (apply bytes_okb_spec; vm_compute; reflexivity); vm_compute; reflexivity.
Qed.

(* ... and with Keccak-256 a committed trie with a branch, an embedded leaf, hashed leaves and a value
   in the branch reopens to itself. *)
Example C02_commit_reopen_keccak :
  let t := run [OUpdate [18] (repeat 1 40); OUpdate [18; 52] (repeat 2 40); OUpdate [18; 53] [3]; OUpdate [34] (repeat 4 29)] in
  reopen (lookup (commit_db keccak256 t)) (size t) (keccak256 [128]) (root_hash keccak256 t) = Some t.
Proof. vm_compute. reflexivity. Qed.

(* BINDING: the root is a commitment.  Two tries in minimal form (RLP-encodable nodes, 32-byte hash)
   with the same root are the same tree, or there is an explicit collision of H: two different byte
   strings among the node encodings of the two tries and 0x80 (the empty trie) with equal hashes. *)
Theorem C02_root_binds_tree : forall (H : bytes -> bytes), (forall x, List.length (H x) = 32%nat) ->
  forall a b, wf_trie a = true -> wf_trie b = true -> enc_ok H a -> enc_ok H b ->
  root_hash H a = root_hash H b -> a = b \/ collision H (witnesses H a b).
Proof. exact binding. Qed.
Print Assumptions C02_root_binds_tree.

(* ... for histories: equal roots mean equal content (every key reads the same), or a collision. *)
Theorem C02_root_binds_content : forall (H : bytes -> bytes), (forall x, List.length (H x) = 32%nat) ->
  forall ops1 ops2, ops_ok ops1 -> ops_ok ops2 -> enc_ok H (run ops1) -> enc_ok H (run ops2) ->
  root_hash H (run ops1) = root_hash H (run ops2) ->
  (forall key, bytes_ok key -> content ops1 key = content ops2 key) \/
  collision H (witnesses H (run ops1) (run ops2)).
Proof. exact binding_content. Qed.
Print Assumptions C02_root_binds_content.

(* Layer B, cache (Cache.v: node flags, hash placeholders, cache generations, NodeDatabase).
   PARTIAL refinement (the gap is the scope, not a side condition): on tries whose nodes are all in
   memory (no hash placeholder, i.e. before a Commit unloads or a reopen loads lazily), for every
   history of TryUpdate / TryDelete / TryGet / Hash over byte keys and for every database, the cache
   model completes (no Panic: the Go "invalid node" / index-out-of-range panics are unreachable; no
   NoFuel; no Missing) and yields exactly the reads and roots of layer A: cached hashes and the
   dirty-flag discipline are sound (a modified path always gets fresh flags, a cached hash is only ever
   reused for unchanged content).  NOT covered: Commit, canUnload, lazy resolveHash and the
   NodeDatabase (held to the code by the HarnessB correspondence, including exact memory/disk node
   sets, and by the eager reload theorem C02_commit_reopen). *)
Theorem C02_cache_refines_partial : forall (H : bytes -> bytes) (d : ndb) evs,
  Forall ev_ok evs -> execB H d empty_trie evs = OK (execA H Empty evs).
Proof. intros H d evs Hok. exact (execB_total_refines H d evs empty_trie Empty (inv_empty H) Hok). Qed.
Print Assumptions C02_cache_refines_partial.

(* the exported API of the cache model never panics / runs out of fuel on a trie reached that way *)
Theorem C02_cache_no_panic_partial : forall (H : bytes -> bytes) (d : ndb) t n, Inv H t n ->
  forall key v, bytes_ok key ->
  (exists t', try_updateB d t key v = OK t') /\ (exists t', try_deleteB d t key = OK t') /\
  (exists r t', try_getB d t key = (OK r, t')).
Proof. exact api_total. Qed.
Print Assumptions C02_cache_no_panic_partial.

(* the pieces: reads do not depend on flags; Hash with coherent flags returns the layer-A root *)
Theorem C02_cache_get_partial : forall d gen fuel c key v c' dr, hash_free c = true ->
  getB d gen fuel c key = OK (v, c', dr) -> v = get (erase c) key /\ c' = c /\ dr = false.
Proof. exact getB_sim. Qed.
Print Assumptions C02_cache_get_partial.

Theorem C02_cache_hash_sound_partial : forall (H : bytes -> bytes) gen limit c force db,
  wfb (erase c) = true -> hash_free c = true -> coh H force c -> sound H gen limit db c force.
Proof. intros H gen limit c force db. apply (hashB_sound H gen limit (S (csize c))). apply Nat.lt_succ_diag_r. Qed.
Print Assumptions C02_cache_hash_sound_partial.

(* non-vacuity: the cache model completes a history with interleaved Hash calls (Keccak-256) *)
Example C02_cache_example :
  let evs := [EUpd [18; 52] (repeat 7 40); EHash; EUpd [18; 53] [1]; EGet [18; 52]; EHash; EDel [18; 52]; EHash; EGet [18; 52]] in
  execB keccak256 empty_db empty_trie evs = OK (execA keccak256 Empty evs).
Proof. vm_compute. reflexivity. Qed.

(* non-vacuity of the binding hypotheses: two different one-leaf tries, encodable, toy 32-byte hash *)
Example C02_binding_hyps :
  let H := fun x : bytes => firstn 32 (x ++ repeat 0 32) in
  let a := run [OUpdate [18; 52] (repeat 7 40)] in
  (forall x, List.length (H x) = 32%nat) /\ wf_trie a = true /\ enc_ok H a.
Proof.
  cbv zeta. split; [|split].
  - intros x. rewrite firstn_length, app_length, repeat_length. apply Nat.min_l. apply Nat.le_add_l.
  - vm_compute. reflexivity.
  - intros c Hc. vm_compute in Hc. destruct Hc as [<-|[]].
    cbn. repeat split; try (apply bytes_okb_spec; vm_compute; reflexivity); vm_compute; reflexivity.
Qed.

(* Non-vacuity: a history with shared prefixes, a key that is a prefix of another, an overwrite, a
   delete and an empty write satisfies the hypotheses; its trie is minimal, and equals the trie of a
   different history with the same final content. *)
Example C02_example :
  let h1 := [OUpdate [1; 35] [7]; OUpdate [1] [8]; OUpdate [1; 36] [9]; OUpdate [2] [5]; ODelete [1; 36];
             OUpdate [1] [6]; OUpdate [2] []] in
  let h2 := [OUpdate [1] [6]; OUpdate [1; 35] [7]] in
  bytes_okb (List.concat (map op_key h1)) = true /\ wf_trie (run h1) = true /\ run h1 = run h2 /\
  try_get (run h1) [1] = Some [6] /\ try_get (run h1) [2] = None.
Proof. vm_compute. repeat split; reflexivity. Qed.
