(* C01 — sorting: under a strict total order on the elements, the sorted arrangement of a multiset is
   unique, so the result of sort.Sort / sort.Strings does not depend on the order in which the elements
   were handed over (map iteration order, the proposer's list order) nor on the algorithm. *)
From Coq Require Import List NArith ZArith String Bool Permutation Sorted OrdersEx Lia.
From V.C01 Require Import Model.
Import ListNotations.

Section SortFacts.
  Context {A : Type} (ltb : A -> A -> bool).
  Definition lt (a b : A) : Prop := ltb a b = true.

  (* strict total order on the elements of a list *)
  Record sto_on (l : list A) : Prop := {
    sto_irrefl : forall a, In a l -> ltb a a = false;
    sto_trans : forall a b c, In a l -> In b l -> In c l -> ltb a b = true -> ltb b c = true -> ltb a c = true;
    sto_total : forall a b, In a l -> In b l -> a = b \/ ltb a b = true \/ ltb b a = true }.

  Lemma sto_asym : forall l, sto_on l -> forall a b, In a l -> In b l -> ltb a b = true -> ltb b a = true -> False.
  Proof.
    intros l H a b Ha Hb Hab Hba.
    pose proof (sto_trans l H a b a Ha Hb Ha Hab Hba) as E.
    rewrite (sto_irrefl l H a Ha) in E. discriminate.
  Qed.

  Lemma sto_perm : forall l l', Permutation l l' -> sto_on l -> sto_on l'.
  Proof.
    intros l l' P [I T O]. assert (Q : forall x, In x l' -> In x l) by (intros; eapply Permutation_in; [apply Permutation_sym; eassumption|assumption]).
    constructor.
    - intros a Ha. apply I. auto.
    - intros a b c Ha Hb Hc. apply T; auto.
    - intros a b Ha Hb. apply O; auto.
  Qed.

  Lemma insert_perm : forall x l, Permutation (insert ltb x l) (x :: l).
  Proof.
    induction l as [|y t IH]; cbn; [reflexivity|].
    destruct (ltb x y); [reflexivity|].
    rewrite IH. apply perm_swap.
  Qed.

  Lemma isort_perm : forall l, Permutation (isort ltb l) l.
  Proof.
    induction l as [|x t IH]; cbn; [reflexivity|].
    rewrite insert_perm. now constructor.
  Qed.

  Lemma insert_sorted : forall u x l, sto_on u -> In x u -> (forall y, In y l -> In y u) -> ~ In x l ->
    StronglySorted lt l -> StronglySorted lt (insert ltb x l).
  Proof.
    intros u x l H Hx. induction l as [|y t IH]; intros Hin Hnot Hs; cbn.
    - repeat constructor.
    - inversion Hs as [|? ? Hst Hall]; subst.
      destruct (ltb x y) eqn:E.
      + constructor; [assumption|]. constructor; [exact E|].
        rewrite Forall_forall in *. intros z Hz. unfold lt.
        apply (sto_trans u H x y z); auto with datatypes. apply Hall; assumption.
      + assert (Hyx : ltb y x = true).
        { destruct (sto_total u H x y Hx (Hin y (or_introl eq_refl))) as [->|[C|C]].
          - exfalso. apply Hnot. now left.
          - congruence.
          - exact C. }
        constructor.
        * apply IH; [intros; apply Hin; now right | intro C; apply Hnot; now right | assumption].
        * rewrite Forall_forall in *. intros z Hz.
          apply (Permutation_in _ (insert_perm x t)) in Hz. destruct Hz as [<-|Hz]; [exact Hyx|]. now apply Hall.
  Qed.

  Lemma isort_sorted : forall l, sto_on l -> NoDup l -> StronglySorted lt (isort ltb l).
  Proof.
    intros l H. assert (G : forall m, (forall y, In y m -> In y l) -> NoDup m -> StronglySorted lt (isort ltb m)).
    { induction m as [|x t IH]; intros Hin Hnd; cbn; [constructor|].
      inversion Hnd; subst.
      apply (insert_sorted l); auto with datatypes.
      - intros y Hy. apply Hin. right. eapply Permutation_in; [apply isort_perm|exact Hy].
      - intro C. apply (Permutation_in _ (isort_perm t)) in C. contradiction. }
    intros. apply G; auto.
  Qed.

  (* two sorted arrangements of the same elements coincide *)
  Lemma sorted_perm_eq : forall l1 l2,
    (forall x y, In x l1 -> In y l1 -> ltb x y = true -> ltb y x = true -> False) ->
    StronglySorted lt l1 -> StronglySorted lt l2 -> Permutation l1 l2 -> l1 = l2.
  Proof.
    induction l1 as [|a t1 IH]; intros l2 Asym S1 S2 P.
    - symmetry. now apply Permutation_nil.
    - destruct l2 as [|b t2]; [apply Permutation_sym, Permutation_nil in P; discriminate|].
      inversion S1 as [|? ? S1t A1]; subst. inversion S2 as [|? ? S2t A2]; subst.
      rewrite Forall_forall in A1, A2.
      assert (Hab : a = b).
      { assert (Ia : In a (b :: t2)) by (eapply Permutation_in; [exact P|now left]).
        assert (Ib : In b (a :: t1)) by (eapply Permutation_in; [apply Permutation_sym; exact P|now left]).
        destruct Ia as [->|Ia]; [reflexivity|]. destruct Ib as [->|Ib]; [reflexivity|].
        exfalso. apply (Asym a b); [now left|now right|apply A1; exact Ib|apply A2; exact Ia]. }
      subst b. f_equal. apply IH; auto.
      + intros x y Hx Hy. apply Asym; now right.
      + eapply Permutation_cons_inv; exact P.
  Qed.

  (* the sorted list is a function of the multiset: any two visiting orders give the same list *)
  Theorem isort_unique : forall l1 l2, sto_on l1 -> NoDup l1 -> Permutation l1 l2 -> isort ltb l1 = isort ltb l2.
  Proof.
    intros l1 l2 H Nd P.
    apply sorted_perm_eq.
    - intros x y Hx Hy. apply (sto_asym l1 H); eapply Permutation_in; try eassumption; apply isort_perm.
    - now apply isort_sorted.
    - apply isort_sorted; [eapply sto_perm; eassumption|eapply Permutation_NoDup; eassumption].
    - rewrite !isort_perm. exact P.
  Qed.

  (* ... and equals the output of ANY procedure that returns a sorted permutation (sort.Sort, sort.Strings) *)
  Theorem any_sort_is_isort : forall l out, sto_on l -> NoDup l -> Permutation out l -> StronglySorted lt out -> out = isort ltb l.
  Proof.
    intros l out H Nd P S. apply sorted_perm_eq; auto.
    - intros x y Hx Hy. apply (sto_asym l H); eapply Permutation_in; eassumption.
    - now apply isort_sorted.
    - rewrite isort_perm. exact P.
  Qed.
End SortFacts.

Lemma NoDup_map_inj : forall {A B} (f : A -> B) (l : list A) a b,
  NoDup (map f l) -> In a l -> In b l -> f a = f b -> a = b.
Proof.
  induction l as [|x t IH]; cbn; intros a b Nd Ha Hb E; [contradiction|].
  inversion Nd as [|? ? Hn Nd']; subst.
  destruct Ha as [->|Ha], Hb as [->|Hb]; auto.
  - exfalso. apply Hn. rewrite E. now apply in_map.
  - exfalso. apply Hn. rewrite <- E. now apply in_map.
Qed.

Lemma NoDup_of_map : forall {A B} (f : A -> B) (l : list A), NoDup (map f l) -> NoDup l.
Proof.
  induction l as [|x t IH]; cbn; intros Nd; [constructor|].
  inversion Nd; subst. constructor; auto. intro C. apply H1. now apply in_map.
Qed.

(* ---------- map keys (Go strings, bytewise order) ---------- *)
Lemma key_ltb_irrefl : forall a, key_ltb a a = false.
Proof.
  intro a. unfold key_ltb. destruct String_as_OT.lt_strorder as [Irr _].
  destruct (String_as_OT.compare_spec a a) as [_|C|C]; auto; exfalso; exact (Irr a C).
Qed.

Lemma key_ltb_trans : forall a b c, key_ltb a b = true -> key_ltb b c = true -> key_ltb a c = true.
Proof.
  unfold key_ltb. intros a b c.
  destruct (String_as_OT.compare a b) eqn:E1; try discriminate.
  destruct (String_as_OT.compare b c) eqn:E2; try discriminate. intros _ _.
  destruct String_as_OT.lt_strorder as [_ Tr].
  assert (T : String_as_OT.lt a c) by (apply (Tr a b c); assumption).
  unfold String_as_OT.lt in T. now rewrite T.
Qed.

Lemma key_ltb_total : forall a b, a = b \/ key_ltb a b = true \/ key_ltb b a = true.
Proof.
  intros a b. unfold key_ltb.
  destruct (String_as_OT.compare_spec a b) as [E|L|G]; auto.
  right; right. unfold String_as_OT.lt in G. now rewrite G.
Qed.

Lemma target_sto : forall l, NoDup (map t_key l) -> sto_on target_ltb l.
Proof.
  intros l Nd. constructor; unfold target_ltb.
  - intros. apply key_ltb_irrefl.
  - intros. eapply key_ltb_trans; eassumption.
  - intros a b Ha Hb. destruct (key_ltb_total (t_key a) (t_key b)) as [E|[L|G]]; auto.
    left. eapply NoDup_map_inj; eassumption.
Qed.

(* ---------- transactions ---------- *)
Definition txs_ok (l : list tx) : Prop :=
  NoDup (map x_hash l)                                                        (* pairwise distinct hashes *)
  /\ (forall a b, In a l -> In b l -> (x_source a = x_source b <-> x_srcnum a = x_srcnum b))   (* canonical sender strings *)
  /\ (forall a b, In a l -> In b l -> x_req a = x_req b -> x_req a <> 0%N -> a = b).            (* a RequestId, when used, is used once *)

(* Less as a proposition over the numeric fields *)
Definition tx_lt (a b : tx) : Prop :=
  (x_req a = 0 /\ x_req b = 0 /\
     (x_srcnum b < x_srcnum a \/
      (x_srcnum a = x_srcnum b /\ (x_nonce a < x_nonce b \/ (x_nonce a = x_nonce b /\ x_hash b < x_hash a)))))%N
  \/ (~ (x_req a = 0 /\ x_req b = 0) /\ x_req a < x_req b)%N.

Lemma tx_less_spec : forall a b, (x_source a = x_source b <-> x_srcnum a = x_srcnum b) ->
  (tx_less a b = true <-> tx_lt a b).
Proof.
  intros a b Can. unfold tx_less, tx_lt.
  destruct (N.eqb_spec (x_req a) 0) as [Ra|Ra]; destruct (N.eqb_spec (x_req b) 0) as [Rb|Rb]; cbn [andb].
  - destruct (String.eqb_spec (x_source a) (x_source b)) as [Es|Ns].
    + assert (Sn : x_srcnum a = x_srcnum b) by now apply Can.
      destruct (N.eqb_spec (x_nonce a) (x_nonce b)) as [En|Nn]; cbn [negb].
      * rewrite N.ltb_lt. lia.
      * rewrite N.ltb_lt. lia.
    + assert (Sn : x_srcnum a <> x_srcnum b) by (intro C; apply Ns; now apply Can).
      rewrite N.ltb_lt. lia.
  - rewrite N.ltb_lt. lia.
  - rewrite N.ltb_lt. lia.
  - rewrite N.ltb_lt. lia.
Qed.

Lemma tx_sto : forall l, txs_ok l -> sto_on tx_less l.
Proof.
  intros l (Nd & Can & Req). constructor.
  - intros a Ha. destruct (tx_less a a) eqn:E; [|reflexivity].
    apply tx_less_spec in E; [|tauto]. unfold tx_lt in E. lia.
  - intros a b c Ha Hb Hc Hab Hbc.
    apply tx_less_spec in Hab; [|now apply Can]. apply tx_less_spec in Hbc; [|now apply Can].
    apply tx_less_spec; [now apply Can|]. unfold tx_lt in *. lia.
  - intros a b Ha Hb.
    destruct (N.eq_dec (x_hash a) (x_hash b)) as [Eh|Nh].
    { left. eapply NoDup_map_inj; eassumption. }
    destruct (N.eq_dec (x_req a) (x_req b)) as [Er|Nr].
    + destruct (N.eq_dec (x_req a) 0) as [Z|NZ].
      * right. rewrite !tx_less_spec by (now apply Can). unfold tx_lt. lia.
      * left. now apply Req.
    + right. rewrite !tx_less_spec by (now apply Can). unfold tx_lt. lia.
Qed.

Lemma txs_ok_NoDup : forall l, txs_ok l -> NoDup l.
Proof. intros l (Nd & _). eapply NoDup_of_map; exact Nd. Qed.

Theorem sort_txs_unique : forall l1 l2, txs_ok l1 -> Permutation l1 l2 -> sort_txs l1 = sort_txs l2.
Proof. intros. apply isort_unique; auto using tx_sto, txs_ok_NoDup. Qed.

Theorem sort_txs_sorted : forall l, txs_ok l ->
  StronglySorted (fun a b => tx_less a b = true) (sort_txs l) /\ Permutation (sort_txs l) l.
Proof. intros l H. split; [apply (isort_sorted tx_less); auto using tx_sto, txs_ok_NoDup|apply isort_perm]. Qed.

(* whatever sort.Sort does internally, a sorted permutation of an admissible list is THE sorted list *)
Theorem sort_txs_any_algorithm : forall l out, txs_ok l -> Permutation out l ->
  StronglySorted (fun a b => tx_less a b = true) out -> out = sort_txs l.
Proof. intros. apply (any_sort_is_isort tx_less); auto using tx_sto, txs_ok_NoDup. Qed.

(* the guard is needed: two transactions sharing a non-zero RequestId are "equal" for Less, and the
   sorted list then depends on the order handed in *)
Example sort_txs_guard_needed :
  let a := mkTx 7 "0x01" 1 0 100 in let b := mkTx 7 "0x02" 2 0 200 in
  Permutation [a; b] [b; a] /\ sort_txs [a; b] <> sort_txs [b; a].
Proof. cbn. split; [apply perm_swap|discriminate]. Qed.
