(* C01 — nondeterminism inventory: the site type shared by the generated list (Gen.v, and the
   cases_gen.v the harness regenerates on every run) and the hand-written coverage table. *)
From Coq Require Import List String Bool.
Import ListNotations.
Open Scope string_scope.

(* (file, function, kind, detail); see harness/c01inv/scan.go for the kinds. *)
Inductive site := S (file func kind detail : string).

Definition s_file (s : site) := let '(S f _ _ _) := s in f.
Definition s_func (s : site) := let '(S _ f _ _) := s in f.
Definition s_kind (s : site) := let '(S _ _ k _) := s in k.
Definition s_detail (s : site) := let '(S _ _ _ d) := s in d.

Definition site_eqb (a b : site) : bool :=
  String.eqb (s_file a) (s_file b) && String.eqb (s_func a) (s_func b)
  && String.eqb (s_kind a) (s_kind b) && String.eqb (s_detail a) (s_detail b).

Definition mem (s : site) (l : list site) : bool := existsb (site_eqb s) l.

(* sites of [inv] that the table [cov] does not account for *)
Definition uncovered_in (cov inv : list site) : list site := filter (fun s => negb (mem s cov)) inv.
