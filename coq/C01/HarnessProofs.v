(* C01 — the decidable guards used by the case evaluator imply the guards of the theorems. *)
From Coq Require Import List NArith ZArith String Bool Permutation Lia.
From V.C01 Require Import Model SortProofs Harness.
Import ListNotations.

Lemma nodupb_sound : forall l, nodupb l = true -> NoDup l.
Proof.
  induction l as [|x t IH]; cbn; intro H; [constructor|].
  apply andb_prop in H as [H1 H2]. constructor; [|auto].
  intro C. apply negb_true_iff in H1.
  assert (E : existsb (N.eqb x) t = true) by (apply existsb_exists; exists x; split; [exact C|apply N.eqb_refl]).
  congruence.
Qed.

Lemma tx_eqb_sound : forall a b, tx_eqb a b = true -> a = b.
Proof.
  intros [r1 s1 n1 c1 h1] [r2 s2 n2 c2 h2]. unfold tx_eqb; cbn. intro H.
  repeat (apply andb_prop in H as [H ?]).
  apply N.eqb_eq in H, H1, H2, H0. apply String.eqb_eq in H3. now subst.
Qed.

Theorem txs_okb_sound : forall l, txs_okb l = true -> txs_ok l.
Proof.
  intros l H. unfold txs_okb in H. apply andb_prop in H as [Hn Hp].
  assert (P : forall a b, In a l -> In b l ->
     Bool.eqb (String.eqb (x_source a) (x_source b)) (x_srcnum a =? x_srcnum b)%N = true /\
     implb ((x_req a =? x_req b)%N && negb (x_req a =? 0)%N) (tx_eqb a b) = true).
  { intros a b Ha Hb. rewrite forallb_forall in Hp. specialize (Hp a Ha). rewrite forallb_forall in Hp.
    specialize (Hp b Hb). now apply andb_prop in Hp. }
  split; [now apply nodupb_sound|]. split.
  - intros a b Ha Hb. destruct (P a b Ha Hb) as [E _]. apply eqb_prop in E.
    split; intro Q.
    + apply N.eqb_eq. rewrite <- E. now apply String.eqb_eq.
    + apply String.eqb_eq. rewrite E. now apply N.eqb_eq.
  - intros a b Ha Hb Er Nz. destruct (P a b Ha Hb) as [_ I].
    apply tx_eqb_sound.
    assert (G : ((x_req a =? x_req b)%N && negb (x_req a =? 0)%N) = true).
    { apply andb_true_intro. split; [now apply N.eqb_eq|]. apply negb_true_iff. now apply N.eqb_neq. }
    rewrite G in I. exact I.
Qed.
