(* C01 — block execution is replica-deterministic: property theorems only (statements + [exact]).
   "Oracle" = the runtime's choice of visiting order at a Go map range: any function returning a
   permutation of the entries. Two replicas = two oracles. *)
From Coq Require Import List NArith ZArith String Bool Permutation Sorted.
From V.C01 Require Import Inventory Gen Covered Model SortProofs Proofs Block Harness HarnessProofs Cast.
Import ListNotations.

(* ---- the defect ---- *)
(* service.ChangeAssets as it was written (`for address, transferData := range targets`): two replicas
   can disagree on whether the very same transfer succeeds. *)
Theorem C01_change_assets_refuted :
  exists (o1 o2 : list target -> list target) src targets st,
    perm_oracle o1 /\ perm_oracle o2 /\ NoDup (map t_key targets) /\
    (exists st' l, change_assets o1 src targets st = CAOk st' l) /\
    change_assets o2 src targets st = CAFail.
Proof. exact change_assets_refuted. Qed.
Print Assumptions C01_change_assets_refuted.

(* ... and exactly away from the defect (no target is the sender, under any spelling) the loop as written
   was already order independent: final balances, success flag and response balance. *)
Theorem C01_change_assets_as_written_no_self : forall o1 o2 src targets st,
  perm_oracle o1 -> perm_oracle o2 -> (forall t, In t targets -> t_addr t <> src) ->
  ca_eq (change_assets o1 src targets st) (change_assets o2 src targets st).
Proof. exact change_assets_order_indep_no_self_oracle. Qed.
Print Assumptions C01_change_assets_as_written_no_self.

(* ---- the repaired code: keys collected, sort.Strings, loop over the sorted keys ---- *)
Theorem C01_change_assets_order_indep : forall o1 o2 src targets st,
  perm_oracle o1 -> perm_oracle o2 -> NoDup (map t_key targets) ->
  change_assets_fixed o1 src targets st = change_assets_fixed o2 src targets st.
Proof. exact change_assets_fixed_order_indep. Qed.
Print Assumptions C01_change_assets_order_indep.

Theorem C01_change_assets_visits_sorted : forall o targets, perm_oracle o -> NoDup (map t_key targets) ->
  StronglySorted (fun a b => key_ltb (t_key a) (t_key b) = true) (isort target_ltb (o targets))
  /\ Permutation (isort target_ltb (o targets)) targets.
Proof. exact change_assets_fixed_visits_sorted. Qed.
Print Assumptions C01_change_assets_visits_sorted.

(* ---- transaction sorting (types.Transactions.Less, sort.Sort) ---- *)
(* For an admissible list (pairwise distinct hashes, canonical sender strings, a non-zero RequestId used
   once) Less is a strict total order, so the sorted list is a function of the SET of transactions ... *)
Theorem C01_tx_sort_unique : forall l1 l2, txs_ok l1 -> Permutation l1 l2 -> sort_txs l1 = sort_txs l2.
Proof. exact sort_txs_unique. Qed.
Print Assumptions C01_tx_sort_unique.

(* ... and of nothing else: whatever algorithm sort.Sort uses, a Less-sorted permutation is that list. *)
Theorem C01_tx_sort_any_algorithm : forall l out, txs_ok l -> Permutation out l ->
  StronglySorted (fun a b => tx_less a b = true) out -> out = sort_txs l.
Proof. exact sort_txs_any_algorithm. Qed.
Print Assumptions C01_tx_sort_any_algorithm.

(* the boolean guard the case evaluator applies to every generated transaction list implies txs_ok *)
Theorem C01_txs_okb_sound : forall l, txs_okb l = true -> txs_ok l.
Proof. exact txs_okb_sound. Qed.
Print Assumptions C01_txs_okb_sound.

(* ---- commutative keyed accumulations ---- *)
Theorem C01_refund_add_order_indep : forall d1 d2 s, Permutation d1 d2 ->
  store_eq (refund_add d1 s) (refund_add d2 s).
Proof. exact refund_add_order_indep. Qed.
Print Assumptions C01_refund_add_order_indep.

Theorem C01_check_and_move_order_indep : forall btag racct l1 l2 s, btag <> racct -> Permutation l1 l2 ->
  store_eq (check_and_move btag racct l1 s) (check_and_move btag racct l2 s).
Proof. exact check_and_move_order_indep. Qed.
Print Assumptions C01_check_and_move_order_indep.

Theorem C01_reward_result_order_indep : forall rtag castor p1 p2 v1 v2 s,
  Permutation p1 p2 -> Permutation v1 v2 -> NoDup (map fst v1) ->
  store_eq (reward_result rtag castor p1 v1 s) (reward_result rtag castor p2 v2 s).
Proof. exact reward_result_order_indep. Qed.
Print Assumptions C01_reward_result_order_indep.

Theorem C01_reward_escrow_order_indep : forall next o1 o2 s, Permutation o1 o2 ->
  store_eq (reward_escrow next o1 s) (reward_escrow next o2 s).
Proof. exact reward_escrow_order_indep. Qed.
Print Assumptions C01_reward_escrow_order_indep.

Theorem C01_write_leaves_order_indep : forall tag l1 l2 s, NoDup (map fst l1) -> Permutation l1 l2 ->
  store_eq (write_leaves tag l1 s) (write_leaves tag l2 s).
Proof. exact write_leaves_order_indep. Qed.
Print Assumptions C01_write_leaves_order_indep.

(* ---- the block ---- *)
(* VMExecutor.Execute = sort; per-transaction loop (transfer executor = repaired ChangeAssets; every other
   executor = some function [other] of (payload, tx, state content, executor context) - which is what an
   executor without an iteration site is; the generated inventory is the evidence for "without");
   after() = calcDifficulty, Add(context refunds), calculateRewardPerBlock (accumulate over proposers,
   assign over validators), CalculateReward (list built in map order) -> Add, CheckAndMove(height).
   Two replicas, any oracles at the six iteration sites: same state content (hence same root), same
   receipts, same evicted markers. The hypotheses say that the opaque parts are functions of the state
   CONTENT, and that the validator stake map has distinct keys (it is a Go map). *)
Section BlockTheorems.
  Variables (C : Type) (btag : N) (racct : N -> N)
            (other : N -> tx -> store -> C -> store * C * receipt)
            (difficulty : N -> store -> store) (refunds_of : C -> list refund_entry)
            (castor_of : N -> store -> N * Z) (proposers_of validators_of : N -> store -> list (N * Z))
            (next_height : N -> N) (due_of : N -> store -> list (N * Z)).
  Hypothesis other_ext : forall d t s s' c, store_eq s s' ->
    store_eq (fst (fst (other d t s c))) (fst (fst (other d t s' c))) /\
    snd (fst (other d t s c)) = snd (fst (other d t s' c)) /\ snd (other d t s c) = snd (other d t s' c).
  Hypothesis difficulty_ext : forall h s s', store_eq s s' -> store_eq (difficulty h s) (difficulty h s').
  Hypothesis castor_ext : forall h s s', store_eq s s' -> castor_of h s = castor_of h s'.
  Hypothesis proposers_ext : forall h s s', store_eq s s' -> proposers_of h s = proposers_of h s'.
  Hypothesis validators_ext : forall h s s', store_eq s s' -> validators_of h s = validators_of h s'.
  Hypothesis validators_nodup : forall h s, NoDup (map fst (validators_of h s)).
  Hypothesis due_ext : forall h s s', store_eq s s' -> due_of h s = due_of h s'.

  Let run := exec_block C btag racct other difficulty refunds_of castor_of proposers_of validators_of next_height due_of.

  Theorem C01_block_deterministic : forall o1 o2 height txs s c,
    oracles_ok o1 -> oracles_ok o2 -> btag <> racct height -> Forall keys_ok txs ->
    store_eq (fst (run o1 height txs s c)) (fst (run o2 height txs s c))
    /\ snd (run o1 height txs s c) = snd (run o2 height txs s c).
  Proof.
    exact (exec_block_deterministic C btag racct other difficulty refunds_of castor_of proposers_of validators_of
             next_height due_of other_ext difficulty_ext castor_ext proposers_ext validators_ext validators_nodup due_ext).
  Qed.

  (* Non-casting execution sorts first: for admissible lists even the order in which the proposer listed
     the transactions is irrelevant. *)
  Theorem C01_block_list_order_irrelevant : forall o1 o2 height txs1 txs2 s c,
    oracles_ok o1 -> oracles_ok o2 -> btag <> racct height -> Forall keys_ok txs1 ->
    txs_ok (map b_tx txs1) -> Permutation txs1 txs2 ->
    store_eq (fst (run o1 height txs1 s c)) (fst (run o2 height txs2 s c))
    /\ snd (run o1 height txs1 s c) = snd (run o2 height txs2 s c).
  Proof.
    exact (exec_block_list_order_irrelevant C btag racct other difficulty refunds_of castor_of proposers_of validators_of
             next_height due_of other_ext difficulty_ext castor_ext proposers_ext validators_ext validators_nodup due_ext).
  Qed.
End BlockTheorems.
Print Assumptions C01_block_deterministic.
Print Assumptions C01_block_list_order_irrelevant.

(* ---- the proposer's clock ---- *)
(* Situation "casting": before each transaction the proposer reads the node clock and may stop; the list
   Execute returns is what it publishes. For ANY clock, any BeforeExecute/Execute functions (evicting
   pre-checks write nothing): a verifier executing the returned list on the same parent state obtains the
   proposer's state and receipts, packs the same list, evicts nothing. *)
Theorem C01_cast_then_verify_agree :
  forall (T S R : Type) (before : T -> S -> S * verdict R) (exec : T -> S -> S * R),
    (forall t s s', before t s = (s', VEvict R) -> s' = s) ->
    forall up l i s,
      let c := cast T S R before exec up i l s in
      verify T S R before exec (packed T S R c) s = (st T S R c, packed T S R c, [], receipts T S R c).
Proof. exact cast_then_verify_agree. Qed.
Print Assumptions C01_cast_then_verify_agree.

(* ... and it is the ORDER of the check that matters: reading the clock after BeforeExecute (which charges
   the fee outside any snapshot) is refuted. *)
Theorem C01_cast_check_after_before_execute_refuted :
  exists (before : unit -> Z -> Z * verdict unit) (exec : unit -> Z -> Z * unit) (up : nat -> bool) l s,
    (forall t s s', before t s = (s', VEvict unit) -> s' = s) /\
    let c := cast_late unit Z unit before exec up 0 l s in
    st unit Z unit (verify unit Z unit before exec (packed unit Z unit c) s) <> st unit Z unit c.
Proof. exact cast_late_refuted. Qed.
Print Assumptions C01_cast_check_after_before_execute_refuted.

(* ---- sub-chain reward call data (VMExecutor.generateCode): open finding ---- *)
Theorem C01_generate_code_refuted :
  exists (o1 o2 : list (string * N) -> list (string * N)) castor props members,
    perm_oracle o1 /\ perm_oracle o2 /\ NoDup (map fst props) /\
    generate_code castor (o1 props) members <> generate_code castor (o2 props) members.
Proof. exact generate_code_refuted. Qed.
Print Assumptions C01_generate_code_refuted.

(* weaker than determinism: only the proposal address segment varies, and only by a permutation *)
Theorem C01_generate_code_segment_partial : forall castor l1 members,
  exists pre post, forall l2, Permutation l1 l2 ->
    generate_code castor l2 members = (pre ++ map snd l2 ++ post)%list /\ Permutation (map snd l1) (map snd l2).
Proof. exact generate_code_only_segment_varies. Qed.
Print Assumptions C01_generate_code_segment_partial.

(* the repair that would close it (not applied: the contract at the other end is not in the repository) *)
Theorem C01_generate_code_sorted_order_indep : forall o1 o2 castor props members,
  perm_oracle o1 -> perm_oracle o2 -> NoDup (map fst props) ->
  generate_code castor (isort pair_ltb (o1 props)) members = generate_code castor (isort pair_ltb (o2 props)) members.
Proof. exact generate_code_sorted_order_indep. Qed.
Print Assumptions C01_generate_code_sorted_order_indep.

(* ---- the generated inventory: every nondeterminism site reachable from block execution (snapshot
        Gen.v; the harness recomputes it from the sources under test on every run) is accounted for,
        and the table has no stale entry ---- *)
Theorem C01_inventory_covered : uncovered inventory = [] /\ stale inventory = [].
Proof. vm_compute. split; reflexivity. Qed.
Print Assumptions C01_inventory_covered.

(* ---- the hypotheses are satisfiable ---- *)
Example C01_example_oracles : perm_oracle (fun l : list target => l) /\ perm_oracle (@rev target).
Proof. split; [intro; reflexivity|intro l; apply Permutation_sym, Permutation_rev]. Qed.

(* the input of the executed defect (sender among the targets), now with one outcome under both orders *)
Example C01_example_fixed :
  NoDup (map t_key w_targets) /\
  change_assets_fixed (fun l => l) w_src w_targets w_state = change_assets_fixed (@rev target) w_src w_targets w_state /\
  (exists st l, change_assets_fixed (@rev target) w_src w_targets w_state = CAOk st l).
Proof.
  split; [cbn; repeat constructor; cbn; intuition discriminate|].
  split; [vm_compute; reflexivity|]. eexists _, _. vm_compute. reflexivity.
Qed.

Example C01_example_txs :
  let l := [mkTx 0 "0x0a" 10 0 111; mkTx 0 "0x0a" 10 1 222; mkTx 0 "0x0b" 11 0 333; mkTx 5 "0x0c" 12 0 444] in
  txs_ok l /\ map x_hash (sort_txs l) = [333; 111; 222; 444]%N /\ sort_txs (rev l) = sort_txs l.
Proof.
  cbn zeta. split; [|split; vm_compute; reflexivity].
  split; [cbn; repeat constructor; cbn; intuition discriminate|].
  split.
  - intros a b Ha Hb. cbn in Ha, Hb.
    repeat (destruct Ha as [<-|Ha]; [repeat (destruct Hb as [<-|Hb]; [cbn; split; intro; (reflexivity || discriminate)|]); try contradiction|]); contradiction.
  - intros a b Ha Hb. cbn in Ha, Hb.
    repeat (destruct Ha as [<-|Ha]; [repeat (destruct Hb as [<-|Hb]; [cbn; intros; (reflexivity || congruence || discriminate)|]); try contradiction|]); contradiction.
Qed.

(* the block theorem's hypotheses are satisfiable: concrete opaque parts, the identity and the reversing
   runtime, a block with the executed self-transfer *)
Definition ex_oracles_id : oracles :=
  Build_oracles (fun _ l => l) (fun l => l) (fun l => l) (fun l => l) (fun l => l) (fun l => l).
Definition ex_oracles_rev : oracles :=
  Build_oracles (fun _ => @rev target) (@rev refund_entry) (@rev (N * Z)) (@rev (N * Z)) (@rev (N * Z)) (@rev (N * Z)).

Example C01_example_block :
  let other := fun (_ : N) (_ : tx) (s : store) (c : unit) => (s, c, ROther true 0) in
  let run := exec_block unit 0 (fun h => h + 1)%N other (fun _ s => s) (fun _ => [(7%N, [(1%N, 3%Z)])])
               (fun _ _ => (1%N, 10%Z)) (fun _ _ => [(1%N, 2%Z); (2%N, 4%Z)]) (fun _ _ => [(3%N, 5%Z); (1%N, 6%Z)])
               (fun h => h + 100)%N (fun _ s => [(1%N, s (6%N, 1%N))]) in
  let blk := [mkB (mkTx 0 "0x01" 1 0 11) (PTransfer w_src w_targets); mkB (mkTx 0 "0x02" 2 0 22) (POther 0)] in
  let s0 : store := fun c => if (fst c =? 0)%N then w_state (snd c) else 0%Z in
  oracles_ok ex_oracles_id /\ oracles_ok ex_oracles_rev /\ Forall keys_ok blk /\
  store_eq (fst (run ex_oracles_id 5%N blk s0 tt)) (fst (run ex_oracles_rev 5%N blk s0 tt)) /\
  snd (run ex_oracles_id 5%N blk s0 tt) = snd (run ex_oracles_rev 5%N blk s0 tt) /\
  snd (run ex_oracles_rev 5%N blk s0 tt) = [(22%N, ROther true 0); (11%N, RTransfer true (Some 5%Z))].
Proof.
  cbn zeta.
  assert (Oid : oracles_ok ex_oracles_id) by (repeat split; repeat intro; apply Permutation_refl).
  assert (Orev : oracles_ok ex_oracles_rev) by (repeat split; repeat intro; apply Permutation_sym, Permutation_rev).
  assert (K : Forall keys_ok [mkB (mkTx 0 "0x01" 1 0 11) (PTransfer w_src w_targets); mkB (mkTx 0 "0x02" 2 0 22) (POther 0)]).
  { repeat constructor; cbn; intuition discriminate. }
  split; [exact Oid|]. split; [exact Orev|]. split; [exact K|].
  match goal with |- ?A /\ ?B /\ _ => cut (A /\ B); [intros [HA HB]; split; [exact HA|split; [exact HB|vm_compute; reflexivity]]|] end.
  apply C01_block_deterministic; auto.
  all: try (intros; cbn; auto; fail).
  - intros. cbn. repeat constructor; cbn; intuition discriminate.
  - intros h s s' E. now rewrite E.
  - cbn. discriminate.
Qed.
