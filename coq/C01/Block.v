(* C01 — the block-level composition: VMExecutor.Execute as a fold over the sorted transaction list,
   followed by after() (refund escrow, pay-out), with every map iteration site driven by an oracle.
   Executors that contain no iteration site (the generated inventory is what says so) enter as one
   deterministic function of (payload, transaction, state content). *)
From Coq Require Import List NArith ZArith String Bool Permutation Sorted Lia.
From V.C01 Require Import Model SortProofs Proofs.
Import ListNotations.

Inductive payload :=
| PTransfer (src : addr) (targets : list target)     (* type 100: operatorExecutor -> service.ChangeAssets *)
| POther (data : N).                                  (* miner apply/add/refund/change-account, contract, eth tx *)
Record btx := mkB { b_tx : tx; b_pay : payload }.

Inductive receipt :=
| RTransfer (ok : bool) (left : option Z)
| ROther (ok : bool) (msg : N)
| REvicted.                                           (* BeforeExecute said "not addable": goes to the evicted list *)

Record oracles := {
  o_targets : tx -> list target -> list target;       (* ChangeAssets `range targets`, chosen anew per transaction *)
  o_refund : list refund_entry -> list refund_entry;  (* RefundManager.Add `range data` *)
  o_prop : list (N * Z) -> list (N * Z);              (* calculateRewardPerBlock `range proposersStake` *)
  o_val : list (N * Z) -> list (N * Z);               (* calculateRewardPerBlock `range validatorStake` *)
  o_total : list (N * Z) -> list (N * Z);             (* CalculateReward `range total` *)
  o_cam : list (N * Z) -> list (N * Z)                (* CheckAndMove `range refundList` *)
}.
Definition oracles_ok (o : oracles) : Prop :=
  (forall t, perm_oracle (o_targets o t)) /\ perm_oracle (o_refund o) /\ perm_oracle (o_prop o) /\
  perm_oracle (o_val o) /\ perm_oracle (o_total o) /\ perm_oracle (o_cam o).

Definition btx_less (a b : btx) : bool := tx_less (b_tx a) (b_tx b).

(* the content of the reward map `total` built by calculateRewardPerBlock, as a list over its key set
   (keys in a canonical order; the visiting order is the oracle's business) *)
Definition reward_keys (castor : N * Z) (proposers validators : list (N * Z)) : list N :=
  nodup N.eq_dec (fst castor :: map fst proposers ++ map fst validators).
Definition reward_entries (castor : N * Z) (proposers validators : list (N * Z)) (r : store) : list (N * Z) :=
  map (fun k => (k, r (0%N, k))) (reward_keys castor proposers validators).

Section Block.
  Variable C : Type.                                  (* the executor context: context["refund"] etc. *)
  Variable btag : N.                                  (* tag of the native-balance cells *)
  Variable racct : N -> N.                            (* refund escrow account of a height *)
  Variable other : N -> tx -> store -> C -> store * C * receipt.   (* executors without an iteration site *)
  Variable difficulty : N -> store -> store.          (* calcDifficulty: reads/writes cells of the castor *)
  Variable refunds_of : C -> list refund_entry.       (* context["refund"] as map content *)
  Variable castor_of : N -> store -> N * Z.           (* proposer account, proposer reward *)
  Variable proposers_of : N -> store -> list (N * Z). (* (account, delta(stake)) per proposer: map content *)
  Variable validators_of : N -> store -> list (N * Z). (* (account, share(stake)) per group member: map content *)
  Variable next_height : N -> N.                      (* NextRewardHeight *)
  Variable due_of : N -> store -> list (N * Z).       (* GetAllRefund(escrow of height), as map content *)

  Definition bal_of (s : store) : bal := fun a => s (btag, a).
  Definition with_bal (s : store) (b : bal) : store :=
    fun c => if (fst c =? btag)%N then b (snd c) else s c.

  Definition exec_one (o : oracles) (t : btx) (s : store) (c : C) : store * C * receipt :=
    match b_pay t with
    | PTransfer src targets =>
        match change_assets_fixed (o_targets o (b_tx t)) src targets (bal_of s) with
        | CAFail => (s, c, RTransfer false None)                      (* RevertToSnapshot *)
        | CAOk b l => (with_bal s b, c, RTransfer true l)
        end
    | POther d => other d (b_tx t) s c
    end.

  Fixpoint exec_list (o : oracles) (l : list btx) (s : store) (c : C) : store * C * list (N * receipt) :=
    match l with
    | [] => (s, c, [])
    | t :: r =>
        let '(s1, c1, rc) := exec_one o t s c in
        let '(s2, c2, rs) := exec_list o r s1 c1 in
        (s2, c2, (x_hash (b_tx t), rc) :: rs)
    end.

  (* after(): calcDifficulty; Add(context refunds); CalculateReward -> Add; CheckAndMove(height) *)
  Definition after (o : oracles) (height : N) (s1 : store) (c1 : C) : store :=
    let s2 := difficulty height s1 in
    let s3 := refund_add (o_refund o (refunds_of c1)) s2 in
    let castor := castor_of height s3 in
    let ps := proposers_of height s3 in
    let vs := validators_of height s3 in
    let r := reward_result 0 castor (o_prop o ps) (o_val o vs) (fun _ => 0%Z) in
    let total := o_total o (reward_entries castor ps vs r) in
    let s4 := refund_add (o_refund o [(racct (next_height height), total)]) s3 in
    check_and_move btag (racct height) (o_cam o (due_of height s4)) s4.

  (* Execute: sort (non-casting), per-transaction loop, after() *)
  Definition exec_block (o : oracles) (height : N) (txs : list btx) (s : store) (c : C) : store * list (N * receipt) :=
    let '(s1, c1, rs) := exec_list o (isort btx_less txs) s c in
    (after o height s1 c1, rs).

  (* what "deterministic function of the state content" means for the opaque parts *)
  Hypothesis other_ext : forall d t s s' c, store_eq s s' ->
    store_eq (fst (fst (other d t s c))) (fst (fst (other d t s' c))) /\
    snd (fst (other d t s c)) = snd (fst (other d t s' c)) /\ snd (other d t s c) = snd (other d t s' c).
  Hypothesis difficulty_ext : forall h s s', store_eq s s' -> store_eq (difficulty h s) (difficulty h s').
  Hypothesis castor_ext : forall h s s', store_eq s s' -> castor_of h s = castor_of h s'.
  Hypothesis proposers_ext : forall h s s', store_eq s s' -> proposers_of h s = proposers_of h s'.
  Hypothesis validators_ext : forall h s s', store_eq s s' -> validators_of h s = validators_of h s'.
  Hypothesis validators_nodup : forall h s, NoDup (map fst (validators_of h s)).   (* keys of a Go map *)
  Hypothesis due_ext : forall h s s', store_eq s s' -> due_of h s = due_of h s'.

  Definition keys_ok (t : btx) : Prop :=
    match b_pay t with PTransfer _ targets => NoDup (map t_key targets) | POther _ => True end.

  Lemma exec_one_det : forall o1 o2 t s s' c, oracles_ok o1 -> oracles_ok o2 -> keys_ok t -> store_eq s s' ->
    store_eq (fst (fst (exec_one o1 t s c))) (fst (fst (exec_one o2 t s' c))) /\
    snd (fst (exec_one o1 t s c)) = snd (fst (exec_one o2 t s' c)) /\
    snd (exec_one o1 t s c) = snd (exec_one o2 t s' c).
  Proof.
    intros o1 o2 t s s' c (T1 & _) (T2 & _) K E. unfold exec_one, keys_ok in *.
    destruct (b_pay t) as [src targets|d]; [|now apply other_ext].
    rewrite (change_assets_fixed_order_indep (o_targets o1 (b_tx t)) (o_targets o2 (b_tx t)) src targets (bal_of s)) by auto.
    unfold change_assets_fixed.
    pose proof (ca_loop_ext src (isort target_ltb (o_targets o2 (b_tx t) targets)) (bal_of s) (bal_of s') None
                  (fun a => E (btag, a))) as H.
    destruct (ca_loop src _ (bal_of s) None) as [|b l], (ca_loop src _ (bal_of s') None) as [|b' l']; cbn in H; try (exfalso; exact H).
    - cbn. split; [exact E|split; reflexivity].
    - destruct H as [Hb ->]. cbn. split; [|split; reflexivity]. intro x. unfold with_bal.
      destruct (fst x =? btag)%N; [apply Hb|apply E].
  Qed.

  Lemma exec_list_det : forall o1 o2 l s s' c, oracles_ok o1 -> oracles_ok o2 -> Forall keys_ok l -> store_eq s s' ->
    store_eq (fst (fst (exec_list o1 l s c))) (fst (fst (exec_list o2 l s' c))) /\
    snd (fst (exec_list o1 l s c)) = snd (fst (exec_list o2 l s' c)) /\
    snd (exec_list o1 l s c) = snd (exec_list o2 l s' c).
  Proof.
    induction l as [|t r IH]; intros s s' c O1 O2 K E; cbn.
    - split; [exact E|split; reflexivity].
    - inversion K as [|? ? Kt Kr]; subst.
      pose proof (exec_one_det o1 o2 t s s' c O1 O2 Kt E) as (E1 & C1 & R1).
      destruct (exec_one o1 t s c) as [[s1 c1] rc1], (exec_one o2 t s' c) as [[s1' c1'] rc1']. cbn in E1, C1, R1. subst rc1' c1'.
      pose proof (IH s1 s1' c1 O1 O2 Kr E1) as (E2 & C2 & R2).
      destruct (exec_list o1 r s1 c1) as [[s2 c2] rs], (exec_list o2 r s1' c1) as [[s2' c2'] rs']. cbn in *. subst rs' c2'.
      split; [exact E2|split; reflexivity].
  Qed.

  Lemma refund_add_perm_ext : forall d1 d2 s s', Permutation d1 d2 -> store_eq s s' ->
    store_eq (refund_add d1 s) (refund_add d2 s').
  Proof.
    intros d1 d2 s s' P E. unfold refund_add. apply run_ops_perm.
    - now apply Permutation_flat_map.
    - intros a b H1 H2. apply in_flat_map in H1 as (e1 & _ & H1). apply in_flat_map in H2 as (e2 & _ & H2).
      unfold refund_ops in *. apply in_map_iff in H1 as (? & <- & _). apply in_map_iff in H2 as (? & <- & _).
      apply commute_add_add.
    - exact E.
  Qed.

  Lemma reward_entries_ext : forall castor ps vs r r', store_eq r r' ->
    reward_entries castor ps vs r = reward_entries castor ps vs r'.
  Proof. intros. unfold reward_entries. apply map_ext. intro k. now rewrite H. Qed.

  Lemma after_det : forall o1 o2 height s s' c, oracles_ok o1 -> oracles_ok o2 ->
    btag <> racct height -> store_eq s s' ->
    store_eq (after o1 height s c) (after o2 height s' c).
  Proof.
    intros o1 o2 height s s' c (_ & R1 & P1 & V1 & T1 & C1) (_ & R2 & P2 & V2 & T2 & C2) N E.
    unfold after.
    assert (E2 := difficulty_ext height s s' E).
    set (sa2 := difficulty height s) in *. set (sb2 := difficulty height s') in *.
    assert (E3 : store_eq (refund_add (o_refund o1 (refunds_of c)) sa2) (refund_add (o_refund o2 (refunds_of c)) sb2)).
    { apply refund_add_perm_ext; [|exact E2]. eapply Permutation_trans; [apply R1|apply Permutation_sym, R2]. }
    set (sa3 := refund_add (o_refund o1 (refunds_of c)) sa2) in *.
    set (sb3 := refund_add (o_refund o2 (refunds_of c)) sb2) in *.
    rewrite <- (castor_ext height sa3 sb3 E3), <- (proposers_ext height sa3 sb3 E3), <- (validators_ext height sa3 sb3 E3).
    set (castor := castor_of height sa3). set (ps := proposers_of height sa3). set (vs := validators_of height sa3).
    assert (ER : store_eq (reward_result 0 castor (o_prop o1 ps) (o_val o1 vs) (fun _ => 0%Z))
                          (reward_result 0 castor (o_prop o2 ps) (o_val o2 vs) (fun _ => 0%Z))).
    { apply reward_result_order_indep.
      - eapply Permutation_trans; [apply P1|apply Permutation_sym, P2].
      - eapply Permutation_trans; [apply V1|apply Permutation_sym, V2].
      - eapply Permutation_NoDup; [apply Permutation_map, Permutation_sym, V1|apply validators_nodup]. }
    rewrite <- (reward_entries_ext castor ps vs _ _ ER).
    set (ent := reward_entries castor ps vs (reward_result 0 castor (o_prop o1 ps) (o_val o1 vs) (fun _ => 0%Z))).
    assert (E4 : store_eq (refund_add (o_refund o1 [(racct (next_height height), o_total o1 ent)]) sa3)
                          (refund_add (o_refund o2 [(racct (next_height height), o_total o2 ent)]) sb3)).
    { intro x.
      rewrite (refund_add_perm_ext _ [(racct (next_height height), o_total o1 ent)] sa3 sa3 (R1 _) (fun _ => eq_refl) x).
      rewrite (refund_add_perm_ext _ [(racct (next_height height), o_total o2 ent)] sb3 sb3 (R2 _) (fun _ => eq_refl) x).
      unfold refund_add. cbn [flat_map]. rewrite !app_nil_r. revert x. apply run_ops_perm.
      - unfold refund_ops. cbn [fst snd]. apply Permutation_map.
        eapply Permutation_trans; [apply T1|apply Permutation_sym, T2].
      - intros a b H1 H2. unfold refund_ops in *. apply in_map_iff in H1 as (? & <- & _). apply in_map_iff in H2 as (? & <- & _).
        apply commute_add_add.
      - exact E3. }
    set (sa4 := refund_add (o_refund o1 [(racct (next_height height), o_total o1 ent)]) sa3) in *.
    set (sb4 := refund_add (o_refund o2 [(racct (next_height height), o_total o2 ent)]) sb3) in *.
    rewrite <- (due_ext height sa4 sb4 E4).
    intro x.
    rewrite (check_and_move_order_indep btag (racct height) (o_cam o1 (due_of height sa4)) (o_cam o2 (due_of height sa4)) sa4 N
               (Permutation_trans (C1 _) (Permutation_sym (C2 _))) x).
    unfold check_and_move. apply run_ext. exact E4.
  Qed.

  (* Same list, same parent state, same height: the post-state content (hence its root), the receipts
     and the evicted markers are the same whatever order any map was iterated in. *)
  Theorem exec_block_deterministic : forall o1 o2 height txs s c,
    oracles_ok o1 -> oracles_ok o2 -> btag <> racct height -> Forall keys_ok txs ->
    store_eq (fst (exec_block o1 height txs s c)) (fst (exec_block o2 height txs s c))
    /\ snd (exec_block o1 height txs s c) = snd (exec_block o2 height txs s c).
  Proof.
    intros o1 o2 height txs s c O1 O2 N K. unfold exec_block.
    assert (K' : Forall keys_ok (isort btx_less txs)).
    { rewrite Forall_forall in *. intros t Ht. apply K. eapply Permutation_in; [apply isort_perm|exact Ht]. }
    pose proof (exec_list_det o1 o2 (isort btx_less txs) s s c O1 O2 K' (fun _ => eq_refl)) as (E & Cq & R).
    destruct (exec_list o1 (isort btx_less txs) s c) as [[s1 c1] rs], (exec_list o2 (isort btx_less txs) s c) as [[s1' c1'] rs'].
    cbn in E, Cq, R. subst rs' c1'. cbn. split; [|reflexivity].
    now apply after_det.
  Qed.

  (* ... and (non-casting mode sorts first) even the order in which the proposer listed the
     transactions is irrelevant, for admissible lists *)
  Lemma btx_sto : forall l, txs_ok (map b_tx l) -> sto_on btx_less l /\ NoDup l.
  Proof.
    intros l H. pose proof (tx_sto _ H) as [I T O]. destruct H as (Nd & _).
    split; [constructor|].
    - intros a Ha. apply I. now apply in_map.
    - intros a b c Ha Hb Hc. apply T; now apply in_map.
    - intros a b Ha Hb. destruct (O (b_tx a) (b_tx b)) as [E|[L|G]]; try (now apply in_map); auto.
      left. rewrite map_map in Nd. apply (NoDup_map_inj (fun x => x_hash (b_tx x)) l); auto. now rewrite E.
    - rewrite map_map in Nd. eapply NoDup_of_map; exact Nd.
  Qed.

  Theorem exec_block_list_order_irrelevant : forall o1 o2 height txs1 txs2 s c,
    oracles_ok o1 -> oracles_ok o2 -> btag <> racct height -> Forall keys_ok txs1 ->
    txs_ok (map b_tx txs1) -> Permutation txs1 txs2 ->
    store_eq (fst (exec_block o1 height txs1 s c)) (fst (exec_block o2 height txs2 s c))
    /\ snd (exec_block o1 height txs1 s c) = snd (exec_block o2 height txs2 s c).
  Proof.
    intros o1 o2 height txs1 txs2 s c O1 O2 N K Ok P.
    destruct (btx_sto txs1 Ok) as [S Nd].
    assert (E : isort btx_less txs2 = isort btx_less txs1) by (symmetry; now apply isort_unique).
    unfold exec_block at 2 4. rewrite E.
    apply (exec_block_deterministic o1 o2 height txs1 s c); auto.
  Qed.
End Block.
