(* C01 — the block-level composition: VMExecutor.Execute as a fold over the sorted transaction list,
   followed by after() (refund escrow, pay-out), with every map iteration site driven by an oracle.
   Executors that contain no iteration site (the generated inventory is what says so) enter as one
   deterministic function of (payload, transaction, state content). *)
From Coq Require Import List NArith ZArith String Bool Permutation Sorted Lia.
From V.C01 Require Import Model SortProofs Proofs.
Import ListNotations.

Inductive payload :=
| PTransfer (src : addr) (targets : list target)     (* type 100: operatorExecutor -> service.ChangeAssets *)
| POther (data : N).                                  (* miner apply/add/refund/change-account, contract, eth tx *)
Record btx := mkB { b_tx : tx; b_pay : payload }.

Inductive receipt :=
| RTransfer (ok : bool) (left : option Z)
| ROther (ok : bool) (msg : N)
| REvicted.                                           (* BeforeExecute said "not addable": goes to the evicted list *)

Record oracles := {
  o_targets : tx -> list target -> list target;       (* ChangeAssets `range targets`, chosen anew per transaction *)
  o_refund : list refund_entry -> list refund_entry;  (* RefundManager.Add `range data` *)
  o_cam : list (N * Z) -> list (N * Z)                (* CheckAndMove `range refundList` *)
}.
Definition oracles_ok (o : oracles) : Prop :=
  (forall t, perm_oracle (o_targets o t)) /\ perm_oracle (o_refund o) /\ perm_oracle (o_cam o).

Definition btx_less (a b : btx) : bool := tx_less (b_tx a) (b_tx b).

Section Block.
  Variable btag : N.                                  (* tag of the native-balance cells *)
  Variable racct : N -> N.                            (* refund escrow account of a height *)
  Variable other : N -> tx -> store -> store * receipt.
  Variable refunds_of : store -> list refund_entry.   (* context["refund"] and the reward data, as map contents *)
  Variable due_of : N -> store -> list (N * Z).       (* GetAllRefund(escrow of height), as map content *)

  Definition bal_of (s : store) : bal := fun a => s (btag, a).
  Definition with_bal (s : store) (b : bal) : store :=
    fun c => if (fst c =? btag)%N then b (snd c) else s c.

  Definition exec_one (o : oracles) (t : btx) (s : store) : store * receipt :=
    match b_pay t with
    | PTransfer src targets =>
        match change_assets_fixed (o_targets o (b_tx t)) src targets (bal_of s) with
        | CAFail => (s, RTransfer false None)                      (* RevertToSnapshot *)
        | CAOk b l => (with_bal s b, RTransfer true l)
        end
    | POther d => other d (b_tx t) s
    end.

  Fixpoint exec_list (o : oracles) (l : list btx) (s : store) : store * list (N * receipt) :=
    match l with
    | [] => (s, [])
    | t :: r =>
        let '(s1, rc) := exec_one o t s in
        let '(s2, rs) := exec_list o r s1 in
        (s2, (x_hash (b_tx t), rc) :: rs)
    end.

  (* Execute: sort (non-casting), per-transaction loop, after(): Add(refunds), CheckAndMove(height) *)
  Definition exec_block (o : oracles) (height : N) (txs : list btx) (s : store) : store * list (N * receipt) :=
    let '(s1, rs) := exec_list o (isort btx_less txs) s in
    let s2 := refund_add (o_refund o (refunds_of s1)) s1 in
    let s3 := check_and_move btag (racct height) (o_cam o (due_of height s2)) s2 in
    (s3, rs).

  (* what "deterministic function of the state content" means for the opaque parts *)
  Hypothesis other_ext : forall d t s s', store_eq s s' ->
    store_eq (fst (other d t s)) (fst (other d t s')) /\ snd (other d t s) = snd (other d t s').
  Hypothesis refunds_ext : forall s s', store_eq s s' -> refunds_of s = refunds_of s'.
  Hypothesis due_ext : forall h s s', store_eq s s' -> due_of h s = due_of h s'.

  Definition keys_ok (t : btx) : Prop :=
    match b_pay t with PTransfer _ targets => NoDup (map t_key targets) | POther _ => True end.

  Lemma exec_one_det : forall o1 o2 t s s', oracles_ok o1 -> oracles_ok o2 -> keys_ok t -> store_eq s s' ->
    store_eq (fst (exec_one o1 t s)) (fst (exec_one o2 t s')) /\ snd (exec_one o1 t s) = snd (exec_one o2 t s').
  Proof.
    intros o1 o2 t s s' (T1 & _) (T2 & _) K E. unfold exec_one, keys_ok in *.
    destruct (b_pay t) as [src targets|d]; [|now apply other_ext].
    rewrite (change_assets_fixed_order_indep (o_targets o1 (b_tx t)) (o_targets o2 (b_tx t)) src targets (bal_of s)) by auto.
    unfold change_assets_fixed.
    pose proof (ca_loop_ext src (isort target_ltb (o_targets o2 (b_tx t) targets)) (bal_of s) (bal_of s') None
                  (fun a => E (btag, a))) as H.
    destruct (ca_loop src _ (bal_of s) None) as [|b l], (ca_loop src _ (bal_of s') None) as [|b' l']; cbn in H; try (exfalso; exact H).
    - split; [exact E|reflexivity].
    - destruct H as [Hb ->]. split; [|reflexivity]. cbn. intro c. unfold with_bal.
      destruct (fst c =? btag)%N; [apply Hb|apply E].
  Qed.

  Lemma exec_list_det : forall o1 o2 l s s', oracles_ok o1 -> oracles_ok o2 -> Forall keys_ok l -> store_eq s s' ->
    store_eq (fst (exec_list o1 l s)) (fst (exec_list o2 l s')) /\ snd (exec_list o1 l s) = snd (exec_list o2 l s').
  Proof.
    induction l as [|t r IH]; intros s s' O1 O2 K E; cbn.
    - split; [exact E|reflexivity].
    - inversion K as [|? ? Kt Kr]; subst.
      pose proof (exec_one_det o1 o2 t s s' O1 O2 Kt E) as [E1 R1].
      destruct (exec_one o1 t s) as [s1 rc1], (exec_one o2 t s') as [s1' rc1']. cbn in E1, R1. subst rc1'.
      pose proof (IH s1 s1' O1 O2 Kr E1) as [E2 R2].
      destruct (exec_list o1 r s1) as [s2 rs], (exec_list o2 r s1') as [s2' rs']. cbn in *. subst rs'.
      split; [exact E2|reflexivity].
  Qed.

  Lemma after_det : forall o1 o2 height s s', oracles_ok o1 -> oracles_ok o2 -> btag <> racct height -> store_eq s s' ->
    store_eq (check_and_move btag (racct height) (o_cam o1 (due_of height (refund_add (o_refund o1 (refunds_of s)) s)))
                (refund_add (o_refund o1 (refunds_of s)) s))
             (check_and_move btag (racct height) (o_cam o2 (due_of height (refund_add (o_refund o2 (refunds_of s')) s')))
                (refund_add (o_refund o2 (refunds_of s')) s')).
  Proof.
    intros o1 o2 height s s' (_ & R1 & C1) (_ & R2 & C2) N E.
    assert (A : store_eq (refund_add (o_refund o1 (refunds_of s)) s) (refund_add (o_refund o2 (refunds_of s')) s')).
    { rewrite <- (refunds_ext s s' E). unfold refund_add. apply run_ops_perm.
      - apply Permutation_flat_map. eapply Permutation_trans; [apply R1|apply Permutation_sym, R2].
      - intros a b H1 H2. apply in_flat_map in H1 as (e1 & _ & H1). apply in_flat_map in H2 as (e2 & _ & H2).
        unfold refund_ops in *. apply in_map_iff in H1 as (? & <- & _). apply in_map_iff in H2 as (? & <- & _).
        apply commute_add_add.
      - exact E. }
    rewrite <- (due_ext height _ _ A).
    set (sa := refund_add (o_refund o1 (refunds_of s)) s) in *.
    set (sb := refund_add (o_refund o2 (refunds_of s')) s') in *.
    intro c.
    rewrite (check_and_move_order_indep btag (racct height) (o_cam o1 (due_of height sa)) (o_cam o2 (due_of height sa)) sa N
               (Permutation_trans (C1 _) (Permutation_sym (C2 _))) c).
    unfold check_and_move. apply run_ext. exact A.
  Qed.

  (* Same list, same parent state, same height: the post-state content (hence its root), the receipts
     and the evicted list are the same whatever order any map was iterated in. *)
  Theorem exec_block_deterministic : forall o1 o2 height txs s,
    oracles_ok o1 -> oracles_ok o2 -> btag <> racct height -> Forall keys_ok txs ->
    store_eq (fst (exec_block o1 height txs s)) (fst (exec_block o2 height txs s))
    /\ snd (exec_block o1 height txs s) = snd (exec_block o2 height txs s).
  Proof.
    intros o1 o2 height txs s O1 O2 N K. unfold exec_block.
    assert (K' : Forall keys_ok (isort btx_less txs)).
    { rewrite Forall_forall in *. intros t Ht. apply K. eapply Permutation_in; [apply isort_perm|exact Ht]. }
    pose proof (exec_list_det o1 o2 (isort btx_less txs) s s O1 O2 K' (fun _ => eq_refl)) as [E R].
    destruct (exec_list o1 (isort btx_less txs) s) as [s1 rs], (exec_list o2 (isort btx_less txs) s) as [s1' rs'].
    cbn in E, R. subst rs'. cbn. split; [|reflexivity].
    now apply after_det.
  Qed.

  (* ... and (non-casting mode sorts first) even the order in which the proposer listed the
     transactions is irrelevant, for admissible lists *)
  Lemma btx_sto : forall l, txs_ok (map b_tx l) -> sto_on btx_less l /\ NoDup l.
  Proof.
    intros l H. pose proof (tx_sto _ H) as [I T O]. destruct H as (Nd & _).
    split; [constructor|].
    - intros a Ha. apply I. now apply in_map.
    - intros a b c Ha Hb Hc. apply T; now apply in_map.
    - intros a b Ha Hb. destruct (O (b_tx a) (b_tx b)) as [E|[L|G]]; try (now apply in_map); auto.
      left. rewrite map_map in Nd. apply (NoDup_map_inj (fun x => x_hash (b_tx x)) l); auto. now rewrite E.
    - rewrite map_map in Nd. eapply NoDup_of_map; exact Nd.
  Qed.

  Theorem exec_block_list_order_irrelevant : forall o1 o2 height txs1 txs2 s,
    oracles_ok o1 -> oracles_ok o2 -> btag <> racct height -> Forall keys_ok txs1 ->
    txs_ok (map b_tx txs1) -> Permutation txs1 txs2 ->
    store_eq (fst (exec_block o1 height txs1 s)) (fst (exec_block o2 height txs2 s))
    /\ snd (exec_block o1 height txs1 s) = snd (exec_block o2 height txs2 s).
  Proof.
    intros o1 o2 height txs1 txs2 s O1 O2 N K Ok P.
    destruct (btx_sto txs1 Ok) as [S Nd].
    assert (E : isort btx_less txs2 = isort btx_less txs1) by (symmetry; now apply isort_unique).
    unfold exec_block at 2 4. rewrite E.
    apply (exec_block_deterministic o1 o2 height txs1 s); auto.
  Qed.
End Block.
