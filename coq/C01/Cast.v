(* C01 — proposer vs verifier. In situation "casting" VMExecutor.Execute looks at the node clock before
   each transaction and stops when the 3 s budget is used up; the list it RETURNS is the block body the
   proposer publishes with the root it computed. A verifier executes the published list without a
   clock. The clock is an oracle [up : nat -> bool] ("time is up when transaction i is reached").

   Per transaction (the loop body of Execute):
     BeforeExecute  [before t s = (s1, verdict)]  - charges the fee OUTSIDE any snapshot;
        not addable -> evicted list, `continue` (no receipt, not in the returned list);
        failed pre-check -> receipt with the failure, in the returned list;
     Snapshot / Execute / RevertToSnapshot / gas charge / nonce  [exec t s1 = (s2, receipt)].
   [before] and [exec] are arbitrary functions: the theorem is about the ORDER of the clock check. *)
From Coq Require Import List ZArith Bool.
Import ListNotations.

Section Cast.
  Variables (T S R : Type).
  Inductive verdict := VEvict | VFail (r : R) | VOk.
  Variable before : T -> S -> S * verdict.
  Variable exec : T -> S -> S * R.

  (* result: state before after(), returned (packed) list, evicted list, receipts *)
  Definition result := (S * list T * list T * list R)%type.
  Definition cons_packed (t : T) (r : R) (x : result) : result :=
    let '(s, p, e, rs) := x in (s, t :: p, e, r :: rs).
  Definition cons_evicted (t : T) (x : result) : result :=
    let '(s, p, e, rs) := x in (s, p, t :: e, rs).

  Definition body (t : T) (s : S) (k : S -> result) : result :=
    let '(s1, v) := before t s in
    match v with
    | VEvict => cons_evicted t (k s1)
    | VFail r => cons_packed t r (k s1)
    | VOk => let '(s2, r) := exec t s1 in cons_packed t r (k s2)
    end.

  (* a verifier: no clock *)
  Fixpoint verify (l : list T) (s : S) : result :=
    match l with
    | [] => (s, [], [], [])
    | t :: rest => body t s (verify rest)
    end.

  (* the proposer, as written: the clock is read BEFORE BeforeExecute *)
  Fixpoint cast (up : nat -> bool) (i : nat) (l : list T) (s : S) : result :=
    match l with
    | [] => (s, [], [], [])
    | t :: rest => if up i then (s, [], [], []) else body t s (cast up (Datatypes.S i) rest)
    end.

  (* the order of seeded change C01-3: the clock is read AFTER BeforeExecute (and after the evict branch) *)
  Fixpoint cast_late (up : nat -> bool) (i : nat) (l : list T) (s : S) : result :=
    match l with
    | [] => (s, [], [], [])
    | t :: rest =>
        let '(s1, v) := before t s in
        match v with
        | VEvict => cons_evicted t (cast_late up (Datatypes.S i) rest s1)
        | VFail r => if up i then (s1, [], [], []) else cons_packed t r (cast_late up (Datatypes.S i) rest s1)
        | VOk => if up i then (s1, [], [], [])
                 else let '(s2, r) := exec t s1 in cons_packed t r (cast_late up (Datatypes.S i) rest s2)
        end
    end.

  Definition st (x : result) : S := let '(s, _, _, _) := x in s.
  Definition packed (x : result) : list T := let '(_, p, _, _) := x in p.
  Definition receipts (x : result) : list R := let '(_, _, _, rs) := x in rs.

  (* an evicting BeforeExecute leaves the state alone (true of the executors: the two "not addable"
     returns of the eth-transaction executor precede every write) *)
  Hypothesis evict_pure : forall t s s', before t s = (s', VEvict) -> s' = s.

  Lemma st_cons_packed t r x : st (cons_packed t r x) = st x.
  Proof. destruct x as [[[? ?] ?] ?]; reflexivity. Qed.
  Lemma st_cons_evicted t x : st (cons_evicted t x) = st x.
  Proof. destruct x as [[[? ?] ?] ?]; reflexivity. Qed.
  Lemma packed_cons_packed t r x : packed (cons_packed t r x) = t :: packed x.
  Proof. destruct x as [[[? ?] ?] ?]; reflexivity. Qed.
  Lemma packed_cons_evicted t x : packed (cons_evicted t x) = packed x.
  Proof. destruct x as [[[? ?] ?] ?]; reflexivity. Qed.
  Lemma receipts_cons_packed t r x : receipts (cons_packed t r x) = r :: receipts x.
  Proof. destruct x as [[[? ?] ?] ?]; reflexivity. Qed.
  Lemma receipts_cons_evicted t x : receipts (cons_evicted t x) = receipts x.
  Proof. destruct x as [[[? ?] ?] ?]; reflexivity. Qed.

  (* Whatever the clock does: executing the list the proposer returns, on the same parent state, gives
     the proposer's state and receipts, returns that same list, and evicts nothing. *)
  Theorem cast_then_verify_agree : forall up l i s,
    let c := cast up i l s in
    verify (packed c) s = (st c, packed c, [], receipts c).
  Proof.
    intros up l. induction l as [|t rest IH]; intros i s; cbn.
    - reflexivity.
    - destruct (up i); [reflexivity|].
      unfold body. destruct (before t s) as [s1 v] eqn:B.
      destruct v as [|r|].
      + rewrite packed_cons_evicted, st_cons_evicted, receipts_cons_evicted.
        rewrite (evict_pure t s s1 B). apply IH.
      + rewrite packed_cons_packed, st_cons_packed, receipts_cons_packed. cbn [verify]. unfold body. rewrite B.
        rewrite (IH (Datatypes.S i) s1). reflexivity.
      + destruct (exec t s1) as [s2 r] eqn:E.
        rewrite packed_cons_packed, st_cons_packed, receipts_cons_packed. cbn [verify]. unfold body. rewrite B, E.
        rewrite (IH (Datatypes.S i) s2). reflexivity.
  Qed.
End Cast.

(* With the check after BeforeExecute the transaction at which the proposer gives up has paid its fee
   but is not in the published list: proposer and verifier disagree on the state. *)
Theorem cast_late_refuted :
  exists (before : unit -> Z -> Z * verdict unit) (exec : unit -> Z -> Z * unit) (up : nat -> bool) l s,
    (forall t s s', before t s = (s', VEvict unit) -> s' = s) /\
    let c := cast_late unit Z unit before exec up 0 l s in
    st unit Z unit (verify unit Z unit before exec (packed unit Z unit c) s) <> st unit Z unit c.
Proof.
  exists (fun _ s => ((s - 1)%Z, VOk unit)), (fun _ s => (s, tt)), (fun _ => true), [tt], 10%Z.
  split; [intros t s s' H; inversion H|].
  vm_compute. discriminate.
Qed.
