(* C01 — block execution is replica-deterministic: the order-sensitive pieces of the execution path.

   Every Go `range` over a map visits the entries in an order the language leaves unspecified (and the
   runtime randomises). In this model each such loop takes the list of entries IN THE ORDER VISITED as
   an argument; an oracle [omega : list A -> list A] with [Permutation (omega l) l] stands for the
   runtime's choice. "Order independent" = the result is the same for any two such orders.

   Modelled code (branch by branch):
     service.ChangeAssets / transferBalance            src/service/game.go
     types.Transactions.Less + sort.Sort               src/middleware/types/transaction.go, src/core/vmexecutor.go
     RefundManager.Add / CheckAndMove                  src/service/refund_manager.go
     RewardCalculator.calculateRewardPerBlock / CalculateReward   src/service/reward_calculator.go
     AccountDB.Finalise / accountObject.updateTrie (as keyed updates of a keyed store)
   No proofs in this file. *)
From Coq Require Import List NArith ZArith String Bool OrdersEx.
Import ListNotations.

(* ------------------------------------------------------------------------------------------ *)
(* Insertion sort w.r.t. a boolean "less". sort.Sort / sort.Strings are different algorithms;   *)
(* under a strict total order every sorting algorithm returns the same list (Proofs.v), which   *)
(* is why the algorithm does not matter.                                                       *)
Section Sort.
  Context {A : Type} (ltb : A -> A -> bool).
  Fixpoint insert (x : A) (l : list A) : list A :=
    match l with
    | [] => [x]
    | y :: t => if ltb x y then x :: y :: t else y :: insert x t
    end.
  Fixpoint isort (l : list A) : list A :=
    match l with
    | [] => []
    | x :: t => insert x (isort t)
    end.
End Sort.

(* ------------------------------------------------------------------------------------------ *)
(* service.ChangeAssets                                                                         *)
Definition addr := N.
(* native balances; (the node keeps them in the storage of the bound token contract, one slot per
   holder: a total function holder -> amount is exactly that content) *)
Definition bal := addr -> Z.
Definition add_bal (st : bal) (a : addr) (v : Z) : bal :=
  fun x => if (x =? a)%N then (st x + v)%Z else st x.

(* one entry of the user-supplied JSON object `targets`:
   raw key string, common.HexToAddress(key), utility.StrToBigInt(entry.Balance) (None = parse error).
   Keys are pairwise distinct (it is a Go map); addresses need not be (letter case, padding), and an
   address may be the sender itself. *)
Record target := mkT { t_key : string; t_addr : addr; t_amt : option Z }.

(* transferBalance: parse, sign check, balance check, AddBalance(target), SubBalance(source) -> left *)
Definition transfer_balance (src : addr) (t : target) (st : bal) : option (bal * Z) :=
  match t_amt t with
  | None => None
  | Some v =>
      if (v <? 0)%Z then None
      else if (st src <? v)%Z then None
      else let st1 := add_bal st (t_addr t) v in
           let st2 := add_bal st1 src (- v) in
           Some (st2, st2 src)
  end.

Inductive ca_result := CAFail | CAOk (st : bal) (left : option Z).

(* the loop body of ChangeAssets over the entries in visiting order; [left] = responseBalance *)
Fixpoint ca_loop (src : addr) (order : list target) (st : bal) (left : option Z) : ca_result :=
  match order with
  | [] => CAOk st left
  | t :: rest =>
      match transfer_balance src t st with
      | None => CAFail                                   (* "Transfer Balance Failed", false *)
      | Some (st', l) => ca_loop src rest st' (Some l)
      end
  end.

(* ChangeAssets as written before the repair: `for address, transferData := range targets` *)
Definition change_assets (omega : list target -> list target) (src : addr) (targets : list target) (st : bal) : ca_result :=
  ca_loop src (omega targets) st None.

(* Go string comparison = bytewise lexicographic *)
Definition key_ltb (a b : string) : bool :=
  match String_as_OT.compare a b with Lt => true | _ => false end.
Definition target_ltb (a b : target) : bool := key_ltb (t_key a) (t_key b).

(* ChangeAssets after the repair: keys collected (in map order), sort.Strings, loop over sorted keys *)
Definition change_assets_fixed (omega : list target -> list target) (src : addr) (targets : list target) (st : bal) : ca_result :=
  ca_loop src (isort target_ltb (omega targets)) st None.

(* what the block executor makes of it: failure reverts to the snapshot *)
Definition transfer_outcome (st0 : bal) (r : ca_result) : bal * bool * option Z :=
  match r with
  | CAFail => (st0, false, None)
  | CAOk st l => (st, true, l)
  end.

(* ------------------------------------------------------------------------------------------ *)
(* types.Transactions.Less (all proposals active: the IsProposal023 branch)                     *)
Record tx := mkTx {
  x_req : N;          (* RequestId *)
  x_source : string;  (* Source, raw *)
  x_srcnum : N;       (* new(big.Int).SetBytes(common.FromHex(Source)) *)
  x_nonce : N;
  x_hash : N          (* new(big.Int).SetBytes(Hash) *)
}.

Definition tx_less (a b : tx) : bool :=
  if (x_req a =? 0)%N && (x_req b =? 0)%N then
    if String.eqb (x_source a) (x_source b) then
      if negb (x_nonce a =? x_nonce b)%N then (x_nonce a <? x_nonce b)%N
      else (x_hash b <? x_hash a)%N          (* equal hashes: Go panics; excluded by the guard *)
    else (x_srcnum b <? x_srcnum a)%N
  else (x_req a <? x_req b)%N.

Definition sort_txs (l : list tx) : list tx := isort tx_less l.

(* ------------------------------------------------------------------------------------------ *)
(* Keyed accumulations: storage cells (account, key), Go map entries, trie leaves               *)
Definition cell := (N * N)%type.
Definition cell_eqb (a b : cell) : bool := (fst a =? fst b)%N && (snd a =? snd b)%N.
Definition store := cell -> Z.
Inductive op :=
| OAdd (c : cell) (v : Z)      (* x[c] += v : AddBalance, existed.Add, addReward *)
| OSet (c : cell) (v : Z).     (* x[c] = v  : SetData/RemoveData of a fresh key, result[addr] = .., trie update *)
Definition op_cell (o : op) : cell := match o with OAdd c _ | OSet c _ => c end.
Definition apply_op (s : store) (o : op) : store :=
  match o with
  | OAdd c v => fun x => if cell_eqb x c then (s x + v)%Z else s x
  | OSet c v => fun x => if cell_eqb x c then v else s x
  end.
Definition run_ops (l : list op) (s : store) : store := fold_left apply_op l s.

(* RefundManager.Add: `for height, list := range data` (outer order from the oracle), inner slice in
   slice order; cell = (refund account of height, id); empty slot reads as 0 *)
Definition refund_entry := (N * list (N * Z))%type.
Definition refund_ops (e : refund_entry) : list op :=
  map (fun iv => OAdd (fst e, fst iv) (snd iv)) (snd e).
Definition refund_add (order : list refund_entry) (s : store) : store :=
  run_ops (flat_map refund_ops order) s.

(* RefundManager.CheckAndMove(height): `for addr, value := range refundList`:
   AddBalance(addr, value); RemoveData(refundAccount, addr). Balances live under tag [btag]. *)
Definition cam_ops (btag racct : N) (e : N * Z) : list op :=
  [OAdd (btag, fst e) (snd e); OSet (racct, fst e) 0%Z].
Definition check_and_move (btag racct : N) (order : list (N * Z)) (s : store) : store :=
  run_ops (flat_map (cam_ops btag racct) order) s.

(* calculateRewardPerBlock: result map under tag [rtag]:
   addReward(result, proposerAddr, rewardProposer);
   `for addr, stake := range proposersStake` addReward(result, account(addr), delta(stake));
   `for addr, stake := range validatorStake` result[addr] = share(stake)            (assignment!) *)
Definition reward_ops (rtag : N) (castor : N * Z) (proposers validators : list (N * Z)) : list op :=
  OAdd (rtag, fst castor) (snd castor)
  :: map (fun e => OAdd (rtag, fst e) (snd e)) proposers
  ++ map (fun e => OSet (rtag, fst e) (snd e)) validators.
Definition reward_result (rtag : N) castor proposers validators (s : store) : store :=
  run_ops (reward_ops rtag castor proposers validators) s.

(* CalculateReward + RefundManager.Add(data): `for addr, money := range total` builds the list (keys
   distinct, so AddRefundInfo appends), then the list is added to the escrow of nextHeight *)
Definition reward_escrow (next : N) (order : list (N * Z)) (s : store) : store :=
  refund_add [(next, order)] s.

(* AccountDB.Finalise (`range accountObjectsDirty`), accountObject.updateTrie (`range dirtyStorage`),
   Commit (sync.Map.Range): each visited key writes its own leaf — a keyed assignment *)
Definition write_leaves (tag : N) (order : list (N * Z)) (s : store) : store :=
  run_ops (map (fun e => OSet (tag, fst e) (snd e)) order) s.

(* ------------------------------------------------------------------------------------------ *)
(* VMExecutor.generateCode (sub-chains): call data of the reward call to the economy contract, as
   32-byte words after the selector:
     account(castor) ; 0x60 ; (4+len(proposals))*32 ; len(proposals) ;
     `for _, addr := range proposals` addr ...  (map order!) ; len(members) ; account(member) ... *)
Definition generate_code (castor_acct : N) (order : list (string * N)) (members : list N) : list N :=
  [castor_acct; 96%N; (N.of_nat (4 + List.length order) * 32)%N; N.of_nat (List.length order)]
  ++ map snd order ++ N.of_nat (List.length members) :: members.
