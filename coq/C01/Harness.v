(* C01 — evaluation of the model on harness-written cases (correspondence check). *)
From Coq Require Import List NArith ZArith String Bool.
From V.Base Require Import Hex.
From V.C01 Require Import Model.
Import ListNotations.

Fixpoint lookupZ (l : list (N * Z)) (a : N) : Z :=
  match l with
  | [] => 0%Z
  | (k, v) :: t => if (a =? k)%N then v else lookupZ t a
  end.

Fixpoint lookup_cell (l : list (N * N * Z)) (c : cell) : Z :=
  match l with
  | [] => 0%Z
  | (h, i, v) :: t => if cell_eqb c (h, i) then v else lookup_cell t c
  end.

Definition optZ_eqb (a b : option Z) : bool :=
  match a, b with
  | Some x, Some y => (x =? y)%Z
  | None, None => true
  | _, _ => false
  end.

Inductive c01case :=
(* service.ChangeAssets(source, targets, state): balances of the involved accounts before; the JSON
   entries (raw key, HexToAddress(key), StrToBigInt(amount) or None) in an arbitrary order; every
   DISTINCT outcome the implementation produced over the repetitions:
   (ok, sender balance named in the response, balances of the involved accounts afterwards) *)
| CTransfer (src : N) (init : list (N * Z)) (tgts : list (string * N * option Z))
            (obs : list (bool * option Z * list (N * Z)))
(* sort.Sort(types.Transactions): (RequestId, Source, hex of common.FromHex(Source), Nonce, hex of Hash) in
   generation order; the hashes (hex) in the order the implementation produced from a shuffle.
   big.Int.SetBytes = big-endian value, computed here. *)
| CSort (txs : list (N * string * string * N * string)) (sorted : list string)
(* RefundManager.Add(data): escrow cells before, data (height, [(id, value)]), cells read back *)
| CRefund (pre : list (N * N * Z)) (data : list (N * list (N * Z))) (obs : list (N * N * Z))
(* CheckAndMove(height): escrow cells of the height (id, value), balances before, balances after, and
   the escrow cells read back afterwards *)
| CMove (due : list (N * Z)) (bal_before bal_after : list (N * Z)) (left_nonzero : N)
(* generateCode: castor account, proposals sorted by key, member accounts, one observed word list *)
| CGenCode (castor : N) (proposals : list (string * N)) (members : list N) (obs : list N).

Definition mk_target (t : string * N * option Z) : target := let '(k, a, v) := t in mkT k a v.
Definition mk_tx (t : N * string * string * N * string) : tx :=
  let '(r, s, sn, n, h) := t in mkTx r s (be_val (unhex sn)) n (be_val (unhex h)).

Definition ca_result_agree (dom : list N) (r1 r2 : ca_result) : bool :=
  match r1, r2 with
  | CAFail, CAFail => true
  | CAOk s1 l1, CAOk s2 l2 => optZ_eqb l1 l2 && forallb (fun a => (s1 a =? s2 a)%Z) dom
  | _, _ => false
  end.

Definition chk_transfer src init tgts (obs : list (bool * option Z * list (N * Z))) : bool :=
  let st0 := lookupZ init in
  let '(st, ok, lft) := transfer_outcome st0 (change_assets_fixed (fun l => l) src (map mk_target tgts) st0) in
  negb (Nat.eqb (List.length obs) 0) &&
  (* kernel-evaluated instance of C01_change_assets_order_indep on this input: a second oracle *)
  ca_result_agree (map fst init) (change_assets_fixed (fun l => l) src (map mk_target tgts) st0)
                                 (change_assets_fixed (@rev target) src (map mk_target tgts) st0) &&
  forallb (fun o : bool * option Z * list (N * Z) =>
             let '(ok', left', finals) := o in
             Bool.eqb ok ok' && (if ok then optZ_eqb lft left' else true) &&
             forallb (fun av : N * Z => (st (fst av) =? snd av)%Z) finals) obs.

(* decidable form of the admissibility guard of the sorting theorems (SortProofs.txs_ok);
   soundness: HarnessProofs.txs_okb_sound *)
Fixpoint nodupb (l : list N) : bool :=
  match l with
  | [] => true
  | x :: t => negb (existsb (N.eqb x) t) && nodupb t
  end.
Definition tx_eqb (a b : tx) : bool :=
  (x_req a =? x_req b)%N && String.eqb (x_source a) (x_source b) && (x_srcnum a =? x_srcnum b)%N
  && (x_nonce a =? x_nonce b)%N && (x_hash a =? x_hash b)%N.
Definition txs_okb (l : list tx) : bool :=
  nodupb (map x_hash l) &&
  forallb (fun a => forallb (fun b =>
     Bool.eqb (String.eqb (x_source a) (x_source b)) (x_srcnum a =? x_srcnum b)%N &&
     implb ((x_req a =? x_req b)%N && negb (x_req a =? 0)%N) (tx_eqb a b)) l) l.

(* the list is admissible, the implementation's order is the model's, and (instance of the uniqueness
   theorem) sorting the reversed list gives the same result *)
Definition chk_sort (txs : list (N * string * string * N * string)) (sorted : list string) : bool :=
  let l := map mk_tx txs in
  let want := map (fun h => be_val (unhex h)) sorted in
  txs_okb l &&
  (if list_eq_dec N.eq_dec (map x_hash (sort_txs l)) want then true else false) &&
  (if list_eq_dec N.eq_dec (map x_hash (sort_txs (rev l))) want then true else false).

Definition chk_refund pre data (obs : list (N * N * Z)) : bool :=
  let s := refund_add data (lookup_cell pre) in
  forallb (fun o : N * N * Z => let '(h, i, v) := o in (s (h, i) =? v)%Z) obs.

(* balances under tag 0, the escrow of the height under tag 1 *)
Definition chk_move (due bal_before bal_after : list (N * Z)) (left_nonzero : N) : bool :=
  let s0 : store := fun c => if (fst c =? 0)%N then lookupZ bal_before (snd c) else lookupZ due (snd c) in
  let s := check_and_move 0 1 due s0 in
  forallb (fun av : N * Z => (s (0%N, fst av) =? snd av)%Z) bal_after &&
  forallb (fun av : N * Z => (s (1%N, fst av) =? 0)%Z) due && (left_nonzero =? 0)%N.

Definition N_list_eqb (a b : list N) : bool := if list_eq_dec N.eq_dec a b then true else false.

Definition chk_gencode castor (proposals : list (string * N)) members (obs : list N) : bool :=
  let m := generate_code castor proposals members in
  let n := List.length proposals in
  N_list_eqb (firstn 4 obs) (firstn 4 m) &&
  N_list_eqb (skipn (4 + n) obs) (skipn (4 + n) m) &&
  N_list_eqb (isort N.ltb (firstn n (skipn 4 obs))) (isort N.ltb (map snd proposals)).

Definition check (c : c01case) : bool :=
  match c with
  | CTransfer src init tgts obs => chk_transfer src init tgts obs
  | CSort txs sorted => chk_sort txs sorted
  | CRefund pre data obs => chk_refund pre data obs
  | CMove due b0 b1 nz => chk_move due b0 b1 nz
  | CGenCode c p m o => chk_gencode c p m o
  end.
