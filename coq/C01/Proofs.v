(* C01 — proofs about the order-sensitive pieces: ChangeAssets (refuted as written, order independent
   once the keys are sorted, and as written when no target aliases the sender), commutative keyed
   accumulations (refund escrow, reward maps, CheckAndMove, trie leaf writes). *)
From Coq Require Import List NArith ZArith String Bool Permutation Sorted Lia.
From V.C01 Require Import Model SortProofs.
Import ListNotations.

Definition perm_oracle {A} (omega : list A -> list A) : Prop := forall l, Permutation (omega l) l.

(* ========================================================================================== *)
(* ChangeAssets                                                                                 *)
Definition bal_eq (s1 s2 : bal) : Prop := forall a, s1 a = s2 a.

Definition ca_eq (r1 r2 : ca_result) : Prop :=
  match r1, r2 with
  | CAFail, CAFail => True
  | CAOk s1 l1, CAOk s2 l2 => bal_eq s1 s2 /\ l1 = l2
  | _, _ => False
  end.

Lemma ca_eq_refl : forall r, ca_eq r r.
Proof. destruct r; cbn; auto. split; [intro; reflexivity|reflexivity]. Qed.

Lemma ca_eq_trans : forall r1 r2 r3, ca_eq r1 r2 -> ca_eq r2 r3 -> ca_eq r1 r3.
Proof.
  destruct r1, r2, r3; cbn; try tauto.
  intros [E1 L1] [E2 L2]. split; [intro a; now rewrite E1|congruence].
Qed.

(* --- the defect: the result of ChangeAssets as written depends on the visiting order --- *)
Definition w_src : addr := 1%N.
Definition w_other : addr := 2%N.
Definition w_state : bal := fun a => if (a =? 1)%N then 10%Z else 0%Z.
Definition w_targets : list target :=
  [mkT "0x0000000000000000000000000000000000000001" w_src (Some 10%Z);
   mkT "0x0000000000000000000000000000000000000002" w_other (Some 5%Z)].

Theorem change_assets_refuted :
  exists (o1 o2 : list target -> list target) src targets st,
    perm_oracle o1 /\ perm_oracle o2 /\ NoDup (map t_key targets) /\
    (exists st' l, change_assets o1 src targets st = CAOk st' l) /\
    change_assets o2 src targets st = CAFail.
Proof.
  exists (fun l => l), (@rev target), w_src, w_targets, w_state.
  split; [intro; reflexivity|]. split; [intro l; apply Permutation_sym, Permutation_rev|].
  split.
  { cbn. repeat constructor; cbn; intuition discriminate. }
  split.
  - eexists _, _. vm_compute. reflexivity.
  - vm_compute. reflexivity.
Qed.

(* --- the repair: sorted-key iteration makes the visiting order irrelevant --- *)
Theorem change_assets_fixed_order_indep : forall o1 o2 src targets st,
  perm_oracle o1 -> perm_oracle o2 -> NoDup (map t_key targets) ->
  change_assets_fixed o1 src targets st = change_assets_fixed o2 src targets st.
Proof.
  intros o1 o2 src targets st P1 P2 Nd. unfold change_assets_fixed.
  assert (E : forall o, perm_oracle o -> isort target_ltb (o targets) = isort target_ltb targets).
  { intros o Po. symmetry. apply isort_unique.
    - now apply target_sto.
    - eapply NoDup_of_map; exact Nd.
    - apply Permutation_sym, Po. }
  now rewrite (E o1 P1), (E o2 P2).
Qed.

(* the repaired loop visits the entries in increasing key order, whatever the runtime does *)
Theorem change_assets_fixed_visits_sorted : forall o targets, perm_oracle o -> NoDup (map t_key targets) ->
  StronglySorted (fun a b => key_ltb (t_key a) (t_key b) = true) (isort target_ltb (o targets))
  /\ Permutation (isort target_ltb (o targets)) targets.
Proof.
  intros o targets Po Nd. split.
  - apply (isort_sorted target_ltb).
    + apply target_sto. eapply Permutation_NoDup; [apply Permutation_map, Permutation_sym, Po|exact Nd].
    + eapply Permutation_NoDup; [apply Permutation_sym, Po|eapply NoDup_of_map; exact Nd].
  - rewrite isort_perm. apply Po.
Qed.

(* --- the code as written is order independent exactly away from the defect: when no target
       address is the sender itself (under any spelling) --- *)
Lemma tb_ext : forall src t st st', bal_eq st st' ->
  match transfer_balance src t st, transfer_balance src t st' with
  | None, None => True
  | Some (s1, l1), Some (s2, l2) => bal_eq s1 s2 /\ l1 = l2
  | _, _ => False
  end.
Proof.
  intros src t st st' E. unfold transfer_balance.
  destruct (t_amt t) as [v|]; [|exact I].
  destruct (v <? 0)%Z; [exact I|].
  rewrite <- (E src). destruct (st src <? v)%Z; [exact I|].
  split.
  - intro a. unfold add_bal. rewrite !E. reflexivity.
  - unfold add_bal. rewrite !E. reflexivity.
Qed.

Lemma ca_loop_ext : forall src l st st' left, bal_eq st st' ->
  ca_eq (ca_loop src l st left) (ca_loop src l st' left).
Proof.
  induction l as [|t rest IH]; intros st st' left E; cbn.
  - split; [exact E|reflexivity].
  - pose proof (tb_ext src t st st' E) as H.
    destruct (transfer_balance src t st) as [[s1 l1]|], (transfer_balance src t st') as [[s2 l2]|]; try tauto.
    destruct H as [Es ->]. now apply IH.
Qed.

Lemma ca_loop_none_in : forall src l st left t, In t l -> t_amt t = None -> ca_loop src l st left = CAFail.
Proof.
  induction l as [|h rest IH]; intros st left t Hin Hn; [contradiction|]. cbn.
  destruct Hin as [->|Hin].
  - unfold transfer_balance. now rewrite Hn.
  - destruct (transfer_balance src h st) as [[s l0]|]; [|reflexivity]. now apply (IH _ _ t).
Qed.

Lemma ca_swap : forall src x y rest st left,
  t_addr x <> src -> t_addr y <> src ->
  ca_eq (ca_loop src (y :: x :: rest) st left) (ca_loop src (x :: y :: rest) st left).
Proof.
  intros src x y rest st left Hx Hy.
  destruct (t_amt x) as [vx|] eqn:Ex;
    [|rewrite !(ca_loop_none_in src _ st left x) by (cbn; auto); exact I].
  destruct (t_amt y) as [vy|] eqn:Ey;
    [|rewrite !(ca_loop_none_in src _ st left y) by (cbn; auto); exact I].
  cbn [ca_loop]. unfold transfer_balance. rewrite Ex, Ey. cbv zeta.
  assert (Sx : forall s : bal, add_bal (add_bal s (t_addr x) vx) src (- vx) src = (s src - vx)%Z).
  { intro s. unfold add_bal. rewrite N.eqb_refl. rewrite (proj2 (N.eqb_neq src (t_addr x))) by congruence. lia. }
  assert (Sy : forall s : bal, add_bal (add_bal s (t_addr y) vy) src (- vy) src = (s src - vy)%Z).
  { intro s. unfold add_bal. rewrite N.eqb_refl. rewrite (proj2 (N.eqb_neq src (t_addr y))) by congruence. lia. }
  destruct (Z.ltb_spec vx 0), (Z.ltb_spec vy 0); cbn [ca_eq].
  - destruct (st src <? vy)%Z; exact I.
  - destruct (st src <? vy)%Z; [exact I|]. exact I.
  - destruct (st src <? vx)%Z; [exact I|]. exact I.
  - destruct (Z.ltb_spec (st src) vy), (Z.ltb_spec (st src) vx); cbn [ca_eq]; auto.
    + rewrite !Sx. destruct (Z.ltb_spec (st src - vx) vy); [exact I|lia].
    + rewrite !Sy. destruct (Z.ltb_spec (st src - vy) vx); [exact I|lia].
    + rewrite !Sx, !Sy.
      destruct (Z.ltb_spec (st src - vy) vx), (Z.ltb_spec (st src - vx) vy); cbn [ca_eq]; auto; try lia.
      repeat (rewrite Sx || rewrite Sy).
      match goal with
      | |- ca_eq (ca_loop _ _ _ (Some ?a)) (ca_loop _ _ _ (Some ?b)) => replace b with a by lia
      end.
      apply ca_loop_ext.
      intro a. unfold add_bal. destruct (a =? src)%N, (a =? t_addr x)%N, (a =? t_addr y)%N; lia.
Qed.

Theorem change_assets_order_indep_no_self : forall src l1 l2 st,
  (forall t, In t l1 -> t_addr t <> src) -> Permutation l1 l2 ->
  ca_eq (ca_loop src l1 st None) (ca_loop src l2 st None).
Proof.
  intros src l1 l2 st G P. revert G st. generalize (@None Z) as left.
  induction P as [|x l l' P IH|x y l|l l' l'' P1 IH1 P2 IH2]; intros left G st.
  - apply ca_eq_refl.
  - cbn. destruct (transfer_balance src x st) as [[s l0]|]; [|exact I].
    apply IH. intros t Ht. apply G. now right.
  - apply ca_swap; apply G; cbn; auto.
  - eapply ca_eq_trans; [apply IH1; exact G|].
    apply IH2. intros t Ht. apply G. eapply Permutation_in; [apply Permutation_sym; exact P1|exact Ht].
Qed.

Corollary change_assets_order_indep_no_self_oracle : forall o1 o2 src targets st,
  perm_oracle o1 -> perm_oracle o2 -> (forall t, In t targets -> t_addr t <> src) ->
  ca_eq (change_assets o1 src targets st) (change_assets o2 src targets st).
Proof.
  intros o1 o2 src targets st P1 P2 G. unfold change_assets.
  apply change_assets_order_indep_no_self.
  - intros t Ht. apply G. eapply Permutation_in; [apply P1|exact Ht].
  - eapply Permutation_trans; [apply P1|apply Permutation_sym, P2].
Qed.

(* ========================================================================================== *)
(* keyed accumulations                                                                          *)
Definition store_eq (s1 s2 : store) : Prop := forall c, s1 c = s2 c.

Lemma cell_eqb_spec : forall a b, reflect (a = b) (cell_eqb a b).
Proof.
  intros [a1 a2] [b1 b2]. unfold cell_eqb; cbn.
  destruct (N.eqb_spec a1 b1), (N.eqb_spec a2 b2); constructor; congruence.
Qed.

Lemma apply_ext : forall s s' o, store_eq s s' -> store_eq (apply_op s o) (apply_op s' o).
Proof. intros s s' [c v|c v] E x; cbn; rewrite E; reflexivity. Qed.

Lemma run_ext : forall l s s', store_eq s s' -> store_eq (run_ops l s) (run_ops l s').
Proof. induction l; intros s s' E; cbn; [exact E|]. apply IHl. now apply apply_ext. Qed.

Definition commute (o1 o2 : op) : Prop :=
  forall s, store_eq (apply_op (apply_op s o1) o2) (apply_op (apply_op s o2) o1).

Lemma commute_same : forall o, commute o o.
Proof. intros o s c. reflexivity. Qed.

Lemma commute_add_add : forall c1 v1 c2 v2, commute (OAdd c1 v1) (OAdd c2 v2).
Proof. intros c1 v1 c2 v2 s x. cbn. destruct (cell_eqb x c1), (cell_eqb x c2); lia. Qed.

Lemma commute_cells : forall o1 o2, op_cell o1 <> op_cell o2 -> commute o1 o2.
Proof.
  intros [c1 v1|c1 v1] [c2 v2|c2 v2] N s x; cbn in *;
    destruct (cell_eqb_spec x c1), (cell_eqb_spec x c2); try reflexivity; congruence.
Qed.

Theorem run_ops_perm : forall l1 l2, Permutation l1 l2 ->
  (forall o1 o2, In o1 l1 -> In o2 l1 -> commute o1 o2) ->
  forall s s', store_eq s s' -> store_eq (run_ops l1 s) (run_ops l2 s').
Proof.
  induction 1 as [|x l l' P IH|x y l|l l' l'' P1 IH1 P2 IH2]; intros C s s' E.
  - exact E.
  - cbn. apply IH; [intros; apply C; now right|now apply apply_ext].
  - cbn. apply run_ext. intro c. rewrite (C y x (or_introl eq_refl) (or_intror (or_introl eq_refl)) s c).
    apply apply_ext, apply_ext, E.
  - intro c. rewrite (IH1 C s s (fun _ => eq_refl) c). apply IH2; [|exact E].
    intros o1 o2 H1 H2. apply C; eapply Permutation_in; try eassumption; now apply Permutation_sym.
Qed.

Lemma run_ops_app : forall l1 l2 s, run_ops (l1 ++ l2) s = run_ops l2 (run_ops l1 s).
Proof. intros. unfold run_ops. apply fold_left_app. Qed.

(* RefundManager.Add: the escrow after adding is the same for every visiting order of the heights *)
Theorem refund_add_order_indep : forall d1 d2 s, Permutation d1 d2 ->
  store_eq (refund_add d1 s) (refund_add d2 s).
Proof.
  intros d1 d2 s P. unfold refund_add. apply run_ops_perm.
  - now apply Permutation_flat_map.
  - intros o1 o2 H1 H2. apply in_flat_map in H1 as (e1 & _ & H1). apply in_flat_map in H2 as (e2 & _ & H2).
    unfold refund_ops in *. apply in_map_iff in H1 as (? & <- & _). apply in_map_iff in H2 as (? & <- & _).
    apply commute_add_add.
  - intro; reflexivity.
Qed.

(* CalculateReward: the reward list is built in map order and added to one escrow *)
Theorem reward_escrow_order_indep : forall next o1 o2 s, Permutation o1 o2 ->
  store_eq (reward_escrow next o1 s) (reward_escrow next o2 s).
Proof.
  intros next o1 o2 s P. unfold reward_escrow, refund_add. cbn [flat_map]. rewrite !app_nil_r.
  apply run_ops_perm.
  - unfold refund_ops. cbn. now apply Permutation_map.
  - intros a b H1 H2. unfold refund_ops in *. apply in_map_iff in H1 as (? & <- & _). apply in_map_iff in H2 as (? & <- & _).
    apply commute_add_add.
  - intro; reflexivity.
Qed.

(* CheckAndMove: pay out and clear, any visiting order *)
Theorem check_and_move_order_indep : forall btag racct l1 l2 s, btag <> racct -> Permutation l1 l2 ->
  store_eq (check_and_move btag racct l1 s) (check_and_move btag racct l2 s).
Proof.
  intros btag racct l1 l2 s N P. unfold check_and_move. apply run_ops_perm.
  - now apply Permutation_flat_map.
  - intros a b H1 H2. apply in_flat_map in H1 as (e1 & _ & H1). apply in_flat_map in H2 as (e2 & _ & H2).
    cbn in H1, H2. destruct H1 as [<-|[<-|[]]], H2 as [<-|[<-|[]]].
    + apply commute_add_add.
    + apply commute_cells. cbn. congruence.
    + apply commute_cells. cbn. congruence.
    + destruct (N.eq_dec (fst e1) (fst e2)) as [->|D]; [apply commute_same|apply commute_cells; cbn; congruence].
  - intro; reflexivity.
Qed.

(* calculateRewardPerBlock: accumulate over proposers in any order, then assign over validators in any
   order (validator accounts are map keys: distinct) *)
Theorem reward_result_order_indep : forall rtag castor p1 p2 v1 v2 s,
  Permutation p1 p2 -> Permutation v1 v2 -> NoDup (map fst v1) ->
  store_eq (reward_result rtag castor p1 v1 s) (reward_result rtag castor p2 v2 s).
Proof.
  intros rtag castor p1 p2 v1 v2 s Pp Pv Nd. unfold reward_result, reward_ops. cbn [run_ops fold_left].
  fold (run_ops (map (fun e => OAdd (rtag, fst e) (snd e)) p1 ++ map (fun e => OSet (rtag, fst e) (snd e)) v1) (apply_op s (OAdd (rtag, fst castor) (snd castor)))).
  fold (run_ops (map (fun e => OAdd (rtag, fst e) (snd e)) p2 ++ map (fun e => OSet (rtag, fst e) (snd e)) v2) (apply_op s (OAdd (rtag, fst castor) (snd castor)))).
  rewrite !run_ops_app.
  apply run_ops_perm.
  - now apply Permutation_map.
  - intros a b H1 H2. apply in_map_iff in H1 as (e1 & <- & I1). apply in_map_iff in H2 as (e2 & <- & I2).
    destruct (N.eq_dec (fst e1) (fst e2)) as [E|D].
    + assert (e1 = e2) by (eapply NoDup_map_inj; eassumption). subst. apply commute_same.
    + apply commute_cells. cbn. congruence.
  - apply run_ops_perm.
    + now apply Permutation_map.
    + intros a b H1 H2. apply in_map_iff in H1 as (? & <- & _). apply in_map_iff in H2 as (? & <- & _). apply commute_add_add.
    + intro; reflexivity.
Qed.

(* Finalise / updateTrie / Commit: every dirty key writes its own leaf *)
Theorem write_leaves_order_indep : forall tag l1 l2 s, NoDup (map fst l1) -> Permutation l1 l2 ->
  store_eq (write_leaves tag l1 s) (write_leaves tag l2 s).
Proof.
  intros tag l1 l2 s Nd P. unfold write_leaves. apply run_ops_perm.
  - now apply Permutation_map.
  - intros a b H1 H2. apply in_map_iff in H1 as (e1 & <- & I1). apply in_map_iff in H2 as (e2 & <- & I2).
    destruct (N.eq_dec (fst e1) (fst e2)) as [E|D].
    + assert (e1 = e2) by (eapply NoDup_map_inj; eassumption). subst. apply commute_same.
    + apply commute_cells. cbn. congruence.
  - intro; reflexivity.
Qed.

(* assignments to one cell do NOT commute: the guard (distinct keys) is needed *)
Example write_leaves_guard_needed :
  exists l1 l2 s, Permutation l1 l2 /\ ~ store_eq (write_leaves 0 l1 s) (write_leaves 0 l2 s).
Proof.
  exists [(1%N, 1%Z); (1%N, 2%Z)], [(1%N, 2%Z); (1%N, 1%Z)], (fun _ => 0%Z).
  split; [apply perm_swap|]. intro C. specialize (C (0%N, 1%N)). vm_compute in C. discriminate.
Qed.

(* ========================================================================================== *)
(* VMExecutor.generateCode (sub-chain reward call data)                                         *)

(* the defect: the byte string handed to the economy contract depends on the visiting order *)
Theorem generate_code_refuted :
  exists (o1 o2 : list (string * N) -> list (string * N)) castor props members,
    perm_oracle o1 /\ perm_oracle o2 /\ NoDup (map fst props) /\
    generate_code castor (o1 props) members <> generate_code castor (o2 props) members.
Proof.
  exists (fun l => l), (@rev (string * N)), 7%N, [("0x51"%string, 1%N); ("0x52"%string, 2%N)], [9%N].
  split; [intro; reflexivity|]. split; [intro l; apply Permutation_sym, Permutation_rev|].
  split.
  - cbn. repeat constructor; cbn; intuition discriminate.
  - vm_compute. discriminate.
Qed.

(* what IS order independent: everything but the address segment, which varies as a permutation *)
Theorem generate_code_only_segment_varies : forall castor l1 members,
  exists pre post, forall l2, Permutation l1 l2 ->
    generate_code castor l2 members = pre ++ map snd l2 ++ post /\ Permutation (map snd l1) (map snd l2).
Proof.
  intros castor l1 members.
  exists [castor; 96%N; (N.of_nat (4 + List.length l1) * 32)%N; N.of_nat (List.length l1)], (N.of_nat (List.length members) :: members).
  intros l2 P. split; [|now apply Permutation_map].
  unfold generate_code. now rewrite (Permutation_length P).
Qed.

(* the repair that would remove the finding: visit the proposals in increasing key order *)
Definition pair_ltb (a b : string * N) : bool := key_ltb (fst a) (fst b).

Lemma pair_sto : forall l, NoDup (map fst l) -> sto_on pair_ltb l.
Proof.
  intros l Nd. constructor; unfold pair_ltb.
  - intros. apply key_ltb_irrefl.
  - intros. eapply key_ltb_trans; eassumption.
  - intros a b Ha Hb. destruct (key_ltb_total (fst a) (fst b)) as [E|[L|G]]; auto.
    left. eapply NoDup_map_inj; eassumption.
Qed.

Theorem generate_code_sorted_order_indep : forall o1 o2 castor props members,
  perm_oracle o1 -> perm_oracle o2 -> NoDup (map fst props) ->
  generate_code castor (isort pair_ltb (o1 props)) members = generate_code castor (isort pair_ltb (o2 props)) members.
Proof.
  intros o1 o2 castor props members P1 P2 Nd.
  assert (E : forall o, perm_oracle o -> isort pair_ltb (o props) = isort pair_ltb props).
  { intros o Po. symmetry. apply isort_unique.
    - now apply pair_sto.
    - eapply NoDup_of_map; exact Nd.
    - apply Permutation_sym, Po. }
  now rewrite (E o1 P1), (E o2 P2).
Qed.
