(* C01 — coverage table for the generated nondeterminism inventory (Gen.v / cases_gen.v).
   Every site the scanner finds in a function reachable from block execution must appear here with the
   reason why it cannot change the block outcome (state root, receipts, evicted list) — or with the
   finding it is. A new map range / goroutine / clock read in the execution path, a changed operand,
   a write to a long-lived object (process-local memo state: "singleton-write"),
   or a removed sort after a keys-only range is a site that is not in this table: the obligation
   [uncovered inventory = []] (Props.v for the checked-in snapshot, cases_gen.v for the sources under
   test on every run) then fails. *)
From Coq Require Import List String Bool.
From V.C01 Require Import Inventory.
Import ListNotations.
Open Scope string_scope.

Definition covered_with_reason : list (site * string) := [
  (S "src/core/vmexecutor.go" "VMExecutor.Execute" "time" "utility.GetTime",
   "casting only (situation = casting): start of the proposer's time budget; a verifier never takes this branch");
  (S "src/core/vmexecutor.go" "VMExecutor.Execute" "time" "utility.GetTime #2",
   "casting only: the proposer stops adding transactions after 3 s; which transactions were executed is part of the block the proposer signs, verifiers execute that list without the clock");
  (S "src/core/vmexecutor.go" "VMExecutor.Execute" "time" "utility.GetTime #3",
   "logging only (PerfLogger)");
  (S "src/core/vmexecutor_sub.go" "VMExecutor.generateCode" "map-range" "proposals : map[string]common.Address",
   "KNOWN FINDING C01/nondeterminism:generateCode-map-order (sub-chains only): the address array of the reward call data is emitted in map order (Proofs.generate_code_refuted); only the multiset is order independent (generate_code_perm)");
  (S "src/service/game.go" "ChangeAssets" "map-range" "targets : map[string]types.TransferData => keys only, collected into addresses, then sort.Strings(addresses)",
   "keys collected then sorted before use (Proofs.change_assets_fixed_order_indep; the loop as it was before the repair is refuted: change_assets_refuted)");
  (S "src/service/refund_manager.go" "RefundManager.Add" "map-range" "data : map[uint64]types.RefundInfoList",
   "commutative accumulation into per-(height,id) escrow cells (Proofs.refund_add_order_indep)");
  (S "src/service/refund_manager.go" "RefundManager.CheckAndMove" "map-range" "refundList : map[common.Address]*big.Int",
   "AddBalance is a commutative accumulation, RemoveData clears the entry's own cell (Proofs.check_and_move_order_indep)");
  (S "src/service/reward_calculator.go" "RewardCalculator.CalculateReward" "map-range" "total : map[common.Address]*big.Int",
   "builds a list that is only ever added to one escrow: commutative accumulation (Proofs.reward_escrow_order_indep)");
  (S "src/service/reward_calculator.go" "RewardCalculator.calculateRewardPerBlock" "map-range" "proposersStake : map[string]uint64",
   "addReward is a commutative accumulation (Proofs.reward_result_order_indep)");
  (S "src/service/reward_calculator.go" "RewardCalculator.calculateRewardPerBlock" "map-range" "validatorStake : map[common.Address]uint64",
   "assignment to the entry's own key, keys distinct, after all accumulation (Proofs.reward_result_order_indep)");
  (S "src/storage/account/account_object.go" "accountObject.updateTrie" "map-range" "ao.dirtyStorage : account.Storage",
   "each dirty slot writes its own trie leaf (Proofs.write_leaves_order_indep); the trie root is a function of the leaf content");
  (S "src/storage/account/account_object_tuntun.go" "accountObject.getAllRefund" "map-range" "c.cachedStorage : account.Storage",
   "copies entries into a result map under their own key (Proofs.write_leaves_order_indep); escrow keys are 20-byte account addresses");
  (S "src/storage/account/accountdb.go" "AccountDB.Commit" "syncmap-range" "adb.accountObjects.Range",
   "each dirty account writes its own leaf of the account trie (Proofs.write_leaves_order_indep); order matters only for which database error is reported first");
  (S "src/storage/account/accountdb.go" "AccountDB.Finalise" "map-range" "adb.accountObjectsDirty : map[common.Address]struct{}",
   "each dirty account updates or deletes its own leaf of the account trie (Proofs.write_leaves_order_indep)");
  (S "src/core/blockchain.go" "blockChain.QueryBlockHeaderByHeight" "local-store-result-used" "chain.heightDB.Get(..) : db.Database.Get",
   "BLOCKHASH source of situations fullverify/casting: the main chain's height index. A block is verified/cast on top of the local chain (PreHash = top), so the index below it holds the block's canonical ancestors; the harness executes through this real context and checks the stored hashes against the ancestors it put there (C01/chain-context:main)");
  (S "src/core/blockchain.go" "blockChain.QueryBlockHeaderByHeight" "local-store-result-used" "core.blockChain : chain.topBlocks.Get(..)",
   "write-through LRU of the height index keyed by height: filled by addBlockOnChain with the header it indexes, dropped by remove for the height it unindexes; same answers as the index");
  (S "src/core/fork_block.go" "blockChainFork.getBlock" "local-store-result-used" "fork.db.Get(..) : db.Database.Get",
   "BLOCKHASH source of situation fork: the sync session's fork DB in front of the main chain. Correct only while the fork DB holds exactly the current session's branch (refreshBlockForkDB / destroy); searched on every run: blocks executed as fork after abandoned sessions must give the outcome of a node whose main chain is the block's ancestor chain (C01/chain-context:fork-vs-verify)");
  (S "src/core/fork_group.go" "groupChainFork.getGroupById" "local-store-result-used" "fork.db.Get(..) : db.Database.Get",
   "verify group of the block during fork sync (reward shares): group data is consensus-replicated outside the account state (group chain, properties C13/C19); the harness supplies the group through stubs");
  (S "src/core/groupchain.go" "groupChain.getGroupByHeight" "local-store-result-used" "chain.groups.Get(..) : db.Database.Get",
   "group chain store: consensus-replicated group data outside the account state (C19: the store is a function of the accepted group history)");
  (S "src/core/groupchain.go" "groupChain.getGroupById" "local-store-result-used" "chain.groups.Get(..) : db.Database.Get",
   "group chain store: consensus-replicated group data outside the account state (C19: the store is a function of the accepted group history)");
  (S "src/storage/account/accountdatasource.go" "storageDB.ContractCode" "local-store-result-used" "account.storageDB : db.codeCache.Get(..)",
   "read side of the content-addressed code cache (key = code hash)");
  (S "src/storage/account/accountdatasource.go" "storageDB.ContractCodeSize" "local-store-result-used" "account.storageDB : db.codeSizeCache.Get(..)",
   "read side of the content-addressed code size cache (key = code hash)");
  (S "src/storage/account/accountdatasource.go" "storageDB.ContractCode" "singleton-write" "account.storageDB : call db.codeCache.Set",
   "process-local cache keyed by the FULL content: key = code hash, value = the code with that hash read from the node store; a hit returns what the store would return");
  (S "src/storage/account/accountdatasource.go" "storageDB.ContractCode" "singleton-write" "account.storageDB : call db.codeSizeCache.Add",
   "process-local cache keyed by the FULL content: key = code hash, value = length of the code with that hash");
  (S "src/storage/account/accountdb_eth.go" "AccountDB.GetERC20Binding" "process-global-read" "account.rpgContractAddress",
   "read side of the write-once cache of the native token binding (see the global-write site): zero until loaded from the state, then the genesis value");
  (S "src/storage/account/accountdb_eth.go" "AccountDB.loadContractCache" "process-global-read" "account.rpgContractAddress",
   "the left side of the cache assignment (the scanner counts every mention of the variable)");
  (S "src/storage/account/accountdb_eth.go" "AccountDB.loadContractCache" "global-write" "account.rpgContractAddress via rpgContractAddress",
   "write-once cache of the native token binding, a value fixed at genesis (AddERC20Binding refuses to overwrite an existing binding)")
].

Definition covered : list site := map fst covered_with_reason.

(* process-global-read sites are classified by rule, not one by one:
   - network configuration and proposal gates (common.IsProposalNNN, IsSub, IsMainnet, reward/refund/epoch
     block counts, chain id): ASSUMED equal on the replicas that execute the same block. The gates read the
     node's own head height (common.GetBlockHeight), which equals header.Height-1 when a block is verified
     on top of the chain; that it is the head and not the block's height is KNOWN FINDING
     C01/process-global:proposal-gate-reads-head, quantified on every run (activation height moved between
     block and head, one gate at a time). A DIRECT read of the head height (common.GetBlockHeight) is not
     in this class: it is a new site.
   - package-level variables that no function reachable from block execution assigns (no global-write site
     for them in the same inventory): initialised once, constants in all but the keyword. *)
Definition gate_names : list string :=
  ["common.IsSub"; "common.IsMainnet"; "common.IsRobin"; "common.IsDEV"; "common.GetRewardBlocks";
   "common.GetRefundBlocks"; "common.GetBlocksPerEpoch"; "common.GetChainId"; "common.ChainId"; "common.NetworkId"; "common.MainNodeContract"].
Definition is_gate (d : string) : bool :=
  prefix "common.IsProposal" d || existsb (String.eqb d) gate_names.
(* node-LOCAL readers are never covered by rule: the head height and the node's role (full node / miner
   node, a start-up flag) differ between replicas of one chain *)
Definition is_reader_call (d : string) : bool :=
  is_gate d || String.eqb d "common.GetBlockHeight" || String.eqb d "common.IsFullNode".
Definition written_in (inv : list site) (d : string) : bool :=
  existsb (fun w => String.eqb (s_kind w) "global-write" && prefix (d ++ " via ") (s_detail w)) inv.
Definition rule_covered (inv : list site) (s : site) : bool :=
  String.eqb (s_kind s) "process-global-read" &&
  (is_gate (s_detail s) || (negb (is_reader_call (s_detail s)) && negb (written_in inv (s_detail s)))).

Definition uncovered (inv : list site) : list site :=
  filter (fun s => negb (mem s covered || rule_covered inv s)) inv.
(* table entries that no longer correspond to a site (stale reasons) *)
Definition stale (inv : list site) : list site := uncovered_in inv covered.
