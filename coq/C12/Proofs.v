(* C12 proofs, part 1: the journal. Undoing the entries a primitive appended restores the data
   (pointwise), hence RevertToSnapshot restores the data of the moment of the Snapshot. *)
From Coq Require Import List NArith Arith Bool Lia.
From V.C12 Require Import Model.
Import ListNotations.
Local Open Scope N_scope.

(* ---------- pointwise equality of data ---------- *)
Record deq (d d' : data) : Prop := mkDeq {
  q_objs : forall a, objs d a = objs d' a;
  q_stor : forall a k, stor d a k = stor d' a k;
  q_bal : forall a, bal d a = bal d' a;
  q_tstor : forall a k, tstor d a k = tstor d' a k;
  q_acl : forall a, acl d a = acl d' a;
  q_refund : refund d = refund d';
  q_logs : forall h, logs d h = logs d' h;
  q_logsize : logsize d = logsize d' }.

Lemma deq_refl d : deq d d.
Proof. constructor; reflexivity. Qed.

Lemma deq_sym d d' : deq d d' -> deq d' d.
Proof. intros []; constructor; intros; symmetry; auto. Qed.

Lemma deq_trans d1 d2 d3 : deq d1 d2 -> deq d2 d3 -> deq d1 d3.
Proof. intros [] []; constructor; intros; etransitivity; eauto. Qed.

Ltac upd_solve :=
  intros; cbn; unfold upd, upd2; cbn;
  repeat match goal with
         | |- context [N.eqb ?x ?y] => destruct (N.eqb_spec x y); subst; cbn
         end; try congruence; auto.

Lemma undo_proper e d d' : deq d d' -> deq (undo e d) (undo e d').
Proof.
  intros H. pose proof H as [Ho Hs Hb Ht Ha Hr Hl Hz].
  destruct e; cbn; unfold on_obj.
  - constructor; cbn; auto. upd_solve.
  - rewrite <- (Ho a). destruct (objs d a); auto.
    constructor; cbn; auto; upd_solve.
  - rewrite <- (Ho a). destruct (objs d a); auto. constructor; cbn; auto; upd_solve.
  - constructor; cbn; auto; upd_solve.
  - rewrite <- (Ho a). destruct (objs d a); auto. constructor; cbn; auto; upd_solve.
  - constructor; cbn; auto; upd_solve.
  - constructor; cbn; auto.
  - constructor; cbn; auto; try congruence. intros h0. unfold upd. rewrite (Hl h). destruct (h0 =? h); auto.
  - constructor; cbn; auto; upd_solve.
  - constructor; cbn; auto; upd_solve.
Qed.

Lemma undo_list_proper es : forall d d', deq d d' -> deq (undo_list es d) (undo_list es d').
Proof. induction es; cbn; intros; auto using undo_proper. Qed.

Lemma undo_list_app e1 e2 d : undo_list (e1 ++ e2) d = undo_list e2 (undo_list e1 d).
Proof. revert d; induction e1; cbn; intros; auto. Qed.

(* ---------- every primitive is undone by its own entries ---------- *)
Definition prim_ok (p : prim) : Prop := forall d es d', p d = (es, d') -> deq (undo_list es d') d.

Lemma set_objs_same d a : deq (set_objs d (upd (objs d) a (objs d a))) d.
Proof. constructor; cbn; auto. upd_solve. Qed.

Lemma get_or_new_ok a : prim_ok (get_or_new a).
Proof.
  intros d es d'. unfold get_or_new. destruct (objs d a) eqn:E; intros H; inversion H; subst; cbn.
  - apply deq_refl.
  - constructor; cbn; auto. upd_solve.
Qed.

Lemma get_or_new_exists a d es d' : get_or_new a d = (es, d') -> exists o, objs d' a = Some o.
Proof.
  unfold get_or_new. destruct (objs d a) eqn:E; intros H; inversion H; subst; cbn; eauto.
  unfold upd. rewrite N.eqb_refl. eauto.
Qed.

Lemma set_nonce_ok a n : prim_ok (set_nonce a n).
Proof.
  intros d es d'. unfold set_nonce. destruct (get_or_new a d) as [es1 d1] eqn:G.
  intros H; inversion H; subst; clear H. cbn [undo_list].
  destruct (get_or_new_exists _ _ _ _ G) as [o Ho].
  eapply deq_trans; [apply undo_list_proper | eapply get_or_new_ok; eauto].
  unfold undo, on_obj, nonce_of. rewrite Ho. cbn. unfold upd at 1. rewrite N.eqb_refl.
  constructor; cbn; auto. destruct o; upd_solve.
Qed.

Lemma set_code_ok a c : prim_ok (set_code a c).
Proof.
  intros d es d'. unfold set_code. destruct (get_or_new a d) as [es1 d1] eqn:G.
  intros H; inversion H; subst; clear H. cbn [undo_list].
  destruct (get_or_new_exists _ _ _ _ G) as [o Ho].
  eapply deq_trans; [apply undo_list_proper | eapply get_or_new_ok; eauto].
  unfold undo, on_obj, code_of. rewrite Ho. cbn. unfold upd at 1. rewrite N.eqb_refl.
  constructor; cbn; auto. destruct o; upd_solve.
Qed.

Lemma set_state_ok a k v : prim_ok (set_state a k v).
Proof.
  intros d es d'. unfold set_state. destruct (get_or_new a d) as [es1 d1] eqn:G.
  destruct (stor d1 a k =? v) eqn:E; intros H; inversion H; subst; clear H.
  - eapply get_or_new_ok; eauto.
  - cbn [undo_list]. eapply deq_trans; [apply undo_list_proper | eapply get_or_new_ok; eauto].
    constructor; cbn; auto. intros a0 k0. unfold upd2.
    destruct (N.eqb_spec a0 a); destruct (N.eqb_spec k0 k); subst; cbn; auto.
Qed.

Lemma sub_balance_ok a v : prim_ok (sub_balance a v).
Proof.
  intros d es d'. unfold sub_balance.
  destruct (bal d a <? v); [intros H; inversion H; subst; apply deq_refl|].
  destruct (v =? 0); intros H; inversion H; subst; cbn; [apply deq_refl|].
  constructor; cbn; auto. upd_solve.
Qed.

Lemma add_balance_ok a v : prim_ok (add_balance a v).
Proof.
  intros d es d'. unfold add_balance.
  destruct (v =? 0); intros H; inversion H; subst; cbn; [apply deq_refl|].
  constructor; cbn; auto. upd_solve.
Qed.

Lemma suicide_ok a : prim_ok (suicide a).
Proof.
  intros d es d'. unfold suicide. destruct (objs d a) eqn:E; intros H; inversion H; subst; cbn; [|apply deq_refl].
  unfold upd at 1. rewrite N.eqb_refl. cbn.
  constructor; cbn; auto; destruct a0; upd_solve.
Qed.

Lemma add_refund_ok g : prim_ok (add_refund g).
Proof. intros d es d' H; inversion H; subst; cbn. constructor; cbn; auto. Qed.

Lemma add_log_ok h l : prim_ok (add_log h l).
Proof.
  intros d es d' H; inversion H; subst; cbn. constructor; cbn; auto; try lia.
  intros h0. unfold upd. destruct (N.eqb_spec h0 h); subst; auto.
  rewrite N.eqb_refl. apply removelast_last.
Qed.

Lemma acl_add_ok a : prim_ok (acl_add a).
Proof.
  intros d es d'. unfold acl_add. destruct (acl d a) eqn:E; intros H; inversion H; subst; cbn; [apply deq_refl|].
  constructor; cbn; auto. upd_solve.
Qed.

Lemma set_transient_ok a k v : prim_ok (set_transient a k v).
Proof.
  intros d es d'. unfold set_transient. destruct (tstor d a k =? v); intros H; inversion H; subst; cbn; [apply deq_refl|].
  constructor; cbn; auto. intros a0 k0. unfold upd2.
  destruct (N.eqb_spec a0 a); destruct (N.eqb_spec k0 k); subst; cbn; auto.
Qed.

Lemma seqp_ok p q : prim_ok p -> prim_ok q -> prim_ok (seqp p q).
Proof.
  intros Hp Hq d es d'. unfold seqp. destruct (p d) as [e1 d1] eqn:P. destruct (q d1) as [e2 d2] eqn:Q.
  intros H; inversion H; subst. rewrite undo_list_app.
  eapply deq_trans; [apply undo_list_proper; eapply Hq; eauto | eapply Hp; eauto].
Qed.

Lemma transfer_ok a b v : prim_ok (transfer a b v).
Proof. apply seqp_ok; [apply sub_balance_ok | apply add_balance_ok]. Qed.

(* primitives other than add_log leave every log list alone; add_log touches the list of its hash only *)
Definition keeps_logs (th : N) (p : prim) : Prop :=
  forall d es d', p d = (es, d') -> forall h, h <> th -> logs d' h = logs d h.

Lemma kl_get_or_new th a : keeps_logs th (get_or_new a).
Proof. intros d es d'. unfold get_or_new. destruct (objs d a); intros H; inversion H; subst; auto. Qed.
Lemma kl_set_nonce th a n : keeps_logs th (set_nonce a n).
Proof.
  intros d es d'. unfold set_nonce. destruct (get_or_new a d) as [e1 d1] eqn:G. intros H; inversion H; subst.
  intros h Hh. unfold on_obj. destruct (objs d1 a); cbn; eapply kl_get_or_new; eauto.
Qed.
Lemma kl_set_code th a n : keeps_logs th (set_code a n).
Proof.
  intros d es d'. unfold set_code. destruct (get_or_new a d) as [e1 d1] eqn:G. intros H; inversion H; subst.
  intros h Hh. unfold on_obj. destruct (objs d1 a); cbn; eapply kl_get_or_new; eauto.
Qed.
Lemma kl_set_state th a k v : keeps_logs th (set_state a k v).
Proof.
  intros d es d'. unfold set_state. destruct (get_or_new a d) as [e1 d1] eqn:G.
  destruct (stor d1 a k =? v); intros H; inversion H; subst; intros h Hh; cbn; eapply kl_get_or_new; eauto.
Qed.
Lemma kl_sub_balance th a v : keeps_logs th (sub_balance a v).
Proof. intros d es d'. unfold sub_balance. destruct (bal d a <? v); [|destruct (v =? 0)]; intros H; inversion H; subst; auto. Qed.
Lemma kl_add_balance th a v : keeps_logs th (add_balance a v).
Proof. intros d es d'. unfold add_balance. destruct (v =? 0); intros H; inversion H; subst; auto. Qed.
Lemma kl_suicide th a : keeps_logs th (suicide a).
Proof. intros d es d'. unfold suicide. destruct (objs d a); intros H; inversion H; subst; auto. Qed.
Lemma kl_add_refund th g : keeps_logs th (add_refund g).
Proof. intros d es d' H; inversion H; subst; auto. Qed.
Lemma kl_add_log th l : keeps_logs th (add_log th l).
Proof. intros d es d' H; inversion H; subst; cbn. intros h Hh. unfold upd. destruct (N.eqb_spec h th); congruence. Qed.
Lemma kl_acl_add th a : keeps_logs th (acl_add a).
Proof. intros d es d'. unfold acl_add. destruct (acl d a); intros H; inversion H; subst; auto. Qed.
Lemma kl_set_transient th a k v : keeps_logs th (set_transient a k v).
Proof. intros d es d'. unfold set_transient. destruct (tstor d a k =? v); intros H; inversion H; subst; auto. Qed.
Lemma kl_seqp th p q : keeps_logs th p -> keeps_logs th q -> keeps_logs th (seqp p q).
Proof.
  intros Hp Hq d es d'. unfold seqp. destruct (p d) as [e1 d1] eqn:P. destruct (q d1) as [e2 d2] eqn:Q.
  intros H; inversion H; subst. intros h Hh. rewrite (Hq _ _ _ Q h Hh). eapply Hp; eauto.
Qed.
Lemma kl_transfer th a b v : keeps_logs th (transfer a b v).
Proof. apply kl_seqp; [apply kl_sub_balance | apply kl_add_balance]. Qed.

Ltac splits := repeat match goal with |- _ /\ _ => split end.

(* ---------- states ---------- *)
Definition wf (s : state) : Prop := Forall (fun p => fst p < next_rev s) (revs s).

(* s' extends s: the journal grew by entries whose undo restores the data of s, the revision stack grew by
   newer revisions only *)
Definition ext (s s' : state) : Prop :=
  exists es rs,
    journal s' = es ++ journal s /\ revs s' = rs ++ revs s /\
    Forall (fun p => next_rev s <= fst p) rs /\ next_rev s <= next_rev s' /\
    deq (undo_list es (dat s')) (dat s) /\ thash s' = thash s /\ txindex s' = txindex s.

(* the failed-frame relation: nothing but the revision counter (and the address oracle) moved *)
Definition noop (s s' : state) : Prop :=
  deq (dat s') (dat s) /\ journal s' = journal s /\ revs s' = revs s /\ next_rev s <= next_rev s' /\
  thash s' = thash s /\ txindex s' = txindex s.

Definition lo (s s' : state) : Prop := forall h, h <> thash s -> logs (dat s') h = logs (dat s) h.

Lemma ext_refl s : ext s s.
Proof. exists [], []. cbn. splits; auto; try lia. apply deq_refl. Qed.

Lemma ext_trans s1 s2 s3 : ext s1 s2 -> ext s2 s3 -> ext s1 s3.
Proof.
  intros (e1 & r1 & J1 & R1 & F1 & N1 & D1 & T1 & I1) (e2 & r2 & J2 & R2 & F2 & N2 & D2 & T2 & I2).
  exists (e2 ++ e1), (r2 ++ r1). splits.
  - rewrite J2, J1, app_assoc; auto.
  - rewrite R2, R1, app_assoc; auto.
  - apply Forall_app; split; auto. eapply Forall_impl; [|exact F2]. cbn; intros; lia.
  - lia.
  - rewrite undo_list_app. eapply deq_trans; [apply undo_list_proper; exact D2 | exact D1].
  - congruence.
  - congruence.
Qed.

Lemma noop_ext s s' : noop s s' -> ext s s'.
Proof. intros (D & J & R & N & T & I). exists [], []. cbn. splits; auto. Qed.

Lemma noop_refl s : noop s s.
Proof. unfold noop; splits; auto; try lia. apply deq_refl. Qed.

Lemma noop_lo s s' : noop s s' -> lo s s'.
Proof. intros (D & _) h _. apply D. Qed.

Lemma lo_refl s : lo s s.
Proof. intros h _; auto. Qed.

Lemma lo_trans s1 s2 s3 : thash s2 = thash s1 -> lo s1 s2 -> lo s2 s3 -> lo s1 s3.
Proof. intros T L1 L2 h Hh. rewrite L2, L1; auto. congruence. Qed.

Lemma push_ext p s : prim_ok p -> ext s (push p s).
Proof.
  intros Hp. unfold push. destruct (p (dat s)) as [es d] eqn:P.
  exists es, []. cbn. splits; auto; try lia.
Qed.

Lemma push_wf p s : wf s -> wf (push p s).
Proof. unfold push. destruct (p (dat s)); auto. Qed.

Lemma push_lo p s : keeps_logs (thash s) p -> lo s (push p s).
Proof. intros Hp h Hh. unfold push. destruct (p (dat s)) as [es d] eqn:P. cbn. eapply Hp; eauto. Qed.

Lemma push_thash p s : thash (push p s) = thash s.
Proof. unfold push. destruct (p (dat s)); auto. Qed.

Lemma snapshot_ext s : ext s (snd (snapshot s)).
Proof.
  exists [], [(next_rev s, length (journal s))]. cbn. splits; auto; try lia.
  - constructor; auto. cbn; lia.
  - apply deq_refl.
Qed.

Lemma snapshot_wf s : wf s -> wf (snd (snapshot s)).
Proof.
  unfold wf; cbn. intros H. constructor; [cbn; lia|]. eapply Forall_impl; [|exact H]. cbn; intros; lia.
Qed.

Lemma find_rev_skip id rs n r :
  Forall (fun p => id < fst p) rs -> find_rev id (rs ++ (id, n) :: r) = Some (n, r).
Proof.
  induction rs as [|[i m] rs IH]; cbn; intros H.
  - rewrite N.eqb_refl; auto.
  - inversion H; subst. cbn in *. destruct (N.eqb_spec i id); [lia|]. auto.
Qed.

(* RevertToSnapshot to a revision taken at s, from any extension of the state right after that Snapshot,
   succeeds and gives back the data, the journal and the revision stack of s *)
Lemma revert_restores s s4 :
  ext (snd (snapshot s)) s4 ->
  exists s5, revert (fst (snapshot s)) s4 = Some s5 /\ noop s s5 /\ oracle s5 = oracle s4.
Proof.
  intros (es & rs & J & R & F & N & D & T & I). cbn in *.
  unfold revert. rewrite R.
  rewrite find_rev_skip by (eapply Forall_impl; [|exact F]; cbn; intros; lia).
  eexists; split; [reflexivity|].
  assert (K : (length (journal s4) - length (journal s))%nat = length es) by (rewrite J, app_length; lia).
  rewrite K. rewrite J. rewrite firstn_app, Nat.sub_diag, firstn_all, firstn_O, app_nil_r.
  rewrite skipn_app, Nat.sub_diag, skipn_all, skipn_O. cbn.
  unfold noop. cbn. splits; auto. lia.
Qed.

Lemma noop_wf s s' : noop s s' -> wf s -> wf s'.
Proof.
  intros (_ & _ & R & N & _) H. unfold wf in *. rewrite R. eapply Forall_impl; [|exact H]. cbn; intros; lia.
Qed.

Lemma noop_trans s1 s2 s3 : noop s1 s2 -> noop s2 s3 -> noop s1 s3.
Proof.
  intros (D1 & J1 & R1 & N1 & T1 & I1) (D2 & J2 & R2 & N2 & T2 & I2).
  unfold noop; splits; try congruence; try lia. eapply deq_trans; eauto.
Qed.

Lemma ext_thash s s' : ext s s' -> thash s' = thash s.
Proof. intros (es & rs & J & R & F & N & D & T & I); auto. Qed.
