(* C12 proofs, part 3: the statements of the property for the interpreter [run] and for transactions. *)
From Coq Require Import List NArith Arith Bool Lia.
From V.C12 Require Import Model Proofs Frames.
Import ListNotations.
Local Open Scope N_scope.

(* what "no trace" means, query by query *)
Definition untouched (s s' : state) : Prop :=
  (forall a, exists_of (dat s') a = exists_of (dat s) a) /\
  (forall a, nonce_of (dat s') a = nonce_of (dat s) a) /\
  (forall a, code_of (dat s') a = code_of (dat s) a) /\
  (forall a, suicided_of (dat s') a = suicided_of (dat s) a) /\
  (forall a, bal (dat s') a = bal (dat s) a) /\
  (forall a k, state_of (dat s') a k = state_of (dat s) a k) /\
  (forall a k, tstor (dat s') a k = tstor (dat s) a k) /\
  (forall a, acl (dat s') a = acl (dat s) a) /\
  refund (dat s') = refund (dat s) /\
  (forall h, logs (dat s') h = logs (dat s) h) /\
  logsize (dat s') = logsize (dat s) /\
  journal s' = journal s /\ revs s' = revs s.

Lemma noop_untouched s s' : noop s s' -> untouched s s'.
Proof.
  intros ([Ho Hs Hb Ht Ha Hr Hl Hz] & J & R & _).
  unfold untouched, exists_of, nonce_of, code_of, suicided_of, state_of.
  splits; auto; intros; try rewrite Ho; auto. rewrite Hs; auto.
Qed.

Lemma same_untouched s s' : same s s' -> forall a k,
  exists_of (dat s') a = exists_of (dat s) a /\ nonce_of (dat s') a = nonce_of (dat s) a /\
  code_of (dat s') a = code_of (dat s) a /\ suicided_of (dat s') a = suicided_of (dat s) a /\
  bal (dat s') a = bal (dat s) a /\ state_of (dat s') a k = state_of (dat s) a k /\
  tstor (dat s') a k = tstor (dat s) a k /\ acl (dat s') a = acl (dat s) a /\
  refund (dat s') = refund (dat s) /\ logs (dat s') = logs (dat s) /\ journal s' = journal s.
Proof. intros [D J] a k. rewrite D. splits; auto. Qed.

Lemma failed_call_noop progs fuel cx kind target value s o l s' :
  wf s -> do_call (run progs fuel) cx kind target value s = (o, l, s') -> is_fail o = true -> untouched s s'.
Proof.
  intros W H F. apply noop_untouched.
  destruct (do_call_ok progs (run progs fuel) (run_ok progs fuel) _ _ _ _ _ _ _ _ W H) as (_ & N & _). auto.
Qed.

Lemma failed_create_noop progs fuel cx value init s o l s' :
  wf s -> do_create progs (run progs fuel) cx value init s = (o, l, s') -> is_fail o = true ->
  untouched s s' \/
  exists address orc, oracle s = address :: orc /\ untouched (create_pre cx address orc s) s'.
Proof.
  intros W H F.
  destruct (do_create_ok progs (run progs fuel) (run_ok progs fuel) _ _ _ _ _ _ _ W H) as (_ & N & _).
  destruct (N F) as [N1 | (a & orc & O & N2)]; [left | right; exists a, orc; split; auto]; apply noop_untouched; auto.
Qed.

Lemma static_call_pure progs fuel cx target value s o l s' :
  wf s -> custom_free progs -> pc_exist (dat s) ->
  do_call (run progs fuel) cx KStatic target value s = (o, l, s') -> same s s'.
Proof. intros W CF PE H. eapply static_call_same; eauto. apply run_ok. Qed.

Lemma static_frame_pure progs fuel cx c s o l s' :
  wf s -> custom_free progs -> pc_exist (dat s) -> static cx = true ->
  run progs fuel cx c s = (o, l, s') -> same s s'.
Proof. intros W CF PE St H. destruct (run_ok progs fuel _ _ _ _ _ _ W H) as (_ & S & _). apply S; auto. Qed.

Lemma failed_authcall_noop progs fuel cx authority target value s o l s' :
  wf s -> do_authcall (run progs fuel) cx authority target value s = (o, l, s') -> is_fail o = true ->
  untouched s s' \/ untouched (authcall_pre authority s) s'.
Proof.
  intros W H F.
  destruct (do_authcall_ok progs (run progs fuel) (run_ok progs fuel) _ _ _ _ _ _ _ _ W H) as (_ & N & _).
  destruct (N F); [left | right]; apply noop_untouched; auto.
Qed.

Lemma wf_prepare th ti s orc g : wf s -> wf (with_gas (with_oracle (prepare th ti s) orc) g).
Proof. auto. Qed.

Lemma exec_top_ok progs fuel t s o l s' :
  wf s -> exec_top progs fuel t s = (o, l, s') ->
  good s s' /\ (is_fail o = true -> match t_kind t with
                                     | TCall _ _ => untouched s s'
                                     | TCreate _ _ => untouched s s' \/
                                         exists address orc, oracle s = address :: orc /\
                                           untouched (create_pre (mkCtx (t_origin t) false 0 (t_origin t)) address orc s) s'
                                     | TNone => untouched s s'
                                     end).
Proof.
  intros W H. unfold exec_top in H. destruct (t_kind t).
  - destruct (do_call_ok progs (run progs fuel) (run_ok progs fuel) _ _ _ _ _ _ _ _ W H) as (G & N & _).
    split; auto. intros F. apply noop_untouched; auto.
  - destruct (do_create_ok progs (run progs fuel) (run_ok progs fuel) _ _ _ _ _ _ _ W H) as (G & _ & _).
    split; auto. intros F. eapply failed_create_noop; eauto.
  - inversion H; subst. split; [apply good_refl; auto | intros F; discriminate].
Qed.

(* only the log list of the transaction's own hash can change; the others are exactly as they were *)
Lemma tx_logs_own progs fuel t s o l s' :
  wf s -> exec_tx progs fuel t s = (o, l, s') ->
  forall h, h <> t_hash t -> logs (dat s') h = logs (dat s) h.
Proof.
  intros W H h Hh. unfold exec_tx in H.
  destruct (exec_top_ok _ _ _ _ _ _ _ (wf_prepare (t_hash t) (t_index t) s (t_oracle t) (t_gas t) W) H) as ([_ L _] & _).
  rewrite (L h); auto.
Qed.

Lemma failed_tx_logs progs fuel target value th ti orig orc s o l s' :
  wf s -> exec_tx progs fuel (mkTx th ti orig (TCall target value) orc) s = (o, l, s') -> is_fail o = true ->
  forall h, logs (dat s') h = logs (dat s) h.
Proof.
  intros W H F h. unfold exec_tx in H.
  destruct (exec_top_ok _ _ _ _ _ _ _ (wf_prepare th ti s orc big_gas W) H) as (_ & N).
  specialize (N F). cbn in N. destruct N as (_ & _ & _ & _ & _ & _ & _ & _ & _ & L & _). rewrite L. reflexivity.
Qed.

Lemma prepare_fresh th ti s :
  (forall a, acl (dat (prepare th ti s)) a = false) /\
  (forall a k, tstor (dat (prepare th ti s)) a k = 0) /\
  (logs (dat s) th = [] -> logs (dat (prepare th ti s)) (thash (prepare th ti s)) = []) /\
  thash (prepare th ti s) = th /\ txindex (prepare th ti s) = ti /\
  (forall a, objs (dat (prepare th ti s)) a = objs (dat s) a) /\
  (forall a k, stor (dat (prepare th ti s)) a k = stor (dat s) a k) /\
  (forall a, bal (dat (prepare th ti s)) a = bal (dat s) a).
Proof. cbn. splits; auto. Qed.

(* ---------- concrete histories ---------- *)
Definition d0 : data :=
  mkData (fun a => if a =? 1 then Some (mkAcct 5 0 false)
                   else if a =? 11 then Some (mkAcct 1 1 false)
                   else if a =? 12 then Some (mkAcct 1 2 false)
                   else if a =? 900 then Some (mkAcct 0 0 false) else None)
         (fun a k => if (a =? 12) && (k =? 1) then 9
                     else if (a =? 900) && (k =? 24) then 800        (* contract 12 is a validator's account: stake 800 *)
                     else if (a =? 900) && (k =? 25) then 1 else 0)
         (fun a => if a =? 1 then 1000 else if a =? 11 then 100 else if a =? 12 then 7 * unit18 else 0)
         (fun _ _ => 0) (fun _ => false) 0 (fun _ => []) 0.
Definition s0 : state := mkState d0 [] [] 0 0 0 [].

(* contract 11 calls 12 with value 7; 12 writes storage, transient storage, a log, creates a contract and reverts *)
Definition progs0 : list prog :=
  [ mkProg [ASstore 1 4; ACall KCall 12 7; ALog 3] EStop;
    mkProg [ASstore 1 2; ATstore 1 5; ALog 8; ACreate 2 3] ERevert;
    mkProg [ASstore 2 2] EStop ].
(* oracle: no out-of-gas for the frames of 11 and 12, the created address, no out-of-gas for the creation code *)
Definition tx0 : tx := mkTx 1 0 1 (TCall 11 0) [0; 0; 100; 0].

Lemma wf_s0 : wf s0.
Proof. constructor. Qed.

(* the code as it was: transient storage survives the next Prepare *)
Definition progsT : list prog := [ mkProg [ATstore 1 7] EStop; mkProg [] EStop ].

Lemma transient_leak_old :
  let '(_, _, s1) := exec_tx progsT 5 (mkTx 1 0 1 (TCall 11 0) []) s0 in
  tstor (dat (prepare_old 2 1 s1)) 11 1 = 7 /\ tstor (dat (prepare 2 1 s1)) 11 1 = 0.
Proof. vm_compute. split; reflexivity. Qed.

(* the second log channel: the inner frame logs and reverts, the outer frame succeeds and returns that log,
   while the journalled log list of the transaction is empty; and CALLCODE drops the logs of its callee *)
Definition progsL : list prog := [ mkProg [ACall KCall 12 0] EStop; mkProg [ALog 8] ERevert ].
Definition progsC : list prog := [ mkProg [ACall KCallCode 12 0] EStop; mkProg [ALog 8] EStop ].

Lemma returned_logs_leak :
  let '(o, l, s1) := exec_tx progsL 5 (mkTx 1 0 1 (TCall 11 0) []) s0 in
  o = OOk /\ length l = 1%nat /\ logs (dat s1) 1 = [].
Proof. vm_compute. splits; reflexivity. Qed.

Lemma returned_logs_drop :
  let '(o, l, s1) := exec_tx progsC 5 (mkTx 1 0 1 (TCall 11 0) []) s0 in
  o = OOk /\ l = [] /\ length (logs (dat s1) 1) = 1%nat.
Proof. vm_compute. splits; reflexivity. Qed.

(* a creation whose code deposit cannot be paid (oracle entry 1000 for the creation frame) FAILS - CREATE pushes 0 -
   and is not reverted: the new account (nonce 1), the constructor's storage write and the endowment stay *)
Definition progsD : list prog := [ mkProg [ACreate 3 2] EStop; mkProg [ASstore 1 6] (EReturn 3); mkProg [] EStop ].

Lemma codestore_not_reverted :
  let '(o, l, s1) := do_create progsD (run progsD 5) (mkCtx 11 false 1 1) 3 2 (with_oracle s0 [100; 1000]) in
  o = OCodeStore /\ exists_of (dat s1) 100 = true /\ nonce_of (dat s1) 100 = 1 /\ state_of (dat s1) 100 1 = 6 /\
  bal (dat s1) 100 = 3 /\ code_of (dat s1) 100 = 0.
Proof. vm_compute. splits; reflexivity. Qed.

(* the custom opcodes run in a static frame: STATICCALL into contract 12 (a validator's account) executing STAKE 2 *)
Definition progsS : list prog := [ mkProg [ACall KStatic 12 0] EStop; mkProg [AStake 2] EStop ].

Lemma static_stake_modifies :
  let '(o, l, s1) := exec_tx progsS 5 (mkTx 1 0 1 (TCall 11 0) []) s0 in
  o = OOk /\ reg_stake (dat s1) 12 = 802 /\ bal (dat s1) 12 = 5 * unit18.
Proof. vm_compute. splits; reflexivity. Qed.

(* ... and AUTH + AUTHCALL(value 9) in a static frame: authority 50's nonce bumped, 9 moved from the origin to 13 *)
Definition progsA : list prog := [ mkProg [ACall KStatic 12 0] EStop; mkProg [AAuth 12 50; AAuthCall 0 13 9] EStop ].

Lemma static_authcall_modifies :
  let '(o, l, s1) := exec_tx progsA 5 (mkTx 1 0 1 (TCall 11 0) []) s0 in
  o = OOk /\ nonce_of (dat s1) 50 = 1 /\ bal (dat s1) 1 = 991 /\ bal (dat s1) 13 = 9.
Proof. vm_compute. splits; reflexivity. Qed.

(* a CALL to an absent precompile inside a static frame creates its account *)
Definition progsP : list prog := [ mkProg [ACall KStatic 12 0] EStop; mkProg [ACall KCall 21 0] EStop ].

Lemma static_precompile_touch :
  let '(o, l, s1) := exec_tx progsP 5 (mkTx 1 0 1 (TCall 11 0) []) s0 in
  o = OOk /\ exists_of d0 21 = false /\ exists_of (dat s1) 21 = true.
Proof. vm_compute. splits; reflexivity. Qed.

(* a frame that executed STAKE / UNSTAKE and then fails: registry, escrow and balance are back (instance of the
   failed-frame theorem; the primitives of the custom opcodes are journalled) *)
Definition progsU : list prog := [ mkProg [ACall KCall 12 0] EStop; mkProg [AStake 2; AUnstake 500] ERevert ].

Lemma reverted_stake_undone :
  let '(o, l, s1) := exec_tx progsU 5 (mkTx 1 0 1 (TCall 11 0) []) s0 in
  o = OOk /\ reg_stake (dat s1) 12 = 800 /\ reg_status (dat s1) 12 = 1 /\ bal (dat s1) 12 = 7 * unit18 /\
  state_of (dat s1) 901 1001 = 0 /\ exists_of (dat s1) 901 = false.
Proof. vm_compute. splits; reflexivity. Qed.

(* ---------- the opcode table of today's sources (Table.v, generated) ---------- *)
From V.C12 Require Import Table Harness.

Definition unguarded_today : list N := [235; 238; 239; 247].   (* UNSTAKEALL, STAKE, UNSTAKE, AUTHCALL *)

Lemma table_bad_today : table_bad today_table = unguarded_today.
Proof. vm_compute. reflexivity. Qed.

Lemma table_rest_ok : forall r, In r today_table ->
  existsb (N.eqb (fst (fst (fst r)))) unguarded_today = false -> row_ok r = true.
Proof.
  assert (H : forallb (fun r => existsb (N.eqb (fst (fst (fst r)))) unguarded_today || row_ok r) today_table = true)
    by (vm_compute; reflexivity).
  rewrite forallb_forall in H. intros r I E. specialize (H r I). rewrite E in H. exact H.
Qed.

(* ---------- sequences of transactions on one state object (one block) ---------- *)
Fixpoint exec_txs (progs : list prog) (fuel : nat) (ts : list tx) (s : state) : state :=
  match ts with
  | [] => s
  | t :: r => let '(_, _, s') := exec_tx progs fuel t s in exec_txs progs fuel r s'
  end.

Lemma exec_tx_wf progs fuel t s o l s' : wf s -> exec_tx progs fuel t s = (o, l, s') -> wf s'.
Proof.
  intros W H. unfold exec_tx in H.
  destruct (exec_top_ok _ _ _ _ _ _ _ (wf_prepare (t_hash t) (t_index t) s (t_oracle t) (t_gas t) W) H) as ([_ _ W'] & _). exact W'.
Qed.

(* the logs a receipt takes (GetLogs of its hash right after its transaction) are not changed by any later
   transaction of the block with a different hash *)
Lemma later_txs_keep_logs progs fuel : forall ts s h,
  wf s -> (forall t, In t ts -> t_hash t <> h) -> logs (dat (exec_txs progs fuel ts s)) h = logs (dat s) h.
Proof.
  induction ts as [|t r IH]; intros s h W D; cbn [exec_txs]; auto.
  destruct (exec_tx progs fuel t s) as [[o l] s'] eqn:E.
  rewrite IH.
  - eapply tx_logs_own; eauto. intros X. apply (D t); [left; auto | auto].
  - eapply exec_tx_wf; eauto.
  - intros t' I. apply D. right; auto.
Qed.

Lemma wf_fresh d th ti orc : wf (mkState d [] [] 0 th ti orc).
Proof. constructor. Qed.

(* ---------- gas ---------- *)
(* no call tree hands back more gas than it was given (the frame-level, cross-frame form of "gas is bounded") *)
Lemma gas_bounded_call progs fuel cx kind target value s o l s' :
  wf s -> do_call (run progs fuel) cx kind target value s = (o, l, s') -> gas s' <= gas s.
Proof. intros W H. destruct (do_call_ok progs (run progs fuel) (run_ok progs fuel) _ _ _ _ _ _ _ _ W H) as (_ & _ & _ & L). exact L. Qed.

Lemma gas_bounded_create progs fuel cx value init s o l s' :
  wf s -> do_create progs (run progs fuel) cx value init s = (o, l, s') -> gas s' <= gas s.
Proof. intros W H. destruct (do_create_ok progs (run progs fuel) (run_ok progs fuel) _ _ _ _ _ _ _ W H) as (_ & _ & L). exact L. Qed.

Lemma gas_bounded_run progs fuel cx c s o l s' :
  wf s -> run progs fuel cx c s = (o, l, s') -> gas s' <= gas s.
Proof. intros W H. destruct (run_ok progs fuel _ _ _ _ _ _ W H) as (_ & _ & L). exact L. Qed.

Lemma gas_bounded_tx progs fuel t s o l s' :
  wf s -> exec_tx progs fuel t s = (o, l, s') -> gas s' <= t_gas t.
Proof.
  intros W H. unfold exec_tx, exec_top in H.
  pose proof (wf_prepare (t_hash t) (t_index t) s (t_oracle t) (t_gas t) W) as W1.
  destruct (t_kind t).
  - apply (gas_bounded_call _ _ _ _ _ _ _ _ _ _ W1) in H. exact H.
  - apply (gas_bounded_create _ _ _ _ _ _ _ _ _ W1) in H. exact H.
  - inversion H; subst. cbn. lia.
Qed.

(* a frame that was entered (its Snapshot taken) and ended with an error other than REVERT hands back no gas *)
Lemma failed_frame_no_gas progs fuel cx payer target value s c l s' :
  wf s -> call_body (run progs fuel) cx (fst (snapshot s)) payer target value (snd (snapshot s)) = (OErr c, l, s') ->
  gas s' = 0.
Proof. intros W H. eapply call_body_error_no_gas; eauto. apply run_ok. Qed.
